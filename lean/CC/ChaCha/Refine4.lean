/-
  CC.ChaCha.Refine4 — the two counter layouts (64-bit and IETF 32-bit) as instances of `Lay`,
  seeks, and the position query.
-/
import CC.ChaCha.Refine3
namespace CC.ChaCha
open CC CC.Simd CC.ChaCha.Spec

/-! ### 64-bit counter -/

/-- state whose 64-bit counter lane is `c` (key and stream id from `g`) -/
def stateAt64 (g : Guts) (c : BitVec 64) : Guts := { g with d := pack64 c (lane64 g.d 1) }

theorem addLo_pack64 (c h k : BitVec 64) : addLo (pack64 c h) k = pack64 (c + k) h := by
  unfold addLo zip64 lane64 pack64; bv_decide

theorem lane64_pack64_1 (c h : BitVec 64) : lane64 (pack64 c h) 1 = h := by
  unfold lane64 pack64; bv_decide

theorem adv_stateAt64 (g : Guts) (c k : BitVec 64) : adv (stateAt64 g c) k = stateAt64 g (c + k) := by
  simp only [adv, stateAt64, addLo_pack64]

def Lay64 (g : Guts) : Lay where
  T := 2 ^ 64
  hT := Nat.le_refl _
  hT0 := by decide
  st := fun n => stateAt64 g (BitVec.ofNat 64 n)
  fix := id
  adv_st := by
    intro n k _
    simp only [adv_stateAt64, BitVec.ofNat_add]
  fix_adv := by
    intro n k _
    simp only [id, adv_stateAt64, BitVec.ofNat_add]

theorem seek64_eq (g : Guts) (c bc : BitVec 64) :
    seek64 Mach.ref (stateAt64 g c) bc = stateAt64 g bc := by
  simp only [seek64, ref_insert32, stateAt64]
  have : ∀ d : BitVec 128, CC.Simd.insert32 (CC.Simd.insert32 d ((bc >>> 32).setWidth 32) 1) (bc.setWidth 32) 0
      = pack64 bc (lane64 d 1) := by
    intro d; unfold CC.Simd.insert32 lane32 pack32 pack64 lane64; bv_decide
  rw [this, lane64_pack64_1]

/-! ### IETF: 32-bit counter, word 13 is nonce -/

def stateAt32 (g : Guts) (c : BitVec 32) : Guts :=
  { g with d := pack32 c (lane32 g.d 1) (lane32 g.d 2) (lane32 g.d 3) }

/-- what `ChaChaAny::try_apply_keystream` does after the call for the 12-byte-nonce type -/
def fix32 (g : Guts) (s : Guts) : Guts :=
  { s with d := pack32 (lane32 s.d 0) (lane32 g.d 1) (lane32 s.d 2) (lane32 s.d 3) }

theorem addLo_pack32_nocarry (c n0 a b : BitVec 32) (k : BitVec 64)
    (hk : k < 4294967296#64) (hs : c.setWidth 64 + k < 4294967296#64) :
    addLo (pack32 c n0 a b) k = pack32 (c + k.setWidth 32) n0 a b := by
  unfold addLo zip64 lane64 pack64 pack32; bv_decide

theorem fix_addLo_pack32 (c n0 a b : BitVec 32) (k : BitVec 64) :
    pack32 (lane32 (addLo (pack32 c n0 a b) k) 0) n0 (lane32 (addLo (pack32 c n0 a b) k) 2)
        (lane32 (addLo (pack32 c n0 a b) k) 3) = pack32 (c + k.setWidth 32) n0 a b := by
  unfold addLo zip64 lane64 pack64 pack32 lane32; bv_decide

theorem ofNat32_add (n k : Nat) :
    BitVec.ofNat 32 n + (BitVec.ofNat 64 k).setWidth 32 = BitVec.ofNat 32 (n + k) := by
  apply BitVec.eq_of_toNat_eq
  simp [BitVec.toNat_add, BitVec.toNat_ofNat]

def Lay32 (g : Guts) : Lay where
  T := 2 ^ 32
  hT := by decide
  hT0 := by decide
  st := fun n => stateAt32 g (BitVec.ofNat 32 n)
  fix := fix32 g
  adv_st := by
    intro n k h
    have hk : BitVec.ofNat 64 k < 4294967296#64 := by
      simp [BitVec.lt_def, BitVec.toNat_ofNat]; omega
    have hs : (BitVec.ofNat 32 n).setWidth 64 + BitVec.ofNat 64 k < 4294967296#64 := by
      simp [BitVec.lt_def, BitVec.toNat_add, BitVec.toNat_setWidth, BitVec.toNat_ofNat]; omega
    simp only [adv, stateAt32]
    rw [addLo_pack32_nocarry _ _ _ _ _ hk hs, ofNat32_add]
  fix_adv := by
    intro n k _
    simp only [adv, stateAt32, fix32]
    rw [fix_addLo_pack32, ofNat32_add]

theorem seek32_eq (g : Guts) (c bc : BitVec 32) :
    seek32 Mach.ref (stateAt32 g c) bc = stateAt32 g bc := by
  have hi : ∀ x y z : BitVec 32, CC.Simd.insert32 (pack32 c x y z) bc 0 = pack32 bc x y z := by
    intro x y z; unfold CC.Simd.insert32 lane32 pack32; bv_decide
  simp only [seek32, ref_insert32, stateAt32, hi]

end CC.ChaCha
