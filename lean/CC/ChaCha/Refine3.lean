/-
  CC.ChaCha.Refine3 — layout-generic refinement: the buffer at absolute position `pos`.
-/
import CC.ChaCha.Refine2
namespace CC.ChaCha
open CC CC.Simd CC.ChaCha.Spec

/-- A counter layout: `T` blocks in total, `st n` the guts state whose next block has index `n`,
    `fix` the post-processing the cipher applies to the state after a call (identity for the
    64-bit-counter variants, "restore nonce word 13" for the IETF variant). -/
structure Lay where
  T : Nat
  hT : T ≤ 2 ^ 64
  hT0 : 0 < T
  st : Nat → Guts
  fix : Guts → Guts
  adv_st : ∀ n k, n + k < T → adv (st n) (BitVec.ofNat 64 k) = st (n + k)
  fix_adv : ∀ n k, n + k ≤ T → fix (adv (st n) (BitVec.ofNat 64 k)) = st (n + k)

/-- keystream bytes `[pos, pos+m)` of the layout (block `i` = block generated from `st i`) -/
def Lay.ks (L : Lay) (dr pos m : Nat) : List (BitVec 8) :=
  ((ksBlocks dr ((pos % 64 + m + 63) / 64) (L.st (pos / 64))).drop (pos % 64)).take m

/-- number of blocks generated so far -/
def blocksDone (b : Buffer) (pos : Nat) : Nat := if b.hav > 0 then pos / 64 + 1 else pos / 64

/-- The refinement relation (state clause in its "before `fix`" form): buffer `b` is at absolute
    position `pos` of layout `L`. -/
structure R' (L : Lay) (dr : Nat) (b : Buffer) (pos : Nat) : Prop where
  hpos : pos ≤ 64 * L.T
  hout : b.out.length = 64
  hlo : -63 ≤ b.hav
  hhi : b.hav ≤ 63
  hrem : pos % 64 = if b.hav > 0 then 64 - b.hav.toNat else (-b.hav).toNat
  hst1 : blocksDone b pos < L.T → b.state = L.st (blocksDone b pos)
  hst2 : L.fix b.state = L.st (blocksDone b pos)
  hbuf : b.hav > 0 → b.out = blockAt dr (L.st (pos / 64))
  hlen : b.len = (L.T - blocksDone b pos) % 2 ^ 64
  hfr0 : b.fresh = false → L.T - blocksDone b pos < 2 ^ 64
  hfr1 : b.fresh = true → 2 ^ 64 - 1 ≤ L.T - blocksDone b pos ∧ (b.hav < 0 → 2 ^ 64 ≤ L.T - blocksDone b pos)

/-- … and after the cipher applied `fix`: the state is exactly `st n`. -/
def R (L : Lay) (dr : Nat) (b : Buffer) (pos : Nat) : Prop :=
  R' L dr b pos ∧ b.state = L.st (blocksDone b pos)

theorem Lay.fix_st (L : Lay) (n : Nat) (h : n ≤ L.T) : L.fix (L.st n) = L.st n := by
  have := L.fix_adv n 0 (by omega)
  have e : BitVec.ofNat 64 0 = 0#64 := rfl
  rw [e, adv_zero] at this
  exact this

theorem blocksDone_le (L : Lay) (b : Buffer) (pos : Nat) (hpos : pos ≤ 64 * L.T)
    (hrem : pos % 64 = if b.hav > 0 then 64 - b.hav.toNat else (-b.hav).toNat) (hhi : b.hav ≤ 63) :
    blocksDone b pos ≤ L.T := by
  unfold blocksDone
  by_cases h : b.hav > 0
  · simp only [h, if_true] at hrem ⊢; omega
  · simp only [h, if_false]; omega

theorem xorBytes_split' (data b c : List (BitVec 8)) :
    xorBytes data (b ++ c) = xorBytes (data.take b.length) b ++ xorBytes (data.drop b.length) c := by
  induction b generalizing data with
  | nil => simp [xorBytes]
  | cons y ys ih =>
    cases data with
    | nil => simp [xorBytes]
    | cons x xs =>
      simp only [xorBytes, List.cons_append, List.zipWith_cons_cons, List.length_cons,
        List.take_succ_cons, List.drop_succ_cons, List.cons.injEq, true_and]
      exact ih xs

theorem wsub64_mod (T n k : Nat) (hT : T ≤ 2 ^ 64) (hn : n + k ≤ T) :
    wsub64 ((T - n) % 2 ^ 64) k = (T - (n + k)) % 2 ^ 64 := by
  unfold wsub64; omega

/-- the lazy refill keeps the buffer at the same position -/
theorem lazyFill_R' (L : Lay) (dr : Nat) (b : Buffer) (pos : Nat) (h : R L dr b pos) :
    R' L dr (lazyFill dr b) pos ∧ 0 ≤ (lazyFill dr b).hav := by
  obtain ⟨h, hst⟩ := h
  unfold lazyFill
  by_cases hneg : b.hav < 0
  · have hlo := h.hlo
    have hrem := h.hrem
    have hn : ¬ b.hav > 0 := by omega
    simp only [hn, if_false] at hrem
    have hq : pos / 64 < L.T := by
      have := h.hpos; omega
    have hbd : blocksDone b pos = pos / 64 := by simp [blocksDone, hn]
    simp only [hneg, if_true]
    have hpos' : b.hav + 64 > 0 := by omega
    have e1 : BitVec.ofNat 64 1 = (1 : BitVec 64) := rfl
    have hlen := h.hlen
    have hT := L.hT
    rw [hbd] at hst hlen
    refine ⟨⟨h.hpos, blockAt_length _ _, by show -63 ≤ b.hav + 64; omega, by show b.hav + 64 ≤ 63; omega, ?_, ?_, ?_, ?_, ?_, ?_, ?_⟩, by show 0 ≤ b.hav + 64; omega⟩
    · simp only [hpos', if_true]; omega
    · simp only [blocksDone, hpos', if_true]
      intro hlt
      rw [hst, ← e1, L.adv_st _ _ hlt]
    · simp only [blocksDone, hpos', if_true]
      rw [hst, ← e1, L.fix_adv _ _ (by omega)]
    · intro _; simp only []; rw [hst]
    · simp only [blocksDone, hpos', if_true]
      rw [hlen]
      exact wsub64_mod L.T (pos / 64) 1 L.hT (by omega)
    · intro hf; have := h.hfr0 hf; simp only [blocksDone, hpos', if_true]; rw [hbd] at this; omega
    · intro hf; have := h.hfr1 hf; simp only [blocksDone, hpos', if_true]; rw [hbd] at this
      refine ⟨by omega, by intro; omega⟩
  · simp only [hneg, if_false]
    refine ⟨⟨h.hpos, h.hout, h.hlo, h.hhi, h.hrem, fun _ => hst, ?_, h.hbuf, h.hlen, h.hfr0, h.hfr1⟩, by omega⟩
    rw [hst]; exact L.fix_st _ (blocksDone_le L b pos h.hpos h.hrem h.hhi)



/-- the keystream the buffered bytes and the following blocks provide is `L.ks` -/
theorem applyOut_eq (L : Lay) (dr : Nat) (b1 : Buffer) (pos : Nat) (data : List (BitVec 8))
    (h : R' L dr b1 pos) (h0 : 0 ≤ b1.hav)
    (hfit : pos + data.length ≤ 64 * L.T) :
    applyOut dr b1 data = xorBytes data (L.ks dr pos data.length) := by
  have hrem := h.hrem
  have hhi := h.hhi
  have hT := L.hT
  unfold applyOut Lay.ks
  dsimp only
  rw [← xorBytes_take]
  generalize hm : data.length = m at *
  by_cases hp : b1.hav > 0
  · -- some bytes buffered
    simp only [hp, if_true] at hrem
    have hbuf := h.hbuf hp
    generalize hhv : b1.hav.toNat = hv at *
    have hv1 : 1 ≤ hv ∧ hv ≤ 63 := by omega
    have hK : (pos % 64 + m + 63) / 64 = (m - min hv m + 63) / 64 + 1 := by omega
    have hbd : blocksDone b1 pos = pos / 64 + 1 := by simp [blocksDone, hp]
    rw [hK, ksBlocks, hbuf]
    rw [List.drop_append_of_le_length (by rw [blockAt_length]; omega)]
    rw [xorBytes_split']
    have hl : (List.drop (pos % 64) (blockAt dr (L.st (pos / 64)))).length = hv := by
      rw [List.length_drop, blockAt_length]; omega
    rw [hl]
    have e64 : 64 - hv = pos % 64 := by omega
    rw [e64]
    by_cases hmv : m ≤ hv
    · -- everything from the buffer
      have hmin : min hv m = m := by omega
      have hd : data.drop hv = [] := by
        apply List.drop_eq_nil_of_le; omega
      have hd' : data.drop m = [] := by
        apply List.drop_eq_nil_of_le; omega
      have ht : data.take hv = data.take m := by
        rw [List.take_of_length_le (by omega), List.take_of_length_le (by omega)]
      simp only [hmin, hd, hd', ht, xorBytes_nil_left]
    · have hmin : min hv m = hv := by omega
      have hlt : pos / 64 + 1 < L.T := by omega
      have hst := h.hst1 (by rw [hbd]; exact hlt)
      rw [hbd] at hst
      have e1 : BitVec.ofNat 64 1 = (1 : BitVec 64) := rfl
      have := L.adv_st (pos / 64) 1 (by omega)
      rw [e1] at this
      simp only [hmin, hst, this]
  · -- nothing buffered: at a block boundary
    have hz : b1.hav = 0 := by omega
    simp only [hp, if_false, hz] at hrem
    have hr0 : pos % 64 = 0 := by simpa using hrem
    have hbd : blocksDone b1 pos = pos / 64 := by simp [blocksDone, hp]
    simp only [hz, hr0, Int.toNat_zero, Nat.zero_min, List.take_zero, xorBytes_nil_left, List.nil_append,
      List.drop_zero, Nat.sub_zero, Nat.zero_add]
    by_cases hm0 : m = 0
    · have : data = [] := List.eq_nil_of_length_eq_zero (by omega)
      simp [this, xorBytes]
    · have hlt : pos / 64 < L.T := by omega
      have hst := h.hst1 (by rw [hbd]; exact hlt)
      rw [hbd] at hst
      rw [hst]



theorem err_iff (L : Lay) (dr : Nat) (b1 : Buffer) (pos m : Nat)
    (h : R' L dr b1 pos) (h0 : 0 ≤ b1.hav) (hm : m < 2 ^ 64) :
    (b1.len < (m - min b1.hav.toNat m + 63) / 64 ∧ b1.fresh = false) ↔ ¬ (pos + m ≤ 64 * L.T) := by
  have hrem := h.hrem
  have hhi := h.hhi
  have hT := L.hT
  have hlen := h.hlen
  have hpos := h.hpos
  have hf0 := h.hfr0
  have hf1 := h.hfr1
  generalize hhv : b1.hav.toNat = hv at *
  by_cases hp : b1.hav > 0
  · simp only [hp, if_true] at hrem
    have hbd : blocksDone b1 pos = pos / 64 + 1 := by simp [blocksDone, hp]
    rw [hbd] at hlen hf0 hf1
    cases hfr : b1.fresh
    · have := hf0 hfr
      simp only [and_true]
      omega
    · have := (hf1 hfr).1
      simp only [Bool.true_eq_false, and_false, false_iff, Decidable.not_not]
      omega
  · have hz : b1.hav = 0 := by omega
    simp only [hp, if_false] at hrem
    have hbd : blocksDone b1 pos = pos / 64 := by simp [blocksDone, hp]
    rw [hbd] at hlen hf0 hf1
    cases hfr : b1.fresh
    · have := hf0 hfr
      simp only [and_true]
      omega
    · have := (hf1 hfr).1
      simp only [Bool.true_eq_false, and_false, false_iff, Decidable.not_not]
      omega



theorem applyOk_R' (L : Lay) (dr : Nat) (b1 : Buffer) (pos m : Nat)
    (h : R' L dr b1 pos) (h0 : 0 ≤ b1.hav) (hfit : pos + m ≤ 64 * L.T) :
    R' L dr (applyOk dr b1 m) (pos + m) := by
  have hrem := h.hrem
  have hhi := h.hhi
  have hT := L.hT
  have hlen := h.hlen
  have hf0 := h.hfr0
  have hf1 := h.hfr1
  have hst1 := h.hst1
  have hst2 := h.hst2
  have hbuf := h.hbuf
  unfold applyOk
  dsimp only
  generalize hhv : b1.hav.toNat = hv at *
  generalize hhr : min hv m = hr at *
  generalize hdl : m - hr = dl at *
  generalize hneed : (dl + 63) / 64 = need at *
  generalize hn : blocksDone b1 pos = n at *
  -- the new `have` value
  generalize hhav' : (if dl = 0 then ((hv - hr : Nat) : Int) else ((64 * need - dl : Nat) : Int)) = hav' at *
  have hn_def : n = if b1.hav > 0 then pos / 64 + 1 else pos / 64 := by rw [← hn]; rfl
  have hav'_rng : 0 ≤ hav' ∧ hav' ≤ 63 := by
    rw [← hhav']; split <;> omega
  have hrem' : (pos + m) % 64 = if hav' > 0 then 64 - hav'.toNat else (-hav').toNat := by
    rw [← hhav']
    by_cases hp : b1.hav > 0
    · simp only [hp, if_true] at hrem
      by_cases hd0 : dl = 0
      · simp only [hd0, if_true]; split <;> omega
      · simp only [hd0, if_false]; split <;> omega
    · simp only [hp, if_false] at hrem
      by_cases hd0 : dl = 0
      · simp only [hd0, if_true]; split <;> omega
      · simp only [hd0, if_false]; split <;> omega
  have hbd' : ∀ (st : Guts) (o : List (BitVec 8)) (l : Nat) (fr : Bool),
      blocksDone (Buffer.mk st o hav' l fr) (pos + m) = n + need := by
    intro st o l fr
    simp only [blocksDone]
    rw [hn_def, ← hhav']
    by_cases hp : b1.hav > 0
    · simp only [hp, if_true] at hrem ⊢
      by_cases hd0 : dl = 0
      · simp only [hd0, if_true]; split <;> omega
      · simp only [hd0, if_false]; split <;> omega
    · simp only [hp, if_false] at hrem ⊢
      by_cases hd0 : dl = 0
      · simp only [hd0, if_true]; split <;> omega
      · simp only [hd0, if_false]; split <;> omega
  have hnT : n + need ≤ L.T := by
    rw [hn_def]
    by_cases hp : b1.hav > 0
    · simp only [hp, if_true] at hrem ⊢; omega
    · simp only [hp, if_false] at hrem ⊢; omega
  refine ⟨hfit, ?_, (by show -63 ≤ hav'; omega), (by show hav' ≤ 63; omega), hrem', ?_, ?_, ?_, ?_, ?_, ?_⟩
  · -- out length
    dsimp only; split
    · exact h.hout
    · exact blockAt_length _ _
  · -- hst1
    rw [hbd']; intro hlt; dsimp only
    rw [hst1 (by omega), L.adv_st _ _ hlt]
  · -- hst2
    rw [hbd']; dsimp only
    by_cases hlt : n < L.T
    · rw [hst1 hlt, L.fix_adv _ _ hnT]
    · have hz : need = 0 := by omega
      have e : BitVec.ofNat 64 0 = 0#64 := rfl
      rw [hz, e, adv_zero, hst2, Nat.add_zero]
  · -- hbuf
    dsimp only; intro hpos'
    rw [← hhav'] at hpos'
    by_cases hd0 : dl = 0
    · simp only [hd0, if_true] at hpos'
      have hp : b1.hav > 0 := by omega
      simp only [hp, if_true] at hrem
      have : dl % 256 = 0 := by omega
      simp only [this, if_true]
      rw [hbuf hp]
      have : (pos + m) / 64 = pos / 64 := by omega
      rw [this]
    · simp only [hd0, if_false] at hpos'
      have : ¬ dl % 256 = 0 := by omega
      simp only [this, if_false]
      have hlt : n < L.T := by omega
      rw [hst1 hlt, L.adv_st _ _ (by omega)]
      have : (pos + m) / 64 = n + (need - 1) := by
        rw [hn_def]
        by_cases hp : b1.hav > 0
        · simp only [hp, if_true] at hrem ⊢; omega
        · simp only [hp, if_false] at hrem ⊢; omega
      rw [this]
  · -- hlen
    rw [hbd']; dsimp only
    rw [hlen]; exact wsub64_mod L.T n need L.hT hnT
  · -- hfr0
    rw [hbd']; dsimp only
    intro hf
    cases hfr : b1.fresh
    · have := hf0 hfr; omega
    · have := (hf1 hfr).1
      simp only [hfr, Bool.true_and, beq_eq_false_iff_ne, ne_eq] at hf
      omega
  · -- hfr1
    rw [hbd']; dsimp only
    intro hf
    simp only [Bool.and_eq_true, beq_iff_eq] at hf
    obtain ⟨hfr, hz⟩ := hf
    have := (hf1 hfr).1
    refine ⟨by omega, by intro; omega⟩


/-- One `Buffer::try_apply_keystream` call from a buffer at position `pos`:
    inside the keystream it XORs exactly the keystream bytes `[pos, pos+|data|)` and moves to
    `pos + |data|`; past the end it returns `Err`, leaves the data alone and stays at `pos`.
    It never panics, in either profile. -/
theorem apply_step (L : Lay) (p : Profile) (dr : Nat) (b : Buffer) (pos : Nat) (data : List (BitVec 8))
    (h : R L dr b pos) (hm : data.length < 2 ^ 64) :
    ∃ b', (pos + data.length ≤ 64 * L.T →
              Buffer.tryApply Mach.ref p dr b data = .ok (b', some (xorBytes data (L.ks dr pos data.length)))
              ∧ R' L dr b' (pos + data.length)) ∧
          (¬ pos + data.length ≤ 64 * L.T →
              Buffer.tryApply Mach.ref p dr b data = .ok (b', none) ∧ R' L dr b' pos) := by
  obtain ⟨h1, h0⟩ := lazyFill_R' L dr b pos h
  have hhi := h1.hhi
  have hcore := tryApply_core p dr b data h0 (by omega)
  have herr := err_iff L dr (lazyFill dr b) pos data.length h1 h0 hm
  dsimp only at hcore
  by_cases hfit : pos + data.length ≤ 64 * L.T
  · refine ⟨applyOk dr (lazyFill dr b) data.length, ?_, fun hn => absurd hfit hn⟩
    intro _
    have hne : ¬ ((lazyFill dr b).len < (data.length - min (lazyFill dr b).hav.toNat data.length + 63) / 64 ∧
        (lazyFill dr b).fresh = false) := by
      rw [herr]; exact fun hn => hn hfit
    rw [hcore, if_neg hne, applyOut_eq L dr _ pos data h1 h0 hfit]
    exact ⟨rfl, applyOk_R' L dr _ pos data.length h1 h0 hfit⟩
  · refine ⟨lazyFill dr b, fun hn => absurd hn hfit, ?_⟩
    intro _
    have hyes : ((lazyFill dr b).len < (data.length - min (lazyFill dr b).hav.toNat data.length + 63) / 64 ∧
        (lazyFill dr b).fresh = false) := by
      rw [herr]; exact hfit
    rw [hcore, if_pos hyes]
    exact ⟨rfl, h1⟩

end CC.ChaCha
