/-
  CC.ChaCha.Refine7 — algebra of keystream ranges (byte-at-position characterisation, splitting)
  and of XOR application.
-/
import CC.ChaCha.Refine6
namespace CC.ChaCha
open CC CC.Simd CC.ChaCha.Spec

/-- keystream byte at absolute position `q` -/
def Lay.byteAt (L : Lay) (dr q : Nat) : BitVec 8 := ((blockAt dr (L.st (q / 64)))[q % 64]?).getD 0

theorem ksBlocks_getElem? (L : Lay) (dr k : Nat) : ∀ (n j : Nat), n + k ≤ L.T → j < 64 * k →
    (ksBlocks dr k (L.st n))[j]? = (blockAt dr (L.st (n + j / 64)))[j % 64]? := by
  induction k with
  | zero => intro n j _ hj; omega
  | succ k ih =>
    intro n j hn hj
    simp only [ksBlocks]
    by_cases h64 : j < 64
    · have : j / 64 = 0 := by omega
      have hm : j % 64 = j := by omega
      rw [List.getElem?_append_left (by rw [blockAt_length]; exact h64), this, hm, Nat.add_zero]
    · have hk : 0 < k := by omega
      have e1 : BitVec.ofNat 64 1 = (1 : BitVec 64) := rfl
      have hadv : adv (L.st n) 1 = L.st (n + 1) := by rw [← e1]; exact L.adv_st n 1 (by omega)
      rw [List.getElem?_append_right (by rw [blockAt_length]; omega), blockAt_length, hadv,
        ih (n + 1) (j - 64) (by omega) (by omega)]
      have a1 : n + 1 + (j - 64) / 64 = n + j / 64 := by omega
      have a2 : (j - 64) % 64 = j % 64 := by omega
      rw [a1, a2]

theorem ks_length (L : Lay) (dr pos m : Nat) : (L.ks dr pos m).length = m := by
  unfold Lay.ks
  rw [List.length_take, List.length_drop, ksBlocks_length]
  omega

/-- byte `i` of the range `[pos, pos+m)` is the keystream byte at absolute position `pos + i` -/
theorem ks_getElem? (L : Lay) (dr pos m i : Nat) (hfit : pos + m ≤ 64 * L.T) (hi : i < m) :
    (L.ks dr pos m)[i]? = some (L.byteAt dr (pos + i)) := by
  unfold Lay.ks Lay.byteAt
  rw [List.getElem?_take_of_lt hi, List.getElem?_drop]
  rw [ksBlocks_getElem? L dr _ (pos / 64) (pos % 64 + i) (by omega) (by omega)]
  have a1 : pos / 64 + (pos % 64 + i) / 64 = (pos + i) / 64 := by omega
  have a2 : (pos % 64 + i) % 64 = (pos + i) % 64 := by omega
  rw [a1, a2]
  have hlt : (pos + i) % 64 < (blockAt dr (L.st ((pos + i) / 64))).length := by
    rw [blockAt_length]; omega
  rw [List.getElem?_eq_getElem hlt]
  rfl

theorem ks_eq_map (L : Lay) (dr pos m : Nat) (hfit : pos + m ≤ 64 * L.T) :
    L.ks dr pos m = (List.range m).map (fun i => L.byteAt dr (pos + i)) := by
  apply List.ext_getElem?
  intro i
  by_cases hi : i < m
  · rw [ks_getElem? L dr pos m i hfit hi]
    simp [hi]
  · rw [List.getElem?_eq_none (by rw [ks_length]; omega), List.getElem?_eq_none (by simp; omega)]

theorem range_split (a b : Nat) : List.range (a + b) = List.range a ++ (List.range b).map (fun i => a + i) := by
  exact List.range_add

/-- the keystream of a range splits at any point -/
theorem ks_append (L : Lay) (dr pos a b : Nat) (hfit : pos + a + b ≤ 64 * L.T) :
    L.ks dr pos (a + b) = L.ks dr pos a ++ L.ks dr (pos + a) b := by
  have h1 := ks_eq_map L dr pos (a + b) (by omega)
  have h2 := ks_eq_map L dr pos a (by omega)
  have h3 := ks_eq_map L dr (pos + a) b (by omega)
  rw [h1, h2, h3, range_split, List.map_append, List.map_map]
  apply congrArg
  apply List.map_congr_left
  intro i _
  show L.byteAt dr (pos + (a + i)) = L.byteAt dr (pos + a + i)
  rw [Nat.add_assoc]

theorem xorBytes_xorBytes (d k : List (BitVec 8)) (h : d.length ≤ k.length) :
    xorBytes (xorBytes d k) k = d := by
  induction d generalizing k with
  | nil => simp [xorBytes]
  | cons x xs ih =>
    cases k with
    | nil => simp at h
    | cons y ys =>
      simp only [xorBytes, List.zipWith_cons_cons, List.cons.injEq]
      refine ⟨by rw [BitVec.xor_assoc, BitVec.xor_self, BitVec.xor_zero], ?_⟩
      exact ih ys (by simpa using h)


end CC.ChaCha
