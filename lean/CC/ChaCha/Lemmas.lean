/-
  CC.ChaCha.Lemmas — row-vectorised rounds on the reference machine = RFC quarter rounds.
-/
import CC.ChaCha.Core
import CC.Simd.Lemmas
namespace CC.ChaCha
open CC.Simd CC.ChaCha.Spec

/-- The sixteen words of a row state (row a = words 0..3, b = 4..7, c = 8..11, d = 12..15). -/
def toS16 (x : RS) : S16 :=
  { x0 := lane32 x.a 0, x1 := lane32 x.a 1, x2 := lane32 x.a 2, x3 := lane32 x.a 3,
    x4 := lane32 x.b 0, x5 := lane32 x.b 1, x6 := lane32 x.b 2, x7 := lane32 x.b 3,
    x8 := lane32 x.c 0, x9 := lane32 x.c 1, x10 := lane32 x.c 2, x11 := lane32 x.c 3,
    x12 := lane32 x.d 0, x13 := lane32 x.d 1, x14 := lane32 x.d 2, x15 := lane32 x.d 3 }

theorem dround_ref (x : RS) : toS16 (dround Mach.ref x) = doubleRound (toS16 x) := by
  simp [dround, round, diagonalize, undiagonalize, Mach.ref, toS16, doubleRound, columnRound,
    diagonalRound, qr, zip32, map32, shuf1230_32, shuf2301_32, shuf3012_32,
    rotr16_eq, rotr20_eq, rotr24_eq, rotr25_eq]

end CC.ChaCha

namespace CC.ChaCha
open CC.Simd CC.ChaCha.Spec

theorem rounds_ref (n : Nat) (x : RS) : toS16 (iter (dround Mach.ref) n x) = rounds n (toS16 x) := by
  induction n generalizing x with
  | zero => rfl
  | succ n ih => simp [iter, rounds, ih, dround_ref]

theorem toLeBytes_pack32 (a b c d : BitVec 32) :
    toLeBytes (pack32 a b c d) 16 = toLe32 a ++ toLe32 b ++ toLe32 c ++ toLe32 d := by
  simp only [toLeBytes, toLe32, pack32, List.range, List.range.loop, List.map, List.cons_append,
    List.nil_append, List.cons.injEq, and_true]
  refine ⟨?_, ?_, ?_, ?_, ?_, ?_, ?_, ?_, ?_, ?_, ?_, ?_, ?_, ?_, ?_, ?_⟩ <;> bv_decide

/-- The initial matrix the guts state denotes. -/
def gutsS16 (s : Guts) : S16 := toS16 { a := kvec Mach.ref, b := s.b, c := s.c, d := s.d }

theorem refill_ref_block (s : Guts) (dr : Nat) :
    (refill Mach.ref s dr).1 = serialize (add (rounds dr (gutsS16 s)) (gutsS16 s)) := by
  have h := rounds_ref dr { a := kvec Mach.ref, b := s.b, c := s.c, d := s.d }
  simp only [refill, outputNarrow, refillNarrowRounds, gutsS16]
  rw [← h]
  generalize iter (dround Mach.ref) dr _ = x
  simp [Mach.ref, zip32, toLeBytes_pack32, serialize, words, add, toS16, kvec, List.flatMap,
    BitVec.add_comm]

end CC.ChaCha
