/-
  CC.ChaCha.Stream — model of `stream-ciphers/chacha/src/rustcrypto_impl.rs`:
  `Buffer { state, out, have, len, fresh }`, `try_apply_keystream` (lazy refill, buffered drain,
  wide 256-byte chunks, block-at-a-time tail), `seek64/seek32`, `try_seek<T>`, `try_current_pos<T>`.
  Machine integers are `Nat`/`Int` with the wrap / overflow check written out; `profile` decides
  whether an overflowing checked operation panics (debug) or wraps (release).
-/
import CC.ChaCha.Core
namespace CC.ChaCha
open CC.Simd

def BIG_LEN : Nat := 0
def SMALL_LEN : Nat := 2 ^ 32

structure Buffer where
  state : Guts
  out : List (BitVec 8)      -- 64 bytes
  hav : Int                 -- i8
  len : Nat                  -- u64
  fresh : Bool
  deriving DecidableEq, Repr

structure Cipher where
  v : Spec.Variant
  buf : Buffer
  deriving DecidableEq, Repr

def zeros (n : Nat) : List (BitVec 8) := List.replicate n 0

/-- `ChaChaAny::new` for the three layouts. -/
def Cipher.new (M : Mach) (v : Spec.Variant) (key nonce : List (BitVec 8)) : Cipher :=
  match v.layout with
  | .x => { v, buf := { state := initChaChaX M key nonce v.drounds, out := zeros 64, hav := 0,
                        len := BIG_LEN, fresh := true } }
  | _ => { v, buf := { state := initChaCha M key nonce, out := zeros 64, hav := 0,
                       len := if nonce.length = 12 then SMALL_LEN else BIG_LEN,
                       fresh := nonce.length != 12 } }

/-- u64 `wrapping_sub` -/
def wsub64 (a b : Nat) : Nat := (a + 2 ^ 64 - b % 2 ^ 64) % 2 ^ 64

/-- XOR `data` with four-block chunks of keystream (`chunks_exact_mut(BUFSZ)` loop). -/
def wideLoop (M : Mach) (dr : Nat) : Nat → Guts → List (BitVec 8) → List (BitVec 8) × Guts
  | 0, s, _ => ([], s)
  | n + 1, s, data =>
    let (ks, s') := refill4 M s dr
    let (rest, s'') := wideLoop M dr n s' (data.drop 256)
    (xorBytes (data.take 256) ks ++ rest, s'')

/-- tail loop: `for dd in data.chunks_mut(BLOCK)`; returns output, state, last `out`, `have`. -/
def tailLoop (M : Mach) (dr : Nat) :
    Nat → Guts → List (BitVec 8) → List (BitVec 8) → Nat → List (BitVec 8) × Guts × List (BitVec 8) × Nat
  | 0, s, _, out, have_ => ([], s, out, have_)
  | n + 1, s, data, out, have_ =>
    match data with
    | [] => ([], s, out, have_)
    | _ :: _ =>
      let (ks, s') := refill M s dr
      let dd := data.take 64
      let (rest, s'', out', have') := tailLoop M dr n s' (data.drop 64) ks (64 - dd.length)
      (xorBytes dd ks ++ rest, s'', out', have')

/-- `Buffer::try_apply_keystream::<WideEnabled>`.  Result: the buffer after the call and
    `some output` on `Ok`, `none` on `Err` (data untouched); `panic` where rustc's checks fire. -/
def Buffer.tryApply (M : Mach) (p : Profile) (dr : Nat) (b : Buffer) (data : List (BitVec 8)) :
    Out (Buffer × Option (List (BitVec 8))) :=
  -- lazy fill
  let b := if b.hav < 0 then
      let (o, s) := refill M b.state dr
      { b with state := s, out := o, hav := b.hav + 64, len := wsub64 b.len 1 }
    else b
  if b.hav < 0 ∨ b.hav > 64 then .panic "have out of range" else
  let have_ := b.hav.toNat
  let haveReady := min have_ data.length
  let datalen := data.length - haveReady
  let blocksNeeded := datalen / 64 + (if datalen % 64 != 0 then 1 else 0)
  let o := b.len < blocksNeeded
  let l := wsub64 b.len blocksNeeded
  if o && !b.fresh then .ok (b, none) else
  let fresh := b.fresh && blocksNeeded == 0
  let out0 := xorBytes (data.take haveReady) (b.out.drop (64 - have_))
  let data1 := data.drop haveReady
  let have1 := have_ - haveReady
  let nwide := data1.length / 256
  let (outW, s1) := wideLoop M dr nwide b.state data1
  let data2 := data1.drop (256 * nwide)
  let (outT, s2, outBuf, have2) := tailLoop M dr (data2.length / 64 + 1) s1 data2 b.out have1
  let _ := p
  .ok ({ state := s2, out := outBuf, hav := (have2 : Int), len := l, fresh := fresh },
       some (out0 ++ outW ++ outT))

/-! ### the pieces of `Buffer::try_apply_keystream`

  Named sub-definitions of `Buffer.tryApply` / `wideLoop` / `tailLoop` (the definitions above are unchanged) with the
  decomposition lemmas `wideLoop_succ`, `tailLoop_cons`, `Buffer.tryApply_eq`: what the translator tie
  (`CC.Src.src_chacha_buffer_try_apply_keystream*`) compares the regenerated code with. -/

/-- the lazy fill at the top of `try_apply_keystream`:
    `if self.have < 0 { self.state.refill(..); self.have += BLOCK; self.len = self.len.wrapping_sub(1) }` -/
def Buffer.lazyFill (M : Mach) (dr : Nat) (b : Buffer) : Buffer :=
  if b.hav < 0 then
    { b with state := (refill M b.state dr).2, out := (refill M b.state dr).1, hav := b.hav + 64,
             len := wsub64 b.len 1 }
  else b

/-- `blocks_needed` of a request of `n` bytes when `have_` bytes are buffered -/
def blocksNeeded (have_ n : Nat) : Nat :=
  (n - min have_ n) / 64 + (if (n - min have_ n) % 64 != 0 then 1 else 0)

/-- the overflow check `o && !self.fresh` (after the lazy fill) -/
def Buffer.refuses (b : Buffer) (n : Nat) : Bool :=
  decide (b.len < blocksNeeded b.hav.toNat n) && !b.fresh

/-- body of the wide loop, one 256-byte chunk: `refill4` + xor -/
def wideStep (M : Mach) (dr : Nat) (s : Guts) (dd : List (BitVec 8)) : Guts × List (BitVec 8) :=
  ((refill4 M s dr).2, xorBytes dd (refill4 M s dr).1)

/-- body of the tail loop, one chunk of at most 64 bytes: `refill` + xor + `have = BLOCK - dd.len()`;
    the new state, block buffer, `have`, and the chunk -/
def tailStep (M : Mach) (dr : Nat) (s : Guts) (dd : List (BitVec 8)) :
    (Guts × List (BitVec 8) × Nat) × List (BitVec 8) :=
  (((refill M s dr).2, (refill M s dr).1, 64 - dd.length), xorBytes dd (refill M s dr).1)

theorem wideLoop_succ (M : Mach) (dr n : Nat) (s : Guts) (data : List (BitVec 8)) :
    wideLoop M dr (n + 1) s data =
      ((wideStep M dr s (data.take 256)).2 ++ (wideLoop M dr n (wideStep M dr s (data.take 256)).1 (data.drop 256)).1,
       (wideLoop M dr n (wideStep M dr s (data.take 256)).1 (data.drop 256)).2) := rfl

theorem tailLoop_cons (M : Mach) (dr n : Nat) (s : Guts) (x : BitVec 8) (xs out : List (BitVec 8)) (hv : Nat) :
    tailLoop M dr (n + 1) s (x :: xs) out hv =
      (let r := tailStep M dr s ((x :: xs).take 64)
       let t := tailLoop M dr n r.1.1 ((x :: xs).drop 64) r.1.2.1 r.1.2.2
       (r.2 ++ t.1, t.2)) := rfl

/-- drain of the buffered bytes, wide loop, tail loop and epilogue (`self.have = have as i8`) of a request that is
    not refused: the buffer afterwards and the processed data -/
def Buffer.applyBody (M : Mach) (dr : Nat) (b : Buffer) (data : List (BitVec 8)) : Buffer × List (BitVec 8) :=
  let have_ := b.hav.toNat
  let haveReady := min have_ data.length
  let out0 := xorBytes (data.take haveReady) (b.out.drop (64 - have_))
  let data1 := data.drop haveReady
  let nwide := data1.length / 256
  let w := wideLoop M dr nwide b.state data1
  let data2 := data1.drop (256 * nwide)
  let t := tailLoop M dr (data2.length / 64 + 1) w.2 data2 b.out (have_ - haveReady)
  ({ state := t.2.1, out := t.2.2.1, hav := (t.2.2.2 : Int), len := wsub64 b.len (blocksNeeded have_ data.length),
     fresh := b.fresh && blocksNeeded have_ data.length == 0 },
   out0 ++ w.1 ++ t.1)

/-- `Buffer.tryApply` = lazy fill; range check of `have`; overflow check (early `Err`); body -/
theorem Buffer.tryApply_eq (M : Mach) (p : Profile) (dr : Nat) (b : Buffer) (data : List (BitVec 8)) :
    Buffer.tryApply M p dr b data =
      (if (b.lazyFill M dr).hav < 0 ∨ (b.lazyFill M dr).hav > 64 then .panic "have out of range"
       else if (b.lazyFill M dr).refuses data.length then .ok (b.lazyFill M dr, none)
       else .ok (((b.lazyFill M dr).applyBody M dr data).1, some ((b.lazyFill M dr).applyBody M dr data).2)) := by
  unfold Buffer.tryApply Buffer.lazyFill Buffer.refuses Buffer.applyBody blocksNeeded
  by_cases h : b.hav < 0 <;> simp only [h, if_true, if_false] <;> rfl

/-- `seek64` -/
def Buffer.seek64 (M : Mach) (b : Buffer) (ct : Nat) : Buffer :=
  let blockct := ct / 64
  { b with len := wsub64 BIG_LEN blockct, fresh := blockct == 0, hav := -((ct % 64 : Nat) : Int),
           state := CC.ChaCha.seek64 M b.state (BitVec.ofNat 64 blockct) }

/-- `seek32` (the `assert!` is a panic in every profile) -/
def Buffer.seek32 (M : Mach) (b : Buffer) (ct : Nat) : Out Buffer :=
  let blockct := ct / 64
  if blockct < SMALL_LEN ∨ (blockct = SMALL_LEN ∧ ct % 64 = 0) then
    .ok { b with len := SMALL_LEN - blockct, hav := -((ct % 64 : Nat) : Int),
                 state := CC.ChaCha.seek32 M b.state (BitVec.ofNat 32 blockct) }
  else .panic "assertion failed: seek32"

/-- The integer types `cipher::SeekNum` is implemented for. -/
inductive SeekTy where
  | u8 | u16 | u32 | u64 | u128 | usize | i32
  deriving DecidableEq, Repr

def SeekTy.max : SeekTy → Nat
  | .u8 => 2 ^ 8 - 1
  | .u16 => 2 ^ 16 - 1
  | .u32 => 2 ^ 32 - 1
  | .u64 => 2 ^ 64 - 1
  | .u128 => 2 ^ 128 - 1
  | .usize => 2 ^ 64 - 1
  | .i32 => 2 ^ 31 - 1

def SeekTy.min : SeekTy → Int
  | .i32 => -(2 ^ 31)
  | _ => 0

/-- `ChaChaAny::try_seek::<T>(pos)`: `Ok(())`/`Err(LoopError)`; the value is an in-range `T`. -/
def Cipher.trySeek (M : Mach) (c : Cipher) (pos : Int) : Out (Cipher × Bool) :=
  -- pos.try_into::<u64>()
  if pos < 0 ∨ pos.toNat ≥ 2 ^ 64 then .ok (c, false) else
  let ct := pos.toNat
  match c.v.layout with
  | .ietf =>
    if ct > SMALL_LEN * 64 then .ok (c, false) else
    match Buffer.seek32 M c.buf ct with
    | .ok b => .ok ({ c with buf := b }, true)
    | .err => .err
    | .panic w => .panic w
  | _ => .ok ({ c with buf := Buffer.seek64 M c.buf ct }, true)

/-- `ChaChaAny::try_apply_keystream` (the 12-byte-nonce variant restores nonce word 13). -/
def Cipher.tryApply (M : Mach) (p : Profile) (c : Cipher) (data : List (BitVec 8)) :
    Out (Cipher × Option (List (BitVec 8))) :=
  match c.v.layout with
  | .ietf =>
    let nonce0 := lane32 c.buf.state.d 1
    match Buffer.tryApply M p c.v.drounds c.buf data with
    | .ok (b, r) =>
      let d := b.state.d
      let d' := pack32 (lane32 d 0) nonce0 (lane32 d 2) (lane32 d 3)
      .ok ({ c with buf := { b with state := { b.state with d := d' } } }, r)
    | .err => .err
    | .panic w => .panic w
  | _ =>
    match Buffer.tryApply M p c.v.drounds c.buf data with
    | .ok (b, r) => .ok ({ c with buf := b }, r)
    | .err => .err
    | .panic w => .panic w

/-- `SeekNum::from_block_byte::<T>(block : u64, byte, bs = 64)` -/
def fromBlockByte (t : SeekTy) (block byte : Nat) : Option Nat :=
  if block > t.max then none                      -- block.try_into()
  else if block * 64 > t.max then none            -- checked_mul
  else some (block * 64 + byte)

/-- `try_current_pos::<T>()` : `some p` = `Ok(p)`, `none` = `Err(OverflowError)`. -/
def Cipher.tryCurrentPos (p : Profile) (c : Cipher) (t : SeekTy) : Out (Option Nat) :=
  let total := match c.v.layout with
    | .ietf => SMALL_LEN
    | _ => BIG_LEN
  let blocks :=
    if (c.v.layout != .ietf) && c.buf.len == 0 && !c.buf.fresh then 2 ^ 64
    else wsub64 total c.buf.len
  let have_ := c.buf.hav
  if have_ > 0 then
    if blocks = 0 then
      match p with
      | .debug => .panic "attempt to subtract with overflow"
      | .release => .ok (fromBlockByte t (2 ^ 128 - 1) (64 - have_.toNat))
    else if have_ > 64 then .panic "attempt to subtract with overflow"
    else .ok (fromBlockByte t (blocks - 1) (64 - have_.toNat))
  else
    .ok (fromBlockByte t blocks (-have_).toNat)

end CC.ChaCha
