/-
  CC.ChaCha.Refine5 — cipher-level operations (seek / apply / current_pos) refine the abstract
  position machine; induction over operation histories.
-/
import CC.ChaCha.Refine4
namespace CC.ChaCha
open CC CC.Simd CC.ChaCha.Spec

def isIetf (v : Variant) : Bool := v.layout == .ietf

def layOf (v : Variant) (g : Guts) : Lay := if isIetf v then Lay32 g else Lay64 g

/-- cipher `c` (whose stream is determined by the base state `g`) is at absolute position `pos` -/
def RC (g : Guts) (c : Cipher) (pos : Nat) : Prop := R (layOf c.v g) c.v.drounds c.buf pos

/-! ### seek -/

theorem seek64_R (g : Guts) (dr : Nat) (b : Buffer) (pos ct : Nat) (h : R (Lay64 g) dr b pos)
    (hct : ct < 2 ^ 64) : R (Lay64 g) dr (Buffer.seek64 Mach.ref b ct) ct := by
  obtain ⟨h, hst⟩ := h
  have hst' : b.state = stateAt64 g (BitVec.ofNat 64 (blocksDone b pos)) := hst
  have hbd : ∀ (s : Guts) (o : List (BitVec 8)) (l : Nat) (f : Bool),
      blocksDone (Buffer.mk s o (-((ct % 64 : Nat) : Int)) l f) ct = ct / 64 := by
    intro s o l f; simp only [blocksDone]; split <;> omega
  have hstate : (Buffer.seek64 Mach.ref b ct).state = stateAt64 g (BitVec.ofNat 64 (ct / 64)) := by
    simp only [Buffer.seek64]; rw [hst', seek64_eq]
  refine ⟨⟨?_, h.hout, ?_, ?_, ?_, ?_, ?_, ?_, ?_, ?_, ?_⟩, ?_⟩
  · show ct ≤ 64 * 2 ^ 64; omega
  · show -63 ≤ -((ct % 64 : Nat) : Int); omega
  · show -((ct % 64 : Nat) : Int) ≤ 63; omega
  · show ct % 64 = if -((ct % 64 : Nat) : Int) > 0 then _ else (- -((ct % 64 : Nat) : Int)).toNat
    split <;> omega
  · intro _; rw [hstate]; simp only [Buffer.seek64, hbd]; rfl
  · rw [hstate]; simp only [Buffer.seek64, hbd]; rfl
  · intro hp; exfalso
    have : (Buffer.seek64 Mach.ref b ct).hav = -((ct % 64 : Nat) : Int) := rfl
    omega
  · simp only [Buffer.seek64, hbd]
    show wsub64 BIG_LEN (ct / 64) = (2 ^ 64 - ct / 64) % 2 ^ 64
    unfold wsub64 BIG_LEN; omega
  · simp only [Buffer.seek64, hbd]
    intro hf
    show 2 ^ 64 - ct / 64 < 2 ^ 64
    have : ct / 64 ≠ 0 := by simpa using hf
    omega
  · simp only [Buffer.seek64, hbd]
    intro hf
    show 2 ^ 64 - 1 ≤ 2 ^ 64 - ct / 64 ∧ (_ → 2 ^ 64 ≤ 2 ^ 64 - ct / 64)
    have : ct / 64 = 0 := by simpa using hf
    omega
  · rw [hstate]; simp only [Buffer.seek64, hbd]; rfl

theorem R32_fresh (g : Guts) (dr : Nat) (b : Buffer) (pos : Nat) (h : R (Lay32 g) dr b pos) :
    b.fresh = false := by
  cases hf : b.fresh
  · rfl
  · have := (h.1.hfr1 hf).1
    have hT : (Lay32 g).T = 2 ^ 32 := rfl
    rw [hT] at this; omega

theorem seek32_R (g : Guts) (dr : Nat) (b : Buffer) (pos ct : Nat) (h : R (Lay32 g) dr b pos)
    (hct : ct ≤ 2 ^ 38) :
    ∃ b', Buffer.seek32 Mach.ref b ct = .ok b' ∧ R (Lay32 g) dr b' ct := by
  have hfresh := R32_fresh g dr b pos h
  obtain ⟨h, hst⟩ := h
  have hst' : b.state = stateAt32 g (BitVec.ofNat 32 (blocksDone b pos)) := hst
  have hc : ct / 64 < SMALL_LEN ∨ (ct / 64 = SMALL_LEN ∧ ct % 64 = 0) := by
    unfold SMALL_LEN; omega
  refine ⟨Buffer.mk (CC.ChaCha.seek32 Mach.ref b.state (BitVec.ofNat 32 (ct / 64))) b.out
      (-((ct % 64 : Nat) : Int)) (SMALL_LEN - ct / 64) b.fresh,
    by simp only [Buffer.seek32, hc, if_true], ?_⟩
  have hbd : ∀ (s : Guts) (o : List (BitVec 8)) (l : Nat) (f : Bool),
      blocksDone (Buffer.mk s o (-((ct % 64 : Nat) : Int)) l f) ct = ct / 64 := by
    intro s o l f; simp only [blocksDone]; split <;> omega
  have hstate : CC.ChaCha.seek32 Mach.ref b.state (BitVec.ofNat 32 (ct / 64))
      = stateAt32 g (BitVec.ofNat 32 (ct / 64)) := by
    rw [hst', seek32_eq]
  refine ⟨⟨?_, h.hout, ?_, ?_, ?_, ?_, ?_, ?_, ?_, ?_, ?_⟩, ?_⟩
  · have hT : (Lay32 g).T = 2 ^ 32 := rfl
    rw [hT]; omega
  · show -63 ≤ -((ct % 64 : Nat) : Int); omega
  · show -((ct % 64 : Nat) : Int) ≤ 63; omega
  · show ct % 64 = if -((ct % 64 : Nat) : Int) > 0 then _ else (- -((ct % 64 : Nat) : Int)).toNat
    split <;> omega
  · intro _; simp only [hbd]; exact hstate
  · simp only [hbd]
    show fix32 g (CC.ChaCha.seek32 Mach.ref b.state (BitVec.ofNat 32 (ct / 64))) = _
    rw [hstate]
    exact (Lay32 g).fix_st (ct / 64) (by have hT : (Lay32 g).T = 2 ^ 32 := rfl
                                         rw [hT]; omega)
  · intro hp; exfalso
    have : (-((ct % 64 : Nat) : Int)) > 0 := hp
    omega
  · simp only [hbd]
    have hT : (Lay32 g).T = 2 ^ 32 := rfl
    rw [hT]
    show SMALL_LEN - ct / 64 = _
    unfold SMALL_LEN; omega
  · simp only [hbd]
    intro _
    have hT : (Lay32 g).T = 2 ^ 32 := rfl
    rw [hT]; omega
  · simp only [hbd]
    intro hf
    have : b.fresh = true := hf
    rw [hfresh] at this; cases this
  · simp only [hbd]; exact hstate

end CC.ChaCha
