/-
  CC.ChaCha.Refine5 — cipher-level operations (seek / apply / current_pos) refine the abstract
  position machine; induction over operation histories.
-/
import CC.ChaCha.Refine4
namespace CC.ChaCha
open CC CC.Simd CC.ChaCha.Spec

def isIetf (v : Variant) : Bool := v.layout == .ietf

def layOf (v : Variant) (g : Guts) : Lay := if isIetf v then Lay32 g else Lay64 g

/-- cipher `c` (whose stream is determined by the base state `g`) is at absolute position `pos` -/
def RC (g : Guts) (c : Cipher) (pos : Nat) : Prop := R (layOf c.v g) c.v.drounds c.buf pos

/-! ### seek -/

theorem seek64_R (g : Guts) (dr : Nat) (b : Buffer) (pos ct : Nat) (h : R (Lay64 g) dr b pos)
    (hct : ct < 2 ^ 64) : R (Lay64 g) dr (Buffer.seek64 Mach.ref b ct) ct := by
  obtain ⟨h, hst⟩ := h
  have hst' : b.state = stateAt64 g (BitVec.ofNat 64 (blocksDone b pos)) := hst
  have hbd : ∀ (s : Guts) (o : List (BitVec 8)) (l : Nat) (f : Bool),
      blocksDone (Buffer.mk s o (-((ct % 64 : Nat) : Int)) l f) ct = ct / 64 := by
    intro s o l f; simp only [blocksDone]; split <;> omega
  have hstate : (Buffer.seek64 Mach.ref b ct).state = stateAt64 g (BitVec.ofNat 64 (ct / 64)) := by
    simp only [Buffer.seek64]; rw [hst', seek64_eq]
  refine ⟨⟨?_, h.hout, ?_, ?_, ?_, ?_, ?_, ?_, ?_, ?_, ?_⟩, ?_⟩
  · show ct ≤ 64 * 2 ^ 64; omega
  · show -63 ≤ -((ct % 64 : Nat) : Int); omega
  · show -((ct % 64 : Nat) : Int) ≤ 63; omega
  · show ct % 64 = if -((ct % 64 : Nat) : Int) > 0 then _ else (- -((ct % 64 : Nat) : Int)).toNat
    split <;> omega
  · intro _; rw [hstate]; simp only [Buffer.seek64, hbd]; rfl
  · rw [hstate]; simp only [Buffer.seek64, hbd]; rfl
  · intro hp; exfalso
    have : (Buffer.seek64 Mach.ref b ct).hav = -((ct % 64 : Nat) : Int) := rfl
    omega
  · simp only [Buffer.seek64, hbd]
    show wsub64 BIG_LEN (ct / 64) = (2 ^ 64 - ct / 64) % 2 ^ 64
    unfold wsub64 BIG_LEN; omega
  · simp only [Buffer.seek64, hbd]
    intro hf
    show 2 ^ 64 - ct / 64 < 2 ^ 64
    have : ct / 64 ≠ 0 := by simpa using hf
    omega
  · simp only [Buffer.seek64, hbd]
    intro hf
    show 2 ^ 64 - 1 ≤ 2 ^ 64 - ct / 64 ∧ (_ → 2 ^ 64 ≤ 2 ^ 64 - ct / 64)
    have : ct / 64 = 0 := by simpa using hf
    omega
  · rw [hstate]; simp only [Buffer.seek64, hbd]; rfl

theorem R32_fresh (g : Guts) (dr : Nat) (b : Buffer) (pos : Nat) (h : R (Lay32 g) dr b pos) :
    b.fresh = false := by
  cases hf : b.fresh
  · rfl
  · have := (h.1.hfr1 hf).1
    have hT : (Lay32 g).T = 2 ^ 32 := rfl
    rw [hT] at this; omega

theorem seek32_R (g : Guts) (dr : Nat) (b : Buffer) (pos ct : Nat) (h : R (Lay32 g) dr b pos)
    (hct : ct ≤ 2 ^ 38) :
    ∃ b', Buffer.seek32 Mach.ref b ct = .ok b' ∧ R (Lay32 g) dr b' ct := by
  have hfresh := R32_fresh g dr b pos h
  obtain ⟨h, hst⟩ := h
  have hst' : b.state = stateAt32 g (BitVec.ofNat 32 (blocksDone b pos)) := hst
  have hc : ct / 64 < SMALL_LEN ∨ (ct / 64 = SMALL_LEN ∧ ct % 64 = 0) := by
    unfold SMALL_LEN; omega
  refine ⟨Buffer.mk (CC.ChaCha.seek32 Mach.ref b.state (BitVec.ofNat 32 (ct / 64))) b.out
      (-((ct % 64 : Nat) : Int)) (SMALL_LEN - ct / 64) b.fresh,
    by simp only [Buffer.seek32, hc, if_true], ?_⟩
  have hbd : ∀ (s : Guts) (o : List (BitVec 8)) (l : Nat) (f : Bool),
      blocksDone (Buffer.mk s o (-((ct % 64 : Nat) : Int)) l f) ct = ct / 64 := by
    intro s o l f; simp only [blocksDone]; split <;> omega
  have hstate : CC.ChaCha.seek32 Mach.ref b.state (BitVec.ofNat 32 (ct / 64))
      = stateAt32 g (BitVec.ofNat 32 (ct / 64)) := by
    rw [hst', seek32_eq]
  refine ⟨⟨?_, h.hout, ?_, ?_, ?_, ?_, ?_, ?_, ?_, ?_, ?_⟩, ?_⟩
  · have hT : (Lay32 g).T = 2 ^ 32 := rfl
    rw [hT]; omega
  · show -63 ≤ -((ct % 64 : Nat) : Int); omega
  · show -((ct % 64 : Nat) : Int) ≤ 63; omega
  · show ct % 64 = if -((ct % 64 : Nat) : Int) > 0 then _ else (- -((ct % 64 : Nat) : Int)).toNat
    split <;> omega
  · intro _; simp only [hbd]; exact hstate
  · simp only [hbd]
    show fix32 g (CC.ChaCha.seek32 Mach.ref b.state (BitVec.ofNat 32 (ct / 64))) = _
    rw [hstate]
    exact (Lay32 g).fix_st (ct / 64) (by have hT : (Lay32 g).T = 2 ^ 32 := rfl
                                         rw [hT]; omega)
  · intro hp; exfalso
    have : (-((ct % 64 : Nat) : Int)) > 0 := hp
    omega
  · simp only [hbd]
    have hT : (Lay32 g).T = 2 ^ 32 := rfl
    rw [hT]
    show SMALL_LEN - ct / 64 = _
    unfold SMALL_LEN; omega
  · simp only [hbd]
    intro _
    have hT : (Lay32 g).T = 2 ^ 32 := rfl
    rw [hT]; omega
  · simp only [hbd]
    intro hf
    have : b.fresh = true := hf
    rw [hfresh] at this; cases this
  · simp only [hbd]; exact hstate

/-- `R'` plus "the cipher applied `fix` to the state" gives `R`. -/
theorem R_of_R'_fix (L : Lay) (dr : Nat) (b : Buffer) (pos : Nat) (h : R' L dr b pos) :
    R L dr { b with state := L.fix b.state } pos := by
  have hle := blocksDone_le L b pos h.hpos h.hrem h.hhi
  have hbd : blocksDone { b with state := L.fix b.state } pos = blocksDone b pos := rfl
  refine ⟨⟨h.hpos, h.hout, h.hlo, h.hhi, h.hrem, ?_, ?_, h.hbuf, h.hlen, h.hfr0, h.hfr1⟩, ?_⟩
  · intro _; rw [hbd]; exact h.hst2
  · rw [hbd]; show L.fix (L.fix b.state) = _; rw [h.hst2, L.fix_st _ hle]
  · rw [hbd]; exact h.hst2

/-- The cipher-level `try_apply_keystream` as "Buffer call, then fix". -/
theorem Cipher_tryApply_eq (g : Guts) (p : Profile) (c : Cipher) (pos : Nat) (data : List (BitVec 8))
    (h : RC g c pos) :
    Cipher.tryApply Mach.ref p c data =
      (match Buffer.tryApply Mach.ref p c.v.drounds c.buf data with
       | .ok (b, r) => .ok ({ c with buf := { b with state := (layOf c.v g).fix b.state } }, r)
       | .err => .err
       | .panic w => .panic w) := by
  unfold Cipher.tryApply RC layOf isIetf at *
  cases hl : c.v.layout <;> simp only [hl] at h ⊢
  · -- djb
    cases Buffer.tryApply Mach.ref p c.v.drounds c.buf data with
    | ok br => rfl
    | err => rfl
    | panic w => rfl
  · -- ietf
    have hst : c.buf.state = stateAt32 g (BitVec.ofNat 32 (blocksDone c.buf pos)) := h.2
    have hn0 : lane32 c.buf.state.d 1 = lane32 g.d 1 := by
      rw [hst]; simp only [stateAt32, lane32_pack32_1]
    cases Buffer.tryApply Mach.ref p c.v.drounds c.buf data with
    | ok br => simp only [hn0]; rfl
    | err => rfl
    | panic w => rfl
  · -- x
    cases Buffer.tryApply Mach.ref p c.v.drounds c.buf data with
    | ok br => rfl
    | err => rfl
    | panic w => rfl

/-- keystream bytes `[pos, pos+m)` of cipher variant `v` on base state `g` -/
def ksOf (v : Variant) (g : Guts) (pos m : Nat) : List (BitVec 8) := (layOf v g).ks v.drounds pos m

/-- number of keystream bytes of variant `v` -/
def limitOf (v : Variant) : Nat := 64 * (layOf v ⟨0, 0, 0⟩).T

theorem limitOf_eq (v : Variant) (g : Guts) : 64 * (layOf v g).T = limitOf v := by
  unfold limitOf layOf; split <;> rfl

theorem limitOf_val (v : Variant) : limitOf v = v.limit := by
  unfold limitOf layOf isIetf Variant.limit
  cases v.layout <;> simp <;> rfl

/-- **apply**: inside the keystream XOR exactly the bytes of `[pos, pos+|data|)` and advance;
    past the end return `Err`, leave data and position unchanged; never panic. -/
theorem Cipher_apply_step (g : Guts) (p : Profile) (c : Cipher) (pos : Nat) (data : List (BitVec 8))
    (h : RC g c pos) (hm : data.length < 2 ^ 64) :
    ∃ c', c'.v = c.v ∧
      (pos + data.length ≤ limitOf c.v →
          Cipher.tryApply Mach.ref p c data = .ok (c', some (xorBytes data (ksOf c.v g pos data.length)))
          ∧ RC g c' (pos + data.length)) ∧
      (¬ pos + data.length ≤ limitOf c.v →
          Cipher.tryApply Mach.ref p c data = .ok (c', none) ∧ RC g c' pos) := by
  obtain ⟨b', hfit, hnofit⟩ := apply_step (layOf c.v g) p c.v.drounds c.buf pos data h hm
  rw [limitOf_eq c.v g] at hfit hnofit
  refine ⟨{ c with buf := { b' with state := (layOf c.v g).fix b'.state } }, rfl, ?_, ?_⟩
  · intro hle
    obtain ⟨he, hr⟩ := hfit hle
    rw [Cipher_tryApply_eq g p c pos data h, he]
    exact ⟨rfl, R_of_R'_fix _ _ _ _ hr⟩
  · intro hnle
    obtain ⟨he, hr⟩ := hnofit hnle
    rw [Cipher_tryApply_eq g p c pos data h, he]
    exact ⟨rfl, R_of_R'_fix _ _ _ _ hr⟩


/-- **seek**: a value of any supported integer type is accepted iff it is a position of the
    keystream (`0 ≤ v ≤ limit`, and representable as `u64`); the cipher is then at that position.
    Otherwise `Err` and nothing changes. Never a panic. -/
theorem Cipher_seek_step (g : Guts) (c : Cipher) (pos : Nat) (v : Int) (h : RC g c pos) :
    (0 ≤ v ∧ v.toNat < 2 ^ 64 ∧ v.toNat ≤ limitOf c.v →
        ∃ c', c'.v = c.v ∧ Cipher.trySeek Mach.ref c v = .ok (c', true) ∧ RC g c' v.toNat) ∧
    (¬ (0 ≤ v ∧ v.toNat < 2 ^ 64 ∧ v.toNat ≤ limitOf c.v) →
        Cipher.trySeek Mach.ref c v = .ok (c, false)) := by
  unfold Cipher.trySeek
  have hlim := limitOf_val c.v
  unfold RC layOf isIetf at h
  unfold Variant.limit at hlim
  constructor
  · rintro ⟨h0, h64, hl⟩
    have hn : ¬ (v < 0 ∨ v.toNat ≥ 2 ^ 64) := by omega
    simp only [hn, if_false]
    cases hlay : c.v.layout <;> simp only [hlay] at h hlim ⊢
    · refine ⟨{ c with buf := Buffer.seek64 Mach.ref c.buf v.toNat }, rfl, rfl, ?_⟩
      show R (layOf c.v g) c.v.drounds _ _
      simp only [layOf, isIetf, hlay]
      exact seek64_R g _ _ pos v.toNat h (by omega)
    · have hle : v.toNat ≤ 2 ^ 38 := by omega
      have hn2 : ¬ v.toNat > SMALL_LEN * 64 := by unfold SMALL_LEN; omega
      simp only [hn2, if_false]
      obtain ⟨b', he, hr⟩ := seek32_R g _ c.buf pos v.toNat h hle
      rw [he]
      refine ⟨{ c with buf := b' }, rfl, rfl, ?_⟩
      show R (layOf c.v g) c.v.drounds _ _
      simp only [layOf, isIetf, hlay]
      exact hr
    · refine ⟨{ c with buf := Buffer.seek64 Mach.ref c.buf v.toNat }, rfl, rfl, ?_⟩
      show R (layOf c.v g) c.v.drounds _ _
      simp only [layOf, isIetf, hlay]
      exact seek64_R g _ _ pos v.toNat h (by omega)
  · intro hnot
    by_cases hr : v < 0 ∨ v.toNat ≥ 2 ^ 64
    · simp only [hr, if_true]
    · simp only [hr, if_false]
      cases hlay : c.v.layout <;> simp only [hlay] at h hlim ⊢
      · exfalso; omega
      · have : v.toNat > SMALL_LEN * 64 := by unfold SMALL_LEN; omega
        simp only [this, if_true]
      · exfalso; omega


theorem fromBlockByte_eq (t : SeekTy) (block byte : Nat) (hb : byte ≤ 63) :
    fromBlockByte t block byte = if block * 64 + byte ≤ t.max then some (block * 64 + byte) else none := by
  unfold fromBlockByte
  have hmax : t.max % 64 = 63 := by cases t <;> rfl
  generalize t.max = mx at *
  by_cases h1 : block > mx
  · have : ¬ block * 64 + byte ≤ mx := by omega
    simp only [h1, if_true, this, if_false]
  · by_cases h2 : block * 64 > mx
    · have : ¬ block * 64 + byte ≤ mx := by omega
      simp only [h1, h2, if_true, if_false, this]
    · have : block * 64 + byte ≤ mx := by omega
      simp only [h1, h2, if_false, this, if_true]

/-- the block count `try_current_pos` reconstructs from `len`/`fresh` is the true one -/
theorem blocks_eq (T n len : Nat) (fresh : Bool) (h64 : Bool) (hT : T = if h64 then 2 ^ 64 else 2 ^ 32)
    (hn : n ≤ T) (hlen : len = (T - n) % 2 ^ 64)
    (hf0 : fresh = false → T - n < 2 ^ 64) (hf1 : fresh = true → 2 ^ 64 - 1 ≤ T - n) :
    (if h64 && len == 0 && !fresh then 2 ^ 64 else wsub64 (if h64 then BIG_LEN else SMALL_LEN) len) = n := by
  unfold wsub64 BIG_LEN SMALL_LEN
  cases h64 <;> cases fresh <;> simp only [Bool.true_and, Bool.false_and, Bool.not_true, Bool.not_false,
    Bool.and_true, Bool.and_false, if_true, if_false, Bool.false_eq_true, beq_iff_eq] at hT hf0 hf1 ⊢
  · have := hf0 trivial; omega
  · have := hf1 trivial; omega
  · have := hf0 trivial; split <;> omega
  · have := hf1 trivial; omega

/-- **current_pos**: the reported position is the absolute position (or `OverflowError` exactly
    when it does not fit the requested type); never a panic, in either profile. -/
theorem Cipher_pos_step (g : Guts) (p : Profile) (c : Cipher) (pos : Nat) (ty : SeekTy) (h : RC g c pos) :
    Cipher.tryCurrentPos p c ty = .ok (if pos ≤ ty.max then some pos else none) := by
  unfold RC at h
  obtain ⟨h, _⟩ := h
  have hrem := h.hrem
  have hlo := h.hlo
  have hhi := h.hhi
  have hpos := h.hpos
  have hn := blocksDone_le _ c.buf pos h.hpos h.hrem h.hhi
  have hT : (layOf c.v g).T = if (c.v.layout != .ietf) then 2 ^ 64 else 2 ^ 32 := by
    unfold layOf isIetf; cases c.v.layout <;> rfl
  have hb := blocks_eq (layOf c.v g).T (blocksDone c.buf pos) c.buf.len c.buf.fresh (c.v.layout != .ietf)
    hT hn h.hlen h.hfr0 (fun hf => (h.hfr1 hf).1)
  unfold Cipher.tryCurrentPos
  unfold blocksDone at *
  cases hlay : c.v.layout <;> simp only [hlay, bne_self_eq_false, Bool.false_and, Bool.false_eq_true, if_false,
      show (Layout.djb != Layout.ietf) = true from rfl, show (Layout.x != Layout.ietf) = true from rfl,
      Bool.true_and, if_true] at hb ⊢ <;> rw [hb] <;> clear hb
  all_goals
    by_cases hp : c.buf.hav > 0
    · simp only [hp, if_true] at hrem hn ⊢
      have h1 : ¬ (pos / 64 + 1 = 0) := by omega
      have h2 : ¬ c.buf.hav > 64 := by omega
      simp only [h1, h2, if_false, Nat.add_sub_cancel]
      rw [fromBlockByte_eq _ _ _ (by omega)]
      have : pos / 64 * 64 + (64 - c.buf.hav.toNat) = pos := by omega
      rw [this]
    · simp only [hp, if_false] at hrem hn ⊢
      rw [fromBlockByte_eq _ _ _ (by omega)]
      have : pos / 64 * 64 + (-c.buf.hav).toNat = pos := by omega
      rw [this]

theorem zeros_length (n : Nat) : (zeros n).length = n := by simp [zeros]

theorem pack64_zero_hi (a b : BitVec 32) :
    pack64 (BitVec.ofNat 64 0) (lane64 (pack32 0 0 a b) 1) = pack32 0 0 a b := by
  unfold pack64 lane64 pack32; bv_decide

theorem stateAt64_zero (g : Guts) (a b : BitVec 32) (h : g.d = pack32 0 0 a b) :
    stateAt64 g (BitVec.ofNat 64 0) = g := by
  cases g with
  | mk gb gc gd =>
    simp only [stateAt64] at *
    subst h
    rw [pack64_zero_hi]

theorem stateAt32_zero (g : Guts) (n0 a b : BitVec 32) (h : g.d = pack32 0 n0 a b) :
    stateAt32 g (BitVec.ofNat 32 0) = g := by
  cases g with
  | mk gb gc gd =>
    simp only [stateAt32] at *
    subst h
    simp only [lane32_pack32_1, lane32_pack32_2, lane32_pack32_3]
    rfl

theorem layOf_ietf (v : Variant) (g : Guts) (h : v.layout = .ietf) : layOf v g = Lay32 g := by
  simp [layOf, isIetf, h]
theorem layOf_djb (v : Variant) (g : Guts) (h : v.layout = .djb) : layOf v g = Lay64 g := by
  simp [layOf, isIetf, h]
theorem layOf_x (v : Variant) (g : Guts) (h : v.layout = .x) : layOf v g = Lay64 g := by
  simp [layOf, isIetf, h]

theorem R_init (L : Lay) (dr : Nat) (b : Buffer) (h1 : b.hav = 0) (h2 : b.out.length = 64)
    (h3 : b.state = L.st 0) (h4 : b.len = L.T % 2 ^ 64) (h5 : b.fresh = false → L.T < 2 ^ 64)
    (h6 : b.fresh = true → 2 ^ 64 - 1 ≤ L.T) : R L dr b 0 := by
  have hbd : blocksDone b 0 = 0 := by simp [blocksDone, h1]
  refine ⟨⟨Nat.zero_le _, h2, by omega, by omega, ?_, ?_, ?_, ?_, ?_, ?_, ?_⟩, ?_⟩
  · rw [h1]; rfl
  · intro _; rw [hbd]; exact h3
  · rw [hbd, h3]; exact L.fix_st 0 (Nat.zero_le _)
  · intro h; omega
  · rw [hbd, h4]; rfl
  · intro hf; rw [hbd]; have := h5 hf; omega
  · intro hf; rw [hbd]; have := h6 hf; exact ⟨by omega, by intro; omega⟩
  · rw [hbd]; exact h3

/-- A freshly constructed cipher is at position 0 of the stream its own initial state denotes. -/
theorem Cipher_new_RC (v : Variant) (key nonce : List (BitVec 8)) (hn : nonce.length = v.nonceLen) :
    RC (Cipher.new Mach.ref v key nonce).buf.state (Cipher.new Mach.ref v key nonce) 0 := by
  unfold RC
  unfold Variant.nonceLen at hn
  cases hlay : v.layout <;> simp only [hlay] at hn
  · have h12 : ¬ nonce.length = 12 := by omega
    have hc : Cipher.new Mach.ref v key nonce = Cipher.mk v (Buffer.mk (initChaCha Mach.ref key nonce) (zeros 64) 0 BIG_LEN true) := by
      simp [Cipher.new, hlay, h12]
    rw [hc]; simp only []
    rw [layOf_djb _ _ hlay]
    have hst := stateAt64_zero (initChaCha Mach.ref key nonce) _ _ (by simp only [initChaCha, h12, if_false]; rfl)
    exact R_init _ _ _ rfl (zeros_length 64) hst.symm (by show BIG_LEN = 2 ^ 64 % 2 ^ 64; unfold BIG_LEN; omega)
      (fun h => by cases h) (fun _ => by show 2 ^ 64 - 1 ≤ 2 ^ 64; omega)
  · have h12 : nonce.length = 12 := by omega
    have hc : Cipher.new Mach.ref v key nonce = Cipher.mk v (Buffer.mk (initChaCha Mach.ref key nonce) (zeros 64) 0 SMALL_LEN false) := by
      simp [Cipher.new, hlay, h12]
    rw [hc]; simp only []
    rw [layOf_ietf _ _ hlay]
    have hst := stateAt32_zero (initChaCha Mach.ref key nonce) _ _ _ (by simp only [initChaCha, h12, if_true]; rfl)
    exact R_init _ _ _ rfl (zeros_length 64) hst.symm rfl (fun _ => by
      have hT : (Lay32 (initChaCha Mach.ref key nonce)).T = 2 ^ 32 := rfl
      rw [hT]; omega) (fun h => by cases h)
  · have hc : Cipher.new Mach.ref v key nonce = Cipher.mk v (Buffer.mk (initChaChaX Mach.ref key nonce v.drounds) (zeros 64) 0 BIG_LEN true) := by
      simp [Cipher.new, hlay]
    rw [hc]; simp only []
    rw [layOf_x _ _ hlay]
    have hst := stateAt64_zero (initChaChaX Mach.ref key nonce v.drounds) _ _ rfl
    exact R_init _ _ _ rfl (zeros_length 64) hst.symm (by show BIG_LEN = 2 ^ 64 % 2 ^ 64; unfold BIG_LEN; omega)
      (fun h => by cases h) (fun _ => by show 2 ^ 64 - 1 ≤ 2 ^ 64; omega)


end CC.ChaCha
