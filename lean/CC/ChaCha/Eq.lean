/-
  CC.ChaCha.Eq — the derived `PartialEq` of `guts::ChaCha { b, c, d : vec128_storage }` and `guts::State<V>`
  (`#[derive(Clone, PartialEq, Eq)]`): field-wise `&&`, in declaration order, of the fields' `==` — the documented
  expansion of the built-in derive (ASSUMED; rustc's expansion is not read.  tools/inventory_simdeq.py reads the derive
  lists and the field lists, `CC.Gen.SimdEqSrc.guts_ChaCha_eq` / `guts_State_eq`).  The fields' `==` is the
  `vec128_storage` comparison of the build (`CC.Simd.Impl.{X86, Generic}.storage128_veq`).  Proof-free (driver links).
-/
import CC.ChaCha.Core
import CC.Simd.Impl.Eq
namespace CC.ChaCha
open CC.Simd

def Guts.derivedEq (veq : BitVec 128 → BitVec 128 → Bool) (x y : Guts) : Bool :=
  veq x.b y.b && veq x.c y.c && veq x.d y.d

def RS.derivedEq (veq : BitVec 128 → BitVec 128 → Bool) (x y : RS) : Bool :=
  veq x.a y.a && veq x.b y.b && veq x.c y.c && veq x.d y.d

/-- `vec128_storage == vec128_storage` of the build that backend `b` belongs to -/
def storageEq : Backend → BitVec 128 → BitVec 128 → Bool
  | .generic => Impl.Generic.storage128_veq
  | _ => Impl.X86.storage128_veq

/-- `ChaCha == ChaCha` -/
def Guts.eqOn (b : Backend) (x y : Guts) : Bool := Guts.derivedEq (storageEq b) x y

end CC.ChaCha
