/-
  CC.ChaCha.Src — SOURCE TIE for ChaCha (property C01): every definition that tools/inventory_kernels.py
  regenerates from stream-ciphers/chacha/src/{guts.rs,rustcrypto_impl.rs} into `CC.Gen.Kernels` equals the
  hand-written model definition the theorems of `CC.Thm.C01` are about.  Re-checked against the fresh file
  on every run; a changed rotation distance / operand / shuffle / constant breaks the `rfl`.
-/
import Std.Tactic.BVDecide
import CC.Gen.Kernels
import CC.ChaCha.Core
import CC.ChaCha.Stream
import CC.Drv.ChaCha
namespace CC.Src
open CC.Simd CC.ChaCha

/-- `State<V>` from its four components, 128-bit `V` -/
def rsOf (t : BitVec 128 × BitVec 128 × BitVec 128 × BitVec 128) : RS := ⟨t.1, t.2.1, t.2.2.1, t.2.2.2⟩
/-- `State<V>` from its four components, 512-bit `V` -/
def rs4Of (t : BitVec 512 × BitVec 512 × BitVec 512 × BitVec 512) : RS4 := ⟨t.1, t.2.1, t.2.2.1, t.2.2.2⟩

theorem src_chacha_clean : Gen.Kernels.chacha_errors = [] := rfl

/-- guts.rs `round`, `V = M::u32x4` -/
theorem src_chacha_round : CC.ChaCha.round = fun M x => rsOf (Gen.Kernels.chacha_round M x.a x.b x.c x.d) := rfl
theorem src_chacha_diagonalize :
    CC.ChaCha.diagonalize = fun M x => rsOf (Gen.Kernels.chacha_diagonalize M x.a x.b x.c x.d) := rfl
theorem src_chacha_undiagonalize :
    CC.ChaCha.undiagonalize = fun M x => rsOf (Gen.Kernels.chacha_undiagonalize M x.a x.b x.c x.d) := rfl
/-- guts.rs `round`, `V = M::u32x4x4` (the wide path) -/
theorem src_chacha_round4 : CC.ChaCha.round4 = fun M x => rs4Of (Gen.Kernels.chacha_round4 M x.a x.b x.c x.d) := rfl
theorem src_chacha_diagonalize4 :
    CC.ChaCha.diagonalize4 = fun M x => rs4Of (Gen.Kernels.chacha_diagonalize4 M x.a x.b x.c x.d) := rfl
theorem src_chacha_undiagonalize4 :
    CC.ChaCha.undiagonalize4 = fun M x => rs4Of (Gen.Kernels.chacha_undiagonalize4 M x.a x.b x.c x.d) := rfl

/-- every `m.vec([…; 4])` literal of guts.rs is "expand 32-byte k" (`kvec`) -/
theorem src_chacha_k :
    Gen.Kernels.chacha_k_literals ≠ [] ∧
    ∀ k ∈ Gen.Kernels.chacha_k_literals, k = [Spec.c0, Spec.c1, Spec.c2, Spec.c3] := by decide +kernel

/-- the `u64x2` counter increments of `d0123` (model: `M.vec64 0 0 … M.vec64 3 0`) -/
theorem src_chacha_ctr_increments :
    Gen.Kernels.chacha_ctr_literals = [[0, 0], [1, 0], [2, 0], [3, 0]] := by decide +kernel

/-- `BLOCK`, `BUFBLOCKS`, `BUFSZ` (the model writes the block size 64 and the wide batch 256 = 4·64 as
    literals in `refill`, `refill4`, `Buffer.tryApply`), `BIG_LEN`, `SMALL_LEN` -/
theorem src_chacha_sizes :
    Gen.Kernels.chacha_BLOCK = 64 ∧ Gen.Kernels.chacha_BLOCK64 = 64 ∧ Gen.Kernels.chacha_BUFBLOCKS = 4 ∧
    Gen.Kernels.chacha_BUFSZ64 = 256 ∧ Gen.Kernels.chacha_BUFSZ = 256 ∧
    Gen.Kernels.chacha_BIG_LEN = BIG_LEN ∧ Gen.Kernels.chacha_SMALL_LEN = SMALL_LEN := by decide +kernel

/-- Rust type alias ↦ model variant -/
def chachaModelVariants : List (String × Spec.Variant) :=
  [("Ietf", ⟨.ietf, 10⟩), ("ChaCha8", ⟨.djb, 4⟩), ("ChaCha12", ⟨.djb, 6⟩), ("ChaCha20", ⟨.djb, 10⟩),
   ("XChaCha8", ⟨.x, 4⟩), ("XChaCha12", ⟨.x, 6⟩), ("XChaCha20", ⟨.x, 10⟩)]

/-- the seven `pub type … = ChaChaAny<NonceSize, Rounds, IsX>` aliases: nonce size, double rounds, X -/
theorem src_chacha_variants :
    Gen.Kernels.chacha_variants =
      chachaModelVariants.map fun nv => (nv.1, nv.2.nonceLen, nv.2.drounds, nv.2.layout == .x) := by
  decide +kernel

/-- … and these are the variants the driver runs under the lower-cased names -/
theorem src_chacha_variants_driver :
    ∀ nv ∈ chachaModelVariants, CC.Drv.ChaCha.variantOfName nv.1.toLower = some nv.2 := by decide +kernel

/-! ## phase 2: the block-level API of guts.rs / rustcrypto_impl.rs (tools/inventory_kernels_code.py) -/

/-- `ChaCha { b, c, d }` from its three components -/
def gutsOf (t : BitVec 128 × BitVec 128 × BitVec 128) : Guts := ⟨t.1, t.2.1, t.2.2⟩

/-- the loop combinator of the generated file is the model's `iter`, up to a change of state representation -/
theorem iter_conj {α β : Type} (g : α → β) (f : α → α) (f' : β → β) (h : ∀ x, g (f x) = f' (g x)) :
    ∀ (n : Nat) (x : α), g (Gen.Kernels.iter f n x) = CC.ChaCha.iter f' n (g x) := by
  intro n
  induction n with
  | zero => intro x; rfl
  | succ n ih => intro x; exact (ih (f x)).trans (congrArg (CC.ChaCha.iter f' n) (h x))

theorem src_chacha_pos64 : pos64 = fun M s => Gen.Kernels.chacha_pos64 M s.b s.c s.d := rfl
theorem src_chacha_seek64 : seek64 = fun M s ct => gutsOf (Gen.Kernels.chacha_seek64 M s.b s.c s.d ct) := rfl
theorem src_chacha_seek32 : seek32 = fun M s ct => gutsOf (Gen.Kernels.chacha_seek32 M s.b s.c s.d ct) := rfl
theorem src_chacha_inc_block_ct : incBlockCt = fun M s => gutsOf (Gen.Kernels.chacha_inc_block_ct M s.b s.c s.d) := rfl
theorem src_chacha_d0123 : d0123 = Gen.Kernels.chacha_d0123 := rfl
theorem src_chacha_add_pos : addPos = Gen.Kernels.chacha_add_pos := rfl

/-- one iteration of `for _ in 0..drounds { x = round(x); x = undiagonalize(round(diagonalize(x))); }` -/
theorem src_chacha_refill_narrow_rounds_loop1 (M : Mach) (x : BitVec 128 × BitVec 128 × BitVec 128 × BitVec 128) :
    rsOf (Gen.Kernels.chacha_refill_narrow_rounds_loop1 M x) = dround M (rsOf x) := rfl

/-- `refill_narrow_rounds(state, drounds)`: `drounds: u32` iterations (`dr.toNat`) -/
theorem src_chacha_refill_narrow_rounds (M : Mach) (s : Guts) (dr : BitVec 32) :
    refillNarrowRounds M s dr.toNat = rsOf (Gen.Kernels.chacha_refill_narrow_rounds M s.b s.c s.d dr) :=
  (iter_conj rsOf _ (dround M) (src_chacha_refill_narrow_rounds_loop1 M) dr.toNat (kvec M, s.b, s.c, s.d)).symm

theorem src_chacha_refill_narrow_loop1 (M : Mach) (x : BitVec 128 × BitVec 128 × BitVec 128 × BitVec 128) :
    rsOf (Gen.Kernels.chacha_refill_narrow_loop1 M x) = dround M (rsOf x) := rfl

/-- `refill_narrow(state, drounds, out)` (= `ChaCha::refill`): the 64 output bytes replace `out` entirely, the counter
    advances by one -/
theorem src_chacha_refill_narrow (M : Mach) (s : Guts) (dr : BitVec 32) (out : List (BitVec 8)) :
    refill M s dr.toNat =
      (let r := Gen.Kernels.chacha_refill_narrow M s.b s.c s.d dr out; (r.2.2.2, gutsOf (r.1, r.2.1, r.2.2.1))) := by
  have h : rsOf (Gen.Kernels.iter (Gen.Kernels.chacha_refill_narrow_loop1 M) dr.toNat (kvec M, s.b, s.c, s.d))
      = CC.ChaCha.iter (dround M) dr.toNat { a := kvec M, b := s.b, c := s.c, d := s.d } :=
    iter_conj rsOf _ (dround M) (src_chacha_refill_narrow_loop1 M) dr.toNat _
  unfold refill refillNarrowRounds
  rw [← h]
  rfl

theorem src_chacha_refill_wide_impl_loop1 (M : Mach) (x : BitVec 512 × BitVec 512 × BitVec 512 × BitVec 512) :
    rs4Of (Gen.Kernels.chacha_refill_wide_impl_loop1 M x) = dround4 M (rs4Of x) := rfl

/-- `refill_wide_impl(m, state, drounds, out)` (= `ChaCha::refill4`): 256 output bytes, counter += 4 -/
theorem src_chacha_refill_wide_impl (M : Mach) (s : Guts) (dr : BitVec 32) (out : List (BitVec 8)) :
    refill4 M s dr.toNat =
      (let r := Gen.Kernels.chacha_refill_wide_impl M s.b s.c s.d dr out; (r.2.2.2, gutsOf (r.1, r.2.1, r.2.2.1))) := by
  have h : rs4Of (Gen.Kernels.iter (Gen.Kernels.chacha_refill_wide_impl_loop1 M) dr.toNat
        (M.fromLanes512 (kvec M) (kvec M) (kvec M) (kvec M), M.fromLanes512 s.b s.b s.b s.b,
         M.fromLanes512 s.c s.c s.c s.c, d0123 M s.d))
      = CC.ChaCha.iter (dround4 M) dr.toNat
          { a := M.fromLanes512 (kvec M) (kvec M) (kvec M) (kvec M), b := M.fromLanes512 s.b s.b s.b s.b,
            c := M.fromLanes512 s.c s.c s.c s.c, d := d0123 M s.d } :=
    iter_conj rs4Of _ (dround4 M) (src_chacha_refill_wide_impl_loop1 M) dr.toNat _
  simp only [refill4]
  rw [← h]
  rfl

theorem src_chacha_stream32_eq :
    stream32Eq = fun a b => Gen.Kernels.chacha_stream32_eq a.b a.c a.d b.b b.c b.d := rfl
theorem src_chacha_stream64_eq :
    stream64Eq = fun a b => Gen.Kernels.chacha_stream64_eq a.b a.c a.d b.b b.c b.d := rfl

/-! ### byte loading: `read_u32le`, `u32::from_le_bytes` -/

theorem le32_eq_or (a b c d : BitVec 8) :
    le32 a b c d = a.setWidth 32 ||| (b.setWidth 32 <<< 8) ||| (c.setWidth 32 <<< 16) ||| (d.setWidth 32 <<< 24) := by
  unfold le32; bv_decide

/-- guts.rs `read_u32le(xs)` (for `xs.len() = 4`, asserted there) -/
theorem src_chacha_read_u32le : read32le = Gen.Kernels.chacha_read_u32le := by
  funext xs; exact le32_eq_or _ _ _ _

theorem read32le_take4 (l : List (BitVec 8)) : read32le (l.take 4) = read32le l := by
  simp [read32le, List.getD_eq_getElem?_getD]

/-- `u32::from_le_bytes(s[..4])`: missing bytes read as zero on both sides -/
theorem ofLeBytes32_take4 (l : List (BitVec 8)) : ofLeBytes 32 (l.take 4) = read32le l := by
  match l with
  | [] => simp [ofLeBytes, read32le, le32]
  | [a] => simp [ofLeBytes, read32le, le32]; bv_decide
  | [a, b] => simp [ofLeBytes, read32le, le32]; bv_decide
  | [a, b, c] => simp [ofLeBytes, read32le, le32]; bv_decide
  | a :: b :: c :: d :: _ => simp [ofLeBytes, read32le, le32]; bv_decide

theorem ofLeBytes32_short (l : List (BitVec 8)) (h : l.length ≤ 4) : ofLeBytes 32 l = read32le l := by
  rw [← ofLeBytes32_take4, List.take_of_length_le h]

theorem gen_read_u32le_take4 (l : List (BitVec 8)) : Gen.Kernels.chacha_read_u32le (l.take 4) = read32le l := by
  rw [← src_chacha_read_u32le, read32le_take4]

/-! ### constructors (`nonce: &[u8]` instantiated at its two lengths 8 and 12) -/

/-- guts.rs `ChaCha::new(key, nonce)`, `nonce.len() = 8` -/
theorem src_chacha_new_8 (key nonce : List (BitVec 8)) (h : nonce.length = 8) :
    gutsNew key nonce = gutsOf (Gen.Kernels.chacha_new_8 key nonce) := by
  simp [gutsNew, Gen.Kernels.chacha_new_8, gutsOf, h, ← src_chacha_read_u32le, read32le_take4]

/-- guts.rs `ChaCha::new(key, nonce)`, `nonce.len() = 12` -/
theorem src_chacha_new_12 (key nonce : List (BitVec 8)) (h : nonce.length = 12) :
    gutsNew key nonce = gutsOf (Gen.Kernels.chacha_new_12 key nonce) := by
  simp [gutsNew, Gen.Kernels.chacha_new_12, gutsOf, h, ← src_chacha_read_u32le, read32le_take4]

/-- rustcrypto_impl.rs `init_chacha(key, nonce)`, `nonce.len() = 8` -/
theorem src_chacha_init_chacha_8 (M : Mach) (key nonce : List (BitVec 8)) (h : nonce.length = 8) :
    initChaCha M key nonce = gutsOf (Gen.Kernels.chacha_init_chacha_8 M key nonce) := by
  simp [initChaCha, Gen.Kernels.chacha_init_chacha_8, gutsOf, h, ofLeBytes32_take4,
    ofLeBytes32_short (nonce.drop 4) (by simp [h])]

/-- rustcrypto_impl.rs `init_chacha(key, nonce)`, `nonce.len() = 12` -/
theorem src_chacha_init_chacha_12 (M : Mach) (key nonce : List (BitVec 8)) (h : nonce.length = 12) :
    initChaCha M key nonce = gutsOf (Gen.Kernels.chacha_init_chacha_12 M key nonce) := by
  simp [initChaCha, Gen.Kernels.chacha_init_chacha_12, gutsOf, h, ofLeBytes32_take4,
    ofLeBytes32_short (nonce.drop 8) (by simp [h])]

theorem src_chacha_init_chacha_x_loop1 (M : Mach) (x : BitVec 128 × BitVec 128 × BitVec 128 × BitVec 128) :
    rsOf (Gen.Kernels.chacha_init_chacha_x_loop1 M x) = dround M (rsOf x) := rfl

/-- rustcrypto_impl.rs `init_chacha_x(key, nonce, rounds)` (XChaCha: HChaCha subkey, `state.refill_rounds`) -/
theorem src_chacha_init_chacha_x (M : Mach) (key nonce : List (BitVec 8)) (dr : BitVec 32) :
    initChaChaX M key nonce dr.toNat = gutsOf (Gen.Kernels.chacha_init_chacha_x M key nonce dr) := by
  have h : rsOf (Gen.Kernels.iter (Gen.Kernels.chacha_init_chacha_x_loop1 M) dr.toNat
        (kvec M, M.readLe32x4 (key.take 16), M.readLe32x4 (key.drop 16), M.readLe32x4 (nonce.take 16)))
      = CC.ChaCha.iter (dround M) dr.toNat
          { a := kvec M, b := M.readLe32x4 (key.take 16), c := M.readLe32x4 (key.drop 16),
            d := M.readLe32x4 (nonce.take 16) } :=
    iter_conj rsOf _ (dround M) (src_chacha_init_chacha_x_loop1 M) dr.toNat _
  simp only [initChaChaX, refillNarrowRounds]
  rw [← h, ← ofLeBytes32_take4 (nonce.drop 16), ← ofLeBytes32_take4 (nonce.drop 20)]
  rfl

theorem src_chacha_init_chacha_x_guts_loop1 (M : Mach) (x : BitVec 128 × BitVec 128 × BitVec 128 × BitVec 128) :
    rsOf (Gen.Kernels.chacha_init_chacha_x_guts_loop1 M x) = dround M (rsOf x) := rfl

/-- guts.rs `init_chacha_x` (the copy in guts.rs: `refill_narrow_rounds`, `read_u32le`) -/
theorem src_chacha_init_chacha_x_guts (M : Mach) (key nonce : List (BitVec 8)) (dr : BitVec 32) :
    initChaChaX M key nonce dr.toNat = gutsOf (Gen.Kernels.chacha_init_chacha_x_guts M key nonce dr) := by
  have h : rsOf (Gen.Kernels.iter (Gen.Kernels.chacha_init_chacha_x_guts_loop1 M) dr.toNat
        (kvec M, M.readLe32x4 (key.take 16), M.readLe32x4 (key.drop 16), M.readLe32x4 (nonce.take 16)))
      = CC.ChaCha.iter (dround M) dr.toNat
          { a := kvec M, b := M.readLe32x4 (key.take 16), c := M.readLe32x4 (key.drop 16),
            d := M.readLe32x4 (nonce.take 16) } :=
    iter_conj rsOf _ (dround M) (src_chacha_init_chacha_x_guts_loop1 M) dr.toNat _
  simp only [initChaChaX, refillNarrowRounds]
  rw [← h, ← gen_read_u32le_take4 (nonce.drop 16), ← gen_read_u32le_take4 (nonce.drop 20)]
  rfl

/-! ### stream parameters (array indexing by `(param << 1) | 1`, `param << 1`: out of range ⇒ panic).

  Found by this tie: `param: u32` and `param << 1` DISCARDS bit 31, so `param = 2^31 + q` behaves like `param = q` in the
  Rust (no panic, a silent write for q ∈ {0, 1}).  The model (`setStreamParam` / `getStreamParam`, `param mod 2^31`)
  was repaired accordingly; the tie holds for every `u32`. -/

private theorem param_cases (param : BitVec 32) :
    (param.toNat % 2147483648 = 0 ∧ (param = 0#32 ∨ param = 0x80000000#32)) ∨
    (param.toNat % 2147483648 = 1 ∧ (param = 1#32 ∨ param = 0x80000001#32)) ∨
    (param.toNat % 2147483648 ≠ 0 ∧ param.toNat % 2147483648 ≠ 1 ∧ ¬ ((param <<< 1 ||| 1#32).toNat < 4)) := by
  have hlt := param.isLt
  by_cases h0 : param = 0#32
  · subst h0; exact Or.inl ⟨rfl, Or.inl rfl⟩
  by_cases h0' : param = 0x80000000#32
  · subst h0'; exact Or.inl ⟨rfl, Or.inr rfl⟩
  by_cases h1 : param = 1#32
  · subst h1; exact Or.inr (Or.inl ⟨rfl, Or.inl rfl⟩)
  by_cases h1' : param = 0x80000001#32
  · subst h1'; exact Or.inr (Or.inl ⟨rfl, Or.inr rfl⟩)
  refine Or.inr (Or.inr ⟨?_, ?_, ?_⟩)
  · intro h
    have : param.toNat = 0 ∨ param.toNat = 2147483648 := by omega
    rcases this with h | h
    · exact h0 (BitVec.eq_of_toNat_eq (by simpa using h))
    · exact h0' (BitVec.eq_of_toNat_eq (by simpa using h))
  · intro h
    have : param.toNat = 1 ∨ param.toNat = 2147483649 := by omega
    rcases this with h | h
    · exact h1 (BitVec.eq_of_toNat_eq (by simpa using h))
    · exact h1' (BitVec.eq_of_toNat_eq (by simpa using h))
  · have : ¬ (param <<< 1 ||| 1#32) < 4#32 := by bv_decide
    simpa [BitVec.lt_def] using this

/-- guts.rs `set_stream_param(param, value)`, every `param: u32` -/
theorem src_chacha_set_stream_param (s : Guts) (param : BitVec 32) (value : BitVec 64) :
    setStreamParam s param.toNat value =
      (Gen.Kernels.chacha_set_stream_param s.b s.c s.d param value >>= fun r => .ok (gutsOf r)) := by
  rcases param_cases param with ⟨_, h | h⟩ | ⟨_, h | h⟩ | ⟨e0, e1, hbad⟩
  · subst h; rfl
  · subst h; rfl
  · subst h; rfl
  · subst h; rfl
  · simp only [setStreamParam, e0, e1, if_false, Gen.Kernels.chacha_set_stream_param, decide_eq_false hbad]
    rfl

/-- guts.rs `get_stream_param(param)`, every `param: u32` -/
theorem src_chacha_get_stream_param (s : Guts) (param : BitVec 32) :
    getStreamParam s param.toNat = Gen.Kernels.chacha_get_stream_param s.b s.c s.d param := by
  rcases param_cases param with ⟨_, h | h⟩ | ⟨_, h | h⟩ | ⟨e0, e1, hbad⟩
  · subst h; rfl
  · subst h; rfl
  · subst h; rfl
  · subst h; rfl
  · simp only [getStreamParam, e0, e1, if_false, Gen.Kernels.chacha_get_stream_param, decide_eq_false hbad]
    rfl

/-! ### the public wrappers `ChaCha::refill4`, `ChaCha::refill`, `ChaCha::refill_rounds` forward to the functions above -/

theorem src_chacha_refill4 : Gen.Kernels.chacha_refill4 = Gen.Kernels.chacha_refill_wide_impl := rfl
theorem src_chacha_refill : Gen.Kernels.chacha_refill = Gen.Kernels.chacha_refill_narrow := rfl
theorem src_chacha_refill_rounds : Gen.Kernels.chacha_refill_rounds = Gen.Kernels.chacha_refill_narrow_rounds := rfl

end CC.Src
