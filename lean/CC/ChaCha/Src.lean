/-
  CC.ChaCha.Src — SOURCE TIE for ChaCha (property C01): every definition that tools/inventory_kernels.py
  regenerates from stream-ciphers/chacha/src/{guts.rs,rustcrypto_impl.rs} into `CC.Gen.Kernels` equals the
  hand-written model definition the theorems of `CC.Thm.C01` are about.  Re-checked against the fresh file
  on every run; a changed rotation distance / operand / shuffle / constant breaks the `rfl`.
-/
import Std.Tactic.BVDecide
import CC.Gen.Kernels
import CC.ChaCha.Core
import CC.ChaCha.Stream
import CC.Drv.ChaCha
import CC.ChaCha.Refine
import CC.Lemmas.SrcGlue
namespace CC.Src
open CC.Simd CC.ChaCha

/-- `State<V>` from its four components, 128-bit `V` -/
def rsOf (t : BitVec 128 × BitVec 128 × BitVec 128 × BitVec 128) : RS := ⟨t.1, t.2.1, t.2.2.1, t.2.2.2⟩
/-- `State<V>` from its four components, 512-bit `V` -/
def rs4Of (t : BitVec 512 × BitVec 512 × BitVec 512 × BitVec 512) : RS4 := ⟨t.1, t.2.1, t.2.2.1, t.2.2.2⟩

theorem src_chacha_clean : Gen.Kernels.chacha_errors = [] := rfl

/-- guts.rs `round`, `V = M::u32x4` -/
theorem src_chacha_round : CC.ChaCha.round = fun M x => rsOf (Gen.Kernels.chacha_round M x.a x.b x.c x.d) := rfl
theorem src_chacha_diagonalize :
    CC.ChaCha.diagonalize = fun M x => rsOf (Gen.Kernels.chacha_diagonalize M x.a x.b x.c x.d) := rfl
theorem src_chacha_undiagonalize :
    CC.ChaCha.undiagonalize = fun M x => rsOf (Gen.Kernels.chacha_undiagonalize M x.a x.b x.c x.d) := rfl
/-- guts.rs `round`, `V = M::u32x4x4` (the wide path) -/
theorem src_chacha_round4 : CC.ChaCha.round4 = fun M x => rs4Of (Gen.Kernels.chacha_round4 M x.a x.b x.c x.d) := rfl
theorem src_chacha_diagonalize4 :
    CC.ChaCha.diagonalize4 = fun M x => rs4Of (Gen.Kernels.chacha_diagonalize4 M x.a x.b x.c x.d) := rfl
theorem src_chacha_undiagonalize4 :
    CC.ChaCha.undiagonalize4 = fun M x => rs4Of (Gen.Kernels.chacha_undiagonalize4 M x.a x.b x.c x.d) := rfl

/-- every `m.vec([…; 4])` literal of guts.rs is "expand 32-byte k" (`kvec`) -/
theorem src_chacha_k :
    Gen.Kernels.chacha_k_literals ≠ [] ∧
    ∀ k ∈ Gen.Kernels.chacha_k_literals, k = [Spec.c0, Spec.c1, Spec.c2, Spec.c3] := by decide +kernel

/-- the `u64x2` counter increments of `d0123` (model: `M.vec64 0 0 … M.vec64 3 0`) -/
theorem src_chacha_ctr_increments :
    Gen.Kernels.chacha_ctr_literals = [[0, 0], [1, 0], [2, 0], [3, 0]] := by decide +kernel

/-- `BLOCK`, `BUFBLOCKS`, `BUFSZ` (the model writes the block size 64 and the wide batch 256 = 4·64 as
    literals in `refill`, `refill4`, `Buffer.tryApply`), `BIG_LEN`, `SMALL_LEN` -/
theorem src_chacha_sizes :
    Gen.Kernels.chacha_BLOCK = 64 ∧ Gen.Kernels.chacha_BLOCK64 = 64 ∧ Gen.Kernels.chacha_BUFBLOCKS = 4 ∧
    Gen.Kernels.chacha_BUFSZ64 = 256 ∧ Gen.Kernels.chacha_BUFSZ = 256 ∧
    Gen.Kernels.chacha_BIG_LEN = BIG_LEN ∧ Gen.Kernels.chacha_SMALL_LEN = SMALL_LEN := by decide +kernel

/-- Rust type alias ↦ model variant -/
def chachaModelVariants : List (String × Spec.Variant) :=
  [("Ietf", ⟨.ietf, 10⟩), ("ChaCha8", ⟨.djb, 4⟩), ("ChaCha12", ⟨.djb, 6⟩), ("ChaCha20", ⟨.djb, 10⟩),
   ("XChaCha8", ⟨.x, 4⟩), ("XChaCha12", ⟨.x, 6⟩), ("XChaCha20", ⟨.x, 10⟩)]

/-- the seven `pub type … = ChaChaAny<NonceSize, Rounds, IsX>` aliases: nonce size, double rounds, X -/
theorem src_chacha_variants :
    Gen.Kernels.chacha_variants =
      chachaModelVariants.map fun nv => (nv.1, nv.2.nonceLen, nv.2.drounds, nv.2.layout == .x) := by
  decide +kernel

/-- … and these are the variants the driver runs under the lower-cased names -/
theorem src_chacha_variants_driver :
    ∀ nv ∈ chachaModelVariants, CC.Drv.ChaCha.variantOfName nv.1.toLower = some nv.2 := by decide +kernel

/-! ## phase 2: the block-level API of guts.rs / rustcrypto_impl.rs (tools/inventory_kernels_code.py) -/

/-- `ChaCha { b, c, d }` from its three components -/
def gutsOf (t : BitVec 128 × BitVec 128 × BitVec 128) : Guts := ⟨t.1, t.2.1, t.2.2⟩

/-- the loop combinator of the generated file is the model's `iter`, up to a change of state representation -/
theorem iter_conj {α β : Type} (g : α → β) (f : α → α) (f' : β → β) (h : ∀ x, g (f x) = f' (g x)) :
    ∀ (n : Nat) (x : α), g (Gen.Kernels.iter f n x) = CC.ChaCha.iter f' n (g x) := by
  intro n
  induction n with
  | zero => intro x; rfl
  | succ n ih => intro x; exact (ih (f x)).trans (congrArg (CC.ChaCha.iter f' n) (h x))

theorem src_chacha_pos64 : pos64 = fun M s => Gen.Kernels.chacha_pos64 M s.b s.c s.d := rfl
theorem src_chacha_seek64 : seek64 = fun M s ct => gutsOf (Gen.Kernels.chacha_seek64 M s.b s.c s.d ct) := rfl
theorem src_chacha_seek32 : seek32 = fun M s ct => gutsOf (Gen.Kernels.chacha_seek32 M s.b s.c s.d ct) := rfl
theorem src_chacha_inc_block_ct : incBlockCt = fun M s => gutsOf (Gen.Kernels.chacha_inc_block_ct M s.b s.c s.d) := rfl
theorem src_chacha_d0123 : d0123 = Gen.Kernels.chacha_d0123 := rfl
theorem src_chacha_add_pos : addPos = Gen.Kernels.chacha_add_pos := rfl

/-- one iteration of `for _ in 0..drounds { x = round(x); x = undiagonalize(round(diagonalize(x))); }` -/
theorem src_chacha_refill_narrow_rounds_loop1 (M : Mach) (x : BitVec 128 × BitVec 128 × BitVec 128 × BitVec 128) :
    rsOf (Gen.Kernels.chacha_refill_narrow_rounds_loop1 M x) = dround M (rsOf x) := rfl

/-- `refill_narrow_rounds(state, drounds)`: `drounds: u32` iterations (`dr.toNat`) -/
theorem src_chacha_refill_narrow_rounds (M : Mach) (s : Guts) (dr : BitVec 32) :
    refillNarrowRounds M s dr.toNat = rsOf (Gen.Kernels.chacha_refill_narrow_rounds M s.b s.c s.d dr) :=
  (iter_conj rsOf _ (dround M) (src_chacha_refill_narrow_rounds_loop1 M) dr.toNat (kvec M, s.b, s.c, s.d)).symm

theorem src_chacha_refill_narrow_loop1 (M : Mach) (x : BitVec 128 × BitVec 128 × BitVec 128 × BitVec 128) :
    rsOf (Gen.Kernels.chacha_refill_narrow_loop1 M x) = dround M (rsOf x) := rfl

/-- `refill_narrow(state, drounds, out)` (= `ChaCha::refill`): the 64 output bytes replace `out` entirely, the counter
    advances by one -/
theorem src_chacha_refill_narrow (M : Mach) (s : Guts) (dr : BitVec 32) (out : List (BitVec 8)) :
    refill M s dr.toNat =
      (let r := Gen.Kernels.chacha_refill_narrow M s.b s.c s.d dr out; (r.2.2.2, gutsOf (r.1, r.2.1, r.2.2.1))) := by
  have h : rsOf (Gen.Kernels.iter (Gen.Kernels.chacha_refill_narrow_loop1 M) dr.toNat (kvec M, s.b, s.c, s.d))
      = CC.ChaCha.iter (dround M) dr.toNat { a := kvec M, b := s.b, c := s.c, d := s.d } :=
    iter_conj rsOf _ (dround M) (src_chacha_refill_narrow_loop1 M) dr.toNat _
  unfold refill refillNarrowRounds
  rw [← h]
  rfl

theorem src_chacha_refill_wide_impl_loop1 (M : Mach) (x : BitVec 512 × BitVec 512 × BitVec 512 × BitVec 512) :
    rs4Of (Gen.Kernels.chacha_refill_wide_impl_loop1 M x) = dround4 M (rs4Of x) := rfl

/-- `refill_wide_impl(m, state, drounds, out)` (= `ChaCha::refill4`): 256 output bytes, counter += 4 -/
theorem src_chacha_refill_wide_impl (M : Mach) (s : Guts) (dr : BitVec 32) (out : List (BitVec 8)) :
    refill4 M s dr.toNat =
      (let r := Gen.Kernels.chacha_refill_wide_impl M s.b s.c s.d dr out; (r.2.2.2, gutsOf (r.1, r.2.1, r.2.2.1))) := by
  have h : rs4Of (Gen.Kernels.iter (Gen.Kernels.chacha_refill_wide_impl_loop1 M) dr.toNat
        (M.fromLanes512 (kvec M) (kvec M) (kvec M) (kvec M), M.fromLanes512 s.b s.b s.b s.b,
         M.fromLanes512 s.c s.c s.c s.c, d0123 M s.d))
      = CC.ChaCha.iter (dround4 M) dr.toNat
          { a := M.fromLanes512 (kvec M) (kvec M) (kvec M) (kvec M), b := M.fromLanes512 s.b s.b s.b s.b,
            c := M.fromLanes512 s.c s.c s.c s.c, d := d0123 M s.d } :=
    iter_conj rs4Of _ (dround4 M) (src_chacha_refill_wide_impl_loop1 M) dr.toNat _
  simp only [refill4]
  rw [← h]
  rfl

theorem src_chacha_stream32_eq :
    stream32Eq = fun a b => Gen.Kernels.chacha_stream32_eq a.b a.c a.d b.b b.c b.d := rfl
theorem src_chacha_stream64_eq :
    stream64Eq = fun a b => Gen.Kernels.chacha_stream64_eq a.b a.c a.d b.b b.c b.d := rfl

/-! ### byte loading: `read_u32le`, `u32::from_le_bytes` -/

theorem le32_eq_or (a b c d : BitVec 8) :
    le32 a b c d = a.setWidth 32 ||| (b.setWidth 32 <<< 8) ||| (c.setWidth 32 <<< 16) ||| (d.setWidth 32 <<< 24) := by
  unfold le32; bv_decide

/-- guts.rs `read_u32le(xs)` (for `xs.len() = 4`, asserted there) -/
theorem src_chacha_read_u32le : read32le = Gen.Kernels.chacha_read_u32le := by
  funext xs; exact le32_eq_or _ _ _ _

theorem read32le_take4 (l : List (BitVec 8)) : read32le (l.take 4) = read32le l := by
  simp [read32le, List.getD_eq_getElem?_getD]

/-- `u32::from_le_bytes(s[..4])`: missing bytes read as zero on both sides -/
theorem ofLeBytes32_take4 (l : List (BitVec 8)) : ofLeBytes 32 (l.take 4) = read32le l := by
  match l with
  | [] => simp [ofLeBytes, read32le, le32]
  | [a] => simp [ofLeBytes, read32le, le32]; bv_decide
  | [a, b] => simp [ofLeBytes, read32le, le32]; bv_decide
  | [a, b, c] => simp [ofLeBytes, read32le, le32]; bv_decide
  | a :: b :: c :: d :: _ => simp [ofLeBytes, read32le, le32]; bv_decide

theorem ofLeBytes32_short (l : List (BitVec 8)) (h : l.length ≤ 4) : ofLeBytes 32 l = read32le l := by
  rw [← ofLeBytes32_take4, List.take_of_length_le h]

theorem gen_read_u32le_take4 (l : List (BitVec 8)) : Gen.Kernels.chacha_read_u32le (l.take 4) = read32le l := by
  rw [← src_chacha_read_u32le, read32le_take4]

/-! ### constructors (`nonce: &[u8]` instantiated at its two lengths 8 and 12) -/

/-- guts.rs `ChaCha::new(key, nonce)`, `nonce.len() = 8` -/
theorem src_chacha_new_8 (key nonce : List (BitVec 8)) (h : nonce.length = 8) :
    gutsNew key nonce = gutsOf (Gen.Kernels.chacha_new_8 key nonce) := by
  simp [gutsNew, Gen.Kernels.chacha_new_8, gutsOf, h, ← src_chacha_read_u32le, read32le_take4]

/-- guts.rs `ChaCha::new(key, nonce)`, `nonce.len() = 12` -/
theorem src_chacha_new_12 (key nonce : List (BitVec 8)) (h : nonce.length = 12) :
    gutsNew key nonce = gutsOf (Gen.Kernels.chacha_new_12 key nonce) := by
  simp [gutsNew, Gen.Kernels.chacha_new_12, gutsOf, h, ← src_chacha_read_u32le, read32le_take4]

/-- rustcrypto_impl.rs `init_chacha(key, nonce)`, `nonce.len() = 8` -/
theorem src_chacha_init_chacha_8 (M : Mach) (key nonce : List (BitVec 8)) (h : nonce.length = 8) :
    initChaCha M key nonce = gutsOf (Gen.Kernels.chacha_init_chacha_8 M key nonce) := by
  simp [initChaCha, Gen.Kernels.chacha_init_chacha_8, gutsOf, h, ofLeBytes32_take4,
    ofLeBytes32_short (nonce.drop 4) (by simp [h])]

/-- rustcrypto_impl.rs `init_chacha(key, nonce)`, `nonce.len() = 12` -/
theorem src_chacha_init_chacha_12 (M : Mach) (key nonce : List (BitVec 8)) (h : nonce.length = 12) :
    initChaCha M key nonce = gutsOf (Gen.Kernels.chacha_init_chacha_12 M key nonce) := by
  simp [initChaCha, Gen.Kernels.chacha_init_chacha_12, gutsOf, h, ofLeBytes32_take4,
    ofLeBytes32_short (nonce.drop 8) (by simp [h])]

theorem src_chacha_init_chacha_x_loop1 (M : Mach) (x : BitVec 128 × BitVec 128 × BitVec 128 × BitVec 128) :
    rsOf (Gen.Kernels.chacha_init_chacha_x_loop1 M x) = dround M (rsOf x) := rfl

/-- rustcrypto_impl.rs `init_chacha_x(key, nonce, rounds)` (XChaCha: HChaCha subkey, `state.refill_rounds`) -/
theorem src_chacha_init_chacha_x (M : Mach) (key nonce : List (BitVec 8)) (dr : BitVec 32) :
    initChaChaX M key nonce dr.toNat = gutsOf (Gen.Kernels.chacha_init_chacha_x M key nonce dr) := by
  have h : rsOf (Gen.Kernels.iter (Gen.Kernels.chacha_init_chacha_x_loop1 M) dr.toNat
        (kvec M, M.readLe32x4 (key.take 16), M.readLe32x4 (key.drop 16), M.readLe32x4 (nonce.take 16)))
      = CC.ChaCha.iter (dround M) dr.toNat
          { a := kvec M, b := M.readLe32x4 (key.take 16), c := M.readLe32x4 (key.drop 16),
            d := M.readLe32x4 (nonce.take 16) } :=
    iter_conj rsOf _ (dround M) (src_chacha_init_chacha_x_loop1 M) dr.toNat _
  simp only [initChaChaX, refillNarrowRounds]
  rw [← h, ← ofLeBytes32_take4 (nonce.drop 16), ← ofLeBytes32_take4 (nonce.drop 20)]
  rfl

theorem src_chacha_init_chacha_x_guts_loop1 (M : Mach) (x : BitVec 128 × BitVec 128 × BitVec 128 × BitVec 128) :
    rsOf (Gen.Kernels.chacha_init_chacha_x_guts_loop1 M x) = dround M (rsOf x) := rfl

/-- guts.rs `init_chacha_x` (the copy in guts.rs: `refill_narrow_rounds`, `read_u32le`) -/
theorem src_chacha_init_chacha_x_guts (M : Mach) (key nonce : List (BitVec 8)) (dr : BitVec 32) :
    initChaChaX M key nonce dr.toNat = gutsOf (Gen.Kernels.chacha_init_chacha_x_guts M key nonce dr) := by
  have h : rsOf (Gen.Kernels.iter (Gen.Kernels.chacha_init_chacha_x_guts_loop1 M) dr.toNat
        (kvec M, M.readLe32x4 (key.take 16), M.readLe32x4 (key.drop 16), M.readLe32x4 (nonce.take 16)))
      = CC.ChaCha.iter (dround M) dr.toNat
          { a := kvec M, b := M.readLe32x4 (key.take 16), c := M.readLe32x4 (key.drop 16),
            d := M.readLe32x4 (nonce.take 16) } :=
    iter_conj rsOf _ (dround M) (src_chacha_init_chacha_x_guts_loop1 M) dr.toNat _
  simp only [initChaChaX, refillNarrowRounds]
  rw [← h, ← gen_read_u32le_take4 (nonce.drop 16), ← gen_read_u32le_take4 (nonce.drop 20)]
  rfl

/-! ### stream parameters (array indexing by `(param << 1) | 1`, `param << 1`: out of range ⇒ panic).

  Found by this tie: `param: u32` and `param << 1` DISCARDS bit 31, so `param = 2^31 + q` behaves like `param = q` in the
  Rust (no panic, a silent write for q ∈ {0, 1}).  The model (`setStreamParam` / `getStreamParam`, `param mod 2^31`)
  was repaired accordingly; the tie holds for every `u32`. -/

private theorem param_cases (param : BitVec 32) :
    (param.toNat % 2147483648 = 0 ∧ (param = 0#32 ∨ param = 0x80000000#32)) ∨
    (param.toNat % 2147483648 = 1 ∧ (param = 1#32 ∨ param = 0x80000001#32)) ∨
    (param.toNat % 2147483648 ≠ 0 ∧ param.toNat % 2147483648 ≠ 1 ∧ ¬ ((param <<< 1 ||| 1#32).toNat < 4)) := by
  have hlt := param.isLt
  by_cases h0 : param = 0#32
  · subst h0; exact Or.inl ⟨rfl, Or.inl rfl⟩
  by_cases h0' : param = 0x80000000#32
  · subst h0'; exact Or.inl ⟨rfl, Or.inr rfl⟩
  by_cases h1 : param = 1#32
  · subst h1; exact Or.inr (Or.inl ⟨rfl, Or.inl rfl⟩)
  by_cases h1' : param = 0x80000001#32
  · subst h1'; exact Or.inr (Or.inl ⟨rfl, Or.inr rfl⟩)
  refine Or.inr (Or.inr ⟨?_, ?_, ?_⟩)
  · intro h
    have : param.toNat = 0 ∨ param.toNat = 2147483648 := by omega
    rcases this with h | h
    · exact h0 (BitVec.eq_of_toNat_eq (by simpa using h))
    · exact h0' (BitVec.eq_of_toNat_eq (by simpa using h))
  · intro h
    have : param.toNat = 1 ∨ param.toNat = 2147483649 := by omega
    rcases this with h | h
    · exact h1 (BitVec.eq_of_toNat_eq (by simpa using h))
    · exact h1' (BitVec.eq_of_toNat_eq (by simpa using h))
  · have : ¬ (param <<< 1 ||| 1#32) < 4#32 := by bv_decide
    simpa [BitVec.lt_def] using this

/-- guts.rs `set_stream_param(param, value)`, every `param: u32` -/
theorem src_chacha_set_stream_param (s : Guts) (param : BitVec 32) (value : BitVec 64) :
    setStreamParam s param.toNat value =
      (Gen.Kernels.chacha_set_stream_param s.b s.c s.d param value >>= fun r => .ok (gutsOf r)) := by
  rcases param_cases param with ⟨_, h | h⟩ | ⟨_, h | h⟩ | ⟨e0, e1, hbad⟩
  · subst h; rfl
  · subst h; rfl
  · subst h; rfl
  · subst h; rfl
  · simp only [setStreamParam, e0, e1, if_false, Gen.Kernels.chacha_set_stream_param, decide_eq_false hbad]
    rfl

/-- guts.rs `get_stream_param(param)`, every `param: u32` -/
theorem src_chacha_get_stream_param (s : Guts) (param : BitVec 32) :
    getStreamParam s param.toNat = Gen.Kernels.chacha_get_stream_param s.b s.c s.d param := by
  rcases param_cases param with ⟨_, h | h⟩ | ⟨_, h | h⟩ | ⟨e0, e1, hbad⟩
  · subst h; rfl
  · subst h; rfl
  · subst h; rfl
  · subst h; rfl
  · simp only [getStreamParam, e0, e1, if_false, Gen.Kernels.chacha_get_stream_param, decide_eq_false hbad]
    rfl

/-! ### the public wrappers `ChaCha::refill4`, `ChaCha::refill`, `ChaCha::refill_rounds` forward to the functions above -/

theorem src_chacha_refill4 : Gen.Kernels.chacha_refill4 = Gen.Kernels.chacha_refill_wide_impl := rfl
theorem src_chacha_refill : Gen.Kernels.chacha_refill = Gen.Kernels.chacha_refill_narrow := rfl
theorem src_chacha_refill_rounds : Gen.Kernels.chacha_refill_rounds = Gen.Kernels.chacha_refill_narrow_rounds := rfl


/-! ## phase 3: the glue of rustcrypto_impl.rs (tools/inventory_kernels_glue.py)

  `seek64`, `seek32`, both `ChaChaAny::new`, `try_seek`, `try_current_pos`, `ChaChaAny::try_apply_keystream` (with the
  IETF nonce-word restore) and the whole of `Buffer::try_apply_keystream` (lazy fill, overflow check with the early
  `Err`, drain of the buffered bytes, the wide loop over `chunks_exact_mut(BUFSZ)`, the tail loop over
  `chunks_mut(BLOCK)`, `self.have = have as i8`), regenerated from the source on every run.

  The generated definitions compute on the fields of the Rust structs (`have: i8` ↦ `BitVec 8`, `len: u64` ↦
  `BitVec 64`); the model (`CC.ChaCha.Stream`) uses `Int` / `Nat`.  `bufEnc` is the encoding; the obligations hold for
  every buffer whose fields are in the range of their Rust types (and, for `try_apply_keystream` / `try_current_pos`,
  satisfy the invariant `-64 < have ≤ 64` of the struct: outside it the model deliberately panics).  Panic messages
  are not compared (`noMsg`). -/

theorem ofNat_div64 (x : BitVec 64) : BitVec.ofNat 64 (x.toNat / 64) = x / 64#64 := by
  apply BitVec.eq_of_toNat_eq
  simp [BitVec.toNat_udiv]
  omega

theorem ofNat_mod64_8 (x : BitVec 64) : BitVec.ofNat 8 (x.toNat % 64) = BitVec.setWidth 8 (x % 64#64) := by
  apply BitVec.eq_of_toNat_eq
  simp [BitVec.toNat_umod]

theorem ofInt_neg_nat (n : Nat) : BitVec.ofInt 8 (-(n : Int)) = -(BitVec.ofNat 8 n) := by
  rw [BitVec.ofInt_neg]
  simp

theorem toInt_ne_min8 (x : BitVec 8) : (x.toInt ≠ -128) ↔ x ≠ 0x80#8 := by
  constructor
  · intro h e; subst e; exact h (by decide)
  · intro h e; apply h; apply BitVec.eq_of_toInt_eq; rw [e]; decide

theorem wsub64_ofNat (a b : Nat) (ha : a < 2^64) : BitVec.ofNat 64 (wsub64 a b) = BitVec.ofNat 64 a - BitVec.ofNat 64 b := by
  apply BitVec.eq_of_toNat_eq
  simp [wsub64, BitVec.toNat_sub]
  omega

theorem div64_beq_zero (x : BitVec 64) : (x / 64#64 == 0#64) = (x.toNat / 64 == 0) := by
  rw [Bool.eq_iff_iff]; simp [← BitVec.toNat_inj, BitVec.toNat_udiv]

/-- `-((ct % BLOCK64) as i8)` cannot overflow (stated without a `Profile` in the context: `bv_decide` would otherwise
    declare its enum encoding of `Profile` here as well as in other modules) -/
theorem neg_guard_mod64 (ct : BitVec 64) : decide ((BitVec.setWidth 8 (ct % 64#64)).toInt ≠ -128) = true := by
  rw [decide_eq_true_iff, toInt_ne_min8]; bv_decide

/-- the fields of the Rust `Buffer` as the generated definitions take / return them -/
def bufEnc (b : Buffer) : BitVec 128 × BitVec 128 × BitVec 128 × List (BitVec 8) × BitVec 8 × BitVec 64 × Bool :=
  (b.state.b, b.state.c, b.state.d, b.out, BitVec.ofInt 8 b.hav, BitVec.ofNat 64 b.len, b.fresh)

theorem src_chacha_buffer_seek64 (M : Mach) (p : Profile) (b : Buffer) (ct : BitVec 64) :
    Gen.Kernels.chacha_buffer_seek64 M p b.state.b b.state.c b.state.d b.out (BitVec.ofInt 8 b.hav)
        (BitVec.ofNat 64 b.len) b.fresh ct
      = .ok (bufEnc (Buffer.seek64 M b ct.toNat)) := by
  have hg := neg_guard_mod64 ct
  simp only [Gen.Kernels.chacha_buffer_seek64, hg, Bool.true_eq_false, and_false, if_false, bufEnc, Buffer.seek64,
    src_chacha_seek64, gutsOf, ofNat_div64, ofInt_neg_nat, ofNat_mod64_8, BIG_LEN, wsub64_ofNat 0 _ (by decide)]
  rw [div64_beq_zero]

theorem seek32_cond (ct : BitVec 64) :
    ((ct / 64#64).ult 4294967296#64 || ct / 64#64 == 4294967296#64 && ct % 64#64 == 0#64)
      = decide (ct.toNat / 64 < 2 ^ 32 ∨ ct.toNat / 64 = 2 ^ 32 ∧ ct.toNat % 64 = 0) := by
  rw [Bool.eq_iff_iff]
  simp [BitVec.ult, ← BitVec.toNat_inj, BitVec.toNat_udiv, BitVec.toNat_umod]

theorem setWidth32_div64 (ct : BitVec 64) : BitVec.setWidth 32 (ct / 64#64) = BitVec.ofNat 32 (ct.toNat / 64) := by
  apply BitVec.eq_of_toNat_eq
  simp [BitVec.toNat_udiv]

theorem seek32_h2 (ct : BitVec 64) (hc : ct.toNat / 64 < 2 ^ 32 ∨ ct.toNat / 64 = 2 ^ 32 ∧ ct.toNat % 64 = 0) :
    decide ((ct / 64#64).toNat ≤ (4294967296#64).toNat) = true := by
  simp [BitVec.toNat_udiv]; omega

theorem seek32_h3 (ct : BitVec 64) (hc : ct.toNat / 64 < 2 ^ 32 ∨ ct.toNat / 64 = 2 ^ 32 ∧ ct.toNat % 64 = 0) :
    BitVec.ofNat 64 (2 ^ 32 - ct.toNat / 64) = 4294967296#64 - ct / 64#64 := by
  have h : ct.toNat / 64 ≤ 2 ^ 32 := by omega
  apply BitVec.eq_of_toNat_eq
  rw [BitVec.toNat_sub, BitVec.toNat_udiv, BitVec.toNat_ofNat, BitVec.toNat_ofNat, BitVec.toNat_ofNat]
  generalize ct.toNat / 64 = x at h ⊢
  omega

theorem src_chacha_buffer_seek32 (M : Mach) (p : Profile) (b : Buffer) (ct : BitVec 64) :
    noMsg (Gen.Kernels.chacha_buffer_seek32 M p b.state.b b.state.c b.state.d b.out (BitVec.ofInt 8 b.hav)
        (BitVec.ofNat 64 b.len) b.fresh ct)
      = noMsg (Buffer.seek32 M b ct.toNat >>= fun b' => .ok (bufEnc b')) := by
  have hg := neg_guard_mod64 ct
  simp only [Gen.Kernels.chacha_buffer_seek32, hg, Bool.true_eq_false, and_false, if_false, bufEnc, Buffer.seek32,
    src_chacha_seek32, gutsOf, SMALL_LEN, seek32_cond, setWidth32_div64]
  by_cases hc : ct.toNat / 64 < 2 ^ 32 ∨ ct.toNat / 64 = 2 ^ 32 ∧ ct.toNat % 64 = 0
  · simp only [hc, decide_true, Bool.true_eq_false, if_false, seek32_h2 ct hc, and_false, if_true, Out.bind_ok,
      ofInt_neg_nat, ofNat_mod64_8, seek32_h3 ct hc]
  · simp only [hc, decide_false, if_true, if_false]
    rfl

/-! ### constructors -/

theorem src_chacha_any_new_8 (M : Mach) (dr : Nat) (key nonce : List (BitVec 8)) (h : nonce.length = 8) :
    bufEnc (Cipher.new M ⟨.djb, dr⟩ key nonce).buf = Gen.Kernels.chacha_any_new_8 M key nonce := by
  simp [Cipher.new, bufEnc, Gen.Kernels.chacha_any_new_8, src_chacha_init_chacha_8 M key nonce h, gutsOf, h, zeros,
    BIG_LEN]

theorem src_chacha_any_new_12 (M : Mach) (dr : Nat) (key nonce : List (BitVec 8)) (h : nonce.length = 12) :
    bufEnc (Cipher.new M ⟨.ietf, dr⟩ key nonce).buf = Gen.Kernels.chacha_any_new_12 M key nonce := by
  simp [Cipher.new, bufEnc, Gen.Kernels.chacha_any_new_12, src_chacha_init_chacha_12 M key nonce h, gutsOf, h, zeros,
    SMALL_LEN]

theorem src_chacha_any_new_x (M : Mach) (dr : BitVec 32) (key nonce : List (BitVec 8)) :
    bufEnc (Cipher.new M ⟨.x, dr.toNat⟩ key nonce).buf = Gen.Kernels.chacha_any_new_x M key nonce dr := by
  simp [Cipher.new, bufEnc, Gen.Kernels.chacha_any_new_x, src_chacha_init_chacha_x M key nonce dr, gutsOf, zeros,
    BIG_LEN]

/-! ### `try_seek`, `try_current_pos` -/

theorem seek32_ne_err (M : Mach) (b : Buffer) (ct : Nat) : Buffer.seek32 M b ct ≠ .err := by
  unfold Buffer.seek32; simp only []; split <;> simp

/-- the named primitive `pos.try_into()` (`T: SeekNum`, target `u64`) on the value `pos` of `T` -/
def tryIntoU64 (pos : Int) : Option (BitVec 64) :=
  if pos < 0 ∨ pos.toNat ≥ 2 ^ 64 then none else some (BitVec.ofNat 64 pos.toNat)

theorem src_chacha_any_try_seek_12 (M : Mach) (p : Profile) (c : Cipher) (hl : c.v.layout = .ietf) (pos : Int) :
    noMsg (Gen.Kernels.chacha_any_try_seek_12 M p c.buf.state.b c.buf.state.c c.buf.state.d c.buf.out
        (BitVec.ofInt 8 c.buf.hav) (BitVec.ofNat 64 c.buf.len) c.buf.fresh (tryIntoU64 pos))
      = noMsg (Cipher.trySeek M c pos >>= fun r => .ok (r.2, bufEnc r.1.buf)) := by
  unfold Gen.Kernels.chacha_any_try_seek_12 Cipher.trySeek tryIntoU64
  by_cases h0 : pos < 0 ∨ pos.toNat ≥ 2 ^ 64
  · simp [h0, bufEnc, noMsg]
  · simp only [h0, if_false, hl, Option.isSome_some, Bool.not_true, Option.getD_some]
    have hlt : pos.toNat < 2 ^ 64 := by omega
    have hnat : (BitVec.ofNat 64 pos.toNat).toNat = pos.toNat := by
      rw [BitVec.toNat_ofNat]; exact Nat.mod_eq_of_lt hlt
    have hcmp : BitVec.ult 274877906944#64 (BitVec.ofNat 64 pos.toNat) = decide (pos.toNat > SMALL_LEN * 64) := by
      rw [Bool.eq_iff_iff]; simp [BitVec.ult, hnat, SMALL_LEN]
    rw [hcmp]
    by_cases h1 : pos.toNat > SMALL_LEN * 64
    · simp [h1, bufEnc, noMsg]
    · simp only [h1, decide_false, Bool.false_eq_true, if_false, Bool.false_eq_true]
      rw [← outOk_noMsg, ← outGet_noMsg, src_chacha_buffer_seek32, hnat]
      cases hs : Buffer.seek32 M c.buf pos.toNat with
      | ok b' => rfl
      | panic w => rfl
      | err => exact absurd hs (seek32_ne_err M c.buf pos.toNat)

theorem trySeek_non_ietf (M : Mach) (c : Cipher) (hl : c.v.layout ≠ .ietf) (pos : Int) :
    Cipher.trySeek M c pos =
      if pos < 0 ∨ pos.toNat ≥ 2 ^ 64 then .ok (c, false)
      else .ok ({ c with buf := Buffer.seek64 M c.buf pos.toNat }, true) := by
  unfold Cipher.trySeek
  split
  · rfl
  · cases h : c.v.layout <;> simp_all

theorem src_chacha_any_try_seek_8 (M : Mach) (p : Profile) (c : Cipher) (hl : c.v.layout ≠ .ietf) (pos : Int) :
    Gen.Kernels.chacha_any_try_seek_8 M p c.buf.state.b c.buf.state.c c.buf.state.d c.buf.out
        (BitVec.ofInt 8 c.buf.hav) (BitVec.ofNat 64 c.buf.len) c.buf.fresh (tryIntoU64 pos)
      = (Cipher.trySeek M c pos >>= fun r => .ok (r.2, bufEnc r.1.buf)) := by
  rw [trySeek_non_ietf M c hl]
  unfold Gen.Kernels.chacha_any_try_seek_8 tryIntoU64
  by_cases h0 : pos < 0 ∨ pos.toNat ≥ 2 ^ 64
  · simp [h0, bufEnc]
  · have hlt : pos.toNat < 2 ^ 64 := by omega
    have hnat : (BitVec.ofNat 64 pos.toNat).toNat = pos.toNat := by
      rw [BitVec.toNat_ofNat]; exact Nat.mod_eq_of_lt hlt
    simp only [h0, if_false, Option.isSome_some, Bool.not_true, Option.getD_some, src_chacha_buffer_seek64, hnat]
    rfl

theorem src_chacha_any_try_seek_24 (M : Mach) (p : Profile) (c : Cipher) (hl : c.v.layout ≠ .ietf) (pos : Int) :
    Gen.Kernels.chacha_any_try_seek_24 M p c.buf.state.b c.buf.state.c c.buf.state.d c.buf.out
        (BitVec.ofInt 8 c.buf.hav) (BitVec.ofNat 64 c.buf.len) c.buf.fresh (tryIntoU64 pos)
      = (Cipher.trySeek M c pos >>= fun r => .ok (r.2, bufEnc r.1.buf)) :=
  src_chacha_any_try_seek_8 M p c hl pos

/-- the named primitive `T::from_block_byte(block, byte, bs)` (`bs` is `BLOCK as u8`) as the model writes it -/
def fromBlockByteP (t : SeekTy) (block : BitVec 128) (byte bs : BitVec 8) : Option Nat :=
  if bs = 64#8 then fromBlockByte t block.toNat byte.toNat else none

theorem ofNat64_beq_zero (n : Nat) (h : n < 2 ^ 64) : (BitVec.ofNat 64 n == 0#64) = (n == 0) := by
  rw [Bool.eq_iff_iff]; simp [← BitVec.toNat_inj, Nat.mod_eq_of_lt h]

theorem blocks_toNat (total len : Nat) (ht : total < 2 ^ 64) (h3 : len < 2 ^ 64) (c : Bool) :
    (if c = true then 18446744073709551616#128
      else BitVec.setWidth 128 (BitVec.ofNat 64 total - BitVec.ofNat 64 len)).toNat
      = (if c = true then 2 ^ 64 else wsub64 total len) := by
  cases c
  · simp only [Bool.false_eq_true, if_false, BitVec.toNat_setWidth, BitVec.toNat_sub, BitVec.toNat_ofNat, wsub64]
    omega
  · simp

theorem sub_one_toNat128 (B : BitVec 128) : (B - 1#128).toNat = if B.toNat = 0 then 2 ^ 128 - 1 else B.toNat - 1 := by
  rw [BitVec.toNat_sub]
  have := B.isLt
  split <;> simp <;> omega

/-- the part of `try_current_pos` after `blocks` has been computed: generated shape vs. model shape -/
theorem current_pos_core (p : Profile) (t : SeekTy) (hav : Int) (h1 : -128 < hav) (h2 : hav ≤ 64) (B : BitVec 128) :
    noMsg
      (if p = Profile.debug ∧ decide (0 < hav) = true ∧ decide ((1#128).toNat ≤ B.toNat) = false then
        (Out.panic "attempt to subtract with overflow" : Out (Option Nat))
      else if p = Profile.debug ∧ decide (0 < hav) = true ∧
            decide ((BitVec.ofInt 8 hav).toNat ≤ (64#8).toNat) = false then
        Out.panic "attempt to subtract with overflow"
      else if p = Profile.debug ∧ decide (0 < hav) = false ∧ decide ((BitVec.ofInt 8 hav).toInt ≠ -128) = false then
        Out.panic "attempt to negate with overflow"
      else
        Out.ok (if decide (0 < hav) = true then fromBlockByteP t (B - 1#128) (64#8 - BitVec.ofInt 8 hav) 64#8
                else fromBlockByteP t B (-BitVec.ofInt 8 hav) 64#8)) =
    noMsg
      (if hav > 0 then
        if B.toNat = 0 then
          match p with
          | Profile.debug => Out.panic "attempt to subtract with overflow"
          | Profile.release => Out.ok (fromBlockByte t (2 ^ 128 - 1) (64 - hav.toNat))
        else if hav > 64 then Out.panic "attempt to subtract with overflow"
        else Out.ok (fromBlockByte t (B.toNat - 1) (64 - hav.toNat))
      else Out.ok (fromBlockByte t B.toNat (-hav).toNat)) := by
  by_cases hp : 0 < hav
  · have e1 : (BitVec.ofInt 8 hav).toNat = hav.toNat := toNat_ofInt8_nonneg _ (by omega) (by omega)
    have e2 := toNat_64_sub_ofInt8 _ hp h2
    have e3 : ¬ hav > 64 := by omega
    simp only [hp, decide_true, true_and, e1, gt_iff_lt, e3, if_false, if_true, Bool.true_eq_false, false_and, and_false,
      fromBlockByteP, e2, sub_one_toNat128]
    by_cases hz : B.toNat = 0
    · cases p <;> simp [hz, noMsg]
    · have : hav.toNat ≤ 64 := by omega
      cases p <;> simp [hz, noMsg, this] <;> omega
  · have e1 := toNat_neg_ofInt8 _ h1 (by omega : hav ≤ 0)
    have e2 : (BitVec.ofInt 8 hav).toInt = hav := toInt_ofInt8 _ (by omega) (by omega)
    have e3 : ¬ hav > 0 := by omega
    have e4 : hav ≠ -128 := by omega
    simp [hp, e1, e2, e4, fromBlockByteP, noMsg]

theorem src_chacha_any_try_current_pos_8 (p : Profile) (c : Cipher) (hl : c.v.layout ≠ .ietf)
    (h1 : -128 < c.buf.hav) (h2 : c.buf.hav ≤ 64) (h3 : c.buf.len < 2 ^ 64) (t : SeekTy) :
    noMsg (Gen.Kernels.chacha_any_try_current_pos_8 (fromBlockByteP t) p c.buf.state.b c.buf.state.c c.buf.state.d
        c.buf.out (BitVec.ofInt 8 c.buf.hav) (BitVec.ofNat 64 c.buf.len) c.buf.fresh)
      = noMsg (Cipher.tryCurrentPos p c t) := by
  unfold Gen.Kernels.chacha_any_try_current_pos_8 Cipher.tryCurrentPos
  have hlay : (match c.v.layout with | .ietf => SMALL_LEN | _ => BIG_LEN) = BIG_LEN := by
    cases h : c.v.layout <;> simp_all
  have hne : (c.v.layout != .ietf) = true := by simpa using hl
  have hB := blocks_toNat BIG_LEN c.buf.len (by decide) h3 (c.buf.len == 0 && !c.buf.fresh)
  rw [show BitVec.ofNat 64 BIG_LEN = 0#64 from rfl] at hB
  simp only [hne, Bool.true_and, slt_zero_ofInt8 _ (by omega : -128 ≤ c.buf.hav) (by omega : c.buf.hav < 128),
    ofNat64_beq_zero _ h3, ← hB]
  exact current_pos_core p t c.buf.hav h1 h2 _

theorem src_chacha_any_try_current_pos_24 (p : Profile) (c : Cipher) (hl : c.v.layout ≠ .ietf)
    (h1 : -128 < c.buf.hav) (h2 : c.buf.hav ≤ 64) (h3 : c.buf.len < 2 ^ 64) (t : SeekTy) :
    noMsg (Gen.Kernels.chacha_any_try_current_pos_24 (fromBlockByteP t) p c.buf.state.b c.buf.state.c c.buf.state.d
        c.buf.out (BitVec.ofInt 8 c.buf.hav) (BitVec.ofNat 64 c.buf.len) c.buf.fresh)
      = noMsg (Cipher.tryCurrentPos p c t) :=
  src_chacha_any_try_current_pos_8 p c hl h1 h2 h3 t

theorem src_chacha_any_try_current_pos_12 (p : Profile) (c : Cipher) (hl : c.v.layout = .ietf)
    (h1 : -128 < c.buf.hav) (h2 : c.buf.hav ≤ 64) (h3 : c.buf.len < 2 ^ 64) (t : SeekTy) :
    noMsg (Gen.Kernels.chacha_any_try_current_pos_12 (fromBlockByteP t) p c.buf.state.b c.buf.state.c c.buf.state.d
        c.buf.out (BitVec.ofInt 8 c.buf.hav) (BitVec.ofNat 64 c.buf.len) c.buf.fresh)
      = noMsg (Cipher.tryCurrentPos p c t) := by
  unfold Gen.Kernels.chacha_any_try_current_pos_12 Cipher.tryCurrentPos
  have hB := blocks_toNat SMALL_LEN c.buf.len (by unfold SMALL_LEN; omega) h3 false
  simp only [Bool.false_eq_true, if_false] at hB
  rw [show BitVec.ofNat 64 SMALL_LEN = 4294967296#64 from by simp [SMALL_LEN]] at hB
  simp only [hl, bne_self_eq_false, Bool.false_and, Bool.false_eq_true, if_false,
    slt_zero_ofInt8 _ (by omega : -128 ≤ c.buf.hav) (by omega : c.buf.hav < 128), ← hB]
  exact current_pos_core p t c.buf.hav h1 h2 _

/-! ### `Buffer::try_apply_keystream` -/

/-- what the tie needs of the machine: the block outputs have their lengths (true of `Mach.ref`, hence of every backend) -/
structure BlockLens (M : Mach) : Prop where
  refill : ∀ s dr, (refill M s dr).1.length = 64
  refill4 : ∀ s dr, (refill4 M s dr).1.length = 256

theorem loop1_eq (M : Mach) (hM : BlockLens M) (dr : BitVec 32) (s : Guts)
    (rest : List (BitVec 8) × BitVec 8 × BitVec 64 × Bool) (dd : List (BitVec 8)) (hdd : dd.length ≤ 256) :
    Gen.Kernels.chacha_buffer_try_apply_keystream_loop1 M dr (s.b, s.c, s.d, rest) dd
      = (((wideStep M dr.toNat s dd).1.b, (wideStep M dr.toNat s dd).1.c, (wideStep M dr.toNat s dd).1.d, rest),
         (wideStep M dr.toNat s dd).2) := by
  have h4 := src_chacha_refill_wide_impl M s dr (List.replicate 256 0#8)
  simp only [Gen.Kernels.chacha_buffer_try_apply_keystream_loop1, wideStep, src_chacha_refill4]
  rw [h4]
  simp only [gutsOf]
  rw [xorInto_eq_xorBytes]
  have := hM.refill4 s dr.toNat
  rw [h4] at this
  simp only at this
  omega

theorem loop2_eq (M : Mach) (hM : BlockLens M) (dr : BitVec 32) (s : Guts) (out : List (BitVec 8))
    (hv : BitVec 8) (len : BitVec 64) (fresh : Bool) (have_ : Nat) (dd : List (BitVec 8)) (hdd : dd.length ≤ 64) :
    Gen.Kernels.chacha_buffer_try_apply_keystream_loop2 M dr (s.b, s.c, s.d, out, hv, len, fresh, have_) dd
      = (((tailStep M dr.toNat s dd).1.1.b, (tailStep M dr.toNat s dd).1.1.c, (tailStep M dr.toNat s dd).1.1.d,
          (tailStep M dr.toNat s dd).1.2.1, hv, len, fresh, (tailStep M dr.toNat s dd).1.2.2),
         (tailStep M dr.toNat s dd).2) := by
  have h4 := src_chacha_refill_narrow M s dr out
  simp only [Gen.Kernels.chacha_buffer_try_apply_keystream_loop2, tailStep, src_chacha_refill]
  rw [h4]
  simp only [gutsOf]
  rw [xorInto_eq_xorBytes]
  have := hM.refill s dr.toNat
  rw [h4] at this
  simp only at this
  omega

open Gen.Kernels in
/-- the wide loop: `forChunksExactMut 256` of the generated body over `256·n` bytes = the model's `wideLoop` -/
theorem wide_tie (M : Mach) (hM : BlockLens M) (dr : BitVec 32)
    (rest : List (BitVec 8) × BitVec 8 × BitVec 64 × Bool) :
    ∀ (n fuel : Nat) (s : Guts) (d : List (BitVec 8)), d.length = 256 * n → n ≤ fuel →
      forChunksExactMutAux 256 (chacha_buffer_try_apply_keystream_loop1 M dr) fuel (s.b, s.c, s.d, rest) d
        = (((wideLoop M dr.toNat n s d).2.b, (wideLoop M dr.toNat n s d).2.c, (wideLoop M dr.toNat n s d).2.d, rest),
           (wideLoop M dr.toNat n s d).1) := by
  intro n
  induction n with
  | zero =>
    intro fuel s d hd _
    have : d = [] := List.eq_nil_of_length_eq_zero (by omega)
    subst this
    cases fuel <;> simp [forChunksExactMutAux, wideLoop]
  | succ n ih =>
    intro fuel s d hd hf
    cases fuel with
    | zero => omega
    | succ fuel =>
      have hc : 256 ≤ d.length ∧ 0 < 256 := by omega
      have hdrop : (d.drop 256).length = 256 * n := by simp; omega
      have htake : (d.take 256).length ≤ 256 := by simp; omega
      simp only [forChunksExactMutAux, hc, and_self, if_true, loop1_eq M hM dr s rest _ htake, wideLoop_succ]
      rw [ih fuel _ _ hdrop (by omega)]

open Gen.Kernels in
/-- the tail loop: `forChunksMut 64` of the generated body = the model's `tailLoop` -/
theorem tail_tie (M : Mach) (hM : BlockLens M) (dr : BitVec 32) (hv : BitVec 8) (len : BitVec 64) (fresh : Bool) :
    ∀ (fuel : Nat) (s : Guts) (d out : List (BitVec 8)) (have_ : Nat) (mfuel : Nat), d.length ≤ fuel → d.length ≤ 64 * mfuel →
      forChunksMutAux 64 (chacha_buffer_try_apply_keystream_loop2 M dr) fuel (s.b, s.c, s.d, out, hv, len, fresh, have_) d
        = (((tailLoop M dr.toNat mfuel s d out have_).2.1.b, (tailLoop M dr.toNat mfuel s d out have_).2.1.c,
            (tailLoop M dr.toNat mfuel s d out have_).2.1.d, (tailLoop M dr.toNat mfuel s d out have_).2.2.1,
            hv, len, fresh, (tailLoop M dr.toNat mfuel s d out have_).2.2.2),
           (tailLoop M dr.toNat mfuel s d out have_).1) := by
  intro fuel
  induction fuel with
  | zero =>
    intro s d out have_ mfuel hd _
    have : d = [] := List.eq_nil_of_length_eq_zero (by omega)
    subst this
    cases mfuel <;> simp [forChunksMutAux, tailLoop]
  | succ fuel ih =>
    intro s d out have_ mfuel hd hm
    cases d with
    | nil => cases mfuel <;> simp [forChunksMutAux, tailLoop]
    | cons x xs =>
      cases mfuel with
      | zero => simp at hm
      | succ mfuel =>
        have hc : 0 < (x :: xs).length ∧ 0 < 64 := by simp
        have htake : ((x :: xs).take 64).length ≤ 64 := by simp; omega
        have hdrop : ((x :: xs).drop 64).length ≤ fuel := by simp at hd ⊢; omega
        have hdrop2 : ((x :: xs).drop 64).length ≤ 64 * mfuel := by simp at hm ⊢; omega
        simp only [forChunksMutAux, hc, and_self, if_true, loop2_eq M hM dr s out hv len fresh have_ _ htake,
          tailLoop_cons]
        rw [ih _ _ _ _ mfuel hdrop hdrop2]

theorem signExtend_ofInt8_toNat (i : Int) (h1 : 0 ≤ i) (h2 : i < 128) :
    (BitVec.signExtend 64 (BitVec.ofInt 8 i)).toNat = i.toNat := by
  have h := toInt_ofInt8 i (by omega) h2
  have h3 : (BitVec.signExtend 64 (BitVec.ofInt 8 i)).toInt = i := by
    rw [BitVec.toInt_signExtend_of_le (by omega)]; exact h
  rw [BitVec.toInt_eq_toNat_cond] at h3
  have := (BitVec.signExtend 64 (BitVec.ofInt 8 i)).isLt
  split at h3 <;> omega

theorem blocks_bv (x : Nat) (hx : x < 2 ^ 64) :
    BitVec.ofNat 64 x / 64#64 + (if (BitVec.ofNat 64 x % 64#64 != 0#64) = true then 1#64 else 0#64)
      = BitVec.ofNat 64 (x / 64 + if (x % 64 != 0) = true then 1 else 0) := by
  apply BitVec.eq_of_toNat_eq
  have e : (BitVec.ofNat 64 x).toNat = x := by rw [BitVec.toNat_ofNat]; exact Nat.mod_eq_of_lt hx
  by_cases h : x % 64 = 0
  · have : (BitVec.ofNat 64 x % 64#64 != 0#64) = false := by
      simp [← BitVec.toNat_inj, BitVec.toNat_umod, e, h]
    simp only [this, h, bne_self_eq_false, Bool.false_eq_true, if_false, BitVec.toNat_add, BitVec.toNat_udiv, e,
      BitVec.toNat_ofNat]
  · have : (BitVec.ofNat 64 x % 64#64 != 0#64) = true := by
      simp [← BitVec.toNat_inj, BitVec.toNat_umod, e, h]
    have h' : (x % 64 != 0) = true := by simp [h]
    simp only [this, h', if_true, BitVec.toNat_add, BitVec.toNat_udiv, e, BitVec.toNat_ofNat]

theorem land_mask256 (x : Nat) (hx : x < 2 ^ 64) : x &&& 18446744073709551360 = 256 * (x / 256) := by
  have h : (BitVec.ofNat 64 x &&& 18446744073709551360#64) = (BitVec.ofNat 64 x >>> 8) <<< 8 := by bv_decide
  have e : (BitVec.ofNat 64 x).toNat = x := by rw [BitVec.toNat_ofNat]; exact Nat.mod_eq_of_lt hx
  have h2 := congrArg BitVec.toNat h
  rw [BitVec.toNat_and, e] at h2
  rw [show (18446744073709551360#64).toNat = 18446744073709551360 from rfl] at h2
  rw [h2, BitVec.toNat_shiftLeft, BitVec.toNat_ushiftRight, e, Nat.shiftLeft_eq, Nat.shiftRight_eq_div_pow]
  have : x / 2 ^ 8 * 2 ^ 8 < 2 ^ 64 := by omega
  rw [Nat.mod_eq_of_lt this]
  omega

theorem wideLoop_take (M : Mach) (dr : Nat) : ∀ (n : Nat) (s : Guts) (d : List (BitVec 8)),
    wideLoop M dr n s (d.take (256 * n)) = wideLoop M dr n s d := by
  intro n
  induction n with
  | zero => intro s d; rfl
  | succ n ih =>
    intro s d
    rw [wideLoop_succ, wideLoop_succ]
    have e1 : (d.take (256 * (n + 1))).take 256 = d.take 256 := by
      rw [List.take_take]; congr 1
    have e2 : (d.take (256 * (n + 1))).drop 256 = (d.drop 256).take (256 * n) := by
      rw [List.drop_take]
      have : 256 * (n + 1) - 256 = 256 * n := by omega
      rw [this]
    rw [e1, e2, ih]

/-- the result of `Buffer::try_apply_keystream` as the generated definition returns it: `Ok`/`Err`, the fields of
    `self`, the caller's `data` -/
def applyEnc (data : List (BitVec 8)) (r : Buffer × Option (List (BitVec 8))) :
    Bool × BitVec 128 × BitVec 128 × BitVec 128 × List (BitVec 8) × BitVec 8 × BitVec 64 × Bool × List (BitVec 8) :=
  (r.2.isSome, r.1.state.b, r.1.state.c, r.1.state.d, r.1.out, BitVec.ofInt 8 r.1.hav, BitVec.ofNat 64 r.1.len,
   r.1.fresh, r.2.getD data)

theorem lazyFill_facts (M : Mach) (hM : BlockLens M) (dr : Nat) (b : Buffer) (hb1 : -64 < b.hav) (hb2 : b.hav ≤ 64)
    (hb3 : b.len < 2 ^ 64) (hb4 : b.out.length = 64) :
    0 ≤ (b.lazyFill M dr).hav ∧ (b.lazyFill M dr).hav ≤ 64 ∧ (b.lazyFill M dr).len < 2 ^ 64 ∧
      (b.lazyFill M dr).out.length = 64 ∧ (b.lazyFill M dr).fresh = b.fresh := by
  unfold Buffer.lazyFill
  by_cases h : b.hav < 0
  · simp only [h, if_true, hM.refill, wsub64]
    refine ⟨by omega, by omega, ?_, trivial, trivial⟩
    omega
  · simp only [h, if_false]
    exact ⟨by omega, hb2, hb3, hb4, trivial⟩

theorem src_chacha_buffer_try_apply_keystream (M : Mach) (hM : BlockLens M) (p : Profile) (dr : BitVec 32)
    (b : Buffer) (hb1 : -64 < b.hav) (hb2 : b.hav ≤ 64) (hb3 : b.len < 2 ^ 64) (hb4 : b.out.length = 64)
    (data : List (BitVec 8)) (hd : data.length < 2 ^ 63) :
    Gen.Kernels.chacha_buffer_try_apply_keystream M p b.state.b b.state.c b.state.d b.out (BitVec.ofInt 8 b.hav)
        (BitVec.ofNat 64 b.len) b.fresh data dr
      = (Buffer.tryApply M p dr.toNat b data >>= fun r => .ok (applyEnc data r)) := by
  rw [Buffer.tryApply_eq]
  obtain ⟨f1, f2, f3, f4, f5⟩ := lazyFill_facts M hM dr.toNat b hb1 hb2 hb3 hb4
  unfold Gen.Kernels.chacha_buffer_try_apply_keystream
  extract_lets t1 t2 t3 t4 t5 t6 t7 t8 t9 t10 t11 t12 t13 t14 t15 t16 t17 t18 t19 t20 t21 t22 t23 t24 t25 t26 t27 t28
    t29 t30 t31 t32 t33 t34 t35 t36 t37 t38 t39 t40 t41 t42 t43 t44 t45 t46 t47 t48 t49 t50 t51 t52 t53 t54 t55 t56
    t57 t58 t59 t60 t61 t62 t63 t64 t65 t66 t67 t68 t69 t70 t71 t72 t73 t74 t75 t76 t77 t78 t79 t80
  generalize hb1' : b.lazyFill M dr.toNat = b1 at f1 f2 f3 f4 f5 ⊢
  have h2 : t2 = decide (b.hav < 0) := ofInt8_slt_zero _ (by omega) (by omega)
  -- the lazy fill
  have hlazy : (t29, t31, t33, t35, t9, t5) =
      (b1.state.b, b1.state.c, b1.state.d, b1.out, BitVec.ofInt 8 b1.hav, BitVec.ofNat 64 b1.len) := by
    subst hb1'
    simp only [t29, t31, t33, t35, t9, t5, t28, t30, t32, t34, t27, t8, t4, h2, Buffer.lazyFill, src_chacha_refill]
    by_cases h : b.hav < 0
    · simp only [h, decide_true, if_true, src_chacha_refill_narrow M b.state dr b.out, gutsOf]
      rw [BitVec.ofInt_add, wsub64_ofNat _ _ hb3]
      rfl
    · simp only [h, decide_false, Bool.false_eq_true, if_false]
  obtain ⟨e29, e31, e33, e35, e9, e5⟩ := Prod.mk.inj hlazy |>.imp id (fun h => Prod.mk.inj h |>.imp id
    (fun h => Prod.mk.inj h |>.imp id (fun h => Prod.mk.inj h |>.imp id (fun h => Prod.mk.inj h))))
  have e10 : t10 = b1.hav.toNat := by
    simp only [t10, e9]; exact signExtend_ofInt8_toNat _ f1 (by omega)
  have e11 : t11 = min b1.hav.toNat data.length := by simp only [t11, e10, t6]
  have e12 : t12 = data.length - min b1.hav.toNat data.length := by simp only [t12, e11, t6]
  have hbn : blocksNeeded b1.hav.toNat data.length < 2 ^ 63 := by
    unfold blocksNeeded; split <;> omega
  have e20 : t20 = BitVec.ofNat 64 (blocksNeeded b1.hav.toNat data.length) := by
    simp only [t20, t19, t18, t16, t15, t14, t13, t17]
    rw [blocks_bv t12 (by omega), e12]; rfl
  have e20n : t20.toNat = blocksNeeded b1.hav.toNat data.length := by
    rw [e20, BitVec.toNat_ofNat]; exact Nat.mod_eq_of_lt (by omega)
  have e5n : t5.toNat = b1.len := by
    rw [e5, BitVec.toNat_ofNat]; exact Nat.mod_eq_of_lt f3
  have e23 : t23 = b1.refuses data.length := by
    simp only [t23, t21, t22, e20n, e5n, Buffer.refuses, f5]
  have g77 : t2 = true → t77 = true := by
    intro h
    rw [h2, decide_eq_true_iff] at h
    simp only [t77, t7, toInt_ofInt8 b.hav (by omega) (by omega)]
    have : (64#8).toInt = 64 := by decide
    rw [this, decide_eq_true_iff]; omega
  have g78 : t78 = true := by
    simp only [t78, t19, t15, t13, t14, BitVec.toNat_udiv, BitVec.toNat_ofNat]
    rw [decide_eq_true_iff]
    split <;> simp <;> omega
  have g79 : t79 = true := by simp only [t79, e10, decide_eq_true_iff]; omega
  have e69 : t69 = 64 - b1.hav.toNat := by
    simp only [t69, e10, Gen.Kernels.usizeSub]; rw [if_pos (by omega)]
  have g80 : t80 = true := by simp only [t80, e69, decide_eq_true_iff]; omega
  have hnp : ¬ (b1.hav < 0 ∨ b1.hav > 64) := by omega
  simp only [g78, g79, g80, Bool.true_eq_false, and_false, if_false, hnp]
  by_cases hr : b1.refuses data.length = true
  · have h23 : t23 = true := by rw [e23, hr]
    simp only [hr, if_true, Out.bind_ok, applyEnc, t26, t54, t56, t58, t60, t63, t65, t67, t76, h23, t24, e29, e31, e33,
      e35, e9, e5]
    have g : ¬ (p = Profile.debug ∧ t2 = true ∧ t77 = false) := by
      intro ⟨_, a, c⟩; rw [g77 a] at c; cases c
    simp only [g, if_false, f5, Option.isSome_none, Option.getD_none]
  · have h23 : t23 = false := by rw [e23]; simpa using hr
    have g : ¬ (p = Profile.debug ∧ t2 = true ∧ t77 = false) := by
      intro ⟨_, a, c⟩; rw [g77 a] at c; cases c
    simp only [hr, if_false, g, Out.bind_ok, applyEnc, t26, t54, t56, t58, t60, t63, t65, t67, t76, h23, t24, t25,
      Bool.false_eq_true, Option.isSome_some, Option.getD_some]
    -- the wide loop
    have l39 : t39.length = t12 := by simp only [t39, List.length_drop, e11, e12]
    have e40 : t40 = 256 * (t12 / 256) := land_mask256 t12 (by omega)
    have l41 : t41.length = 256 * (t12 / 256) := by
      simp only [t41, List.length_take, l39, e40]; omega
    have e42 : t42 = (((wideLoop M dr.toNat (t12 / 256) b1.state t39).2.b, (wideLoop M dr.toNat (t12 / 256) b1.state t39).2.c,
        (wideLoop M dr.toNat (t12 / 256) b1.state t39).2.d, b1.out, t9, t36, t38),
        (wideLoop M dr.toNat (t12 / 256) b1.state t39).1) := by
      simp only [t42, Gen.Kernels.forChunksExactMut, e29, e31, e33, e35]
      rw [wide_tie M hM dr (b1.out, t9, t36, t38) (t12 / 256) t41.length b1.state t41 l41 (by omega)]
      simp only [t41, e40, wideLoop_take]
    -- the tail loop
    have e52 : t52 = (((tailLoop M dr.toNat (t51.length / 64 + 1) (wideLoop M dr.toNat (t12 / 256) b1.state t39).2 t51 b1.out t50).2.1.b,
        (tailLoop M dr.toNat (t51.length / 64 + 1) (wideLoop M dr.toNat (t12 / 256) b1.state t39).2 t51 b1.out t50).2.1.c,
        (tailLoop M dr.toNat (t51.length / 64 + 1) (wideLoop M dr.toNat (t12 / 256) b1.state t39).2 t51 b1.out t50).2.1.d,
        (tailLoop M dr.toNat (t51.length / 64 + 1) (wideLoop M dr.toNat (t12 / 256) b1.state t39).2 t51 b1.out t50).2.2.1,
        t9, t36, t38,
        (tailLoop M dr.toNat (t51.length / 64 + 1) (wideLoop M dr.toNat (t12 / 256) b1.state t39).2 t51 b1.out t50).2.2.2),
        (tailLoop M dr.toNat (t51.length / 64 + 1) (wideLoop M dr.toNat (t12 / 256) b1.state t39).2 t51 b1.out t50).1) := by
      simp only [t52, Gen.Kernels.forChunksMut, t43, t44, t45, t46, t47, t48, t49, e42]
      exact tail_tie M hM dr t9 t36 t38 t51.length _ t51 b1.out t50 (t51.length / 64 + 1) (Nat.le_refl _) (by omega)
    have e36 : t36 = BitVec.ofNat 64 (wsub64 b1.len (blocksNeeded b1.hav.toNat data.length)) := by
      simp only [t36, e5, e20]; rw [wsub64_ofNat _ _ f3]
    have e38 : t38 = (b1.fresh && blocksNeeded b1.hav.toNat data.length == 0) := by
      simp only [t38, t37, t17, e20, f5]
      rw [ofNat64_beq_zero _ (by omega)]
    have e71 : t71 = xorBytes (data.take (min b1.hav.toNat data.length)) (b1.out.drop (64 - b1.hav.toNat)) := by
      simp only [t71, t68, t70, e69, e35, e11]
      apply xorInto_eq_xorBytes
      simp only [List.length_take, List.length_drop, f4]; omega
    simp only [t53, t55, t57, t59, t62, t61, t64, t66, t75, t74, t72, t73, e52, e42, e71, e36, e38, Buffer.applyBody,
      BitVec.ofInt_natCast, List.append_assoc]
    have e39 : t39 = List.drop (min b1.hav.toNat data.length) data := by simp only [t39, e11]
    have e12' : t12 = (List.drop (min b1.hav.toNat data.length) data).length := by rw [← e39, l39]
    have e50 : t50 = b1.hav.toNat - min b1.hav.toNat data.length := by simp only [t50, e10, e11]
    have e51 : t51 = List.drop (256 * ((List.drop (min b1.hav.toNat data.length) data).length / 256))
        (List.drop (min b1.hav.toNat data.length) data) := by
      simp only [t51, e40, e12', e39]
    rw [e51, e50, e12', e39]

theorem tryApply_ok (M : Mach) (hM : BlockLens M) (p : Profile) (dr : Nat) (b : Buffer)
    (hb1 : -64 < b.hav) (hb2 : b.hav ≤ 64) (hb3 : b.len < 2 ^ 64) (hb4 : b.out.length = 64) (data : List (BitVec 8)) :
    ∃ r, Buffer.tryApply M p dr b data = .ok r := by
  rw [Buffer.tryApply_eq]
  obtain ⟨f1, f2, _, _, _⟩ := lazyFill_facts M hM dr b hb1 hb2 hb3 hb4
  have hnp : ¬ ((b.lazyFill M dr).hav < 0 ∨ (b.lazyFill M dr).hav > 64) := by omega
  simp only [hnp, if_false]
  split <;> exact ⟨_, rfl⟩

/-! ### `ChaChaAny::try_apply_keystream` (the IETF variant saves and restores nonce word 13) -/

theorem src_chacha_any_try_apply_keystream_8 (M : Mach) (hM : BlockLens M) (p : Profile) (c : Cipher)
    (hl : c.v.layout ≠ .ietf) (dr : BitVec 32) (hdr : c.v.drounds = dr.toNat)
    (hb1 : -64 < c.buf.hav) (hb2 : c.buf.hav ≤ 64) (hb3 : c.buf.len < 2 ^ 64) (hb4 : c.buf.out.length = 64)
    (data : List (BitVec 8)) (hd : data.length < 2 ^ 63) :
    Gen.Kernels.chacha_any_try_apply_keystream_8 M p c.buf.state.b c.buf.state.c c.buf.state.d c.buf.out
        (BitVec.ofInt 8 c.buf.hav) (BitVec.ofNat 64 c.buf.len) c.buf.fresh data dr
      = (Cipher.tryApply M p c data >>= fun r => .ok (applyEnc data (r.1.buf, r.2))) := by
  unfold Gen.Kernels.chacha_any_try_apply_keystream_8
  rw [src_chacha_buffer_try_apply_keystream M hM p dr c.buf hb1 hb2 hb3 hb4 data hd]
  have hT : Cipher.tryApply M p c data =
      (Buffer.tryApply M p dr.toNat c.buf data >>= fun r => .ok ({ c with buf := r.1 }, r.2)) := by
    unfold Cipher.tryApply
    rw [hdr]
    cases h : c.v.layout <;> first | exact absurd h hl | (cases Buffer.tryApply M p dr.toNat c.buf data <;> rfl)
  rw [hT]
  obtain ⟨r, hr⟩ := tryApply_ok M hM p dr.toNat c.buf hb1 hb2 hb3 hb4 data
  rw [hr]
  rfl

theorem src_chacha_any_try_apply_keystream_24 (M : Mach) (hM : BlockLens M) (p : Profile) (c : Cipher)
    (hl : c.v.layout ≠ .ietf) (dr : BitVec 32) (hdr : c.v.drounds = dr.toNat)
    (hb1 : -64 < c.buf.hav) (hb2 : c.buf.hav ≤ 64) (hb3 : c.buf.len < 2 ^ 64) (hb4 : c.buf.out.length = 64)
    (data : List (BitVec 8)) (hd : data.length < 2 ^ 63) :
    Gen.Kernels.chacha_any_try_apply_keystream_24 M p c.buf.state.b c.buf.state.c c.buf.state.d c.buf.out
        (BitVec.ofInt 8 c.buf.hav) (BitVec.ofNat 64 c.buf.len) c.buf.fresh data dr
      = (Cipher.tryApply M p c data >>= fun r => .ok (applyEnc data (r.1.buf, r.2))) :=
  src_chacha_any_try_apply_keystream_8 M hM p c hl dr hdr hb1 hb2 hb3 hb4 data hd

/-- `get_stream_param(0) >> 32`, `get_stream_param(0) & 0xffff_ffff`, `set_stream_param(0, (nonce0 << 32) | ctr)`
    on the lanes of `d`: the low word comes from the new state, the high word is the saved one -/
theorem nonce_restore_words (x0 x1 y0 y1 : BitVec 32) :
    let g := fun (a1 a0 : BitVec 32) => (BitVec.setWidth 64 a1 <<< 32) ||| BitVec.setWidth 64 a0
    let v := ((g x1 x0 >>> 32) <<< 32) ||| (g y1 y0 &&& 0x00000000ffffffff#64)
    BitVec.setWidth 32 v = y0 ∧ BitVec.setWidth 32 (v >>> 32) = x1 := by
  intro g v
  constructor <;> (simp only [v, g]; bv_decide)

theorem src_chacha_any_try_apply_keystream_12 (M : Mach) (hM : BlockLens M) (p : Profile) (c : Cipher)
    (hl : c.v.layout = .ietf) (dr : BitVec 32) (hdr : c.v.drounds = dr.toNat)
    (hb1 : -64 < c.buf.hav) (hb2 : c.buf.hav ≤ 64) (hb3 : c.buf.len < 2 ^ 64) (hb4 : c.buf.out.length = 64)
    (data : List (BitVec 8)) (hd : data.length < 2 ^ 63) :
    Gen.Kernels.chacha_any_try_apply_keystream_12 M p c.buf.state.b c.buf.state.c c.buf.state.d c.buf.out
        (BitVec.ofInt 8 c.buf.hav) (BitVec.ofNat 64 c.buf.len) c.buf.fresh data dr
      = (Cipher.tryApply M p c data >>= fun r => .ok (applyEnc data (r.1.buf, r.2))) := by
  unfold Gen.Kernels.chacha_any_try_apply_keystream_12
  rw [src_chacha_buffer_try_apply_keystream M hM p dr c.buf hb1 hb2 hb3 hb4 data hd]
  obtain ⟨r, hr⟩ := tryApply_ok M hM p dr.toNat c.buf hb1 hb2 hb3 hb4 data
  have hT : Cipher.tryApply M p c data =
      .ok ({ c with buf := { r.1 with state := { r.1.state with
              d := pack32 (lane32 r.1.state.d 0) (lane32 c.buf.state.d 1) (lane32 r.1.state.d 2) (lane32 r.1.state.d 3) } } },
           r.2) := by
    unfold Cipher.tryApply
    rw [hdr, hl]
    simp only [hr]
  rw [hT, hr]
  obtain ⟨w0, w1⟩ := nonce_restore_words (lane32 c.buf.state.d 0) (lane32 c.buf.state.d 1)
    (lane32 r.1.state.d 0) (lane32 r.1.state.d 1)
  simp only [Out.bind_ok, Gen.Kernels.outGet, Gen.Kernels.outOk, applyEnc, Bool.true_eq_false, if_false] at w0 w1 ⊢
  rw [w0, w1]

/-! ### the trait impls forward to the inherent functions; struct declarations -/

theorem src_chacha_newcipher_new_8 : Gen.Kernels.chacha_newcipher_new_8 = Gen.Kernels.chacha_any_new_8 := rfl
theorem src_chacha_newcipher_new_12 : Gen.Kernels.chacha_newcipher_new_12 = Gen.Kernels.chacha_any_new_12 := rfl
theorem src_chacha_newcipher_new_x : Gen.Kernels.chacha_newcipher_new_x = Gen.Kernels.chacha_any_new_x := rfl

/-- `StreamCipher::try_apply_keystream` = the inherent `try_apply_keystream` (`map_err` keeps the flag) -/
theorem src_chacha_streamcipher_try_apply_keystream_12 (M : Mach) (p : Profile) (b c d : BitVec 128)
    (out : List (BitVec 8)) (hv : BitVec 8) (len : BitVec 64) (fresh : Bool) (data : List (BitVec 8)) (dr : BitVec 32) :
    noMsg (Gen.Kernels.chacha_streamcipher_try_apply_keystream_12 M p b c d out hv len fresh data dr)
      = noMsg (Gen.Kernels.chacha_any_try_apply_keystream_12 M p b c d out hv len fresh data dr >>= fun r => .ok r) := by
  unfold Gen.Kernels.chacha_streamcipher_try_apply_keystream_12
  cases hc : Gen.Kernels.chacha_any_try_apply_keystream_12 M p b c d out hv len fresh data dr with
  | ok r => rfl
  | panic w => rfl
  | err =>
    exfalso
    unfold Gen.Kernels.chacha_any_try_apply_keystream_12 at hc
    simp only [] at hc
    repeat' split at hc
    all_goals cases hc

theorem src_chacha_streamcipher_try_apply_keystream_8 (M : Mach) (p : Profile) (b c d : BitVec 128)
    (out : List (BitVec 8)) (hv : BitVec 8) (len : BitVec 64) (fresh : Bool) (data : List (BitVec 8)) (dr : BitVec 32) :
    noMsg (Gen.Kernels.chacha_streamcipher_try_apply_keystream_8 M p b c d out hv len fresh data dr)
      = noMsg (Gen.Kernels.chacha_any_try_apply_keystream_8 M p b c d out hv len fresh data dr >>= fun r => .ok r) := by
  unfold Gen.Kernels.chacha_streamcipher_try_apply_keystream_8
  cases hc : Gen.Kernels.chacha_any_try_apply_keystream_8 M p b c d out hv len fresh data dr with
  | ok r => rfl
  | panic w => rfl
  | err =>
    exfalso
    unfold Gen.Kernels.chacha_any_try_apply_keystream_8 at hc
    simp only [] at hc
    repeat' split at hc
    all_goals cases hc

theorem src_chacha_streamcipher_try_apply_keystream_24 (M : Mach) (p : Profile) (b c d : BitVec 128)
    (out : List (BitVec 8)) (hv : BitVec 8) (len : BitVec 64) (fresh : Bool) (data : List (BitVec 8)) (dr : BitVec 32) :
    noMsg (Gen.Kernels.chacha_streamcipher_try_apply_keystream_24 M p b c d out hv len fresh data dr)
      = noMsg (Gen.Kernels.chacha_any_try_apply_keystream_24 M p b c d out hv len fresh data dr >>= fun r => .ok r) := by
  unfold Gen.Kernels.chacha_streamcipher_try_apply_keystream_24
  cases hc : Gen.Kernels.chacha_any_try_apply_keystream_24 M p b c d out hv len fresh data dr with
  | ok r => rfl
  | panic w => rfl
  | err =>
    exfalso
    unfold Gen.Kernels.chacha_any_try_apply_keystream_24 at hc
    simp only [] at hc
    repeat' split at hc
    all_goals cases hc

/-- the structs of rustcrypto_impl.rs / guts.rs: `Buffer` (model `CC.ChaCha.Buffer`: state, out, hav, len, fresh),
    `ChaChaAny` (model `Cipher`: the buffer; the other fields are zero-sized markers), `ChaCha` (model `Guts`: b, c, d).
    `Clone` is DERIVED everywhere (field-wise copy: the model's `clone` is the identity on the value); there is no
    hand-written `Clone` / `Drop` (the translator fails loudly on one) -/
theorem src_chacha_structs :
    Gen.Kernels.chacha_structs =
      [("Buffer", "struct", ["state", "out", "have", "len", "fresh"], ["Clone"], []),
       ("ChaChaAny", "struct", ["state", "_nonce_size", "_rounds", "_is_x"], ["Clone"], []),
       ("X", "struct", [], ["Default"], []),
       ("O", "struct", [], ["Default"], []),
       ("ChaCha", "struct", ["b", "c", "d"], ["Clone", "Eq", "PartialEq"], [])] := rfl

/-- the trait impls of `ChaChaAny` and the functions each defines (a new override of a provided method shows up here) -/
theorem src_chacha_trait_impls :
    Gen.Kernels.chacha_trait_impls =
      [("ChaChaAny", "NewCipher", ["new"]), ("ChaChaAny", "NewCipher", ["new"]),
       ("ChaChaAny", "StreamCipherSeek", ["try_current_pos", "try_seek"]),
       ("ChaChaAny", "StreamCipher", ["try_apply_keystream"])] := rfl

/-- the reference machine (hence every backend, `CC.Thm.C03.backend_eq_ref`) produces blocks of the right lengths -/
theorem blockLens_ref : BlockLens Mach.ref where
  refill := by intro s dr; rw [refill_adv]; exact blockAt_length dr s
  refill4 := by intro s dr; rw [refill4_adv]; simp [blockAt_length]

end CC.Src
