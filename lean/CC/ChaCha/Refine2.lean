/-
  CC.ChaCha.Refine2 — closed form of one `Buffer::try_apply_keystream` call.
-/
import CC.ChaCha.Refine
namespace CC.ChaCha
open CC CC.Simd CC.ChaCha.Spec

/-- the buffer after the lazy refill at the top of `try_apply_keystream` -/
def lazyFill (dr : Nat) (b : Buffer) : Buffer :=
  if b.hav < 0 then
    { b with state := adv b.state 1, out := blockAt dr b.state, hav := b.hav + 64, len := wsub64 b.len 1 }
  else b

theorem blocksNeeded_eq (d : Nat) : d / 64 + (if (d % 64 != 0) = true then 1 else 0) = (d + 63) / 64 := by
  by_cases h : d % 64 = 0
  · simp [h]; omega
  · simp [h]; omega

/-- the result buffer of a successful call -/
def applyOk (dr : Nat) (b1 : Buffer) (n : Nat) : Buffer :=
  let hv := b1.hav.toNat
  let hr := min hv n
  let dl := n - hr
  let need := (dl + 63) / 64
  { state := adv b1.state (BitVec.ofNat 64 need),
    out := if dl % 256 = 0 then b1.out else blockAt dr (adv b1.state (BitVec.ofNat 64 (need - 1))),
    hav := if dl = 0 then ((hv - hr : Nat) : Int) else ((64 * need - dl : Nat) : Int),
    len := wsub64 b1.len need,
    fresh := b1.fresh && need == 0 }

/-- the output bytes of a successful call -/
def applyOut (dr : Nat) (b1 : Buffer) (data : List (BitVec 8)) : List (BitVec 8) :=
  let hv := b1.hav.toNat
  let hr := min hv data.length
  let dl := data.length - hr
  xorBytes (data.take hr) (b1.out.drop (64 - hv)) ++
    xorBytes (data.drop hr) (ksBlocks dr ((dl + 63) / 64) b1.state)

/-- body of `try_apply_keystream` after the lazy fill -/
def applyRest (dr : Nat) (b : Buffer) (data : List (BitVec 8)) : Out (Buffer × Option (List (BitVec 8))) :=
  if b.hav < 0 ∨ b.hav > 64 then .panic "have out of range" else
  let have_ := b.hav.toNat
  let haveReady := min have_ data.length
  let datalen := data.length - haveReady
  let blocksNeeded := datalen / 64 + (if datalen % 64 != 0 then 1 else 0)
  let o := b.len < blocksNeeded
  let l := wsub64 b.len blocksNeeded
  if o && !b.fresh then .ok (b, none) else
  let fresh := b.fresh && blocksNeeded == 0
  let out0 := xorBytes (data.take haveReady) (b.out.drop (64 - have_))
  let data1 := data.drop haveReady
  let have1 := have_ - haveReady
  let nwide := data1.length / 256
  let (outW, s1) := wideLoop Mach.ref dr nwide b.state data1
  let data2 := data1.drop (256 * nwide)
  let (outT, s2, outBuf, have2) := tailLoop Mach.ref dr (data2.length / 64 + 1) s1 data2 b.out have1
  .ok ({ state := s2, out := outBuf, hav := (have2 : Int), len := l, fresh := fresh },
       some (out0 ++ outW ++ outT))

theorem tryApply_split (p : Profile) (dr : Nat) (b : Buffer) (data : List (BitVec 8)) :
    Buffer.tryApply Mach.ref p dr b data = applyRest dr (lazyFill dr b) data := by
  unfold Buffer.tryApply lazyFill applyRest
  simp only [refill_adv]


theorem applyRest_eq (dr : Nat) (b : Buffer) (data : List (BitVec 8))
    (h0 : 0 ≤ b.hav) (h1 : b.hav ≤ 64) :
    applyRest dr b data =
      (let dl := data.length - min b.hav.toNat data.length
       if b.len < (dl + 63) / 64 ∧ b.fresh = false then .ok (b, none)
       else .ok (applyOk dr b data.length, some (applyOut dr b data))) := by
  unfold applyRest
  have hr : ¬ (b.hav < 0 ∨ b.hav > 64) := by omega
  simp only [hr, if_false, blocksNeeded_eq]
  generalize hhv : b.hav.toNat = hv
  generalize hhr : min hv data.length = hrd
  generalize hdl : data.length - hrd = dl
  have hd1 : (data.drop hrd).length = dl := by simp [hdl]
  by_cases hc : b.len < (dl + 63) / 64 ∧ b.fresh = false
  · simp [hc.1, hc.2]
  · have : (decide (b.len < (dl + 63) / 64) && !b.fresh) = false := by
      cases hf : b.fresh <;> simp_all
    simp only [this, if_neg hc, Bool.false_eq_true, if_false]
    have hw := wideLoop_spec dr (dl / 256) b.state (data.drop hrd) (by rw [hd1]; omega)
    rw [hd1]
    simp only [hw]
    have hd2 : ((data.drop hrd).drop (256 * (dl / 256))).length = dl - 256 * (dl / 256) := by
      simp; omega
    have ht := tailLoop_spec dr (((data.drop hrd).drop (256 * (dl / 256))).length / 64 + 1)
      (adv b.state (BitVec.ofNat 64 (4 * (dl / 256)))) ((data.drop hrd).drop (256 * (dl / 256))) b.out (hv - hrd)
      (by omega)
    rw [hd2] at ht
    simp only [ht, hd2]
    have hneed : 4 * (dl / 256) + (dl - 256 * (dl / 256) + 63) / 64 = (dl + 63) / 64 := by omega
    have hadd : ∀ a c : Nat, BitVec.ofNat 64 a + BitVec.ofNat 64 c = BitVec.ofNat 64 (a + c) := by
      intro a c; simp [BitVec.ofNat_add]
    have hlenD : data.length = data.length := rfl
    simp only [applyOk, applyOut, hhv, hhr, hdl, adv_adv, hadd, hneed]
    refine congrArg Out.ok (Prod.ext ?_ ?_)
    · simp only []
      have e1 : (dl - 256 * (dl / 256) = 0) ↔ (dl % 256 = 0) := by omega
      by_cases hz : dl % 256 = 0
      · have hz' : dl - 256 * (dl / 256) = 0 := by omega
        simp only [hz, hz', if_true]
        by_cases hd0 : dl = 0
        · simp only [hd0, if_true]
        · have : hv - hrd = 0 := by omega
          have h2 : 64 * ((dl + 63) / 64) - dl = 0 := by omega
          simp only [hd0, if_false, this, h2]
      · have hz' : ¬ (dl - 256 * (dl / 256) = 0) := by omega
        have hd0 : dl ≠ 0 := by omega
        have h3 : 4 * (dl / 256) + ((dl - 256 * (dl / 256) + 63) / 64 - 1) = (dl + 63) / 64 - 1 := by omega
        have h4 : 64 * ((dl - 256 * (dl / 256) + 63) / 64) - (dl - 256 * (dl / 256)) = 64 * ((dl + 63) / 64) - dl := by omega
        simp only [hz, hz', hd0, if_false, h3, h4]
    · simp only [Option.some.injEq, List.append_assoc, List.append_cancel_left_eq]
      rw [← hneed, ksBlocks_add]
      have := xorBytes_split (data.drop hrd) (ksBlocks dr (4 * (dl / 256)) b.state)
        (ksBlocks dr ((dl - 256 * (dl / 256) + 63) / 64) (adv b.state (BitVec.ofNat 64 (4 * (dl / 256)))))
        (by rw [ksBlocks_length, hd1]; omega)
      rw [ksBlocks_length] at this
      have e : 64 * (4 * (dl / 256)) = 256 * (dl / 256) := by omega
      rw [e] at this
      exact this.symm

theorem tryApply_core (p : Profile) (dr : Nat) (b : Buffer) (data : List (BitVec 8))
    (h0 : 0 ≤ (lazyFill dr b).hav) (h1 : (lazyFill dr b).hav ≤ 64) :
    Buffer.tryApply Mach.ref p dr b data =
      (let b1 := lazyFill dr b
       let dl := data.length - min b1.hav.toNat data.length
       if b1.len < (dl + 63) / 64 ∧ b1.fresh = false then .ok (b1, none)
       else .ok (applyOk dr b1 data.length, some (applyOut dr b1 data))) := by
  rw [tryApply_split, applyRest_eq dr _ data h0 h1]

end CC.ChaCha
