/-
  CC.Groestl.LemmasB — layer (b): registers as functions `Nat → BitVec 8` (`ofFn16`), the
  specification's round functions on function-level states (`Mat.build cols g`), and the lemmas
  that move between the two.
-/
import Std.Tactic.BVDecide
import CC.Groestl.LemmasA
namespace CC.Groestl
open CC CC.Groestl.Intrin CC.Groestl.Model

/-! ## registers as byte functions -/

theorem byte_ofFn16 (f : Nat → BitVec 8) (j : Nat) (hj : j < 16) : byte (ofFn16 f) j = f j := by
  have h : j = 0 ∨ j = 1 ∨ j = 2 ∨ j = 3 ∨ j = 4 ∨ j = 5 ∨ j = 6 ∨ j = 7 ∨ j = 8 ∨ j = 9 ∨ j = 10 ∨
      j = 11 ∨ j = 12 ∨ j = 13 ∨ j = 14 ∨ j = 15 := by omega
  rcases h with rfl | rfl | rfl | rfl | rfl | rfl | rfl | rfl | rfl | rfl | rfl | rfl | rfl | rfl | rfl | rfl <;>
    (simp only [ofFn16, pack16, byte]; bv_decide)

theorem ofFn16_byte (x : BitVec 128) : ofFn16 (fun j => byte x j) = x := by
  simp only [ofFn16, pack16, byte]
  bv_decide

theorem ofFn16_congr {f g : Nat → BitVec 8} (h : ∀ p, p < 16 → f p = g p) : ofFn16 f = ofFn16 g := by
  simp only [ofFn16]
  rw [h 0 (by decide), h 1 (by decide), h 2 (by decide), h 3 (by decide), h 4 (by decide), h 5 (by decide),
    h 6 (by decide), h 7 (by decide), h 8 (by decide), h 9 (by decide), h 10 (by decide), h 11 (by decide),
    h 12 (by decide), h 13 (by decide), h 14 (by decide), h 15 (by decide)]

theorem ofFn16_xor (f g : Nat → BitVec 8) :
    ofFn16 f ^^^ ofFn16 g = ofFn16 fun p => f p ^^^ g p := by
  simp only [ofFn16, pack16]
  generalize f 0 = a0; generalize f 1 = a1; generalize f 2 = a2; generalize f 3 = a3
  generalize f 4 = a4; generalize f 5 = a5; generalize f 6 = a6; generalize f 7 = a7
  generalize f 8 = a8; generalize f 9 = a9; generalize f 10 = a10; generalize f 11 = a11
  generalize f 12 = a12; generalize f 13 = a13; generalize f 14 = a14; generalize f 15 = a15
  generalize g 0 = b0; generalize g 1 = b1; generalize g 2 = b2; generalize g 3 = b3
  generalize g 4 = b4; generalize g 5 = b5; generalize g 6 = b6; generalize g 7 = b7
  generalize g 8 = b8; generalize g 9 = b9; generalize g 10 = b10; generalize g 11 = b11
  generalize g 12 = b12; generalize g 13 = b13; generalize g 14 = b14; generalize g 15 = b15
  bv_decide

theorem map16_ofFn16 (h : BitVec 8 → BitVec 8) (f : Nat → BitVec 8) :
    map16 h (ofFn16 f) = ofFn16 fun p => h (f p) := by
  unfold map16
  exact ofFn16_congr fun p hp => by rw [byte_ofFn16 f p hp]

theorem m2_ofFn16 (f : Nat → BitVec 8) : m2 (ofFn16 f) = ofFn16 fun p => Spec.xtime (f p) :=
  map16_ofFn16 _ _

/-! ## the specification on function-level states -/

theorem get_build (cols : Nat) (f : Nat → Nat → BitVec 8) (i j : Nat) (hi : i < 8) (hj : j < cols) :
    (Spec.Mat.build cols f).get i j = f i j := by
  simp [Spec.Mat.get, Spec.Mat.build, List.getD_eq_getElem?_getD, hi, hj]

theorem build_congr {cols : Nat} {f g : Nat → Nat → BitVec 8}
    (h : ∀ i, i < 8 → ∀ j, j < cols → f i j = g i j) : Spec.Mat.build cols f = Spec.Mat.build cols g := by
  unfold Spec.Mat.build
  apply List.map_congr_left
  intro i hi
  apply List.map_congr_left
  intro j hj
  exact h i (List.mem_range.mp hi) j (List.mem_range.mp hj)

theorem foldl_congr_mem {α β : Type} {f g : β → α → β} (l : List α)
    (h : ∀ b, ∀ a ∈ l, f b a = g b a) (b : β) : l.foldl f b = l.foldl g b := by
  induction l generalizing b with
  | nil => rfl
  | cons a l ih =>
    rw [List.foldl_cons, List.foldl_cons, h b a (List.mem_cons_self ..)]
    exact ih (fun b a ha => h b a (List.mem_cons_of_mem _ ha)) _

/-- one column of MixBytes: row `i` of `circ(02,02,03,04,05,03,05,07) · x` -/
def colMix (i : Nat) (x : Nat → BitVec 8) : BitVec 8 :=
  (List.range 8).foldl (fun acc k => acc ^^^ Spec.gmul (Spec.mixRow.getD ((k + 8 - i) % 8) 0#8) (x k)) 0#8

/-- one round on a function-level state, for shift vector `σ` and round constants `rc` -/
def roundF (cols : Nat) (σ : List Nat) (rc : Nat → Nat → Nat → BitVec 8) (r : Nat)
    (g : Nat → Nat → BitVec 8) (i j : Nat) : BitVec 8 :=
  colMix i fun k => Spec.sbox (g k ((j + σ.getD k 0) % cols) ^^^ rc k ((j + σ.getD k 0) % cols) r)

theorem subBytes_build (cols : Nat) (f : Nat → Nat → BitVec 8) :
    Spec.subBytes (Spec.Mat.build cols f) = Spec.Mat.build cols fun i j => Spec.sbox (f i j) := by
  unfold Spec.subBytes Spec.Mat.build
  rw [List.map_map]
  apply List.map_congr_left
  intro i _
  simp [List.map_map, Function.comp_def]

theorem round_build (cols : Nat) (hc : 0 < cols) (σ : List Nat) (rc : Nat → Nat → Nat → BitVec 8)
    (r : Nat) (g : Nat → Nat → BitVec 8) :
    Spec.mixBytes cols (Spec.shiftBytes cols σ (Spec.subBytes
      (Spec.Mat.build cols fun i j => (Spec.Mat.build cols g).get i j ^^^ rc i j r))) =
    Spec.Mat.build cols (roundF cols σ rc r g) := by
  have h1 : (Spec.Mat.build cols fun i j => (Spec.Mat.build cols g).get i j ^^^ rc i j r) =
      Spec.Mat.build cols fun i j => g i j ^^^ rc i j r :=
    build_congr fun i hi j hj => by rw [get_build cols g i j hi hj]
  rw [h1, subBytes_build]
  unfold Spec.mixBytes Spec.shiftBytes
  apply build_congr
  intro i _ j hj
  unfold roundF colMix
  apply foldl_congr_mem
  intro acc k hk
  have hk8 : k < 8 := List.mem_range.mp hk
  rw [get_build _ _ k j hk8 hj, get_build _ _ k _ hk8 (Nat.mod_lt _ hc)]

theorem roundP_build (cols : Nat) (hc : 0 < cols) (r : Nat) (g : Nat → Nat → BitVec 8) :
    Spec.roundP cols r (Spec.Mat.build cols g) =
      Spec.Mat.build cols (roundF cols (Spec.shiftP cols) Spec.rcP r g) :=
  round_build cols hc _ _ r g

theorem roundQ_build (cols : Nat) (hc : 0 < cols) (r : Nat) (g : Nat → Nat → BitVec 8) :
    Spec.roundQ cols r (Spec.Mat.build cols g) =
      Spec.Mat.build cols (roundF cols (Spec.shiftQ cols) Spec.rcQ r g) :=
  round_build cols hc _ _ r g

/-- the rounds `rs` in sequence, on a function-level state -/
def permF (cols : Nat) (σ : List Nat) (rc : Nat → Nat → Nat → BitVec 8) (rs : List Nat)
    (g : Nat → Nat → BitVec 8) : Nat → Nat → BitVec 8 :=
  rs.foldl (fun g r => roundF cols σ rc r g) g

theorem permP_build (cols : Nat) (hc : 0 < cols) (g : Nat → Nat → BitVec 8) :
    Spec.permP cols (Spec.Mat.build cols g) =
      Spec.Mat.build cols (permF cols (Spec.shiftP cols) Spec.rcP (List.range (Spec.rounds cols)) g) := by
  unfold Spec.permP permF
  generalize List.range (Spec.rounds cols) = rs
  induction rs generalizing g with
  | nil => rfl
  | cons r rs ih => rw [List.foldl_cons, List.foldl_cons, roundP_build cols hc, ih]

theorem permQ_build (cols : Nat) (hc : 0 < cols) (g : Nat → Nat → BitVec 8) :
    Spec.permQ cols (Spec.Mat.build cols g) =
      Spec.Mat.build cols (permF cols (Spec.shiftQ cols) Spec.rcQ (List.range (Spec.rounds cols)) g) := by
  unfold Spec.permQ permF
  generalize List.range (Spec.rounds cols) = rs
  induction rs generalizing g with
  | nil => rfl
  | cons r rs ih => rw [List.foldl_cons, List.foldl_cons, roundQ_build cols hc, ih]

/-! ## byte strings ↔ function-level states -/

/-- entry (row `i`, column `j`) of a byte string mapped column by column -/
def matOf (bs : List (BitVec 8)) : Nat → Nat → BitVec 8 := fun i j => bs.getD (8 * j + i) 0#8

/-- the byte string of a function-level state, column by column -/
def bytesOf (cols : Nat) (g : Nat → Nat → BitVec 8) : List (BitVec 8) :=
  (List.range (8 * cols)).map fun n => g (n % 8) (n / 8)

theorem toMat_eq (cols : Nat) (bs : List (BitVec 8)) :
    Spec.toMat cols bs = Spec.Mat.build cols (matOf bs) := rfl

theorem length_bytesOf (cols : Nat) (g : Nat → Nat → BitVec 8) : (bytesOf cols g).length = 8 * cols := by
  simp [bytesOf]

theorem getD_bytesOf (cols : Nat) (g : Nat → Nat → BitVec 8) (n : Nat) (hn : n < 8 * cols) :
    (bytesOf cols g).getD n 0#8 = g (n % 8) (n / 8) := by
  simp [bytesOf, List.getD_eq_getElem?_getD, hn]

theorem matOf_bytesOf (cols : Nat) (g : Nat → Nat → BitVec 8) (i j : Nat) (hi : i < 8) (hj : j < cols) :
    matOf (bytesOf cols g) i j = g i j := by
  unfold matOf
  rw [getD_bytesOf cols g _ (by omega)]
  congr 1 <;> omega

theorem bytesOf_congr {cols : Nat} {f g : Nat → Nat → BitVec 8}
    (h : ∀ i, i < 8 → ∀ j, j < cols → f i j = g i j) : bytesOf cols f = bytesOf cols g := by
  unfold bytesOf
  apply List.map_congr_left
  intro n hn
  have := List.mem_range.mp hn
  exact h _ (Nat.mod_lt _ (by decide)) _ (by omega)

theorem flatMap_range (g : Nat → Nat → BitVec 8) (c : Nat) :
    ((List.range c).flatMap fun j => (List.range 8).map fun i => g i j) =
      (List.range (8 * c)).map fun n => g (n % 8) (n / 8) := by
  induction c with
  | zero => simp
  | succ c ih =>
    have e : List.range (c + 1) = List.range c ++ [c] := List.range_succ
    rw [e, List.flatMap_append, ih, Nat.mul_succ, List.range_add, List.map_append]
    congr 1
    simp only [List.flatMap_cons, List.flatMap_nil, List.append_nil, List.map_map]
    apply List.map_congr_left
    intro i hi
    have := List.mem_range.mp hi
    simp only [Function.comp_def]
    congr 1 <;> omega

theorem fromMat_build (cols : Nat) (g : Nat → Nat → BitVec 8) :
    Spec.fromMat cols (Spec.Mat.build cols g) = bytesOf cols g := by
  have h1 : Spec.fromMat cols (Spec.Mat.build cols g) =
      (List.range cols).flatMap fun j => (List.range 8).map fun i => g i j := by
    unfold Spec.fromMat
    rw [List.flatMap_def, List.flatMap_def]
    congr 1
    apply List.map_congr_left
    intro j hj
    apply List.map_congr_left
    intro i hi
    exact get_build cols g i j (List.mem_range.mp hi) (List.mem_range.mp hj)
  rw [h1]
  exact flatMap_range g cols

theorem xorBytes_bytesOf (cols : Nat) (g : Nat → Nat → BitVec 8) (h : List (BitVec 8))
    (hh : h.length = 8 * cols) :
    Spec.xorBytes (bytesOf cols g) h = bytesOf cols fun i j => g i j ^^^ matOf h i j := by
  apply List.ext_getElem
  · simp [Spec.xorBytes, bytesOf, hh]
  · intro n h1 h2
    have hn : n < 8 * cols := by simpa [bytesOf] using h2
    simp only [Spec.xorBytes, bytesOf, List.getElem_zipWith, List.getElem_map, List.getElem_range, matOf]
    congr 1
    have : 8 * (n / 8) + n % 8 = n := by omega
    rw [this, List.getD_eq_getElem?_getD, List.getElem?_eq_getElem (by omega)]
    rfl

theorem xorBytes_bytesOf2 (cols : Nat) (f g : Nat → Nat → BitVec 8) :
    Spec.xorBytes (bytesOf cols f) (bytesOf cols g) = bytesOf cols fun i j => f i j ^^^ g i j := by
  rw [xorBytes_bytesOf cols f _ (length_bytesOf cols g)]
  exact bytesOf_congr fun i hi j hj => by rw [matOf_bytesOf cols g i j hi hj]

theorem toMat_xorBytes (cols : Nat) (h m : List (BitVec 8)) (hh : h.length = 8 * cols)
    (hm : m.length = 8 * cols) :
    Spec.toMat cols (Spec.xorBytes h m) = Spec.Mat.build cols fun i j => matOf h i j ^^^ matOf m i j := by
  rw [toMat_eq]
  apply build_congr
  intro i hi j hj
  have hn : 8 * j + i < 8 * cols := by omega
  simp only [matOf, Spec.xorBytes, List.getD_eq_getElem?_getD]
  rw [List.getElem?_eq_getElem (by simp [hh, hm]; omega), List.getElem?_eq_getElem (by omega),
    List.getElem?_eq_getElem (by omega)]
  simp [List.getElem_zipWith]

/-- `P` on byte strings, in function-level form -/
theorem P_eq (cols : Nat) (hc : 0 < cols) (bs : List (BitVec 8)) :
    Spec.P cols bs = bytesOf cols
      (permF cols (Spec.shiftP cols) Spec.rcP (List.range (Spec.rounds cols)) (matOf bs)) := by
  rw [Spec.P, toMat_eq, permP_build cols hc, fromMat_build]

/-- `f(h, m)` in function-level form -/
theorem f_eq (cols : Nat) (hc : 0 < cols) (h m : List (BitVec 8)) (hh : h.length = 8 * cols)
    (hm : m.length = 8 * cols) :
    Spec.f cols h m = bytesOf cols fun i j =>
      (permF cols (Spec.shiftP cols) Spec.rcP (List.range (Spec.rounds cols))
          (fun i j => matOf h i j ^^^ matOf m i j) i j ^^^
        permF cols (Spec.shiftQ cols) Spec.rcQ (List.range (Spec.rounds cols)) (matOf m) i j) ^^^
      matOf h i j := by
  rw [Spec.f, Spec.P, Spec.Q, toMat_xorBytes cols h m hh hm, permP_build cols hc, fromMat_build,
    toMat_eq, permQ_build cols hc, fromMat_build, xorBytes_bytesOf2, xorBytes_bytesOf _ _ _ hh]

end CC.Groestl
