/-
  CC.Groestl.Intrin — meaning of the x86 intrinsics used by `hashes/groestl/src/compressor.rs`,
  on `BitVec 128` (byte 0 = least significant 8 bits, as in a little-endian `__m128i`).
  Transcribed from the Intel Intrinsics Guide pseudo-code.  Import-free (core Lean only).
-/
namespace CC.Groestl.Intrin

/-- byte `i` (0 = lowest) of a 128-bit register -/
def byte (x : BitVec 128) (i : Nat) : BitVec 8 := x.extractLsb' (8 * i) 8
def word (x : BitVec 128) (i : Nat) : BitVec 16 := x.extractLsb' (16 * i) 16
def dword (x : BitVec 128) (i : Nat) : BitVec 32 := x.extractLsb' (32 * i) 32
def qword (x : BitVec 128) (i : Nat) : BitVec 64 := x.extractLsb' (64 * i) 64

/-- register from its sixteen bytes, byte 0 first -/
def pack16 (b0 b1 b2 b3 b4 b5 b6 b7 b8 b9 b10 b11 b12 b13 b14 b15 : BitVec 8) : BitVec 128 :=
  b15 ++ b14 ++ b13 ++ b12 ++ b11 ++ b10 ++ b9 ++ b8 ++ b7 ++ b6 ++ b5 ++ b4 ++ b3 ++ b2 ++ b1 ++ b0

def ofFn16 (f : Nat → BitVec 8) : BitVec 128 :=
  pack16 (f 0) (f 1) (f 2) (f 3) (f 4) (f 5) (f 6) (f 7) (f 8) (f 9) (f 10) (f 11) (f 12) (f 13) (f 14) (f 15)

/-- apply `f` to every byte -/
def map16 (f : BitVec 8 → BitVec 8) (x : BitVec 128) : BitVec 128 := ofFn16 fun i => f (byte x i)

/-- the sixteen bytes in memory order (`_mm_storeu_si128` / `transmute` to `[u8; 16]`) -/
def toBytes16 (x : BitVec 128) : List (BitVec 8) :=
  [byte x 0, byte x 1, byte x 2, byte x 3, byte x 4, byte x 5, byte x 6, byte x 7,
   byte x 8, byte x 9, byte x 10, byte x 11, byte x 12, byte x 13, byte x 14, byte x 15]

def mm_xor_si128 (a b : BitVec 128) : BitVec 128 := a ^^^ b
def mm_and_si128 (a b : BitVec 128) : BitVec 128 := a &&& b

/-- one lane of `pshufb`: `if m[7] then 0 else a.byte[m[3:0]]` -/
def pshufbLane (a : BitVec 128) (m : BitVec 8) : BitVec 8 :=
  if m.msb then 0#8 else (a >>> (((m &&& 15#8).setWidth 128) <<< 3)).setWidth 8

/-- `_mm_shuffle_epi8(a, b)` (SSSE3 `pshufb`) -/
def mm_shuffle_epi8 (a b : BitVec 128) : BitVec 128 := ofFn16 fun i => pshufbLane a (byte b i)

/-- `_mm_shuffle_epi32(a, imm8)` (`pshufd`) -/
def mm_shuffle_epi32 (a : BitVec 128) (imm : Nat) : BitVec 128 :=
  dword a ((imm >>> 6) % 4) ++ dword a ((imm >>> 4) % 4) ++ dword a ((imm >>> 2) % 4) ++ dword a (imm % 4)

def mm_unpacklo_epi16 (a b : BitVec 128) : BitVec 128 :=
  word b 3 ++ word a 3 ++ word b 2 ++ word a 2 ++ word b 1 ++ word a 1 ++ word b 0 ++ word a 0
def mm_unpackhi_epi16 (a b : BitVec 128) : BitVec 128 :=
  word b 7 ++ word a 7 ++ word b 6 ++ word a 6 ++ word b 5 ++ word a 5 ++ word b 4 ++ word a 4
def mm_unpacklo_epi32 (a b : BitVec 128) : BitVec 128 :=
  dword b 1 ++ dword a 1 ++ dword b 0 ++ dword a 0
def mm_unpackhi_epi32 (a b : BitVec 128) : BitVec 128 :=
  dword b 3 ++ dword a 3 ++ dword b 2 ++ dword a 2
def mm_unpacklo_epi64 (a b : BitVec 128) : BitVec 128 := qword b 0 ++ qword a 0
def mm_unpackhi_epi64 (a b : BitVec 128) : BitVec 128 := qword b 1 ++ qword a 1

/-- the AES S-box (FIPS 197 Figure 7) -/
def sboxTab : Array (BitVec 8) := #[
  0x63, 0x7c, 0x77, 0x7b, 0xf2, 0x6b, 0x6f, 0xc5, 0x30, 0x01, 0x67, 0x2b, 0xfe, 0xd7, 0xab, 0x76,
  0xca, 0x82, 0xc9, 0x7d, 0xfa, 0x59, 0x47, 0xf0, 0xad, 0xd4, 0xa2, 0xaf, 0x9c, 0xa4, 0x72, 0xc0,
  0xb7, 0xfd, 0x93, 0x26, 0x36, 0x3f, 0xf7, 0xcc, 0x34, 0xa5, 0xe5, 0xf1, 0x71, 0xd8, 0x31, 0x15,
  0x04, 0xc7, 0x23, 0xc3, 0x18, 0x96, 0x05, 0x9a, 0x07, 0x12, 0x80, 0xe2, 0xeb, 0x27, 0xb2, 0x75,
  0x09, 0x83, 0x2c, 0x1a, 0x1b, 0x6e, 0x5a, 0xa0, 0x52, 0x3b, 0xd6, 0xb3, 0x29, 0xe3, 0x2f, 0x84,
  0x53, 0xd1, 0x00, 0xed, 0x20, 0xfc, 0xb1, 0x5b, 0x6a, 0xcb, 0xbe, 0x39, 0x4a, 0x4c, 0x58, 0xcf,
  0xd0, 0xef, 0xaa, 0xfb, 0x43, 0x4d, 0x33, 0x85, 0x45, 0xf9, 0x02, 0x7f, 0x50, 0x3c, 0x9f, 0xa8,
  0x51, 0xa3, 0x40, 0x8f, 0x92, 0x9d, 0x38, 0xf5, 0xbc, 0xb6, 0xda, 0x21, 0x10, 0xff, 0xf3, 0xd2,
  0xcd, 0x0c, 0x13, 0xec, 0x5f, 0x97, 0x44, 0x17, 0xc4, 0xa7, 0x7e, 0x3d, 0x64, 0x5d, 0x19, 0x73,
  0x60, 0x81, 0x4f, 0xdc, 0x22, 0x2a, 0x90, 0x88, 0x46, 0xee, 0xb8, 0x14, 0xde, 0x5e, 0x0b, 0xdb,
  0xe0, 0x32, 0x3a, 0x0a, 0x49, 0x06, 0x24, 0x5c, 0xc2, 0xd3, 0xac, 0x62, 0x91, 0x95, 0xe4, 0x79,
  0xe7, 0xc8, 0x37, 0x6d, 0x8d, 0xd5, 0x4e, 0xa9, 0x6c, 0x56, 0xf4, 0xea, 0x65, 0x7a, 0xae, 0x08,
  0xba, 0x78, 0x25, 0x2e, 0x1c, 0xa6, 0xb4, 0xc6, 0xe8, 0xdd, 0x74, 0x1f, 0x4b, 0xbd, 0x8b, 0x8a,
  0x70, 0x3e, 0xb5, 0x66, 0x48, 0x03, 0xf6, 0x0e, 0x61, 0x35, 0x57, 0xb9, 0x86, 0xc1, 0x1d, 0x9e,
  0xe1, 0xf8, 0x98, 0x11, 0x69, 0xd9, 0x8e, 0x94, 0x9b, 0x1e, 0x87, 0xe9, 0xce, 0x55, 0x28, 0xdf,
  0x8c, 0xa1, 0x89, 0x0d, 0xbf, 0xe6, 0x42, 0x68, 0x41, 0x99, 0x2d, 0x0f, 0xb0, 0x54, 0xbb, 0x16]

def sbox (x : BitVec 8) : BitVec 8 := sboxTab.getD x.toNat 0#8

/-- AES `ShiftRows` on the column-major state: byte `4c+r` comes from byte `4((c+r) mod 4)+r` -/
def shiftRows (s : BitVec 128) : BitVec 128 :=
  pack16 (byte s 0) (byte s 5) (byte s 10) (byte s 15) (byte s 4) (byte s 9) (byte s 14) (byte s 3)
         (byte s 8) (byte s 13) (byte s 2) (byte s 7) (byte s 12) (byte s 1) (byte s 6) (byte s 11)

def subBytes (s : BitVec 128) : BitVec 128 := map16 sbox s

/-- `_mm_aesenclast_si128(a, key)`: ShiftRows, SubBytes, AddRoundKey -/
def mm_aesenclast_si128 (a key : BitVec 128) : BitVec 128 := subBytes (shiftRows a) ^^^ key

/-- `_mm_cmpgt_epi8(a, b)`: per byte `0xff` if `a > b` as signed 8-bit integers, else `0` -/
def mm_cmpgt_epi8 (a b : BitVec 128) : BitVec 128 :=
  ofFn16 fun i => if (byte b i).slt (byte a i) then 0xff#8 else 0#8

/-- `_mm_add_epi8(a, b)`: per byte wrapping addition -/
def mm_add_epi8 (a b : BitVec 128) : BitVec 128 := ofFn16 fun i => byte a i + byte b i

/-- `_mm_set_epi64x(e1, e0)`: `e1` is the high, `e0` the low quadword -/
def mm_set_epi64x (e1 e0 : BitVec 64) : BitVec 128 := e1 ++ e0
def mm_set1_epi64x (a : BitVec 64) : BitVec 128 := a ++ a
/-- `_mm_cvtsi64_si128(a)`: low quadword `a`, high quadword zero -/
def mm_cvtsi64_si128 (a : BitVec 64) : BitVec 128 := a.setWidth 128

/-- `_mm_loadu_si128(p)`: sixteen bytes at `p`, little-endian -/
def mm_loadu_si128 (bs : List (BitVec 8)) : BitVec 128 := ofFn16 fun i => bs.getD i 0#8

end CC.Groestl.Intrin
