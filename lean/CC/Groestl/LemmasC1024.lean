/-
  CC.Groestl.LemmasC1024 — layers (b),(c) for the 1024-bit state (`Compressor1024`, Grøstl-384/512):
  representation invariant, `stepP`/`stepQ` = the specification's rounds, `tf1024 = f`, `of1024 = Ω`.
-/
import Std.Tactic.BVDecide
import CC.Groestl.LemmasC512
namespace CC.Groestl
open CC CC.Groestl.Intrin CC.Groestl.Model

/-- after `transpose`: register `i` = row `i`, byte `c` = column `c` -/
def rep16 (g : Nat → Nat → BitVec 8) : X8 :=
  ⟨ofFn16 (g 0), ofFn16 (g 1), ofFn16 (g 2), ofFn16 (g 3), ofFn16 (g 4), ofFn16 (g 5), ofFn16 (g 6), ofFn16 (g 7)⟩

theorem rep16_congr {f g : Nat → Nat → BitVec 8} (h : ∀ i, i < 8 → ∀ c, c < 16 → f i c = g i c) :
    rep16 f = rep16 g := by
  simp only [rep16, X8.mk.injEq]
  refine ⟨?_, ?_, ?_, ?_, ?_, ?_, ?_, ?_⟩ <;> exact ofFn16_congr (h _ (by decide))

theorem rep16_xor (a b : Nat → Nat → BitVec 8) :
    (rep16 a).xor (rep16 b) = rep16 fun i j => a i j ^^^ b i j := by
  simp only [rep16, X8.xor, X8.map2, mm_xor_si128, ofFn16_xor]

theorem rotIdx1024_lt (s p : Nat) : rotIdx1024 s p < 16 := by unfold rotIdx1024; omega

theorem sub_rot16 (s : Nat) (f : Nat → BitVec 8) :
    map16 Spec.sbox (ofFn16 fun p => byte (ofFn16 f) (rotIdx1024 s p)) =
      ofFn16 fun c => Spec.sbox (f ((c + s) % 16)) := by
  rw [map16_ofFn16]
  apply ofFn16_congr
  intro p _
  rw [byte_ofFn16 _ _ (rotIdx1024_lt s p)]
  rfl

theorem aes_maskP1024_0 (f : Nat → BitVec 8) :
    mm_aesenclast_si128 (mm_shuffle_epi8 (ofFn16 f) maskP1024.r0) (mm_cvtsi64_si128 0#64) =
      ofFn16 fun c => Spec.sbox (f ((c + (Spec.shiftP 16).getD 0 0) % 16)) := by
  rw [aesenclast_zero, maskP1024_0, sub_rot16]
  rfl

theorem aes_maskQ1024_0 (f : Nat → BitVec 8) :
    mm_aesenclast_si128 (mm_shuffle_epi8 (ofFn16 f) maskQ1024.r0) (mm_cvtsi64_si128 0#64) =
      ofFn16 fun c => Spec.sbox (f ((c + (Spec.shiftQ 16).getD 0 0) % 16)) := by
  rw [aesenclast_zero, maskQ1024_0, sub_rot16]
  rfl

theorem aes_maskP1024_1 (f : Nat → BitVec 8) :
    mm_aesenclast_si128 (mm_shuffle_epi8 (ofFn16 f) maskP1024.r1) (mm_cvtsi64_si128 0#64) =
      ofFn16 fun c => Spec.sbox (f ((c + (Spec.shiftP 16).getD 1 0) % 16)) := by
  rw [aesenclast_zero, maskP1024_1, sub_rot16]
  rfl

theorem aes_maskQ1024_1 (f : Nat → BitVec 8) :
    mm_aesenclast_si128 (mm_shuffle_epi8 (ofFn16 f) maskQ1024.r1) (mm_cvtsi64_si128 0#64) =
      ofFn16 fun c => Spec.sbox (f ((c + (Spec.shiftQ 16).getD 1 0) % 16)) := by
  rw [aesenclast_zero, maskQ1024_1, sub_rot16]
  rfl

theorem aes_maskP1024_2 (f : Nat → BitVec 8) :
    mm_aesenclast_si128 (mm_shuffle_epi8 (ofFn16 f) maskP1024.r2) (mm_cvtsi64_si128 0#64) =
      ofFn16 fun c => Spec.sbox (f ((c + (Spec.shiftP 16).getD 2 0) % 16)) := by
  rw [aesenclast_zero, maskP1024_2, sub_rot16]
  rfl

theorem aes_maskQ1024_2 (f : Nat → BitVec 8) :
    mm_aesenclast_si128 (mm_shuffle_epi8 (ofFn16 f) maskQ1024.r2) (mm_cvtsi64_si128 0#64) =
      ofFn16 fun c => Spec.sbox (f ((c + (Spec.shiftQ 16).getD 2 0) % 16)) := by
  rw [aesenclast_zero, maskQ1024_2, sub_rot16]
  rfl

theorem aes_maskP1024_3 (f : Nat → BitVec 8) :
    mm_aesenclast_si128 (mm_shuffle_epi8 (ofFn16 f) maskP1024.r3) (mm_cvtsi64_si128 0#64) =
      ofFn16 fun c => Spec.sbox (f ((c + (Spec.shiftP 16).getD 3 0) % 16)) := by
  rw [aesenclast_zero, maskP1024_3, sub_rot16]
  rfl

theorem aes_maskQ1024_3 (f : Nat → BitVec 8) :
    mm_aesenclast_si128 (mm_shuffle_epi8 (ofFn16 f) maskQ1024.r3) (mm_cvtsi64_si128 0#64) =
      ofFn16 fun c => Spec.sbox (f ((c + (Spec.shiftQ 16).getD 3 0) % 16)) := by
  rw [aesenclast_zero, maskQ1024_3, sub_rot16]
  rfl

theorem aes_maskP1024_4 (f : Nat → BitVec 8) :
    mm_aesenclast_si128 (mm_shuffle_epi8 (ofFn16 f) maskP1024.r4) (mm_cvtsi64_si128 0#64) =
      ofFn16 fun c => Spec.sbox (f ((c + (Spec.shiftP 16).getD 4 0) % 16)) := by
  rw [aesenclast_zero, maskP1024_4, sub_rot16]
  rfl

theorem aes_maskQ1024_4 (f : Nat → BitVec 8) :
    mm_aesenclast_si128 (mm_shuffle_epi8 (ofFn16 f) maskQ1024.r4) (mm_cvtsi64_si128 0#64) =
      ofFn16 fun c => Spec.sbox (f ((c + (Spec.shiftQ 16).getD 4 0) % 16)) := by
  rw [aesenclast_zero, maskQ1024_4, sub_rot16]
  rfl

theorem aes_maskP1024_5 (f : Nat → BitVec 8) :
    mm_aesenclast_si128 (mm_shuffle_epi8 (ofFn16 f) maskP1024.r5) (mm_cvtsi64_si128 0#64) =
      ofFn16 fun c => Spec.sbox (f ((c + (Spec.shiftP 16).getD 5 0) % 16)) := by
  rw [aesenclast_zero, maskP1024_5, sub_rot16]
  rfl

theorem aes_maskQ1024_5 (f : Nat → BitVec 8) :
    mm_aesenclast_si128 (mm_shuffle_epi8 (ofFn16 f) maskQ1024.r5) (mm_cvtsi64_si128 0#64) =
      ofFn16 fun c => Spec.sbox (f ((c + (Spec.shiftQ 16).getD 5 0) % 16)) := by
  rw [aesenclast_zero, maskQ1024_5, sub_rot16]
  rfl

theorem aes_maskP1024_6 (f : Nat → BitVec 8) :
    mm_aesenclast_si128 (mm_shuffle_epi8 (ofFn16 f) maskP1024.r6) (mm_cvtsi64_si128 0#64) =
      ofFn16 fun c => Spec.sbox (f ((c + (Spec.shiftP 16).getD 6 0) % 16)) := by
  rw [aesenclast_zero, maskP1024_6, sub_rot16]
  rfl

theorem aes_maskQ1024_6 (f : Nat → BitVec 8) :
    mm_aesenclast_si128 (mm_shuffle_epi8 (ofFn16 f) maskQ1024.r6) (mm_cvtsi64_si128 0#64) =
      ofFn16 fun c => Spec.sbox (f ((c + (Spec.shiftQ 16).getD 6 0) % 16)) := by
  rw [aesenclast_zero, maskQ1024_6, sub_rot16]
  rfl

theorem aes_maskP1024_7 (f : Nat → BitVec 8) :
    mm_aesenclast_si128 (mm_shuffle_epi8 (ofFn16 f) maskP1024.r7) (mm_cvtsi64_si128 0#64) =
      ofFn16 fun c => Spec.sbox (f ((c + (Spec.shiftP 16).getD 7 0) % 16)) := by
  rw [aesenclast_zero, maskP1024_7, sub_rot16]
  rfl

theorem aes_maskQ1024_7 (f : Nat → BitVec 8) :
    mm_aesenclast_si128 (mm_shuffle_epi8 (ofFn16 f) maskQ1024.r7) (mm_cvtsi64_si128 0#64) =
      ofFn16 fun c => Spec.sbox (f ((c + (Spec.shiftQ 16).getD 7 0) % 16)) := by
  rw [aesenclast_zero, maskQ1024_7, sub_rot16]
  rfl

/-! ## one round of P and of Q -/

theorem addrc_P (r : Nat) (hr : r < 14) (g : Nat → Nat → BitVec 8) :
    ({ rep16 g with r0 := mm_xor_si128 (rep16 g).r0 (constP r) } : X8) =
      rep16 fun i j => g i j ^^^ Spec.rcP i j r := by
  simp only [rep16, mm_xor_si128, constP_eq r hr, ofFn16_xor, X8.mk.injEq]
  refine ⟨trivial, ?_, ?_, ?_, ?_, ?_, ?_, ?_⟩ <;>
  · congr 1; funext c; simp [Spec.rcP]

theorem stepP_rep16 (r : Nat) (hr : r < 14) (g : Nat → Nat → BitVec 8) :
    stepP (constP r) (rep16 g) = rep16 (roundF 16 (Spec.shiftP 16) Spec.rcP r g) := by
  unfold stepP submix
  simp only []
  rw [addrc_P r hr]
  simp only [rep16, X8.map2, X8.map, aes_maskP1024_0, aes_maskP1024_1, aes_maskP1024_2, aes_maskP1024_3,
    aes_maskP1024_4, aes_maskP1024_5, aes_maskP1024_6, aes_maskP1024_7]
  rw [mixNet_eq]
  simp only [mixLin_ofFn16, X8.mk.injEq]
  refine ⟨?_, ?_, ?_, ?_, ?_, ?_, ?_, ?_⟩
  · exact ofFn16_congr fun c _ => colMix_0 fun k =>
      Spec.sbox (g k ((c + (Spec.shiftP 16).getD k 0) % 16) ^^^ Spec.rcP k ((c + (Spec.shiftP 16).getD k 0) % 16) r)
  · exact ofFn16_congr fun c _ => colMix_1 fun k =>
      Spec.sbox (g k ((c + (Spec.shiftP 16).getD k 0) % 16) ^^^ Spec.rcP k ((c + (Spec.shiftP 16).getD k 0) % 16) r)
  · exact ofFn16_congr fun c _ => colMix_2 fun k =>
      Spec.sbox (g k ((c + (Spec.shiftP 16).getD k 0) % 16) ^^^ Spec.rcP k ((c + (Spec.shiftP 16).getD k 0) % 16) r)
  · exact ofFn16_congr fun c _ => colMix_3 fun k =>
      Spec.sbox (g k ((c + (Spec.shiftP 16).getD k 0) % 16) ^^^ Spec.rcP k ((c + (Spec.shiftP 16).getD k 0) % 16) r)
  · exact ofFn16_congr fun c _ => colMix_4 fun k =>
      Spec.sbox (g k ((c + (Spec.shiftP 16).getD k 0) % 16) ^^^ Spec.rcP k ((c + (Spec.shiftP 16).getD k 0) % 16) r)
  · exact ofFn16_congr fun c _ => colMix_5 fun k =>
      Spec.sbox (g k ((c + (Spec.shiftP 16).getD k 0) % 16) ^^^ Spec.rcP k ((c + (Spec.shiftP 16).getD k 0) % 16) r)
  · exact ofFn16_congr fun c _ => colMix_6 fun k =>
      Spec.sbox (g k ((c + (Spec.shiftP 16).getD k 0) % 16) ^^^ Spec.rcP k ((c + (Spec.shiftP 16).getD k 0) % 16) r)
  · exact ofFn16_congr fun c _ => colMix_7 fun k =>
      Spec.sbox (g k ((c + (Spec.shiftP 16).getD k 0) % 16) ^^^ Spec.rcP k ((c + (Spec.shiftP 16).getD k 0) % 16) r)

theorem addrc_Q (r : Nat) (hr : r < 14) (g : Nat → Nat → BitVec 8) :
    (rep16 g).xor ⟨mm_set1_epi64x 0xffffffffffffffff#64, mm_set1_epi64x 0xffffffffffffffff#64,
        mm_set1_epi64x 0xffffffffffffffff#64, mm_set1_epi64x 0xffffffffffffffff#64,
        mm_set1_epi64x 0xffffffffffffffff#64, mm_set1_epi64x 0xffffffffffffffff#64,
        mm_set1_epi64x 0xffffffffffffffff#64, constQ r⟩ =
      rep16 fun i j => g i j ^^^ Spec.rcQ i j r := by
  simp only [rep16, X8.xor, X8.map2, mm_xor_si128, X8.mk.injEq]
  refine ⟨?_, ?_, ?_, ?_, ?_, ?_, ?_, ?_⟩
  · rw [ones_eq r hr 0 (by decide), ofFn16_xor]
  · rw [ones_eq r hr 1 (by decide), ofFn16_xor]
  · rw [ones_eq r hr 2 (by decide), ofFn16_xor]
  · rw [ones_eq r hr 3 (by decide), ofFn16_xor]
  · rw [ones_eq r hr 4 (by decide), ofFn16_xor]
  · rw [ones_eq r hr 5 (by decide), ofFn16_xor]
  · rw [ones_eq r hr 6 (by decide), ofFn16_xor]
  · rw [constQ_eq r hr, ofFn16_xor]

theorem stepQ_rep16 (r : Nat) (hr : r < 14) (g : Nat → Nat → BitVec 8) :
    stepQ (constQ r) (rep16 g) = rep16 (roundF 16 (Spec.shiftQ 16) Spec.rcQ r g) := by
  unfold stepQ submix
  simp only []
  rw [addrc_Q r hr]
  simp only [rep16, X8.map2, X8.map, aes_maskQ1024_0, aes_maskQ1024_1, aes_maskQ1024_2, aes_maskQ1024_3,
    aes_maskQ1024_4, aes_maskQ1024_5, aes_maskQ1024_6, aes_maskQ1024_7]
  rw [mixNet_eq]
  simp only [mixLin_ofFn16, X8.mk.injEq]
  refine ⟨?_, ?_, ?_, ?_, ?_, ?_, ?_, ?_⟩
  · exact ofFn16_congr fun c _ => colMix_0 fun k =>
      Spec.sbox (g k ((c + (Spec.shiftQ 16).getD k 0) % 16) ^^^ Spec.rcQ k ((c + (Spec.shiftQ 16).getD k 0) % 16) r)
  · exact ofFn16_congr fun c _ => colMix_1 fun k =>
      Spec.sbox (g k ((c + (Spec.shiftQ 16).getD k 0) % 16) ^^^ Spec.rcQ k ((c + (Spec.shiftQ 16).getD k 0) % 16) r)
  · exact ofFn16_congr fun c _ => colMix_2 fun k =>
      Spec.sbox (g k ((c + (Spec.shiftQ 16).getD k 0) % 16) ^^^ Spec.rcQ k ((c + (Spec.shiftQ 16).getD k 0) % 16) r)
  · exact ofFn16_congr fun c _ => colMix_3 fun k =>
      Spec.sbox (g k ((c + (Spec.shiftQ 16).getD k 0) % 16) ^^^ Spec.rcQ k ((c + (Spec.shiftQ 16).getD k 0) % 16) r)
  · exact ofFn16_congr fun c _ => colMix_4 fun k =>
      Spec.sbox (g k ((c + (Spec.shiftQ 16).getD k 0) % 16) ^^^ Spec.rcQ k ((c + (Spec.shiftQ 16).getD k 0) % 16) r)
  · exact ofFn16_congr fun c _ => colMix_5 fun k =>
      Spec.sbox (g k ((c + (Spec.shiftQ 16).getD k 0) % 16) ^^^ Spec.rcQ k ((c + (Spec.shiftQ 16).getD k 0) % 16) r)
  · exact ofFn16_congr fun c _ => colMix_6 fun k =>
      Spec.sbox (g k ((c + (Spec.shiftQ 16).getD k 0) % 16) ^^^ Spec.rcQ k ((c + (Spec.shiftQ 16).getD k 0) % 16) r)
  · exact ofFn16_congr fun c _ => colMix_7 fun k =>
      Spec.sbox (g k ((c + (Spec.shiftQ 16).getD k 0) % 16) ^^^ Spec.rcQ k ((c + (Spec.shiftQ 16).getD k 0) % 16) r)

/-! ## fourteen rounds -/

theorem rounds_p_rep16 (g : Nat → Nat → BitVec 8) :
    rounds_p (rep16 g) = rep16 (permF 16 (Spec.shiftP 16) Spec.rcP (List.range 14) g) := by
  unfold rounds_p
  simp only [List.range, List.range.loop, List.foldl, Nat.reduceMul, Nat.reduceAdd]
  rw [stepP_rep16 0 (by decide), stepP_rep16 1 (by decide), stepP_rep16 2 (by decide), stepP_rep16 3 (by decide), stepP_rep16 4 (by decide), stepP_rep16 5 (by decide), stepP_rep16 6 (by decide), stepP_rep16 7 (by decide), stepP_rep16 8 (by decide), stepP_rep16 9 (by decide), stepP_rep16 10 (by decide), stepP_rep16 11 (by decide), stepP_rep16 12 (by decide), stepP_rep16 13 (by decide)]
  rfl

theorem rounds_q_rep16 (g : Nat → Nat → BitVec 8) :
    rounds_q (rep16 g) = rep16 (permF 16 (Spec.shiftQ 16) Spec.rcQ (List.range 14) g) := by
  unfold rounds_q
  simp only [List.range, List.range.loop, List.foldl, Nat.reduceMul, Nat.reduceAdd]
  rw [stepQ_rep16 0 (by decide), stepQ_rep16 1 (by decide), stepQ_rep16 2 (by decide), stepQ_rep16 3 (by decide), stepQ_rep16 4 (by decide), stepQ_rep16 5 (by decide), stepQ_rep16 6 (by decide), stepQ_rep16 7 (by decide), stepQ_rep16 8 (by decide), stepQ_rep16 9 (by decide), stepQ_rep16 10 (by decide), stepQ_rep16 11 (by decide), stepQ_rep16 12 (by decide), stepQ_rep16 13 (by decide)]
  rfl

/-! ## loads and transposes -/

theorem byte_load8 (bs : List (BitVec 8)) (m q : Nat) (hm : m < 8) (hq : q < 16) :
    byte ((load8 bs).get m) q = bs.getD (16 * m + q) 0#8 := by
  have h : m = 0 ∨ m = 1 ∨ m = 2 ∨ m = 3 ∨ m = 4 ∨ m = 5 ∨ m = 6 ∨ m = 7 := by omega
  rcases h with rfl | rfl | rfl | rfl | rfl | rfl | rfl | rfl <;>
    simp only [load8, X8.get, byte_loadu _ _ hq, getD_drop] <;> simp

theorem transpose_load8 (bs : List (BitVec 8)) : transpose (load8 bs) = rep16 (matOf bs) := by
  rw [transpose_layout]
  simp only [rep16, X8.mk.injEq]
  refine ⟨?_, ?_, ?_, ?_, ?_, ?_, ?_, ?_⟩ <;>
  · apply ofFn16_congr
    intro c hc
    rw [byte_load8 _ _ _ (by omega) (by omega)]
    unfold matOf
    congr 1; omega

theorem rep1024_eq (bs : List (BitVec 8)) : rep1024 bs = rep16 (matOf bs) := transpose_load8 bs

theorem byte_rep16 (W : Nat → Nat → BitVec 8) (i c : Nat) (hi : i < 8) (hc : c < 16) :
    byte ((rep16 W).get i) c = W i c := by
  have h : i = 0 ∨ i = 1 ∨ i = 2 ∨ i = 3 ∨ i = 4 ∨ i = 5 ∨ i = 6 ∨ i = 7 := by omega
  rcases h with rfl | rfl | rfl | rfl | rfl | rfl | rfl | rfl <;>
    simp only [rep16, X8.get, byte_ofFn16 _ _ hc]

/-! ## `tf1024 = f` -/

theorem tf1024_rows (gh : Nat → Nat → BitVec 8) (m : List (BitVec 8)) :
    tf1024_impl (rep16 gh) m = rep16 fun i j =>
      (gh i j ^^^ permF 16 (Spec.shiftP 16) Spec.rcP (List.range 14) (fun i j => gh i j ^^^ matOf m i j) i j) ^^^
       permF 16 (Spec.shiftQ 16) Spec.rcQ (List.range 14) (matOf m) i j := by
  unfold tf1024_impl
  simp only [transpose_load8, rep16_xor, rounds_p_rep16, rounds_q_rep16]

theorem conf1024_tf (h m : List (BitVec 8)) (hh : h.length = 8 * 16) (hm : m.length = 8 * 16) :
    comp1024.input (rep1024 h) m = rep1024 (Spec.f 16 h m) := by
  show tf1024_impl (rep1024 h) m = rep1024 (Spec.f 16 h m)
  rw [rep1024_eq, rep1024_eq, tf1024_rows, f_eq 16 (by decide) h m hh hm]
  apply rep16_congr
  intro i hi c hc
  rw [matOf_bytesOf 16 _ i c hi hc]
  show _ = (permF 16 (Spec.shiftP 16) Spec.rcP (List.range 14) _ i c ^^^
    permF 16 (Spec.shiftQ 16) Spec.rcQ (List.range 14) _ i c) ^^^ matOf h i c
  generalize permF 16 (Spec.shiftP 16) Spec.rcP (List.range 14) _ i c = a
  generalize permF 16 (Spec.shiftQ 16) Spec.rcQ (List.range 14) _ i c = b
  generalize matOf h i c = d
  bv_decide

/-! ## `of1024 = Ω` -/

theorem of1024_rows (gh : Nat → Nat → BitVec 8) :
    of1024_impl (rep16 gh) =
      { rep16 gh with
        r4 := ofFn16 fun q => gh (q % 8) (8 + q / 8) ^^^
                permF 16 (Spec.shiftP 16) Spec.rcP (List.range 14) gh (q % 8) (8 + q / 8)
        r5 := ofFn16 fun q => gh (q % 8) (10 + q / 8) ^^^
                permF 16 (Spec.shiftP 16) Spec.rcP (List.range 14) gh (q % 8) (10 + q / 8)
        r6 := ofFn16 fun q => gh (q % 8) (12 + q / 8) ^^^
                permF 16 (Spec.shiftP 16) Spec.rcP (List.range 14) gh (q % 8) (12 + q / 8)
        r7 := ofFn16 fun q => gh (q % 8) (14 + q / 8) ^^^
                permF 16 (Spec.shiftP 16) Spec.rcP (List.range 14) gh (q % 8) (14 + q / 8) } := by
  unfold of1024_impl
  simp only [rounds_p_rep16, rep16_xor, transpose_inv_layout]
  congr 1 <;>
  · apply ofFn16_congr
    intro q hq
    rw [byte_rep16 _ _ _ (by omega) (by omega)]

theorem map_range64 {α : Type} (f : Nat → α) :
    (List.range 64).map f =
      (List.range 16).map f ++ ((List.range 16).map (fun n => f (16 + n)) ++
        ((List.range 16).map (fun n => f (32 + n)) ++ (List.range 16).map (fun n => f (48 + n)))) := by
  rfl

theorem conf1024_of (h : List (BitVec 8)) (hh : h.length = 8 * 16) :
    leWords ((comp1024.finalizeDirty (rep1024 h)).2.drop (16 / 2)) =
      (Spec.xorBytes (Spec.P 16 h) h).drop (4 * 16) := by
  show leWords ((of1024_impl (rep1024 h)).toBlock.drop 8) = (Spec.xorBytes (Spec.P 16 h) h).drop 64
  rw [rep1024_eq, of1024_rows, P_eq 16 (by decide), xorBytes_bytesOf 16 _ h hh]
  simp only [X8.toBlock, List.drop_succ_cons, List.drop_zero, leWords, List.flatMap_cons, List.flatMap_nil,
    List.append_nil]
  rw [← List.append_assoc, toLe64_qwords, ← List.append_assoc (toLe64 _), toLe64_qwords,
    ← List.append_assoc (toLe64 _), toLe64_qwords, toLe64_qwords,
    toBytes16_ofFn16, toBytes16_ofFn16, toBytes16_ofFn16, toBytes16_ofFn16]
  unfold bytesOf
  rw [show 8 * 16 = 64 + 64 from rfl, drop_map_range, map_range64]
  congr 1
  · apply List.map_congr_left
    intro n hn
    have := List.mem_range.mp hn
    show _ = permF 16 (Spec.shiftP 16) Spec.rcP (List.range 14) (matOf h) _ _ ^^^ _
    rw [BitVec.xor_comm]
    congr 2 <;> omega
  congr 1
  · apply List.map_congr_left
    intro n hn
    have := List.mem_range.mp hn
    show _ = permF 16 (Spec.shiftP 16) Spec.rcP (List.range 14) (matOf h) _ _ ^^^ _
    rw [BitVec.xor_comm]
    congr 2 <;> omega
  congr 1
  · apply List.map_congr_left
    intro n hn
    have := List.mem_range.mp hn
    show _ = permF 16 (Spec.shiftP 16) Spec.rcP (List.range 14) (matOf h) _ _ ^^^ _
    rw [BitVec.xor_comm]
    congr 2 <;> omega
  · apply List.map_congr_left
    intro n hn
    have := List.mem_range.mp hn
    show _ = permF 16 (Spec.shiftP 16) Spec.rcP (List.range 14) (matOf h) _ _ ^^^ _
    rw [BitVec.xor_comm]
    congr 2 <;> omega

/-- **Layers (b),(c) for `Compressor1024`.** -/
theorem conf1024 : Conf comp1024 16 rep1024 := ⟨conf1024_tf, conf1024_of⟩

end CC.Groestl
