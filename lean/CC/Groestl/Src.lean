/-
  CC.Groestl.Src — SOURCE TIE for Grøstl (property C07), literals only: tools/inventory_kernels.py regenerates,
  per function of hashes/groestl/src/compressor.rs (test code dropped), the list of its integer literals above
  0xffff in source order (`CC.Gen.Kernels.groestl_literals`): the `pshufb` mask tables of `round`, `rounds_p`,
  `rounds_q`, the transpose mask, the AddRoundConstant patterns, `0x1b…` of `mul2`.  Each model definition
  that embeds such literals is shown equal to the same expression over the regenerated literals.
  (The intrinsic-level dataflow of the Grøstl functions is NOT translated: closures, `map`, loops — it stays
  tied by the differential correspondence of C07.)
-/
import CC.Gen.Kernels
import CC.Groestl.Model
namespace CC.Src
open CC.Groestl.Model CC.Groestl.Intrin

/-- the wide literals of fn `f`, in source order -/
def glits (f : String) : List (BitVec 64) := (Gen.Kernels.groestl_literals.lookup f).getD []
/-- literal number `i` of fn `f` -/
def glit (f : String) (i : Nat) : BitVec 64 := (glits f).getD i 0

/-- `X8(_mm_set_epi64x(l0, l1), …, _mm_set_epi64x(l14, l15))` -/
def x8OfPairs (l : List (BitVec 64)) : X8 :=
  ⟨mm_set_epi64x (l.getD 0 0) (l.getD 1 0), mm_set_epi64x (l.getD 2 0) (l.getD 3 0),
   mm_set_epi64x (l.getD 4 0) (l.getD 5 0), mm_set_epi64x (l.getD 6 0) (l.getD 7 0),
   mm_set_epi64x (l.getD 8 0) (l.getD 9 0), mm_set_epi64x (l.getD 10 0) (l.getD 11 0),
   mm_set_epi64x (l.getD 12 0) (l.getD 13 0), mm_set_epi64x (l.getD 14 0) (l.getD 15 0)⟩

theorem src_groestl_clean : Gen.Kernels.groestl_errors = [] := rfl

/-- exactly these functions contain wide literals, with this many each -/
theorem src_groestl_literal_sites :
    Gen.Kernels.groestl_literals.map (fun p => (p.1, p.2.length)) =
      [("mul2", 1), ("transpose_a", 2), ("round", 21), ("transpose", 2), ("transpose_inv", 2),
       ("rounds_p", 19), ("rounds_q", 20)] := by decide +kernel

theorem src_groestl_mul2 :
    mul2 = fun i =>
      let all_1b := mm_set1_epi64x (glit "mul2" 0)
      let j := mm_and_si128 (mm_cmpgt_epi8 (mm_cvtsi64_si128 0#64) i) all_1b
      let i := mm_add_epi8 i i
      mm_xor_si128 i j := rfl

/-- the byte-shuffle mask of `transpose_a`, `transpose`, `transpose_inv` -/
theorem src_groestl_transposeMask :
    transposeMask = mm_set_epi64x (glit "transpose_a" 0) (glit "transpose_a" 1) ∧
    transposeMask = mm_set_epi64x (glit "transpose" 0) (glit "transpose" 1) ∧
    transposeMask = mm_set_epi64x (glit "transpose_inv" 0) (glit "transpose_inv" 1) := by decide +kernel

/-- AddRoundConstant of `round(i, ·)` (512-bit variant) -/
theorem src_groestl_roundConst :
    roundConst = fun i =>
      let ff := glit "round" 0
      let l0 := mm_set_epi64x ff ((i * glit "round" 1) ^^^ glit "round" 2)
      let lx := mm_set_epi64x ff 0#64
      let l7 := mm_set_epi64x ((i * glit "round" 3) ^^^ glit "round" 4) 0#64
      ⟨l0, lx, lx, lx, lx, lx, lx, l7⟩ := rfl

/-- the eight `pshufb` masks of `round` -/
theorem src_groestl_roundMask : roundMask = x8OfPairs ((glits "round").drop 5) := by decide +kernel

/-- `const O1` and `const_p[i]` of `rounds_p` -/
theorem src_groestl_constP :
    O1 = glit "rounds_p" 0 ∧
    constP = fun i =>
      let i := BitVec.ofNat 64 i
      mm_set_epi64x ((i * glit "rounds_p" 0) ^^^ glit "rounds_p" 1) ((i * glit "rounds_p" 0) ^^^ glit "rounds_p" 2) :=
  ⟨rfl, rfl⟩
/-- the eight `pshufb` masks of `rounds_p` -/
theorem src_groestl_maskP1024 : maskP1024 = x8OfPairs ((glits "rounds_p").drop 3) := by decide +kernel

/-- `const_q[i]` of `rounds_q` -/
theorem src_groestl_constQ :
    constQ = fun i =>
      let i := BitVec.ofNat 64 i
      mm_set_epi64x ((i * glit "rounds_q" 0) ^^^ glit "rounds_q" 1) ((i * glit "rounds_q" 0) ^^^ glit "rounds_q" 2) :=
  rfl
/-- the masks of `rounds_q` before `.shuffle((1, 3, 5, 7, 0, 2, 4, 6))`, and the all-ones `f` -/
theorem src_groestl_maskQ1024 :
    maskQ1024 = (x8OfPairs ((glits "rounds_q").drop 3)).shuffle 1 3 5 7 0 2 4 6 ∧
    stepQ = fun c x =>
      let f := mm_set1_epi64x (glit "rounds_q" 19)
      submix (X8.map2 mm_shuffle_epi8 (x.xor ⟨f, f, f, f, f, f, f, c⟩) maskQ1024) :=
  ⟨by decide +kernel, rfl⟩

end CC.Src
