/-
  CC.Groestl.Src — SOURCE TIE for Grøstl (property C07), literals only: tools/inventory_kernels.py regenerates,
  per function of hashes/groestl/src/compressor.rs (test code dropped), the list of its integer literals above
  0xffff in source order (`CC.Gen.Kernels.groestl_literals`): the `pshufb` mask tables of `round`, `rounds_p`,
  `rounds_q`, the transpose mask, the AddRoundConstant patterns, `0x1b…` of `mul2`.  Each model definition
  that embeds such literals is shown equal to the same expression over the regenerated literals.
  (The intrinsic-level dataflow of the Grøstl functions is NOT translated: closures, `map`, loops — it stays
  tied by the differential correspondence of C07.)
-/
import CC.Gen.Kernels
import CC.Groestl.Model
import CC.Lemmas.SrcGlue
import CC.Lemmas.SrcGlueGroestl
namespace CC.Src
open CC.Groestl.Model CC.Groestl.Intrin

/-- the wide literals of fn `f`, in source order -/
def glits (f : String) : List (BitVec 64) := (Gen.Kernels.groestl_literals.lookup f).getD []
/-- literal number `i` of fn `f` -/
def glit (f : String) (i : Nat) : BitVec 64 := (glits f).getD i 0

/-- `X8(_mm_set_epi64x(l0, l1), …, _mm_set_epi64x(l14, l15))` -/
def x8OfPairs (l : List (BitVec 64)) : X8 :=
  ⟨mm_set_epi64x (l.getD 0 0) (l.getD 1 0), mm_set_epi64x (l.getD 2 0) (l.getD 3 0),
   mm_set_epi64x (l.getD 4 0) (l.getD 5 0), mm_set_epi64x (l.getD 6 0) (l.getD 7 0),
   mm_set_epi64x (l.getD 8 0) (l.getD 9 0), mm_set_epi64x (l.getD 10 0) (l.getD 11 0),
   mm_set_epi64x (l.getD 12 0) (l.getD 13 0), mm_set_epi64x (l.getD 14 0) (l.getD 15 0)⟩

theorem src_groestl_clean : Gen.Kernels.groestl_errors = [] := rfl

/-- exactly these functions contain wide literals, with this many each -/
theorem src_groestl_literal_sites :
    Gen.Kernels.groestl_literals.map (fun p => (p.1, p.2.length)) =
      [("mul2", 1), ("transpose_a", 2), ("round", 21), ("transpose", 2), ("transpose_inv", 2),
       ("rounds_p", 19), ("rounds_q", 20)] := by decide +kernel

theorem src_groestl_mul2 :
    mul2 = fun i =>
      let all_1b := mm_set1_epi64x (glit "mul2" 0)
      let j := mm_and_si128 (mm_cmpgt_epi8 (mm_cvtsi64_si128 0#64) i) all_1b
      let i := mm_add_epi8 i i
      mm_xor_si128 i j := rfl

/-- the byte-shuffle mask of `transpose_a`, `transpose`, `transpose_inv` -/
theorem src_groestl_transposeMask :
    transposeMask = mm_set_epi64x (glit "transpose_a" 0) (glit "transpose_a" 1) ∧
    transposeMask = mm_set_epi64x (glit "transpose" 0) (glit "transpose" 1) ∧
    transposeMask = mm_set_epi64x (glit "transpose_inv" 0) (glit "transpose_inv" 1) := by decide +kernel

/-- AddRoundConstant of `round(i, ·)` (512-bit variant) -/
theorem src_groestl_roundConst :
    roundConst = fun i =>
      let ff := glit "round" 0
      let l0 := mm_set_epi64x ff ((i * glit "round" 1) ^^^ glit "round" 2)
      let lx := mm_set_epi64x ff 0#64
      let l7 := mm_set_epi64x ((i * glit "round" 3) ^^^ glit "round" 4) 0#64
      ⟨l0, lx, lx, lx, lx, lx, lx, l7⟩ := rfl

/-- the eight `pshufb` masks of `round` -/
theorem src_groestl_roundMask : roundMask = x8OfPairs ((glits "round").drop 5) := by decide +kernel

/-- `const O1` and `const_p[i]` of `rounds_p` -/
theorem src_groestl_constP :
    O1 = glit "rounds_p" 0 ∧
    constP = fun i =>
      let i := BitVec.ofNat 64 i
      mm_set_epi64x ((i * glit "rounds_p" 0) ^^^ glit "rounds_p" 1) ((i * glit "rounds_p" 0) ^^^ glit "rounds_p" 2) :=
  ⟨rfl, rfl⟩
/-- the eight `pshufb` masks of `rounds_p` -/
theorem src_groestl_maskP1024 : maskP1024 = x8OfPairs ((glits "rounds_p").drop 3) := by decide +kernel

/-- `const_q[i]` of `rounds_q` -/
theorem src_groestl_constQ :
    constQ = fun i =>
      let i := BitVec.ofNat 64 i
      mm_set_epi64x ((i * glit "rounds_q" 0) ^^^ glit "rounds_q" 1) ((i * glit "rounds_q" 0) ^^^ glit "rounds_q" 2) :=
  rfl
/-- the masks of `rounds_q` before `.shuffle((1, 3, 5, 7, 0, 2, 4, 6))`, and the all-ones `f` -/
theorem src_groestl_maskQ1024 :
    maskQ1024 = (x8OfPairs ((glits "rounds_q").drop 3)).shuffle 1 3 5 7 0 2 4 6 ∧
    stepQ = fun c x =>
      let f := mm_set1_epi64x (glit "rounds_q" 19)
      submix (X8.map2 mm_shuffle_epi8 (x.xor ⟨f, f, f, f, f, f, f, c⟩) maskQ1024) :=
  ⟨by decide +kernel, rfl⟩

/-! ## phase 3: the glue of lib.rs (`impl_digest!`, two instantiations, and the wrapper types `Groestl224`, `Groestl384`)
  (tools/inventory_kernels_glue.py)

  `new_truncated`, `finalize_dirty`, `Default::default`, `Update::update`, `FixedOutputDirty::finalize_into_dirty`,
  `Reset::reset`, regenerated from the source on every run.  The `block_buffer::BlockBuffer` methods are named
  primitives mapped to `CC.Buffer` (`inputBlock`, `len64PaddingBe`); `Compressor512::new` / `input` /
  `finalize_dirty` (resp. `Compressor1024`) are parameters of the generated definitions, instantiated here with the
  model's `comp512` (resp. `comp1024`).  Panic messages are not compared (`noMsg`).
  The generic lemmas (`groestl_*_glue_*`) hold for every `K : Comp C` with the right block size; NO invariant on the
  block buffer or the counter is needed: every statement holds for every state. -/

open CC CC.Buffer

/-- only used as the junk value of `outGet` on an outcome that is not `ok` (a guard has fired then) -/
instance groestlInhabitedX4 : Inhabited X4 := ⟨⟨0, 0, 0, 0⟩⟩
instance groestlInhabitedX8 : Inhabited X8 := ⟨⟨0, 0, 0, 0, 0, 0, 0, 0⟩⟩

/-- the fields of the struct generated by `impl_digest!`, in source order -/
def groestlEnc {C : Type} (h : Hasher C) : BB × BitVec 64 × C := (h.buffer, h.blockCounter, h.compressor)
/-- … and back -/
def groestlDec {C : Type} (t : BB × BitVec 64 × C) : Hasher C := ⟨t.1, t.2.1, t.2.2⟩

theorem groestlDec_enc {C : Type} (h : Hasher C) : groestlDec (groestlEnc h) = h := rfl
theorem groestlEnc_dec {C : Type} (t : BB × BitVec 64 × C) : groestlEnc (groestlDec t) = t := rfl

/-! ### `new_truncated` -/

/-- `x.to_be()` as translated (`CC.ofLeBytes 64 (CC.toBeBytes x 8)`) is the model's byte swap -/
theorem groestl_toBe_eq (x : BitVec 64) : CC.ofLeBytes 64 (CC.toBeBytes x 8) = toBe x := by
  simp only [toBe, read64le, le64, toBe64, toLe64, toBeBytes, toLeBytes, ofLeBytes, List.range, List.range.loop, List.map,
    List.reverse_cons, List.reverse_nil, List.nil_append, List.cons_append, List.foldr, List.getD_cons_zero,
    List.getD_cons_succ]
  bv_decide

/-- `u64::from(bits)` -/
theorem groestl_u64_from_u32 (bits : BitVec 32) : BitVec.ofNat 64 (bits.toNat % 2 ^ 32) = BitVec.setWidth 64 bits := by
  rw [Nat.mod_eq_of_lt bits.isLt]
  apply BitVec.eq_of_toNat_eq
  simp

theorem groestl_new_truncated_glue_64 {C : Type} [Inhabited C] (K : Comp C) (hb : K.b = 64) (bits : BitVec 32) :
    groestlEnc (newTruncated K bits.toNat) = Gen.Kernels.groestl_new_truncated_256 K.new bits := by
  simp only [groestlEnc, newTruncated, Gen.Kernels.groestl_new_truncated_256, hb, groestl_u64_from_u32, groestl_toBe_eq]
  rfl

theorem groestl_new_truncated_glue_128 {C : Type} [Inhabited C] (K : Comp C) (hb : K.b = 128) (bits : BitVec 32) :
    groestlEnc (newTruncated K bits.toNat) = Gen.Kernels.groestl_new_truncated_512 K.new bits := by
  simp only [groestlEnc, newTruncated, Gen.Kernels.groestl_new_truncated_512, hb, groestl_u64_from_u32, groestl_toBe_eq]
  rfl

/-! ### `update` -/

/-- the relation between the model's accumulator (`Acc`, `dead` flag) and the generated one (`Out (u64 × C)`) -/
def groestlAccRel {C : Type} (a : Acc C) (o : Out (BitVec 64 × C)) : Prop :=
  noMsg o = (if a.dead then .panic "" else .ok (a.ctr, a.comp))

/-- one call of the closure `|b| { *block_counter += 1; compressor.input(b) }` keeps the relation -/
theorem groestlAccRel_step {C : Type} [Inhabited C] (K : Comp C) (p : Profile) (a : Acc C) (o : Out (BitVec 64 × C))
    (x : List (BitVec 8)) (h : groestlAccRel a o) :
    groestlAccRel (updStep K p a x) (o >>= fun s => Gen.Kernels.groestl_update_256_closure1 K.input p s x) := by
  unfold groestlAccRel at h ⊢
  unfold updStep
  cases hd : a.dead
  · rw [hd] at h
    simp only [Bool.false_eq_true, if_false] at h ⊢
    cases o with
    | ok s =>
      simp only [noMsg, Out.ok.injEq] at h
      subst h
      simp only [Out.bind_ok, Gen.Kernels.groestl_update_256_closure1, checkedAdd]
      have e1 : (1#64).toNat = 1 := rfl
      simp only [e1]
      by_cases hov : a.ctr.toNat + 1 < 2 ^ 64
      · have : ¬ (a.ctr.toNat + 1 ≥ 2 ^ 64) := by omega
        simp [hov, this, noMsg]
      · have : a.ctr.toNat + 1 ≥ 2 ^ 64 := by omega
        cases p <;> simp [hov, this, noMsg]
    | err => simp [noMsg] at h
    | panic w => simp [noMsg] at h
  · rw [hd] at h
    simp only [if_true] at h ⊢
    cases o with
    | ok s => simp [noMsg] at h
    | err => simp [noMsg] at h
    | panic w => simp [noMsg, bind_panic, hd]

/-- the two instantiations of the closure have the same translated body -/
theorem groestl_update_closure_512 {C : Type} [Inhabited C] :
    @Gen.Kernels.groestl_update_512_closure1 C _ = @Gen.Kernels.groestl_update_256_closure1 C _ := rfl

/-- the shape shared by `groestl_update_256` (b = 64) and `groestl_update_512` (b = 128) -/
theorem groestl_update_glue {C : Type} [Inhabited C] (K : Comp C) (p : Profile) (h : Hasher C) (data : List (BitVec 8)) :
    let t1 := inputBlock K.b h.buffer data
      (fun a blk => a >>= fun s => Gen.Kernels.groestl_update_256_closure1 K.input p s blk)
      (Out.ok (h.blockCounter, h.compressor))
    noMsg (if Gen.Kernels.outOk t1.2 = false then Out.panic "the closure panicked"
           else .ok (t1.1, (Gen.Kernels.outGet t1.2).1, (Gen.Kernels.outGet t1.2).2))
      = noMsg (update K p h data >>= fun h' => .ok (groestlEnc h')) := by
  intro t1
  obtain ⟨hR, hB⟩ := groestl_inputBlock_rel groestlAccRel K.b h.buffer data (updStep K p)
    (fun a blk => a >>= fun s => Gen.Kernels.groestl_update_256_closure1 K.input p s blk)
    (fun a c x hac => groestlAccRel_step K p a c x hac)
    ⟨h.blockCounter, h.compressor, false⟩ (Out.ok (h.blockCounter, h.compressor)) rfl
  unfold update updateRaw
  change groestlAccRel _ t1.2 at hR
  change _ = t1.1 at hB
  unfold groestlAccRel at hR
  generalize inputBlock K.b h.buffer data (updStep K p) ⟨h.blockCounter, h.compressor, false⟩ = r at hR hB
  obtain ⟨bb, a⟩ := r
  simp only at hR hB
  subst hB
  cases hd : a.dead
  · rw [hd] at hR
    simp only [Bool.false_eq_true, if_false] at hR
    cases ho : t1.2 with
    | ok s =>
      rw [ho] at hR
      simp only [noMsg, Out.ok.injEq] at hR
      subst hR
      simp [Gen.Kernels.outOk, Gen.Kernels.outGet, hd, noMsg, groestlEnc]
    | err => rw [ho] at hR; simp [noMsg] at hR
    | panic w => rw [ho] at hR; simp [noMsg] at hR
  · rw [hd] at hR
    simp only [if_true] at hR
    cases ho : t1.2 with
    | ok s => rw [ho] at hR; simp [noMsg] at hR
    | err => rw [ho] at hR; simp [noMsg] at hR
    | panic w => simp [Gen.Kernels.outOk, hd, noMsg, bind_panic]

theorem groestl_update_glue_64 {C : Type} [Inhabited C] (K : Comp C) (hb : K.b = 64) (p : Profile) (h : Hasher C)
    (data : List (BitVec 8)) :
    noMsg (Gen.Kernels.groestl_update_256 K.input p h.buffer h.blockCounter h.compressor data)
      = noMsg (update K p h data >>= fun h' => .ok (groestlEnc h')) := by
  have := groestl_update_glue K p h data
  rw [hb] at this
  exact this

theorem groestl_update_glue_128 {C : Type} [Inhabited C] (K : Comp C) (hb : K.b = 128) (p : Profile) (h : Hasher C)
    (data : List (BitVec 8)) :
    noMsg (Gen.Kernels.groestl_update_512 K.input p h.buffer h.blockCounter h.compressor data)
      = noMsg (update K p h data >>= fun h' => .ok (groestlEnc h')) := by
  have := groestl_update_glue K p h data
  rw [hb] at this
  exact this

/-! ### `finalize_dirty` -/

/-- `finalize_dirty` of the model with its two checked additions spelled out -/
theorem groestl_finalizeDirty_eq {C : Type} (K : Comp C) (p : Profile) (h : Hasher C) :
    finalizeDirty K p h =
      (let one := if K.b - h.buffer.pos ≤ 8 then 1#64 else 0#64
       if p = .debug ∧ h.blockCounter.toNat + 1 ≥ 2 ^ 64 then .panic "attempt to add with overflow" else
       if p = .debug ∧ (h.blockCounter + 1#64).toNat + one.toNat ≥ 2 ^ 64 then .panic "attempt to add with overflow" else
       let r := len64PaddingBe K.b h.buffer (h.blockCounter + 1#64 + one) K.input h.compressor
       let f := K.finalizeDirty r.2
       .ok ({ h with buffer := r.1, compressor := f.1 }, f.2)) := by
  unfold finalizeDirty checkedAdd
  have e1 : (1#64).toNat = 1 := rfl
  simp only [BitVec.ofNat_eq_ofNat, e1]
  by_cases h1 : p = .debug ∧ h.blockCounter.toNat + 1 ≥ 2 ^ 64
  · rw [if_pos h1, if_pos h1]; rfl
  · rw [if_neg h1, if_neg h1, Out.bind_ok]
    by_cases h2 : p = .debug ∧ (h.blockCounter + 1#64).toNat + (if K.b - h.buffer.pos ≤ 8 then 1#64 else 0#64).toNat ≥ 2 ^ 64
    · rw [if_pos h2, if_pos h2]; rfl
    · rw [if_neg h2, if_neg h2, Out.bind_ok]; rfl

/-- `finalize_dirty` of the model either panics or returns the block of `Compressor::finalize_dirty`;
    the counter is left as it was -/
theorem groestl_finalizeDirty_cases {C : Type} (K : Comp C) (p : Profile) (h : Hasher C) :
    finalizeDirty K p h = .panic "attempt to add with overflow" ∨
    ∃ (bb : BB) (c : C), finalizeDirty K p h
      = .ok (⟨bb, h.blockCounter, (K.finalizeDirty c).1⟩, (K.finalizeDirty c).2) := by
  rw [groestl_finalizeDirty_eq]
  dsimp only
  generalize (if K.b - h.buffer.pos ≤ 8 then 1#64 else 0#64) = one
  by_cases h1 : p = .debug ∧ h.blockCounter.toNat + 1 ≥ 2 ^ 64
  · rw [if_pos h1]; exact .inl rfl
  · rw [if_neg h1]
    by_cases h2 : p = .debug ∧ (h.blockCounter + 1#64).toNat + one.toNat ≥ 2 ^ 64
    · rw [if_pos h2]; exact .inl rfl
    · rw [if_neg h2]; exact .inr ⟨_, _, rfl⟩

theorem groestl_finalize_dirty_glue_64 {C : Type} [Inhabited C] (K : Comp C) (hb : K.b = 64) (p : Profile) (h : Hasher C) :
    noMsg (Gen.Kernels.groestl_finalize_dirty_256 K.input K.finalizeDirty p h.buffer h.blockCounter h.compressor)
      = noMsg (finalizeDirty K p h >>= fun r => .ok (r.2, groestlEnc r.1)) := by
  rw [groestl_finalizeDirty_eq]
  unfold Gen.Kernels.groestl_finalize_dirty_256 Gen.Kernels.groestl_finalize_dirty_256_closure1
  have e1 : (1#64).toNat = 1 := rfl
  simp only [e1, hb, decide_eq_false_iff_not, decide_eq_true_eq, Nat.not_lt, ge_iff_le]
  by_cases h1 : p = .debug ∧ 2 ^ 64 ≤ h.blockCounter.toNat + 1
  · rw [if_pos h1, if_pos h1]; rfl
  · rw [if_neg h1, if_neg h1]
    by_cases h2 : p = .debug ∧ 2 ^ 64 ≤ (h.blockCounter + 1#64).toNat + (if 64 - h.buffer.pos ≤ 8 then 1#64 else 0#64).toNat
    · rw [if_pos h2, if_pos h2]; rfl
    · rw [if_neg h2, if_neg h2]; rfl

theorem groestl_finalize_dirty_glue_128 {C : Type} [Inhabited C] (K : Comp C) (hb : K.b = 128) (p : Profile) (h : Hasher C) :
    noMsg (Gen.Kernels.groestl_finalize_dirty_512 K.input K.finalizeDirty p h.buffer h.blockCounter h.compressor)
      = noMsg (finalizeDirty K p h >>= fun r => .ok (r.2, groestlEnc r.1)) := by
  rw [groestl_finalizeDirty_eq]
  unfold Gen.Kernels.groestl_finalize_dirty_512 Gen.Kernels.groestl_finalize_dirty_512_closure1
  have e1 : (1#64).toNat = 1 := rfl
  simp only [e1, hb, decide_eq_false_iff_not, decide_eq_true_eq, Nat.not_lt, ge_iff_le]
  by_cases h1 : p = .debug ∧ 2 ^ 64 ≤ h.blockCounter.toNat + 1
  · rw [if_pos h1, if_pos h1]; rfl
  · rw [if_neg h1, if_neg h1]
    by_cases h2 : p = .debug ∧ 2 ^ 64 ≤ (h.blockCounter + 1#64).toNat + (if 128 - h.buffer.pos ≤ 8 then 1#64 else 0#64).toNat
    · rw [if_pos h2, if_pos h2]; rfl
    · rw [if_neg h2, if_neg h2]; rfl

/-! ### the obligations, one per generated definition

  The private functions of the macro (`new_truncated`, `finalize_dirty`) are tied to `newTruncated` / `finalizeDirty`
  on `comp512` / `comp1024`; the trait methods of the four public types to `Any.default`, `Any.update`,
  `Any.finalizeIntoDirty`, `Any.reset` (the generated flat tuple is read back as the struct with `groestlDec`). -/

theorem groestl_comp512_b : comp512.b = 64 := rfl
theorem groestl_comp1024_b : comp1024.b = 128 := rfl

/-- the block returned by `Compressor512::finalize_dirty` is `transmute!(self.cv)`: eight words -/
theorem groestl_comp512_finalizeDirty_block (c : X4) : (comp512.finalizeDirty c).2 = X4.toBlock (of512_impl c) := rfl
theorem groestl_comp1024_finalizeDirty_block (c : X8) : (comp1024.finalizeDirty c).2 = X8.toBlock (of1024_impl c) := rfl

theorem src_groestl_new_truncated_256 (bits : BitVec 32) :
    groestlEnc (newTruncated comp512 bits.toNat) = Gen.Kernels.groestl_new_truncated_256 comp512.new bits :=
  groestl_new_truncated_glue_64 comp512 rfl bits

theorem src_groestl_new_truncated_512 (bits : BitVec 32) :
    groestlEnc (newTruncated comp1024 bits.toNat) = Gen.Kernels.groestl_new_truncated_512 comp1024.new bits :=
  groestl_new_truncated_glue_128 comp1024 rfl bits

theorem src_groestl_default_256 :
    Any.default .g256 = .g256 (groestlDec (Gen.Kernels.groestl_default_256 comp512.new)) := by
  unfold Gen.Kernels.groestl_default_256
  dsimp only
  rw [← src_groestl_new_truncated_256]
  rfl

theorem src_groestl_default_224 :
    Any.default .g224 = .g224 (groestlDec (Gen.Kernels.groestl_default_224 comp512.new)) := by
  unfold Gen.Kernels.groestl_default_224
  dsimp only
  rw [← src_groestl_new_truncated_256]
  rfl

theorem src_groestl_default_512 :
    Any.default .g512 = .g512 (groestlDec (Gen.Kernels.groestl_default_512 comp1024.new)) := by
  unfold Gen.Kernels.groestl_default_512
  dsimp only
  rw [← src_groestl_new_truncated_512]
  rfl

theorem src_groestl_default_384 :
    Any.default .g384 = .g384 (groestlDec (Gen.Kernels.groestl_default_384 comp1024.new)) := by
  unfold Gen.Kernels.groestl_default_384
  dsimp only
  rw [← src_groestl_new_truncated_512]
  rfl

theorem src_groestl_reset_256 (h : Hasher X4) :
    Any.reset (.g256 h)
      = .g256 (groestlDec (Gen.Kernels.groestl_reset_256 comp512.new h.buffer h.blockCounter h.compressor)) := by
  unfold Any.reset
  rw [src_groestl_default_256]
  rfl

/-- `self.0 = Groestl256::new_truncated(224)` -/
theorem src_groestl_reset_224 (h : Hasher X4) :
    Any.reset (.g224 h)
      = .g224 (groestlDec (Gen.Kernels.groestl_reset_224 comp512.new h.buffer h.blockCounter h.compressor)) := by
  unfold Gen.Kernels.groestl_reset_224
  dsimp only
  rw [← src_groestl_new_truncated_256]
  rfl

theorem src_groestl_reset_512 (h : Hasher X8) :
    Any.reset (.g512 h)
      = .g512 (groestlDec (Gen.Kernels.groestl_reset_512 comp1024.new h.buffer h.blockCounter h.compressor)) := by
  unfold Any.reset
  rw [src_groestl_default_512]
  rfl

theorem src_groestl_reset_384 (h : Hasher X8) :
    Any.reset (.g384 h)
      = .g384 (groestlDec (Gen.Kernels.groestl_reset_384 comp1024.new h.buffer h.blockCounter h.compressor)) := by
  unfold Any.reset
  rw [src_groestl_default_384]
  rfl

/-- `Any.update` on a constructor is `update` of the inner struct -/
theorem groestl_any_update_eq (p : Profile) (data : List (BitVec 8)) :
    (∀ h, Any.update p (.g224 h) data = (update comp512 p h data >>= fun h' => .ok (.g224 h'))) ∧
    (∀ h, Any.update p (.g256 h) data = (update comp512 p h data >>= fun h' => .ok (.g256 h'))) ∧
    (∀ h, Any.update p (.g384 h) data = (update comp1024 p h data >>= fun h' => .ok (.g384 h'))) ∧
    (∀ h, Any.update p (.g512 h) data = (update comp1024 p h data >>= fun h' => .ok (.g512 h'))) := by
  refine ⟨?_, ?_, ?_, ?_⟩ <;> intro h <;> unfold Any.update Any.updateRaw update <;> dsimp only
  all_goals (cases (updateRaw _ p h data).2 <;> rfl)

/-- transport of a Hasher-level obligation (`groestlEnc` on the model side) to the `Any` level (`groestlDec` on the generated
    side) -/
theorem groestl_noMsg_transport {C α : Type} (g : Out (BB × BitVec 64 × C)) (m : Out (Hasher C)) (k : Hasher C → α)
    (h : noMsg g = noMsg (m >>= fun h' => .ok (groestlEnc h'))) :
    noMsg (g >>= fun t => .ok (k (groestlDec t))) = noMsg (m >>= fun h' => .ok (k h')) := by
  cases m with
  | ok a =>
    cases g with
    | ok t => simp only [Out.bind_ok, noMsg, Out.ok.injEq] at h ⊢; rw [h]; rfl
    | err => simp [noMsg] at h
    | panic w => simp [noMsg] at h
  | err =>
    cases g with
    | ok t => simp [noMsg, bind_err] at h
    | err => rfl
    | panic w => simp [noMsg, bind_err] at h
  | panic w' =>
    cases g with
    | ok t => simp [noMsg, bind_panic] at h
    | err => simp [noMsg, bind_panic] at h
    | panic w => rfl

theorem src_groestl_update_256 (p : Profile) (h : Hasher X4) (data : List (BitVec 8)) :
    noMsg (Gen.Kernels.groestl_update_256 comp512.input p h.buffer h.blockCounter h.compressor data
        >>= fun t => .ok (Any.g256 (groestlDec t)))
      = noMsg (Any.update p (.g256 h) data) := by
  rw [(groestl_any_update_eq p data).2.1]
  exact groestl_noMsg_transport _ _ Any.g256 (groestl_update_glue_64 comp512 rfl p h data)

theorem src_groestl_update_512 (p : Profile) (h : Hasher X8) (data : List (BitVec 8)) :
    noMsg (Gen.Kernels.groestl_update_512 comp1024.input p h.buffer h.blockCounter h.compressor data
        >>= fun t => .ok (Any.g512 (groestlDec t)))
      = noMsg (Any.update p (.g512 h) data) := by
  rw [(groestl_any_update_eq p data).2.2.2]
  exact groestl_noMsg_transport _ _ Any.g512 (groestl_update_glue_128 comp1024 rfl p h data)

/-- a wrapper `digest::Update::update(&mut self.0, data)`: the callee's outcome, only the panic message differs -/
theorem groestl_noMsg_wrapper {α : Type} [Inhabited α] (x : Out α) (hx : x ≠ .err) :
    noMsg (if Gen.Kernels.outOk x = false then Out.panic "the callee panicked" else .ok (Gen.Kernels.outGet x))
      = noMsg x := by
  cases x with
  | ok a => rfl
  | err => exact absurd rfl hx
  | panic w => rfl

theorem groestl_update_256_ne_err {C : Type} [Inhabited C] (ci : C → List (BitVec 8) → C) (p : Profile) (b : BB)
    (c : BitVec 64) (k : C) (data : List (BitVec 8)) : Gen.Kernels.groestl_update_256 ci p b c k data ≠ .err := by
  unfold Gen.Kernels.groestl_update_256
  dsimp only
  split <;> simp

theorem groestl_update_512_ne_err {C : Type} [Inhabited C] (ci : C → List (BitVec 8) → C) (p : Profile) (b : BB)
    (c : BitVec 64) (k : C) (data : List (BitVec 8)) : Gen.Kernels.groestl_update_512 ci p b c k data ≠ .err := by
  unfold Gen.Kernels.groestl_update_512
  dsimp only
  split <;> simp

theorem src_groestl_update_224 (p : Profile) (h : Hasher X4) (data : List (BitVec 8)) :
    noMsg (Gen.Kernels.groestl_update_224 comp512.input p h.buffer h.blockCounter h.compressor data
        >>= fun t => .ok (Any.g224 (groestlDec t)))
      = noMsg (Any.update p (.g224 h) data) := by
  rw [(groestl_any_update_eq p data).1]
  refine groestl_noMsg_transport _ _ Any.g224 ?_
  rw [← groestl_update_glue_64 comp512 rfl p h data]
  exact groestl_noMsg_wrapper _ (groestl_update_256_ne_err _ _ _ _ _ _)

theorem src_groestl_update_384 (p : Profile) (h : Hasher X8) (data : List (BitVec 8)) :
    noMsg (Gen.Kernels.groestl_update_384 comp1024.input p h.buffer h.blockCounter h.compressor data
        >>= fun t => .ok (Any.g384 (groestlDec t)))
      = noMsg (Any.update p (.g384 h) data) := by
  rw [(groestl_any_update_eq p data).2.2.1]
  refine groestl_noMsg_transport _ _ Any.g384 ?_
  rw [← groestl_update_glue_128 comp1024 rfl p h data]
  exact groestl_noMsg_wrapper _ (groestl_update_512_ne_err _ _ _ _ _ _)

theorem src_groestl_finalize_dirty_256 (p : Profile) (h : Hasher X4) :
    noMsg (Gen.Kernels.groestl_finalize_dirty_256 comp512.input comp512.finalizeDirty p h.buffer h.blockCounter
        h.compressor)
      = noMsg (finalizeDirty comp512 p h >>= fun r => .ok (r.2, groestlEnc r.1)) :=
  groestl_finalize_dirty_glue_64 comp512 rfl p h

theorem src_groestl_finalize_dirty_512 (p : Profile) (h : Hasher X8) :
    noMsg (Gen.Kernels.groestl_finalize_dirty_512 comp1024.input comp1024.finalizeDirty p h.buffer h.blockCounter
        h.compressor)
      = noMsg (finalizeDirty comp1024 p h >>= fun r => .ok (r.2, groestlEnc r.1)) :=
  groestl_finalize_dirty_glue_128 comp1024 rfl p h

/-! ### `finalize_into_dirty` (`out` is overwritten completely: the result does not depend on it) -/

theorem src_groestl_finalize_into_dirty_256 (p : Profile) (h : Hasher X4) (out : List (BitVec 8)) :
    noMsg (Gen.Kernels.groestl_finalize_into_dirty_256 comp512.input comp512.finalizeDirty p h.buffer h.blockCounter
        h.compressor out >>= fun t => .ok (Any.g256 (groestlDec (t.1, t.2.1, t.2.2.1)), t.2.2.2))
      = noMsg (Any.finalizeIntoDirty p (.g256 h)) := by
  have hg := src_groestl_finalize_dirty_256 p h
  unfold Gen.Kernels.groestl_finalize_into_dirty_256
  dsimp only
  generalize Gen.Kernels.groestl_finalize_dirty_256 comp512.input comp512.finalizeDirty p h.buffer h.blockCounter
    h.compressor = fd at hg ⊢
  unfold Any.finalizeIntoDirty
  dsimp only
  rcases groestl_finalizeDirty_cases comp512 p h with hp | ⟨bb, c, hok⟩
  · rw [hp] at hg ⊢
    cases fd with
    | ok s => simp [noMsg, bind_panic] at hg
    | err => simp [noMsg, bind_panic] at hg
    | panic w => rfl
  · rw [hok] at hg ⊢
    cases fd with
    | ok s =>
      simp only [noMsg, Out.bind_ok, Out.ok.injEq] at hg
      subst hg
      simp [Gen.Kernels.outOk, Gen.Kernels.outGet, noMsg, groestlEnc, groestlDec, leWords, groestl_comp512_finalizeDirty_block, X4.toBlock]
    | err => simp [noMsg] at hg
    | panic w => simp [noMsg] at hg

theorem src_groestl_finalize_into_dirty_224 (p : Profile) (h : Hasher X4) (out : List (BitVec 8)) :
    noMsg (Gen.Kernels.groestl_finalize_into_dirty_224 comp512.input comp512.finalizeDirty p h.buffer h.blockCounter
        h.compressor out >>= fun t => .ok (Any.g224 (groestlDec (t.1, t.2.1, t.2.2.1)), t.2.2.2))
      = noMsg (Any.finalizeIntoDirty p (.g224 h)) := by
  have hg := src_groestl_finalize_dirty_256 p h
  unfold Gen.Kernels.groestl_finalize_into_dirty_224
  dsimp only
  generalize Gen.Kernels.groestl_finalize_dirty_256 comp512.input comp512.finalizeDirty p h.buffer h.blockCounter
    h.compressor = fd at hg ⊢
  unfold Any.finalizeIntoDirty
  dsimp only
  rcases groestl_finalizeDirty_cases comp512 p h with hp | ⟨bb, c, hok⟩
  · rw [hp] at hg ⊢
    cases fd with
    | ok s => simp [noMsg, bind_panic] at hg
    | err => simp [noMsg, bind_panic] at hg
    | panic w => rfl
  · rw [hok] at hg ⊢
    cases fd with
    | ok s =>
      simp only [noMsg, Out.bind_ok, Out.ok.injEq] at hg
      subst hg
      simp [Gen.Kernels.outOk, Gen.Kernels.outGet, noMsg, groestlEnc, groestlDec, leWords, groestl_comp512_finalizeDirty_block, X4.toBlock]
    | err => simp [noMsg] at hg
    | panic w => simp [noMsg] at hg

theorem src_groestl_finalize_into_dirty_512 (p : Profile) (h : Hasher X8) (out : List (BitVec 8)) :
    noMsg (Gen.Kernels.groestl_finalize_into_dirty_512 comp1024.input comp1024.finalizeDirty p h.buffer h.blockCounter
        h.compressor out >>= fun t => .ok (Any.g512 (groestlDec (t.1, t.2.1, t.2.2.1)), t.2.2.2))
      = noMsg (Any.finalizeIntoDirty p (.g512 h)) := by
  have hg := src_groestl_finalize_dirty_512 p h
  unfold Gen.Kernels.groestl_finalize_into_dirty_512
  dsimp only
  generalize Gen.Kernels.groestl_finalize_dirty_512 comp1024.input comp1024.finalizeDirty p h.buffer h.blockCounter
    h.compressor = fd at hg ⊢
  unfold Any.finalizeIntoDirty
  dsimp only
  rcases groestl_finalizeDirty_cases comp1024 p h with hp | ⟨bb, c, hok⟩
  · rw [hp] at hg ⊢
    cases fd with
    | ok s => simp [noMsg, bind_panic] at hg
    | err => simp [noMsg, bind_panic] at hg
    | panic w => rfl
  · rw [hok] at hg ⊢
    cases fd with
    | ok s =>
      simp only [noMsg, Out.bind_ok, Out.ok.injEq] at hg
      subst hg
      simp [Gen.Kernels.outOk, Gen.Kernels.outGet, noMsg, groestlEnc, groestlDec, leWords, groestl_comp1024_finalizeDirty_block, X8.toBlock]
    | err => simp [noMsg] at hg
    | panic w => simp [noMsg] at hg

theorem src_groestl_finalize_into_dirty_384 (p : Profile) (h : Hasher X8) (out : List (BitVec 8)) :
    noMsg (Gen.Kernels.groestl_finalize_into_dirty_384 comp1024.input comp1024.finalizeDirty p h.buffer h.blockCounter
        h.compressor out >>= fun t => .ok (Any.g384 (groestlDec (t.1, t.2.1, t.2.2.1)), t.2.2.2))
      = noMsg (Any.finalizeIntoDirty p (.g384 h)) := by
  have hg := src_groestl_finalize_dirty_512 p h
  unfold Gen.Kernels.groestl_finalize_into_dirty_384
  dsimp only
  generalize Gen.Kernels.groestl_finalize_dirty_512 comp1024.input comp1024.finalizeDirty p h.buffer h.blockCounter
    h.compressor = fd at hg ⊢
  unfold Any.finalizeIntoDirty
  dsimp only
  rcases groestl_finalizeDirty_cases comp1024 p h with hp | ⟨bb, c, hok⟩
  · rw [hp] at hg ⊢
    cases fd with
    | ok s => simp [noMsg, bind_panic] at hg
    | err => simp [noMsg, bind_panic] at hg
    | panic w => rfl
  · rw [hok] at hg ⊢
    cases fd with
    | ok s =>
      simp only [noMsg, Out.bind_ok, Out.ok.injEq] at hg
      subst hg
      simp [Gen.Kernels.outOk, Gen.Kernels.outGet, noMsg, groestlEnc, groestlDec, leWords, groestl_comp1024_finalizeDirty_block, X8.toBlock]
    | err => simp [noMsg] at hg
    | panic w => simp [noMsg] at hg

/-- the structs of lib.rs / compressor.rs: `$groestl { buffer, block_counter, compressor }` (model `Hasher`), the wrappers
    `Groestl224(Groestl256)`, `Groestl384(Groestl512)` (model `Any`), `Compressor512 { cv }` / `Compressor1024 { cv }`,
    `X4`, `X8`; `Clone` is derived everywhere (field-wise copy: a hand-written `Clone` makes the translator fail) -/
theorem src_groestl_structs :
    Gen.Kernels.groestl_structs =
      [("Groestl224", "struct", ["0"], ["Clone", "Debug"], ["Default"]),
       ("Groestl256", "struct", ["buffer", "block_counter", "compressor"], ["Clone"], ["Default"]),
       ("Groestl384", "struct", ["0"], ["Clone", "Debug"], ["Default"]),
       ("Groestl512", "struct", ["buffer", "block_counter", "compressor"], ["Clone"], ["Default"]),
       ("Compressor512", "struct", ["cv"], ["Clone"], []),
       ("Compressor1024", "struct", ["cv"], ["Clone"], []),
       ("X4", "struct", ["0", "1", "2", "3"], ["Clone", "Copy"], []),
       ("X8", "struct", ["0", "1", "2", "3", "4", "5", "6", "7"], ["Clone", "Copy"], [])] := rfl

end CC.Src
