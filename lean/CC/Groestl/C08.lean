/-
  CC.Groestl.C08 — the Grøstl model (`CC.Groestl.Model.Any`, the four public types) as instances of
  the generic incremental hash (`CC.Buffer.OutInstance`, eager buffer).

  chaining state σ = `BitVec 64 × C` (`block_counter`, `compressor`); the counter is bumped INSIDE the
  block closure (`*block_counter += 1`, checked in debug builds) — so it is part of `step`, and the
  overflow panic is threaded in `Out σ`.  No bound on the message length is assumed.
-/
import CC.Groestl.Model
import CC.Buffer.OutHash
namespace CC.Groestl.C08
open CC CC.Buffer CC.Groestl.Model

/-! ## at the level of `impl_digest!` (any compressor `K`) -/

section K
variable {C : Type} (K : Comp C) (p : Profile)

/-- the closure `|b| { *block_counter += 1; compressor.input(b) }` on `Out (counter × compressor)`. -/
def step (x : Out (BitVec 64 × C)) (blk : List (BitVec 8)) : Out (BitVec 64 × C) :=
  x >>= fun cc => checkedAdd p cc.1 1 >>= fun c => .ok (c, K.input cc.2 blk)

/-- `finalize_dirty` followed by the output selection `outf`, as a function of the chaining state and
    the live bytes only. -/
def fin (outf : List (BitVec 64) → List (BitVec 8)) (cc : BitVec 64 × C) (live : List (BitVec 8)) :
    Out (List (BitVec 8)) :=
  checkedAdd p cc.1 1 >>= fun c1 =>
  checkedAdd p c1 (if K.b - live.length ≤ 8 then 1#64 else 0#64) >>= fun count =>
  .ok (outf (K.finalizeDirty ((fullBlocks K.b (len64Padded K.b live count)).foldl K.input cc.2)).2)

def H (hb : 0 < K.b) (bits : Nat) (outf : List (BitVec 64) → List (BitVec 8)) :
    IncHash (Out (BitVec 64 × C)) (Out (List (BitVec 8))) where
  b := K.b
  hb := hb
  init := .ok ((newTruncated K bits).blockCounter, (newTruncated K bits).compressor)
  step := step K p
  fin := fun x live => x >>= fun cc => fin K p outf cc live

def packK (cc : BitVec 64 × C) (bb : BB) : Hasher C :=
  { buffer := bb, blockCounter := cc.1, compressor := cc.2 }

theorem checkedAdd_cases (a b : BitVec 64) :
    checkedAdd p a b = .ok (a + b) ∨ checkedAdd p a b = .panic "attempt to add with overflow" := by
  unfold checkedAdd
  split
  · exact Or.inr rfl
  · exact Or.inl rfl

/-- the model's accumulator (`dead` flag) against the `Out` chaining state. -/
def AccRel (a : Acc C) (x : Out (BitVec 64 × C)) : Prop :=
  if a.dead then x = .panic "attempt to add with overflow" else x = .ok (a.ctr, a.comp)

theorem updStep_rel (a : Acc C) (x : Out (BitVec 64 × C)) (blk : List (BitVec 8))
    (h : AccRel a x) : AccRel (updStep K p a blk) (step K p x blk) := by
  unfold AccRel at h
  by_cases hd : a.dead = true
  · rw [if_pos hd] at h
    subst h
    simp only [updStep, hd, if_true, AccRel]
    rfl
  · rw [if_neg hd] at h
    subst h
    simp only [updStep, hd]
    show AccRel _ (checkedAdd p a.ctr 1 >>= fun c => Out.ok (c, K.input a.comp blk))
    rcases checkedAdd_cases p a.ctr 1 with e | e
    · rw [e]; simp [AccRel]
    · rw [e]; simp [AccRel]; rfl

theorem update_eqK (hb : 0 < K.b) (bits : Nat) (outf : List (BitVec 64) → List (BitVec 8))
    (cc : BitVec 64 × C) (bb : BB) (data : List (BitVec 8)) :
    Model.update K p (packK cc bb) data
      = (IncHash.update .eager (H K p hb bits outf) ⟨.ok cc, bb⟩ data).st >>= fun c' =>
          .ok (packK c' (IncHash.update .eager (H K p hb bits outf) ⟨.ok cc, bb⟩ data).bb) := by
  show Model.update K p (packK cc bb) data
    = (inputBlock K.b bb data (step K p) (.ok cc)).2 >>= fun c' =>
        .ok (packK c' (inputBlock K.b bb data (step K p) (.ok cc)).1)
  obtain ⟨s₁, s₂⟩ := inputBlock_sim (b := K.b) (AccRel (C := C)) (updStep K p) (step K p)
    (fun a x blk h => updStep_rel K p a x blk h) bb data ⟨cc.1, cc.2, false⟩ (.ok cc)
    (by simp [AccRel])
  unfold AccRel at s₂
  unfold Model.update updateRaw
  simp only [packK]
  rw [← s₁]
  by_cases hd : (inputBlock K.b bb data (updStep K p) ⟨cc.1, cc.2, false⟩).2.dead = true
  · rw [if_pos hd] at s₂
    rw [s₂]
    simp only [hd, if_true]
    rfl
  · rw [if_neg hd] at s₂
    rw [s₂]
    simp only [hd]
    rfl

theorem finalize_eqH (hb8 : 8 ≤ K.b) (h : Hasher C) (hwf : WF K.b h.buffer) :
    finalizeDirty K p h
      = checkedAdd p h.blockCounter 1 >>= fun c1 =>
        checkedAdd p c1 (if K.b - (live h.buffer).length ≤ 8 then 1#64 else 0#64) >>= fun count =>
        .ok ({ h with
                buffer := (len64PaddingBe K.b h.buffer count K.input h.compressor).1
                compressor := (K.finalizeDirty
                  ((fullBlocks K.b (len64Padded K.b (live h.buffer) count)).foldl K.input h.compressor)).1 },
             (K.finalizeDirty
               ((fullBlocks K.b (len64Padded K.b (live h.buffer) count)).foldl K.input h.compressor)).2) := by
  have hl : (live h.buffer).length = h.buffer.pos := length_live hwf.toWFL
  unfold finalizeDirty
  rw [hl]
  cases checkedAdd p h.blockCounter 1 with
  | ok c1 =>
    simp only [Out.bind_ok]
    cases checkedAdd p c1 (if K.b - h.buffer.pos ≤ 8 then 1#64 else 0#64) with
    | ok count =>
      simp only [Out.bind_ok, Out.pure_eq]
      rw [(len64PaddingBe_spec hb8 hwf count K.input h.compressor).1]
    | err => rfl
    | panic w => rfl
  | err => rfl
  | panic w => rfl

theorem finalize_eqK (hb8 : 8 ≤ K.b) (cc : BitVec 64 × C) (bb : BB) (hwf : WF K.b bb) :
    finalizeDirty K p (packK cc bb)
      = checkedAdd p cc.1 1 >>= fun c1 =>
        checkedAdd p c1 (if K.b - (live bb).length ≤ 8 then 1#64 else 0#64) >>= fun count =>
        .ok ({ packK cc bb with
                buffer := (len64PaddingBe K.b bb count K.input cc.2).1
                compressor := (K.finalizeDirty
                  ((fullBlocks K.b (len64Padded K.b (live bb) count)).foldl K.input cc.2)).1 },
             (K.finalizeDirty ((fullBlocks K.b (len64Padded K.b (live bb) count)).foldl K.input cc.2)).2) :=
  finalize_eqH K p hb8 (packK cc bb) hwf

end K

/-! ## the four public types -/

def out224 (result : List (BitVec 64)) : List (BitVec 8) :=
  toLe32 (((result.getD 4 0) >>> 32).setWidth 32) ++ leWords ((result.drop 5).take 3)
def out256 (result : List (BitVec 64)) : List (BitVec 8) := leWords (result.drop (512 / 128))
def out384 (result : List (BitVec 64)) : List (BitVec 8) := leWords (result.drop 10)
def out512 (result : List (BitVec 64)) : List (BitVec 8) := leWords (result.drop (1024 / 128))

/-- `new_truncated` argument of each type's `Default`. -/
def tbits : Variant → Nat
  | .g224 => 224 | .g256 => 512 / 2 | .g384 => 384 | .g512 => 1024 / 2

theorem bind_ok_eq {α β} {x : Out α} {a : α} (h : x = .ok a) (f : α → Out β) : (x >>= f) = f a := by
  rw [h]; rfl
theorem bind_panic_eq {α β} {x : Out α} {w : String} (h : x = .panic w) (f : α → Out β) :
    (x >>= f) = .panic w := by
  rw [h]; rfl
theorem bind_err_eq {α β} {x : Out α} (h : x = .err) (f : α → Out β) : (x >>= f) = .err := by
  rw [h]; rfl

section Inst
variable (p : Profile)

/-- instance builder shared by the four types: `wrap` is the `Any` constructor. -/
def mkInst {C : Type} (K : Comp C) (hb8 : 8 ≤ K.b) (bits : Nat) (outf : List (BitVec 64) → List (BitVec 8))
    (wrap : Hasher C → Any) (dflt : Any)
    (hdflt : dflt = wrap (newTruncated K bits))
    (hreset : ∀ h, (wrap h).reset = dflt)
    (hupd : ∀ h d, (wrap h).update p d = Model.update K p h d >>= fun h' => .ok (wrap h'))
    (hfin : ∀ h, (wrap h).finalizeIntoDirty p
              = finalizeDirty K p h >>= fun r => .ok (wrap r.1, outf r.2)) :
    OutInstance .eager Any (BitVec 64 × C) (List (BitVec 8)) where
  H := H K p (by omega) bits outf
  init0 := ((newTruncated K bits).blockCounter, (newTruncated K bits).compressor)
  init_eq := rfl
  step_err := fun _ => rfl
  step_panic := fun _ _ => rfl
  pre_err := fun _ => rfl
  pre_panic := fun _ _ => rfl
  fin_err := fun _ => rfl
  fin_panic := fun _ _ => rfl
  start := .ok dflt
  update := fun a d => a.update p d
  finalize := fun a => a.finalize p
  reset := fun a => .ok a.reset
  finreset := fun a => a.finalizeReset p
  pack := fun cc bb => wrap (packK cc bb)
  start_eq := by rw [hdflt]; rfl
  update_eq := by
    intro cc bb d
    rw [hupd, update_eqK K p (by omega) bits outf cc bb d]
    cases (IncHash.update .eager (H K p (by omega) bits outf) ⟨.ok cc, bb⟩ d).st <;> rfl
  finalize_eq := by
    intro cc bb hwf
    show (wrap (packK cc bb)).finalize p = fin K p outf cc (live bb)
    unfold Any.finalize
    rw [hfin, finalize_eqK K p hb8 cc bb hwf]
    unfold fin
    rcases checkedAdd_cases p cc.1 1 with e | e
    · rw [e]
      simp only [Out.bind_ok]
      rcases checkedAdd_cases p (cc.1 + 1) (if K.b - (live bb).length ≤ 8 then 1#64 else 0#64) with e2 | e2
      · rw [e2]; rfl
      · rw [e2]; rfl
    · rw [e]; rfl
  reset_eq := by intro cc bb; rw [hreset]
  finreset_eq := by
    intro cc bb
    show (wrap (packK cc bb)).finalizeReset p = _
    unfold Any.finalizeReset Any.finalize
    rw [hfin]
    cases finalizeDirty K p (packK cc bb) with
    | ok r => show Out.ok ((wrap r.1).reset, outf r.2) = _; rw [hreset]; rfl
    | err => rfl
    | panic w => rfl

theorem upd_g224 (h : Hasher X4) (d : List (BitVec 8)) :
    (Any.g224 h).update p d = Model.update comp512 p h d >>= fun h' => .ok (Any.g224 h') := by
  obtain ⟨x, dead, hr⟩ : ∃ x dead, updateRaw comp512 p h d = (x, dead) := ⟨_, _, rfl⟩
  simp only [Any.update, Any.updateRaw, Model.update, hr]
  cases dead <;> rfl
theorem upd_g256 (h : Hasher X4) (d : List (BitVec 8)) :
    (Any.g256 h).update p d = Model.update comp512 p h d >>= fun h' => .ok (Any.g256 h') := by
  obtain ⟨x, dead, hr⟩ : ∃ x dead, updateRaw comp512 p h d = (x, dead) := ⟨_, _, rfl⟩
  simp only [Any.update, Any.updateRaw, Model.update, hr]
  cases dead <;> rfl
theorem upd_g384 (h : Hasher X8) (d : List (BitVec 8)) :
    (Any.g384 h).update p d = Model.update comp1024 p h d >>= fun h' => .ok (Any.g384 h') := by
  obtain ⟨x, dead, hr⟩ : ∃ x dead, updateRaw comp1024 p h d = (x, dead) := ⟨_, _, rfl⟩
  simp only [Any.update, Any.updateRaw, Model.update, hr]
  cases dead <;> rfl
theorem upd_g512 (h : Hasher X8) (d : List (BitVec 8)) :
    (Any.g512 h).update p d = Model.update comp1024 p h d >>= fun h' => .ok (Any.g512 h') := by
  obtain ⟨x, dead, hr⟩ : ∃ x dead, updateRaw comp1024 p h d = (x, dead) := ⟨_, _, rfl⟩
  simp only [Any.update, Any.updateRaw, Model.update, hr]
  cases dead <;> rfl

theorem fin_g224 (h : Hasher X4) :
    (Any.g224 h).finalizeIntoDirty p
      = finalizeDirty comp512 p h >>= fun r => .ok (Any.g224 r.1, out224 r.2) := by
  simp only [Any.finalizeIntoDirty]
  cases finalizeDirty comp512 p h with
  | ok r => obtain ⟨h', res⟩ := r; rfl
  | err => rfl
  | panic w => rfl
theorem fin_g256 (h : Hasher X4) :
    (Any.g256 h).finalizeIntoDirty p
      = finalizeDirty comp512 p h >>= fun r => .ok (Any.g256 r.1, out256 r.2) := by
  simp only [Any.finalizeIntoDirty]
  cases finalizeDirty comp512 p h with
  | ok r => obtain ⟨h', res⟩ := r; rfl
  | err => rfl
  | panic w => rfl
theorem fin_g384 (h : Hasher X8) :
    (Any.g384 h).finalizeIntoDirty p
      = finalizeDirty comp1024 p h >>= fun r => .ok (Any.g384 r.1, out384 r.2) := by
  simp only [Any.finalizeIntoDirty]
  cases finalizeDirty comp1024 p h with
  | ok r => obtain ⟨h', res⟩ := r; rfl
  | err => rfl
  | panic w => rfl
theorem fin_g512 (h : Hasher X8) :
    (Any.g512 h).finalizeIntoDirty p
      = finalizeDirty comp1024 p h >>= fun r => .ok (Any.g512 r.1, out512 r.2) := by
  simp only [Any.finalizeIntoDirty]
  cases finalizeDirty comp1024 p h with
  | ok r => obtain ⟨h', res⟩ := r; rfl
  | err => rfl
  | panic w => rfl

def inst224 : OutInstance .eager Any (BitVec 64 × X4) (List (BitVec 8)) :=
  mkInst p comp512 (by decide) 224 out224 Any.g224 (Any.default .g224) rfl (fun _ => rfl)
    (upd_g224 p) (fin_g224 p)
def inst256 : OutInstance .eager Any (BitVec 64 × X4) (List (BitVec 8)) :=
  mkInst p comp512 (by decide) (512 / 2) out256 Any.g256 (Any.default .g256) rfl (fun _ => rfl)
    (upd_g256 p) (fin_g256 p)
def inst384 : OutInstance .eager Any (BitVec 64 × X8) (List (BitVec 8)) :=
  mkInst p comp1024 (by decide) 384 out384 Any.g384 (Any.default .g384) rfl (fun _ => rfl)
    (upd_g384 p) (fin_g384 p)
def inst512 : OutInstance .eager Any (BitVec 64 × X8) (List (BitVec 8)) :=
  mkInst p comp1024 (by decide) (1024 / 2) out512 Any.g512 (Any.default .g512) rfl (fun _ => rfl)
    (upd_g512 p) (fin_g512 p)

/-- the lifted model of each of the four types (`OutInstance.machine`). -/
def machine : Variant → Machine (Out Any) (Out (List (BitVec 8)))
  | .g224 => (inst224 p).machine
  | .g256 => (inst256 p).machine
  | .g384 => (inst384 p).machine
  | .g512 => (inst512 p).machine

/-- the generic one-shot digest of each instance. -/
def gdigest : Variant → List (BitVec 8) → Out (List (BitVec 8))
  | .g224 => (inst224 p).digest
  | .g256 => (inst256 p).digest
  | .g384 => (inst384 p).digest
  | .g512 => (inst512 p).digest

/-- … is the model's `digest`. -/
theorem gdigest_eq (v : Variant) : gdigest p v = Model.digest p v := by
  funext bytes
  cases v
  · exact (inst224 p).digest_eq_oneshot bytes
  · exact (inst256 p).digest_eq_oneshot bytes
  · exact (inst384 p).digest_eq_oneshot bytes
  · exact (inst512 p).digest_eq_oneshot bytes

end Inst
end CC.Groestl.C08
