/-
  CC.Groestl.SrcDataflow — SOURCE TIE for the Grøstl AES-NI compressor (property C07): the intrinsic dataflow of every
  function of hashes/groestl/src/compressor.rs (`mul2`, `submix`, the transposes, `round`, `rounds_p_q`, `tf512_impl`,
  `of512_impl`, `init512_impl`, `transpose`, `transpose_inv`, `rounds_p`, `rounds_q`, `init1024_impl`, `tf1024_impl`,
  `of1024_impl`) and `Compressor512` / `Compressor1024` of lib.rs, as regenerated from the Rust on every run by
  tools/inventory_hashc.py into `CC.Gen.HashCSrc` (closures, `X4` / `X8` `map` / `shuffle` / `rotl*` / `BitXor` inlined,
  the constant loops unrolled, calls of translated functions kept), equals the hand-written model `CC.Groestl.Model`.
-/
import CC.Gen.HashCSrc
import CC.Groestl.Model
namespace CC.Src
open CC CC.Groestl.Intrin CC.Groestl.Model

def g4Of (t : BitVec 128 × BitVec 128 × BitVec 128 × BitVec 128) : X4 := ⟨t.1, t.2.1, t.2.2.1, t.2.2.2⟩
def g8Of (t : BitVec 128 × BitVec 128 × BitVec 128 × BitVec 128 × BitVec 128 × BitVec 128 × BitVec 128 × BitVec 128) : X8 :=
  ⟨t.1, t.2.1, t.2.2.1, t.2.2.2.1, t.2.2.2.2.1, t.2.2.2.2.2.1, t.2.2.2.2.2.2.1, t.2.2.2.2.2.2.2⟩

theorem src_groestl_df_hashc_clean : Gen.HashCSrc.groestl_hashc_errors = [] := rfl

theorem src_groestl_df_mul2 : mul2 = Gen.HashCSrc.groestl_mul2 := rfl

theorem src_groestl_df_submix :
    submix = fun a => g8Of (Gen.HashCSrc.groestl_submix a.r0 a.r1 a.r2 a.r3 a.r4 a.r5 a.r6 a.r7) := rfl

theorem src_groestl_df_transpose_a :
    transpose_a = fun a => g4Of (Gen.HashCSrc.groestl_transpose_a a.r0 a.r1 a.r2 a.r3) := rfl

theorem src_groestl_df_transpose_b :
    transpose_b = fun a => g8Of (Gen.HashCSrc.groestl_transpose_b a.r0 a.r1 a.r2 a.r3 a.r4 a.r5 a.r6 a.r7) := rfl

theorem src_groestl_df_transpose_b_inv :
    transpose_b_inv = fun a => g8Of (Gen.HashCSrc.groestl_transpose_b_inv a.r0 a.r1 a.r2 a.r3 a.r4 a.r5 a.r6 a.r7) := rfl

theorem src_groestl_df_transpose_o_b :
    transpose_o_b = fun a => g8Of (Gen.HashCSrc.groestl_transpose_o_b a.r0 a.r1 a.r2 a.r3) := rfl

theorem src_groestl_df_transpose_o_b_inv :
    transpose_o_b_inv = fun a => g4Of (Gen.HashCSrc.groestl_transpose_o_b_inv a.r0 a.r1 a.r2 a.r3 a.r4 a.r5 a.r6 a.r7) := rfl

theorem src_groestl_df_round :
    round = fun i a => g8Of (Gen.HashCSrc.groestl_round i a.r0 a.r1 a.r2 a.r3 a.r4 a.r5 a.r6 a.r7) := rfl

attribute [local irreducible] Gen.HashCSrc.groestl_round
theorem src_groestl_df_rounds_p_q :
    rounds_p_q = fun a => g8Of (Gen.HashCSrc.groestl_rounds_p_q a.r0 a.r1 a.r2 a.r3 a.r4 a.r5 a.r6 a.r7) := by
  funext a
  simp only [rounds_p_q, src_groestl_df_round]
  rfl

attribute [local irreducible] Gen.HashCSrc.groestl_transpose_a
attribute [local irreducible] Gen.HashCSrc.groestl_transpose_b
attribute [local irreducible] Gen.HashCSrc.groestl_rounds_p_q
attribute [local irreducible] Gen.HashCSrc.groestl_transpose_b_inv
theorem src_groestl_df_tf512_impl :
    tf512_impl = fun a data => g4Of (Gen.HashCSrc.groestl_tf512_impl a.r0 a.r1 a.r2 a.r3 data) := by
  funext a data
  simp only [tf512_impl, src_groestl_df_transpose_a, src_groestl_df_transpose_b, src_groestl_df_rounds_p_q, src_groestl_df_transpose_b_inv]
  rfl

attribute [local irreducible] Gen.HashCSrc.groestl_transpose_o_b
attribute [local irreducible] Gen.HashCSrc.groestl_transpose_o_b_inv
theorem src_groestl_df_of512_impl :
    of512_impl = fun a => g4Of (Gen.HashCSrc.groestl_of512_impl a.r0 a.r1 a.r2 a.r3) := by
  funext a
  simp only [of512_impl, src_groestl_df_transpose_o_b, src_groestl_df_transpose_o_b_inv, src_groestl_df_rounds_p_q, src_groestl_df_transpose_a]
  rfl

theorem src_groestl_df_init512_impl :
    init512_impl = fun a => g4Of (Gen.HashCSrc.groestl_init512_impl a.r0 a.r1 a.r2 a.r3) := by
  funext a
  simp only [init512_impl, src_groestl_df_transpose_a]
  rfl

theorem src_groestl_df_transpose :
    transpose = fun a => g8Of (Gen.HashCSrc.groestl_transpose a.r0 a.r1 a.r2 a.r3 a.r4 a.r5 a.r6 a.r7) := rfl

theorem src_groestl_df_transpose_inv :
    transpose_inv = fun a => g8Of (Gen.HashCSrc.groestl_transpose_inv a.r0 a.r1 a.r2 a.r3 a.r4 a.r5 a.r6 a.r7) := rfl

attribute [local irreducible] Gen.HashCSrc.groestl_submix
set_option maxRecDepth 16384 in
theorem src_groestl_df_rounds_p :
    rounds_p = fun a => g8Of (Gen.HashCSrc.groestl_rounds_p a.r0 a.r1 a.r2 a.r3 a.r4 a.r5 a.r6 a.r7) := by
  funext a
  simp only [rounds_p, stepP, src_groestl_df_submix]
  rfl

set_option maxRecDepth 16384 in
theorem src_groestl_df_rounds_q :
    rounds_q = fun a => g8Of (Gen.HashCSrc.groestl_rounds_q a.r0 a.r1 a.r2 a.r3 a.r4 a.r5 a.r6 a.r7) := by
  funext a
  simp only [rounds_q, stepQ, src_groestl_df_submix, List.range, List.range.loop, List.foldl, maskQ1024, maskP1024,
    X8.shuffle, X8.get, X8.map2, X8.xor, g8Of]
  rfl

theorem src_groestl_df_init1024_impl :
    init1024_impl = fun a => g8Of (Gen.HashCSrc.groestl_init1024_impl a.r0 a.r1 a.r2 a.r3 a.r4 a.r5 a.r6 a.r7) := by
  funext a
  simp only [init1024_impl, src_groestl_df_transpose]
  rfl

attribute [local irreducible] Gen.HashCSrc.groestl_transpose
attribute [local irreducible] Gen.HashCSrc.groestl_rounds_p
attribute [local irreducible] Gen.HashCSrc.groestl_rounds_q
theorem src_groestl_df_tf1024_impl :
    tf1024_impl = fun a data => g8Of (Gen.HashCSrc.groestl_tf1024_impl a.r0 a.r1 a.r2 a.r3 a.r4 a.r5 a.r6 a.r7 data) := by
  funext a data
  simp only [tf1024_impl, src_groestl_df_transpose, src_groestl_df_rounds_p, src_groestl_df_rounds_q]
  rfl

attribute [local irreducible] Gen.HashCSrc.groestl_transpose_inv
theorem src_groestl_df_of1024_impl :
    of1024_impl = fun a => g8Of (Gen.HashCSrc.groestl_of1024_impl a.r0 a.r1 a.r2 a.r3 a.r4 a.r5 a.r6 a.r7) := by
  funext a
  simp only [of1024_impl, src_groestl_df_rounds_p, src_groestl_df_transpose_inv]
  rfl

/-! ## lib.rs: `Compressor512`, `Compressor1024` (`transmute!` / the `CvBytes1024` union between `[u64; n]` and the vectors) -/

attribute [local irreducible] Gen.HashCSrc.groestl_init512_impl
attribute [local irreducible] Gen.HashCSrc.groestl_tf512_impl
attribute [local irreducible] Gen.HashCSrc.groestl_of512_impl
attribute [local irreducible] Gen.HashCSrc.groestl_init1024_impl
attribute [local irreducible] Gen.HashCSrc.groestl_tf1024_impl
attribute [local irreducible] Gen.HashCSrc.groestl_of1024_impl
theorem src_groestl_df_compressor512_new :
    comp512.new = fun block => g4Of (Gen.HashCSrc.groestl_compressor512_new block) := by
  funext block
  simp only [comp512, src_groestl_df_init512_impl]
  rfl
theorem src_groestl_df_compressor512_input :
    comp512.input = fun a data => g4Of (Gen.HashCSrc.groestl_compressor512_input a.r0 a.r1 a.r2 a.r3 data) := by
  funext a data
  simp only [comp512, src_groestl_df_tf512_impl]
  rfl
/-- result of the generated `finalize_dirty`: the returned block (eight words), then `*self` -/
def fin512Of (t : BitVec 64 × BitVec 64 × BitVec 64 × BitVec 64 × BitVec 64 × BitVec 64 × BitVec 64 × BitVec 64 ×
    BitVec 128 × BitVec 128 × BitVec 128 × BitVec 128) : X4 × List (BitVec 64) :=
  (g4Of t.2.2.2.2.2.2.2.2,
   [t.1, t.2.1, t.2.2.1, t.2.2.2.1, t.2.2.2.2.1, t.2.2.2.2.2.1, t.2.2.2.2.2.2.1, t.2.2.2.2.2.2.2.1])
theorem src_groestl_df_compressor512_finalize_dirty :
    comp512.finalizeDirty = fun a => fin512Of (Gen.HashCSrc.groestl_compressor512_finalize_dirty a.r0 a.r1 a.r2 a.r3) := by
  funext a
  simp only [comp512, src_groestl_df_of512_impl]
  rfl

theorem src_groestl_df_compressor1024_new :
    comp1024.new = fun block => g8Of (Gen.HashCSrc.groestl_compressor1024_new block) := by
  funext block
  simp only [comp1024, src_groestl_df_init1024_impl]
  rfl
theorem src_groestl_df_compressor1024_input :
    comp1024.input = fun a data =>
      g8Of (Gen.HashCSrc.groestl_compressor1024_input a.r0 a.r1 a.r2 a.r3 a.r4 a.r5 a.r6 a.r7 data) := by
  funext a data
  simp only [comp1024, src_groestl_df_tf1024_impl]
  rfl
def fin1024Of (t : BitVec 64 × BitVec 64 × BitVec 64 × BitVec 64 × BitVec 64 × BitVec 64 × BitVec 64 × BitVec 64 ×
    BitVec 64 × BitVec 64 × BitVec 64 × BitVec 64 × BitVec 64 × BitVec 64 × BitVec 64 × BitVec 64 ×
    BitVec 128 × BitVec 128 × BitVec 128 × BitVec 128 × BitVec 128 × BitVec 128 × BitVec 128 × BitVec 128) :
    X8 × List (BitVec 64) :=
  (g8Of t.2.2.2.2.2.2.2.2.2.2.2.2.2.2.2.2,
   [t.1, t.2.1, t.2.2.1, t.2.2.2.1, t.2.2.2.2.1, t.2.2.2.2.2.1, t.2.2.2.2.2.2.1, t.2.2.2.2.2.2.2.1,
    t.2.2.2.2.2.2.2.2.1, t.2.2.2.2.2.2.2.2.2.1, t.2.2.2.2.2.2.2.2.2.2.1, t.2.2.2.2.2.2.2.2.2.2.2.1,
    t.2.2.2.2.2.2.2.2.2.2.2.2.1, t.2.2.2.2.2.2.2.2.2.2.2.2.2.1, t.2.2.2.2.2.2.2.2.2.2.2.2.2.2.1,
    t.2.2.2.2.2.2.2.2.2.2.2.2.2.2.2.1])
theorem src_groestl_df_compressor1024_finalize_dirty :
    comp1024.finalizeDirty = fun a =>
      fin1024Of (Gen.HashCSrc.groestl_compressor1024_finalize_dirty a.r0 a.r1 a.r2 a.r3 a.r4 a.r5 a.r6 a.r7) := by
  funext a
  simp only [comp1024, src_groestl_df_of1024_impl]
  rfl

/-- the functions of the modules `aes`, `ssse3`, `sse2` are nothing but calls of the `*_impl` functions translated above
    (this is what `Compressor*` calling `tf512` … ↦ `tf512_impl` … assumes), `autodetect` calls one of them through `IMPL` -/
theorem src_groestl_df_wrappers :
    Gen.HashCSrc.groestl_wrappers = [
  ("aes", "tf512", "tf512_impl ( cv , data )"),
  ("aes", "of512", "of512_impl ( cv )"),
  ("aes", "init512", "init512_impl ( cv )"),
  ("aes", "tf1024", "tf1024_impl ( cv , data )"),
  ("aes", "of1024", "of1024_impl ( cv )"),
  ("aes", "init1024", "init1024_impl ( cv )"),
  ("ssse3", "tf512", "tf512_impl ( cv , data )"),
  ("ssse3", "of512", "of512_impl ( cv )"),
  ("ssse3", "tf1024", "tf1024_impl ( cv , data )"),
  ("ssse3", "of1024", "of1024_impl ( cv )"),
  ("sse2", "tf512", "tf512_impl ( cv , data )"),
  ("sse2", "of512", "of512_impl ( cv )"),
  ("sse2", "init512", "init512_impl ( cv )"),
  ("sse2", "tf1024", "tf1024_impl ( cv , data )"),
  ("sse2", "of1024", "of1024_impl ( cv )"),
  ("sse2", "init1024", "init1024_impl ( cv )"),
  ("autodetect", "tf512", "dispatch ! ( tf512 , Tf < X4 > ) ; unsafe { IMPL ( cv , data . as_ptr ( ) ) }"),
  ("autodetect", "of512", "dispatch ! ( of512 , Of < X4 > ) ; unsafe { IMPL ( cv ) }"),
  ("autodetect", "init512", "dispatch ! ( init512 , Init < X4 > ) ; unsafe { IMPL ( cv ) }"),
  ("autodetect", "tf1024", "dispatch ! ( tf1024 , Tf < X8 > ) ; unsafe { IMPL ( cv , data . as_ptr ( ) ) }"),
  ("autodetect", "of1024", "dispatch ! ( of1024 , Of < X8 > ) ; unsafe { IMPL ( cv ) }"),
  ("autodetect", "init1024", "dispatch ! ( init1024 , Init < X8 > ) ; unsafe { IMPL ( cv ) }")] := rfl

end CC.Src
