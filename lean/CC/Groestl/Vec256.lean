/-
  CC.Groestl.Vec256 — official test vector Grøstl-256("") evaluated in the kernel, for the
  specification and for the implementation model (about 1.5 min / 6 GB each; kept in its own
  module so that it is built once and in parallel with the proofs).
-/
import CC.Groestl.Spec
import CC.Groestl.Model
namespace CC.Groestl
open CC

/-- value of an outcome, if it is `ok` -/
def outOpt {α} : Out α → Option α
  | .ok a => some a
  | _ => none

theorem spec_256_empty :
    some (Spec.groestl 256 []) =
      bytesOfHex "1a52d11d550039be16107f9c58db9ebcc417f16f736adb2502567119f0083467" := by
  decide +kernel

theorem model_256_empty :
    outOpt (Model.digest .debug .g256 []) =
      bytesOfHex "1a52d11d550039be16107f9c58db9ebcc417f16f736adb2502567119f0083467" := by
  decide +kernel

end CC.Groestl
