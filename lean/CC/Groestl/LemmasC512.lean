/-
  CC.Groestl.LemmasC512 — layers (b),(c) for the 512-bit state (`Compressor512`, Grøstl-224/256):
  representation invariant, `round = (P-round × Q-round)`, `tf512 = f`, `of512 = Ω`.
-/
import Std.Tactic.BVDecide
import CC.Groestl.LemmasB
import CC.Groestl.LemmasD
namespace CC.Groestl
open CC CC.Groestl.Intrin CC.Groestl.Model

/-! ## the 512-bit register layout -/

/-- a register holding one 8-byte row in its low and another in its high half -/
def regPQ (fP fQ : Nat → BitVec 8) : BitVec 128 := ofFn16 fun p => if p < 8 then fP p else fQ (p - 8)

/-- after `transpose_b`: register `i` = row `i` of the P state (low) and of the Q state (high) -/
def repPQ (gP gQ : Nat → Nat → BitVec 8) : X8 :=
  ⟨regPQ (gP 0) (gQ 0), regPQ (gP 1) (gQ 1), regPQ (gP 2) (gQ 2), regPQ (gP 3) (gQ 3),
   regPQ (gP 4) (gQ 4), regPQ (gP 5) (gQ 5), regPQ (gP 6) (gQ 6), regPQ (gP 7) (gQ 7)⟩

/-- after `transpose_a`: register `k` = rows `2k` (low) and `2k+1` (high) of one state -/
def rowsX4 (g : Nat → Nat → BitVec 8) : X4 :=
  ⟨regPQ (g 0) (g 1), regPQ (g 2) (g 3), regPQ (g 4) (g 5), regPQ (g 6) (g 7)⟩

theorem regPQ_congr {f f' g g' : Nat → BitVec 8} (hf : ∀ c, c < 8 → f c = f' c)
    (hg : ∀ c, c < 8 → g c = g' c) : regPQ f g = regPQ f' g' := by
  unfold regPQ
  apply ofFn16_congr
  intro p hp
  by_cases h : p < 8
  · simp only [h, if_true]; exact hf p h
  · simp only [h, if_false]; exact hg _ (by omega)

theorem regPQ_xor (f g f' g' : Nat → BitVec 8) :
    regPQ f g ^^^ regPQ f' g' = regPQ (fun c => f c ^^^ f' c) (fun c => g c ^^^ g' c) := by
  unfold regPQ
  rw [ofFn16_xor]
  congr 1
  funext p
  split <;> rfl

theorem regPQ_pack (f g : Nat → BitVec 8) :
    regPQ f g = pack16 (f 0) (f 1) (f 2) (f 3) (f 4) (f 5) (f 6) (f 7)
                       (g 0) (g 1) (g 2) (g 3) (g 4) (g 5) (g 6) (g 7) := by
  simp [regPQ, ofFn16]

theorem unpacklo_regPQ (a b c d : Nat → BitVec 8) :
    mm_unpacklo_epi64 (regPQ a b) (regPQ c d) = regPQ a c := by
  simp only [regPQ_pack, mm_unpacklo_epi64, qword, pack16]
  bv_decide

theorem unpackhi_regPQ (a b c d : Nat → BitVec 8) :
    mm_unpackhi_epi64 (regPQ a b) (regPQ c d) = regPQ b d := by
  simp only [regPQ_pack, mm_unpackhi_epi64, qword, pack16]
  bv_decide

theorem unpacklo_regPQ_zero (a b : Nat → BitVec 8) :
    mm_unpacklo_epi64 (regPQ a b) (mm_cvtsi64_si128 0#64) = regPQ a (fun _ => 0#8) := by
  simp only [regPQ_pack, mm_unpacklo_epi64, mm_cvtsi64_si128, qword, pack16]
  bv_decide

theorem unpackhi_regPQ_zero (a b : Nat → BitVec 8) :
    mm_unpackhi_epi64 (regPQ a b) (mm_cvtsi64_si128 0#64) = regPQ b (fun _ => 0#8) := by
  simp only [regPQ_pack, mm_unpackhi_epi64, mm_cvtsi64_si128, qword, pack16]
  bv_decide

/-! ## MixBytes per byte -/

/-- row 0 of `circ(02,02,03,04,05,03,05,07)` on eight bytes, written with `xtime` like `mixLin` -/
def mixByte (x0 x1 x2 x3 x4 x5 x6 x7 : BitVec 8) : BitVec 8 :=
  Spec.xtime x0 ^^^ Spec.xtime x1 ^^^ (Spec.xtime x2 ^^^ x2) ^^^ Spec.xtime (Spec.xtime x3) ^^^
    (Spec.xtime (Spec.xtime x4) ^^^ x4) ^^^ (Spec.xtime x5 ^^^ x5) ^^^ (Spec.xtime (Spec.xtime x6) ^^^ x6) ^^^
    (Spec.xtime (Spec.xtime x7) ^^^ Spec.xtime x7 ^^^ x7)

theorem mixLin_ofFn16 (f0 f1 f2 f3 f4 f5 f6 f7 : Nat → BitVec 8) :
    mixLin (ofFn16 f0) (ofFn16 f1) (ofFn16 f2) (ofFn16 f3) (ofFn16 f4) (ofFn16 f5) (ofFn16 f6) (ofFn16 f7) =
      ofFn16 fun p => mixByte (f0 p) (f1 p) (f2 p) (f3 p) (f4 p) (f5 p) (f6 p) (f7 p) := by
  simp only [mixLin, m3, m4, m5, m7, m2_ofFn16, ofFn16_xor, mixByte]

theorem mixLin_regPQ (f0 f1 f2 f3 f4 f5 f6 f7 g0 g1 g2 g3 g4 g5 g6 g7 : Nat → BitVec 8) :
    mixLin (regPQ f0 g0) (regPQ f1 g1) (regPQ f2 g2) (regPQ f3 g3) (regPQ f4 g4) (regPQ f5 g5)
        (regPQ f6 g6) (regPQ f7 g7) =
      regPQ (fun c => mixByte (f0 c) (f1 c) (f2 c) (f3 c) (f4 c) (f5 c) (f6 c) (f7 c))
            (fun c => mixByte (g0 c) (g1 c) (g2 c) (g3 c) (g4 c) (g5 c) (g6 c) (g7 c)) := by
  unfold regPQ
  rw [mixLin_ofFn16]
  congr 1
  funext p
  split <;> rfl

theorem colMix_unfold (i : Nat) (x : Nat → BitVec 8) :
    colMix i x =
      Spec.gmul (Spec.mixRow.getD ((0 + 8 - i) % 8) 0#8) (x 0) ^^^
      Spec.gmul (Spec.mixRow.getD ((1 + 8 - i) % 8) 0#8) (x 1) ^^^
      Spec.gmul (Spec.mixRow.getD ((2 + 8 - i) % 8) 0#8) (x 2) ^^^
      Spec.gmul (Spec.mixRow.getD ((3 + 8 - i) % 8) 0#8) (x 3) ^^^
      Spec.gmul (Spec.mixRow.getD ((4 + 8 - i) % 8) 0#8) (x 4) ^^^
      Spec.gmul (Spec.mixRow.getD ((5 + 8 - i) % 8) 0#8) (x 5) ^^^
      Spec.gmul (Spec.mixRow.getD ((6 + 8 - i) % 8) 0#8) (x 6) ^^^
      Spec.gmul (Spec.mixRow.getD ((7 + 8 - i) % 8) 0#8) (x 7) := by
  simp [colMix, List.range, List.range.loop]

theorem colMix_0 (x : Nat → BitVec 8) :
    mixByte (x 0) (x 1) (x 2) (x 3) (x 4) (x 5) (x 6) (x 7) = colMix 0 x := by
  rw [colMix_unfold]
  simp only [Spec.mixRow, Nat.reduceAdd, Nat.reduceSub, Nat.reduceMod, List.getD_cons_succ,
    List.getD_cons_zero, gmul_02, gmul_03, gmul_04, gmul_05, gmul_07, mixByte]
  try ac_rfl

theorem colMix_1 (x : Nat → BitVec 8) :
    mixByte (x 1) (x 2) (x 3) (x 4) (x 5) (x 6) (x 7) (x 0) = colMix 1 x := by
  rw [colMix_unfold]
  simp only [Spec.mixRow, Nat.reduceAdd, Nat.reduceSub, Nat.reduceMod, List.getD_cons_succ,
    List.getD_cons_zero, gmul_02, gmul_03, gmul_04, gmul_05, gmul_07, mixByte]
  try ac_rfl

theorem colMix_2 (x : Nat → BitVec 8) :
    mixByte (x 2) (x 3) (x 4) (x 5) (x 6) (x 7) (x 0) (x 1) = colMix 2 x := by
  rw [colMix_unfold]
  simp only [Spec.mixRow, Nat.reduceAdd, Nat.reduceSub, Nat.reduceMod, List.getD_cons_succ,
    List.getD_cons_zero, gmul_02, gmul_03, gmul_04, gmul_05, gmul_07, mixByte]
  try ac_rfl

theorem colMix_3 (x : Nat → BitVec 8) :
    mixByte (x 3) (x 4) (x 5) (x 6) (x 7) (x 0) (x 1) (x 2) = colMix 3 x := by
  rw [colMix_unfold]
  simp only [Spec.mixRow, Nat.reduceAdd, Nat.reduceSub, Nat.reduceMod, List.getD_cons_succ,
    List.getD_cons_zero, gmul_02, gmul_03, gmul_04, gmul_05, gmul_07, mixByte]
  try ac_rfl

theorem colMix_4 (x : Nat → BitVec 8) :
    mixByte (x 4) (x 5) (x 6) (x 7) (x 0) (x 1) (x 2) (x 3) = colMix 4 x := by
  rw [colMix_unfold]
  simp only [Spec.mixRow, Nat.reduceAdd, Nat.reduceSub, Nat.reduceMod, List.getD_cons_succ,
    List.getD_cons_zero, gmul_02, gmul_03, gmul_04, gmul_05, gmul_07, mixByte]
  try ac_rfl

theorem colMix_5 (x : Nat → BitVec 8) :
    mixByte (x 5) (x 6) (x 7) (x 0) (x 1) (x 2) (x 3) (x 4) = colMix 5 x := by
  rw [colMix_unfold]
  simp only [Spec.mixRow, Nat.reduceAdd, Nat.reduceSub, Nat.reduceMod, List.getD_cons_succ,
    List.getD_cons_zero, gmul_02, gmul_03, gmul_04, gmul_05, gmul_07, mixByte]
  try ac_rfl

theorem colMix_6 (x : Nat → BitVec 8) :
    mixByte (x 6) (x 7) (x 0) (x 1) (x 2) (x 3) (x 4) (x 5) = colMix 6 x := by
  rw [colMix_unfold]
  simp only [Spec.mixRow, Nat.reduceAdd, Nat.reduceSub, Nat.reduceMod, List.getD_cons_succ,
    List.getD_cons_zero, gmul_02, gmul_03, gmul_04, gmul_05, gmul_07, mixByte]
  try ac_rfl

theorem colMix_7 (x : Nat → BitVec 8) :
    mixByte (x 7) (x 0) (x 1) (x 2) (x 3) (x 4) (x 5) (x 6) = colMix 7 x := by
  rw [colMix_unfold]
  simp only [Spec.mixRow, Nat.reduceAdd, Nat.reduceSub, Nat.reduceMod, List.getD_cons_succ,
    List.getD_cons_zero, gmul_02, gmul_03, gmul_04, gmul_05, gmul_07, mixByte]
  try ac_rfl

/-! ## one round -/

theorem rotIdx512_lt (sP sQ p : Nat) : rotIdx512 sP sQ p < 16 := by
  unfold rotIdx512; split <;> omega

/-- ShiftBytes + SubBytes on one register: rows rotated by `sP` / `sQ`, then the S-box -/
theorem sub_rot_regPQ (sP sQ : Nat) (fP fQ : Nat → BitVec 8) :
    map16 Spec.sbox (ofFn16 fun p => byte (regPQ fP fQ) (rotIdx512 sP sQ p)) =
      regPQ (fun c => Spec.sbox (fP ((c + sP) % 8))) (fun c => Spec.sbox (fQ ((c + sQ) % 8))) := by
  rw [map16_ofFn16]
  unfold regPQ
  apply ofFn16_congr
  intro p hp
  rw [byte_ofFn16 _ _ (rotIdx512_lt sP sQ p)]
  unfold rotIdx512
  by_cases h : p < 8
  · have h2 : (p + sP) % 8 < 8 := Nat.mod_lt _ (by decide)
    simp only [h, if_true, h2]
  · have h2 : ¬ (8 + (p - 8 + sQ) % 8 < 8) := by omega
    have h3 : 8 + (p - 8 + sQ) % 8 - 8 = (p - 8 + sQ) % 8 := by omega
    simp only [h, if_false, h2, h3]

theorem aes_mask512_0 (fP fQ : Nat → BitVec 8) :
    mm_aesenclast_si128 (mm_shuffle_epi8 (regPQ fP fQ) roundMask.r0) (mm_cvtsi64_si128 0#64) =
      regPQ (fun c => Spec.sbox (fP ((c + (Spec.shiftP 8).getD 0 0) % 8)))
            (fun c => Spec.sbox (fQ ((c + (Spec.shiftQ 8).getD 0 0) % 8))) := by
  rw [aesenclast_zero, mask512_0, sub_rot_regPQ]
  rfl

theorem aes_mask512_1 (fP fQ : Nat → BitVec 8) :
    mm_aesenclast_si128 (mm_shuffle_epi8 (regPQ fP fQ) roundMask.r1) (mm_cvtsi64_si128 0#64) =
      regPQ (fun c => Spec.sbox (fP ((c + (Spec.shiftP 8).getD 1 0) % 8)))
            (fun c => Spec.sbox (fQ ((c + (Spec.shiftQ 8).getD 1 0) % 8))) := by
  rw [aesenclast_zero, mask512_1, sub_rot_regPQ]
  rfl

theorem aes_mask512_2 (fP fQ : Nat → BitVec 8) :
    mm_aesenclast_si128 (mm_shuffle_epi8 (regPQ fP fQ) roundMask.r2) (mm_cvtsi64_si128 0#64) =
      regPQ (fun c => Spec.sbox (fP ((c + (Spec.shiftP 8).getD 2 0) % 8)))
            (fun c => Spec.sbox (fQ ((c + (Spec.shiftQ 8).getD 2 0) % 8))) := by
  rw [aesenclast_zero, mask512_2, sub_rot_regPQ]
  rfl

theorem aes_mask512_3 (fP fQ : Nat → BitVec 8) :
    mm_aesenclast_si128 (mm_shuffle_epi8 (regPQ fP fQ) roundMask.r3) (mm_cvtsi64_si128 0#64) =
      regPQ (fun c => Spec.sbox (fP ((c + (Spec.shiftP 8).getD 3 0) % 8)))
            (fun c => Spec.sbox (fQ ((c + (Spec.shiftQ 8).getD 3 0) % 8))) := by
  rw [aesenclast_zero, mask512_3, sub_rot_regPQ]
  rfl

theorem aes_mask512_4 (fP fQ : Nat → BitVec 8) :
    mm_aesenclast_si128 (mm_shuffle_epi8 (regPQ fP fQ) roundMask.r4) (mm_cvtsi64_si128 0#64) =
      regPQ (fun c => Spec.sbox (fP ((c + (Spec.shiftP 8).getD 4 0) % 8)))
            (fun c => Spec.sbox (fQ ((c + (Spec.shiftQ 8).getD 4 0) % 8))) := by
  rw [aesenclast_zero, mask512_4, sub_rot_regPQ]
  rfl

theorem aes_mask512_5 (fP fQ : Nat → BitVec 8) :
    mm_aesenclast_si128 (mm_shuffle_epi8 (regPQ fP fQ) roundMask.r5) (mm_cvtsi64_si128 0#64) =
      regPQ (fun c => Spec.sbox (fP ((c + (Spec.shiftP 8).getD 5 0) % 8)))
            (fun c => Spec.sbox (fQ ((c + (Spec.shiftQ 8).getD 5 0) % 8))) := by
  rw [aesenclast_zero, mask512_5, sub_rot_regPQ]
  rfl

theorem aes_mask512_6 (fP fQ : Nat → BitVec 8) :
    mm_aesenclast_si128 (mm_shuffle_epi8 (regPQ fP fQ) roundMask.r6) (mm_cvtsi64_si128 0#64) =
      regPQ (fun c => Spec.sbox (fP ((c + (Spec.shiftP 8).getD 6 0) % 8)))
            (fun c => Spec.sbox (fQ ((c + (Spec.shiftQ 8).getD 6 0) % 8))) := by
  rw [aesenclast_zero, mask512_6, sub_rot_regPQ]
  rfl

theorem aes_mask512_7 (fP fQ : Nat → BitVec 8) :
    mm_aesenclast_si128 (mm_shuffle_epi8 (regPQ fP fQ) roundMask.r7) (mm_cvtsi64_si128 0#64) =
      regPQ (fun c => Spec.sbox (fP ((c + (Spec.shiftP 8).getD 7 0) % 8)))
            (fun c => Spec.sbox (fQ ((c + (Spec.shiftQ 8).getD 7 0) % 8))) := by
  rw [aesenclast_zero, mask512_7, sub_rot_regPQ]
  rfl


/-- AddRoundConstant on the transposed pair of states -/
theorem xor_roundConst (r : Nat) (hr : r < 10) (gP gQ : Nat → Nat → BitVec 8) :
    (repPQ gP gQ).xor (roundConst (BitVec.ofNat 64 r)) =
      repPQ (fun i j => gP i j ^^^ Spec.rcP i j r) (fun i j => gQ i j ^^^ Spec.rcQ i j r) := by
  have h0 : (roundConst (BitVec.ofNat 64 r)).r0 =
      regPQ (fun p => Spec.rcP 0 p r) (fun p => Spec.rcQ 0 p r) := roundConst_eq r hr 0 (by decide)
  have h1 : (roundConst (BitVec.ofNat 64 r)).r1 =
      regPQ (fun p => Spec.rcP 1 p r) (fun p => Spec.rcQ 1 p r) := roundConst_eq r hr 1 (by decide)
  have h2 : (roundConst (BitVec.ofNat 64 r)).r2 =
      regPQ (fun p => Spec.rcP 2 p r) (fun p => Spec.rcQ 2 p r) := roundConst_eq r hr 2 (by decide)
  have h3 : (roundConst (BitVec.ofNat 64 r)).r3 =
      regPQ (fun p => Spec.rcP 3 p r) (fun p => Spec.rcQ 3 p r) := roundConst_eq r hr 3 (by decide)
  have h4 : (roundConst (BitVec.ofNat 64 r)).r4 =
      regPQ (fun p => Spec.rcP 4 p r) (fun p => Spec.rcQ 4 p r) := roundConst_eq r hr 4 (by decide)
  have h5 : (roundConst (BitVec.ofNat 64 r)).r5 =
      regPQ (fun p => Spec.rcP 5 p r) (fun p => Spec.rcQ 5 p r) := roundConst_eq r hr 5 (by decide)
  have h6 : (roundConst (BitVec.ofNat 64 r)).r6 =
      regPQ (fun p => Spec.rcP 6 p r) (fun p => Spec.rcQ 6 p r) := roundConst_eq r hr 6 (by decide)
  have h7 : (roundConst (BitVec.ofNat 64 r)).r7 =
      regPQ (fun p => Spec.rcP 7 p r) (fun p => Spec.rcQ 7 p r) := roundConst_eq r hr 7 (by decide)
  simp only [X8.xor, X8.map2, repPQ, mm_xor_si128, h0, h1, h2, h3, h4, h5, h6, h7, regPQ_xor]

/-- **The round lemma (512-bit variant).**  `round(r, ·)` on the transposed pair (P state, Q state)
    is the specification's round `r` of `P` on the one and of `Q` on the other. -/
theorem round_repPQ (r : Nat) (hr : r < 10) (gP gQ : Nat → Nat → BitVec 8) :
    round (BitVec.ofNat 64 r) (repPQ gP gQ) =
      repPQ (roundF 8 (Spec.shiftP 8) Spec.rcP r gP) (roundF 8 (Spec.shiftQ 8) Spec.rcQ r gQ) := by
  unfold round submix
  rw [xor_roundConst r hr]
  simp only [repPQ, X8.map2, X8.map, aes_mask512_0, aes_mask512_1, aes_mask512_2, aes_mask512_3,
    aes_mask512_4, aes_mask512_5, aes_mask512_6, aes_mask512_7]
  rw [mixNet_eq]
  simp only [mixLin_regPQ, X8.mk.injEq]
  refine ⟨?_, ?_, ?_, ?_, ?_, ?_, ?_, ?_⟩
  · exact regPQ_congr
      (fun c _ => colMix_0 fun k => Spec.sbox (gP k ((c + (Spec.shiftP 8).getD k 0) % 8) ^^^
        Spec.rcP k ((c + (Spec.shiftP 8).getD k 0) % 8) r))
      (fun c _ => colMix_0 fun k => Spec.sbox (gQ k ((c + (Spec.shiftQ 8).getD k 0) % 8) ^^^
        Spec.rcQ k ((c + (Spec.shiftQ 8).getD k 0) % 8) r))
  · exact regPQ_congr
      (fun c _ => colMix_1 fun k => Spec.sbox (gP k ((c + (Spec.shiftP 8).getD k 0) % 8) ^^^
        Spec.rcP k ((c + (Spec.shiftP 8).getD k 0) % 8) r))
      (fun c _ => colMix_1 fun k => Spec.sbox (gQ k ((c + (Spec.shiftQ 8).getD k 0) % 8) ^^^
        Spec.rcQ k ((c + (Spec.shiftQ 8).getD k 0) % 8) r))
  · exact regPQ_congr
      (fun c _ => colMix_2 fun k => Spec.sbox (gP k ((c + (Spec.shiftP 8).getD k 0) % 8) ^^^
        Spec.rcP k ((c + (Spec.shiftP 8).getD k 0) % 8) r))
      (fun c _ => colMix_2 fun k => Spec.sbox (gQ k ((c + (Spec.shiftQ 8).getD k 0) % 8) ^^^
        Spec.rcQ k ((c + (Spec.shiftQ 8).getD k 0) % 8) r))
  · exact regPQ_congr
      (fun c _ => colMix_3 fun k => Spec.sbox (gP k ((c + (Spec.shiftP 8).getD k 0) % 8) ^^^
        Spec.rcP k ((c + (Spec.shiftP 8).getD k 0) % 8) r))
      (fun c _ => colMix_3 fun k => Spec.sbox (gQ k ((c + (Spec.shiftQ 8).getD k 0) % 8) ^^^
        Spec.rcQ k ((c + (Spec.shiftQ 8).getD k 0) % 8) r))
  · exact regPQ_congr
      (fun c _ => colMix_4 fun k => Spec.sbox (gP k ((c + (Spec.shiftP 8).getD k 0) % 8) ^^^
        Spec.rcP k ((c + (Spec.shiftP 8).getD k 0) % 8) r))
      (fun c _ => colMix_4 fun k => Spec.sbox (gQ k ((c + (Spec.shiftQ 8).getD k 0) % 8) ^^^
        Spec.rcQ k ((c + (Spec.shiftQ 8).getD k 0) % 8) r))
  · exact regPQ_congr
      (fun c _ => colMix_5 fun k => Spec.sbox (gP k ((c + (Spec.shiftP 8).getD k 0) % 8) ^^^
        Spec.rcP k ((c + (Spec.shiftP 8).getD k 0) % 8) r))
      (fun c _ => colMix_5 fun k => Spec.sbox (gQ k ((c + (Spec.shiftQ 8).getD k 0) % 8) ^^^
        Spec.rcQ k ((c + (Spec.shiftQ 8).getD k 0) % 8) r))
  · exact regPQ_congr
      (fun c _ => colMix_6 fun k => Spec.sbox (gP k ((c + (Spec.shiftP 8).getD k 0) % 8) ^^^
        Spec.rcP k ((c + (Spec.shiftP 8).getD k 0) % 8) r))
      (fun c _ => colMix_6 fun k => Spec.sbox (gQ k ((c + (Spec.shiftQ 8).getD k 0) % 8) ^^^
        Spec.rcQ k ((c + (Spec.shiftQ 8).getD k 0) % 8) r))
  · exact regPQ_congr
      (fun c _ => colMix_7 fun k => Spec.sbox (gP k ((c + (Spec.shiftP 8).getD k 0) % 8) ^^^
        Spec.rcP k ((c + (Spec.shiftP 8).getD k 0) % 8) r))
      (fun c _ => colMix_7 fun k => Spec.sbox (gQ k ((c + (Spec.shiftQ 8).getD k 0) % 8) ^^^
        Spec.rcQ k ((c + (Spec.shiftQ 8).getD k 0) % 8) r))

/-! ## ten rounds -/

theorem rounds_p_q_repPQ (gP gQ : Nat → Nat → BitVec 8) :
    rounds_p_q (repPQ gP gQ) =
      repPQ (permF 8 (Spec.shiftP 8) Spec.rcP (List.range 10) gP)
            (permF 8 (Spec.shiftQ 8) Spec.rcQ (List.range 10) gQ) := by
  unfold rounds_p_q
  simp only []
  rw [round_repPQ 0 (by decide), round_repPQ 1 (by decide), round_repPQ 2 (by decide), round_repPQ 3 (by decide), round_repPQ 4 (by decide), round_repPQ 5 (by decide), round_repPQ 6 (by decide), round_repPQ 7 (by decide), round_repPQ 8 (by decide), round_repPQ 9 (by decide)]
  rfl

/-! ## loads and transposes -/

theorem getD_drop (bs : List (BitVec 8)) (n q : Nat) : (bs.drop n).getD q 0#8 = bs.getD (n + q) 0#8 := by
  simp [List.getD_eq_getElem?_getD, List.getElem?_drop]

theorem byte_loadu (bs : List (BitVec 8)) (q : Nat) (hq : q < 16) :
    byte (mm_loadu_si128 bs) q = bs.getD q 0#8 := by
  unfold mm_loadu_si128; rw [byte_ofFn16 _ _ hq]

theorem byte_load4 (bs : List (BitVec 8)) (m q : Nat) (hm : m < 4) (hq : q < 16) :
    byte ((load4 bs).get m) q = bs.getD (16 * m + q) 0#8 := by
  have h : m = 0 ∨ m = 1 ∨ m = 2 ∨ m = 3 := by omega
  rcases h with rfl | rfl | rfl | rfl <;>
    simp only [load4, X4.get, byte_loadu _ _ hq, getD_drop] <;> simp

/-- `transpose_a` of a loaded 64-byte string: the rows of its matrix, two per register -/
theorem transpose_a_load4 (bs : List (BitVec 8)) : transpose_a (load4 bs) = rowsX4 (matOf bs) := by
  rw [transpose_a_layout]
  simp only [rowsX4, regPQ, X4.mk.injEq]
  refine ⟨?_, ?_, ?_, ?_⟩ <;>
  · apply ofFn16_congr
    intro p hp
    rw [byte_load4 _ _ _ (by omega) (by omega)]
    unfold matOf
    by_cases h : p < 8
    · simp only [h, if_true]; congr 1; omega
    · simp only [h, if_false]; congr 1; omega

theorem rep512_eq (bs : List (BitVec 8)) : rep512 bs = rowsX4 (matOf bs) := transpose_a_load4 bs

theorem rowsX4_congr {f g : Nat → Nat → BitVec 8} (h : ∀ i, i < 8 → ∀ c, c < 8 → f i c = g i c) :
    rowsX4 f = rowsX4 g := by
  simp only [rowsX4, X4.mk.injEq]
  refine ⟨?_, ?_, ?_, ?_⟩ <;> exact regPQ_congr (h _ (by decide)) (h _ (by decide))

theorem rowsX4_xor (a b : Nat → Nat → BitVec 8) :
    X4.map2 mm_xor_si128 (rowsX4 a) (rowsX4 b) = rowsX4 fun i j => a i j ^^^ b i j := by
  simp only [rowsX4, X4.map2, mm_xor_si128, regPQ_xor]

theorem rowsX4_xor' (a b : Nat → Nat → BitVec 8) :
    X4.mk (mm_xor_si128 (rowsX4 a).r0 (rowsX4 b).r0) (mm_xor_si128 (rowsX4 a).r1 (rowsX4 b).r1)
        (mm_xor_si128 (rowsX4 a).r2 (rowsX4 b).r2) (mm_xor_si128 (rowsX4 a).r3 (rowsX4 b).r3) =
      rowsX4 fun i j => a i j ^^^ b i j := rowsX4_xor a b

theorem transpose_b_rows (a b : Nat → Nat → BitVec 8) :
    transpose_b ⟨(rowsX4 a).r0, (rowsX4 a).r1, (rowsX4 a).r2, (rowsX4 a).r3,
                 (rowsX4 b).r0, (rowsX4 b).r1, (rowsX4 b).r2, (rowsX4 b).r3⟩ = repPQ a b := by
  simp only [transpose_b, rowsX4, repPQ, unpacklo_regPQ, unpackhi_regPQ]

theorem transpose_b_inv_repPQ (a b : Nat → Nat → BitVec 8) :
    transpose_b_inv (repPQ a b) =
      ⟨(rowsX4 a).r0, (rowsX4 a).r1, (rowsX4 a).r2, (rowsX4 a).r3,
       (rowsX4 b).r0, (rowsX4 b).r1, (rowsX4 b).r2, (rowsX4 b).r3⟩ := by
  simp only [transpose_b_inv, rowsX4, repPQ, unpacklo_regPQ, unpackhi_regPQ]

/-- `tf512` on the row representation -/
theorem tf512_rows (gh : Nat → Nat → BitVec 8) (m : List (BitVec 8)) :
    tf512_impl (rowsX4 gh) m = rowsX4 fun i j => gh i j ^^^
      (permF 8 (Spec.shiftP 8) Spec.rcP (List.range 10) (fun i j => gh i j ^^^ matOf m i j) i j ^^^
       permF 8 (Spec.shiftQ 8) Spec.rcQ (List.range 10) (matOf m) i j) := by
  unfold tf512_impl
  simp only [transpose_a_load4, rowsX4_xor, transpose_b_rows, rounds_p_q_repPQ, transpose_b_inv_repPQ,
    rowsX4_xor', X4.xor]

/-! ## `tf512 = f` -/

theorem conf512_tf (h m : List (BitVec 8)) (hh : h.length = 8 * 8) (hm : m.length = 8 * 8) :
    comp512.input (rep512 h) m = rep512 (Spec.f 8 h m) := by
  show tf512_impl (rep512 h) m = rep512 (Spec.f 8 h m)
  rw [rep512_eq, rep512_eq, tf512_rows, f_eq 8 (by decide) h m hh hm]
  apply rowsX4_congr
  intro i hi c hc
  rw [matOf_bytesOf 8 _ i c hi hc]
  show _ = (permF 8 (Spec.shiftP 8) Spec.rcP (List.range 10) _ i c ^^^
    permF 8 (Spec.shiftQ 8) Spec.rcQ (List.range 10) _ i c) ^^^ matOf h i c
  rw [BitVec.xor_comm]

/-! ## `of512 = Ω` -/

theorem transpose_o_b_rows (a : Nat → Nat → BitVec 8) :
    transpose_o_b (rowsX4 a) = repPQ a (fun _ _ => 0#8) := by
  simp only [transpose_o_b, rowsX4, repPQ, unpacklo_regPQ_zero, unpackhi_regPQ_zero]

theorem transpose_o_b_inv_repPQ (a b : Nat → Nat → BitVec 8) :
    transpose_o_b_inv (repPQ a b) = rowsX4 a := by
  simp only [transpose_o_b_inv, X4.map2, rowsX4, repPQ, unpacklo_regPQ]

theorem byte_rowsX4 (W : Nat → Nat → BitVec 8) (m q : Nat) (hm : m < 4) (hq : q < 16) :
    byte ((rowsX4 W).get m) q = W (2 * m + q / 8) (q % 8) := by
  have h : m = 0 ∨ m = 1 ∨ m = 2 ∨ m = 3 := by omega
  rcases h with rfl | rfl | rfl | rfl <;>
  · simp only [rowsX4, X4.get, regPQ]
    rw [byte_ofFn16 _ _ hq]
    by_cases h8 : q < 8
    · simp only [h8, if_true]; congr 1 <;> omega
    · simp only [h8, if_false]; congr 1 <;> omega

/-- `of512` on the row representation: registers 2 and 3 receive columns 4..7 of `P(h) ⊕ h` in
    memory order -/
theorem of512_rows (gh : Nat → Nat → BitVec 8) :
    of512_impl (rowsX4 gh) =
      { rowsX4 gh with
        r2 := ofFn16 fun p => gh (p % 8) (4 + p / 8) ^^^
                permF 8 (Spec.shiftP 8) Spec.rcP (List.range 10) gh (p % 8) (4 + p / 8)
        r3 := ofFn16 fun p => gh (p % 8) (6 + p / 8) ^^^
                permF 8 (Spec.shiftP 8) Spec.rcP (List.range 10) gh (p % 8) (6 + p / 8) } := by
  unfold of512_impl
  simp only [transpose_o_b_rows, rounds_p_q_repPQ, transpose_o_b_inv_repPQ, X4.xor, rowsX4_xor,
    transpose_a_layout]
  congr 1
  · apply ofFn16_congr
    intro p hp
    rw [byte_rowsX4 _ _ _ (by omega) (by omega)]
    congr 2 <;> omega
  · apply ofFn16_congr
    intro p hp
    rw [byte_rowsX4 _ _ _ (by omega) (by omega)]
    congr 2 <;> omega

theorem toLe64_qwords (x : BitVec 128) : toLe64 (qword x 0) ++ toLe64 (qword x 1) = toBytes16 x := by
  simp only [toLe64, toBytes16, qword, byte, List.cons_append, List.nil_append, List.cons.injEq, and_true]
  refine ⟨?_, ?_, ?_, ?_, ?_, ?_, ?_, ?_, ?_, ?_, ?_, ?_, ?_, ?_, ?_, ?_⟩ <;> bv_decide

theorem toBytes16_ofFn16 (f : Nat → BitVec 8) : toBytes16 (ofFn16 f) = (List.range 16).map f := by
  simp only [toBytes16]
  rw [byte_ofFn16 f 0 (by decide), byte_ofFn16 f 1 (by decide), byte_ofFn16 f 2 (by decide), byte_ofFn16 f 3 (by decide), byte_ofFn16 f 4 (by decide), byte_ofFn16 f 5 (by decide), byte_ofFn16 f 6 (by decide), byte_ofFn16 f 7 (by decide), byte_ofFn16 f 8 (by decide), byte_ofFn16 f 9 (by decide), byte_ofFn16 f 10 (by decide), byte_ofFn16 f 11 (by decide), byte_ofFn16 f 12 (by decide), byte_ofFn16 f 13 (by decide), byte_ofFn16 f 14 (by decide), byte_ofFn16 f 15 (by decide)]
  rfl

theorem drop_map_range {α : Type} (a b : Nat) (f : Nat → α) :
    ((List.range (a + b)).map f).drop a = (List.range b).map fun n => f (a + n) := by
  rw [List.range_add, List.map_append, List.drop_left' (by simp), List.map_map]
  rfl

theorem conf512_of (h : List (BitVec 8)) (hh : h.length = 8 * 8) :
    leWords ((comp512.finalizeDirty (rep512 h)).2.drop (8 / 2)) =
      (Spec.xorBytes (Spec.P 8 h) h).drop (4 * 8) := by
  show leWords ((of512_impl (rep512 h)).toBlock.drop 4) = (Spec.xorBytes (Spec.P 8 h) h).drop 32
  rw [rep512_eq, of512_rows, P_eq 8 (by decide), xorBytes_bytesOf 8 _ h hh]
  simp only [X4.toBlock, List.drop_succ_cons, List.drop_zero, leWords, List.flatMap_cons, List.flatMap_nil,
    List.append_nil]
  rw [← List.append_assoc, toLe64_qwords, toLe64_qwords, toBytes16_ofFn16,
    toBytes16_ofFn16]
  unfold bytesOf
  rw [show 8 * 8 = 32 + 32 from rfl, drop_map_range, show 32 = 16 + 16 from rfl, List.range_add,
    List.map_append, List.map_map]
  congr 1
  · apply List.map_congr_left
    intro n hn
    have := List.mem_range.mp hn
    show _ = permF 8 (Spec.shiftP 8) Spec.rcP (List.range 10) (matOf h) _ _ ^^^ _
    rw [BitVec.xor_comm]
    congr 2 <;> omega
  · apply List.map_congr_left
    intro n hn
    have := List.mem_range.mp hn
    show _ = permF 8 (Spec.shiftP 8) Spec.rcP (List.range 10) (matOf h) _ _ ^^^ _
    simp only [Function.comp_def]
    rw [BitVec.xor_comm]
    congr 2 <;> omega

/-- **Layers (b),(c) for `Compressor512`.** -/
theorem conf512 : Conf comp512 8 rep512 := ⟨conf512_tf, conf512_of⟩

end CC.Groestl
