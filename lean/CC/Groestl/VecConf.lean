/-
  CC.Groestl.VecConf — the two hypotheses of `groestl_conforms_partial` (`Conf.tf`, `Conf.of`)
  evaluated by the kernel on concrete inputs: the IV and the padded empty message.
-/
import CC.Groestl.LemmasD
namespace CC.Groestl
open CC CC.Groestl.Model

/-- `Conf.tf` for `Compressor512` at (IV-256, pad("")) -/
theorem conf512_tf_instance :
    comp512.input (rep512 (Spec.iv 256 64)) (Spec.pad 64 []) =
      rep512 (Spec.f 8 (Spec.iv 256 64) (Spec.pad 64 [])) := by
  decide +kernel

/-- `Conf.of` for `Compressor512` at `h = f(IV-256, pad(""))` -/
theorem conf512_of_instance :
    leWords ((comp512.finalizeDirty (rep512 (Spec.f 8 (Spec.iv 256 64) (Spec.pad 64 [])))).2.drop (8 / 2)) =
      (Spec.xorBytes (Spec.P 8 (Spec.f 8 (Spec.iv 256 64) (Spec.pad 64 [])))
        (Spec.f 8 (Spec.iv 256 64) (Spec.pad 64 []))).drop (4 * 8) := by
  decide +kernel

end CC.Groestl
