/-
  CC.Groestl.Spec — Grøstl-224/256/384/512 from the specification
  (Gauravaram, Knudsen, Matusiewicz, Mendel, Rechberger, Schläffer, Thomsen:
   "Grøstl – a SHA-3 candidate", version 2.0.1, March 2011; sections 3.1–3.5).
  Transcribed from `notes/groestl_spec_probe.py`.

  * state: matrix of bytes with 8 rows and `cols = 8` (ℓ = 512) or `16` (ℓ = 1024) columns;
    the input byte string is mapped column by column (byte `8j+i` ↦ row `i`, column `j`);
  * round = AddRoundConstant ; SubBytes ; ShiftBytes ; MixBytes, 10 (ℓ = 512) / 14 (ℓ = 1024) rounds;
  * `f(h, m) = P(h ⊕ m) ⊕ Q(m) ⊕ h`,  `Ω(h) = trunc_n (P(h) ⊕ h)`;
  * IV = the ℓ-bit big-endian representation of `n`;
  * padding: `1` bit, zeros, 64-bit big-endian number of blocks of the padded message.
  Core Lean only (the driver executable links this file).
-/
namespace CC.Groestl.Spec

/-! ## GF(2^8), the AES S-box -/

/-- multiplication by `x` (= 02) modulo `x^8 + x^4 + x^3 + x + 1` -/
def xtime (b : BitVec 8) : BitVec 8 := (b <<< 1) ^^^ (if b.msb then 0x1b#8 else 0#8)

/-- multiplication in GF(2^8) = GF(2)[x]/(x^8+x^4+x^3+x+1): `a·b = Σ_i a_i · x^i · b`
    (`fuel` = number of bits of `a` still to be looked at) -/
def gmulAux : Nat → BitVec 8 → BitVec 8 → BitVec 8
  | 0, _, _ => 0#8
  | fuel + 1, a, b =>
    if a = 0#8 then 0#8 else (if a.getLsbD 0 then b else 0#8) ^^^ gmulAux fuel (a >>> 1) (xtime b)

def gmul (a b : BitVec 8) : BitVec 8 := gmulAux 8 a b

/-- `a^254` — the multiplicative inverse for `a ≠ 0`, and `0` for `a = 0` -/
def ginv (a : BitVec 8) : BitVec 8 :=
  let a2 := gmul a a
  let a4 := gmul a2 a2
  let a8 := gmul a4 a4
  let a16 := gmul a8 a8
  let a32 := gmul a16 a16
  let a64 := gmul a32 a32
  let a128 := gmul a64 a64
  gmul a2 (gmul a4 (gmul a8 (gmul a16 (gmul a32 (gmul a64 a128)))))

/-- the affine map of the AES S-box -/
def affine (b : BitVec 8) : BitVec 8 :=
  b ^^^ b.rotateLeft 1 ^^^ b.rotateLeft 2 ^^^ b.rotateLeft 3 ^^^ b.rotateLeft 4 ^^^ 0x63#8

/-- the S-box by its definition: inversion in GF(2^8), then the affine map -/
def sboxDef (a : BitVec 8) : BitVec 8 := affine (ginv a)

/-- the S-box as the table printed in the specification (= FIPS 197 Figure 7) -/
def sboxTab : Array (BitVec 8) := #[
  0x63, 0x7c, 0x77, 0x7b, 0xf2, 0x6b, 0x6f, 0xc5, 0x30, 0x01, 0x67, 0x2b, 0xfe, 0xd7, 0xab, 0x76,
  0xca, 0x82, 0xc9, 0x7d, 0xfa, 0x59, 0x47, 0xf0, 0xad, 0xd4, 0xa2, 0xaf, 0x9c, 0xa4, 0x72, 0xc0,
  0xb7, 0xfd, 0x93, 0x26, 0x36, 0x3f, 0xf7, 0xcc, 0x34, 0xa5, 0xe5, 0xf1, 0x71, 0xd8, 0x31, 0x15,
  0x04, 0xc7, 0x23, 0xc3, 0x18, 0x96, 0x05, 0x9a, 0x07, 0x12, 0x80, 0xe2, 0xeb, 0x27, 0xb2, 0x75,
  0x09, 0x83, 0x2c, 0x1a, 0x1b, 0x6e, 0x5a, 0xa0, 0x52, 0x3b, 0xd6, 0xb3, 0x29, 0xe3, 0x2f, 0x84,
  0x53, 0xd1, 0x00, 0xed, 0x20, 0xfc, 0xb1, 0x5b, 0x6a, 0xcb, 0xbe, 0x39, 0x4a, 0x4c, 0x58, 0xcf,
  0xd0, 0xef, 0xaa, 0xfb, 0x43, 0x4d, 0x33, 0x85, 0x45, 0xf9, 0x02, 0x7f, 0x50, 0x3c, 0x9f, 0xa8,
  0x51, 0xa3, 0x40, 0x8f, 0x92, 0x9d, 0x38, 0xf5, 0xbc, 0xb6, 0xda, 0x21, 0x10, 0xff, 0xf3, 0xd2,
  0xcd, 0x0c, 0x13, 0xec, 0x5f, 0x97, 0x44, 0x17, 0xc4, 0xa7, 0x7e, 0x3d, 0x64, 0x5d, 0x19, 0x73,
  0x60, 0x81, 0x4f, 0xdc, 0x22, 0x2a, 0x90, 0x88, 0x46, 0xee, 0xb8, 0x14, 0xde, 0x5e, 0x0b, 0xdb,
  0xe0, 0x32, 0x3a, 0x0a, 0x49, 0x06, 0x24, 0x5c, 0xc2, 0xd3, 0xac, 0x62, 0x91, 0x95, 0xe4, 0x79,
  0xe7, 0xc8, 0x37, 0x6d, 0x8d, 0xd5, 0x4e, 0xa9, 0x6c, 0x56, 0xf4, 0xea, 0x65, 0x7a, 0xae, 0x08,
  0xba, 0x78, 0x25, 0x2e, 0x1c, 0xa6, 0xb4, 0xc6, 0xe8, 0xdd, 0x74, 0x1f, 0x4b, 0xbd, 0x8b, 0x8a,
  0x70, 0x3e, 0xb5, 0x66, 0x48, 0x03, 0xf6, 0x0e, 0x61, 0x35, 0x57, 0xb9, 0x86, 0xc1, 0x1d, 0x9e,
  0xe1, 0xf8, 0x98, 0x11, 0x69, 0xd9, 0x8e, 0x94, 0x9b, 0x1e, 0x87, 0xe9, 0xce, 0x55, 0x28, 0xdf,
  0x8c, 0xa1, 0x89, 0x0d, 0xbf, 0xe6, 0x42, 0x68, 0x41, 0x99, 0x2d, 0x0f, 0xb0, 0x54, 0xbb, 0x16]

def sbox (a : BitVec 8) : BitVec 8 := sboxTab.getD a.toNat 0#8

/-- checked: `ginv` is the inverse (with `0 ↦ 0`) and the table is inverse-then-affine. -/
theorem sbox_table_checked :
    (List.range 256).all (fun i =>
      let a := BitVec.ofNat 8 i
      (if i = 0 then ginv a == 0#8 else gmul a (ginv a) == 1#8) && sbox a == sboxDef a) = true := by
  decide +kernel

/-! ## the state matrix -/

/-- rows of bytes: `x[i][j]` = row `i`, column `j` -/
def Mat := List (List (BitVec 8))

def Mat.get (x : Mat) (i j : Nat) : BitVec 8 := (List.getD x i []).getD j 0#8

def Mat.build (cols : Nat) (f : Nat → Nat → BitVec 8) : Mat :=
  (List.range 8).map fun i => (List.range cols).map fun j => f i j

/-- byte string → matrix, column by column -/
def toMat (cols : Nat) (bs : List (BitVec 8)) : Mat := Mat.build cols fun i j => bs.getD (8 * j + i) 0#8

/-- matrix → byte string, column by column -/
def fromMat (cols : Nat) (x : Mat) : List (BitVec 8) :=
  (List.range cols).flatMap fun j => (List.range 8).map fun i => x.get i j

/-! ## round transformations -/

/-- round constant of `P`, round `r`, at row `i`, column `j`: row 0 gets `(j·16) ⊕ r`, the rest 0 -/
def rcP (i j r : Nat) : BitVec 8 := if i = 0 then BitVec.ofNat 8 ((j <<< 4) ^^^ r) else 0#8

/-- round constant of `Q`: every byte `ff`, row 7 in addition `(j·16) ⊕ r` -/
def rcQ (i j r : Nat) : BitVec 8 := if i = 7 then 0xff#8 ^^^ BitVec.ofNat 8 ((j <<< 4) ^^^ r) else 0xff#8

/-- AddRoundConstant of `P`, round `r` -/
def addRoundConstantP (cols r : Nat) (x : Mat) : Mat := Mat.build cols fun i j => x.get i j ^^^ rcP i j r

/-- AddRoundConstant of `Q`, round `r` -/
def addRoundConstantQ (cols r : Nat) (x : Mat) : Mat := Mat.build cols fun i j => x.get i j ^^^ rcQ i j r

def subBytes (x : Mat) : Mat := x.map fun row => row.map sbox

def shiftP (cols : Nat) : List Nat := if cols = 8 then [0, 1, 2, 3, 4, 5, 6, 7] else [0, 1, 2, 3, 4, 5, 6, 11]
def shiftQ (cols : Nat) : List Nat := if cols = 8 then [1, 3, 5, 7, 0, 2, 4, 6] else [1, 3, 5, 11, 0, 2, 4, 6]

/-- ShiftBytes: row `i` is rotated left by `σ[i]` positions -/
def shiftBytes (cols : Nat) (σ : List Nat) (x : Mat) : Mat :=
  Mat.build cols fun i j => x.get i ((j + σ.getD i 0) % cols)

/-- first row of the circulant MixBytes matrix `B = circ(02, 02, 03, 04, 05, 03, 05, 07)` -/
def mixRow : List (BitVec 8) := [0x02#8, 0x02#8, 0x03#8, 0x04#8, 0x05#8, 0x03#8, 0x05#8, 0x07#8]

/-- MixBytes: every column is multiplied by `B`;  `B[i][k] = mixRow[(k − i) mod 8]` -/
def mixBytes (cols : Nat) (x : Mat) : Mat :=
  Mat.build cols fun i j =>
    (List.range 8).foldl (fun acc k => acc ^^^ gmul (mixRow.getD ((k + 8 - i) % 8) 0#8) (x.get k j)) 0#8

def roundP (cols r : Nat) (x : Mat) : Mat :=
  mixBytes cols (shiftBytes cols (shiftP cols) (subBytes (addRoundConstantP cols r x)))
def roundQ (cols r : Nat) (x : Mat) : Mat :=
  mixBytes cols (shiftBytes cols (shiftQ cols) (subBytes (addRoundConstantQ cols r x)))

def rounds (cols : Nat) : Nat := if cols = 8 then 10 else 14

def permP (cols : Nat) (x : Mat) : Mat := (List.range (rounds cols)).foldl (fun x r => roundP cols r x) x
def permQ (cols : Nat) (x : Mat) : Mat := (List.range (rounds cols)).foldl (fun x r => roundQ cols r x) x

/-! ## compression function, output transformation, hash -/

def xorBytes (a b : List (BitVec 8)) : List (BitVec 8) := List.zipWith (· ^^^ ·) a b

/-- `P` and `Q` on byte strings of `8·cols` bytes -/
def P (cols : Nat) (b : List (BitVec 8)) : List (BitVec 8) := fromMat cols (permP cols (toMat cols b))
def Q (cols : Nat) (b : List (BitVec 8)) : List (BitVec 8) := fromMat cols (permQ cols (toMat cols b))

/-- `f(h, m) = P(h ⊕ m) ⊕ Q(m) ⊕ h` -/
def f (cols : Nat) (h m : List (BitVec 8)) : List (BitVec 8) :=
  xorBytes (xorBytes (P cols (xorBytes h m)) (Q cols m)) h

/-- `Ω(h) = trunc_n(P(h) ⊕ h)`: the last `n/8` bytes -/
def omega (cols n : Nat) (h : List (BitVec 8)) : List (BitVec 8) :=
  (xorBytes (P cols h) h).drop (8 * cols - n / 8)

/-- block length in bytes: ℓ = 512 bits for n ≤ 256, 1024 bits above -/
def blockLen (n : Nat) : Nat := if n ≤ 256 then 64 else 128

/-- number of blocks of the padded message of a `len`-byte message -/
def padBlocks (l len : Nat) : Nat := (len + 9 + l - 1) / l

/-- `pad(M)`: `0x80`, zeros, then the number of blocks as a 64-bit big-endian integer -/
def pad (l : Nat) (msg : List (BitVec 8)) : List (BitVec 8) :=
  let blocks := padBlocks l msg.length
  msg ++ [0x80#8] ++ List.replicate (blocks * l - msg.length - 9) 0#8 ++
    (List.range 8).map fun k => BitVec.ofNat 8 (blocks >>> (8 * (7 - k)))

/-- the initial value: `n` as an ℓ-bit big-endian number -/
def iv (n l : Nat) : List (BitVec 8) := (List.range l).map fun k => BitVec.ofNat 8 (n >>> (8 * (l - 1 - k)))

/-- iterate `f` over the `l`-byte blocks of `m` (`fuel` ≥ number of blocks) -/
def iterate (cols l : Nat) : Nat → List (BitVec 8) → List (BitVec 8) → List (BitVec 8)
  | 0, h, _ => h
  | fuel + 1, h, m => if m.isEmpty then h else iterate cols l fuel (f cols h (m.take l)) (m.drop l)

/-- Grøstl-`n` of a byte string, `n ∈ {224, 256, 384, 512}` -/
def groestl (n : Nat) (msg : List (BitVec 8)) : List (BitVec 8) :=
  let l := blockLen n
  let cols := l / 8
  let m := pad l msg
  omega cols n (iterate cols l (m.length / l + 1) (iv n l) m)

end CC.Groestl.Spec
