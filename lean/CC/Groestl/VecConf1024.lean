/-
  CC.Groestl.VecConf1024 — `Conf.tf`, `Conf.of` for `Compressor1024` evaluated by the kernel at the
  IV of Grøstl-512 and the padded empty message.
-/
import CC.Groestl.LemmasD
namespace CC.Groestl
open CC CC.Groestl.Model

theorem conf1024_tf_instance :
    comp1024.input (rep1024 (Spec.iv 512 128)) (Spec.pad 128 []) =
      rep1024 (Spec.f 16 (Spec.iv 512 128) (Spec.pad 128 [])) := by
  decide +kernel

theorem conf1024_of_instance :
    leWords ((comp1024.finalizeDirty (rep1024 (Spec.f 16 (Spec.iv 512 128) (Spec.pad 128 [])))).2.drop (16 / 2)) =
      (Spec.xorBytes (Spec.P 16 (Spec.f 16 (Spec.iv 512 128) (Spec.pad 128 [])))
        (Spec.f 16 (Spec.iv 512 128) (Spec.pad 128 []))).drop (4 * 16) := by
  decide +kernel

end CC.Groestl
