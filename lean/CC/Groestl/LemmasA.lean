/-
  CC.Groestl.LemmasA — layer (a) of the C07 proof plan: leaf facts about the register-level
  building blocks of `compressor.rs`, for all register contents.

  * `mul2_eq`            : `mul2` doubles every byte in GF(2^8) (`Spec.xtime`);
  * `mixNet_eq`          : the XOR network of `submix` multiplies the column vector held across the
                           eight registers by `circ(02,02,03,04,05,03,05,07)`;
  * `gmul_02 … gmul_07`  : the `Spec.gmul` coefficients in terms of `xtime`;
  * `sbox_eq`, `aesenclast_zero` : `aesenclast x 0 = SubBytes (ShiftRows x)` with the spec's S-box;
  * `mask512_*`, `maskP1024_*`, `maskQ1024_*` : each `pshufb` mask followed by AES ShiftRows is the
                           Grøstl ShiftBytes rotation of the row(s) the register holds;
  * `roundConst_eq`, `constP_eq`, `constQ_eq`, `ones_eq` : the constant vectors are the spec's
                           round constants in the transposed layout;
  * `transpose_inv_transpose` and the byte layouts of `transpose_a`, `transpose`, `transpose_inv`.
-/
import Std.Tactic.BVDecide
import CC.Groestl.Spec
import CC.Groestl.Model
namespace CC.Groestl
open CC.Groestl.Intrin CC.Groestl.Model

/-! ## mul2 -/

/-- per byte doubling in GF(2^8) -/
def m2 (x : BitVec 128) : BitVec 128 := map16 Spec.xtime x

theorem mul2_eq (x : BitVec 128) : mul2 x = m2 x := by
  simp only [mul2, m2, map16, ofFn16, pack16, Spec.xtime, mm_set1_epi64x, mm_and_si128, mm_cmpgt_epi8,
    mm_cvtsi64_si128, mm_add_epi8, mm_xor_si128, byte]
  bv_decide

theorem m2_xor (x y : BitVec 128) : m2 (x ^^^ y) = m2 x ^^^ m2 y := by
  simp only [m2, map16, ofFn16, pack16, Spec.xtime, byte]
  bv_decide

/-! ## the MixBytes network -/

def m3 (x : BitVec 128) : BitVec 128 := m2 x ^^^ x
def m4 (x : BitVec 128) : BitVec 128 := m2 (m2 x)
def m5 (x : BitVec 128) : BitVec 128 := m2 (m2 x) ^^^ x
def m7 (x : BitVec 128) : BitVec 128 := m2 (m2 x) ^^^ m2 x ^^^ x

/-- first row of `circ(02,02,03,04,05,03,05,07)` applied to the column vector `(x0, …, x7)`
    (every byte position = one column of the state) -/
def mixLin (x0 x1 x2 x3 x4 x5 x6 x7 : BitVec 128) : BitVec 128 :=
  m2 x0 ^^^ m2 x1 ^^^ m3 x2 ^^^ m4 x3 ^^^ m5 x4 ^^^ m3 x5 ^^^ m5 x6 ^^^ m7 x7

theorem mixNet_r0 (a0 a1 a2 a3 a4 a5 a6 a7 : BitVec 128) :
    (mixNet ⟨a0, a1, a2, a3, a4, a5, a6, a7⟩).r0 = mixLin a0 a1 a2 a3 a4 a5 a6 a7 := by
  simp only [mixNet, X8.xor, X8.map2, X8.map, X8.rotl1, X8.rotl2, X8.rotl3, X8.rotl4, X8.rotl6,
    X8.shuffle, X8.get, mm_xor_si128, mul2_eq, m2_xor, mixLin, m3, m4, m5, m7]
  generalize m2 (m2 a0) = c0; generalize m2 (m2 a1) = c1; generalize m2 (m2 a2) = c2
  generalize m2 (m2 a3) = c3; generalize m2 (m2 a4) = c4; generalize m2 (m2 a5) = c5
  generalize m2 (m2 a6) = c6; generalize m2 (m2 a7) = c7
  generalize m2 a0 = b0; generalize m2 a1 = b1; generalize m2 a2 = b2; generalize m2 a3 = b3
  generalize m2 a4 = b4; generalize m2 a5 = b5; generalize m2 a6 = b6; generalize m2 a7 = b7
  bv_decide

theorem mixNet_r1 (a0 a1 a2 a3 a4 a5 a6 a7 : BitVec 128) :
    (mixNet ⟨a0, a1, a2, a3, a4, a5, a6, a7⟩).r1 = mixLin a1 a2 a3 a4 a5 a6 a7 a0 := by
  simp only [mixNet, X8.xor, X8.map2, X8.map, X8.rotl1, X8.rotl2, X8.rotl3, X8.rotl4, X8.rotl6,
    X8.shuffle, X8.get, mm_xor_si128, mul2_eq, m2_xor, mixLin, m3, m4, m5, m7]
  generalize m2 (m2 a0) = c0; generalize m2 (m2 a1) = c1; generalize m2 (m2 a2) = c2
  generalize m2 (m2 a3) = c3; generalize m2 (m2 a4) = c4; generalize m2 (m2 a5) = c5
  generalize m2 (m2 a6) = c6; generalize m2 (m2 a7) = c7
  generalize m2 a0 = b0; generalize m2 a1 = b1; generalize m2 a2 = b2; generalize m2 a3 = b3
  generalize m2 a4 = b4; generalize m2 a5 = b5; generalize m2 a6 = b6; generalize m2 a7 = b7
  bv_decide

theorem mixNet_r2 (a0 a1 a2 a3 a4 a5 a6 a7 : BitVec 128) :
    (mixNet ⟨a0, a1, a2, a3, a4, a5, a6, a7⟩).r2 = mixLin a2 a3 a4 a5 a6 a7 a0 a1 := by
  simp only [mixNet, X8.xor, X8.map2, X8.map, X8.rotl1, X8.rotl2, X8.rotl3, X8.rotl4, X8.rotl6,
    X8.shuffle, X8.get, mm_xor_si128, mul2_eq, m2_xor, mixLin, m3, m4, m5, m7]
  generalize m2 (m2 a0) = c0; generalize m2 (m2 a1) = c1; generalize m2 (m2 a2) = c2
  generalize m2 (m2 a3) = c3; generalize m2 (m2 a4) = c4; generalize m2 (m2 a5) = c5
  generalize m2 (m2 a6) = c6; generalize m2 (m2 a7) = c7
  generalize m2 a0 = b0; generalize m2 a1 = b1; generalize m2 a2 = b2; generalize m2 a3 = b3
  generalize m2 a4 = b4; generalize m2 a5 = b5; generalize m2 a6 = b6; generalize m2 a7 = b7
  bv_decide

theorem mixNet_r3 (a0 a1 a2 a3 a4 a5 a6 a7 : BitVec 128) :
    (mixNet ⟨a0, a1, a2, a3, a4, a5, a6, a7⟩).r3 = mixLin a3 a4 a5 a6 a7 a0 a1 a2 := by
  simp only [mixNet, X8.xor, X8.map2, X8.map, X8.rotl1, X8.rotl2, X8.rotl3, X8.rotl4, X8.rotl6,
    X8.shuffle, X8.get, mm_xor_si128, mul2_eq, m2_xor, mixLin, m3, m4, m5, m7]
  generalize m2 (m2 a0) = c0; generalize m2 (m2 a1) = c1; generalize m2 (m2 a2) = c2
  generalize m2 (m2 a3) = c3; generalize m2 (m2 a4) = c4; generalize m2 (m2 a5) = c5
  generalize m2 (m2 a6) = c6; generalize m2 (m2 a7) = c7
  generalize m2 a0 = b0; generalize m2 a1 = b1; generalize m2 a2 = b2; generalize m2 a3 = b3
  generalize m2 a4 = b4; generalize m2 a5 = b5; generalize m2 a6 = b6; generalize m2 a7 = b7
  bv_decide

theorem mixNet_r4 (a0 a1 a2 a3 a4 a5 a6 a7 : BitVec 128) :
    (mixNet ⟨a0, a1, a2, a3, a4, a5, a6, a7⟩).r4 = mixLin a4 a5 a6 a7 a0 a1 a2 a3 := by
  simp only [mixNet, X8.xor, X8.map2, X8.map, X8.rotl1, X8.rotl2, X8.rotl3, X8.rotl4, X8.rotl6,
    X8.shuffle, X8.get, mm_xor_si128, mul2_eq, m2_xor, mixLin, m3, m4, m5, m7]
  generalize m2 (m2 a0) = c0; generalize m2 (m2 a1) = c1; generalize m2 (m2 a2) = c2
  generalize m2 (m2 a3) = c3; generalize m2 (m2 a4) = c4; generalize m2 (m2 a5) = c5
  generalize m2 (m2 a6) = c6; generalize m2 (m2 a7) = c7
  generalize m2 a0 = b0; generalize m2 a1 = b1; generalize m2 a2 = b2; generalize m2 a3 = b3
  generalize m2 a4 = b4; generalize m2 a5 = b5; generalize m2 a6 = b6; generalize m2 a7 = b7
  bv_decide

theorem mixNet_r5 (a0 a1 a2 a3 a4 a5 a6 a7 : BitVec 128) :
    (mixNet ⟨a0, a1, a2, a3, a4, a5, a6, a7⟩).r5 = mixLin a5 a6 a7 a0 a1 a2 a3 a4 := by
  simp only [mixNet, X8.xor, X8.map2, X8.map, X8.rotl1, X8.rotl2, X8.rotl3, X8.rotl4, X8.rotl6,
    X8.shuffle, X8.get, mm_xor_si128, mul2_eq, m2_xor, mixLin, m3, m4, m5, m7]
  generalize m2 (m2 a0) = c0; generalize m2 (m2 a1) = c1; generalize m2 (m2 a2) = c2
  generalize m2 (m2 a3) = c3; generalize m2 (m2 a4) = c4; generalize m2 (m2 a5) = c5
  generalize m2 (m2 a6) = c6; generalize m2 (m2 a7) = c7
  generalize m2 a0 = b0; generalize m2 a1 = b1; generalize m2 a2 = b2; generalize m2 a3 = b3
  generalize m2 a4 = b4; generalize m2 a5 = b5; generalize m2 a6 = b6; generalize m2 a7 = b7
  bv_decide

theorem mixNet_r6 (a0 a1 a2 a3 a4 a5 a6 a7 : BitVec 128) :
    (mixNet ⟨a0, a1, a2, a3, a4, a5, a6, a7⟩).r6 = mixLin a6 a7 a0 a1 a2 a3 a4 a5 := by
  simp only [mixNet, X8.xor, X8.map2, X8.map, X8.rotl1, X8.rotl2, X8.rotl3, X8.rotl4, X8.rotl6,
    X8.shuffle, X8.get, mm_xor_si128, mul2_eq, m2_xor, mixLin, m3, m4, m5, m7]
  generalize m2 (m2 a0) = c0; generalize m2 (m2 a1) = c1; generalize m2 (m2 a2) = c2
  generalize m2 (m2 a3) = c3; generalize m2 (m2 a4) = c4; generalize m2 (m2 a5) = c5
  generalize m2 (m2 a6) = c6; generalize m2 (m2 a7) = c7
  generalize m2 a0 = b0; generalize m2 a1 = b1; generalize m2 a2 = b2; generalize m2 a3 = b3
  generalize m2 a4 = b4; generalize m2 a5 = b5; generalize m2 a6 = b6; generalize m2 a7 = b7
  bv_decide

theorem mixNet_r7 (a0 a1 a2 a3 a4 a5 a6 a7 : BitVec 128) :
    (mixNet ⟨a0, a1, a2, a3, a4, a5, a6, a7⟩).r7 = mixLin a7 a0 a1 a2 a3 a4 a5 a6 := by
  simp only [mixNet, X8.xor, X8.map2, X8.map, X8.rotl1, X8.rotl2, X8.rotl3, X8.rotl4, X8.rotl6,
    X8.shuffle, X8.get, mm_xor_si128, mul2_eq, m2_xor, mixLin, m3, m4, m5, m7]
  generalize m2 (m2 a0) = c0; generalize m2 (m2 a1) = c1; generalize m2 (m2 a2) = c2
  generalize m2 (m2 a3) = c3; generalize m2 (m2 a4) = c4; generalize m2 (m2 a5) = c5
  generalize m2 (m2 a6) = c6; generalize m2 (m2 a7) = c7
  generalize m2 a0 = b0; generalize m2 a1 = b1; generalize m2 a2 = b2; generalize m2 a3 = b3
  generalize m2 a4 = b4; generalize m2 a5 = b5; generalize m2 a6 = b6; generalize m2 a7 = b7
  bv_decide

/-- `submix`'s XOR network = MixBytes: output register `i` is row `i` of
    `circ(02,02,03,04,05,03,05,07) · (a0, …, a7)ᵀ`, i.e. coefficient `c[(k − i) mod 8]` on `a_k`. -/
theorem mixNet_eq (a : X8) : mixNet a =
    ⟨mixLin a.r0 a.r1 a.r2 a.r3 a.r4 a.r5 a.r6 a.r7,
     mixLin a.r1 a.r2 a.r3 a.r4 a.r5 a.r6 a.r7 a.r0,
     mixLin a.r2 a.r3 a.r4 a.r5 a.r6 a.r7 a.r0 a.r1,
     mixLin a.r3 a.r4 a.r5 a.r6 a.r7 a.r0 a.r1 a.r2,
     mixLin a.r4 a.r5 a.r6 a.r7 a.r0 a.r1 a.r2 a.r3,
     mixLin a.r5 a.r6 a.r7 a.r0 a.r1 a.r2 a.r3 a.r4,
     mixLin a.r6 a.r7 a.r0 a.r1 a.r2 a.r3 a.r4 a.r5,
     mixLin a.r7 a.r0 a.r1 a.r2 a.r3 a.r4 a.r5 a.r6⟩ := by
  obtain ⟨a0, a1, a2, a3, a4, a5, a6, a7⟩ := a
  have h0 := mixNet_r0 a0 a1 a2 a3 a4 a5 a6 a7
  have h1 := mixNet_r1 a0 a1 a2 a3 a4 a5 a6 a7
  have h2 := mixNet_r2 a0 a1 a2 a3 a4 a5 a6 a7
  have h3 := mixNet_r3 a0 a1 a2 a3 a4 a5 a6 a7
  have h4 := mixNet_r4 a0 a1 a2 a3 a4 a5 a6 a7
  have h5 := mixNet_r5 a0 a1 a2 a3 a4 a5 a6 a7
  have h6 := mixNet_r6 a0 a1 a2 a3 a4 a5 a6 a7
  have h7 := mixNet_r7 a0 a1 a2 a3 a4 a5 a6 a7
  generalize mixNet ⟨a0, a1, a2, a3, a4, a5, a6, a7⟩ = y at *
  obtain ⟨y0, y1, y2, y3, y4, y5, y6, y7⟩ := y
  simp only at h0 h1 h2 h3 h4 h5 h6 h7
  simp only [h0, h1, h2, h3, h4, h5, h6, h7]

/-! ## the GF(2^8) coefficients of MixBytes in terms of `xtime` -/

theorem gmul_02 (x : BitVec 8) : Spec.gmul 0x02#8 x = Spec.xtime x := by
  simp [Spec.gmul, Spec.gmulAux]
theorem gmul_03 (x : BitVec 8) : Spec.gmul 0x03#8 x = Spec.xtime x ^^^ x := by
  simp [Spec.gmul, Spec.gmulAux, BitVec.xor_comm]
theorem gmul_04 (x : BitVec 8) : Spec.gmul 0x04#8 x = Spec.xtime (Spec.xtime x) := by
  simp [Spec.gmul, Spec.gmulAux]
theorem gmul_05 (x : BitVec 8) : Spec.gmul 0x05#8 x = Spec.xtime (Spec.xtime x) ^^^ x := by
  simp [Spec.gmul, Spec.gmulAux, BitVec.xor_comm]
theorem gmul_07 (x : BitVec 8) : Spec.gmul 0x07#8 x = Spec.xtime (Spec.xtime x) ^^^ Spec.xtime x ^^^ x := by
  simp only [Spec.gmul, Spec.gmulAux]
  simp
  bv_decide

/-! ## S-box, aesenclast -/

theorem sboxTab_eq : Intrin.sboxTab = Spec.sboxTab := rfl

/-- the S-box of the `aesenclast` model is the specification's S-box -/
theorem sbox_eq (x : BitVec 8) : Intrin.sbox x = Spec.sbox x := by
  simp only [Intrin.sbox, Spec.sbox, sboxTab_eq]

/-- `aesenclast x 0 = SubBytes (ShiftRows x)`, SubBytes with the specification's S-box -/
theorem aesenclast_zero (x : BitVec 128) :
    mm_aesenclast_si128 x (mm_cvtsi64_si128 0#64) = map16 Spec.sbox (shiftRows x) := by
  have h : (Intrin.sbox : BitVec 8 → BitVec 8) = Spec.sbox := funext sbox_eq
  simp only [mm_aesenclast_si128, mm_cvtsi64_si128, subBytes, h]
  simp

/-! ## pshufb masks ∘ AES ShiftRows = Grøstl ShiftBytes -/

/-- 512-bit layout (register `i` = row `i` of the P state in bytes 0..7 and of the Q state in bytes
    8..15): source byte for position `p` when the P row is rotated left by `sP` and the Q row by `sQ` -/
def rotIdx512 (sP sQ p : Nat) : Nat := if p < 8 then (p + sP) % 8 else 8 + ((p - 8 + sQ) % 8)

/-- 1024-bit layout (register `i` = row `i`, 16 columns): row rotated left by `s` -/
def rotIdx1024 (s p : Nat) : Nat := (p + s) % 16

theorem mask512_0 (x : BitVec 128) :
    shiftRows (mm_shuffle_epi8 x roundMask.r0) = ofFn16 fun p => byte x (rotIdx512 0 1 p) := by
  simp only [shiftRows, mm_shuffle_epi8, roundMask, ofFn16, pack16, byte, pshufbLane, mm_set_epi64x, rotIdx512]
  bv_decide

theorem mask512_1 (x : BitVec 128) :
    shiftRows (mm_shuffle_epi8 x roundMask.r1) = ofFn16 fun p => byte x (rotIdx512 1 3 p) := by
  simp only [shiftRows, mm_shuffle_epi8, roundMask, ofFn16, pack16, byte, pshufbLane, mm_set_epi64x, rotIdx512]
  bv_decide

theorem mask512_2 (x : BitVec 128) :
    shiftRows (mm_shuffle_epi8 x roundMask.r2) = ofFn16 fun p => byte x (rotIdx512 2 5 p) := by
  simp only [shiftRows, mm_shuffle_epi8, roundMask, ofFn16, pack16, byte, pshufbLane, mm_set_epi64x, rotIdx512]
  bv_decide

theorem mask512_3 (x : BitVec 128) :
    shiftRows (mm_shuffle_epi8 x roundMask.r3) = ofFn16 fun p => byte x (rotIdx512 3 7 p) := by
  simp only [shiftRows, mm_shuffle_epi8, roundMask, ofFn16, pack16, byte, pshufbLane, mm_set_epi64x, rotIdx512]
  bv_decide

theorem mask512_4 (x : BitVec 128) :
    shiftRows (mm_shuffle_epi8 x roundMask.r4) = ofFn16 fun p => byte x (rotIdx512 4 0 p) := by
  simp only [shiftRows, mm_shuffle_epi8, roundMask, ofFn16, pack16, byte, pshufbLane, mm_set_epi64x, rotIdx512]
  bv_decide

theorem mask512_5 (x : BitVec 128) :
    shiftRows (mm_shuffle_epi8 x roundMask.r5) = ofFn16 fun p => byte x (rotIdx512 5 2 p) := by
  simp only [shiftRows, mm_shuffle_epi8, roundMask, ofFn16, pack16, byte, pshufbLane, mm_set_epi64x, rotIdx512]
  bv_decide

theorem mask512_6 (x : BitVec 128) :
    shiftRows (mm_shuffle_epi8 x roundMask.r6) = ofFn16 fun p => byte x (rotIdx512 6 4 p) := by
  simp only [shiftRows, mm_shuffle_epi8, roundMask, ofFn16, pack16, byte, pshufbLane, mm_set_epi64x, rotIdx512]
  bv_decide

theorem mask512_7 (x : BitVec 128) :
    shiftRows (mm_shuffle_epi8 x roundMask.r7) = ofFn16 fun p => byte x (rotIdx512 7 6 p) := by
  simp only [shiftRows, mm_shuffle_epi8, roundMask, ofFn16, pack16, byte, pshufbLane, mm_set_epi64x, rotIdx512]
  bv_decide

theorem maskP1024_0 (x : BitVec 128) :
    shiftRows (mm_shuffle_epi8 x maskP1024.r0) = ofFn16 fun p => byte x (rotIdx1024 0 p) := by
  simp only [shiftRows, mm_shuffle_epi8, maskP1024, ofFn16, pack16, byte, pshufbLane, mm_set_epi64x, rotIdx1024]
  bv_decide

theorem maskP1024_1 (x : BitVec 128) :
    shiftRows (mm_shuffle_epi8 x maskP1024.r1) = ofFn16 fun p => byte x (rotIdx1024 1 p) := by
  simp only [shiftRows, mm_shuffle_epi8, maskP1024, ofFn16, pack16, byte, pshufbLane, mm_set_epi64x, rotIdx1024]
  bv_decide

theorem maskP1024_2 (x : BitVec 128) :
    shiftRows (mm_shuffle_epi8 x maskP1024.r2) = ofFn16 fun p => byte x (rotIdx1024 2 p) := by
  simp only [shiftRows, mm_shuffle_epi8, maskP1024, ofFn16, pack16, byte, pshufbLane, mm_set_epi64x, rotIdx1024]
  bv_decide

theorem maskP1024_3 (x : BitVec 128) :
    shiftRows (mm_shuffle_epi8 x maskP1024.r3) = ofFn16 fun p => byte x (rotIdx1024 3 p) := by
  simp only [shiftRows, mm_shuffle_epi8, maskP1024, ofFn16, pack16, byte, pshufbLane, mm_set_epi64x, rotIdx1024]
  bv_decide

theorem maskP1024_4 (x : BitVec 128) :
    shiftRows (mm_shuffle_epi8 x maskP1024.r4) = ofFn16 fun p => byte x (rotIdx1024 4 p) := by
  simp only [shiftRows, mm_shuffle_epi8, maskP1024, ofFn16, pack16, byte, pshufbLane, mm_set_epi64x, rotIdx1024]
  bv_decide

theorem maskP1024_5 (x : BitVec 128) :
    shiftRows (mm_shuffle_epi8 x maskP1024.r5) = ofFn16 fun p => byte x (rotIdx1024 5 p) := by
  simp only [shiftRows, mm_shuffle_epi8, maskP1024, ofFn16, pack16, byte, pshufbLane, mm_set_epi64x, rotIdx1024]
  bv_decide

theorem maskP1024_6 (x : BitVec 128) :
    shiftRows (mm_shuffle_epi8 x maskP1024.r6) = ofFn16 fun p => byte x (rotIdx1024 6 p) := by
  simp only [shiftRows, mm_shuffle_epi8, maskP1024, ofFn16, pack16, byte, pshufbLane, mm_set_epi64x, rotIdx1024]
  bv_decide

theorem maskP1024_7 (x : BitVec 128) :
    shiftRows (mm_shuffle_epi8 x maskP1024.r7) = ofFn16 fun p => byte x (rotIdx1024 11 p) := by
  simp only [shiftRows, mm_shuffle_epi8, maskP1024, ofFn16, pack16, byte, pshufbLane, mm_set_epi64x, rotIdx1024]
  bv_decide

theorem maskQ1024_0 (x : BitVec 128) :
    shiftRows (mm_shuffle_epi8 x maskQ1024.r0) = ofFn16 fun p => byte x (rotIdx1024 1 p) := by
  simp only [shiftRows, mm_shuffle_epi8, maskQ1024, maskP1024, X8.shuffle, X8.get, ofFn16, pack16, byte,
    pshufbLane, mm_set_epi64x, rotIdx1024]
  bv_decide

theorem maskQ1024_1 (x : BitVec 128) :
    shiftRows (mm_shuffle_epi8 x maskQ1024.r1) = ofFn16 fun p => byte x (rotIdx1024 3 p) := by
  simp only [shiftRows, mm_shuffle_epi8, maskQ1024, maskP1024, X8.shuffle, X8.get, ofFn16, pack16, byte,
    pshufbLane, mm_set_epi64x, rotIdx1024]
  bv_decide

theorem maskQ1024_2 (x : BitVec 128) :
    shiftRows (mm_shuffle_epi8 x maskQ1024.r2) = ofFn16 fun p => byte x (rotIdx1024 5 p) := by
  simp only [shiftRows, mm_shuffle_epi8, maskQ1024, maskP1024, X8.shuffle, X8.get, ofFn16, pack16, byte,
    pshufbLane, mm_set_epi64x, rotIdx1024]
  bv_decide

theorem maskQ1024_3 (x : BitVec 128) :
    shiftRows (mm_shuffle_epi8 x maskQ1024.r3) = ofFn16 fun p => byte x (rotIdx1024 11 p) := by
  simp only [shiftRows, mm_shuffle_epi8, maskQ1024, maskP1024, X8.shuffle, X8.get, ofFn16, pack16, byte,
    pshufbLane, mm_set_epi64x, rotIdx1024]
  bv_decide

theorem maskQ1024_4 (x : BitVec 128) :
    shiftRows (mm_shuffle_epi8 x maskQ1024.r4) = ofFn16 fun p => byte x (rotIdx1024 0 p) := by
  simp only [shiftRows, mm_shuffle_epi8, maskQ1024, maskP1024, X8.shuffle, X8.get, ofFn16, pack16, byte,
    pshufbLane, mm_set_epi64x, rotIdx1024]
  bv_decide

theorem maskQ1024_5 (x : BitVec 128) :
    shiftRows (mm_shuffle_epi8 x maskQ1024.r5) = ofFn16 fun p => byte x (rotIdx1024 2 p) := by
  simp only [shiftRows, mm_shuffle_epi8, maskQ1024, maskP1024, X8.shuffle, X8.get, ofFn16, pack16, byte,
    pshufbLane, mm_set_epi64x, rotIdx1024]
  bv_decide

theorem maskQ1024_6 (x : BitVec 128) :
    shiftRows (mm_shuffle_epi8 x maskQ1024.r6) = ofFn16 fun p => byte x (rotIdx1024 4 p) := by
  simp only [shiftRows, mm_shuffle_epi8, maskQ1024, maskP1024, X8.shuffle, X8.get, ofFn16, pack16, byte,
    pshufbLane, mm_set_epi64x, rotIdx1024]
  bv_decide

theorem maskQ1024_7 (x : BitVec 128) :
    shiftRows (mm_shuffle_epi8 x maskQ1024.r7) = ofFn16 fun p => byte x (rotIdx1024 6 p) := by
  simp only [shiftRows, mm_shuffle_epi8, maskQ1024, maskP1024, X8.shuffle, X8.get, ofFn16, pack16, byte,
    pshufbLane, mm_set_epi64x, rotIdx1024]
  bv_decide

/-- the rotation amounts used above are the specification's ShiftBytes vectors -/
theorem shift_vectors :
    Spec.shiftP 8 = [0, 1, 2, 3, 4, 5, 6, 7] ∧ Spec.shiftQ 8 = [1, 3, 5, 7, 0, 2, 4, 6] ∧
    Spec.shiftP 16 = [0, 1, 2, 3, 4, 5, 6, 11] ∧ Spec.shiftQ 16 = [1, 3, 5, 11, 0, 2, 4, 6] := by
  decide

/-! ## round constants -/

/-- 512-bit variant: the vector xored in by `round(r, ·)` holds, in register `i`, the P constant
    of row `i` in bytes 0..7 and the Q constant of row `i` in bytes 8..15. -/
theorem roundConst_eq : ∀ r, r < 10 → ∀ i, i < 8 →
    (roundConst (BitVec.ofNat 64 r)).get i =
      ofFn16 fun p => if p < 8 then Spec.rcP i p r else Spec.rcQ i (p - 8) r := by
  decide +kernel

/-- 1024-bit variant, P: `const_p[r]` (xored into register 0 only) is the row-0 constant. -/
theorem constP_eq : ∀ r, r < 14 → constP r = ofFn16 fun p => Spec.rcP 0 p r := by
  decide +kernel

/-- the other rows of P get no constant -/
theorem rcP_other : ∀ i, i < 8 → 0 < i → ∀ p, p < 16 → ∀ r, r < 14 → Spec.rcP i p r = 0#8 := by
  decide +kernel

/-- 1024-bit variant, Q: `const_q[r]` is the row-7 constant … -/
theorem constQ_eq : ∀ r, r < 14 → constQ r = ofFn16 fun p => Spec.rcQ 7 p r := by
  decide +kernel

/-- … and `f = set1(ff…ff)` the constant of rows 0..6. -/
theorem ones_eq : ∀ r, r < 14 → ∀ i, i < 7 →
    mm_set1_epi64x 0xffffffffffffffff#64 = ofFn16 fun p => Spec.rcQ i p r := by
  decide +kernel

/-! ## transposes -/

theorem transpose_inv_transpose (x : X8) : transpose_inv (transpose x) = x := by
  obtain ⟨a0, a1, a2, a3, a4, a5, a6, a7⟩ := x
  simp only [transpose_inv, transpose, X8.map, X4.map2, transposeMask, mm_shuffle_epi8, ofFn16, pack16, byte,
    pshufbLane, mm_set_epi64x, mm_shuffle_epi32, mm_unpacklo_epi16, mm_unpackhi_epi16, mm_unpacklo_epi32,
    mm_unpackhi_epi32, mm_unpacklo_epi64, mm_unpackhi_epi64, word, dword, qword, X8.mk.injEq]
  refine ⟨?_, ?_, ?_, ?_, ?_, ?_, ?_, ?_⟩ <;> bv_decide

theorem transpose_b_inv_transpose_b (x : X8) : transpose_b_inv (transpose_b x) = x := by
  obtain ⟨a0, a1, a2, a3, a4, a5, a6, a7⟩ := x
  simp only [transpose_b_inv, transpose_b, mm_unpacklo_epi64, mm_unpackhi_epi64, qword, X8.mk.injEq]
  refine ⟨?_, ?_, ?_, ?_, ?_, ?_, ?_, ?_⟩ <;> bv_decide

theorem transpose_o_b_inv_transpose_o_b (x : X4) : transpose_o_b_inv (transpose_o_b x) = x := by
  obtain ⟨a0, a1, a2, a3⟩ := x
  simp only [transpose_o_b_inv, transpose_o_b, X4.map2, mm_unpacklo_epi64, mm_unpackhi_epi64, mm_cvtsi64_si128,
    qword, X4.mk.injEq]
  refine ⟨?_, ?_, ?_, ?_⟩ <;> bv_decide

/-- Layout after `transpose_a`: the input registers hold the 64 bytes of a block in memory order
    (byte `8j+i` = row `i`, column `j`, so register `m` holds columns `2m, 2m+1`); output register `k`
    holds row `2k` in bytes 0..7 and row `2k+1` in bytes 8..15, byte `c` of a row = column `c`. -/
theorem transpose_a_layout (d : X4) :
    transpose_a d =
      ⟨ofFn16 fun p => byte (d.get (p % 8 / 2)) (8 * (p % 8 % 2) + (0 + p / 8)),
       ofFn16 fun p => byte (d.get (p % 8 / 2)) (8 * (p % 8 % 2) + (2 + p / 8)),
       ofFn16 fun p => byte (d.get (p % 8 / 2)) (8 * (p % 8 % 2) + (4 + p / 8)),
       ofFn16 fun p => byte (d.get (p % 8 / 2)) (8 * (p % 8 % 2) + (6 + p / 8))⟩ := by
  obtain ⟨a0, a1, a2, a3⟩ := d
  simp only [transpose_a, X4.map, transposeMask, mm_shuffle_epi8, ofFn16, pack16, byte, X4.get,
    pshufbLane, mm_set_epi64x, mm_shuffle_epi32, mm_unpacklo_epi16, mm_unpackhi_epi16, mm_unpacklo_epi32,
    mm_unpackhi_epi32, word, dword, X4.mk.injEq]
  refine ⟨?_, ?_, ?_, ?_⟩ <;> bv_decide

/-- Layout after `transpose` (1024-bit): input register `m` holds columns `2m, 2m+1` of the block;
    output register `i` holds row `i`, byte `c` = column `c`. -/
theorem transpose_layout (d : X8) :
    transpose d =
      ⟨ofFn16 fun c => byte (d.get (c / 2)) (8 * (c % 2) + 0),
       ofFn16 fun c => byte (d.get (c / 2)) (8 * (c % 2) + 1),
       ofFn16 fun c => byte (d.get (c / 2)) (8 * (c % 2) + 2),
       ofFn16 fun c => byte (d.get (c / 2)) (8 * (c % 2) + 3),
       ofFn16 fun c => byte (d.get (c / 2)) (8 * (c % 2) + 4),
       ofFn16 fun c => byte (d.get (c / 2)) (8 * (c % 2) + 5),
       ofFn16 fun c => byte (d.get (c / 2)) (8 * (c % 2) + 6),
       ofFn16 fun c => byte (d.get (c / 2)) (8 * (c % 2) + 7)⟩ := by
  obtain ⟨a0, a1, a2, a3, a4, a5, a6, a7⟩ := d
  simp only [transpose, X8.map, X4.map2, transposeMask, mm_shuffle_epi8, ofFn16, pack16, byte, X8.get,
    pshufbLane, mm_set_epi64x, mm_shuffle_epi32, mm_unpacklo_epi16, mm_unpackhi_epi16, mm_unpacklo_epi32,
    mm_unpackhi_epi32, mm_unpacklo_epi64, mm_unpackhi_epi64, word, dword, qword, X8.mk.injEq]
  refine ⟨?_, ?_, ?_, ?_, ?_, ?_, ?_, ?_⟩ <;> bv_decide

/-- Layout after `transpose_inv`: back to memory order — output register `m`, byte `q` is
    row `q % 8` of column `2m + q / 8`. -/
theorem transpose_inv_layout (x : X8) :
    transpose_inv x =
      ⟨ofFn16 fun q => byte (x.get (q % 8)) (0 + q / 8),
       ofFn16 fun q => byte (x.get (q % 8)) (2 + q / 8),
       ofFn16 fun q => byte (x.get (q % 8)) (4 + q / 8),
       ofFn16 fun q => byte (x.get (q % 8)) (6 + q / 8),
       ofFn16 fun q => byte (x.get (q % 8)) (8 + q / 8),
       ofFn16 fun q => byte (x.get (q % 8)) (10 + q / 8),
       ofFn16 fun q => byte (x.get (q % 8)) (12 + q / 8),
       ofFn16 fun q => byte (x.get (q % 8)) (14 + q / 8)⟩ := by
  obtain ⟨a0, a1, a2, a3, a4, a5, a6, a7⟩ := x
  simp only [transpose_inv, X8.map, transposeMask, mm_shuffle_epi8, ofFn16, pack16, byte, X8.get,
    pshufbLane, mm_set_epi64x, mm_shuffle_epi32, mm_unpacklo_epi16, mm_unpackhi_epi16, mm_unpacklo_epi32,
    mm_unpackhi_epi32, mm_unpacklo_epi64, mm_unpackhi_epi64, word, dword, qword, X8.mk.injEq]
  refine ⟨?_, ?_, ?_, ?_, ?_, ?_, ?_, ?_⟩ <;> bv_decide

/-! ## the Groestl224 output word -/

open CC in
theorem trunc224 (w4 w5 w6 w7 : BitVec 64) :
    toLe32 ((w4 >>> 32).setWidth 32) ++ leWords [w5, w6, w7] = (leWords [w4, w5, w6, w7]).drop 4 := by
  simp only [leWords, toLe32, toLe64, List.flatMap_cons, List.flatMap_nil, List.append_nil,
    List.cons_append, List.nil_append, List.drop_succ_cons, List.drop_zero, List.cons.injEq, and_true]
  refine ⟨?_, ?_, ?_, ?_⟩ <;> bv_decide


end CC.Groestl
