/-
  CC.Groestl.Vec512 — official test vector Grøstl-512("") evaluated in the kernel, for the
  specification and for the implementation model (about 3–4 min / 13–16 GB each).
-/
import CC.Groestl.Vec256
namespace CC.Groestl
open CC

theorem spec_512_empty :
    some (Spec.groestl 512 []) =
      bytesOfHex "6d3ad29d279110eef3adbd66de2a0345a77baede1557f5d099fce0c03d6dc2ba8e6d4a6633dfbd66053c20faa87d1a11f39a7fbe4a6c2f009801370308fc4ad8" := by
  decide +kernel

theorem model_512_empty :
    outOpt (Model.digest .debug .g512 []) =
      bytesOfHex "6d3ad29d279110eef3adbd66de2a0345a77baede1557f5d099fce0c03d6dc2ba8e6d4a6633dfbd66053c20faa87d1a11f39a7fbe4a6c2f009801370308fc4ad8" := by
  decide +kernel

end CC.Groestl
