/-
  CC.Groestl.Model — model of `/repo/hashes/groestl/src/compressor.rs` and `src/lib.rs`,
  statement by statement, over `BitVec 128` registers with the intrinsic meanings of
  `CC.Groestl.Intrin`.  Machine integers are `BitVec 64`; `Profile.debug` makes rustc's checked
  additions (`block_counter += 1`, `block_counter + 1 + …`) panic on overflow, `release` wraps.
-/
import CC.Prim
import CC.Buffer.BlockBuffer
import CC.Groestl.Intrin
namespace CC.Groestl.Model
open CC CC.Buffer CC.Groestl.Intrin

/-! ## compressor.rs -/

/-- `pub struct X4(__m128i, __m128i, __m128i, __m128i)` -/
structure X4 where
  r0 : BitVec 128
  r1 : BitVec 128
  r2 : BitVec 128
  r3 : BitVec 128
  deriving DecidableEq, Repr

/-- `pub struct X8(__m128i × 8)` -/
structure X8 where
  r0 : BitVec 128
  r1 : BitVec 128
  r2 : BitVec 128
  r3 : BitVec 128
  r4 : BitVec 128
  r5 : BitVec 128
  r6 : BitVec 128
  r7 : BitVec 128
  deriving DecidableEq, Repr

def X4.map (f : BitVec 128 → BitVec 128) (a : X4) : X4 := ⟨f a.r0, f a.r1, f a.r2, f a.r3⟩
/-- `(X4, X4).map(f)` -/
def X4.map2 (f : BitVec 128 → BitVec 128 → BitVec 128) (a b : X4) : X4 :=
  ⟨f a.r0 b.r0, f a.r1 b.r1, f a.r2 b.r2, f a.r3 b.r3⟩
/-- `impl BitXor for X4` -/
def X4.xor (a b : X4) : X4 := X4.map2 mm_xor_si128 a b

/-- register `m` of an `X4` -/
def X4.get (a : X4) : Nat → BitVec 128
  | 0 => a.r0 | 1 => a.r1 | 2 => a.r2 | _ => a.r3

def X8.map (f : BitVec 128 → BitVec 128) (a : X8) : X8 :=
  ⟨f a.r0, f a.r1, f a.r2, f a.r3, f a.r4, f a.r5, f a.r6, f a.r7⟩
def X8.map2 (f : BitVec 128 → BitVec 128 → BitVec 128) (a b : X8) : X8 :=
  ⟨f a.r0 b.r0, f a.r1 b.r1, f a.r2 b.r2, f a.r3 b.r3, f a.r4 b.r4, f a.r5 b.r5, f a.r6 b.r6, f a.r7 b.r7⟩
def X8.xor (a b : X8) : X8 := X8.map2 mm_xor_si128 a b

/-- `xs[i]` of `X8::shuffle` -/
def X8.get (a : X8) : Nat → BitVec 128
  | 0 => a.r0 | 1 => a.r1 | 2 => a.r2 | 3 => a.r3 | 4 => a.r4 | 5 => a.r5 | 6 => a.r6 | _ => a.r7

/-- `X8::shuffle(self, i)` -/
def X8.shuffle (a : X8) (i0 i1 i2 i3 i4 i5 i6 i7 : Nat) : X8 :=
  ⟨a.get i0, a.get i1, a.get i2, a.get i3, a.get i4, a.get i5, a.get i6, a.get i7⟩
def X8.rotl1 (a : X8) : X8 := a.shuffle 1 2 3 4 5 6 7 0
def X8.rotl2 (a : X8) : X8 := a.shuffle 2 3 4 5 6 7 0 1
def X8.rotl3 (a : X8) : X8 := a.shuffle 3 4 5 6 7 0 1 2
def X8.rotl4 (a : X8) : X8 := a.shuffle 4 5 6 7 0 1 2 3
def X8.rotl6 (a : X8) : X8 := a.shuffle 6 7 0 1 2 3 4 5

/-- `fn mul2(i)` -/
def mul2 (i : BitVec 128) : BitVec 128 :=
  let all_1b := mm_set1_epi64x 0x1b1b1b1b1b1b1b1b#64
  let j := mm_and_si128 (mm_cmpgt_epi8 (mm_cvtsi64_si128 0#64) i) all_1b
  let i := mm_add_epi8 i i
  mm_xor_si128 i j

/-- the XOR network of `submix` after the `aesenclast` step (MixBytes) -/
def mixNet (a : X8) : X8 :=
  -- t_i = a_i + a_{i+1}
  let t := a.xor a.rotl1
  -- build y4 y5 y6 ... by adding t_i
  let b := (a.rotl2.xor t.rotl4).xor t.rotl6
  -- compute x_i = t_i + t_{i+3}
  let a := t.xor t.rotl3
  -- compute z_i : double x_i ; compute w_i : add y_{i+4}
  let a := (a.map mul2).xor b
  -- compute v_i : double w_i ; add to y_4 y_5 .. v3, v4, ...
  b.xor (a.rotl3.map mul2)

/-- `unsafe fn submix(a: X8) -> X8` -/
def submix (a : X8) : X8 :=
  let b0 := mm_cvtsi64_si128 0#64
  let a := a.map fun x => mm_aesenclast_si128 x b0
  mixNet a

/-- `_mm_set_epi64x(0x0f07_0b03_0e06_0a02, 0x0d05_0901_0c04_0800)` -/
def transposeMask : BitVec 128 := mm_set_epi64x 0x0f070b030e060a02#64 0x0d0509010c040800#64

/-- `transpose_a` -/
def transpose_a (i : X4) : X4 :=
  let mask := transposeMask
  let i := i.map fun x => mm_shuffle_epi8 x mask
  let z := (X4.mk (mm_unpacklo_epi16 i.r0 i.r1) (mm_unpackhi_epi16 i.r0 i.r1)
                  (mm_unpacklo_epi16 i.r2 i.r3) (mm_unpackhi_epi16 i.r2 i.r3)).map
             fun x => mm_shuffle_epi32 x 0b11011000
  ⟨mm_unpacklo_epi32 z.r0 z.r2, mm_unpacklo_epi32 z.r1 z.r3,
   mm_unpackhi_epi32 z.r0 z.r2, mm_unpackhi_epi32 z.r1 z.r3⟩

/-- `transpose_b` -/
def transpose_b (i : X8) : X8 :=
  ⟨mm_unpacklo_epi64 i.r0 i.r4, mm_unpackhi_epi64 i.r0 i.r4,
   mm_unpacklo_epi64 i.r1 i.r5, mm_unpackhi_epi64 i.r1 i.r5,
   mm_unpacklo_epi64 i.r2 i.r6, mm_unpackhi_epi64 i.r2 i.r6,
   mm_unpacklo_epi64 i.r3 i.r7, mm_unpackhi_epi64 i.r3 i.r7⟩

/-- `transpose_b_inv` -/
def transpose_b_inv (i : X8) : X8 :=
  ⟨mm_unpacklo_epi64 i.r0 i.r1, mm_unpacklo_epi64 i.r2 i.r3,
   mm_unpacklo_epi64 i.r4 i.r5, mm_unpacklo_epi64 i.r6 i.r7,
   mm_unpackhi_epi64 i.r0 i.r1, mm_unpackhi_epi64 i.r2 i.r3,
   mm_unpackhi_epi64 i.r4 i.r5, mm_unpackhi_epi64 i.r6 i.r7⟩

/-- `transpose_o_b` -/
def transpose_o_b (i : X4) : X8 :=
  let t0 := mm_cvtsi64_si128 0#64
  ⟨mm_unpacklo_epi64 i.r0 t0, mm_unpackhi_epi64 i.r0 t0,
   mm_unpacklo_epi64 i.r1 t0, mm_unpackhi_epi64 i.r1 t0,
   mm_unpacklo_epi64 i.r2 t0, mm_unpackhi_epi64 i.r2 t0,
   mm_unpacklo_epi64 i.r3 t0, mm_unpackhi_epi64 i.r3 t0⟩

/-- `transpose_o_b_inv` -/
def transpose_o_b_inv (i : X8) : X4 :=
  X4.map2 mm_unpacklo_epi64 ⟨i.r0, i.r2, i.r4, i.r6⟩ ⟨i.r1, i.r3, i.r5, i.r7⟩

/-- `0x0101_0101_0101_0101` -/
def O1 : BitVec 64 := 0x0101010101010101#64

/-- the eight `pshufb` masks of `round` (512-bit variant: P row in the low, Q row in the high half) -/
def roundMask : X8 :=
  ⟨mm_set_epi64x 0x03060a0d08020509#64 0x0c0f0104070b0e00#64,
   mm_set_epi64x 0x04070c0f0a03060b#64 0x0e090205000d0801#64,
   mm_set_epi64x 0x05000e090c04070d#64 0x080b0306010f0a02#64,
   mm_set_epi64x 0x0601080b0e05000f#64 0x0a0d040702090c03#64,
   mm_set_epi64x 0x0702090c0f060108#64 0x0b0e0500030a0d04#64,
   mm_set_epi64x 0x00030b0e0907020a#64 0x0d080601040c0f05#64,
   mm_set_epi64x 0x01040d080b00030c#64 0x0f0a0702050e0906#64,
   mm_set_epi64x 0x02050f0a0d01040e#64 0x090c000306080b07#64⟩

/-- the AddRoundConstant vector of `round(i, ·)` -/
def roundConst (i : BitVec 64) : X8 :=
  let ff := 0xffffffffffffffff#64
  let l0 := mm_set_epi64x ff ((i * O1) ^^^ 0x7060504030201000#64)
  let lx := mm_set_epi64x ff 0#64
  let l7 := mm_set_epi64x ((i * O1) ^^^ 0x8f9fafbfcfdfefff#64) 0#64
  ⟨l0, lx, lx, lx, lx, lx, lx, l7⟩

/-- `unsafe fn round(i: i64, a: X8) -> X8` -/
def round (i : BitVec 64) (a : X8) : X8 :=
  -- AddRoundConstant
  let a := a.xor (roundConst i)
  -- ShiftBytes + SubBytes (interleaved)
  let a := X8.map2 mm_shuffle_epi8 a roundMask
  submix a

/-- `rounds_p_q` -/
def rounds_p_q (p : X8) : X8 :=
  let p := round 0#64 p
  let p := round 1#64 p
  let p := round 2#64 p
  let p := round 3#64 p
  let p := round 4#64 p
  let p := round 5#64 p
  let p := round 6#64 p
  let p := round 7#64 p
  let p := round 8#64 p
  let p := round 9#64 p
  p

/-- four unaligned loads from a 64-byte block -/
def load4 (data : List (BitVec 8)) : X4 :=
  ⟨mm_loadu_si128 data, mm_loadu_si128 (data.drop 16), mm_loadu_si128 (data.drop 32), mm_loadu_si128 (data.drop 48)⟩

/-- `tf512_impl(cv, data)` -/
def tf512_impl (cv : X4) (data : List (BitVec 8)) : X4 :=
  let d := load4 data
  let y := transpose_a d
  let x := X4.map2 mm_xor_si128 cv y
  let p := transpose_b ⟨x.r0, x.r1, x.r2, x.r3, y.r0, y.r1, y.r2, y.r3⟩
  let p := rounds_p_q p
  let p := transpose_b_inv p
  let x : X4 := ⟨mm_xor_si128 p.r0 p.r4, mm_xor_si128 p.r1 p.r5, mm_xor_si128 p.r2 p.r6, mm_xor_si128 p.r3 p.r7⟩
  cv.xor x

/-- `of512_impl(cv)` -/
def of512_impl (cv : X4) : X4 :=
  let p := transpose_o_b cv
  let p := rounds_p_q p
  let p := cv.xor (transpose_o_b_inv p)
  let t := transpose_a p
  { cv with r2 := t.r2, r3 := t.r3 }

/-- `init512_impl(cv)` -/
def init512_impl (cv : X4) : X4 := transpose_a cv

/-- `transpose` (1024-bit state) -/
def transpose (i : X8) : X8 :=
  let i := i.map fun x => mm_shuffle_epi8 x transposeMask
  let eve : X4 := ⟨i.r0, i.r2, i.r4, i.r6⟩
  let odd : X4 := ⟨i.r1, i.r3, i.r5, i.r7⟩
  let i := X4.map2 (fun e o => mm_shuffle_epi32 (mm_unpacklo_epi16 e o) 0b11011000) eve odd
  let t := X4.map2 (fun e o => mm_shuffle_epi32 (mm_unpackhi_epi16 e o) 0b11011000) eve odd
  let t : X8 :=
    ⟨mm_unpacklo_epi32 t.r0 t.r1, mm_unpacklo_epi32 i.r0 i.r1,
     mm_unpacklo_epi32 t.r2 t.r3, mm_unpacklo_epi32 i.r2 i.r3,
     mm_unpackhi_epi32 i.r0 i.r1, mm_unpackhi_epi32 t.r0 t.r1,
     mm_unpackhi_epi32 i.r2 i.r3, mm_unpackhi_epi32 t.r2 t.r3⟩
  ⟨mm_unpacklo_epi64 t.r1 t.r3, mm_unpackhi_epi64 t.r1 t.r3,
   mm_unpacklo_epi64 t.r0 t.r2, mm_unpackhi_epi64 t.r0 t.r2,
   mm_unpacklo_epi64 t.r4 t.r6, mm_unpackhi_epi64 t.r4 t.r6,
   mm_unpacklo_epi64 t.r5 t.r7, mm_unpackhi_epi64 t.r5 t.r7⟩

/-- `transpose_inv` -/
def transpose_inv (i : X8) : X8 :=
  let i := (X8.mk
    (mm_unpacklo_epi64 i.r0 i.r1) (mm_unpackhi_epi64 i.r0 i.r1)
    (mm_unpacklo_epi64 i.r2 i.r3) (mm_unpackhi_epi64 i.r2 i.r3)
    (mm_unpacklo_epi64 i.r4 i.r5) (mm_unpackhi_epi64 i.r4 i.r5)
    (mm_unpacklo_epi64 i.r6 i.r7) (mm_unpackhi_epi64 i.r6 i.r7)).map
      fun x => mm_shuffle_epi8 x transposeMask
  let i := (X8.mk
    (mm_unpacklo_epi16 i.r0 i.r2) (mm_unpacklo_epi16 i.r1 i.r3)
    (mm_unpackhi_epi16 i.r0 i.r2) (mm_unpackhi_epi16 i.r1 i.r3)
    (mm_unpacklo_epi16 i.r4 i.r6) (mm_unpacklo_epi16 i.r5 i.r7)
    (mm_unpackhi_epi16 i.r4 i.r6) (mm_unpackhi_epi16 i.r5 i.r7)).map
      fun x => mm_shuffle_epi32 x 0b11011000
  ⟨mm_unpacklo_epi32 i.r0 i.r4, mm_unpacklo_epi32 i.r2 i.r6,
   mm_unpackhi_epi32 i.r0 i.r4, mm_unpackhi_epi32 i.r2 i.r6,
   mm_unpacklo_epi32 i.r1 i.r5, mm_unpacklo_epi32 i.r3 i.r7,
   mm_unpackhi_epi32 i.r1 i.r5, mm_unpackhi_epi32 i.r3 i.r7⟩

/-- the eight `pshufb` masks of `rounds_p` (1024-bit variant) -/
def maskP1024 : X8 :=
  ⟨mm_set_epi64x 0x0306090c0f020508#64 0x0b0e0104070a0d00#64,
   mm_set_epi64x 0x04070a0d00030609#64 0x0c0f0205080b0e01#64,
   mm_set_epi64x 0x05080b0e0104070a#64 0x0d000306090c0f02#64,
   mm_set_epi64x 0x06090c0f0205080b#64 0x0e0104070a0d0003#64,
   mm_set_epi64x 0x070a0d000306090c#64 0x0f0205080b0e0104#64,
   mm_set_epi64x 0x080b0e0104070a0d#64 0x000306090c0f0205#64,
   mm_set_epi64x 0x090c0f0205080b0e#64 0x0104070a0d000306#64,
   mm_set_epi64x 0x0e0104070a0d0003#64 0x06090c0f0205080b#64⟩

/-- the masks of `rounds_q`: the same eight, `.shuffle((1, 3, 5, 7, 0, 2, 4, 6))` -/
def maskQ1024 : X8 := maskP1024.shuffle 1 3 5 7 0 2 4 6

/-- `const_p[i]` as filled by the first loop of `rounds_p` -/
def constP (i : Nat) : BitVec 128 :=
  let i := BitVec.ofNat 64 i
  mm_set_epi64x ((i * O1) ^^^ 0xf0e0d0c0b0a09080#64) ((i * O1) ^^^ 0x7060504030201000#64)

/-- `const_q[i]` as filled by the first loop of `rounds_q` -/
def constQ (i : Nat) : BitVec 128 :=
  let i := BitVec.ofNat 64 i
  mm_set_epi64x ((i * O1) ^^^ 0x0f1f2f3f4f5f6f7f#64) ((i * O1) ^^^ 0x8f9fafbfcfdfefff#64)

/-- one half-iteration of the `rounds_p` loop body -/
def stepP (c : BitVec 128) (x : X8) : X8 :=
  let x := { x with r0 := mm_xor_si128 x.r0 c }
  let x := X8.map2 mm_shuffle_epi8 x maskP1024
  submix x

/-- one half-iteration of the `rounds_q` loop body -/
def stepQ (c : BitVec 128) (x : X8) : X8 :=
  let f := mm_set1_epi64x 0xffffffffffffffff#64
  let x := X8.map2 mm_shuffle_epi8 (x.xor ⟨f, f, f, f, f, f, f, c⟩) maskQ1024
  submix x

/-- `rounds_p`: `for p in const_p.chunks_exact(2)` — two rounds per iteration, seven iterations -/
def rounds_p (x : X8) : X8 :=
  (List.range 7).foldl (fun x k => stepP (constP (2 * k + 1)) (stepP (constP (2 * k)) x)) x

/-- `rounds_q` -/
def rounds_q (x : X8) : X8 :=
  (List.range 7).foldl (fun x k => stepQ (constQ (2 * k + 1)) (stepQ (constQ (2 * k)) x)) x

/-- `init1024_impl` -/
def init1024_impl (cv : X8) : X8 := transpose cv

/-- eight unaligned loads from a 128-byte block -/
def load8 (data : List (BitVec 8)) : X8 :=
  ⟨mm_loadu_si128 data, mm_loadu_si128 (data.drop 16), mm_loadu_si128 (data.drop 32),
   mm_loadu_si128 (data.drop 48), mm_loadu_si128 (data.drop 64), mm_loadu_si128 (data.drop 80),
   mm_loadu_si128 (data.drop 96), mm_loadu_si128 (data.drop 112)⟩

/-- `tf1024_impl(cv, data)` -/
def tf1024_impl (cv : X8) (data : List (BitVec 8)) : X8 :=
  let p := load8 data
  let q := transpose p
  let cv := cv.xor (rounds_p (cv.xor q))
  let cv := cv.xor (rounds_q q)
  cv

/-- `of1024_impl(cv)` -/
def of1024_impl (cv : X8) : X8 :=
  let p := transpose_inv (cv.xor (rounds_p cv))
  { cv with r4 := p.r4, r5 := p.r5, r6 := p.r6, r7 := p.r7 }

/-! ## lib.rs -/

/-- `transmute!(block)` : `[u64; 8]` → `X4` (little-endian memory image) -/
def X4.ofBlock (w : List (BitVec 64)) : X4 :=
  ⟨w.getD 1 0 ++ w.getD 0 0, w.getD 3 0 ++ w.getD 2 0, w.getD 5 0 ++ w.getD 4 0, w.getD 7 0 ++ w.getD 6 0⟩
/-- `transmute!(cv)` : `X4` → `[u64; 8]` -/
def X4.toBlock (c : X4) : List (BitVec 64) :=
  [qword c.r0 0, qword c.r0 1, qword c.r1 0, qword c.r1 1, qword c.r2 0, qword c.r2 1, qword c.r3 0, qword c.r3 1]
/-- `CvBytes1024 { block }.cv` -/
def X8.ofBlock (w : List (BitVec 64)) : X8 :=
  ⟨w.getD 1 0 ++ w.getD 0 0, w.getD 3 0 ++ w.getD 2 0, w.getD 5 0 ++ w.getD 4 0, w.getD 7 0 ++ w.getD 6 0,
   w.getD 9 0 ++ w.getD 8 0, w.getD 11 0 ++ w.getD 10 0, w.getD 13 0 ++ w.getD 12 0, w.getD 15 0 ++ w.getD 14 0⟩
/-- `CvBytes1024 { cv }.block` -/
def X8.toBlock (c : X8) : List (BitVec 64) :=
  [qword c.r0 0, qword c.r0 1, qword c.r1 0, qword c.r1 1, qword c.r2 0, qword c.r2 1, qword c.r3 0, qword c.r3 1,
   qword c.r4 0, qword c.r4 1, qword c.r5 0, qword c.r5 1, qword c.r6 0, qword c.r6 1, qword c.r7 0, qword c.r7 1]

/-- What `impl_digest!` needs from `Compressor512` / `Compressor1024`. -/
structure Comp (C : Type) where
  /-- `$bits::USIZE / 8`: block size in bytes -/
  b : Nat
  /-- `Compressor::new(block)` -/
  new : List (BitVec 64) → C
  /-- `Compressor::input(&mut self, data)` -/
  input : C → List (BitVec 8) → C
  /-- `Compressor::finalize_dirty(&mut self)` : the compressor afterwards and the returned block -/
  finalizeDirty : C → C × List (BitVec 64)

/-- `Compressor512` -/
def comp512 : Comp X4 where
  b := 64
  new block := init512_impl (X4.ofBlock block)
  input cv data := tf512_impl cv data
  finalizeDirty cv := let cv := of512_impl cv; (cv, cv.toBlock)

/-- `Compressor1024` -/
def comp1024 : Comp X8 where
  b := 128
  new block := init1024_impl (X8.ofBlock block)
  input cv data := tf1024_impl cv data
  finalizeDirty cv := let cv := of1024_impl cv; (cv, cv.toBlock)

/-- the struct generated by `impl_digest!` -/
structure Hasher (C : Type) where
  buffer : BB
  blockCounter : BitVec 64
  compressor : C
  deriving DecidableEq, Repr

/-- `u64::to_be` on a little-endian target: byte swap -/
def toBe (x : BitVec 64) : BitVec 64 := read64le (toBe64 x)

/-- `new_truncated(bits)` -/
def newTruncated {C} (K : Comp C) (bits : Nat) : Hasher C :=
  let n := K.b / 8
  let iv := (List.replicate n (0#64)).set (n - 1) (toBe (BitVec.ofNat 64 (bits % 2 ^ 32)))
  { buffer := BB.init K.b, compressor := K.new iv, blockCounter := 0 }

/-- checked `u64` addition: panics in debug on overflow, wraps in release -/
def checkedAdd (p : Profile) (a b : BitVec 64) : Out (BitVec 64) :=
  if p = .debug ∧ a.toNat + b.toNat ≥ 2 ^ 64 then .panic "attempt to add with overflow" else .ok (a + b)

/-- state threaded through the `input_block` closure; `dead` = the closure has panicked
    (nothing after that point executes) -/
structure Acc (C : Type) where
  ctr : BitVec 64
  comp : C
  dead : Bool

/-- the closure `|b| { *block_counter += 1; compressor.input(b) }` -/
def updStep {C} (K : Comp C) (p : Profile) (a : Acc C) (blk : List (BitVec 8)) : Acc C :=
  if a.dead then a else
  match checkedAdd p a.ctr 1 with
  | .ok c => { ctr := c, comp := K.input a.comp blk, dead := false }
  | _ => { a with dead := true }

/-- `Update::update`, also reporting whether it unwound.  On unwinding the object is left as the
    real one is: `pos` not yet updated, the buffer completed if it was partially filled, counter and
    chaining value as of the last closure call that returned. -/
def updateRaw {C} (K : Comp C) (p : Profile) (h : Hasher C) (data : List (BitVec 8)) : Hasher C × Bool :=
  let (bb, a) := inputBlock K.b h.buffer data (updStep K p) ⟨h.blockCounter, h.compressor, false⟩
  if a.dead then
    let r := K.b - h.buffer.pos
    let buf := if h.buffer.pos != 0 then splice h.buffer.buf h.buffer.pos (data.take r) else h.buffer.buf
    ({ buffer := { buf := buf, pos := h.buffer.pos }, blockCounter := a.ctr, compressor := a.comp }, true)
  else ({ buffer := bb, blockCounter := a.ctr, compressor := a.comp }, false)

/-- `Update::update` -/
def update {C} (K : Comp C) (p : Profile) (h : Hasher C) (data : List (BitVec 8)) : Out (Hasher C) :=
  let (h', dead) := updateRaw K p h data
  if dead then .panic "attempt to add with overflow" else .ok h'

/-- `fn finalize_dirty(&mut self) -> [u64; N]` -/
def finalizeDirty {C} (K : Comp C) (p : Profile) (h : Hasher C) : Out (Hasher C × List (BitVec 64)) := do
  let c1 ← checkedAdd p h.blockCounter 1
  let count ← checkedAdd p c1 (if K.b - h.buffer.pos ≤ 8 then 1#64 else 0#64)
  let (bb, comp) := len64PaddingBe K.b h.buffer count K.input h.compressor
  let (comp, res) := K.finalizeDirty comp
  pure ({ h with buffer := bb, compressor := comp }, res)

/-- the four public types -/
inductive Variant where
  | g224 | g256 | g384 | g512
  deriving DecidableEq, Repr

def Variant.bits : Variant → Nat
  | .g224 => 224 | .g256 => 256 | .g384 => 384 | .g512 => 512

/-- a value of one of `Groestl224(Groestl256)`, `Groestl256`, `Groestl384(Groestl512)`, `Groestl512` -/
inductive Any where
  | g224 (h : Hasher X4)
  | g256 (h : Hasher X4)
  | g384 (h : Hasher X8)
  | g512 (h : Hasher X8)
  deriving DecidableEq, Repr

/-- `Default::default()` of each type -/
def Any.default : Variant → Any
  | .g224 => .g224 (newTruncated comp512 224)          -- Groestl224(Groestl256::new_truncated(224))
  | .g256 => .g256 (newTruncated comp512 (512 / 2))    -- new_truncated($bits::U32 / 2)
  | .g384 => .g384 (newTruncated comp1024 384)
  | .g512 => .g512 (newTruncated comp1024 (1024 / 2))

def Any.variant : Any → Variant
  | .g224 _ => .g224 | .g256 _ => .g256 | .g384 _ => .g384 | .g512 _ => .g512

/-- `Reset::reset`: 224: `self.0 = Groestl256::new_truncated(224)`; the others `*self = Self::default()` -/
def Any.reset : Any → Any
  | .g224 _ => .g224 (newTruncated comp512 224)
  | .g256 _ => Any.default .g256
  | .g384 _ => Any.default .g384
  | .g512 _ => Any.default .g512

def Any.updateRaw (p : Profile) : Any → List (BitVec 8) → Any × Bool
  | .g224 h, d => let (h, x) := Model.updateRaw comp512 p h d; (.g224 h, x)
  | .g256 h, d => let (h, x) := Model.updateRaw comp512 p h d; (.g256 h, x)
  | .g384 h, d => let (h, x) := Model.updateRaw comp1024 p h d; (.g384 h, x)
  | .g512 h, d => let (h, x) := Model.updateRaw comp1024 p h d; (.g512 h, x)

def Any.update (p : Profile) (a : Any) (d : List (BitVec 8)) : Out Any :=
  let (a', dead) := a.updateRaw p d
  if dead then .panic "attempt to add with overflow" else .ok a'

/-- `for (out, &input) in out.chunks_exact_mut(8).zip(&result[k..]) { out = input.to_le_bytes() }` -/
def leWords (ws : List (BitVec 64)) : List (BitVec 8) := ws.flatMap toLe64

/-- `FixedOutputDirty::finalize_into_dirty` of the four types -/
def Any.finalizeIntoDirty (p : Profile) : Any → Out (Any × List (BitVec 8))
  | .g224 h => do
    let (h, result) ← finalizeDirty comp512 p h
    -- out[..4] = ((result[4] >> 32) as u32).to_le_bytes(); out[4..] from result[5..8]
    let w : BitVec 32 := ((result.getD 4 0) >>> 32).setWidth 32
    pure (.g224 h, toLe32 w ++ leWords ((result.drop 5).take 3))
  | .g256 h => do
    let (h, result) ← finalizeDirty comp512 p h
    pure (.g256 h, leWords (result.drop (512 / 128)))
  | .g384 h => do
    let (h, result) ← finalizeDirty comp1024 p h
    pure (.g384 h, leWords (result.drop 10))
  | .g512 h => do
    let (h, result) ← finalizeDirty comp1024 p h
    pure (.g512 h, leWords (result.drop (1024 / 128)))

/-- `FixedOutput::finalize_fixed_reset` (digest 0.9): `finalize_into_dirty` then `reset` -/
def Any.finalizeReset (p : Profile) (a : Any) : Out (Any × List (BitVec 8)) := do
  let (a, out) ← a.finalizeIntoDirty p
  pure (a.reset, out)

/-- `FixedOutput::finalize_fixed(self)` -/
def Any.finalize (p : Profile) (a : Any) : Out (List (BitVec 8)) := do
  let (_, out) ← a.finalizeIntoDirty p
  pure out

/-- hook `verif_set_counter` -/
def Any.setCounter (c : BitVec 64) : Any → Any
  | .g224 h => .g224 { h with blockCounter := c }
  | .g256 h => .g256 { h with blockCounter := c }
  | .g384 h => .g384 { h with blockCounter := c }
  | .g512 h => .g512 { h with blockCounter := c }

/-- hook `verif_get_counter` -/
def Any.getCounter : Any → BitVec 64
  | .g224 h | .g256 h => h.blockCounter
  | .g384 h | .g512 h => h.blockCounter

/-- one-shot digest: `default()`, `update(msg)`, `finalize()` -/
def digest (p : Profile) (v : Variant) (msg : List (BitVec 8)) : Out (List (BitVec 8)) := do
  let a ← (Any.default v).update p msg
  a.finalize p

end CC.Groestl.Model
