/-
  C12 — word-wise vector operations equal their scalar meaning on every backend.
  Property theorems only; the leaves live in CC/Simd/Proof/Leaf*.lean (one `bv_decide` per
  (implementation flavour, operation)), the forwarder lifting in CC/Simd/Proof/Lift.lean, the
  per-(backend, type) assembly in CC/Simd/Proof/{Records,RecordsAvx2,Table}.lean.

  `impl b τ`   : the transcription of what the Rust does on backend `b` for vector type `τ`
                 (CC/Simd/Impl*.lean over the intrinsic models of CC/X86/Intrin.lean),
  `meaning τ`  : the backend-free scalar meaning (CC/Simd/Meaning.lean),
  `OpAgree`    : "computes the same function on every operand" (CC/Simd/Agree.lean).
-/
import CC.Simd.Proof.Table
import CC.Simd.SrcPort
import CC.Simd.SrcX86
namespace CC.Thm.C12
open CC CC.Simd

/-- The (backend, type, operation) triples the model and the harness exercise: everything the
    trait bounds of `types.rs` require plus the extras of `CC.Simd.extras`. -/
def leafTable : List (Backend × Ty × OpK) :=
  Backend.all.flatMap fun b => Ty.all.flatMap fun τ => (provided b τ).map fun o => (b, τ, o)

/-- **C12 (and the "equals the backend-free meaning" half of C13).**  For every backend, every
    vector type and every operation provided for it, the implementation computes exactly the
    scalar meaning — on all operands (all in-range indices; all byte strings of the storage
    size). -/
theorem leaf (b : Backend) (τ : Ty) (o : OpK) (h : o ∈ provided b τ) :
    OpAgree τ.count (impl b τ) (meaning τ) o :=
  Table.agrees b τ o (Table.provided_covered b τ o h)

/-- Every operation the trait bounds require is provided (so `leaf` covers it), on every backend. -/
theorem required_provided (b : Backend) (τ : Ty) (o : OpK) (h : o ∈ required τ) : o ∈ provided b τ :=
  List.mem_append_left _ h

/-- Completeness of the table: every required (backend, type, operation) triple is in it. -/
theorem leafTable_complete (b : Backend) (τ : Ty) (o : OpK) (h : o ∈ required τ) :
    (b, τ, o) ∈ leafTable := by
  simp only [leafTable, List.mem_flatMap, List.mem_map]
  refine ⟨b, ?_, τ, ?_, o, required_provided b τ o h, rfl⟩
  · cases b <;> decide
  · cases τ <;> decide

/-- Soundness of the table: every entry has its theorem. -/
theorem leafTable_sound (t : Backend × Ty × OpK) (h : t ∈ leafTable) :
    OpAgree t.2.1.count (impl t.1 t.2.1) (meaning t.2.1) t.2.2 := by
  simp only [leafTable, List.mem_flatMap, List.mem_map] at h
  obtain ⟨b, _, τ, _, o, ho, rfl⟩ := h
  exact leaf b τ o ho

/-- `transpose4` (u32x4x4 only; not a field of the per-type record) on every backend. -/
theorem transpose4_eq (b : Backend) (a c d e : BitVec 512) :
    implTranspose4 b a c d e = transpose4_512 a c d e := Table.transpose4 b a c d e

/-- **Source tie, x86 backend (word-wise operations).**  `impl b τ` for the five x86 backends is assembled from the
    hand-written intrinsic sequences of `CC/Simd/Impl/X86.lean`, `X86Wide.lean`.  On every run
    `tools/inventory_simdx86.py` re-translates `ppv-lite86/src/x86_64/sse2.rs` (incl. `mod avx2`; every impl block, macro
    bodies expanded with the invocation's arguments, trait methods resolved per `S3` / `S4` flag combination) into
    `CC.Gen.SimdX86Src`, and the hand-written `+ & | ^ andnot !` (and their `*Assign` forms), every
    `rotate_each_word_right<k>`, `shuffle*`, `shuffle_lane_words*`, `bswap`, `swap<k>` of `u32x4_sse2`, `u64x2_sse2`,
    `u128x1_sse2`, `u64x4_sse2`, `u32x4x2_avx2` EQUAL the translation (`CC.Src.X86WordTie`, lean/CC/Simd/SrcX86.lean);
    the associated types of `impl Machine for SseMachine<S3, S4, NI>` / `for Avx2Machine<NI>` and the aliases
    `SSE2 … AVX2` of mod.rs, read back through `CC.Src.srcImpl`, select exactly the records of `impl b τ`;
    nothing was left untranslated; the rows "which macro defines which rotation for which flag", the item-level macro
    invocation lists, the list of skipped impl blocks (`Debug`, `PartialEq`, `Machine`) and the list of translated
    definitions are the expected ones. -/
theorem source_x86_match :
    CC.Src.X86WordTie ∧
    (∀ b τ, b ≠ .generic → CC.Src.srcImpl b τ = some (impl b τ)) ∧
    CC.Gen.SimdX86Src.macro_rows.length = 86 ∧ CC.Gen.SimdX86Src.invocation_rows.length = 53 ∧
    CC.Gen.SimdX86Src.skipped_rows.length = 14 ∧ CC.Gen.SimdX86Src.def_rows.length = 230 :=
  ⟨CC.Src.src_x86_word, CC.Src.src_x86_machine_types, by rw [CC.Src.src_x86_macro_rows]; rfl, by rw [CC.Src.src_x86_invocation_rows]; rfl,
   by rw [CC.Src.src_x86_skipped_rows]; rfl, by rw [CC.Src.src_x86_def_rows]; rfl⟩

/-! ### non-vacuity: the table is not empty, the statements are about real functions, and the
    implementation side really is the intrinsic sequence (byte-counting operands) -/

example : leafTable.length = 1611 := by decide +kernel
example : (Backend.ssse3, Ty.u32x4, OpK.rotr 8) ∈ leafTable := by decide +kernel
example : (Backend.sse2, Ty.u128x4, OpK.swap 16) ∈ leafTable := by decide +kernel

/-- `impl` selects the Rust types of `impl Machine for …` -/
example : impl .ssse3 .u32x4 = Impl.X86.u32x4 true false := rfl
example : impl .avx2 .u32x4x2 = Impl.Avx2.u32x4x2 := rfl
example : impl .avx2 .u64x4 = Impl.X86.u64x4 true true := rfl
example : impl .generic .u128x4 = Impl.Soft.x4 Impl.Generic.u128x1 := rfl

/-- SSSE3 `rotate_each_word_right8` (one `pshufb`) on bytes 00 01 … 0f -/
example : (Impl.X86.u32x4 true false).rotr 8 0x0f0e0d0c0b0a09080706050403020100#128
    = 0x0c0f0e0d080b0a090407060500030201#128 := by decide +kernel
/-- SSE2 `bswap` (`bswap32_s2`: unpack / shuffle / pack) -/
example : (Impl.X86.u32x4 false false).bswap 0x0f0e0d0c0b0a09080706050403020100#128
    = 0x0c0d0e0f08090a0b0405060700010203#128 := by decide +kernel
/-- the carry of a word-wise addition does not cross the word boundary -/
example : Impl.Avx2.u32x4x2.add (BitVec.allOnes 256) 1#256
    = 0xffffffffffffffffffffffffffffffffffffffffffffffffffffffff00000000#256 := by decide +kernel
/-- x86 `u128x1` rotation carries bits across the 64-bit halves -/
example : (Impl.X86.u128x1 true).rotr 8 0x0f0e0d0c0b0a09080706050403020100#128
    = 0x000f0e0d0c0b0a090807060504030201#128 := by decide +kernel

/-- **Source tie, portable backend (word-wise operations).**  `generic.rs` (`u32x4_generic`, `u64x2_generic`,
    `u128x1_generic`, `u64x4_generic`) and `soft.rs` (`x2<W,G>`, `x4<W>`), regenerated from the repository's current
    source by tools/inventory_simdport.py, equal the hand-written `Impl.Generic` / `Impl.Soft` operation by operation
    (fields of `CC.Src.PortWordwise`; individual facts `CC.Src.src_port_*` in lean/CC/Simd/SrcPort.lean). -/
theorem source_portable_match : CC.Src.PortWordwise := CC.Src.portWordwise

end CC.Thm.C12
