/-
  C09 — Threefish-256/512/1024 encryption conforms to Skein 1.3 §3.3.
  Property theorems only; helper lemmas live in CC/Threefish/Lemmas.lean.
-/
import CC.Threefish.Lemmas
namespace CC.Thm.C09
open CC CC.Threefish CC.Threefish.Model

/-- For the three instantiations of `impl_threefish!`, in either expansion of `unroll8!`, every key, every
    tweak and every block: `with_tweak(key, t0, t1).encrypt_block(block)` is the Threefish of the
    Skein 1.3 document (own key schedule, `MIX` with Table 4, the document's permutation π, 72/72/80
    rounds, little-endian words).  (Byte strings shorter than `8·n_w` are read as zero-extended on both
    sides; the Rust types fix the lengths at `8·n_w`.) -/
theorem threefish_conforms (sh : Shape) (p : Params) (hp : p ∈ [tf256, tf512, tf1024])
    (key : List (BitVec 8)) (t0 t1 : BitVec 64) (blk : List (BitVec 8)) :
    Model.encrypt sh p key t0 t1 blk = Spec.threefish p.nw key t0 t1 blk :=
  encrypt_spec (good_of_mem hp) sh key t0 t1 blk

/-- The two expansions of `unroll8!` / `unroll8_rev!` (eight literal copies with constant `d`; `for d in 0..8`,
    feature `no_unroll`) compute the same function — for any body, hence for encryption and decryption
    with any parameters. -/
theorem unroll_eq_loop (p : Params) (key : List (BitVec 8)) (t0 t1 : BitVec 64) (blk : List (BitVec 8)) :
    (∀ body v, unroll8 .unrolled body v = unroll8 .loop body v) ∧
    (∀ body v, unroll8Rev .unrolled body v = unroll8Rev .loop body v) ∧
    Model.encrypt .unrolled p key t0 t1 blk = Model.encrypt .loop p key t0 t1 blk ∧
    Model.decrypt .unrolled p key t0 t1 blk = Model.decrypt .loop p key t0 t1 blk := by
  refine ⟨fun _ _ => rfl, fun _ _ => rfl, ?_, ?_⟩
  · simp only [Model.encrypt, encryptBlock, encWords_eq]
  · simp only [Model.decrypt, decryptBlock, decWords_eq]

/-- The constant tables of consts.rs against the document: `P_*` is the inverse of Table 3's π
    (`v[P[k]] = f[k]` ⇔ `v[i] = f[π(i)]`), both are permutations of `0 … n_w-1`; `R_*` is Table 4;
    the round counts are 72/72/80 (multiples of 8, as the `for i in 0..rounds/8` loop needs). -/
theorem P_tables : ∀ p ∈ [tf256, tf512, tf1024],
    p.perm.length = p.nw ∧ (Spec.π p.nw).length = p.nw ∧
    (∀ i < p.nw, p.perm.getD ((Spec.π p.nw).getD i p.nw) p.nw = i ∧
                 (Spec.π p.nw).getD (p.perm.getD i p.nw) p.nw = i) ∧
    p.rot = Spec.R p.nw ∧ p.rounds = Spec.Nr p.nw ∧ p.rounds % 8 = 0 ∧
    p.rot.length = 8 ∧ (∀ row ∈ p.rot, row.length = p.nw / 2 ∧ ∀ r ∈ row, r < 64) := by
  decide

/-! Non-vacuity / validation of Spec and Model on the repository's (NIST submission) vectors. -/

def hexb (s : String) : List (BitVec 8) := (bytesOfHex s).getD []

example : Spec.threefish 4 (List.replicate 32 0) 0 0 (List.replicate 32 0)
    = hexb "84da2a1f8beaee947066ae3e3103f1ad536db1f4a1192495116b9f3ce6133fd8" := by decide +kernel
example : Model.encrypt .unrolled tf256 (List.replicate 32 0) 0 0 (List.replicate 32 0)
    = hexb "84da2a1f8beaee947066ae3e3103f1ad536db1f4a1192495116b9f3ce6133fd8" := by decide +kernel
example : Spec.threefish 4 ((List.range 32).map fun i => BitVec.ofNat 8 (0x10 + i))
      0x0706050403020100#64 0x0f0e0d0c0b0a0908#64 ((List.range 32).map fun i => BitVec.ofNat 8 (0xff - i))
    = hexb "e0d091ff0eea8fdfc98192e62ed80ad59d865d08588df476657056b5955e97df" := by decide +kernel
example : Model.encrypt .loop tf256 ((List.range 32).map fun i => BitVec.ofNat 8 (0x10 + i))
      0x0706050403020100#64 0x0f0e0d0c0b0a0908#64 ((List.range 32).map fun i => BitVec.ofNat 8 (0xff - i))
    = hexb "e0d091ff0eea8fdfc98192e62ed80ad59d865d08588df476657056b5955e97df" := by decide +kernel
example : Spec.threefish 8 (List.replicate 64 0) 0 0 (List.replicate 64 0)
    = hexb ("b1a2bbc6ef6025bc40eb3822161f36e375d1bb0aee3186fbd19e47c5d479947b" ++
            "7bc2f8586e35f0cff7e7f03084b0b7b1f1ab3961a580a3e97eb41ea14a6d7bbe") := by decide +kernel
example : Spec.threefish 8 ((List.range 64).map fun i => BitVec.ofNat 8 (0x10 + i))
      0x0706050403020100#64 0x0f0e0d0c0b0a0908#64 ((List.range 64).map fun i => BitVec.ofNat 8 (0xff - i))
    = hexb ("e304439626d45a2cb401cad8d636249a6338330eb06d45dd8b36b90e97254779" ++
            "272a0a8d99463504784420ea18c9a725af11dffea10162348927673d5c1caf3d") := by decide +kernel
example : Spec.threefish 16 (List.replicate 128 0) 0 0 (List.replicate 128 0)
    = hexb ("f05c3d0a3d05b304f785ddc7d1e036015c8aa76e2f217b06c6e1544c0bc1a90d" ++
            "f0accb9473c24e0fd54fea68057f43329cb454761d6df5cf7b2e9b3614fbd5a2" ++
            "0b2e4760b40603540d82eabc5482c171c832afbe68406bc39500367a592943fa" ++
            "9a5b4a43286ca3c4cf46104b443143d560a4b230488311df4feef7e1dfe8391e") := by decide +kernel
example : Spec.threefish 16 ((List.range 128).map fun i => BitVec.ofNat 8 (0x10 + i))
      0x0706050403020100#64 0x0f0e0d0c0b0a0908#64 ((List.range 128).map fun i => BitVec.ofNat 8 (0xff - i))
    = hexb ("a6654ddbd73cc3b05dd777105aa849bce49372eaaffc5568d254771bab85531c" ++
            "94f780e7ffaae430d5d8af8c70eebbe1760f3b42b737a89cb363490d670314bd" ++
            "8aa41ee63c2e1f45fbd477922f8360b388d6125ea6c7af0ad7056d01796e90c8" ++
            "3313f4150a5716b30ed5f569288ae974ce2b4347926fce57de44512177dd7cde") := by decide +kernel
example : Model.encrypt .unrolled tf1024 ((List.range 128).map fun i => BitVec.ofNat 8 (0x10 + i))
      0x0706050403020100#64 0x0f0e0d0c0b0a0908#64 ((List.range 128).map fun i => BitVec.ofNat 8 (0xff - i))
    = Spec.threefish 16 ((List.range 128).map fun i => BitVec.ofNat 8 (0x10 + i))
      0x0706050403020100#64 0x0f0e0d0c0b0a0908#64 ((List.range 128).map fun i => BitVec.ofNat 8 (0xff - i)) :=
  threefish_conforms _ _ (by simp) _ _ _ _

end CC.Thm.C09
