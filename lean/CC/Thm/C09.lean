/-
  C09 — Threefish-256/512/1024 encryption conforms to Skein 1.3 §3.3.
  Property theorems only; helper lemmas live in CC/Threefish/Lemmas.lean.
-/
import CC.Threefish.Lemmas
import CC.Threefish.Src
import CC.Thm.C10
namespace CC.Thm.C09
open CC CC.Threefish CC.Threefish.Model

/-- For the three instantiations of `impl_threefish!`, in either expansion of `unroll8!`, every key, every
    tweak and every block: `with_tweak(key, t0, t1).encrypt_block(block)` is the Threefish of the
    Skein 1.3 document (own key schedule, `MIX` with Table 4, the document's permutation π, 72/72/80
    rounds, little-endian words).  (Byte strings shorter than `8·n_w` are read as zero-extended on both
    sides; the Rust types fix the lengths at `8·n_w`.) -/
theorem threefish_conforms (sh : Shape) (p : Params) (hp : p ∈ [tf256, tf512, tf1024])
    (key : List (BitVec 8)) (t0 t1 : BitVec 64) (blk : List (BitVec 8)) :
    Model.encrypt sh p key t0 t1 blk = Spec.threefish p.nw key t0 t1 blk :=
  encrypt_spec (good_of_mem hp) sh key t0 t1 blk

/-- The two expansions of `unroll8!` / `unroll8_rev!` (eight literal copies with constant `d`; `for d in 0..8`,
    feature `no_unroll`) compute the same function — for any body, hence for encryption and decryption
    with any parameters. -/
theorem unroll_eq_loop (p : Params) (key : List (BitVec 8)) (t0 t1 : BitVec 64) (blk : List (BitVec 8)) :
    (∀ body v, unroll8 .unrolled body v = unroll8 .loop body v) ∧
    (∀ body v, unroll8Rev .unrolled body v = unroll8Rev .loop body v) ∧
    Model.encrypt .unrolled p key t0 t1 blk = Model.encrypt .loop p key t0 t1 blk ∧
    Model.decrypt .unrolled p key t0 t1 blk = Model.decrypt .loop p key t0 t1 blk := by
  refine ⟨fun _ _ => rfl, fun _ _ => rfl, ?_, ?_⟩
  · simp only [Model.encrypt, encryptBlock, encWords_eq]
  · simp only [Model.decrypt, decryptBlock, decWords_eq]

/-- The constant tables of consts.rs against the document: `P_*` is the inverse of Table 3's π
    (`v[P[k]] = f[k]` ⇔ `v[i] = f[π(i)]`), both are permutations of `0 … n_w-1`; `R_*` is Table 4;
    the round counts are 72/72/80 (multiples of 8, as the `for i in 0..rounds/8` loop needs). -/
theorem P_tables : ∀ p ∈ [tf256, tf512, tf1024],
    p.perm.length = p.nw ∧ (Spec.π p.nw).length = p.nw ∧
    (∀ i < p.nw, p.perm.getD ((Spec.π p.nw).getD i p.nw) p.nw = i ∧
                 (Spec.π p.nw).getD (p.perm.getD i p.nw) p.nw = i) ∧
    p.rot = Spec.R p.nw ∧ p.rounds = Spec.Nr p.nw ∧ p.rounds % 8 = 0 ∧
    p.rot.length = 8 ∧ (∀ row ∈ p.rot, row.length = p.nw / 2 ∧ ∀ r ∈ row, r < 64) := by
  decide

/-! Non-vacuity / validation of Spec and Model on the repository's (NIST submission) vectors. -/

def hexb (s : String) : List (BitVec 8) := (bytesOfHex s).getD []

example : Spec.threefish 4 (List.replicate 32 0) 0 0 (List.replicate 32 0)
    = hexb "84da2a1f8beaee947066ae3e3103f1ad536db1f4a1192495116b9f3ce6133fd8" := by decide +kernel
example : Model.encrypt .unrolled tf256 (List.replicate 32 0) 0 0 (List.replicate 32 0)
    = hexb "84da2a1f8beaee947066ae3e3103f1ad536db1f4a1192495116b9f3ce6133fd8" := by decide +kernel
example : Spec.threefish 4 ((List.range 32).map fun i => BitVec.ofNat 8 (0x10 + i))
      0x0706050403020100#64 0x0f0e0d0c0b0a0908#64 ((List.range 32).map fun i => BitVec.ofNat 8 (0xff - i))
    = hexb "e0d091ff0eea8fdfc98192e62ed80ad59d865d08588df476657056b5955e97df" := by decide +kernel
example : Model.encrypt .loop tf256 ((List.range 32).map fun i => BitVec.ofNat 8 (0x10 + i))
      0x0706050403020100#64 0x0f0e0d0c0b0a0908#64 ((List.range 32).map fun i => BitVec.ofNat 8 (0xff - i))
    = hexb "e0d091ff0eea8fdfc98192e62ed80ad59d865d08588df476657056b5955e97df" := by decide +kernel
example : Spec.threefish 8 (List.replicate 64 0) 0 0 (List.replicate 64 0)
    = hexb ("b1a2bbc6ef6025bc40eb3822161f36e375d1bb0aee3186fbd19e47c5d479947b" ++
            "7bc2f8586e35f0cff7e7f03084b0b7b1f1ab3961a580a3e97eb41ea14a6d7bbe") := by decide +kernel
example : Spec.threefish 8 ((List.range 64).map fun i => BitVec.ofNat 8 (0x10 + i))
      0x0706050403020100#64 0x0f0e0d0c0b0a0908#64 ((List.range 64).map fun i => BitVec.ofNat 8 (0xff - i))
    = hexb ("e304439626d45a2cb401cad8d636249a6338330eb06d45dd8b36b90e97254779" ++
            "272a0a8d99463504784420ea18c9a725af11dffea10162348927673d5c1caf3d") := by decide +kernel
example : Spec.threefish 16 (List.replicate 128 0) 0 0 (List.replicate 128 0)
    = hexb ("f05c3d0a3d05b304f785ddc7d1e036015c8aa76e2f217b06c6e1544c0bc1a90d" ++
            "f0accb9473c24e0fd54fea68057f43329cb454761d6df5cf7b2e9b3614fbd5a2" ++
            "0b2e4760b40603540d82eabc5482c171c832afbe68406bc39500367a592943fa" ++
            "9a5b4a43286ca3c4cf46104b443143d560a4b230488311df4feef7e1dfe8391e") := by decide +kernel
example : Spec.threefish 16 ((List.range 128).map fun i => BitVec.ofNat 8 (0x10 + i))
      0x0706050403020100#64 0x0f0e0d0c0b0a0908#64 ((List.range 128).map fun i => BitVec.ofNat 8 (0xff - i))
    = hexb ("a6654ddbd73cc3b05dd777105aa849bce49372eaaffc5568d254771bab85531c" ++
            "94f780e7ffaae430d5d8af8c70eebbe1760f3b42b737a89cb363490d670314bd" ++
            "8aa41ee63c2e1f45fbd477922f8360b388d6125ea6c7af0ad7056d01796e90c8" ++
            "3313f4150a5716b30ed5f569288ae974ce2b4347926fce57de44512177dd7cde") := by decide +kernel
example : Model.encrypt .unrolled tf1024 ((List.range 128).map fun i => BitVec.ofNat 8 (0x10 + i))
      0x0706050403020100#64 0x0f0e0d0c0b0a0908#64 ((List.range 128).map fun i => BitVec.ofNat 8 (0xff - i))
    = Spec.threefish 16 ((List.range 128).map fun i => BitVec.ofNat 8 (0x10 + i))
      0x0706050403020100#64 0x0f0e0d0c0b0a0908#64 ((List.range 128).map fun i => BitVec.ofNat 8 (0xff - i)) :=
  threefish_conforms _ _ (by simp) _ _ _ _

/-- **Source tie.**  `mix` and `inv_mix` of block-ciphers/threefish/src/lib.rs, as TRANSLATED from the Rust source on
    every run (tools/inventory_kernels.py → `CC.Gen.Kernels`), equal the model's `mix` / `invMix`; `C240`, the
    rotation tables `R_256/512/1024`, the word permutations `P_256/512/1024` of consts.rs equal the model's; the
    three `impl_threefish!` invocations (rounds, words, rotation table, permutation) are `tf256`, `tf512`, `tf1024`.
    Individual facts: `CC.Src.src_threefish_*` (lean/CC/Threefish/Src.lean).  The macro body (key schedule, round
    loops) is not translated; it stays tied by the differential correspondence. -/
theorem source_kernels_match :
    CC.Gen.Kernels.threefish_errors = [] ∧
    (mix = fun r x => CC.Gen.Kernels.threefish_mix r x.1 x.2) ∧
    (invMix = fun r y => CC.Gen.Kernels.threefish_inv_mix r y.1 y.2) ∧
    C240 = CC.Gen.Kernels.threefish_C240 ∧
    R_256 = CC.Gen.Kernels.threefish_R_256 ∧ R_512 = CC.Gen.Kernels.threefish_R_512 ∧
    R_1024 = CC.Gen.Kernels.threefish_R_1024 ∧
    P_256 = CC.Gen.Kernels.threefish_P_256 ∧ P_512 = CC.Gen.Kernels.threefish_P_512 ∧
    P_1024 = CC.Gen.Kernels.threefish_P_1024 ∧
    (CC.Gen.Kernels.threefish_impl_threefish.map
        (fun r => (r.1, (⟨r.2.1, r.2.2.1, CC.Src.tfRot r.2.2.2.2.1, CC.Src.tfPerm r.2.2.2.2.2⟩ : Params)))
      = [("Threefish256", tf256), ("Threefish512", tf512), ("Threefish1024", tf1024)] ∧
     CC.Gen.Kernels.threefish_impl_threefish.map (fun r => r.2.2.2.1) = [8 * tf256.nw, 8 * tf512.nw, 8 * tf1024.nw]) :=
  ⟨CC.Src.src_threefish_clean, CC.Src.src_threefish_mix, CC.Src.src_threefish_inv_mix, CC.Src.src_threefish_C240,
   CC.Src.src_threefish_R_256, CC.Src.src_threefish_R_512, CC.Src.src_threefish_R_1024,
   CC.Src.src_threefish_P_256, CC.Src.src_threefish_P_512, CC.Src.src_threefish_P_1024,
   CC.Src.src_threefish_instances⟩

/-- **Source tie, macro body.**  The body of `impl_threefish!` for the three instantiations, as TRANSLATED from the Rust on
    every run (tools/inventory_kernels_code.py → `CC.Gen.Kernels`): the key schedule `with_tweak` (loops unrolled: every
    subkey word is one expression of the key words and the tweak), `encrypt_block` and `decrypt_block` (bytes → bytes:
    `read_u64v_le`, the round loops as `List.foldl` over `List.range`, `write_u64v_le`) in BOTH shapes of `unroll8!` /
    `unroll8_rev!` (default and feature `no_unroll`) equal the model's `withTweak`, `encryptBlock`, `decryptBlock`.
    Every index of the macro body is proved in range by the translator's interval analysis.
    Individual facts: `CC.Src.src_threefish*` (lean/CC/Threefish/Src.lean). -/
theorem source_code_match :
    CC.Gen.Kernels.threefish_errors = [] ∧
    (∀ (key : List (BitVec 8)) (t0 t1 : BitVec 64),
      withTweak tf256 key t0 t1 = CC.Gen.Kernels.threefish256_with_tweak key t0 t1) ∧
    (∀ (sk : List (List (BitVec 64))) (block : List (BitVec 8)),
      encryptBlock .unrolled tf256 sk block = CC.Gen.Kernels.threefish256_encrypt_block sk block) ∧
    (∀ (sk : List (List (BitVec 64))) (block : List (BitVec 8)),
      encryptBlock .loop tf256 sk block = CC.Gen.Kernels.threefish256_encrypt_block_no_unroll sk block) ∧
    (∀ (sk : List (List (BitVec 64))) (block : List (BitVec 8)),
      decryptBlock .unrolled tf256 sk block = CC.Gen.Kernels.threefish256_decrypt_block sk block) ∧
    (∀ (sk : List (List (BitVec 64))) (block : List (BitVec 8)),
      decryptBlock .loop tf256 sk block = CC.Gen.Kernels.threefish256_decrypt_block_no_unroll sk block) ∧
    (∀ (key : List (BitVec 8)) (t0 t1 : BitVec 64),
      withTweak tf512 key t0 t1 = CC.Gen.Kernels.threefish512_with_tweak key t0 t1) ∧
    (∀ (sk : List (List (BitVec 64))) (block : List (BitVec 8)),
      encryptBlock .unrolled tf512 sk block = CC.Gen.Kernels.threefish512_encrypt_block sk block) ∧
    (∀ (sk : List (List (BitVec 64))) (block : List (BitVec 8)),
      encryptBlock .loop tf512 sk block = CC.Gen.Kernels.threefish512_encrypt_block_no_unroll sk block) ∧
    (∀ (sk : List (List (BitVec 64))) (block : List (BitVec 8)),
      decryptBlock .unrolled tf512 sk block = CC.Gen.Kernels.threefish512_decrypt_block sk block) ∧
    (∀ (sk : List (List (BitVec 64))) (block : List (BitVec 8)),
      decryptBlock .loop tf512 sk block = CC.Gen.Kernels.threefish512_decrypt_block_no_unroll sk block) ∧
    (∀ (key : List (BitVec 8)) (t0 t1 : BitVec 64),
      withTweak tf1024 key t0 t1 = CC.Gen.Kernels.threefish1024_with_tweak key t0 t1) ∧
    (∀ (sk : List (List (BitVec 64))) (block : List (BitVec 8)),
      encryptBlock .unrolled tf1024 sk block = CC.Gen.Kernels.threefish1024_encrypt_block sk block) ∧
    (∀ (sk : List (List (BitVec 64))) (block : List (BitVec 8)),
      encryptBlock .loop tf1024 sk block = CC.Gen.Kernels.threefish1024_encrypt_block_no_unroll sk block) ∧
    (∀ (sk : List (List (BitVec 64))) (block : List (BitVec 8)),
      decryptBlock .unrolled tf1024 sk block = CC.Gen.Kernels.threefish1024_decrypt_block sk block) ∧
    (∀ (sk : List (List (BitVec 64))) (block : List (BitVec 8)),
      decryptBlock .loop tf1024 sk block = CC.Gen.Kernels.threefish1024_decrypt_block_no_unroll sk block) :=
  ⟨CC.Src.src_threefish_clean,
   CC.Src.src_threefish256_with_tweak,
   CC.Src.src_threefish256_encrypt_block,
   CC.Src.src_threefish256_encrypt_block_no_unroll,
   CC.Src.src_threefish256_decrypt_block,
   CC.Src.src_threefish256_decrypt_block_no_unroll,
   CC.Src.src_threefish512_with_tweak,
   CC.Src.src_threefish512_encrypt_block,
   CC.Src.src_threefish512_encrypt_block_no_unroll,
   CC.Src.src_threefish512_decrypt_block,
   CC.Src.src_threefish512_decrypt_block_no_unroll,
   CC.Src.src_threefish1024_with_tweak,
   CC.Src.src_threefish1024_encrypt_block,
   CC.Src.src_threefish1024_encrypt_block_no_unroll,
   CC.Src.src_threefish1024_decrypt_block,
   CC.Src.src_threefish1024_decrypt_block_no_unroll⟩

/-- the trait impls and `NewBlockCipher::new` (re-export of `CC.Thm.C10.source_glue_match`) -/
theorem source_glue_match : type_of% @CC.Thm.C10.source_glue_match := CC.Thm.C10.source_glue_match

/-- **End to end (regenerated code = published specification).**  Only REGENERATED definitions (`CC.Gen.Kernels.*`, printed
    from block-ciphers/threefish/src/lib.rs on every run) and the Skein 1.3 specification occur in this statement — no
    hand-written model: for the three `impl_threefish!` instantiations and both expansions of `unroll8!` (default and feature
    `no_unroll`), `with_tweak(key, t0, t1).encrypt_block(block)` is `Spec.threefish` on every key, tweak and block.
    (`threefish_conforms` rewritten with `CC.Src.src_threefish*_with_tweak` / `…_encrypt_block[_no_unroll]`.) -/
theorem generated_encrypt_conforms (key : List (BitVec 8)) (t0 t1 : BitVec 64) (blk : List (BitVec 8)) :
    CC.Gen.Kernels.threefish256_encrypt_block (CC.Gen.Kernels.threefish256_with_tweak key t0 t1) blk
      = Spec.threefish 4 key t0 t1 blk ∧
    CC.Gen.Kernels.threefish256_encrypt_block_no_unroll (CC.Gen.Kernels.threefish256_with_tweak key t0 t1) blk
      = Spec.threefish 4 key t0 t1 blk ∧
    CC.Gen.Kernels.threefish512_encrypt_block (CC.Gen.Kernels.threefish512_with_tweak key t0 t1) blk
      = Spec.threefish 8 key t0 t1 blk ∧
    CC.Gen.Kernels.threefish512_encrypt_block_no_unroll (CC.Gen.Kernels.threefish512_with_tweak key t0 t1) blk
      = Spec.threefish 8 key t0 t1 blk ∧
    CC.Gen.Kernels.threefish1024_encrypt_block (CC.Gen.Kernels.threefish1024_with_tweak key t0 t1) blk
      = Spec.threefish 16 key t0 t1 blk ∧
    CC.Gen.Kernels.threefish1024_encrypt_block_no_unroll (CC.Gen.Kernels.threefish1024_with_tweak key t0 t1) blk
      = Spec.threefish 16 key t0 t1 blk := by
  refine ⟨?_, ?_, ?_, ?_, ?_, ?_⟩
  · rw [← CC.Src.src_threefish256_encrypt_block, ← CC.Src.src_threefish256_with_tweak]
    exact threefish_conforms .unrolled tf256 (by simp) key t0 t1 blk
  · rw [← CC.Src.src_threefish256_encrypt_block_no_unroll, ← CC.Src.src_threefish256_with_tweak]
    exact threefish_conforms .loop tf256 (by simp) key t0 t1 blk
  · rw [← CC.Src.src_threefish512_encrypt_block, ← CC.Src.src_threefish512_with_tweak]
    exact threefish_conforms .unrolled tf512 (by simp) key t0 t1 blk
  · rw [← CC.Src.src_threefish512_encrypt_block_no_unroll, ← CC.Src.src_threefish512_with_tweak]
    exact threefish_conforms .loop tf512 (by simp) key t0 t1 blk
  · rw [← CC.Src.src_threefish1024_encrypt_block, ← CC.Src.src_threefish1024_with_tweak]
    exact threefish_conforms .unrolled tf1024 (by simp) key t0 t1 blk
  · rw [← CC.Src.src_threefish1024_encrypt_block_no_unroll, ← CC.Src.src_threefish1024_with_tweak]
    exact threefish_conforms .loop tf1024 (by simp) key t0 t1 blk

end CC.Thm.C09
