/-
  C20 — every declared cargo feature combination builds and only selects implementations  (PARTIAL)

  The property has two halves.

  (1) "each crate compiles in every combination of the features it declares": no Lean model
      expresses rustc's type checker.  This half is OBSERVED by `tools/prop_C20.py` (`cargo check` of
      all 44 lattice points against the tree) and is the reason the property is claimed *partial*.

  (2) "turning a feature on or off selects which implementation runs and never changes any
      result": PROVED here, from the inventory `CC/Gen/Features.lean` that `tools/inventory.py`
      regenerates from the Cargo manifests and sources on every run:
        * `cfg_exclusive`          every group of alternative `cfg`-guarded items has exactly one
                                   (for names only guarded code needs: at most one) active member,
        * `optional_deps_guarded`  an item naming an optional dependency (`lazy_static`, `cipher`, or
                                   `std` in a crate that can be `no_std`) is compiled in only when
                                   that dependency is available,
        * `refs_resolved_*`        an item using a name all of whose definitions are guarded is
                                   compiled in only when one of them is,
        * `unused_features_inert`  a declared feature that no `cfg` mentions (nor any feature it
                                   implies) cannot change which items are compiled in,
      for ALL assignments of the atoms (cargo features of every crate, target features, `miri`,
      `test`, …) that satisfy the standing assumptions of the property's quantifier (x86-64, little
      endian, `sse2` in the baseline, rustc's target-feature implication order).
      The alternatives that can be selected give the same results: `no_unroll_only_selects` (C09),
      `backend_choice_only_selects` / `no_simd_only_selects` (C03), `std_nostd_dispatch_only_selects`
      (C03 `dispatch_total` for both expansions of the three dispatch macros).

  FINDING recorded here (outside the declared lattice, which fixes the default target features):
      `groestl-aesni`, feature `std` off, built with `-C target-feature=+ssse3` and without `+aes`:
      `pub mod ssse3` is compiled in and contains `pub use super::aes::{init1024, init512}`, but
      `pub mod aes` is guarded by `any(feature = "std", target_feature = "aes")` and is compiled out
      (rustc: E0432 unresolved import CC.Gen.CfgAtoms
import CC.Feat.CfgAtoms
import `super::aes`, compressor.rs:551).
      Full-strength statement (false on the current tree):
        theorem refs_resolved : ∀ r ∈ nameRefs, ∀ a, Standing a → r.pred.eval a = true →
            (Cfg.any r.definers).eval a = true
      Proved instead: `refs_resolved_partial` (excludes exactly that configuration of that reference),
      `refs_resolved_baseline` (full strength on the default target features = the property's
      lattice), and the negative lemma `groestl_ssse3_without_aes_dangling`.
-/
import CC.Gen.Features
import CC.Thm.C03
import CC.Thm.C09

namespace CC.Thm.C20
open CC CC.Feat CC.Feat.Cfg CC.Gen.Features

/-! ### exclusivity of alternatives -/

/-- the finite check behind `cfg_exclusive`: all masks of the atoms of each group -/
theorem groups_check : groups.all (checkGroup standing) = true := by decide +kernel

/-- **Exactly one alternative.**  For every group of the inventory and every assignment of cargo
    features / target features / flags that satisfies the standing assumptions, the group's
    flavour holds: `exactlyOne` — exactly one alternative is compiled in; `atMostOne` — never two
    (whether one is there when needed is `refs_resolved_*`). -/
theorem cfg_exclusive : ∀ g ∈ groups, ∀ a : Atom → Bool, Standing a → g.Exclusive a := by
  intro g hg a ha
  exact checkGroup_sound (List.all_eq_true.mp groups_check g hg) a ha

/-! ### optional dependencies -/

/-- the feature implications of one crate's `[features]` table (`std = ["lazy_static"]`, …) -/
def crateImpl (c : String) : Cfg :=
  implCfg ((crateFeatures.filter (·.crate == c)).flatMap (·.implications))

theorem optional_uses_check :
    optionalUses.all (fun u => checkImp (.and standing (crateImpl u.crate)) u.pred u.needs) = true := by
  decide +kernel

/-- **Optional dependencies are guarded.**  Whenever cargo's feature resolution is respected (the
    crate's implications hold), an item that names an optional dependency is compiled in only if the
    dependency is enabled; an item that names `std` only if the crate is not `no_std` then. -/
theorem optional_deps_guarded : ∀ u ∈ optionalUses, ∀ a : Atom → Bool, Standing a →
    (crateImpl u.crate).eval a = true → u.pred.eval a = true → u.needs.eval a = true := by
  intro u hu a ha hi hp
  have hs : standing.eval a = true := ha
  exact checkImp_sound (List.all_eq_true.mp optional_uses_check u hu) a (by simp [Cfg.eval, hs, hi]) hp

/-! ### references to guarded names -/

/-- the one configuration in which a reference dangles on the current tree (see the header) -/
def knownDangling (r : NameRef) : Cfg :=
  if r.crate == "groestl-aesni" && r.name == "aes" then
    .all [.not (feat "groestl-aesni" "std"), tf "ssse3", .not (tf "aes")]
  else .ff

theorem name_refs_check :
    nameRefs.all (fun r => checkImp (.and standing (.not (knownDangling r))) r.pred (.any r.definers)) = true := by
  decide +kernel

theorem name_refs_baseline_check :
    nameRefs.all (fun r => checkImp baseline r.pred (.any r.definers)) = true := by decide +kernel

/-- **References resolve** (partial: excludes `groestl-aesni` without `std`, with `ssse3`, without
    `aes`, for references to `aes`). -/
theorem refs_resolved_partial : ∀ r ∈ nameRefs, ∀ a : Atom → Bool, Standing a →
    (knownDangling r).eval a = false → r.pred.eval a = true → (Cfg.any r.definers).eval a = true := by
  intro r hr a ha hk hp
  have hs : standing.eval a = true := ha
  exact checkImp_sound (List.all_eq_true.mp name_refs_check r hr) a (by simp [Cfg.eval, hs, hk]) hp

/-- **References resolve on the property's lattice** (full strength there): with the default
    x86-64 target features (`sse2` only) every reference has an active definition, for every
    assignment of the cargo features. -/
theorem refs_resolved_baseline : ∀ r ∈ nameRefs, ∀ a : Atom → Bool, baseline.eval a = true →
    r.pred.eval a = true → (Cfg.any r.definers).eval a = true := by
  intro r hr a ha hp
  exact checkImp_sound (List.all_eq_true.mp name_refs_baseline_check r hr) a ha hp

/-- the configuration of the finding: x86-64 with `+ssse3`, no `aes`, every cargo feature off -/
def danglingWitness : Atom → Bool :=
  assignOf [.targetArch "x86_64", .targetEndian "little", .targetFeature "sse2", .targetFeature "ssse3"]

theorem dangling_check : (nameRefs.any fun r => r.crate == "groestl-aesni" && r.name == "aes" &&
    r.pred.eval danglingWitness && !(Cfg.any r.definers).eval danglingWitness) = true := by decide +kernel

/-- Negative lemma: the excluded configuration really dangles — some reference of the inventory is
    compiled in under `danglingWitness` (which satisfies the standing assumptions) while none of
    the definitions of the name it uses is. -/
theorem groestl_ssse3_without_aes_dangling :
    Standing danglingWitness ∧
    ∃ r ∈ nameRefs, r.crate = "groestl-aesni" ∧ r.name = "aes" ∧
      r.pred.eval danglingWitness = true ∧ (Cfg.any r.definers).eval danglingWitness = false := by
  refine ⟨(by decide +kernel : standing.eval danglingWitness = true), ?_⟩
  obtain ⟨r, hr, h⟩ := List.any_eq_true.mp dangling_check
  simp only [Bool.and_eq_true, beq_iff_eq, Bool.not_eq_true'] at h
  exact ⟨r, hr, h.1.1.1, h.1.1.2, h.1.2, h.2⟩

/-! ### features that no `cfg` mentions -/

/-- every predicate of the inventory -/
def allPreds : List Cfg :=
  groups.flatMap (fun g => g.alts.map (·.2)) ++ optionalUses.map (·.pred) ++
  nameRefs.flatMap (fun r => r.pred :: r.definers) ++ guardedItems.map (·.pred)

/-- every atom some `cfg` of the workspace looks at -/
def mentioned : List Atom := allPreds.flatMap Cfg.atoms

/-- the feature atom `c/f` together with everything it switches on through the `[features]`
    tables of the workspace (`packed_simd = ["packed_simd_crate"]`, `std = ["ppv-lite86/std"]`, …) -/
def inertSet (c f : String) : List Atom :=
  reach (crateFeatures.flatMap (·.implications)) 8 [.feature c f]

/-- declared features (other than `default`) as `(crate, feature)` -/
def declared : List (String × String) :=
  crateFeatures.flatMap fun cf => cf.features.filterMap fun fr => if fr.1 == "default" then none else some (cf.crate, fr.1)

/-- declared features such that no `cfg` anywhere mentions them or anything they imply -/
def unusedFeatures : List (String × String) :=
  declared.filter fun cf => (inertSet cf.1 cf.2).all fun x => !(mentioned.contains x)

/-- **Unused features are inert.**  If a declared feature (and whatever it implies) is mentioned
    by no `cfg`, then two configurations that differ only there compile in exactly the same items:
    every guarded item, every alternative of every group, every user of an optional dependency has
    the same truth value. -/
theorem unused_features_inert : ∀ cf ∈ unusedFeatures, ∀ p ∈ allPreds, ∀ a b : Atom → Bool,
    (∀ x, x ∉ inertSet cf.1 cf.2 → a x = b x) → p.eval a = p.eval b := by
  intro cf hcf p hp a b hab
  apply Cfg.eval_congr
  intro x hx
  apply hab
  intro hin
  have hall := (List.mem_filter.mp hcf).2
  have := List.all_eq_true.mp hall x hin
  have hm : x ∈ mentioned := List.mem_flatMap.mpr ⟨p, hp, hx⟩
  simp [hm] at this

/-- … in particular the same alternative of every group is selected. -/
theorem unused_features_select_nothing : ∀ cf ∈ unusedFeatures, ∀ g ∈ groups, ∀ a b : Atom → Bool,
    (∀ x, x ∉ inertSet cf.1 cf.2 → a x = b x) → g.active a = g.active b := by
  intro cf hcf g hg a b hab
  unfold Group.active
  apply List.filter_congr
  intro alt halt
  exact unused_features_inert cf hcf alt.2
    (by simp only [allPreds, List.mem_append, List.mem_flatMap, List.mem_map]
        exact Or.inl (Or.inl (Or.inl ⟨g, hg, alt, halt, rfl⟩))) a b hab

/-! ### the selected alternatives agree (cross-references to C09 and C03) -/

open CC.Threefish CC.Simd CC.Simd.Dispatch

/-- which expansion of `unroll8!` / `unroll8_rev!` a configuration compiles -/
def shapeOf (a : Atom → Bool) : Model.Shape :=
  if a (.feature "threefish-cipher" "no_unroll") then .loop else .unrolled

/-- **`no_unroll` only selects** (C09 `unroll_eq_loop`): Threefish encryption and decryption are the
    same functions in any two configurations. -/
theorem no_unroll_only_selects (a b : Atom → Bool) (p : Model.Params) (key : List (BitVec 8)) (t0 t1 : BitVec 64)
    (blk : List (BitVec 8)) :
    Model.encrypt (shapeOf a) p key t0 t1 blk = Model.encrypt (shapeOf b) p key t0 t1 blk ∧
    Model.decrypt (shapeOf a) p key t0 t1 blk = Model.decrypt (shapeOf b) p key t0 t1 blk := by
  obtain ⟨_, _, he, hd⟩ := CC.Thm.C09.unroll_eq_loop p key t0 t1 blk
  unfold shapeOf
  constructor <;> (split <;> split <;> simp [he, hd])

/-- **The backend choice only selects** (C03 `backend_independent`): whichever backend `no_simd`, the
    target features or run-time detection pick, every algorithm model (any function of the machine
    record) returns the same result, namely that of the reference machine. -/
theorem backend_choice_only_selects {α : Sort _} (model : Mach → α) (b₁ b₂ : Backend) :
    model (Mach.ofBackend b₁) = model (Mach.ofBackend b₂) ∧ model (Mach.ofBackend b₁) = model Mach.ref :=
  CC.Thm.C03.backend_independent model b₁ b₂

/-- `no_simd` (→ `ppv-lite86/no_simd` → the `generic` alternative of `arch`) versus any x86 backend. -/
theorem no_simd_only_selects {α : Sort _} (model : Mach → α) (b : Backend) :
    model (Mach.ofBackend .generic) = model (Mach.ofBackend b) :=
  (CC.Thm.C03.backend_independent model .generic b).1

/-- **`std` on/off only selects** (C03 `dispatch_total`, `backend_independent`): for each of the three
    dispatch macros and every consistent CPU / target-feature assignment with `sse2`, both the `std`
    arm (run-time detection) and the no-`std` arm (`cfg!(target_feature)`) take a branch, and the
    machines they instantiate give the same results. -/
theorem std_nostd_dispatch_only_selects {α : Sort _} (model : Mach → α) (m : Macro) (f : Feat)
    (h2 : f.sse2 = true) (hc : f.consistent = true) :
    ∃ s n, select m .std f = some s ∧ select m .nostd f = some n ∧
      model (Mach.ofBackend s.machine) = model (Mach.ofBackend n.machine) := by
  obtain ⟨s, hs, _, _⟩ := CC.Thm.C03.dispatch_total m .std f h2 hc
  obtain ⟨n, hn, _, _⟩ := CC.Thm.C03.dispatch_total m .nostd f h2 hc
  exact ⟨s, n, hs, hn, (CC.Thm.C03.backend_independent model s.machine n.machine).1⟩

/-- the arm either expansion selects is sound to call (restatement of C03 `dispatch_sound`) -/
theorem selected_arm_sound (m : Macro) (md : Mode) (f : Feat) (h2 : f.sse2 = true) (hc : f.consistent = true)
    (a : Arm) (ha : select m md f = some a) :
    (∀ e ∈ a.enabled, ∀ g, a.guard = some g → e ∈ implied g) ∧ (∀ r ∈ needs a.machine, f.has r = true) :=
  let h := CC.Thm.C03.dispatch_sound m md f h2 hc a ha
  ⟨h.1, h.2.1⟩

/-! ### non-vacuity -/

-- the standing assumptions are satisfiable (the default x86-64 target, every cargo feature off) …
example : Standing (assignOf [.targetArch "x86_64", .targetEndian "little", .targetFeature "sse2"]) := by
  show standing.eval _ = true; decide +kernel
-- … and so is the baseline; the inventory is not empty
example : baseline.eval (assignOf [.targetArch "x86_64", .targetEndian "little", .targetFeature "sse2"]) = true := by
  decide +kernel
example : groups.length ≥ 10 ∧ optionalUses.length ≥ 3 ∧ nameRefs.length ≥ 3 ∧ guardedItems.length ≥ 20 := by
  decide +kernel
-- some declared feature is unused (today: the deprecated `simd` features, `std` of crypto-simd/ppv-lite86, `packed_simd`)
example : unusedFeatures ≠ [] := by decide +kernel
-- the checker does reject: two definitions active at once / none active
example : checkGroup standing
    { crate := "t", name := "both", flavour := .exactlyOne, alts := [("a", feat "t" "x"), ("b", feat "t" "x")] } = false := by
  decide +kernel
example : checkGroup standing
    { crate := "t", name := "gap", flavour := .exactlyOne, alts := [("a", feat "t" "x"), ("b", .all [.not (feat "t" "x"), feat "t" "y"])] } = false := by
  decide +kernel
example : checkGroup standing
    { crate := "t", name := "ok", flavour := .exactlyOne, alts := [("a", feat "t" "x"), ("b", .not (feat "t" "x"))] } = true := by
  decide +kernel


/-- Source tie: every compile-time configuration atom other than cargo features that the sources mention
    (`target_feature`, `target_endian`, `target_arch`, `is_x86_feature_detected!` names, …; regenerated on
    every run) is one the models and the harness configurations account for — no new atom, no new site. -/
theorem cfg_atoms_as_modelled : CC.Gen.CfgAtoms.atoms = CC.Feat.CfgAtoms.expected := rfl

end CC.Thm.C20
