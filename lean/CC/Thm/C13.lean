/-
  C13 — data movement is lossless and consistently ordered, on every backend.
  Each law is proved once for the backend-free meaning (CC/Simd/Proof/{MeaningLaws,BytesLaws}.lean)
  and transported to `impl b τ` — the transcription of the Rust — through C12's `leaf`
  (`impl b τ` and `meaning τ` compute the same function), so all of these also coincide across
  backends.  (`read_le` is per-word little-endian and `read_be` per-word big-endian *by* `leaf`:
  that is what `meaning τ` says.)
-/
import CC.Simd.Proof.C13Aux
import CC.Simd.SrcX86
import CC.Thm.C13Eq
namespace CC.Thm.C13
open CC CC.Simd CC.Thm.C12 CC.Simd.BytesLaws

/-- `to_lanes ∘ from_lanes = id` and `from_lanes ∘ to_lanes = id`, every backend, every type. -/
theorem lanes_roundtrip (b : Backend) (τ : Ty) :
    (∀ xs : List (BitVec τ.elem), xs.length = τ.count → (impl b τ).toLanes ((impl b τ).fromLanes xs) = xs) ∧
    (∀ v, (impl b τ).fromLanes ((impl b τ).toLanes v) = v) := by
  have hT : ∀ v, (impl b τ).toLanes v = (meaning τ).toLanes v := leaf b τ .toLanes (C13Aux.lanes_mem b τ).1
  have hF : ∀ xs, xs.length = τ.count → (impl b τ).fromLanes xs = (meaning τ).fromLanes xs :=
    leaf b τ .fromLanes (C13Aux.lanes_mem b τ).2
  have hM := MeaningLaws.lanes τ
  constructor
  · intro xs h; rw [hF xs h, hT]; exact hM.1 xs h
  · intro v
    have hlen : ((meaning τ).toLanes v).length = τ.count := by cases τ <;> rfl
    rw [hT, hF _ hlen]; exact hM.2 v

/-- `extract (insert v w i) j = if i = j then w else extract v j` for all in-range `i`, `j`
    (every type with `Vec2/Vec4`, i.e. all but `u128x1`). -/
theorem extract_insert (b : Backend) (τ : Ty) (hτ : τ ≠ .u128x1)
    (v : BitVec τ.bits) (w : BitVec τ.elem) (i j : Nat) (hi : i < τ.count) (hj : j < τ.count) :
    (impl b τ).extract ((impl b τ).insert v w i) j = if i = j then w else (impl b τ).extract v j := by
  have hE : ∀ v i, i < τ.count → (impl b τ).extract v i = (meaning τ).extract v i :=
    leaf b τ .extract (C13Aux.vec_mem b τ hτ).1
  have hI : ∀ v w i, i < τ.count → (impl b τ).insert v w i = (meaning τ).insert v w i :=
    leaf b τ .insert (C13Aux.vec_mem b τ hτ).2
  rw [hI v w i hi, hE _ j hj, hE v j hj]
  exact MeaningLaws.getset τ hτ v w i j hi hj

/-- `transpose4` is the 4×4 lane transpose: lane `j` of output `i` is lane `i` of input `j`. -/
theorem transpose4_is_transpose (b : Backend) (a c d e : BitVec 512) (i j : Nat) (hi : i < 4) (hj : j < 4) :
    q128 ([(implTranspose4 b a c d e).1, (implTranspose4 b a c d e).2.1, (implTranspose4 b a c d e).2.2.1,
      (implTranspose4 b a c d e).2.2.2].getD i 0) j = q128 ([a, c, d, e].getD j 0) i := by
  rw [transpose4_eq]; exact MeaningLaws.transpose a c d e i j hi hj

/-- `to_scalars` lists the sixteen words in lane order: word `i` is bits `[32i, 32i+32)` of the
    storage, i.e. word `i mod 4` of lane `i / 4`. -/
theorem to_scalars_order (b : Backend) (v : BitVec 512) :
    implToScalars b v = (List.range 16).map fun i => v.extractLsb' (32 * i) 32 :=
  (Table.toScalars b v).trans (MeaningLaws.scalars v)

/-- `write_le (read_le bs) = bs` for every byte string of the storage size (16/32/64 bytes),
    `read_le (write_le v) = v`, and `write_le` fills exactly the storage size. -/
theorem bytes_le_roundtrip (b : Backend) (τ : Ty) (h : OpK.readLe ∈ provided b τ) :
    BytesRT τ.bits (impl b τ).readLe (impl b τ).writeLe :=
  C13Aux.transport (leaf b τ .readLe h) (leaf b τ .writeLe (C13Aux.bytes_mem b τ h).1) (C13Aux.meaningLe τ)

/-- the same for `read_be` / `write_be` (per-word big-endian). -/
theorem bytes_be_roundtrip (b : Backend) (τ : Ty) (h : OpK.readLe ∈ provided b τ) :
    BytesRT τ.bits (impl b τ).readBe (impl b τ).writeBe :=
  C13Aux.transport (leaf b τ .readBe (C13Aux.bytes_mem b τ h).2.1) (leaf b τ .writeBe (C13Aux.bytes_mem b τ h).2.2)
    (C13Aux.meaningBe τ)

/-- The storage views `[u32;4] ↔ [u64;2] ↔ [u128;1]` (and the bytes) are little-endian word
    packing: building from 32-bit lanes and reading 64-bit lanes concatenates pairs low-first,
    likewise 64 → 128, and `read_le` followed by `to_lanes` gives the little-endian words. -/
theorem storage_views (b : Backend) :
    (∀ w0 w1 w2 w3 : BitVec 32,
      (impl b .u64x2).toLanes ((impl b .u32x4).fromLanes [w0, w1, w2, w3]) = [w1 ++ w0, w3 ++ w2]) ∧
    (∀ q0 q1 : BitVec 64, (impl b .u128x1).toLanes ((impl b .u64x2).fromLanes [q0, q1]) = [q1 ++ q0]) ∧
    (∀ bs : List (BitVec 8), bs.length = 16 →
      (impl b .u32x4).toLanes ((impl b .u32x4).readLe bs) =
        [read32le bs, read32le (bs.drop 4), read32le (bs.drop 8), read32le (bs.drop 12)]) := by
  have f32 : ∀ xs, xs.length = 4 → (impl b .u32x4).fromLanes xs = Meaning.u32x4.fromLanes xs :=
    leaf b .u32x4 .fromLanes (C13Aux.lanes_mem b _).2
  have t32 : ∀ v, (impl b .u32x4).toLanes v = Meaning.u32x4.toLanes v := leaf b .u32x4 .toLanes (C13Aux.lanes_mem b _).1
  have f64 : ∀ xs, xs.length = 2 → (impl b .u64x2).fromLanes xs = Meaning.u64x2.fromLanes xs :=
    leaf b .u64x2 .fromLanes (C13Aux.lanes_mem b _).2
  have t64 : ∀ v, (impl b .u64x2).toLanes v = Meaning.u64x2.toLanes v := leaf b .u64x2 .toLanes (C13Aux.lanes_mem b _).1
  have t128 : ∀ v, (impl b .u128x1).toLanes v = Meaning.u128x1.toLanes v :=
    leaf b .u128x1 .toLanes (C13Aux.lanes_mem b _).1
  have r32 : ∀ bs, bs.length * 8 = 128 → (impl b .u32x4).readLe bs = Meaning.u32x4.readLe bs :=
    leaf b .u32x4 .readLe (required_provided b _ _ (by decide))
  refine ⟨?_, ?_, ?_⟩
  · intro w0 w1 w2 w3
    rw [f32 _ rfl]
    refine (t64 _).trans ?_
    show [lane64 (pack32 w0 w1 w2 w3) 0, lane64 (pack32 w0 w1 w2 w3) 1] = _
    simd_leaf
  · intro q0 q1
    rw [f64 _ rfl]
    refine (t128 _).trans ?_
    show [pack64 q0 q1] = _
    simd_leaf
  · intro bs h
    rw [r32 bs (by omega)]
    refine (t32 _).trans ?_
    obtain ⟨a0, a1, a2, a3, a4, a5, a6, a7, a8, a9, a10, a11, a12, a13, a14, a15, rfl⟩ := Lists.eq16 h
    show [lane32 (ofLeBytes 128 (List.take 16 _)) 0, lane32 (ofLeBytes 128 (List.take 16 _)) 1,
      lane32 (ofLeBytes 128 (List.take 16 _)) 2, lane32 (ofLeBytes 128 (List.take 16 _)) 3] = _
    simd_leaf

/-- **Source tie, x86 backend (data movement).**  The hand-written `to_lanes` / `from_lanes`, `extract` / `insert` (one
    arm per index literal; the default arm diverges), `unsafe_read_le/be`, `write_le/be` (with their length assertions),
    `transpose4`, `to_scalars` of `u32x4_sse2`, `u64x2_sse2`, `u128x1_sse2`, `u64x4_sse2`, `u32x4x2_avx2`, `u32x4x4_avx2`
    EQUAL the translation of `sse2.rs` regenerated on every run (`CC.Gen.SimdX86Src`), for every `S3` / `S4` flag
    combination that selects a different impl; `Store::unpack`, `new`, the `From` conversions between the vector types
    and the storage unions are the identity on the storage bits, and the views of `vec128/256/512_storage` (mod.rs:
    `impl_into!`, `From<[u32; 4]>`, `new128` / `split128`) are little-endian word / lane packing — the single-carrier
    reading the model rests on (`CC.Src.X86MoveTie`, lean/CC/Simd/SrcX86.lean). -/
theorem source_x86_match : CC.Src.X86MoveTie ∧ CC.Gen.SimdX86Src.simdx86_errors = [] :=
  ⟨CC.Src.src_x86_move, CC.Src.src_x86_word.clean⟩

/-! ### non-vacuity -/
example : OpK.readLe ∈ provided .sse2 .u32x4x4 := by decide
example : OpK.readLe ∈ provided .generic .u64x4 := by decide
/-- SSE2 `insert` (shuffle / byte-shift / or sequence) on a byte-counting vector, lane 2 -/
example : (Impl.X86.u32x4 false false).insert 0x0f0e0d0c0b0a09080706050403020100#128 0xaabbccdd#32 2
    = 0x0f0e0d0caabbccdd0706050403020100#128 := by decide +kernel
/-- AVX2 `transpose4`: output 1 collects lane 1 of the four inputs -/
example : (Impl.Avx2.transpose4 (BitVec.ofNat 512 (2 ^ 128)) 0 0 0).2.1 = 1#512 := by decide +kernel

/-- **Source tie, portable backend (data movement).**  `extract` / `insert`, `to_lanes` / `from_lanes`, `StoreBytes`,
    `transpose4`, `to_scalars` and the storage conversions of `generic.rs` / `soft.rs`, regenerated from the current
    source, equal the hand-written model (fields of `CC.Src.PortMovement`, lean/CC/Simd/SrcPort.lean). -/
theorem source_portable_match : CC.Src.PortMovement := CC.Src.portMovement

end CC.Thm.C13
