/-
  C07 — Grøstl-224/256/384/512 conform to the specification (and the Grøstl part of C17: the block
  counter is exact and no checked addition fires below 2^64 blocks).
  Property theorems and non-vacuity examples only; the lemmas live in CC/Groestl/Lemmas{A,D}.lean,
  the kernel-evaluated test vectors in CC/Groestl/Vec{256,512}.lean.

  FULL STATEMENT (the goal; not yet proved without hypotheses):

    theorem groestl_conforms (p : Profile) (v : Variant) (msg : List (BitVec 8))
        (hlen : Spec.padBlocks (Spec.blockLen v.bits) msg.length < 2 ^ 64) :
        Model.digest p v msg = .ok (Spec.groestl v.bits msg)

  PROVED: `groestl_conforms_partial` — the same conclusion for all profiles, variants and messages,
  under the two hypotheses `h512 : Conf comp512 8 rep512`, `h1024 : Conf comp1024 16 rep1024`, i.e.
  layers (b),(c) of the plan: on the register representation `rep`, `tf512/tf1024 = f` and
  `of512/of1024 = second half of P(h) ⊕ h`, for all chaining values and blocks.  Everything else —
  buffering, block counter, the `remaining() <= 8` rule vs. the specification's padding and block
  count, absence of overflow panics, IV, the four truncations — is proved.  What is missing for
  `groestl_conforms` is exactly a proof of the two `Conf` records; their ingredients for single
  rounds are proved for all register contents in CC/Groestl/LemmasA.lean (layer (a)), and the
  records are validated by evaluation on the official vectors below.
-/
import CC.Groestl.LemmasA
import CC.Groestl.LemmasD
import CC.Groestl.Vec512
import CC.Groestl.VecConf
import CC.Groestl.VecConf1024
namespace CC.Thm.C07
open CC CC.Buffer CC.Groestl CC.Groestl.Model

/-- Conformance of the four hash functions, for every profile and every message whose padded
    length is below 2^64 blocks, given `tf = f` and `of = Ω` on the register representation. -/
theorem groestl_conforms_partial
    (h512 : Conf comp512 8 rep512) (h1024 : Conf comp1024 16 rep1024)
    (p : Profile) (v : Variant) (msg : List (BitVec 8))
    (hlen : Spec.padBlocks (Spec.blockLen v.bits) msg.length < 2 ^ 64) :
    Model.digest p v msg = .ok (Spec.groestl v.bits msg) := by
  cases v with
  | g256 =>
    obtain ⟨h1, h2, res, hu, hf, -, hres⟩ := oneshot_spec comp512 8 rep512 h512 rfl (by decide) p 256
      (Spec.iv 256 64) (length_iv _ _) iv_256 msg hlen
    simp only [Model.digest, Any.default, bind, Out.bind, any_update_g256 p _ _ _ hu, Any.finalize,
      Any.finalizeIntoDirty, hf, pure]
    congr 1
  | g512 =>
    obtain ⟨h1, h2, res, hu, hf, -, hres⟩ := oneshot_spec comp1024 16 rep1024 h1024 rfl (by decide) p 512
      (Spec.iv 512 128) (length_iv _ _) iv_512 msg hlen
    simp only [Model.digest, Any.default, bind, Out.bind, any_update_g512 p _ _ _ hu, Any.finalize,
      Any.finalizeIntoDirty, hf, pure]
    congr 1
  | g224 =>
    obtain ⟨h1, h2, res, hu, hf, ⟨cfin, hcf⟩, hres⟩ := oneshot_spec comp512 8 rep512 h512 rfl (by decide) p 224
      (Spec.iv 224 64) (length_iv _ _) iv_224 msg hlen
    simp only [Model.digest, Any.default, bind, Out.bind, any_update_g224 p _ _ _ hu, Any.finalize,
      Any.finalizeIntoDirty, hf, pure]
    congr 1
    subst hcf
    simp only [comp512, X4.toBlock, Nat.reduceDiv, Nat.reduceMul, List.drop_succ_cons, List.drop_zero] at hres
    simp only [comp512, X4.toBlock, List.getD_cons_succ, List.getD_cons_zero, List.drop_succ_cons,
      List.drop_zero, List.take_succ_cons, List.take_zero]
    rw [trunc224, hres]
    simp only [Spec.groestl, Spec.blockLen, Spec.omega, List.drop_drop]
    rfl
  | g384 =>
    obtain ⟨h1, h2, res, hu, hf, ⟨cfin, hcf⟩, hres⟩ := oneshot_spec comp1024 16 rep1024 h1024 rfl (by decide) p 384
      (Spec.iv 384 128) (length_iv _ _) iv_384 msg hlen
    simp only [Model.digest, Any.default, bind, Out.bind, any_update_g384 p _ _ _ hu, Any.finalize,
      Any.finalizeIntoDirty, hf, pure]
    congr 1
    subst hcf
    simp only [comp1024, X8.toBlock, Nat.reduceDiv, Nat.reduceMul, List.drop_succ_cons, List.drop_zero] at hres
    simp only [comp1024, X8.toBlock, List.drop_succ_cons, List.drop_zero]
    have e : ∀ (a b : BitVec 64) (t : List (BitVec 64)), leWords t = (leWords (a :: b :: t)).drop 16 := by
      intro a b t; simp [leWords, toLe64]
    rw [e, hres]
    simp only [Spec.groestl, Spec.blockLen, Spec.omega, List.drop_drop]
    rfl

/-- C17, Grøstl part: after absorbing `msg ++ data` (in two `update` calls here, hence by induction in
    any number) the block counter is `⌊n/b⌋`, the buffer holds the `n mod b` trailing bytes, and the
    checked `block_counter += 1` does not fire — for every length with `⌊n/b⌋ < 2^64`. -/
theorem counter_exact {C} (K : Comp C) (hb : 0 < K.b) (p : Profile) (c0 : C) (h : Hasher C)
    (msg data : List (BitVec 8)) (hi : Inv K c0 h msg) (hlen : (msg ++ data).length / K.b < 2 ^ 64) :
    ∃ h', update K p h data = .ok h' ∧ Inv K c0 h' (msg ++ data) :=
  Inv_update K hb p c0 h msg data hi hlen

/-- C17, Grøstl part: the count passed to `len64_padding_be` is the specification's number of
    blocks, computed without overflow whenever that number is below 2^64, and the compressor is fed
    exactly the blocks of the specification's padded message. -/
theorem final_count_exact {C} (K : Comp C) (hb8 : 8 ≤ K.b) (p : Profile) (c0 : C) (h : Hasher C)
    (msg : List (BitVec 8)) (hi : Inv K c0 h msg) (hlen : Spec.padBlocks K.b msg.length < 2 ^ 64) :
    (∃ h', finalizeDirty K p h =
      .ok (h', (K.finalizeDirty ((fullBlocks K.b (Spec.pad K.b msg)).foldl K.input c0)).2)) ∧
    rest K.b (Spec.pad K.b msg) = [] :=
  finalizeDirty_spec K hb8 p c0 h msg hi hlen

/-! ## non-vacuity and validation on the official test vectors (evaluated by the kernel) -/

/-- Spec: Grøstl-256("") -/
example : some (Spec.groestl 256 []) =
    bytesOfHex "1a52d11d550039be16107f9c58db9ebcc417f16f736adb2502567119f0083467" := spec_256_empty
/-- Spec: Grøstl-512("") -/
example : some (Spec.groestl 512 []) =
    bytesOfHex "6d3ad29d279110eef3adbd66de2a0345a77baede1557f5d099fce0c03d6dc2ba8e6d4a6633dfbd66053c20faa87d1a11f39a7fbe4a6c2f009801370308fc4ad8" :=
  spec_512_empty
/-- Model (debug profile: all overflow checks active): Grøstl-256(""), Grøstl-512("") -/
example : outOpt (Model.digest .debug .g256 []) =
    bytesOfHex "1a52d11d550039be16107f9c58db9ebcc417f16f736adb2502567119f0083467" := model_256_empty
example : outOpt (Model.digest .debug .g512 []) =
    bytesOfHex "6d3ad29d279110eef3adbd66de2a0345a77baede1557f5d099fce0c03d6dc2ba8e6d4a6633dfbd66053c20faa87d1a11f39a7fbe4a6c2f009801370308fc4ad8" :=
  model_512_empty
/-- the conclusion of `groestl_conforms_partial` holds on these inputs (so its hypotheses are not
    contradictory with the model and the specification as evaluated): -/
example : Model.digest .debug .g256 [] = .ok (Spec.groestl 256 []) := by
  have h1 := model_256_empty
  have h2 := spec_256_empty
  cases hd : Model.digest .debug .g256 [] with
  | ok a => rw [hd] at h1; simp only [outOpt] at h1; rw [← h2] at h1; injection h1 with h1; rw [h1]
  | err => rw [hd] at h1; simp [outOpt, bytesOfHex] at h1; cases h1
  | panic w => rw [hd] at h1; simp [outOpt, bytesOfHex] at h1; cases h1
/-- the two hypotheses, instantiated at the IV and the padded empty message (`Conf.tf`) and at the
    resulting chaining value (`Conf.of`), hold by evaluation — for both compressors: -/
example : comp512.input (rep512 (Spec.iv 256 64)) (Spec.pad 64 []) =
    rep512 (Spec.f 8 (Spec.iv 256 64) (Spec.pad 64 [])) := conf512_tf_instance
example : leWords ((comp512.finalizeDirty (rep512 (Spec.f 8 (Spec.iv 256 64) (Spec.pad 64 [])))).2.drop (8 / 2)) =
    (Spec.xorBytes (Spec.P 8 (Spec.f 8 (Spec.iv 256 64) (Spec.pad 64 [])))
      (Spec.f 8 (Spec.iv 256 64) (Spec.pad 64 []))).drop (4 * 8) := conf512_of_instance
example : comp1024.input (rep1024 (Spec.iv 512 128)) (Spec.pad 128 []) =
    rep1024 (Spec.f 16 (Spec.iv 512 128) (Spec.pad 128 [])) := conf1024_tf_instance
example : leWords ((comp1024.finalizeDirty (rep1024 (Spec.f 16 (Spec.iv 512 128) (Spec.pad 128 [])))).2.drop (16 / 2)) =
    (Spec.xorBytes (Spec.P 16 (Spec.f 16 (Spec.iv 512 128) (Spec.pad 128 [])))
      (Spec.f 16 (Spec.iv 512 128) (Spec.pad 128 []))).drop (4 * 16) := conf1024_of_instance
/-- the length hypothesis is satisfiable far beyond 2^32 bits: -/
example : Spec.padBlocks 64 (2 ^ 40) < 2 ^ 64 := by decide
example : Spec.padBlocks 128 (2 ^ 70) < 2 ^ 64 := by decide

end CC.Thm.C07
