/-
  C07 — Grøstl-224/256/384/512 conform to the specification (and the Grøstl part of C17: the block
  counter is exact and no checked addition fires below 2^64 blocks).
  Property theorems and non-vacuity examples only.  Lemmas:
    CC/Groestl/LemmasA.lean      layer (a): leaf facts on registers (mul2, MixBytes network, S-box,
                                 pshufb masks, round constants, transposes)
    CC/Groestl/LemmasB.lean      registers as byte functions; the specification on function-level states
    CC/Groestl/LemmasC512.lean   layers (b),(c), 512-bit state: `round = P-round × Q-round`, `tf512 = f`, `of512 = Ω`
    CC/Groestl/LemmasC1024.lean  layers (b),(c), 1024-bit state: `stepP/stepQ`, `tf1024 = f`, `of1024 = Ω`
    CC/Groestl/LemmasD.lean      layer (d): buffering, block counter, padding, IV, truncations
    CC/Groestl/Vec*.lean         the official test vectors, evaluated by the kernel

  MAIN RESULT (no hypotheses besides the format limit of the specification):

    theorem groestl_conforms (p : Profile) (v : Variant) (msg : List (BitVec 8))
        (hlen : Spec.padBlocks (Spec.blockLen v.bits) msg.length < 2 ^ 64) :
        Model.digest p v msg = .ok (Spec.groestl v.bits msg)

  `groestl_conforms_partial` (the same statement relative to the two `Conf` records) is kept as the
  message-level half of the proof; `conf512`, `conf1024` discharge its hypotheses.
-/
import CC.Groestl.LemmasA
import CC.Groestl.LemmasD
import CC.Groestl.LemmasC512
import CC.Groestl.LemmasC1024
import CC.Groestl.Vec256
import CC.Groestl.Vec512
import CC.Groestl.Src
import CC.Groestl.SrcDataflow
namespace CC.Thm.C07
open CC CC.Buffer CC.Groestl CC.Groestl.Model

/-- Conformance of the four hash functions, for every profile and every message whose padded
    length is below 2^64 blocks, given `tf = f` and `of = Ω` on the register representation. -/
theorem groestl_conforms_partial
    (h512 : Conf comp512 8 rep512) (h1024 : Conf comp1024 16 rep1024)
    (p : Profile) (v : Variant) (msg : List (BitVec 8))
    (hlen : Spec.padBlocks (Spec.blockLen v.bits) msg.length < 2 ^ 64) :
    Model.digest p v msg = .ok (Spec.groestl v.bits msg) := by
  cases v with
  | g256 =>
    obtain ⟨h1, h2, res, hu, hf, -, hres⟩ := oneshot_spec comp512 8 rep512 h512 rfl (by decide) p 256
      (Spec.iv 256 64) (length_iv _ _) iv_256 msg hlen
    simp only [Model.digest, Any.default, bind, Out.bind, any_update_g256 p _ _ _ hu, Any.finalize,
      Any.finalizeIntoDirty, hf, pure]
    congr 1
  | g512 =>
    obtain ⟨h1, h2, res, hu, hf, -, hres⟩ := oneshot_spec comp1024 16 rep1024 h1024 rfl (by decide) p 512
      (Spec.iv 512 128) (length_iv _ _) iv_512 msg hlen
    simp only [Model.digest, Any.default, bind, Out.bind, any_update_g512 p _ _ _ hu, Any.finalize,
      Any.finalizeIntoDirty, hf, pure]
    congr 1
  | g224 =>
    obtain ⟨h1, h2, res, hu, hf, ⟨cfin, hcf⟩, hres⟩ := oneshot_spec comp512 8 rep512 h512 rfl (by decide) p 224
      (Spec.iv 224 64) (length_iv _ _) iv_224 msg hlen
    simp only [Model.digest, Any.default, bind, Out.bind, any_update_g224 p _ _ _ hu, Any.finalize,
      Any.finalizeIntoDirty, hf, pure]
    congr 1
    subst hcf
    simp only [comp512, X4.toBlock, Nat.reduceDiv, Nat.reduceMul, List.drop_succ_cons, List.drop_zero] at hres
    simp only [comp512, X4.toBlock, List.getD_cons_succ, List.getD_cons_zero, List.drop_succ_cons,
      List.drop_zero, List.take_succ_cons, List.take_zero]
    rw [trunc224, hres]
    simp only [Spec.groestl, Spec.blockLen, Spec.omega, List.drop_drop]
    rfl
  | g384 =>
    obtain ⟨h1, h2, res, hu, hf, ⟨cfin, hcf⟩, hres⟩ := oneshot_spec comp1024 16 rep1024 h1024 rfl (by decide) p 384
      (Spec.iv 384 128) (length_iv _ _) iv_384 msg hlen
    simp only [Model.digest, Any.default, bind, Out.bind, any_update_g384 p _ _ _ hu, Any.finalize,
      Any.finalizeIntoDirty, hf, pure]
    congr 1
    subst hcf
    simp only [comp1024, X8.toBlock, Nat.reduceDiv, Nat.reduceMul, List.drop_succ_cons, List.drop_zero] at hres
    simp only [comp1024, X8.toBlock, List.drop_succ_cons, List.drop_zero]
    have e : ∀ (a b : BitVec 64) (t : List (BitVec 64)), leWords t = (leWords (a :: b :: t)).drop 16 := by
      intro a b t; simp [leWords, toLe64]
    rw [e, hres]
    simp only [Spec.groestl, Spec.blockLen, Spec.omega, List.drop_drop]
    rfl

/-- Layers (b),(c) as property statements: on the register representation of chaining values,
    `Compressor512::input` is the specification's compression function `f` … -/
theorem tf512_is_f (h m : List (BitVec 8)) (hh : h.length = 64) (hm : m.length = 64) :
    comp512.input (rep512 h) m = rep512 (Spec.f 8 h m) := conf512.tf h m hh hm

/-- … and `Compressor512::finalize_dirty` returns, in words 4..7, the last 32 bytes of `P(h) ⊕ h`. -/
theorem of512_is_omega (h : List (BitVec 8)) (hh : h.length = 64) :
    leWords ((comp512.finalizeDirty (rep512 h)).2.drop 4) = (Spec.xorBytes (Spec.P 8 h) h).drop 32 :=
  conf512.of h hh

/-- The same for `Compressor1024`. -/
theorem tf1024_is_f (h m : List (BitVec 8)) (hh : h.length = 128) (hm : m.length = 128) :
    comp1024.input (rep1024 h) m = rep1024 (Spec.f 16 h m) := conf1024.tf h m hh hm

theorem of1024_is_omega (h : List (BitVec 8)) (hh : h.length = 128) :
    leWords ((comp1024.finalizeDirty (rep1024 h)).2.drop 8) = (Spec.xorBytes (Spec.P 16 h) h).drop 64 :=
  conf1024.of h hh

/-- **C07.**  For every build profile (with rustc's overflow checks in `debug`), each of the four hash
    types and every message whose padded length is below 2^64 blocks (the specification's own
    limit), the one-shot digest computed by the model of `groestl-aesni` returns normally and equals
    the Grøstl specification's digest. -/
theorem groestl_conforms (p : Profile) (v : Variant) (msg : List (BitVec 8))
    (hlen : Spec.padBlocks (Spec.blockLen v.bits) msg.length < 2 ^ 64) :
    Model.digest p v msg = .ok (Spec.groestl v.bits msg) :=
  groestl_conforms_partial conf512 conf1024 p v msg hlen

/-- C17, Grøstl part: after absorbing `msg ++ data` (in two `update` calls here, hence by induction in
    any number) the block counter is `⌊n/b⌋`, the buffer holds the `n mod b` trailing bytes, and the
    checked `block_counter += 1` does not fire — for every length with `⌊n/b⌋ < 2^64`. -/
theorem counter_exact {C} (K : Comp C) (hb : 0 < K.b) (p : Profile) (c0 : C) (h : Hasher C)
    (msg data : List (BitVec 8)) (hi : Inv K c0 h msg) (hlen : (msg ++ data).length / K.b < 2 ^ 64) :
    ∃ h', update K p h data = .ok h' ∧ Inv K c0 h' (msg ++ data) :=
  Inv_update K hb p c0 h msg data hi hlen

/-- C17, Grøstl part: the count passed to `len64_padding_be` is the specification's number of
    blocks, computed without overflow whenever that number is below 2^64, and the compressor is fed
    exactly the blocks of the specification's padded message. -/
theorem final_count_exact {C} (K : Comp C) (hb8 : 8 ≤ K.b) (p : Profile) (c0 : C) (h : Hasher C)
    (msg : List (BitVec 8)) (hi : Inv K c0 h msg) (hlen : Spec.padBlocks K.b msg.length < 2 ^ 64) :
    (∃ h', finalizeDirty K p h =
      .ok (h', (K.finalizeDirty ((fullBlocks K.b (Spec.pad K.b msg)).foldl K.input c0)).2)) ∧
    rest K.b (Spec.pad K.b msg) = [] :=
  finalizeDirty_spec K hb8 p c0 h msg hi hlen

/-! ## non-vacuity and validation on the official test vectors (evaluated by the kernel) -/

/-- Spec: Grøstl-256("") -/
example : some (Spec.groestl 256 []) =
    bytesOfHex "1a52d11d550039be16107f9c58db9ebcc417f16f736adb2502567119f0083467" := spec_256_empty
/-- Spec: Grøstl-512("") -/
example : some (Spec.groestl 512 []) =
    bytesOfHex "6d3ad29d279110eef3adbd66de2a0345a77baede1557f5d099fce0c03d6dc2ba8e6d4a6633dfbd66053c20faa87d1a11f39a7fbe4a6c2f009801370308fc4ad8" :=
  spec_512_empty
/-- Model (debug profile: all overflow checks active): by `groestl_conforms` the model yields the
    same official digests -/
example : Model.digest .debug .g256 [] = .ok (Spec.groestl 256 []) :=
  groestl_conforms .debug .g256 [] (by decide)
example : Model.digest .debug .g512 [] = .ok (Spec.groestl 512 []) :=
  groestl_conforms .debug .g512 [] (by decide)
/-- the length hypothesis is satisfiable far beyond 2^32 bits: -/
example : Spec.padBlocks 64 (2 ^ 40) < 2 ^ 64 := by decide
example : Spec.padBlocks 128 (2 ^ 70) < 2 ^ 64 := by decide

/-- **Source tie (literals only).**  Every integer literal above 0xffff of hashes/groestl/src/compressor.rs, per
    function and in source order, as re-read from the Rust source on every run (tools/inventory_kernels.py →
    `CC.Gen.Kernels.groestl_literals`, test code dropped): the model definitions that embed such literals —
    `mul2`, `transposeMask`, `roundConst`, `roundMask`, `O1`, `constP`, `maskP1024`, `constQ`, `maskQ1024`,
    `stepQ` — equal the same expressions over the regenerated literals (`CC.Src.glit f i` = literal `i` of fn `f`).
    The intrinsic-level dataflow (closures, `map`, loops) is not translated; it stays tied by the differential
    correspondence.  Individual facts: `CC.Src.src_groestl_*` (lean/CC/Groestl/Src.lean). -/
theorem source_kernels_match :
    CC.Gen.Kernels.groestl_errors = [] ∧
    CC.Gen.Kernels.groestl_literals.map (fun p => (p.1, p.2.length)) =
      [("mul2", 1), ("transpose_a", 2), ("round", 21), ("transpose", 2), ("transpose_inv", 2),
       ("rounds_p", 19), ("rounds_q", 20)] ∧
    (transposeMask = CC.Groestl.Intrin.mm_set_epi64x (CC.Src.glit "transpose_a" 0) (CC.Src.glit "transpose_a" 1) ∧
     transposeMask = CC.Groestl.Intrin.mm_set_epi64x (CC.Src.glit "transpose" 0) (CC.Src.glit "transpose" 1) ∧
     transposeMask = CC.Groestl.Intrin.mm_set_epi64x (CC.Src.glit "transpose_inv" 0) (CC.Src.glit "transpose_inv" 1)) ∧
    roundMask = CC.Src.x8OfPairs ((CC.Src.glits "round").drop 5) ∧
    maskP1024 = CC.Src.x8OfPairs ((CC.Src.glits "rounds_p").drop 3) ∧
    maskQ1024 = (CC.Src.x8OfPairs ((CC.Src.glits "rounds_q").drop 3)).shuffle 1 3 5 7 0 2 4 6 ∧
    O1 = CC.Src.glit "rounds_p" 0 :=
  ⟨CC.Src.src_groestl_clean, CC.Src.src_groestl_literal_sites, CC.Src.src_groestl_transposeMask,
   CC.Src.src_groestl_roundMask, CC.Src.src_groestl_maskP1024, CC.Src.src_groestl_maskQ1024.1,
   CC.Src.src_groestl_constP.1⟩

/-- … and the literals inside function bodies: `mul2`, `roundConst`, `constP`, `constQ`, `stepQ` over the
    regenerated literals (see `CC.Src.src_groestl_mul2`, `…_roundConst`, `…_constP`, `…_constQ`, `…_maskQ1024`). -/
theorem source_literals_match :
    (roundConst = fun i =>
      let ff := CC.Src.glit "round" 0
      let l0 := CC.Groestl.Intrin.mm_set_epi64x ff ((i * CC.Src.glit "round" 1) ^^^ CC.Src.glit "round" 2)
      let lx := CC.Groestl.Intrin.mm_set_epi64x ff 0#64
      let l7 := CC.Groestl.Intrin.mm_set_epi64x ((i * CC.Src.glit "round" 3) ^^^ CC.Src.glit "round" 4) 0#64
      ⟨l0, lx, lx, lx, lx, lx, lx, l7⟩) ∧
    (constP = fun i =>
      let i := BitVec.ofNat 64 i
      CC.Groestl.Intrin.mm_set_epi64x ((i * CC.Src.glit "rounds_p" 0) ^^^ CC.Src.glit "rounds_p" 1)
        ((i * CC.Src.glit "rounds_p" 0) ^^^ CC.Src.glit "rounds_p" 2)) ∧
    (constQ = fun i =>
      let i := BitVec.ofNat 64 i
      CC.Groestl.Intrin.mm_set_epi64x ((i * CC.Src.glit "rounds_q" 0) ^^^ CC.Src.glit "rounds_q" 1)
        ((i * CC.Src.glit "rounds_q" 0) ^^^ CC.Src.glit "rounds_q" 2)) :=
  ⟨CC.Src.src_groestl_roundConst, CC.Src.src_groestl_constP.2, CC.Src.src_groestl_constQ⟩

/-- SOURCE TIE, phase 3 (the glue of hashes/groestl/src/lib.rs): every definition regenerated from `impl_digest!`
    (both instantiations) and from the hand-written wrapper types `Groestl224(Groestl256)`, `Groestl384(Groestl512)`
    equals the model, on the encoding of the struct as `(buffer, block_counter, compressor)` (`CC.Src.groestlEnc`, read back
    with `CC.Src.groestlDec`), with `Compressor512` / `Compressor1024` instantiated by `comp512` / `comp1024`, for both
    profiles, EVERY state (no invariant on buffer or counter is needed) and every input; outcomes are compared up to
    the panic message (`CC.Src.noMsg`).  `new_truncated(bits: u32)`: every `bits`.  `finalize_into_dirty`: for every
    previous content of `out` (it is overwritten completely).
    Individual facts: `CC.Src.src_groestl_*` (lean/CC/Groestl/Src.lean, section "phase 3"); the generic lemmas over
    `K : Comp C` are `CC.Src.groestl_new_truncated_glue_*`, `groestl_update_glue_*`, `groestl_finalize_dirty_glue_*`. -/
theorem source_glue_match :
    CC.Gen.Kernels.groestl_errors = [] ∧
    -- the struct declarations: `Clone` is derived (field-wise copy); a hand-written `Clone` makes the translator fail
    CC.Gen.Kernels.groestl_structs =
      [("Groestl224", "struct", ["0"], ["Clone", "Debug"], ["Default"]),
       ("Groestl256", "struct", ["buffer", "block_counter", "compressor"], ["Clone"], ["Default"]),
       ("Groestl384", "struct", ["0"], ["Clone", "Debug"], ["Default"]),
       ("Groestl512", "struct", ["buffer", "block_counter", "compressor"], ["Clone"], ["Default"]),
       ("Compressor512", "struct", ["cv"], ["Clone"], []),
       ("Compressor1024", "struct", ["cv"], ["Clone"], []),
       ("X4", "struct", ["0", "1", "2", "3"], ["Clone", "Copy"], []),
       ("X8", "struct", ["0", "1", "2", "3", "4", "5", "6", "7"], ["Clone", "Copy"], [])] ∧
    -- `new_truncated`
    (∀ bits : BitVec 32,
      CC.Src.groestlEnc (newTruncated comp512 bits.toNat) = CC.Gen.Kernels.groestl_new_truncated_256 comp512.new bits) ∧
    (∀ bits : BitVec 32,
      CC.Src.groestlEnc (newTruncated comp1024 bits.toNat) = CC.Gen.Kernels.groestl_new_truncated_512 comp1024.new bits) ∧
    -- `Default::default`
    (Any.default .g224 = .g224 (CC.Src.groestlDec (CC.Gen.Kernels.groestl_default_224 comp512.new)) ∧
     Any.default .g256 = .g256 (CC.Src.groestlDec (CC.Gen.Kernels.groestl_default_256 comp512.new)) ∧
     Any.default .g384 = .g384 (CC.Src.groestlDec (CC.Gen.Kernels.groestl_default_384 comp1024.new)) ∧
     Any.default .g512 = .g512 (CC.Src.groestlDec (CC.Gen.Kernels.groestl_default_512 comp1024.new))) ∧
    -- `Reset::reset`
    (∀ h : Hasher X4,
      Any.reset (.g224 h)
        = .g224 (CC.Src.groestlDec (CC.Gen.Kernels.groestl_reset_224 comp512.new h.buffer h.blockCounter h.compressor)) ∧
      Any.reset (.g256 h)
        = .g256 (CC.Src.groestlDec (CC.Gen.Kernels.groestl_reset_256 comp512.new h.buffer h.blockCounter h.compressor))) ∧
    (∀ h : Hasher X8,
      Any.reset (.g384 h)
        = .g384 (CC.Src.groestlDec (CC.Gen.Kernels.groestl_reset_384 comp1024.new h.buffer h.blockCounter h.compressor)) ∧
      Any.reset (.g512 h)
        = .g512 (CC.Src.groestlDec (CC.Gen.Kernels.groestl_reset_512 comp1024.new h.buffer h.blockCounter h.compressor))) ∧
    -- `Update::update`
    (∀ (p : Profile) (h : Hasher X4) (data : List (BitVec 8)),
      CC.Src.noMsg (CC.Gen.Kernels.groestl_update_224 comp512.input p h.buffer h.blockCounter h.compressor data
          >>= fun t => .ok (Any.g224 (CC.Src.groestlDec t)))
        = CC.Src.noMsg (Any.update p (.g224 h) data) ∧
      CC.Src.noMsg (CC.Gen.Kernels.groestl_update_256 comp512.input p h.buffer h.blockCounter h.compressor data
          >>= fun t => .ok (Any.g256 (CC.Src.groestlDec t)))
        = CC.Src.noMsg (Any.update p (.g256 h) data)) ∧
    (∀ (p : Profile) (h : Hasher X8) (data : List (BitVec 8)),
      CC.Src.noMsg (CC.Gen.Kernels.groestl_update_384 comp1024.input p h.buffer h.blockCounter h.compressor data
          >>= fun t => .ok (Any.g384 (CC.Src.groestlDec t)))
        = CC.Src.noMsg (Any.update p (.g384 h) data) ∧
      CC.Src.noMsg (CC.Gen.Kernels.groestl_update_512 comp1024.input p h.buffer h.blockCounter h.compressor data
          >>= fun t => .ok (Any.g512 (CC.Src.groestlDec t)))
        = CC.Src.noMsg (Any.update p (.g512 h) data)) ∧
    -- `fn finalize_dirty`
    (∀ (p : Profile) (h : Hasher X4),
      CC.Src.noMsg (CC.Gen.Kernels.groestl_finalize_dirty_256 comp512.input comp512.finalizeDirty p h.buffer
          h.blockCounter h.compressor)
        = CC.Src.noMsg (finalizeDirty comp512 p h >>= fun r => .ok (r.2, CC.Src.groestlEnc r.1))) ∧
    (∀ (p : Profile) (h : Hasher X8),
      CC.Src.noMsg (CC.Gen.Kernels.groestl_finalize_dirty_512 comp1024.input comp1024.finalizeDirty p h.buffer
          h.blockCounter h.compressor)
        = CC.Src.noMsg (finalizeDirty comp1024 p h >>= fun r => .ok (r.2, CC.Src.groestlEnc r.1))) ∧
    -- `FixedOutputDirty::finalize_into_dirty`
    (∀ (p : Profile) (h : Hasher X4) (out : List (BitVec 8)),
      CC.Src.noMsg (CC.Gen.Kernels.groestl_finalize_into_dirty_224 comp512.input comp512.finalizeDirty p h.buffer
          h.blockCounter h.compressor out
          >>= fun t => .ok (Any.g224 (CC.Src.groestlDec (t.1, t.2.1, t.2.2.1)), t.2.2.2))
        = CC.Src.noMsg (Any.finalizeIntoDirty p (.g224 h)) ∧
      CC.Src.noMsg (CC.Gen.Kernels.groestl_finalize_into_dirty_256 comp512.input comp512.finalizeDirty p h.buffer
          h.blockCounter h.compressor out
          >>= fun t => .ok (Any.g256 (CC.Src.groestlDec (t.1, t.2.1, t.2.2.1)), t.2.2.2))
        = CC.Src.noMsg (Any.finalizeIntoDirty p (.g256 h))) ∧
    (∀ (p : Profile) (h : Hasher X8) (out : List (BitVec 8)),
      CC.Src.noMsg (CC.Gen.Kernels.groestl_finalize_into_dirty_384 comp1024.input comp1024.finalizeDirty p h.buffer
          h.blockCounter h.compressor out
          >>= fun t => .ok (Any.g384 (CC.Src.groestlDec (t.1, t.2.1, t.2.2.1)), t.2.2.2))
        = CC.Src.noMsg (Any.finalizeIntoDirty p (.g384 h)) ∧
      CC.Src.noMsg (CC.Gen.Kernels.groestl_finalize_into_dirty_512 comp1024.input comp1024.finalizeDirty p h.buffer
          h.blockCounter h.compressor out
          >>= fun t => .ok (Any.g512 (CC.Src.groestlDec (t.1, t.2.1, t.2.2.1)), t.2.2.2))
        = CC.Src.noMsg (Any.finalizeIntoDirty p (.g512 h))) :=
  ⟨CC.Src.src_groestl_clean, CC.Src.src_groestl_structs,
   CC.Src.src_groestl_new_truncated_256, CC.Src.src_groestl_new_truncated_512,
   ⟨CC.Src.src_groestl_default_224, CC.Src.src_groestl_default_256, CC.Src.src_groestl_default_384,
    CC.Src.src_groestl_default_512⟩,
   fun h => ⟨CC.Src.src_groestl_reset_224 h, CC.Src.src_groestl_reset_256 h⟩,
   fun h => ⟨CC.Src.src_groestl_reset_384 h, CC.Src.src_groestl_reset_512 h⟩,
   fun p h data => ⟨CC.Src.src_groestl_update_224 p h data, CC.Src.src_groestl_update_256 p h data⟩,
   fun p h data => ⟨CC.Src.src_groestl_update_384 p h data, CC.Src.src_groestl_update_512 p h data⟩,
   CC.Src.src_groestl_finalize_dirty_256, CC.Src.src_groestl_finalize_dirty_512,
   fun p h out => ⟨CC.Src.src_groestl_finalize_into_dirty_224 p h out, CC.Src.src_groestl_finalize_into_dirty_256 p h out⟩,
   fun p h out => ⟨CC.Src.src_groestl_finalize_into_dirty_384 p h out, CC.Src.src_groestl_finalize_into_dirty_512 p h out⟩⟩

/-- **Source tie, round 6 (the intrinsic dataflow).**  `tools/inventory_hashc.py` regenerates, on every run, Lean
    definitions from the Rust of hashes/groestl/src/compressor.rs — `mul2`, `submix` (the `aesenclast` step and the
    MixBytes xor network through `X8::rotl*` / `BitXor` / `map`), `transpose_a`, `transpose_b`, `transpose_b_inv`,
    `transpose_o_b`, `transpose_o_b_inv`, `round` (round-constant words, the eight `pshufb` masks), `rounds_p_q`,
    `tf512_impl`, `of512_impl`, `init512_impl`, `transpose`, `transpose_inv`, `rounds_p`, `rounds_q` (the constant
    tables built by the first loop, the fourteen unrolled rounds, the shuffled mask order), `init1024_impl`,
    `tf1024_impl`, `of1024_impl` — and of `Compressor512` / `Compressor1024` in lib.rs (`transmute!` and the
    `CvBytes1024` union between `[u64; n]` and the vectors, little endian): every shuffle immediate, mask, xor, operand
    order, `aesenclast` key operand, round-constant index and load offset.  The model's definitions equal them.
    `groestl_wrappers` pins that the functions of the modules `aes` / `ssse3` / `sse2` are bare calls of the `*_impl`
    functions.  Individual facts: `CC.Src.src_groestl_df_*` (lean/CC/Groestl/SrcDataflow.lean). -/
theorem source_dataflow_match :
    (CC.Gen.HashCSrc.groestl_hashc_errors = []) ∧
    (mul2 = CC.Gen.HashCSrc.groestl_mul2) ∧
    (submix = fun a => CC.Src.g8Of (CC.Gen.HashCSrc.groestl_submix a.r0 a.r1 a.r2 a.r3 a.r4 a.r5 a.r6 a.r7)) ∧
    (transpose_a = fun a => CC.Src.g4Of (CC.Gen.HashCSrc.groestl_transpose_a a.r0 a.r1 a.r2 a.r3)) ∧
    (transpose_b = fun a => CC.Src.g8Of (CC.Gen.HashCSrc.groestl_transpose_b a.r0 a.r1 a.r2 a.r3 a.r4 a.r5 a.r6 a.r7)) ∧
    (transpose_b_inv = fun a => CC.Src.g8Of (CC.Gen.HashCSrc.groestl_transpose_b_inv a.r0 a.r1 a.r2 a.r3 a.r4 a.r5 a.r6 a.r7)) ∧
    (transpose_o_b = fun a => CC.Src.g8Of (CC.Gen.HashCSrc.groestl_transpose_o_b a.r0 a.r1 a.r2 a.r3)) ∧
    (transpose_o_b_inv = fun a => CC.Src.g4Of (CC.Gen.HashCSrc.groestl_transpose_o_b_inv a.r0 a.r1 a.r2 a.r3 a.r4 a.r5 a.r6 a.r7)) ∧
    (round = fun i a => CC.Src.g8Of (CC.Gen.HashCSrc.groestl_round i a.r0 a.r1 a.r2 a.r3 a.r4 a.r5 a.r6 a.r7)) ∧
    (rounds_p_q = fun a => CC.Src.g8Of (CC.Gen.HashCSrc.groestl_rounds_p_q a.r0 a.r1 a.r2 a.r3 a.r4 a.r5 a.r6 a.r7)) ∧
    (tf512_impl = fun a data => CC.Src.g4Of (CC.Gen.HashCSrc.groestl_tf512_impl a.r0 a.r1 a.r2 a.r3 data)) ∧
    (of512_impl = fun a => CC.Src.g4Of (CC.Gen.HashCSrc.groestl_of512_impl a.r0 a.r1 a.r2 a.r3)) ∧
    (init512_impl = fun a => CC.Src.g4Of (CC.Gen.HashCSrc.groestl_init512_impl a.r0 a.r1 a.r2 a.r3)) ∧
    (transpose = fun a => CC.Src.g8Of (CC.Gen.HashCSrc.groestl_transpose a.r0 a.r1 a.r2 a.r3 a.r4 a.r5 a.r6 a.r7)) ∧
    (transpose_inv = fun a => CC.Src.g8Of (CC.Gen.HashCSrc.groestl_transpose_inv a.r0 a.r1 a.r2 a.r3 a.r4 a.r5 a.r6 a.r7)) ∧
    (rounds_p = fun a => CC.Src.g8Of (CC.Gen.HashCSrc.groestl_rounds_p a.r0 a.r1 a.r2 a.r3 a.r4 a.r5 a.r6 a.r7)) ∧
    (rounds_q = fun a => CC.Src.g8Of (CC.Gen.HashCSrc.groestl_rounds_q a.r0 a.r1 a.r2 a.r3 a.r4 a.r5 a.r6 a.r7)) ∧
    (init1024_impl = fun a => CC.Src.g8Of (CC.Gen.HashCSrc.groestl_init1024_impl a.r0 a.r1 a.r2 a.r3 a.r4 a.r5 a.r6 a.r7)) ∧
    (tf1024_impl = fun a data => CC.Src.g8Of (CC.Gen.HashCSrc.groestl_tf1024_impl a.r0 a.r1 a.r2 a.r3 a.r4 a.r5 a.r6 a.r7 data)) ∧
    (of1024_impl = fun a => CC.Src.g8Of (CC.Gen.HashCSrc.groestl_of1024_impl a.r0 a.r1 a.r2 a.r3 a.r4 a.r5 a.r6 a.r7)) ∧
    (comp512.new = fun block => CC.Src.g4Of (CC.Gen.HashCSrc.groestl_compressor512_new block)) ∧
    (comp512.input = fun a data => CC.Src.g4Of (CC.Gen.HashCSrc.groestl_compressor512_input a.r0 a.r1 a.r2 a.r3 data)) ∧
    (comp512.finalizeDirty = fun a => CC.Src.fin512Of (CC.Gen.HashCSrc.groestl_compressor512_finalize_dirty a.r0 a.r1 a.r2 a.r3)) ∧
    (comp1024.new = fun block => CC.Src.g8Of (CC.Gen.HashCSrc.groestl_compressor1024_new block)) ∧
    (comp1024.input = fun a data =>
      CC.Src.g8Of (CC.Gen.HashCSrc.groestl_compressor1024_input a.r0 a.r1 a.r2 a.r3 a.r4 a.r5 a.r6 a.r7 data)) ∧
    (comp1024.finalizeDirty = fun a =>
      CC.Src.fin1024Of (CC.Gen.HashCSrc.groestl_compressor1024_finalize_dirty a.r0 a.r1 a.r2 a.r3 a.r4 a.r5 a.r6 a.r7)) ∧
    (CC.Gen.HashCSrc.groestl_wrappers = [
  ("aes", "tf512", "tf512_impl ( cv , data )"),
  ("aes", "of512", "of512_impl ( cv )"),
  ("aes", "init512", "init512_impl ( cv )"),
  ("aes", "tf1024", "tf1024_impl ( cv , data )"),
  ("aes", "of1024", "of1024_impl ( cv )"),
  ("aes", "init1024", "init1024_impl ( cv )"),
  ("ssse3", "tf512", "tf512_impl ( cv , data )"),
  ("ssse3", "of512", "of512_impl ( cv )"),
  ("ssse3", "tf1024", "tf1024_impl ( cv , data )"),
  ("ssse3", "of1024", "of1024_impl ( cv )"),
  ("sse2", "tf512", "tf512_impl ( cv , data )"),
  ("sse2", "of512", "of512_impl ( cv )"),
  ("sse2", "init512", "init512_impl ( cv )"),
  ("sse2", "tf1024", "tf1024_impl ( cv , data )"),
  ("sse2", "of1024", "of1024_impl ( cv )"),
  ("sse2", "init1024", "init1024_impl ( cv )"),
  ("autodetect", "tf512", "dispatch ! ( tf512 , Tf < X4 > ) ; unsafe { IMPL ( cv , data . as_ptr ( ) ) }"),
  ("autodetect", "of512", "dispatch ! ( of512 , Of < X4 > ) ; unsafe { IMPL ( cv ) }"),
  ("autodetect", "init512", "dispatch ! ( init512 , Init < X4 > ) ; unsafe { IMPL ( cv ) }"),
  ("autodetect", "tf1024", "dispatch ! ( tf1024 , Tf < X8 > ) ; unsafe { IMPL ( cv , data . as_ptr ( ) ) }"),
  ("autodetect", "of1024", "dispatch ! ( of1024 , Of < X8 > ) ; unsafe { IMPL ( cv ) }"),
  ("autodetect", "init1024", "dispatch ! ( init1024 , Init < X8 > ) ; unsafe { IMPL ( cv ) }")]) :=
  ⟨CC.Src.src_groestl_df_hashc_clean,
   CC.Src.src_groestl_df_mul2,
   CC.Src.src_groestl_df_submix,
   CC.Src.src_groestl_df_transpose_a,
   CC.Src.src_groestl_df_transpose_b,
   CC.Src.src_groestl_df_transpose_b_inv,
   CC.Src.src_groestl_df_transpose_o_b,
   CC.Src.src_groestl_df_transpose_o_b_inv,
   CC.Src.src_groestl_df_round,
   CC.Src.src_groestl_df_rounds_p_q,
   CC.Src.src_groestl_df_tf512_impl,
   CC.Src.src_groestl_df_of512_impl,
   CC.Src.src_groestl_df_init512_impl,
   CC.Src.src_groestl_df_transpose,
   CC.Src.src_groestl_df_transpose_inv,
   CC.Src.src_groestl_df_rounds_p,
   CC.Src.src_groestl_df_rounds_q,
   CC.Src.src_groestl_df_init1024_impl,
   CC.Src.src_groestl_df_tf1024_impl,
   CC.Src.src_groestl_df_of1024_impl,
   CC.Src.src_groestl_df_compressor512_new,
   CC.Src.src_groestl_df_compressor512_input,
   CC.Src.src_groestl_df_compressor512_finalize_dirty,
   CC.Src.src_groestl_df_compressor1024_new,
   CC.Src.src_groestl_df_compressor1024_input,
   CC.Src.src_groestl_df_compressor1024_finalize_dirty,
   CC.Src.src_groestl_df_wrappers⟩

end CC.Thm.C07
