/-
  C01 — ChaCha keystream equals the specified ChaCha function at every position.
  Property theorems only; helper lemmas live in CC/ChaCha/Lemmas.lean, CC/Simd/Lemmas.lean.
-/
import CC.ChaCha.Lemmas
import CC.ChaCha.Stream
import CC.ChaCha.Keystream
import CC.Thm.C02
import CC.ChaCha.Src
namespace CC.Thm.C01
open CC CC.Simd CC.ChaCha CC.ChaCha.Spec

/-- The row-vectorised double round (round; diagonalize; round; undiagonalize) on the reference
    machine is RFC 7539's column round followed by the diagonal round — for every state, and
    therefore `dr` of them are `Spec.rounds dr`, for every `dr`. -/
theorem core_eq_spec (dr : Nat) (x : RS) :
    toS16 (iter (dround Mach.ref) dr x) = rounds dr (toS16 x) :=
  rounds_ref dr x

/-- Every 64-byte block the block-level `refill` emits is the specified block function of the
    sixteen words the state denotes (constants ‖ b ‖ c ‖ d), with `2·dr` rounds, feed-forward and
    little-endian serialisation — for all states and all round counts. -/
theorem block_conforms (s : Guts) (dr : Nat) :
    (refill Mach.ref s dr).1 = serialize (add (rounds dr (gutsS16 s)) (gutsS16 s)) :=
  refill_ref_block s dr

/-- **Keystream conformance.** For each of the seven cipher types (3 round counts × 3 nonce
    layouts), every 32-byte key, every nonce of the type's length and every byte position `p`, the
    keystream byte the model's stream has at `p` is byte `p mod 64` of the specified block function
    at block counter `p / 64` (for XChaCha after the HChaCha subkey derivation from the first 16
    nonce bytes), little-endian serialised. -/
theorem keystream_conforms (v : Variant) (key nonce : List (BitVec 8)) (hk : key.length = 32)
    (hn : nonce.length = v.nonceLen) (p : Nat) :
    (layOf v (Cipher.new Mach.ref v key nonce).buf.state).byteAt v.drounds p = ksByte v key nonce p :=
  ks_byte_conforms v key nonce hk hn p

/-- **Applying the keystream XORs exactly those bytes and changes nothing else.** From any state
    `c` reached from `new v key nonce` by any history (that is what `RC … c pos` says, see C02),
    an in-range `try_apply_keystream(data)` returns `Ok`, the new data has the same length, and its
    byte `i` is `data[i] XOR Spec.ksByte v key nonce (pos + i)`. -/
theorem apply_exact (v : Variant) (key nonce : List (BitVec 8)) (hk : key.length = 32)
    (hn : nonce.length = v.nonceLen) (p : Profile) (c : Cipher) (pos : Nat) (data : List (BitVec 8))
    (hv : c.v = v) (h : RC (Cipher.new Mach.ref v key nonce).buf.state c pos)
    (hm : data.length < 2 ^ 64) (hfit : pos + data.length ≤ limitOf v) :
    ∃ c' out, Cipher.tryApply Mach.ref p c data = .ok (c', some out) ∧ out.length = data.length ∧
      ∀ i (hi : i < data.length), out[i]? = some (data[i] ^^^ ksByte v key nonce (pos + i)) := by
  subst hv
  obtain ⟨c', out, he, hl, hb⟩ := CC.Thm.C02.apply_bytewise _ p c pos data h hm hfit
  refine ⟨c', out, he, hl, ?_⟩
  intro i hi
  rw [hb i hi, ks_byte_conforms c.v key nonce hk hn]

/-- Non-vacuity / spec validation: RFC 7539 §2.3.2 test vector (key 00..1f, counter 1,
    nonce 00 00 00 09 00 00 00 4a 00 00 00 00), first 16 bytes of the block. -/
example :
    (block 10 (keyWords ((List.range 32).map (BitVec.ofNat 8))) 1 0x09000000#32 0x4a000000#32 0).take 16
      = [0x10#8, 0xf1#8, 0xe7#8, 0xe4#8, 0xd1#8, 0x3b#8, 0x59#8, 0x15#8,
         0x50#8, 0x0f#8, 0xdd#8, 0x1f#8, 0xa3#8, 0x20#8, 0x71#8, 0xc4#8] := by
  decide +kernel

/-- **Source tie.**  The arithmetic kernels of `guts.rs` (`round`, `diagonalize`, `undiagonalize`, at `M::u32x4`
    and at `M::u32x4x4`), as TRANSLATED from the Rust source on every run by tools/inventory_kernels.py into
    `CC.Gen.Kernels`, equal the hand-written model definitions all theorems above are about; so do the
    constants ("expand 32-byte k", counter increments, block / buffer sizes, `BIG_LEN`, `SMALL_LEN`) and the
    (nonce size, double rounds, X) parameters of the seven public cipher types.  Individual facts:
    `CC.Src.src_chacha_*` (lean/CC/ChaCha/Src.lean).  Trusted: the operator/method ↦ `Mach` field table printed
    in the header of lean/CC/Gen/Kernels.lean. -/
theorem source_kernels_match :
    CC.Gen.Kernels.chacha_errors = [] ∧
    (CC.ChaCha.round = fun M x => CC.Src.rsOf (CC.Gen.Kernels.chacha_round M x.a x.b x.c x.d)) ∧
    (CC.ChaCha.diagonalize = fun M x => CC.Src.rsOf (CC.Gen.Kernels.chacha_diagonalize M x.a x.b x.c x.d)) ∧
    (CC.ChaCha.undiagonalize = fun M x => CC.Src.rsOf (CC.Gen.Kernels.chacha_undiagonalize M x.a x.b x.c x.d)) ∧
    (CC.ChaCha.round4 = fun M x => CC.Src.rs4Of (CC.Gen.Kernels.chacha_round4 M x.a x.b x.c x.d)) ∧
    (CC.ChaCha.diagonalize4 = fun M x => CC.Src.rs4Of (CC.Gen.Kernels.chacha_diagonalize4 M x.a x.b x.c x.d)) ∧
    (CC.ChaCha.undiagonalize4 = fun M x => CC.Src.rs4Of (CC.Gen.Kernels.chacha_undiagonalize4 M x.a x.b x.c x.d)) ∧
    (CC.Gen.Kernels.chacha_k_literals ≠ [] ∧
      ∀ k ∈ CC.Gen.Kernels.chacha_k_literals, k = [Spec.c0, Spec.c1, Spec.c2, Spec.c3]) ∧
    CC.Gen.Kernels.chacha_ctr_literals = [[0, 0], [1, 0], [2, 0], [3, 0]] ∧
    (CC.Gen.Kernels.chacha_BLOCK = 64 ∧ CC.Gen.Kernels.chacha_BLOCK64 = 64 ∧ CC.Gen.Kernels.chacha_BUFBLOCKS = 4 ∧
      CC.Gen.Kernels.chacha_BUFSZ64 = 256 ∧ CC.Gen.Kernels.chacha_BUFSZ = 256 ∧
      CC.Gen.Kernels.chacha_BIG_LEN = BIG_LEN ∧ CC.Gen.Kernels.chacha_SMALL_LEN = SMALL_LEN) ∧
    CC.Gen.Kernels.chacha_variants =
      CC.Src.chachaModelVariants.map (fun nv => (nv.1, nv.2.nonceLen, nv.2.drounds, nv.2.layout == .x)) ∧
    (∀ nv ∈ CC.Src.chachaModelVariants, CC.Drv.ChaCha.variantOfName nv.1.toLower = some nv.2) :=
  ⟨CC.Src.src_chacha_clean, CC.Src.src_chacha_round, CC.Src.src_chacha_diagonalize, CC.Src.src_chacha_undiagonalize,
   CC.Src.src_chacha_round4, CC.Src.src_chacha_diagonalize4, CC.Src.src_chacha_undiagonalize4, CC.Src.src_chacha_k,
   CC.Src.src_chacha_ctr_increments, CC.Src.src_chacha_sizes, CC.Src.src_chacha_variants,
   CC.Src.src_chacha_variants_driver⟩

/-- **Source tie, block-level code.**  The code AROUND the kernels of `guts.rs` / `rustcrypto_impl.rs`, as TRANSLATED from
    the Rust on every run (tools/inventory_kernels_code.py → `CC.Gen.Kernels`: `&mut` parameters threaded, `for _ in
    0..drounds` as `iter`, stores into `out` as byte segments, `dispatch!` wrappers instantiated with the machine),
    equals the model definitions the theorems above (and C02, C11, C14, C15) are about: `pos64`, `seek64`, `seek32`,
    `inc_block_ct`, `d0123`, `add_pos`, `refill_narrow_rounds`, `refill_narrow` (= `ChaCha::refill`), `refill_wide_impl`
    (= `ChaCha::refill4`), `set_stream_param` / `get_stream_param` (every `u32` parameter), `stream32_eq`, `stream64_eq`,
    `read_u32le`, `ChaCha::new` and `init_chacha` (nonce lengths 8 and 12), both copies of `init_chacha_x`.
    `drounds: u32` is the loop count `dr.toNat`; `out` is overwritten entirely (its old content is unused).
    Individual facts: `CC.Src.src_chacha_*` (lean/CC/ChaCha/Src.lean). -/
theorem source_code_match :
    CC.Gen.Kernels.chacha_errors = [] ∧
    (pos64 = fun M s => CC.Gen.Kernels.chacha_pos64 M s.b s.c s.d) ∧
    (seek64 = fun M s ct => CC.Src.gutsOf (CC.Gen.Kernels.chacha_seek64 M s.b s.c s.d ct)) ∧
    (seek32 = fun M s ct => CC.Src.gutsOf (CC.Gen.Kernels.chacha_seek32 M s.b s.c s.d ct)) ∧
    (incBlockCt = fun M s => CC.Src.gutsOf (CC.Gen.Kernels.chacha_inc_block_ct M s.b s.c s.d)) ∧
    d0123 = CC.Gen.Kernels.chacha_d0123 ∧ addPos = CC.Gen.Kernels.chacha_add_pos ∧
    (∀ (M : Mach) (s : Guts) (dr : BitVec 32),
      refillNarrowRounds M s dr.toNat = CC.Src.rsOf (CC.Gen.Kernels.chacha_refill_narrow_rounds M s.b s.c s.d dr)) ∧
    (∀ (M : Mach) (s : Guts) (dr : BitVec 32) (out : List (BitVec 8)),
      refill M s dr.toNat = (let r := CC.Gen.Kernels.chacha_refill_narrow M s.b s.c s.d dr out;
                             (r.2.2.2, CC.Src.gutsOf (r.1, r.2.1, r.2.2.1)))) ∧
    (∀ (M : Mach) (s : Guts) (dr : BitVec 32) (out : List (BitVec 8)),
      refill4 M s dr.toNat = (let r := CC.Gen.Kernels.chacha_refill_wide_impl M s.b s.c s.d dr out;
                              (r.2.2.2, CC.Src.gutsOf (r.1, r.2.1, r.2.2.1)))) ∧
    (CC.Gen.Kernels.chacha_refill4 = CC.Gen.Kernels.chacha_refill_wide_impl ∧
     CC.Gen.Kernels.chacha_refill = CC.Gen.Kernels.chacha_refill_narrow ∧
     CC.Gen.Kernels.chacha_refill_rounds = CC.Gen.Kernels.chacha_refill_narrow_rounds) ∧
    (∀ (s : Guts) (param : BitVec 32) (value : BitVec 64),
      setStreamParam s param.toNat value =
        (CC.Gen.Kernels.chacha_set_stream_param s.b s.c s.d param value >>= fun r => .ok (CC.Src.gutsOf r))) ∧
    (∀ (s : Guts) (param : BitVec 32),
      getStreamParam s param.toNat = CC.Gen.Kernels.chacha_get_stream_param s.b s.c s.d param) ∧
    (stream32Eq = fun a b => CC.Gen.Kernels.chacha_stream32_eq a.b a.c a.d b.b b.c b.d) ∧
    (stream64Eq = fun a b => CC.Gen.Kernels.chacha_stream64_eq a.b a.c a.d b.b b.c b.d) ∧
    read32le = CC.Gen.Kernels.chacha_read_u32le ∧
    (∀ key nonce : List (BitVec 8), nonce.length = 8 →
      gutsNew key nonce = CC.Src.gutsOf (CC.Gen.Kernels.chacha_new_8 key nonce)) ∧
    (∀ key nonce : List (BitVec 8), nonce.length = 12 →
      gutsNew key nonce = CC.Src.gutsOf (CC.Gen.Kernels.chacha_new_12 key nonce)) ∧
    (∀ (M : Mach) (key nonce : List (BitVec 8)), nonce.length = 8 →
      initChaCha M key nonce = CC.Src.gutsOf (CC.Gen.Kernels.chacha_init_chacha_8 M key nonce)) ∧
    (∀ (M : Mach) (key nonce : List (BitVec 8)), nonce.length = 12 →
      initChaCha M key nonce = CC.Src.gutsOf (CC.Gen.Kernels.chacha_init_chacha_12 M key nonce)) ∧
    (∀ (M : Mach) (key nonce : List (BitVec 8)) (dr : BitVec 32),
      initChaChaX M key nonce dr.toNat = CC.Src.gutsOf (CC.Gen.Kernels.chacha_init_chacha_x M key nonce dr)) ∧
    (∀ (M : Mach) (key nonce : List (BitVec 8)) (dr : BitVec 32),
      initChaChaX M key nonce dr.toNat = CC.Src.gutsOf (CC.Gen.Kernels.chacha_init_chacha_x_guts M key nonce dr)) :=
  ⟨CC.Src.src_chacha_clean, CC.Src.src_chacha_pos64, CC.Src.src_chacha_seek64, CC.Src.src_chacha_seek32,
   CC.Src.src_chacha_inc_block_ct, CC.Src.src_chacha_d0123, CC.Src.src_chacha_add_pos,
   CC.Src.src_chacha_refill_narrow_rounds, CC.Src.src_chacha_refill_narrow, CC.Src.src_chacha_refill_wide_impl,
   ⟨CC.Src.src_chacha_refill4, CC.Src.src_chacha_refill, CC.Src.src_chacha_refill_rounds⟩,
   CC.Src.src_chacha_set_stream_param, CC.Src.src_chacha_get_stream_param,
   CC.Src.src_chacha_stream32_eq, CC.Src.src_chacha_stream64_eq, CC.Src.src_chacha_read_u32le,
   CC.Src.src_chacha_new_8, CC.Src.src_chacha_new_12, CC.Src.src_chacha_init_chacha_8, CC.Src.src_chacha_init_chacha_12,
   CC.Src.src_chacha_init_chacha_x, CC.Src.src_chacha_init_chacha_x_guts⟩

end CC.Thm.C01
