/-
  C01 — ChaCha keystream equals the specified ChaCha function at every position.
  Property theorems only; helper lemmas live in CC/ChaCha/Lemmas.lean, CC/Simd/Lemmas.lean.
-/
import CC.ChaCha.Lemmas
import CC.ChaCha.Stream
import CC.ChaCha.Keystream
import CC.Thm.C02
namespace CC.Thm.C01
open CC CC.Simd CC.ChaCha CC.ChaCha.Spec

/-- The row-vectorised double round (round; diagonalize; round; undiagonalize) on the reference
    machine is RFC 7539's column round followed by the diagonal round — for every state, and
    therefore `dr` of them are `Spec.rounds dr`, for every `dr`. -/
theorem core_eq_spec (dr : Nat) (x : RS) :
    toS16 (iter (dround Mach.ref) dr x) = rounds dr (toS16 x) :=
  rounds_ref dr x

/-- Every 64-byte block the block-level `refill` emits is the specified block function of the
    sixteen words the state denotes (constants ‖ b ‖ c ‖ d), with `2·dr` rounds, feed-forward and
    little-endian serialisation — for all states and all round counts. -/
theorem block_conforms (s : Guts) (dr : Nat) :
    (refill Mach.ref s dr).1 = serialize (add (rounds dr (gutsS16 s)) (gutsS16 s)) :=
  refill_ref_block s dr

/-- **Keystream conformance.** For each of the seven cipher types (3 round counts × 3 nonce
    layouts), every 32-byte key, every nonce of the type's length and every byte position `p`, the
    keystream byte the model's stream has at `p` is byte `p mod 64` of the specified block function
    at block counter `p / 64` (for XChaCha after the HChaCha subkey derivation from the first 16
    nonce bytes), little-endian serialised. -/
theorem keystream_conforms (v : Variant) (key nonce : List (BitVec 8)) (hk : key.length = 32)
    (hn : nonce.length = v.nonceLen) (p : Nat) :
    (layOf v (Cipher.new Mach.ref v key nonce).buf.state).byteAt v.drounds p = ksByte v key nonce p :=
  ks_byte_conforms v key nonce hk hn p

/-- **Applying the keystream XORs exactly those bytes and changes nothing else.** From any state
    `c` reached from `new v key nonce` by any history (that is what `RC … c pos` says, see C02),
    an in-range `try_apply_keystream(data)` returns `Ok`, the new data has the same length, and its
    byte `i` is `data[i] XOR Spec.ksByte v key nonce (pos + i)`. -/
theorem apply_exact (v : Variant) (key nonce : List (BitVec 8)) (hk : key.length = 32)
    (hn : nonce.length = v.nonceLen) (p : Profile) (c : Cipher) (pos : Nat) (data : List (BitVec 8))
    (hv : c.v = v) (h : RC (Cipher.new Mach.ref v key nonce).buf.state c pos)
    (hm : data.length < 2 ^ 64) (hfit : pos + data.length ≤ limitOf v) :
    ∃ c' out, Cipher.tryApply Mach.ref p c data = .ok (c', some out) ∧ out.length = data.length ∧
      ∀ i (hi : i < data.length), out[i]? = some (data[i] ^^^ ksByte v key nonce (pos + i)) := by
  subst hv
  obtain ⟨c', out, he, hl, hb⟩ := CC.Thm.C02.apply_bytewise _ p c pos data h hm hfit
  refine ⟨c', out, he, hl, ?_⟩
  intro i hi
  rw [hb i hi, ks_byte_conforms c.v key nonce hk hn]

/-- Non-vacuity / spec validation: RFC 7539 §2.3.2 test vector (key 00..1f, counter 1,
    nonce 00 00 00 09 00 00 00 4a 00 00 00 00), first 16 bytes of the block. -/
example :
    (block 10 (keyWords ((List.range 32).map (BitVec.ofNat 8))) 1 0x09000000#32 0x4a000000#32 0).take 16
      = [0x10#8, 0xf1#8, 0xe7#8, 0xe4#8, 0xd1#8, 0x3b#8, 0x59#8, 0x15#8,
         0x50#8, 0x0f#8, 0xdd#8, 0x1f#8, 0xa3#8, 0x20#8, 0x71#8, 0xc4#8] := by
  decide +kernel

end CC.Thm.C01
