/-
  C08 — incremental hashing is invariant under chunking, cloning and reset.
  Generic form: for EVERY hash built on `BlockBuffer` (`∀ H : EagerHash σ ω`, `∀ H : LazyHash σ ω`),
  all piece lists, all piece lengths, all op histories, any number of live instances.
  Property theorems + non-vacuity examples only; the theory lives in CC/Buffer/{Lemmas,Hash}.lean.
  The 15 concrete hashes are plugged in at the end (section INSTANCES).
-/
import CC.Buffer.Hash
import CC.Buffer.OutHash
import CC.JH.C08
import CC.Groestl.C08
import CC.Blake.C08
import CC.Skein.C08
import CC.Buffer.Src
import CC.Buffer.SrcTraits
namespace CC.Thm.C08
open CC CC.Buffer

variable {σ ω μ : Type}

/-! ## chunking -/

/-- After any sequence of `update`s from the initial state, the chaining state and the observable
    part of the buffer (live bytes, position) are a function of the concatenation of the pieces. -/
theorem stateOf_bytes_eager (H : EagerHash σ ω) (pieces : List (List (BitVec 8))) :
    IncHash.view (H.updates H.start pieces) = IncHash.stateOfBytes .eager H.toIncHash pieces.flatten :=
  IncHash.stateOf_bytes .eager H.toIncHash pieces

theorem stateOf_bytes_lazy (H : LazyHash σ ω) (pieces : List (List (BitVec 8))) :
    IncHash.view (H.updates H.start pieces) = IncHash.stateOfBytes .lazy H.toIncHash pieces.flatten :=
  IncHash.stateOf_bytes .lazy H.toIncHash pieces

/-- `finalize (updates init pieces) = finalize (update init pieces.flatten)` — `input_block` hashes. -/
theorem chunking_eager (H : EagerHash σ ω) (pieces : List (List (BitVec 8))) :
    H.finalize (H.updates H.start pieces) = H.finalize (H.update H.start pieces.flatten) :=
  IncHash.chunking .eager H.toIncHash pieces

/-- the same for `input_lazy` hashes (Skein). -/
theorem chunking_lazy (H : LazyHash σ ω) (pieces : List (List (BitVec 8))) :
    H.finalize (H.updates H.start pieces) = H.finalize (H.update H.start pieces.flatten) :=
  IncHash.chunking .lazy H.toIncHash pieces

/-- … and both equal the one-shot meaning: `fin` of the fold of the closure over the full blocks
    (resp. all but the held-back block) and the remaining bytes. -/
theorem chunking_digest_eager (H : EagerHash σ ω) (pieces : List (List (BitVec 8))) :
    H.finalize (H.updates H.start pieces)
      = H.fin ((fullBlocks H.b pieces.flatten).foldl H.step (H.pre H.init pieces.flatten))
          (rest H.b pieces.flatten) :=
  IncHash.chunking_digest .eager H.toIncHash pieces

theorem chunking_digest_lazy (H : LazyHash σ ω) (pieces : List (List (BitVec 8))) :
    H.finalize (H.updates H.start pieces)
      = H.fin ((lazyBlocks H.b pieces.flatten).foldl H.step (H.pre H.init pieces.flatten))
          (lazyRest H.b pieces.flatten) :=
  IncHash.chunking_digest .lazy H.toIncHash pieces

/-! ## reset -/

/-- `reset s = init` (the repo's `*self = Self::default()`), and the cursor-only variant is
    observably the same; `finreset s = (fin s, init)`. -/
theorem reset_eq_init (H : IncHash σ ω) (s : HState σ) : H.reset s = H.start := rfl

theorem resetKeep_view (H : IncHash σ ω) (s : HState σ) :
    IncHash.view (H.resetKeep s) = IncHash.view H.start := by
  simp [IncHash.view, IncHash.resetKeep, IncHash.start, obs_resetKeep, obs_init]

theorem finreset_eq (H : IncHash σ ω) (s : HState σ) :
    H.finalizeReset s = (H.finalize s, H.start) := rfl

/-! ## op histories on one instance -/

/-- Running ANY history of `update p | reset | resetKeep | finreset | fin` from the initial state
    yields, step by step, exactly the outputs of the abstract machine "bytes absorbed since the last
    reset" (`finreset`/`fin` output `digest bytesSoFar`; after `finreset`/`reset` it behaves like
    new), and the final state is `stateOfBytes` of the abstract bytes. -/
theorem history_refines_eager (H : EagerHash σ ω) (ops : List Op) :
    (H.machine.run H.start ops).2 = (Abs.run H.digest [] ops).2 ∧
    IncHash.view (H.machine.run H.start ops).1
      = IncHash.stateOfBytes .eager H.toIncHash (Abs.run H.digest [] ops).1 :=
  let r := (IncHash.refines .eager H.toIncHash).history_refines ops (IncHash.Rel_start _ _)
  ⟨r.1, r.2.2⟩

theorem history_refines_lazy (H : LazyHash σ ω) (ops : List Op) :
    (H.machine.run H.start ops).2 = (Abs.run H.digest [] ops).2 ∧
    IncHash.view (H.machine.run H.start ops).1
      = IncHash.stateOfBytes .lazy H.toIncHash (Abs.run H.digest [] ops).1 :=
  let r := (IncHash.refines .lazy H.toIncHash).history_refines ops (IncHash.Rel_start _ _)
  ⟨r.1, r.2.2⟩

/-! ## several instances: clone independence -/

/-- In a store of instances with ops addressed to slots (`update i p`, `clone i j`, `reset i`,
    `resetKeep i`, `finreset i`, `fin i`), every output is the digest of the addressed slot's own
    byte history — the bytes absorbed by the slot it was cloned from up to the clone point, then its
    own — and every slot's view is `stateOfBytes` of its own byte history.  For all op lists; both
    buffer disciplines. -/
theorem clone_independent (m : Mode) (H : IncHash σ ω) (ops : List SOp) :
    ((IncHash.machine m H).runS (IncHash.machine m H).fresh ops).2
      = (Abs.runS (IncHash.digest m H) Abs.empty ops).2 ∧
    ∀ k, IncHash.view (((IncHash.machine m H).runS (IncHash.machine m H).fresh ops).1 k)
      = IncHash.stateOfBytes m H ((Abs.runS (IncHash.digest m H) Abs.empty ops).1 k) :=
  let r := (IncHash.refines m H).store_refines ops (IncHash.refines m H).R_fresh
  ⟨r.1, fun k => (r.2 k).2⟩

theorem clone_independent_eager (H : EagerHash σ ω) (ops : List SOp) :
    (H.machine.runS H.machine.fresh ops).2 = (Abs.runS H.digest Abs.empty ops).2 ∧
    ∀ k, IncHash.view ((H.machine.runS H.machine.fresh ops).1 k)
      = IncHash.stateOfBytes .eager H.toIncHash ((Abs.runS H.digest Abs.empty ops).1 k) :=
  clone_independent .eager H.toIncHash ops

theorem clone_independent_lazy (H : LazyHash σ ω) (ops : List SOp) :
    (H.machine.runS H.machine.fresh ops).2 = (Abs.runS H.digest Abs.empty ops).2 ∧
    ∀ k, IncHash.view ((H.machine.runS H.machine.fresh ops).1 k)
      = IncHash.stateOfBytes .lazy H.toIncHash ((Abs.runS H.digest Abs.empty ops).1 k) :=
  clone_independent .lazy H.toIncHash ops

/-- Two slots — of the same or of different runs — with equal byte histories are indistinguishable:
    same digest now and after any common further input. -/
theorem clone_indistinguishable (m : Mode) (H : IncHash σ ω) (ops₁ ops₂ : List SOp) (i j : Nat)
    (hB : (Abs.runS (IncHash.digest m H) Abs.empty ops₁).1 i
        = (Abs.runS (IncHash.digest m H) Abs.empty ops₂).1 j)
    (more : List (List (BitVec 8))) :
    H.finalize (IncHash.updates m H (((IncHash.machine m H).runS (IncHash.machine m H).fresh ops₁).1 i) more)
      = H.finalize (IncHash.updates m H (((IncHash.machine m H).runS (IncHash.machine m H).fresh ops₂).1 j) more) :=
  (IncHash.refines m H).slots_agree ops₁ ops₂ i j hB more

/-! ## the same for any concrete model that discharges the instance obligations -/

theorem instance_chunking {m : Mode} (I : Instance m μ σ ω) (pieces : List (List (BitVec 8))) :
    I.finalize (pieces.foldl I.update I.start) = I.finalize (I.update I.start pieces.flatten) :=
  I.chunking pieces

theorem instance_history_refines {m : Mode} (I : Instance m μ σ ω) (ops : List Op) :
    (I.machine.run I.start ops).2 = (Abs.run I.digest [] ops).2 :=
  (I.refines.history_refines ops I.refines.start).1

theorem instance_clone_independent {m : Mode} (I : Instance m μ σ ω) (ops : List SOp) :
    (I.machine.runS I.machine.fresh ops).2 = (Abs.runS I.digest Abs.empty ops).2 :=
  (I.refines.store_refines ops I.refines.R_fresh).1

/-! ## the same for a concrete model whose operations return `Out` (may panic)

  All 15 models are of this kind (overflow checks of the counters in debug builds, `unwrap`s).  The
  chaining state of the generic description is `Out σ` — a panic inside the block closure is threaded —
  so panics are covered by the statements and NO bound on the message length is assumed.
  `I.machine` is the model's operations lifted to `Out μ` by Kleisli composition
  (`CC.Buffer.OutInstance.machine`; spelled out per family below as `<family>_machine_ops`). -/

theorem out_instance_chunking {m : Mode} (I : OutInstance m μ σ ω) (pieces : List (List (BitVec 8))) :
    (pieces.foldl (fun (s : Out μ) p => s >>= fun h => I.update h p) I.start >>= I.finalize)
      = ((I.start >>= fun h => I.update h pieces.flatten) >>= I.finalize) :=
  I.chunking pieces

/-- the abstract digest is the model's own one-shot digest. -/
theorem out_instance_digest {m : Mode} (I : OutInstance m μ σ ω) (bytes : List (BitVec 8)) :
    I.digest bytes = ((I.start >>= fun h => I.update h bytes) >>= I.finalize) :=
  I.digest_eq_oneshot bytes

theorem out_instance_history_refines {m : Mode} (I : OutInstance m μ σ ω) (ops : List Op) :
    (I.machine.run I.start ops).2 = (Abs.run I.digest [] ops).2 :=
  (I.refines.history_refines ops I.refines.start).1

theorem out_instance_clone_independent {m : Mode} (I : OutInstance m μ σ ω) (ops : List SOp) :
    (I.machine.runS I.machine.fresh ops).2 = (Abs.runS I.digest Abs.empty ops).2 :=
  (I.refines.store_refines ops I.refines.R_fresh).1

/-! ## non-vacuity: a toy hash with block size 4 -/

namespace Toy

/-- position- and block-boundary-sensitive mixing (not a mere xor: order and cut points matter). -/
def mix (s : BitVec 8) (bytes : List (BitVec 8)) : BitVec 8 :=
  bytes.foldl (fun a x => a * 3#8 + x) (s + 1#8)

def core : IncHash (BitVec 8) (List (BitVec 8)) where
  b := 4
  hb := by decide
  init := 0x5a#8
  step := mix
  fin := fun st live => [mix st live, BitVec.ofNat 8 live.length]

def eager : EagerHash (BitVec 8) (List (BitVec 8)) := { core with }
def lzy : LazyHash (BitVec 8) (List (BitVec 8)) := { core with }

/-- pieces of length b−1, 0, b, b+1 (and a trailing single byte). -/
def pieces : List (List (BitVec 8)) :=
  [[1, 2, 3], [], [4, 5, 6, 7], [8, 9, 10, 11, 12], [13]]

example : pieces.flatten.length = 13 := by decide

-- the chunked run computes, and equals the one-shot run (evaluated, not by the theorem)
example : eager.finalize (eager.updates eager.start pieces) = [0xb1#8, 1#8] := by decide
example : eager.finalize (eager.update eager.start pieces.flatten) = [0xb1#8, 1#8] := by decide
example : lzy.finalize (lzy.updates lzy.start pieces) = [0xb1#8, 1#8] := by decide
example : lzy.finalize (lzy.update lzy.start pieces.flatten) = [0xb1#8, 1#8] := by decide

-- cut points matter to the closure (the toy is not trivially chunking-invariant)
example : mix (mix 0#8 [1, 2]) [3, 4] ≠ mix 0#8 [1, 2, 3, 4] := by decide

-- eager vs lazy at exactly one full block: eager flushes, lazy holds the block back
example : (eager.update eager.start [1, 2, 3, 4]).bb.pos = 0 := by decide
example : (lzy.update lzy.start [1, 2, 3, 4]).bb.pos = 4 := by decide
example : (lzy.update lzy.start [1, 2, 3, 4]).st = 0x5a#8 := by decide
example : (lzy.update (lzy.update lzy.start [1, 2, 3, 4]) [5]).bb.pos = 1 := by decide

-- stale bytes are real: same view, different buffers
example : (eager.updates eager.start [[1, 2, 3], [4, 5]]).bb.buf = [5, 2, 3, 4] := by decide
example : (eager.update eager.start [1, 2, 3, 4, 5]).bb.buf = [5, 0, 0, 0] := by decide
example : IncHash.view (eager.updates eager.start [[1, 2, 3], [4, 5]])
    = IncHash.view (eager.update eager.start [1, 2, 3, 4, 5]) := by decide

/-- a history: b−1 bytes, peek, empty piece, one byte (buffer now exactly full: flush for eager,
    pending for lazy), finreset, b+1 bytes, peek, cursor-only reset, peek, reset, peek. -/
def hist : List Op :=
  [.update [1, 2, 3], .fin, .update [], .update [4], .fin, .finreset,
   .update [9, 8, 7, 6, 5], .fin, .resetKeep, .fin, .update [1, 2, 3, 4], .reset, .fin]

example : (eager.machine.run eager.start hist).2
    = [none, some [0xab#8, 3#8], none, none, some [0x06#8, 0#8], some [0x06#8, 0#8],
       none, some [0x6b#8, 1#8], none, some [0x5b#8, 0#8], none, none, some [0x5b#8, 0#8]] := by
  decide

-- the lazy machine splits "exactly one full block" differently (block pending, `live.length = 4`)
example : (lzy.machine.run lzy.start hist).2
    = [none, some [0xab#8, 3#8], none, none, some [0x05#8, 4#8], some [0x05#8, 4#8],
       none, some [0x6b#8, 1#8], none, some [0x5b#8, 0#8], none, none, some [0x5b#8, 0#8]] := by
  decide

example : (Abs.run eager.digest [] hist).2 = (eager.machine.run eager.start hist).2 := by decide
example : (Abs.run lzy.digest [] hist).2 = (lzy.machine.run lzy.start hist).2 := by decide

/-- a store history: slot 0 absorbs 3 bytes, is cloned to slot 1 mid-buffer, both continue
    differently; slot 2 replays slot 1's bytes in one piece. -/
def shist : List SOp :=
  [.update 0 [1, 2, 3], .clone 0 1, .update 0 [4, 5], .update 1 [7, 7, 7, 7, 7], .fin 0, .fin 1,
   .update 2 [1, 2, 3, 7, 7, 7, 7, 7], .fin 2, .finreset 0, .fin 0, .fin 1, .resetKeep 1, .fin 1]

example : (eager.machine.runS eager.machine.fresh shist).2
    = (Abs.runS eager.digest Abs.empty shist).2 := by decide

example : (lzy.machine.runS lzy.machine.fresh shist).2
    = (Abs.runS lzy.digest Abs.empty shist).2 := by decide

example : (Abs.runS eager.digest Abs.empty (shist.take 8)).1 1 = [1, 2, 3, 7, 7, 7, 7, 7] := by decide
example : (Abs.runS eager.digest Abs.empty (shist.take 8)).1 1
    = (Abs.runS eager.digest Abs.empty (shist.take 8)).1 2 := by decide

/-! ### a toy *model* in the shape of the Rust structs, plugged in as an `Instance`
    (JH-like: a byte counter is bumped outside the block closure — this is what `pre` is for). -/

structure Model where
  h : BitVec 8
  datalen : Nat
  buffer : BB

def Model.default : Model := { h := 0x5a#8, datalen := 0, buffer := BB.init 4 }

def Model.update (s : Model) (data : List (BitVec 8)) : Model :=
  let datalen := s.datalen + data.length
  let (buffer, h) := inputBlock 4 s.buffer data mix s.h
  { h := h, datalen := datalen, buffer := buffer }

def Model.finalize (s : Model) : List (BitVec 8) :=
  match padWithIso7816 4 s.buffer with
  | some (_, blk) => [mix s.h blk, BitVec.ofNat 8 s.datalen]
  | none => []

def jhLike : IncHash (BitVec 8 × Nat) (List (BitVec 8)) where
  b := 4
  hb := by decide
  init := (0x5a#8, 0)
  step := fun s blk => (mix s.1 blk, s.2)
  pre := fun s xs => (s.1, s.2 + xs.length)
  pre_nil := by intro s; rfl
  pre_append := by intro s xs ys; simp [Nat.add_assoc]
  pre_step := by intro s blk xs; rfl
  fin := fun s live =>
    [mix s.1 (live ++ [0x80#8] ++ List.replicate (4 - (live.length + 1)) 0#8), BitVec.ofNat 8 s.2]

def inst : Instance .eager Model (BitVec 8 × Nat) (List (BitVec 8)) where
  H := jhLike
  start := Model.default
  update := Model.update
  finalize := Model.finalize
  reset := fun _ => Model.default
  finreset := fun s => (s.finalize, Model.default)
  toH := fun s => ⟨(s.h, s.datalen), s.buffer⟩
  toH_start := rfl
  toH_update := by
    intro s p
    simp only [IncHash.update, Mode.input, jhLike, inputBlock_pair mix, Model.update]
  finalize_eq := by
    intro s hwf
    have hwf' : WF 4 s.buffer := hwf
    obtain ⟨h₁, -⟩ := padWithIso7816_spec hwf'
    have hl : (live s.buffer).length = s.buffer.pos := length_live hwf'.toWFL
    simp only [Model.finalize, h₁, IncHash.finalize, jhLike, hl]
  toH_reset := by intro s; rfl
  finreset_eq := by intro s; exact ⟨rfl, rfl⟩

example : inst.finalize (pieces.foldl inst.update inst.start)
    = inst.finalize (inst.update inst.start pieces.flatten) := instance_chunking inst pieces

example : inst.finalize (pieces.foldl inst.update inst.start) = [0x2b#8, 13#8] := by decide

end Toy

/-! ----------------------------------------------------------------------------------------------
## INSTANCES

The 15 concrete hashes (Blake224/256/384/512, Groestl224/256/384/512, Jh224/256/384/512,
Skein256/512/1024) are plugged in here.  For each, given its model (state type `μ` shaped like the
Rust struct, with `default`, `update`, `finalize` (= output of `finalize_into_dirty`), `reset`,
`finalize_reset`), provide

    def <hash>Inst : Instance .eager μ σ ω      -- Skein: Instance .lazy μ σ ω

whose fields are the obligations:

  H          the generic description: `b` (block size in bytes, with `hb : 0 < b`), `init` (the
             non-buffer part of `Default::default()`), `step` (the per-block closure as a pure function
             `σ → block → σ`, including any counter the closure bumps: BLAKE `t`, Grøstl
             `block_counter`), `fin : σ → live → ω` (finalisation as a function of the chaining state
             and the live bytes only; `pos` is `live.length`), and — only if `update` does
             bookkeeping outside the closure (JH: `datalen += data.len()`) — `pre` with the three laws
             `pre_nil`, `pre_append`, `pre_step` (otherwise omit them: the defaults are discharged by `rfl`).
  toH        the split of a model state into `⟨chaining part, buffer⟩`.
  (O1) toH_start    : toH default = H.start                     -- IV + `BlockBuffer::default()`
  (O2) toH_update   : ∀ s p, toH (update s p) = IncHash.update m H (toH s) p
                      -- i.e. the model's `update` IS `inputBlock`/`inputLazy b s.buffer p H.step (H.pre st p)`;
                      -- by `rfl` when the model is written that way.
  (O3) finalize_eq  : ∀ s, m.WF H.b (toH s).bb → finalize s = H.fin (toH s).st (live (toH s).bb)
                      -- "finalize reads only (st, live)".  Use `len64PaddingBe_spec`, `padWithZero_spec`,
                      -- `padWithIso7816_spec`, `inputBlock_spec` (BLAKE pads through `input_block`) from
                      -- CC/Buffer/Lemmas.lean: they express the blocks handed to the closure in terms of
                      -- `live s` alone.  `buffer.position()` = `(live s).length` (`length_live`),
                      -- `buffer.remaining()` = `b - (live s).length`.
  (O4) toH_reset    : ∀ s, toH (reset s) = H.start              -- Grøstl224/384 re-create the truncated IV
  (O5) finreset_eq  : ∀ s, (finreset s).1 = finalize s ∧ toH (finreset s).2 = H.start

Then, with no further proof,

    instance_chunking          <hash>Inst : ∀ pieces, finalize (foldl update default pieces) = finalize (update default pieces.flatten)
    instance_history_refines   <hash>Inst : ∀ ops, outputs of the model = outputs of "bytes since last reset"
    instance_clone_independent <hash>Inst : ∀ store histories, outputs = digest of the slot's own byte history
    <hash>Inst.finalize_updates          : finalize (foldl update default pieces) = H.fin (fold H.step … (blocks of the message)) (rest)

(the last one is the bridge to C04–C07: it reduces "incremental model = spec" to a statement about
the one-shot fold).  `Toy.inst` above is a complete worked example (JH-shaped).
---------------------------------------------------------------------------------------------- -/

/-! ### How the concrete models are plugged in

All four families' models return `Out` (overflow checks of the byte/block counters in debug builds,
`unwrap`, `debug_assert!`; Skein's `default` too).  They are therefore plugged in through the
`Out`-valued form of `Instance`, `CC.Buffer.OutInstance` (CC/Buffer/OutHash.lean): the chaining state
of the generic description is wrapped as `Out σ` and kept next to the buffer
(`HState (Out σ)` = `Out σ × BB`), the block closure is strict in it.  This is the "wrap" option, NOT
a restriction to states below an overflow bound: the theorems below hold for all inputs, all lengths,
both profiles, and say that a history panics exactly when the model's one-shot digest of the same
bytes panics (with the same message).  Obligations (all about states `pack c bb`):

  (O1) start_eq    : default = ok (pack init0 (BB.init b))
  (O2) update_eq   : update (pack c bb) p = the generic update on ⟨ok c, bb⟩, re-packed
                     (`rfl` for BLAKE and Skein; Grøstl: simulation `Acc.dead` ↔ `Out`; JH: `pre`)
  (O3) finalize_eq : WF bb → finalize (pack c bb) = H.fin (ok c) (live bb)
                     (JH `len64PaddingBe_spec`/`padWithIso7816_spec`; Grøstl `len64PaddingBe_spec`;
                      Skein `padWithZero_spec`; BLAKE, which pads through up to five `input_block`
                      calls: observational congruence `CC.Blake.C08.finalize_congr`)
  (O4) reset_eq    : reset (pack c bb) = default             (Grøstl-224/384: the truncated IV)
  (O5) finreset_eq : finreset = finalize, then default

The per-family instances are in CC/<Family>/C08.lean.  For each family:
  `<family>_machine_ops`        what the lifted machine is, in terms of the model's own functions
  `chunking_<family>`           fold of `update` over any pieces, then `finalize` = the model's one-shot `digest`
  `history_refines_<family>`    every output of any op history = one-shot `digest` of the bytes since the last reset
  `clone_independent_<family>`  in a store of instances, = one-shot `digest` of the slot's own byte history
-/

/-! ### JH-224/256/384/512 (`n` is the digest size in bits; the theorems hold for every `n`) -/

section JH
open CC.Simd CC.JH.Model

/-- what `(CC.JH.C08.inst M p n).machine` is: the model's operations, lifted to outcomes
    (`update`/`finalize`/`finalize_reset` by Kleisli composition; `reset` also revives a panicked
    object, as `*self = Self::default()` does; `Out.recover x d` = `x` if it is a value, else `d`). -/
theorem jh_machine_ops (M : Mach) (p : Profile) (n : Nat) :
    (CC.JH.C08.inst M p n).machine =
      { start := .ok (Hasher.new n)
        update := fun s piece => s >>= fun h => h.update M p piece
        reset := fun s => Out.recover (s >>= fun h => .ok h.reset) (.ok (Hasher.new n))
        resetKeep := fun s => Out.recover (s >>= fun h => .ok h.reset) (.ok (Hasher.new n))
        finalize := fun s => s >>= fun h => h.finalize M p
        finreset := fun s =>
          (s >>= fun h => h.finalizeReset M p >>= fun r => .ok r.2,
           Out.recover (s >>= fun h => h.finalizeReset M p >>= fun r => .ok r.1)
             (.ok (Hasher.new n))) } := rfl

/-- the generic one-shot digest of the JH instance is the model's `digest`. -/
theorem jh_digest (M : Mach) (p : Profile) (n : Nat) :
    (CC.JH.C08.inst M p n).digest = CC.JH.Model.digest M p n := by
  funext bytes
  rw [(CC.JH.C08.inst M p n).digest_eq_oneshot bytes]
  show ((Hasher.new n).update M p bytes >>= fun h => h.finalize M p) = CC.JH.Model.digest M p n bytes
  unfold CC.JH.Model.digest
  cases (Hasher.new n).update M p bytes <;> rfl

/-- **chunking, JH**: any way of cutting the message into `update` calls gives the model's one-shot
    digest (including its outcome when the length counter overflows). -/
theorem chunking_jh (M : Mach) (p : Profile) (n : Nat) (pieces : List (List (BitVec 8))) :
    (pieces.foldl (fun (s : Out Hasher) piece => s >>= fun h => h.update M p piece) (.ok (Hasher.new n))
        >>= fun h => h.finalize M p)
      = CC.JH.Model.digest M p n pieces.flatten := by
  rw [← jh_digest]
  exact (CC.JH.C08.inst M p n).finalize_updates pieces

/-- **history refinement, JH**: every output of any `update|reset|finreset|fin` history is the
    model's one-shot digest of the bytes absorbed since the last reset. -/
theorem history_refines_jh (M : Mach) (p : Profile) (n : Nat) (ops : List Op) :
    ((CC.JH.C08.inst M p n).machine.run (.ok (Hasher.new n)) ops).2
      = (Abs.run (CC.JH.Model.digest M p n) [] ops).2 := by
  rw [← jh_digest]
  exact out_instance_history_refines (CC.JH.C08.inst M p n) ops

/-- **clone independence, JH**: in a store of hashers every output is the one-shot digest of the
    addressed slot's own byte history. -/
theorem clone_independent_jh (M : Mach) (p : Profile) (n : Nat) (ops : List SOp) :
    ((CC.JH.C08.inst M p n).machine.runS (fun _ => .ok (Hasher.new n)) ops).2
      = (Abs.runS (CC.JH.Model.digest M p n) Abs.empty ops).2 := by
  rw [← jh_digest]
  exact out_instance_clone_independent (CC.JH.C08.inst M p n) ops

end JH

/-! ### Grøstl-224/256/384/512 (`v : Variant`; the public types as `CC.Groestl.Model.Any`) -/

section Groestl
open CC.Groestl.Model

/-- what `CC.Groestl.C08.machine p v` is: the model's operations, lifted to outcomes. -/
theorem groestl_machine_ops (p : Profile) (v : Variant) :
    CC.Groestl.C08.machine p v =
      { start := .ok (Any.default v)
        update := fun s piece => s >>= fun a => a.update p piece
        reset := fun s => Out.recover (s >>= fun a => .ok a.reset) (.ok (Any.default v))
        resetKeep := fun s => Out.recover (s >>= fun a => .ok a.reset) (.ok (Any.default v))
        finalize := fun s => s >>= fun a => a.finalize p
        finreset := fun s =>
          (s >>= fun a => a.finalizeReset p >>= fun r => .ok r.2,
           Out.recover (s >>= fun a => a.finalizeReset p >>= fun r => .ok r.1)
             (.ok (Any.default v))) } := by
  cases v <;> rfl

/-- **chunking, Grøstl** (all four types; `reset` of Grøstl-224/384 re-creates the truncated IV —
    obligation O4 of the instance). -/
theorem chunking_groestl (p : Profile) (v : Variant) (pieces : List (List (BitVec 8))) :
    (pieces.foldl (fun (s : Out Any) piece => s >>= fun a => a.update p piece) (.ok (Any.default v))
        >>= fun a => a.finalize p)
      = CC.Groestl.Model.digest p v pieces.flatten := by
  rw [← CC.Groestl.C08.gdigest_eq]
  cases v
  · exact (CC.Groestl.C08.inst224 p).finalize_updates pieces
  · exact (CC.Groestl.C08.inst256 p).finalize_updates pieces
  · exact (CC.Groestl.C08.inst384 p).finalize_updates pieces
  · exact (CC.Groestl.C08.inst512 p).finalize_updates pieces

theorem history_refines_groestl (p : Profile) (v : Variant) (ops : List Op) :
    ((CC.Groestl.C08.machine p v).run (.ok (Any.default v)) ops).2
      = (Abs.run (CC.Groestl.Model.digest p v) [] ops).2 := by
  rw [← CC.Groestl.C08.gdigest_eq]
  cases v
  · exact out_instance_history_refines (CC.Groestl.C08.inst224 p) ops
  · exact out_instance_history_refines (CC.Groestl.C08.inst256 p) ops
  · exact out_instance_history_refines (CC.Groestl.C08.inst384 p) ops
  · exact out_instance_history_refines (CC.Groestl.C08.inst512 p) ops

theorem clone_independent_groestl (p : Profile) (v : Variant) (ops : List SOp) :
    ((CC.Groestl.C08.machine p v).runS (fun _ => .ok (Any.default v)) ops).2
      = (Abs.runS (CC.Groestl.Model.digest p v) Abs.empty ops).2 := by
  rw [← CC.Groestl.C08.gdigest_eq]
  cases v
  · exact out_instance_clone_independent (CC.Groestl.C08.inst224 p) ops
  · exact out_instance_clone_independent (CC.Groestl.C08.inst256 p) ops
  · exact out_instance_clone_independent (CC.Groestl.C08.inst384 p) ops
  · exact out_instance_clone_independent (CC.Groestl.C08.inst512 p) ops

end Groestl

/-! ### BLAKE-224/256/384/512 (`define_hasher!` with any kit `K`; the four public types are
    `kit224 M`, `kit256 M`, `kit384 M`, `kit512 M`) -/

section Blake
open CC.Simd CC.Blake

/-- what `(CC.Blake.C08.inst K p hb).machine` is: the model's operations, lifted to outcomes. -/
theorem blake_machine_ops {w : Nat} {V : Type} (K : Kit w V) (p : Profile) (hb : 0 < K.buf) :
    (CC.Blake.C08.inst K p hb).machine =
      { start := .ok (Hasher.default K)
        update := fun s piece => s >>= fun h => update K p h piece
        reset := fun s => Out.recover (s >>= fun h => .ok (reset K h)) (.ok (Hasher.default K))
        resetKeep := fun s => Out.recover (s >>= fun h => .ok (reset K h)) (.ok (Hasher.default K))
        finalize := fun s => s >>= fun h => finalize K p h
        finreset := fun s =>
          (s >>= fun h => finalizeReset K p h >>= fun r => .ok r.2,
           Out.recover (s >>= fun h => finalizeReset K p h >>= fun r => .ok r.1)
             (.ok (Hasher.default K))) } := rfl

theorem blake_digest {w : Nat} {V : Type} (K : Kit w V) (p : Profile) (hb : 0 < K.buf) :
    (CC.Blake.C08.inst K p hb).digest = digestK K p := by
  funext bytes
  exact (CC.Blake.C08.inst K p hb).digest_eq_oneshot bytes

/-- **chunking, BLAKE** (any kit). -/
theorem chunking_blake {w : Nat} {V : Type} (K : Kit w V) (p : Profile) (hb : 0 < K.buf)
    (pieces : List (List (BitVec 8))) :
    (pieces.foldl (fun (s : Out (Hasher w V)) piece => s >>= fun h => update K p h piece)
        (.ok (Hasher.default K)) >>= fun h => finalize K p h)
      = digestK K p pieces.flatten := by
  rw [← blake_digest K p hb]
  exact (CC.Blake.C08.inst K p hb).finalize_updates pieces

theorem history_refines_blake {w : Nat} {V : Type} (K : Kit w V) (p : Profile) (hb : 0 < K.buf)
    (ops : List Op) :
    ((CC.Blake.C08.inst K p hb).machine.run (.ok (Hasher.default K)) ops).2
      = (Abs.run (digestK K p) [] ops).2 := by
  rw [← blake_digest K p hb]
  exact out_instance_history_refines (CC.Blake.C08.inst K p hb) ops

theorem clone_independent_blake {w : Nat} {V : Type} (K : Kit w V) (p : Profile) (hb : 0 < K.buf)
    (ops : List SOp) :
    ((CC.Blake.C08.inst K p hb).machine.runS (fun _ => .ok (Hasher.default K)) ops).2
      = (Abs.runS (digestK K p) Abs.empty ops).2 := by
  rw [← blake_digest K p hb]
  exact out_instance_clone_independent (CC.Blake.C08.inst K p hb) ops

/-- the four public types: chunking against `CC.Blake.digest M p v`. -/
theorem chunking_blake_variants (M : Mach) (p : Profile) (pieces : List (List (BitVec 8))) :
    (pieces.foldl (fun s piece => s >>= fun h => update (kit224 M) p h piece)
        (.ok (Hasher.default (kit224 M))) >>= fun h => finalize (kit224 M) p h)
      = digest M p .b224 pieces.flatten ∧
    (pieces.foldl (fun s piece => s >>= fun h => update (kit256 M) p h piece)
        (.ok (Hasher.default (kit256 M))) >>= fun h => finalize (kit256 M) p h)
      = digest M p .b256 pieces.flatten ∧
    (pieces.foldl (fun s piece => s >>= fun h => update (kit384 M) p h piece)
        (.ok (Hasher.default (kit384 M))) >>= fun h => finalize (kit384 M) p h)
      = digest M p .b384 pieces.flatten ∧
    (pieces.foldl (fun s piece => s >>= fun h => update (kit512 M) p h piece)
        (.ok (Hasher.default (kit512 M))) >>= fun h => finalize (kit512 M) p h)
      = digest M p .b512 pieces.flatten :=
  ⟨chunking_blake (kit224 M) p (show 0 < 64 by decide) pieces,
   chunking_blake (kit256 M) p (show 0 < 64 by decide) pieces,
   chunking_blake (kit384 M) p (show 0 < 128 by decide) pieces,
   chunking_blake (kit512 M) p (show 0 < 128 by decide) pieces⟩

end Blake

/-! ### Skein-256/512/1024 with any output size `N = n` bytes (`P : Params` with `0 < P.nb`; the
    three public types are `skein256`, `skein512`, `skein1024`) — the LAZY buffer discipline -/

section Skein
open CC.Skein.Model

/-- what `(CC.Skein.C08.inst prof P n hb).machine` is: the model's operations, lifted to outcomes. -/
theorem skein_machine_ops (prof : Profile) (P : Params) (n : Nat) (hb : 0 < P.nb) :
    (CC.Skein.C08.inst prof P n hb).machine =
      { start := CC.Skein.Model.default prof P n
        update := fun s piece => s >>= fun h => update prof P h piece
        reset := fun s => Out.recover (s >>= fun h => reset prof P n h) (CC.Skein.Model.default prof P n)
        resetKeep := fun s => Out.recover (s >>= fun h => reset prof P n h) (CC.Skein.Model.default prof P n)
        finalize := fun s => s >>= fun h => finalize prof P n h
        finreset := fun s =>
          (s >>= fun h => finalizeReset prof P n h >>= fun r => .ok r.2,
           Out.recover (s >>= fun h => finalizeReset prof P n h >>= fun r => .ok r.1)
             (CC.Skein.Model.default prof P n)) } := rfl

theorem skein_digest (prof : Profile) (P : Params) (n : Nat) (hb : 0 < P.nb) :
    (CC.Skein.C08.inst prof P n hb).digest = CC.Skein.Model.digest prof P n := by
  funext bytes
  rw [(CC.Skein.C08.inst prof P n hb).digest_eq_oneshot bytes]
  show ((CC.Skein.Model.default prof P n >>= fun h => update prof P h bytes)
      >>= fun h => finalize prof P n h) = CC.Skein.Model.digest prof P n bytes
  unfold CC.Skein.Model.digest
  cases CC.Skein.Model.default prof P n <;> rfl

/-- **chunking, Skein**: the held-back block ("exactly one full block pending") included. -/
theorem chunking_skein (prof : Profile) (P : Params) (n : Nat) (hb : 0 < P.nb)
    (pieces : List (List (BitVec 8))) :
    (pieces.foldl (fun (s : Out Hasher) piece => s >>= fun h => update prof P h piece)
        (CC.Skein.Model.default prof P n) >>= fun h => finalize prof P n h)
      = CC.Skein.Model.digest prof P n pieces.flatten := by
  rw [← skein_digest prof P n hb]
  exact (CC.Skein.C08.inst prof P n hb).finalize_updates pieces

theorem history_refines_skein (prof : Profile) (P : Params) (n : Nat) (hb : 0 < P.nb) (ops : List Op) :
    ((CC.Skein.C08.inst prof P n hb).machine.run (CC.Skein.Model.default prof P n) ops).2
      = (Abs.run (CC.Skein.Model.digest prof P n) [] ops).2 := by
  rw [← skein_digest prof P n hb]
  exact out_instance_history_refines (CC.Skein.C08.inst prof P n hb) ops

theorem clone_independent_skein (prof : Profile) (P : Params) (n : Nat) (hb : 0 < P.nb)
    (ops : List SOp) :
    ((CC.Skein.C08.inst prof P n hb).machine.runS (fun _ => CC.Skein.Model.default prof P n) ops).2
      = (Abs.runS (CC.Skein.Model.digest prof P n) Abs.empty ops).2 := by
  rw [← skein_digest prof P n hb]
  exact out_instance_clone_independent (CC.Skein.C08.inst prof P n hb) ops

/-- the three public types. -/
theorem chunking_skein_variants (prof : Profile) (n : Nat) (pieces : List (List (BitVec 8))) :
    (∀ P ∈ [skein256, skein512, skein1024],
      (pieces.foldl (fun (s : Out Hasher) piece => s >>= fun h => update prof P h piece)
          (CC.Skein.Model.default prof P n) >>= fun h => finalize prof P n h)
        = CC.Skein.Model.digest prof P n pieces.flatten) := by
  intro P hP
  have hb : 0 < P.nb := by
    simp only [List.mem_cons, List.mem_nil_iff, or_false] at hP
    rcases hP with rfl | rfl | rfl <;> decide
  exact chunking_skein prof P n hb pieces

end Skein

/-! ### non-vacuity of the instances: chunked runs of official vectors, evaluated (not by the theorems) -/

/-- BLAKE-256 of 72 zero bytes (blake256.blb), fed as 1 + 63 (buffer filled exactly) + 0 + 8 bytes. -/
example :
    (match ([[0x00#8], List.replicate 63 0x00#8, [], List.replicate 8 0x00#8].foldl
        (fun (s : Out (CC.Blake.Hasher 32 (BitVec 128))) piece =>
          s >>= fun h => CC.Blake.update (CC.Blake.kit256 CC.Simd.Mach.ref) .debug h piece)
        (.ok (CC.Blake.Hasher.default (CC.Blake.kit256 CC.Simd.Mach.ref)))
        >>= fun h => CC.Blake.finalize (CC.Blake.kit256 CC.Simd.Mach.ref) .debug h) with
     | .ok d => d | _ => [])
    = [0xd4#8, 0x19#8, 0xba#8, 0xd3#8, 0x2d#8, 0x50#8, 0x4f#8, 0xb7#8, 0xd4#8, 0x4d#8, 0x46#8, 0x0c#8,
       0x42#8, 0xc5#8, 0x59#8, 0x3f#8, 0xe5#8, 0x44#8, 0xfa#8, 0x4c#8, 0x13#8, 0x5d#8, 0xec#8, 0x31#8,
       0xe2#8, 0x1b#8, 0xd9#8, 0xab#8, 0xdc#8, 0xc2#8, 0x2d#8, 0x41#8] := by decide +kernel

/-- Skein-256-256(0xFF), fed as an empty piece, the byte, an empty piece; then `finalize_reset` and
    the empty message Skein-256-256("") on the same object. -/
example :
    ((CC.Skein.C08.inst .debug CC.Skein.Model.skein256 32 (by decide)).machine.run
        (CC.Skein.Model.default .debug CC.Skein.Model.skein256 32)
        [.update [], .update [0xff#8], .update [], .finreset, .fin]).2.map
      (fun o => match o with | some (.ok d) => hexOfBytes d | _ => "")
    = ["", "", "", "0b98dcd198ea0e50a7a244c444e25c23da30c10fc9a1f270a6637f1f34e67ed2",
       "c8877087da56e072870daa843f176e9453115929094c3a40c463a196c29bf7ba"] := by decide +kernel

/-! ## SOURCE TIE: the third-party buffer code under all fifteen hashes -/

/-- **Source tie, `block-buffer` / `block-padding`.**  The model functions of `CC.Buffer.BlockBuffer` on which every
    theorem above (and the hash models of C04–C07) rests are hand transcriptions of a crate OUTSIDE `/repo`.  On every run
    tools/inventory_blockbuffer.py locates the crate versions pinned in `/repo/Cargo.lock`, translates each method of
    `impl BlockBuffer` from that source for a symbolic block size `b`, buffer, cursor, input and closure (panics — usize
    underflow / overflow, slice bounds, `copy_from_slice` length mismatch, `split_at`, `chunks_exact(0)`, the array
    conversion — as guards; `block-padding`'s `ZeroPadding` / `Iso7816` inlined behind `pad_with`) into
    `CC.Gen.BlockBufferSrc`, and this theorem states: for EVERY state inside the struct invariant the model documents
    (`buf.length = b`, `pos ≤ b`, `0 < b`; `b < 2^64` since it is a `usize`; `8 ≤ b` / `16 ≤ b` for the length paddings), every
    input and every closure, the translated method hits no guard and returns exactly what the model function returns.
    `len64_padding_le` / `len128_padding_be` (no users, no model function) are tied to the shape `CC.Src.lenPadding` of which
    `len64PaddingBe` is an instance.  Individual facts: `CC.Src.src_bb_*` (lean/CC/Buffer/Src.lean). -/
theorem source_blockbuffer_match :
    CC.Gen.BlockBufferSrc.blockbuffer_errors = [] ∧
    (∀ (b : Nat) (s : BB), CC.Gen.BlockBufferSrc.bb_size b s.buf s.pos = .ok b) ∧
    (∀ (b : Nat) (s : BB), CC.Gen.BlockBufferSrc.bb_position b s.buf s.pos = .ok s.pos) ∧
    (∀ (b : Nat) (s : BB), s.pos ≤ b → CC.Gen.BlockBufferSrc.bb_remaining b s.buf s.pos = .ok (b - s.pos)) ∧
    (∀ (b : Nat) (s : BB), CC.Gen.BlockBufferSrc.bb_reset b s.buf s.pos = .ok (s.resetKeep.buf, s.resetKeep.pos)) ∧
    (∀ {σ : Type} (b : Nat) (s : BB) (input : List (BitVec 8)) (f : σ → List (BitVec 8) → σ) (acc : σ),
      0 < b → s.buf.length = b → s.pos ≤ b → b < 2 ^ 64 →
      CC.Gen.BlockBufferSrc.bb_input_block b s.buf s.pos input f acc = CC.Src.bbOut (inputBlock b s input f acc)) ∧
    (∀ {σ : Type} (b : Nat) (s : BB) (input : List (BitVec 8)) (f : σ → List (BitVec 8) → σ) (acc : σ),
      0 < b → s.buf.length = b → s.pos ≤ b → b < 2 ^ 64 →
      CC.Gen.BlockBufferSrc.bb_input_lazy b s.buf s.pos input f acc = CC.Src.bbOut (inputLazy b s input f acc)) ∧
    (∀ {σ : Type} (b : Nat) (s : BB) (n : Nat) (f : σ → List (BitVec 8) → σ) (acc : σ),
      0 < b → s.buf.length = b → s.pos ≤ b → b < 2 ^ 64 →
      CC.Gen.BlockBufferSrc.bb_digest_pad b s.buf s.pos n f acc = CC.Src.bbOut (digestPad b s n f acc)) ∧
    (∀ {σ : Type} (b : Nat) (s : BB) (w : BitVec 64) (f : σ → List (BitVec 8) → σ) (acc : σ),
      8 ≤ b → s.buf.length = b → s.pos ≤ b → b < 2 ^ 64 →
      CC.Gen.BlockBufferSrc.bb_len64_padding_be b s.buf s.pos w f acc = CC.Src.bbOut (len64PaddingBe b s w f acc)) ∧
    (∀ {σ : Type} (b : Nat) (s : BB) (w : BitVec 64) (f : σ → List (BitVec 8) → σ) (acc : σ),
      len64PaddingBe b s w f acc = CC.Src.lenPadding b s 8 (toBe64 w) f acc) ∧
    (∀ {σ : Type} (b : Nat) (s : BB) (w : BitVec 64) (f : σ → List (BitVec 8) → σ) (acc : σ),
      8 ≤ b → s.buf.length = b → s.pos ≤ b → b < 2 ^ 64 →
      CC.Gen.BlockBufferSrc.bb_len64_padding_le b s.buf s.pos w f acc
        = CC.Src.bbOut (CC.Src.lenPadding b s 8 (toLe64 w) f acc)) ∧
    (∀ {σ : Type} (b : Nat) (s : BB) (w : BitVec 128) (f : σ → List (BitVec 8) → σ) (acc : σ),
      16 ≤ b → s.buf.length = b → s.pos ≤ b → b < 2 ^ 64 →
      CC.Gen.BlockBufferSrc.bb_len128_padding_be b s.buf s.pos w f acc
        = CC.Src.bbOut (CC.Src.lenPadding b s 16 (toBeBytes w 16) f acc)) ∧
    (∀ (b : Nat) (s : BB), s.buf.length = b →
      CC.Gen.BlockBufferSrc.bb_pad_with_ZeroPadding b s.buf s.pos = CC.Src.padOut s (padWithZero b s)) ∧
    (∀ (b : Nat) (s : BB), s.buf.length = b → b < 2 ^ 64 →
      CC.Gen.BlockBufferSrc.bb_pad_with_Iso7816 b s.buf s.pos = CC.Src.padOut s (padWithIso7816 b s)) ∧
    (CC.Gen.BlockBufferSrc.bb_methods
      = ["input_block", "input_blocks", "input_lazy", "digest_pad", "len64_padding_be", "len64_padding_le",
         "len128_padding_be", "pad_with", "size", "position", "remaining", "reset"] ∧
     CC.Gen.BlockBufferSrc.bb_untranslated = ["input_blocks"] ∧
     CC.Gen.BlockBufferSrc.bb_struct_fields = ["buffer", "pos"]) :=
  ⟨CC.Src.src_bb_clean, CC.Src.src_bb_size, CC.Src.src_bb_position, CC.Src.src_bb_remaining, CC.Src.src_bb_reset,
   CC.Src.src_bb_input_block, CC.Src.src_bb_input_lazy, CC.Src.src_bb_digest_pad, CC.Src.src_bb_len64_padding_be,
   CC.Src.len64PaddingBe_eq_lenPadding, CC.Src.src_bb_len64_padding_le, CC.Src.src_bb_len128_padding_be,
   CC.Src.src_bb_pad_with_ZeroPadding, CC.Src.src_bb_pad_with_Iso7816, CC.Src.src_bb_inventory⟩

/-- **Source tie, `digest` / `cipher` provided methods.**  Users and the harness do not call `finalize_into_dirty`, `Reset::reset`
    or `try_apply_keystream` directly but the PROVIDED methods of the `digest` 0.9 / `cipher` 0.3 traits.  They are translated
    on every run from the crate sources pinned in `/repo/Cargo.lock` (required trait methods become `Out`-valued parameters,
    one bind per call in program order), and this theorem (1) pins each composition — `finalize_into_reset` = dirty
    finalisation THEN `reset` of the same object; `Digest::finalize_reset` = finalisation of a CLONE, then `reset` of the
    original; `Digest::digest` = `default`, one `update`, `finalize_fixed`; `apply_keystream` / `seek` / `current_pos` =
    `try_*(..).unwrap()` — and the method inventories of the traits / blanket impls, and (2) shows for the four hash models that
    the functions the driver and the C04–C08 theorems use (`finalizeReset`, `finalize`, `digest`) ARE these compositions of
    the models' `finalize_into_dirty` / `reset` / `update` / `default` (which phase 3 ties to `/repo`), for BOTH routes to
    "finalize and reset" (harness ops `finreset` and `finreset2`).  Individual facts: lean/CC/Buffer/SrcTraits.lean. -/
theorem source_traits_match :
    (type_of% @CC.Src.src_traits_inventory) ∧
    (type_of% @CC.Src.src_digest_finalize_into) ∧
    (type_of% @CC.Src.src_digest_finalize_into_reset) ∧
    (type_of% @CC.Src.src_digest_finalize_fixed) ∧
    (type_of% @CC.Src.src_digest_finalize_fixed_reset) ∧
    (type_of% @CC.Src.src_digest_Update_chain) ∧
    (type_of% @CC.Src.src_digest_Digest_new) ∧
    (type_of% @CC.Src.src_digest_Digest_update) ∧
    (type_of% @CC.Src.src_digest_Digest_chain) ∧
    (type_of% @CC.Src.src_digest_Digest_finalize) ∧
    (type_of% @CC.Src.src_digest_Digest_finalize_reset) ∧
    (type_of% @CC.Src.src_digest_Digest_reset) ∧
    (type_of% @CC.Src.src_digest_Digest_output_size) ∧
    (type_of% @CC.Src.src_digest_Digest_digest) ∧
    (type_of% @CC.Src.src_cipher_apply_keystream) ∧
    (type_of% @CC.Src.src_cipher_current_pos) ∧
    (type_of% @CC.Src.src_cipher_seek) ∧
    (type_of% @CC.Src.src_blake_finalize_fixed_reset) ∧
    (type_of% @CC.Src.src_blake_Digest_finalize_reset) ∧
    (type_of% @CC.Src.src_blake_Digest_finalize) ∧
    (type_of% @CC.Src.src_blake_Digest_digest) ∧
    (type_of% @CC.Src.src_skein_finalize_fixed_reset) ∧
    (type_of% @CC.Src.src_skein_Digest_finalize_reset) ∧
    (type_of% @CC.Src.src_skein_Digest_finalize) ∧
    (type_of% @CC.Src.src_skein_Digest_digest) ∧
    (type_of% @CC.Src.src_jh_finalize_fixed_reset) ∧
    (type_of% @CC.Src.src_jh_Digest_finalize_reset) ∧
    (type_of% @CC.Src.src_jh_Digest_finalize) ∧
    (type_of% @CC.Src.src_jh_Digest_digest) ∧
    (type_of% @CC.Src.src_groestl_finalize_fixed_reset) ∧
    (type_of% @CC.Src.src_groestl_Digest_finalize_reset) ∧
    (type_of% @CC.Src.src_groestl_Digest_finalize) ∧
    (type_of% @CC.Src.src_groestl_Digest_digest) :=
  ⟨@CC.Src.src_traits_inventory,
   @CC.Src.src_digest_finalize_into,
   @CC.Src.src_digest_finalize_into_reset,
   @CC.Src.src_digest_finalize_fixed,
   @CC.Src.src_digest_finalize_fixed_reset,
   @CC.Src.src_digest_Update_chain,
   @CC.Src.src_digest_Digest_new,
   @CC.Src.src_digest_Digest_update,
   @CC.Src.src_digest_Digest_chain,
   @CC.Src.src_digest_Digest_finalize,
   @CC.Src.src_digest_Digest_finalize_reset,
   @CC.Src.src_digest_Digest_reset,
   @CC.Src.src_digest_Digest_output_size,
   @CC.Src.src_digest_Digest_digest,
   @CC.Src.src_cipher_apply_keystream,
   @CC.Src.src_cipher_current_pos,
   @CC.Src.src_cipher_seek,
   @CC.Src.src_blake_finalize_fixed_reset,
   @CC.Src.src_blake_Digest_finalize_reset,
   @CC.Src.src_blake_Digest_finalize,
   @CC.Src.src_blake_Digest_digest,
   @CC.Src.src_skein_finalize_fixed_reset,
   @CC.Src.src_skein_Digest_finalize_reset,
   @CC.Src.src_skein_Digest_finalize,
   @CC.Src.src_skein_Digest_digest,
   @CC.Src.src_jh_finalize_fixed_reset,
   @CC.Src.src_jh_Digest_finalize_reset,
   @CC.Src.src_jh_Digest_finalize,
   @CC.Src.src_jh_Digest_digest,
   @CC.Src.src_groestl_finalize_fixed_reset,
   @CC.Src.src_groestl_Digest_finalize_reset,
   @CC.Src.src_groestl_Digest_finalize,
   @CC.Src.src_groestl_Digest_digest⟩

end CC.Thm.C08
