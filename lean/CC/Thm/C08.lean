/-
  C08 — incremental hashing is invariant under chunking, cloning and reset.
  Generic form: for EVERY hash built on `BlockBuffer` (`∀ H : EagerHash σ ω`, `∀ H : LazyHash σ ω`),
  all piece lists, all piece lengths, all op histories, any number of live instances.
  Property theorems + non-vacuity examples only; the theory lives in CC/Buffer/{Lemmas,Hash}.lean.
  The 15 concrete hashes are plugged in at the end (section INSTANCES).
-/
import CC.Buffer.Hash
namespace CC.Thm.C08
open CC CC.Buffer

variable {σ ω μ : Type}

/-! ## chunking -/

/-- After any sequence of `update`s from the initial state, the chaining state and the observable
    part of the buffer (live bytes, position) are a function of the concatenation of the pieces. -/
theorem stateOf_bytes_eager (H : EagerHash σ ω) (pieces : List (List (BitVec 8))) :
    IncHash.view (H.updates H.start pieces) = IncHash.stateOfBytes .eager H.toIncHash pieces.flatten :=
  IncHash.stateOf_bytes .eager H.toIncHash pieces

theorem stateOf_bytes_lazy (H : LazyHash σ ω) (pieces : List (List (BitVec 8))) :
    IncHash.view (H.updates H.start pieces) = IncHash.stateOfBytes .lazy H.toIncHash pieces.flatten :=
  IncHash.stateOf_bytes .lazy H.toIncHash pieces

/-- `finalize (updates init pieces) = finalize (update init pieces.flatten)` — `input_block` hashes. -/
theorem chunking_eager (H : EagerHash σ ω) (pieces : List (List (BitVec 8))) :
    H.finalize (H.updates H.start pieces) = H.finalize (H.update H.start pieces.flatten) :=
  IncHash.chunking .eager H.toIncHash pieces

/-- the same for `input_lazy` hashes (Skein). -/
theorem chunking_lazy (H : LazyHash σ ω) (pieces : List (List (BitVec 8))) :
    H.finalize (H.updates H.start pieces) = H.finalize (H.update H.start pieces.flatten) :=
  IncHash.chunking .lazy H.toIncHash pieces

/-- … and both equal the one-shot meaning: `fin` of the fold of the closure over the full blocks
    (resp. all but the held-back block) and the remaining bytes. -/
theorem chunking_digest_eager (H : EagerHash σ ω) (pieces : List (List (BitVec 8))) :
    H.finalize (H.updates H.start pieces)
      = H.fin ((fullBlocks H.b pieces.flatten).foldl H.step (H.pre H.init pieces.flatten))
          (rest H.b pieces.flatten) :=
  IncHash.chunking_digest .eager H.toIncHash pieces

theorem chunking_digest_lazy (H : LazyHash σ ω) (pieces : List (List (BitVec 8))) :
    H.finalize (H.updates H.start pieces)
      = H.fin ((lazyBlocks H.b pieces.flatten).foldl H.step (H.pre H.init pieces.flatten))
          (lazyRest H.b pieces.flatten) :=
  IncHash.chunking_digest .lazy H.toIncHash pieces

/-! ## reset -/

/-- `reset s = init` (the repo's `*self = Self::default()`), and the cursor-only variant is
    observably the same; `finreset s = (fin s, init)`. -/
theorem reset_eq_init (H : IncHash σ ω) (s : HState σ) : H.reset s = H.start := rfl

theorem resetKeep_view (H : IncHash σ ω) (s : HState σ) :
    IncHash.view (H.resetKeep s) = IncHash.view H.start := by
  simp [IncHash.view, IncHash.resetKeep, IncHash.start, obs_resetKeep, obs_init]

theorem finreset_eq (H : IncHash σ ω) (s : HState σ) :
    H.finalizeReset s = (H.finalize s, H.start) := rfl

/-! ## op histories on one instance -/

/-- Running ANY history of `update p | reset | resetKeep | finreset | fin` from the initial state
    yields, step by step, exactly the outputs of the abstract machine "bytes absorbed since the last
    reset" (`finreset`/`fin` output `digest bytesSoFar`; after `finreset`/`reset` it behaves like
    new), and the final state is `stateOfBytes` of the abstract bytes. -/
theorem history_refines_eager (H : EagerHash σ ω) (ops : List Op) :
    (H.machine.run H.start ops).2 = (Abs.run H.digest [] ops).2 ∧
    IncHash.view (H.machine.run H.start ops).1
      = IncHash.stateOfBytes .eager H.toIncHash (Abs.run H.digest [] ops).1 :=
  let r := (IncHash.refines .eager H.toIncHash).history_refines ops (IncHash.Rel_start _ _)
  ⟨r.1, r.2.2⟩

theorem history_refines_lazy (H : LazyHash σ ω) (ops : List Op) :
    (H.machine.run H.start ops).2 = (Abs.run H.digest [] ops).2 ∧
    IncHash.view (H.machine.run H.start ops).1
      = IncHash.stateOfBytes .lazy H.toIncHash (Abs.run H.digest [] ops).1 :=
  let r := (IncHash.refines .lazy H.toIncHash).history_refines ops (IncHash.Rel_start _ _)
  ⟨r.1, r.2.2⟩

/-! ## several instances: clone independence -/

/-- In a store of instances with ops addressed to slots (`update i p`, `clone i j`, `reset i`,
    `resetKeep i`, `finreset i`, `fin i`), every output is the digest of the addressed slot's own
    byte history — the bytes absorbed by the slot it was cloned from up to the clone point, then its
    own — and every slot's view is `stateOfBytes` of its own byte history.  For all op lists; both
    buffer disciplines. -/
theorem clone_independent (m : Mode) (H : IncHash σ ω) (ops : List SOp) :
    ((IncHash.machine m H).runS (IncHash.machine m H).fresh ops).2
      = (Abs.runS (IncHash.digest m H) Abs.empty ops).2 ∧
    ∀ k, IncHash.view (((IncHash.machine m H).runS (IncHash.machine m H).fresh ops).1 k)
      = IncHash.stateOfBytes m H ((Abs.runS (IncHash.digest m H) Abs.empty ops).1 k) :=
  let r := (IncHash.refines m H).store_refines ops (IncHash.refines m H).R_fresh
  ⟨r.1, fun k => (r.2 k).2⟩

theorem clone_independent_eager (H : EagerHash σ ω) (ops : List SOp) :
    (H.machine.runS H.machine.fresh ops).2 = (Abs.runS H.digest Abs.empty ops).2 ∧
    ∀ k, IncHash.view ((H.machine.runS H.machine.fresh ops).1 k)
      = IncHash.stateOfBytes .eager H.toIncHash ((Abs.runS H.digest Abs.empty ops).1 k) :=
  clone_independent .eager H.toIncHash ops

theorem clone_independent_lazy (H : LazyHash σ ω) (ops : List SOp) :
    (H.machine.runS H.machine.fresh ops).2 = (Abs.runS H.digest Abs.empty ops).2 ∧
    ∀ k, IncHash.view ((H.machine.runS H.machine.fresh ops).1 k)
      = IncHash.stateOfBytes .lazy H.toIncHash ((Abs.runS H.digest Abs.empty ops).1 k) :=
  clone_independent .lazy H.toIncHash ops

/-- Two slots — of the same or of different runs — with equal byte histories are indistinguishable:
    same digest now and after any common further input. -/
theorem clone_indistinguishable (m : Mode) (H : IncHash σ ω) (ops₁ ops₂ : List SOp) (i j : Nat)
    (hB : (Abs.runS (IncHash.digest m H) Abs.empty ops₁).1 i
        = (Abs.runS (IncHash.digest m H) Abs.empty ops₂).1 j)
    (more : List (List (BitVec 8))) :
    H.finalize (IncHash.updates m H (((IncHash.machine m H).runS (IncHash.machine m H).fresh ops₁).1 i) more)
      = H.finalize (IncHash.updates m H (((IncHash.machine m H).runS (IncHash.machine m H).fresh ops₂).1 j) more) :=
  (IncHash.refines m H).slots_agree ops₁ ops₂ i j hB more

/-! ## the same for any concrete model that discharges the instance obligations -/

theorem instance_chunking {m : Mode} (I : Instance m μ σ ω) (pieces : List (List (BitVec 8))) :
    I.finalize (pieces.foldl I.update I.start) = I.finalize (I.update I.start pieces.flatten) :=
  I.chunking pieces

theorem instance_history_refines {m : Mode} (I : Instance m μ σ ω) (ops : List Op) :
    (I.machine.run I.start ops).2 = (Abs.run I.digest [] ops).2 :=
  (I.refines.history_refines ops I.refines.start).1

theorem instance_clone_independent {m : Mode} (I : Instance m μ σ ω) (ops : List SOp) :
    (I.machine.runS I.machine.fresh ops).2 = (Abs.runS I.digest Abs.empty ops).2 :=
  (I.refines.store_refines ops I.refines.R_fresh).1

/-! ## non-vacuity: a toy hash with block size 4 -/

namespace Toy

/-- position- and block-boundary-sensitive mixing (not a mere xor: order and cut points matter). -/
def mix (s : BitVec 8) (bytes : List (BitVec 8)) : BitVec 8 :=
  bytes.foldl (fun a x => a * 3#8 + x) (s + 1#8)

def core : IncHash (BitVec 8) (List (BitVec 8)) where
  b := 4
  hb := by decide
  init := 0x5a#8
  step := mix
  fin := fun st live => [mix st live, BitVec.ofNat 8 live.length]

def eager : EagerHash (BitVec 8) (List (BitVec 8)) := { core with }
def lzy : LazyHash (BitVec 8) (List (BitVec 8)) := { core with }

/-- pieces of length b−1, 0, b, b+1 (and a trailing single byte). -/
def pieces : List (List (BitVec 8)) :=
  [[1, 2, 3], [], [4, 5, 6, 7], [8, 9, 10, 11, 12], [13]]

example : pieces.flatten.length = 13 := by decide

-- the chunked run computes, and equals the one-shot run (evaluated, not by the theorem)
example : eager.finalize (eager.updates eager.start pieces) = [0xb1#8, 1#8] := by decide
example : eager.finalize (eager.update eager.start pieces.flatten) = [0xb1#8, 1#8] := by decide
example : lzy.finalize (lzy.updates lzy.start pieces) = [0xb1#8, 1#8] := by decide
example : lzy.finalize (lzy.update lzy.start pieces.flatten) = [0xb1#8, 1#8] := by decide

-- cut points matter to the closure (the toy is not trivially chunking-invariant)
example : mix (mix 0#8 [1, 2]) [3, 4] ≠ mix 0#8 [1, 2, 3, 4] := by decide

-- eager vs lazy at exactly one full block: eager flushes, lazy holds the block back
example : (eager.update eager.start [1, 2, 3, 4]).bb.pos = 0 := by decide
example : (lzy.update lzy.start [1, 2, 3, 4]).bb.pos = 4 := by decide
example : (lzy.update lzy.start [1, 2, 3, 4]).st = 0x5a#8 := by decide
example : (lzy.update (lzy.update lzy.start [1, 2, 3, 4]) [5]).bb.pos = 1 := by decide

-- stale bytes are real: same view, different buffers
example : (eager.updates eager.start [[1, 2, 3], [4, 5]]).bb.buf = [5, 2, 3, 4] := by decide
example : (eager.update eager.start [1, 2, 3, 4, 5]).bb.buf = [5, 0, 0, 0] := by decide
example : IncHash.view (eager.updates eager.start [[1, 2, 3], [4, 5]])
    = IncHash.view (eager.update eager.start [1, 2, 3, 4, 5]) := by decide

/-- a history: b−1 bytes, peek, empty piece, one byte (buffer now exactly full: flush for eager,
    pending for lazy), finreset, b+1 bytes, peek, cursor-only reset, peek, reset, peek. -/
def hist : List Op :=
  [.update [1, 2, 3], .fin, .update [], .update [4], .fin, .finreset,
   .update [9, 8, 7, 6, 5], .fin, .resetKeep, .fin, .update [1, 2, 3, 4], .reset, .fin]

example : (eager.machine.run eager.start hist).2
    = [none, some [0xab#8, 3#8], none, none, some [0x06#8, 0#8], some [0x06#8, 0#8],
       none, some [0x6b#8, 1#8], none, some [0x5b#8, 0#8], none, none, some [0x5b#8, 0#8]] := by
  decide

-- the lazy machine splits "exactly one full block" differently (block pending, `live.length = 4`)
example : (lzy.machine.run lzy.start hist).2
    = [none, some [0xab#8, 3#8], none, none, some [0x05#8, 4#8], some [0x05#8, 4#8],
       none, some [0x6b#8, 1#8], none, some [0x5b#8, 0#8], none, none, some [0x5b#8, 0#8]] := by
  decide

example : (Abs.run eager.digest [] hist).2 = (eager.machine.run eager.start hist).2 := by decide
example : (Abs.run lzy.digest [] hist).2 = (lzy.machine.run lzy.start hist).2 := by decide

/-- a store history: slot 0 absorbs 3 bytes, is cloned to slot 1 mid-buffer, both continue
    differently; slot 2 replays slot 1's bytes in one piece. -/
def shist : List SOp :=
  [.update 0 [1, 2, 3], .clone 0 1, .update 0 [4, 5], .update 1 [7, 7, 7, 7, 7], .fin 0, .fin 1,
   .update 2 [1, 2, 3, 7, 7, 7, 7, 7], .fin 2, .finreset 0, .fin 0, .fin 1, .resetKeep 1, .fin 1]

example : (eager.machine.runS eager.machine.fresh shist).2
    = (Abs.runS eager.digest Abs.empty shist).2 := by decide

example : (lzy.machine.runS lzy.machine.fresh shist).2
    = (Abs.runS lzy.digest Abs.empty shist).2 := by decide

example : (Abs.runS eager.digest Abs.empty (shist.take 8)).1 1 = [1, 2, 3, 7, 7, 7, 7, 7] := by decide
example : (Abs.runS eager.digest Abs.empty (shist.take 8)).1 1
    = (Abs.runS eager.digest Abs.empty (shist.take 8)).1 2 := by decide

/-! ### a toy *model* in the shape of the Rust structs, plugged in as an `Instance`
    (JH-like: a byte counter is bumped outside the block closure — this is what `pre` is for). -/

structure Model where
  h : BitVec 8
  datalen : Nat
  buffer : BB

def Model.default : Model := { h := 0x5a#8, datalen := 0, buffer := BB.init 4 }

def Model.update (s : Model) (data : List (BitVec 8)) : Model :=
  let datalen := s.datalen + data.length
  let (buffer, h) := inputBlock 4 s.buffer data mix s.h
  { h := h, datalen := datalen, buffer := buffer }

def Model.finalize (s : Model) : List (BitVec 8) :=
  match padWithIso7816 4 s.buffer with
  | some (_, blk) => [mix s.h blk, BitVec.ofNat 8 s.datalen]
  | none => []

def jhLike : IncHash (BitVec 8 × Nat) (List (BitVec 8)) where
  b := 4
  hb := by decide
  init := (0x5a#8, 0)
  step := fun s blk => (mix s.1 blk, s.2)
  pre := fun s xs => (s.1, s.2 + xs.length)
  pre_nil := by intro s; rfl
  pre_append := by intro s xs ys; simp [Nat.add_assoc]
  pre_step := by intro s blk xs; rfl
  fin := fun s live =>
    [mix s.1 (live ++ [0x80#8] ++ List.replicate (4 - (live.length + 1)) 0#8), BitVec.ofNat 8 s.2]

def inst : Instance .eager Model (BitVec 8 × Nat) (List (BitVec 8)) where
  H := jhLike
  start := Model.default
  update := Model.update
  finalize := Model.finalize
  reset := fun _ => Model.default
  finreset := fun s => (s.finalize, Model.default)
  toH := fun s => ⟨(s.h, s.datalen), s.buffer⟩
  toH_start := rfl
  toH_update := by
    intro s p
    simp only [IncHash.update, Mode.input, jhLike, inputBlock_pair mix, Model.update]
  finalize_eq := by
    intro s hwf
    have hwf' : WF 4 s.buffer := hwf
    obtain ⟨h₁, -⟩ := padWithIso7816_spec hwf'
    have hl : (live s.buffer).length = s.buffer.pos := length_live hwf'.toWFL
    simp only [Model.finalize, h₁, IncHash.finalize, jhLike, hl]
  toH_reset := by intro s; rfl
  finreset_eq := by intro s; exact ⟨rfl, rfl⟩

example : inst.finalize (pieces.foldl inst.update inst.start)
    = inst.finalize (inst.update inst.start pieces.flatten) := instance_chunking inst pieces

example : inst.finalize (pieces.foldl inst.update inst.start) = [0x2b#8, 13#8] := by decide

end Toy

/-! ----------------------------------------------------------------------------------------------
## INSTANCES

The 15 concrete hashes (Blake224/256/384/512, Groestl224/256/384/512, Jh224/256/384/512,
Skein256/512/1024) are plugged in here.  For each, given its model (state type `μ` shaped like the
Rust struct, with `default`, `update`, `finalize` (= output of `finalize_into_dirty`), `reset`,
`finalize_reset`), provide

    def <hash>Inst : Instance .eager μ σ ω      -- Skein: Instance .lazy μ σ ω

whose fields are the obligations:

  H          the generic description: `b` (block size in bytes, with `hb : 0 < b`), `init` (the
             non-buffer part of `Default::default()`), `step` (the per-block closure as a pure function
             `σ → block → σ`, including any counter the closure bumps: BLAKE `t`, Grøstl
             `block_counter`), `fin : σ → live → ω` (finalisation as a function of the chaining state
             and the live bytes only; `pos` is `live.length`), and — only if `update` does
             bookkeeping outside the closure (JH: `datalen += data.len()`) — `pre` with the three laws
             `pre_nil`, `pre_append`, `pre_step` (otherwise omit them: the defaults are discharged by `rfl`).
  toH        the split of a model state into `⟨chaining part, buffer⟩`.
  (O1) toH_start    : toH default = H.start                     -- IV + `BlockBuffer::default()`
  (O2) toH_update   : ∀ s p, toH (update s p) = IncHash.update m H (toH s) p
                      -- i.e. the model's `update` IS `inputBlock`/`inputLazy b s.buffer p H.step (H.pre st p)`;
                      -- by `rfl` when the model is written that way.
  (O3) finalize_eq  : ∀ s, m.WF H.b (toH s).bb → finalize s = H.fin (toH s).st (live (toH s).bb)
                      -- "finalize reads only (st, live)".  Use `len64PaddingBe_spec`, `padWithZero_spec`,
                      -- `padWithIso7816_spec`, `inputBlock_spec` (BLAKE pads through `input_block`) from
                      -- CC/Buffer/Lemmas.lean: they express the blocks handed to the closure in terms of
                      -- `live s` alone.  `buffer.position()` = `(live s).length` (`length_live`),
                      -- `buffer.remaining()` = `b - (live s).length`.
  (O4) toH_reset    : ∀ s, toH (reset s) = H.start              -- Grøstl224/384 re-create the truncated IV
  (O5) finreset_eq  : ∀ s, (finreset s).1 = finalize s ∧ toH (finreset s).2 = H.start

Then, with no further proof,

    instance_chunking          <hash>Inst : ∀ pieces, finalize (foldl update default pieces) = finalize (update default pieces.flatten)
    instance_history_refines   <hash>Inst : ∀ ops, outputs of the model = outputs of "bytes since last reset"
    instance_clone_independent <hash>Inst : ∀ store histories, outputs = digest of the slot's own byte history
    <hash>Inst.finalize_updates          : finalize (foldl update default pieces) = H.fin (fold H.step … (blocks of the message)) (rest)

(the last one is the bridge to C04–C07: it reduces "incremental model = spec" to a statement about
the one-shot fold).  `Toy.inst` above is a complete worked example (JH-shaped).
---------------------------------------------------------------------------------------------- -/

end CC.Thm.C08
