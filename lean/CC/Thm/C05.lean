/-
  C05 — Skein-256/512/1024 (any output length) conform to Skein 1.3.
  Property theorems only; helper lemmas live in CC/Skein/Lemmas.lean and CC/Threefish/Lemmas.lean.

  `Model.digest prof P n msg` is `let mut h = Default::default(); h.update(msg); h.finalize()`.
  Arbitrary histories of `update` calls (chunking), `clone`, `reset` and `finalize_reset` are reduced to
  this one-shot form by C08 (`state_is_function_of_bytes`, lazy block-buffer lemma), not here.
-/
import CC.Skein.Lemmas
import CC.Skein.Src
import CC.Skein.SrcBlock
namespace CC.Thm.C05
open CC CC.Skein CC.Skein.Model

/-- For the three state sizes, every output length `n` (bytes; in particular every `n ≥ 1`, the `NonZero`
    bound of the Rust type), every message shorter than 2^64 bytes and both build profiles, the digest
    computed by the implementation model is `Ok` (no overflow panic) and equals the Skein 1.3 simple hash
    `Output(UBI(UBI(UBI(0, C, T_cfg), M, T_msg)), 8n)`. -/
theorem skein_conforms (prof : Profile) (P : Params) (hP : P ∈ [skein256, skein512, skein1024]) (n : Nat)
    (msg : List (BitVec 8)) (hlen : msg.length < 2 ^ 64) :
    Model.digest prof P n msg = .ok (Spec.skein P.nb n msg) :=
  skein_oneshot prof hP n msg hlen

/-- `process_block` is exactly one UBI chaining step: when the state holds position `pos` and the type /
    first / final bits of a tweak, and `pos + byte_count_add` fits in 64 bits, it returns `Ok`, advances the
    position, clears `FIRST`, and replaces `x` by `E(x, tweak, block) ⊕ block` with the specification's
    128-bit tweak for position `pos + byte_count_add`. -/
theorem process_block_is_ubi_step (prof : Profile) (P : Params) (hP : P ∈ [skein256, skein512, skein1024])
    (st : State) (block : List (BitVec 8)) (add pos ty : Nat) (first final : Bool)
    (h0 : st.t0 = BitVec.ofNat 64 pos) (h1 : st.t1 = t1Of ty first final)
    (hty : ty = Spec.T_cfg ∨ ty = Spec.T_msg ∨ ty = Spec.T_out) (hov : pos + add < 2 ^ 64) :
    processBlock prof P st block add = .ok
      { t0 := BitVec.ofNat 64 (pos + add), t1 := t1Of ty false final,
        x := Spec.ubiStep P.nb st.x (Spec.tweak (pos + add) ty first final) block } :=
  processBlock_eq prof hP st block add pos ty first final h0 h1 hty hov

/-- `Default::default()` holds `UBI(0, C, T_cfg)` for the configuration string with `8n` output bits, a zero
    byte count, `FIRST | MSG`, and an empty buffer. -/
theorem default_is_config_ubi (prof : Profile) (P : Params) (hP : P ∈ [skein256, skein512, skein1024]) (n : Nat) :
    Model.default prof P n = .ok
      { state := { t0 := 0, t1 := T1_FLAG_FIRST ||| T1_BLK_TYPE_MSG,
                   x := Spec.ubi P.nb (List.replicate P.nb 0) (Spec.configString (8 * n)) Spec.T_cfg },
        buffer := CC.Buffer.BB.init P.nb } :=
  default_eq prof hP n

/-- The output loop over `output.chunks_mut(state_bytes)` is `Output(x, 8n)` (counter as 8 LE bytes,
    truncation from the front). -/
theorem output_loop_is_output (prof : Profile) (P : Params) (hP : P ∈ [skein256, skein512, skein1024])
    (x : List (BitVec 8)) (n : Nat) : outputLoop prof P x n = .ok (Spec.output P.nb x n) :=
  outputLoop_eq prof hP x n

/-! Non-vacuity / validation of the specification on published vectors (Skein 1.3 reference KATs). -/

def hexb (s : String) : List (BitVec 8) := (bytesOfHex s).getD []

-- Skein-256-256(0xFF)
example : Spec.skein 32 32 [0xff] =
    hexb "0b98dcd198ea0e50a7a244c444e25c23da30c10fc9a1f270a6637f1f34e67ed2" := by decide +kernel
-- Skein-256-256("")
example : Spec.skein 32 32 [] =
    hexb "c8877087da56e072870daa843f176e9453115929094c3a40c463a196c29bf7ba" := by decide +kernel
-- Skein-512-512("")
example : Spec.skein 64 64 [] =
    hexb ("bc5b4c50925519c290cc634277ae3d6257212395cba733bbad37a4af0fa06af4" ++
          "1fca7903d06564fea7a2d3730dbdb80c1f85562dfcc070334ea4d1d9e72cba7a") := by decide +kernel
-- Skein-512-512(0xFF)
example : Spec.skein 64 64 [0xff] =
    hexb ("71b7bce6fe6452227b9ced6014249e5bf9a9754c3ad618ccc4e0aae16b316cc8" ++
          "ca698d864307ed3e80b6ef1570812ac5272dc409b5a012df2a579102f340617a") := by decide +kernel
-- Skein-1024-1024("")
example : Spec.skein 128 128 [] =
    hexb ("0fff9563bb3279289227ac77d319b6fff8d7e9f09da1247b72a0a265cd6d2a62" ++
          "645ad547ed8193db48cff847c06494a03f55666d3b47eb4c20456c9373c86297" ++
          "d630d5578ebd34cb40991578f9f52b18003efa35d3da6553ff35db91b81ab890" ++
          "bec1b189b7f52cb2a783ebb7d823d725b0b4a71f6824e88f68f982eefc6d19c6") := by decide +kernel
-- the model evaluates, on a two-block message with a truncated output, to the same bytes (instance of the theorem)
example : Model.digest .debug skein256 20 (patBytes 3 33) = .ok (Spec.skein 32 20 (patBytes 3 33)) :=
  skein_conforms _ _ (by simp) _ _ (by decide)
example : (Model.digest .debug skein256 32 [0xff]).isOk = true := by decide +kernel

/-- **Source tie.**  The constants of hashes/skein/src/lib.rs (`VERSION`, `ID_STRING_LE`, `SCHEMA_VER`,
    `CFG_TREE_INFO_SEQUENTIAL`, the `T1_*` tweak flags and block types, `CFG_STR_LEN`), as EVALUATED from the Rust
    source on every run (tools/inventory_kernels.py → `CC.Gen.Kernels`), equal the model's; the three
    `define_hasher!` invocations (Threefish instance, state bytes, state bits) are `skein256`, `skein512`,
    `skein1024`; the Threefish `mix` kernel and tables Skein runs on are tied by `CC.Thm.C09.source_kernels_match`
    (restated here through `CC.Src.src_threefish_*`).  Individual facts: `CC.Src.src_skein_*`.  The body of
    `process_block` / UBI chaining is not translated; it stays tied by the differential correspondence. -/
theorem source_kernels_match :
    CC.Gen.Kernels.skein_errors = [] ∧ CC.Gen.Kernels.threefish_errors = [] ∧
    VERSION = CC.Gen.Kernels.skein_VERSION ∧ ID_STRING_LE = CC.Gen.Kernels.skein_ID_STRING_LE ∧
    SCHEMA_VER = CC.Gen.Kernels.skein_SCHEMA_VER ∧
    CFG_TREE_INFO_SEQUENTIAL = CC.Gen.Kernels.skein_CFG_TREE_INFO_SEQUENTIAL ∧
    T1_FLAG_FIRST = CC.Gen.Kernels.skein_T1_FLAG_FIRST ∧ T1_FLAG_FINAL = CC.Gen.Kernels.skein_T1_FLAG_FINAL ∧
    T1_BLK_TYPE_CFG = CC.Gen.Kernels.skein_T1_BLK_TYPE_CFG ∧ T1_BLK_TYPE_MSG = CC.Gen.Kernels.skein_T1_BLK_TYPE_MSG ∧
    T1_BLK_TYPE_OUT = CC.Gen.Kernels.skein_T1_BLK_TYPE_OUT ∧ CFG_STR_LEN = CC.Gen.Kernels.skein_CFG_STR_LEN ∧
    CC.Gen.Kernels.skein_define_hasher.map
        (fun r => (r.1, (⟨r.2.2.1, CC.Src.tfByName r.2.1⟩ : Params), r.2.2.2))
      = [("Skein256", skein256, 8 * skein256.nb), ("Skein512", skein512, 8 * skein512.nb),
         ("Skein1024", skein1024, 8 * skein1024.nb)] ∧
    (CC.Threefish.Model.mix = fun r x => CC.Gen.Kernels.threefish_mix r x.1 x.2) ∧
    CC.Threefish.Model.C240 = CC.Gen.Kernels.threefish_C240 ∧
    CC.Threefish.Model.R_256 = CC.Gen.Kernels.threefish_R_256 ∧
    CC.Threefish.Model.R_512 = CC.Gen.Kernels.threefish_R_512 ∧
    CC.Threefish.Model.R_1024 = CC.Gen.Kernels.threefish_R_1024 ∧
    CC.Threefish.Model.P_256 = CC.Gen.Kernels.threefish_P_256 ∧
    CC.Threefish.Model.P_512 = CC.Gen.Kernels.threefish_P_512 ∧
    CC.Threefish.Model.P_1024 = CC.Gen.Kernels.threefish_P_1024 :=
  ⟨CC.Src.src_skein_clean, CC.Src.src_threefish_clean, CC.Src.src_skein_VERSION, CC.Src.src_skein_ID_STRING_LE,
   CC.Src.src_skein_SCHEMA_VER, CC.Src.src_skein_CFG_TREE_INFO_SEQUENTIAL, CC.Src.src_skein_T1_FLAG_FIRST,
   CC.Src.src_skein_T1_FLAG_FINAL, CC.Src.src_skein_T1_BLK_TYPE_CFG, CC.Src.src_skein_T1_BLK_TYPE_MSG,
   CC.Src.src_skein_T1_BLK_TYPE_OUT, CC.Src.src_skein_CFG_STR_LEN, CC.Src.src_skein_instances,
   CC.Src.src_threefish_mix, CC.Src.src_threefish_C240, CC.Src.src_threefish_R_256, CC.Src.src_threefish_R_512,
   CC.Src.src_threefish_R_1024, CC.Src.src_threefish_P_256, CC.Src.src_threefish_P_512,
   CC.Src.src_threefish_P_1024⟩

/-- **Source tie, phase 3 (the glue of lib.rs).**  `tools/inventory_kernels_glue.py` regenerates, on every run, Lean
    definitions from the Rust of `process_block` (checked `t.0 += byte_count_add`, `with_tweak`, `encrypt_block`,
    `x ^ block`, `t.1 &= !T1_FLAG_FIRST`), `Default::default` (the configuration block, `state.t = (0, FIRST | MSG)`),
    `Update::update` (`input_lazy` with the closure calling `process_block(state, block, $state_bits / 8)`),
    `FixedOutputDirty::finalize_into_dirty` (`t.1 |= FINAL`, `pad_with::<ZeroPadding>().unwrap()`,
    `process_block(.., pos)`, the output loop over `output.chunks_mut($state_bits / 8).enumerate()` with the counter
    block `i as u64` and `chunk.copy_from_slice(&ctr.x.bytes()[..n])`) and `Reset::reset` (`*self = Self::default()`,
    unconditionally) for the three `define_hasher!` instantiations; the model (`processBlock`, `default`, `update`,
    `finalizeIntoDirty` with `outputLoop`, `reset`) equals them on the struct fields, for every state within the
    block-buffer invariant (`buf.len() = B`, `pos ≤ B`), every input / output length, both profiles.  `Block<N>` is its byte
    array (named primitive), the Threefish calls are the generated `threefish*_with_tweak` / `_encrypt_block`.
    `Clone` is derived (`skein_structs`).  Panic messages are not compared.
    Individual facts: `CC.Src.src_skein{256,512,1024}_*`, `CC.Src.src_skein_structs` (lean/CC/Skein/Src.lean). -/
theorem source_glue_match :
    CC.Gen.Kernels.skein_errors = [] ∧
    (∀ (p : Profile) (st : State) (block : List (BitVec 8)) (k : Nat), block.length = 32 →
      CC.Src.noMsg (CC.Gen.Kernels.skein256_process_block p st.t0 st.t1 st.x block k)
        = CC.Src.noMsg (processBlock p skein256 st block k >>= fun s => .ok (CC.Src.skeinStateEnc s))) ∧
    (∀ (p : Profile) (n : Nat), n * 8 < 2 ^ 64 →
      CC.Src.noMsg (CC.Gen.Kernels.skein256_default p (BitVec.ofNat 64 n))
        = CC.Src.noMsg (Model.default p skein256 n >>= fun h => .ok (CC.Src.skeinEnc h))) ∧
    (∀ (p : Profile) (h : Hasher), h.buffer.buf.length = 32 → h.buffer.pos ≤ 32 → ∀ (data : List (BitVec 8)),
      CC.Src.noMsg (CC.Gen.Kernels.skein256_update p h.state.t0 h.state.t1 h.state.x h.buffer data)
        = CC.Src.noMsg (update p skein256 h data >>= fun h' => .ok (CC.Src.skeinEnc h'))) ∧
    (∀ (p : Profile) (h : Hasher), h.buffer.pos ≤ 32 → h.buffer.buf.length = 32 → ∀ (output : List (BitVec 8)),
      CC.Src.noMsg (CC.Gen.Kernels.skein256_finalize_into_dirty p h.state.t0 h.state.t1 h.state.x h.buffer output)
        = CC.Src.noMsg (finalizeIntoDirty p skein256 output.length h >>= fun r =>
            .ok (r.1.state.t0, r.1.state.t1, r.1.state.x, r.1.buffer, r.2))) ∧
    (∀ (p : Profile) (h : Hasher) (n : Nat), n * 8 < 2 ^ 64 →
      CC.Src.noMsg (CC.Gen.Kernels.skein256_reset p h.state.t0 h.state.t1 h.state.x h.buffer (BitVec.ofNat 64 n))
        = CC.Src.noMsg (reset p skein256 n h >>= fun h' => .ok (CC.Src.skeinEnc h'))) ∧
    (∀ (p : Profile) (st : State) (block : List (BitVec 8)) (k : Nat), block.length = 64 →
      CC.Src.noMsg (CC.Gen.Kernels.skein512_process_block p st.t0 st.t1 st.x block k)
        = CC.Src.noMsg (processBlock p skein512 st block k >>= fun s => .ok (CC.Src.skeinStateEnc s))) ∧
    (∀ (p : Profile) (n : Nat), n * 8 < 2 ^ 64 →
      CC.Src.noMsg (CC.Gen.Kernels.skein512_default p (BitVec.ofNat 64 n))
        = CC.Src.noMsg (Model.default p skein512 n >>= fun h => .ok (CC.Src.skeinEnc h))) ∧
    (∀ (p : Profile) (h : Hasher), h.buffer.buf.length = 64 → h.buffer.pos ≤ 64 → ∀ (data : List (BitVec 8)),
      CC.Src.noMsg (CC.Gen.Kernels.skein512_update p h.state.t0 h.state.t1 h.state.x h.buffer data)
        = CC.Src.noMsg (update p skein512 h data >>= fun h' => .ok (CC.Src.skeinEnc h'))) ∧
    (∀ (p : Profile) (h : Hasher), h.buffer.pos ≤ 64 → h.buffer.buf.length = 64 → ∀ (output : List (BitVec 8)),
      CC.Src.noMsg (CC.Gen.Kernels.skein512_finalize_into_dirty p h.state.t0 h.state.t1 h.state.x h.buffer output)
        = CC.Src.noMsg (finalizeIntoDirty p skein512 output.length h >>= fun r =>
            .ok (r.1.state.t0, r.1.state.t1, r.1.state.x, r.1.buffer, r.2))) ∧
    (∀ (p : Profile) (h : Hasher) (n : Nat), n * 8 < 2 ^ 64 →
      CC.Src.noMsg (CC.Gen.Kernels.skein512_reset p h.state.t0 h.state.t1 h.state.x h.buffer (BitVec.ofNat 64 n))
        = CC.Src.noMsg (reset p skein512 n h >>= fun h' => .ok (CC.Src.skeinEnc h'))) ∧
    (∀ (p : Profile) (st : State) (block : List (BitVec 8)) (k : Nat), block.length = 128 →
      CC.Src.noMsg (CC.Gen.Kernels.skein1024_process_block p st.t0 st.t1 st.x block k)
        = CC.Src.noMsg (processBlock p skein1024 st block k >>= fun s => .ok (CC.Src.skeinStateEnc s))) ∧
    (∀ (p : Profile) (n : Nat), n * 8 < 2 ^ 64 →
      CC.Src.noMsg (CC.Gen.Kernels.skein1024_default p (BitVec.ofNat 64 n))
        = CC.Src.noMsg (Model.default p skein1024 n >>= fun h => .ok (CC.Src.skeinEnc h))) ∧
    (∀ (p : Profile) (h : Hasher), h.buffer.buf.length = 128 → h.buffer.pos ≤ 128 → ∀ (data : List (BitVec 8)),
      CC.Src.noMsg (CC.Gen.Kernels.skein1024_update p h.state.t0 h.state.t1 h.state.x h.buffer data)
        = CC.Src.noMsg (update p skein1024 h data >>= fun h' => .ok (CC.Src.skeinEnc h'))) ∧
    (∀ (p : Profile) (h : Hasher), h.buffer.pos ≤ 128 → h.buffer.buf.length = 128 → ∀ (output : List (BitVec 8)),
      CC.Src.noMsg (CC.Gen.Kernels.skein1024_finalize_into_dirty p h.state.t0 h.state.t1 h.state.x h.buffer output)
        = CC.Src.noMsg (finalizeIntoDirty p skein1024 output.length h >>= fun r =>
            .ok (r.1.state.t0, r.1.state.t1, r.1.state.x, r.1.buffer, r.2))) ∧
    (∀ (p : Profile) (h : Hasher) (n : Nat), n * 8 < 2 ^ 64 →
      CC.Src.noMsg (CC.Gen.Kernels.skein1024_reset p h.state.t0 h.state.t1 h.state.x h.buffer (BitVec.ofNat 64 n))
        = CC.Src.noMsg (reset p skein1024 n h >>= fun h' => .ok (CC.Src.skeinEnc h'))) ∧
    CC.Gen.Kernels.skein_structs =
      [("Skein256", "struct", ["state", "buffer", "_output"], ["Clone"], ["Default"]),
       ("Skein512", "struct", ["state", "buffer", "_output"], ["Clone"], ["Default"]),
       ("Skein1024", "struct", ["state", "buffer", "_output"], ["Clone"], ["Default"]),
       ("State", "struct", ["t", "x"], ["Clone"], []),
       ("Block", "union", ["bytes", "words"], ["Clone", "Copy"], [])] :=
  ⟨CC.Src.src_skein_clean,
   fun p st block k hb => CC.Src.src_skein256_process_block p st block k hb,
   fun p n hn => CC.Src.src_skein256_default p n hn,
   fun p h hb hp data => CC.Src.src_skein256_update p h hb hp data,
   fun p h hp hb output => CC.Src.src_skein256_finalize_into_dirty p h hp hb output,
   fun p h n hn => CC.Src.src_skein256_reset p h n hn,
   fun p st block k hb => CC.Src.src_skein512_process_block p st block k hb,
   fun p n hn => CC.Src.src_skein512_default p n hn,
   fun p h hb hp data => CC.Src.src_skein512_update p h hb hp data,
   fun p h hp hb output => CC.Src.src_skein512_finalize_into_dirty p h hp hb output,
   fun p h n hn => CC.Src.src_skein512_reset p h n hn,
   fun p st block k hb => CC.Src.src_skein1024_process_block p st block k hb,
   fun p n hn => CC.Src.src_skein1024_default p n hn,
   fun p h hb hp data => CC.Src.src_skein1024_update p h hb hp data,
   fun p h hp hb output => CC.Src.src_skein1024_finalize_into_dirty p h hp hb output,
   fun p h n hn => CC.Src.src_skein1024_reset p h n hn,
   CC.Src.src_skein_structs⟩

/-- **Source tie, round 6 (the `Block<N>` union).**  `tools/inventory_hashc.py` regenerates, on every run, Lean
    definitions from the Rust of the `repr(C)` union `Block<N> { bytes: GenericArray<u8, N>, words: GenericArray<u64, N/8> }`
    of hashes/skein/src/lib.rs, for N = 32, 64, 128 (a union is its byte image; a field read re-packs the bytes
    little-endian, a field write stores the bytes of the value): `as_byte_array`, `as_byte_array_mut`, `bytes`,
    `from_byte_array` are the identity on the byte array (what the model and the phase-3 glue translation assume); the
    word views `as_word_array` / `as_word_array_mut` give word `i` = `read64le` of bytes `8i … 8i+7` (`leWord`), a
    re-packing of the same bytes (`leWordsBytes b k 0 = b`); `Default::default()` is N zero bytes; and
    `BitXor::bitxor` — the loop `*s ^= *r` over the two word views — is the byte-wise xor `xorBytes` the model's
    `processCore` uses (= the `xorInto` of the glue translation) for blocks of N bytes.
    Individual facts: `CC.Src.src_skein_block*` (lean/CC/Skein/SrcBlock.lean). -/
theorem source_block_match :
    CC.Gen.HashCSrc.skein_hashc_errors = [] ∧
    (CC.Gen.HashCSrc.skein_block256_as_byte_array = fun b => b) ∧
    (CC.Gen.HashCSrc.skein_block256_as_byte_array_mut = fun b => (b, b)) ∧
    (CC.Gen.HashCSrc.skein_block256_bytes = fun b => (b, b)) ∧
    (CC.Gen.HashCSrc.skein_block256_from_byte_array = fun b => b) ∧
    (CC.Gen.HashCSrc.skein_block256_as_word_array = fun b => (CC.Src.leWord b 0, CC.Src.leWord b 1, CC.Src.leWord b 2, CC.Src.leWord b 3)) ∧
    (CC.Gen.HashCSrc.skein_block256_as_word_array_mut = fun b => (CC.Src.leWord b 0, CC.Src.leWord b 1, CC.Src.leWord b 2, CC.Src.leWord b 3, b)) ∧
    CC.Gen.HashCSrc.skein_block256_default = List.replicate 32 0#8 ∧
    (∀ (a b : List (BitVec 8)), a.length = 32 → b.length = 32 →
      CC.Gen.HashCSrc.skein_block256_bitxor a b = xorBytes a b ∧ CC.Gen.HashCSrc.skein_block256_bitxor a b = CC.Gen.Kernels.xorInto a b) ∧
    (CC.Gen.HashCSrc.skein_block512_as_byte_array = fun b => b) ∧
    (CC.Gen.HashCSrc.skein_block512_as_byte_array_mut = fun b => (b, b)) ∧
    (CC.Gen.HashCSrc.skein_block512_bytes = fun b => (b, b)) ∧
    (CC.Gen.HashCSrc.skein_block512_from_byte_array = fun b => b) ∧
    (CC.Gen.HashCSrc.skein_block512_as_word_array = fun b => (CC.Src.leWord b 0, CC.Src.leWord b 1, CC.Src.leWord b 2, CC.Src.leWord b 3, CC.Src.leWord b 4, CC.Src.leWord b 5, CC.Src.leWord b 6, CC.Src.leWord b 7)) ∧
    (CC.Gen.HashCSrc.skein_block512_as_word_array_mut = fun b => (CC.Src.leWord b 0, CC.Src.leWord b 1, CC.Src.leWord b 2, CC.Src.leWord b 3, CC.Src.leWord b 4, CC.Src.leWord b 5, CC.Src.leWord b 6, CC.Src.leWord b 7, b)) ∧
    CC.Gen.HashCSrc.skein_block512_default = List.replicate 64 0#8 ∧
    (∀ (a b : List (BitVec 8)), a.length = 64 → b.length = 64 →
      CC.Gen.HashCSrc.skein_block512_bitxor a b = xorBytes a b ∧ CC.Gen.HashCSrc.skein_block512_bitxor a b = CC.Gen.Kernels.xorInto a b) ∧
    (CC.Gen.HashCSrc.skein_block1024_as_byte_array = fun b => b) ∧
    (CC.Gen.HashCSrc.skein_block1024_as_byte_array_mut = fun b => (b, b)) ∧
    (CC.Gen.HashCSrc.skein_block1024_bytes = fun b => (b, b)) ∧
    (CC.Gen.HashCSrc.skein_block1024_from_byte_array = fun b => b) ∧
    (CC.Gen.HashCSrc.skein_block1024_as_word_array = fun b => (CC.Src.leWord b 0, CC.Src.leWord b 1, CC.Src.leWord b 2, CC.Src.leWord b 3, CC.Src.leWord b 4, CC.Src.leWord b 5, CC.Src.leWord b 6, CC.Src.leWord b 7, CC.Src.leWord b 8, CC.Src.leWord b 9, CC.Src.leWord b 10, CC.Src.leWord b 11, CC.Src.leWord b 12, CC.Src.leWord b 13, CC.Src.leWord b 14, CC.Src.leWord b 15)) ∧
    (CC.Gen.HashCSrc.skein_block1024_as_word_array_mut = fun b => (CC.Src.leWord b 0, CC.Src.leWord b 1, CC.Src.leWord b 2, CC.Src.leWord b 3, CC.Src.leWord b 4, CC.Src.leWord b 5, CC.Src.leWord b 6, CC.Src.leWord b 7, CC.Src.leWord b 8, CC.Src.leWord b 9, CC.Src.leWord b 10, CC.Src.leWord b 11, CC.Src.leWord b 12, CC.Src.leWord b 13, CC.Src.leWord b 14, CC.Src.leWord b 15, b)) ∧
    CC.Gen.HashCSrc.skein_block1024_default = List.replicate 128 0#8 ∧
    (∀ (a b : List (BitVec 8)), a.length = 128 → b.length = 128 →
      CC.Gen.HashCSrc.skein_block1024_bitxor a b = xorBytes a b ∧ CC.Gen.HashCSrc.skein_block1024_bitxor a b = CC.Gen.Kernels.xorInto a b) ∧
    (∀ (b : List (BitVec 8)) (k : Nat), b.length = 8 * k → CC.Src.leWordsBytes b k 0 = b) :=
  ⟨CC.Src.src_skein_hashc_clean,
   CC.Src.src_skein_block256_as_byte_array,
   CC.Src.src_skein_block256_as_byte_array_mut,
   CC.Src.src_skein_block256_bytes,
   CC.Src.src_skein_block256_from_byte_array,
   CC.Src.src_skein_block256_as_word_array,
   CC.Src.src_skein_block256_as_word_array_mut,
   CC.Src.src_skein_block256_default,
   CC.Src.src_skein_block256_bitxor,
   CC.Src.src_skein_block512_as_byte_array,
   CC.Src.src_skein_block512_as_byte_array_mut,
   CC.Src.src_skein_block512_bytes,
   CC.Src.src_skein_block512_from_byte_array,
   CC.Src.src_skein_block512_as_word_array,
   CC.Src.src_skein_block512_as_word_array_mut,
   CC.Src.src_skein_block512_default,
   CC.Src.src_skein_block512_bitxor,
   CC.Src.src_skein_block1024_as_byte_array,
   CC.Src.src_skein_block1024_as_byte_array_mut,
   CC.Src.src_skein_block1024_bytes,
   CC.Src.src_skein_block1024_from_byte_array,
   CC.Src.src_skein_block1024_as_word_array,
   CC.Src.src_skein_block1024_as_word_array_mut,
   CC.Src.src_skein_block1024_default,
   CC.Src.src_skein_block1024_bitxor,
   CC.Src.src_skein_word_view_roundtrip⟩

end CC.Thm.C05
