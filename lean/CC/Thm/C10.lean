/-
  C10 — Threefish decryption is the inverse of encryption (both directions).
  Property theorems only; helper lemmas live in CC/Threefish/Lemmas.lean.
-/
import CC.Threefish.Lemmas
import CC.Threefish.Src
namespace CC.Thm.C10
open CC CC.Threefish CC.Threefish.Model

/-- `decrypt_block(encrypt_block(b)) = b` for the three instantiations, both `unroll8!` shapes, every key
    (any byte string), every tweak and every block of the cipher's block length `8·n_w`. -/
theorem dec_enc (sh : Shape) (p : Params) (hp : p ∈ [tf256, tf512, tf1024])
    (key : List (BitVec 8)) (t0 t1 : BitVec 64) (blk : List (BitVec 8)) (hb : blk.length = 8 * p.nw) :
    Model.decrypt sh p key t0 t1 (Model.encrypt sh p key t0 t1 blk) = blk :=
  decrypt_encrypt (good_of_mem hp) sh key t0 t1 blk hb

/-- `encrypt_block(decrypt_block(b)) = b`, same quantifiers. -/
theorem enc_dec (sh : Shape) (p : Params) (hp : p ∈ [tf256, tf512, tf1024])
    (key : List (BitVec 8)) (t0 t1 : BitVec 64) (blk : List (BitVec 8)) (hb : blk.length = 8 * p.nw) :
    Model.encrypt sh p key t0 t1 (Model.decrypt sh p key t0 t1 blk) = blk :=
  encrypt_decrypt (good_of_mem hp) sh key t0 t1 blk hb

/-- The key leaf, for every rotation amount (the tables only contain `r < 64`, `C09.P_tables`):
    `inv_mix(r, mix(r, x)) = x` and `mix(r, inv_mix(r, y)) = y`. -/
theorem mix_inverse (r : Nat) (x : BitVec 64 × BitVec 64) :
    invMix r (mix r x) = x ∧ mix r (invMix r x) = x :=
  ⟨invMix_mix r x, mix_invMix r x⟩

/-! Non-vacuity: the hypotheses are satisfiable and the repository's decryption vectors evaluate. -/

def hexb (s : String) : List (BitVec 8) := (bytesOfHex s).getD []

example : Model.decrypt .unrolled tf256 (List.replicate 32 0) 0 0
    (hexb "84da2a1f8beaee947066ae3e3103f1ad536db1f4a1192495116b9f3ce6133fd8") = List.replicate 32 0 := by
  decide +kernel
example : Model.decrypt .loop tf256 ((List.range 32).map fun i => BitVec.ofNat 8 (0x10 + i))
      0x0706050403020100#64 0x0f0e0d0c0b0a0908#64
      (hexb "e0d091ff0eea8fdfc98192e62ed80ad59d865d08588df476657056b5955e97df")
    = (List.range 32).map fun i => BitVec.ofNat 8 (0xff - i) := by decide +kernel
example : Model.decrypt .unrolled tf512 ((List.range 64).map fun i => BitVec.ofNat 8 (0x10 + i))
      0x0706050403020100#64 0x0f0e0d0c0b0a0908#64
      (hexb ("e304439626d45a2cb401cad8d636249a6338330eb06d45dd8b36b90e97254779" ++
             "272a0a8d99463504784420ea18c9a725af11dffea10162348927673d5c1caf3d"))
    = (List.range 64).map fun i => BitVec.ofNat 8 (0xff - i) := by decide +kernel
example : Model.decrypt .unrolled tf1024 ((List.range 128).map fun i => BitVec.ofNat 8 (0x10 + i))
      0x0706050403020100#64 0x0f0e0d0c0b0a0908#64
      (hexb ("a6654ddbd73cc3b05dd777105aa849bce49372eaaffc5568d254771bab85531c" ++
             "94f780e7ffaae430d5d8af8c70eebbe1760f3b42b737a89cb363490d670314bd" ++
             "8aa41ee63c2e1f45fbd477922f8360b388d6125ea6c7af0ad7056d01796e90c8" ++
             "3313f4150a5716b30ed5f569288ae974ce2b4347926fce57de44512177dd7cde"))
    = (List.range 128).map fun i => BitVec.ofNat 8 (0xff - i) := by decide +kernel
example : Model.decrypt .loop tf512 (List.replicate 64 0xff) 1 2
      (Model.encrypt .loop tf512 (List.replicate 64 0xff) 1 2 (List.replicate 64 0xff)) = List.replicate 64 0xff :=
  dec_enc _ _ (by simp) _ _ _ _ (by decide)

/-- **Source tie, phase 3 (the trait impls).**  Regenerated from block-ciphers/threefish/src/lib.rs on every run:
    `NewBlockCipher::new(key) = Self::with_tweak(key, 0, 0)` for the three `impl_threefish!` instantiations, and the
    inventory of the trait impls with the functions each defines — `BlockEncrypt` defines only `encrypt_block`,
    `BlockDecrypt` only `decrypt_block` (tied to `encryptBlock` / `decryptBlock` in both `unroll8!` shapes by
    `CC.Thm.C09.source_code_match`), so the slice / par-blocks / by-reference paths are the provided methods of the
    `cipher` crate calling these; an override such as a `decrypt_blocks` with the encrypt body changes the list.
    `$name { sk }` derives `Clone, Copy`.  Individual facts: `CC.Src.src_threefish*_new`,
    `CC.Src.src_threefish_trait_impls`, `CC.Src.src_threefish_structs`. -/
theorem source_glue_match :
    CC.Gen.Kernels.threefish_errors = [] ∧
    (∀ key : List (BitVec 8),
      CC.Gen.Kernels.threefish256_new key = CC.Gen.Kernels.threefish256_with_tweak key 0#64 0#64 ∧
      CC.Gen.Kernels.threefish512_new key = CC.Gen.Kernels.threefish512_with_tweak key 0#64 0#64 ∧
      CC.Gen.Kernels.threefish1024_new key = CC.Gen.Kernels.threefish1024_with_tweak key 0#64 0#64) ∧
    (∀ (key : List (BitVec 8)),
      withTweak tf256 key 0 0 = CC.Gen.Kernels.threefish256_new key ∧
      withTweak tf512 key 0 0 = CC.Gen.Kernels.threefish512_new key ∧
      withTweak tf1024 key 0 0 = CC.Gen.Kernels.threefish1024_new key) ∧
    CC.Gen.Kernels.threefish_trait_impls =
      [("Threefish256", "NewBlockCipher", ["new"]), ("Threefish256", "BlockCipher", []),
       ("Threefish256", "BlockEncrypt", ["encrypt_block"]), ("Threefish256", "BlockDecrypt", ["decrypt_block"]),
       ("Threefish512", "NewBlockCipher", ["new"]), ("Threefish512", "BlockCipher", []),
       ("Threefish512", "BlockEncrypt", ["encrypt_block"]), ("Threefish512", "BlockDecrypt", ["decrypt_block"]),
       ("Threefish1024", "NewBlockCipher", ["new"]), ("Threefish1024", "BlockCipher", []),
       ("Threefish1024", "BlockEncrypt", ["encrypt_block"]), ("Threefish1024", "BlockDecrypt", ["decrypt_block"])] ∧
    CC.Gen.Kernels.threefish_structs =
      [("Threefish256", "struct", ["sk"], ["Clone", "Copy"], []),
       ("Threefish512", "struct", ["sk"], ["Clone", "Copy"], []),
       ("Threefish1024", "struct", ["sk"], ["Clone", "Copy"], [])] :=
  ⟨CC.Src.src_threefish_clean,
   fun key => ⟨CC.Src.src_threefish256_new key, CC.Src.src_threefish512_new key, CC.Src.src_threefish1024_new key⟩,
   fun key => ⟨(CC.Src.src_threefish256_with_tweak key 0 0).trans (CC.Src.src_threefish256_new key).symm,
               (CC.Src.src_threefish512_with_tweak key 0 0).trans (CC.Src.src_threefish512_new key).symm,
               (CC.Src.src_threefish1024_with_tweak key 0 0).trans (CC.Src.src_threefish1024_new key).symm⟩,
   CC.Src.src_threefish_trait_impls, CC.Src.src_threefish_structs⟩

/-- **End to end (regenerated code only).**  Only REGENERATED definitions (`CC.Gen.Kernels.*`, printed from
    block-ciphers/threefish/src/lib.rs on every run) occur in this statement — no hand-written model: for the three
    `impl_threefish!` instantiations and both expansions of `unroll8!` / `unroll8_rev!`, every key, every tweak and every
    block of the cipher's block length, `c.decrypt_block(c.encrypt_block(b)) = b` with `c = with_tweak(key, t0, t1)`.
    (`dec_enc` rewritten with `CC.Src.src_threefish*`.) -/
theorem generated_dec_enc (key : List (BitVec 8)) (t0 t1 : BitVec 64) (blk : List (BitVec 8)) :
    (blk.length = 32 →
      CC.Gen.Kernels.threefish256_decrypt_block (CC.Gen.Kernels.threefish256_with_tweak key t0 t1)
        (CC.Gen.Kernels.threefish256_encrypt_block (CC.Gen.Kernels.threefish256_with_tweak key t0 t1) blk) = blk) ∧
    (blk.length = 32 →
      CC.Gen.Kernels.threefish256_decrypt_block_no_unroll (CC.Gen.Kernels.threefish256_with_tweak key t0 t1)
        (CC.Gen.Kernels.threefish256_encrypt_block_no_unroll (CC.Gen.Kernels.threefish256_with_tweak key t0 t1) blk) = blk) ∧
    (blk.length = 64 →
      CC.Gen.Kernels.threefish512_decrypt_block (CC.Gen.Kernels.threefish512_with_tweak key t0 t1)
        (CC.Gen.Kernels.threefish512_encrypt_block (CC.Gen.Kernels.threefish512_with_tweak key t0 t1) blk) = blk) ∧
    (blk.length = 64 →
      CC.Gen.Kernels.threefish512_decrypt_block_no_unroll (CC.Gen.Kernels.threefish512_with_tweak key t0 t1)
        (CC.Gen.Kernels.threefish512_encrypt_block_no_unroll (CC.Gen.Kernels.threefish512_with_tweak key t0 t1) blk) = blk) ∧
    (blk.length = 128 →
      CC.Gen.Kernels.threefish1024_decrypt_block (CC.Gen.Kernels.threefish1024_with_tweak key t0 t1)
        (CC.Gen.Kernels.threefish1024_encrypt_block (CC.Gen.Kernels.threefish1024_with_tweak key t0 t1) blk) = blk) ∧
    (blk.length = 128 →
      CC.Gen.Kernels.threefish1024_decrypt_block_no_unroll (CC.Gen.Kernels.threefish1024_with_tweak key t0 t1)
        (CC.Gen.Kernels.threefish1024_encrypt_block_no_unroll (CC.Gen.Kernels.threefish1024_with_tweak key t0 t1) blk) = blk) := by
  refine ⟨?_, ?_, ?_, ?_, ?_, ?_⟩
  · intro hb
    rw [← CC.Src.src_threefish256_decrypt_block, ← CC.Src.src_threefish256_encrypt_block,
      ← CC.Src.src_threefish256_with_tweak]
    exact dec_enc .unrolled tf256 (by simp) key t0 t1 blk hb
  · intro hb
    rw [← CC.Src.src_threefish256_decrypt_block_no_unroll, ← CC.Src.src_threefish256_encrypt_block_no_unroll,
      ← CC.Src.src_threefish256_with_tweak]
    exact dec_enc .loop tf256 (by simp) key t0 t1 blk hb
  · intro hb
    rw [← CC.Src.src_threefish512_decrypt_block, ← CC.Src.src_threefish512_encrypt_block,
      ← CC.Src.src_threefish512_with_tweak]
    exact dec_enc .unrolled tf512 (by simp) key t0 t1 blk hb
  · intro hb
    rw [← CC.Src.src_threefish512_decrypt_block_no_unroll, ← CC.Src.src_threefish512_encrypt_block_no_unroll,
      ← CC.Src.src_threefish512_with_tweak]
    exact dec_enc .loop tf512 (by simp) key t0 t1 blk hb
  · intro hb
    rw [← CC.Src.src_threefish1024_decrypt_block, ← CC.Src.src_threefish1024_encrypt_block,
      ← CC.Src.src_threefish1024_with_tweak]
    exact dec_enc .unrolled tf1024 (by simp) key t0 t1 blk hb
  · intro hb
    rw [← CC.Src.src_threefish1024_decrypt_block_no_unroll, ← CC.Src.src_threefish1024_encrypt_block_no_unroll,
      ← CC.Src.src_threefish1024_with_tweak]
    exact dec_enc .loop tf1024 (by simp) key t0 t1 blk hb

/-- **End to end (regenerated code only).**  `c.encrypt_block(c.decrypt_block(b)) = b`, same quantifiers as
    `generated_dec_enc`.  (`enc_dec` rewritten with `CC.Src.src_threefish*`.) -/
theorem generated_enc_dec (key : List (BitVec 8)) (t0 t1 : BitVec 64) (blk : List (BitVec 8)) :
    (blk.length = 32 →
      CC.Gen.Kernels.threefish256_encrypt_block (CC.Gen.Kernels.threefish256_with_tweak key t0 t1)
        (CC.Gen.Kernels.threefish256_decrypt_block (CC.Gen.Kernels.threefish256_with_tweak key t0 t1) blk) = blk) ∧
    (blk.length = 32 →
      CC.Gen.Kernels.threefish256_encrypt_block_no_unroll (CC.Gen.Kernels.threefish256_with_tweak key t0 t1)
        (CC.Gen.Kernels.threefish256_decrypt_block_no_unroll (CC.Gen.Kernels.threefish256_with_tweak key t0 t1) blk) = blk) ∧
    (blk.length = 64 →
      CC.Gen.Kernels.threefish512_encrypt_block (CC.Gen.Kernels.threefish512_with_tweak key t0 t1)
        (CC.Gen.Kernels.threefish512_decrypt_block (CC.Gen.Kernels.threefish512_with_tweak key t0 t1) blk) = blk) ∧
    (blk.length = 64 →
      CC.Gen.Kernels.threefish512_encrypt_block_no_unroll (CC.Gen.Kernels.threefish512_with_tweak key t0 t1)
        (CC.Gen.Kernels.threefish512_decrypt_block_no_unroll (CC.Gen.Kernels.threefish512_with_tweak key t0 t1) blk) = blk) ∧
    (blk.length = 128 →
      CC.Gen.Kernels.threefish1024_encrypt_block (CC.Gen.Kernels.threefish1024_with_tweak key t0 t1)
        (CC.Gen.Kernels.threefish1024_decrypt_block (CC.Gen.Kernels.threefish1024_with_tweak key t0 t1) blk) = blk) ∧
    (blk.length = 128 →
      CC.Gen.Kernels.threefish1024_encrypt_block_no_unroll (CC.Gen.Kernels.threefish1024_with_tweak key t0 t1)
        (CC.Gen.Kernels.threefish1024_decrypt_block_no_unroll (CC.Gen.Kernels.threefish1024_with_tweak key t0 t1) blk) = blk) := by
  refine ⟨?_, ?_, ?_, ?_, ?_, ?_⟩
  · intro hb
    rw [← CC.Src.src_threefish256_encrypt_block, ← CC.Src.src_threefish256_decrypt_block,
      ← CC.Src.src_threefish256_with_tweak]
    exact enc_dec .unrolled tf256 (by simp) key t0 t1 blk hb
  · intro hb
    rw [← CC.Src.src_threefish256_encrypt_block_no_unroll, ← CC.Src.src_threefish256_decrypt_block_no_unroll,
      ← CC.Src.src_threefish256_with_tweak]
    exact enc_dec .loop tf256 (by simp) key t0 t1 blk hb
  · intro hb
    rw [← CC.Src.src_threefish512_encrypt_block, ← CC.Src.src_threefish512_decrypt_block,
      ← CC.Src.src_threefish512_with_tweak]
    exact enc_dec .unrolled tf512 (by simp) key t0 t1 blk hb
  · intro hb
    rw [← CC.Src.src_threefish512_encrypt_block_no_unroll, ← CC.Src.src_threefish512_decrypt_block_no_unroll,
      ← CC.Src.src_threefish512_with_tweak]
    exact enc_dec .loop tf512 (by simp) key t0 t1 blk hb
  · intro hb
    rw [← CC.Src.src_threefish1024_encrypt_block, ← CC.Src.src_threefish1024_decrypt_block,
      ← CC.Src.src_threefish1024_with_tweak]
    exact enc_dec .unrolled tf1024 (by simp) key t0 t1 blk hb
  · intro hb
    rw [← CC.Src.src_threefish1024_encrypt_block_no_unroll, ← CC.Src.src_threefish1024_decrypt_block_no_unroll,
      ← CC.Src.src_threefish1024_with_tweak]
    exact enc_dec .loop tf1024 (by simp) key t0 t1 blk hb

end CC.Thm.C10
