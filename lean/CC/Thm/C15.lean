/-
  C15 — ChaCha stream parameters round-trip, are isolated, and define stream equality.
-/
import CC.ChaCha.Wide
import CC.Thm.C01
import CC.Thm.C15Eq
namespace CC.Thm.C15
open CC CC.Simd CC.ChaCha CC.ChaCha.Spec

/-- set then get returns the value (parameter 0 = 64-bit counter, 1 = 64-bit stream id). -/
theorem get_set (s : Guts) (p : Nat) (hp : p < 2) (v : BitVec 64) :
    ∃ s', setStreamParam s p v = .ok s' ∧ getStreamParam s' p = .ok v := by
  have : p = 0 ∨ p = 1 := by omega
  rcases this with rfl | rfl
  · refine ⟨_, rfl, ?_⟩
    show Out.ok _ = Out.ok _
    refine congrArg Out.ok ?_
    unfold lane32 pack32; bv_decide
  · refine ⟨_, rfl, ?_⟩
    show Out.ok _ = Out.ok _
    refine congrArg Out.ok ?_
    unfold lane32 pack32; bv_decide

/-- setting one parameter leaves the other parameter and the key words untouched. -/
theorem set_isolated (s : Guts) (p : Nat) (hp : p < 2) (v : BitVec 64) :
    ∃ s', setStreamParam s p v = .ok s' ∧ getStreamParam s' (1 - p) = getStreamParam s (1 - p)
      ∧ s'.b = s.b ∧ s'.c = s.c := by
  have : p = 0 ∨ p = 1 := by omega
  rcases this with rfl | rfl
  · refine ⟨_, rfl, ?_, rfl, rfl⟩
    show Out.ok _ = Out.ok _
    refine congrArg Out.ok ?_
    unfold lane32 pack32; bv_decide
  · refine ⟨_, rfl, ?_, rfl, rfl⟩
    show Out.ok _ = Out.ok _
    refine congrArg Out.ok ?_
    unfold lane32 pack32; bv_decide

/-- every parameter that is not 0 or 1 modulo 2^31 is rejected (index out of bounds in the Rust): never a silent
    write.  (`param: u32`; the index is `(param << 1) | 1`, and the shift discards bit 31 of `param`.) -/
theorem bad_param (s : Guts) (p : Nat) (hp : 2 ≤ p % 2 ^ 31) (v : BitVec 64) :
    (setStreamParam s p v).isPanic = true ∧ (getStreamParam s p).isPanic = true := by
  have h0 : p % 2147483648 ≠ 0 := by omega
  have h1 : p % 2147483648 ≠ 1 := by omega
  simp [setStreamParam, getStreamParam, h0, h1, Out.isPanic]

/-- in particular every parameter in `2 .. 2^31 − 1` panics -/
theorem bad_param_small (s : Guts) (p : Nat) (hp : 2 ≤ p) (hlt : p < 2 ^ 31) (v : BitVec 64) :
    (setStreamParam s p v).isPanic = true ∧ (getStreamParam s p).isPanic = true :=
  bad_param s p (by rw [Nat.mod_eq_of_lt hlt]; exact hp) v

/-- **bit 31 of the parameter index is ignored** (the `u32` shift `param << 1` discards it): `set_stream_param(2^31, v)`
    silently writes parameter 0, `2^31 + 1` parameter 1 — as in the Rust. -/
theorem param_high_bit_ignored (s : Guts) (p : Nat) (_hp : p < 2 ^ 32) (v : BitVec 64) :
    setStreamParam s p v = setStreamParam s (p % 2 ^ 31) v ∧ getStreamParam s p = getStreamParam s (p % 2 ^ 31) := by
  simp [setStreamParam, getStreamParam]

/-- The state after `set` is the state built directly with those words, hence so is all output
    that follows (any sequence of refills is a function of the state). -/
theorem set_is_direct (s : Guts) (v : BitVec 64) :
    setStreamParam s 0 v = .ok { s with d := pack32 (v.setWidth 32) ((v >>> 32).setWidth 32) (lane32 s.d 2) (lane32 s.d 3) } ∧
    setStreamParam s 1 v = .ok { s with d := pack32 (lane32 s.d 0) (lane32 s.d 1) (v.setWidth 32) ((v >>> 32).setWidth 32) } :=
  ⟨rfl, rfl⟩

/-- `stream64_eq` holds exactly when key and the two stream-id words agree (counter ignored). -/
theorem stream64_eq_iff (a b : Guts) :
    stream64Eq a b = true ↔ a.b = b.b ∧ a.c = b.c ∧ lane32 a.d 2 = lane32 b.d 2 ∧ lane32 a.d 3 = lane32 b.d 3 := by
  simp only [stream64Eq, Bool.and_eq_true, beq_iff_eq]
  constructor
  · rintro ⟨⟨⟨h1, h2⟩, h3⟩, h4⟩; exact ⟨h1, h2, h4, h3⟩
  · rintro ⟨h1, h2, h4, h3⟩; exact ⟨⟨⟨h1, h2⟩, h3⟩, h4⟩

/-- `stream32_eq` additionally compares word 13 (high counter word / first nonce word). -/
theorem stream32_eq_iff (a b : Guts) :
    stream32Eq a b = true ↔ a.b = b.b ∧ a.c = b.c ∧ lane32 a.d 1 = lane32 b.d 1 ∧
      lane32 a.d 2 = lane32 b.d 2 ∧ lane32 a.d 3 = lane32 b.d 3 := by
  simp only [stream32Eq, Bool.and_eq_true, beq_iff_eq]
  constructor
  · rintro ⟨⟨⟨⟨h1, h2⟩, h3⟩, h4⟩, h5⟩; exact ⟨h1, h2, h5, h4, h3⟩
  · rintro ⟨h1, h2, h5, h4, h3⟩; exact ⟨⟨⟨⟨h1, h2⟩, h3⟩, h4⟩, h5⟩

/-- Stream equality is invariant under refills (the counter moves, nothing else does). -/
theorem stream64_eq_refill (s : Guts) (dr : Nat) : stream64Eq (refill Mach.ref s dr).2 s = true := by
  rw [stream64_eq_iff, refill_ref_eq]
  refine ⟨rfl, rfl, ?_, ?_⟩ <;> (simp only []; unfold addLo zip64 lane64 pack64 lane32; bv_decide)

/-- Non-vacuity: two states differing only in word 13 are 64-equal but not 32-equal. -/
example : stream64Eq { b := 1, c := 2, d := pack32 0 5 6 7 } { b := 1, c := 2, d := pack32 9 4 6 7 } = true ∧
          stream32Eq { b := 1, c := 2, d := pack32 0 5 6 7 } { b := 1, c := 2, d := pack32 9 4 6 7 } = false := by
  decide


/-- **Source tie.**  The definitions of `guts.rs` this property is about (`refill`, `refill4` = `refill_wide_impl`,
    `inc_block_ct`, `d0123`, `add_pos`, `set_stream_param` / `get_stream_param`, the stream-equality predicates, the
    constructors) are the ones REGENERATED from /repo's current source: same statement as `CC.Thm.C01.source_code_match`
    and `source_kernels_match`, registered here so that a change of that code breaks an obligation of this property too. -/
theorem source_code_match : type_of% @CC.Thm.C01.source_code_match ∧ type_of% @CC.Thm.C01.source_kernels_match :=
  ⟨CC.Thm.C01.source_code_match, CC.Thm.C01.source_kernels_match⟩

end CC.Thm.C15
