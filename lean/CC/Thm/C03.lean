/-
  C03 (backend half) — identical results on every SIMD backend and build configuration.

  * `backend_eq_ref`: each of the six backend records the algorithm models run on is *equal* to
    the reference record (one C12/C13 leaf per field), hence any algorithm model gives the same
    result on every backend (`backend_independent`).  Fields indexed by a rotation / swap amount,
    an element index or a byte string agree with the implementation on exactly the arguments the
    Rust API offers and fall back to the reference elsewhere — see `CC/Simd/Backends.lean`.
  * `dispatch_total`, `dispatch_sound`: the selection ladders of `dispatch!`,
    `dispatch_light128!`, `dispatch_light256!` (`CC/Simd/Dispatch.lean`).
  * `ladder_extracted`, `final_else_as_modelled`, `machine_types_as_modelled`, `extraction_clean`: the
    ladder model is what `tools/inventory_dispatch.py` extracts from `x86_64/mod.rs` on every run
    (`CC/Gen/Dispatch.lean`).
-/
import CC.Gen.CfgAtoms
import CC.Feat.CfgAtoms
import CC.Simd.Proof.BackendEq
import CC.Simd.Dispatch
import CC.Gen.Dispatch
namespace CC.Thm.C03
open CC CC.Simd CC.Simd.Dispatch

/-- Every backend's machine record is the reference machine. -/
theorem backend_eq_ref :
    Mach.generic = Mach.ref ∧ Mach.sse2 = Mach.ref ∧ Mach.ssse3 = Mach.ref ∧
    Mach.sse41 = Mach.ref ∧ Mach.avx = Mach.ref ∧ Mach.avx2 = Mach.ref :=
  ⟨BackendEq.ofBackend_eq_ref .generic, BackendEq.ofBackend_eq_ref .sse2, BackendEq.ofBackend_eq_ref .ssse3,
   BackendEq.ofBackend_eq_ref .sse41, BackendEq.ofBackend_eq_ref .avx, BackendEq.ofBackend_eq_ref .avx2⟩

theorem ofBackend_eq_ref (b : Backend) : Mach.ofBackend b = Mach.ref := BackendEq.ofBackend_eq_ref b

/-- Any function of the machine record (every algorithm model: ChaCha narrow/wide, BLAKE, JH)
    gives the same result on any two backends, and the result of the reference machine. -/
theorem backend_independent {α : Sort _} (model : Mach → α) (b₁ b₂ : Backend) :
    model (Mach.ofBackend b₁) = model (Mach.ofBackend b₂) ∧ model (Mach.ofBackend b₁) = model Mach.ref := by
  rw [ofBackend_eq_ref b₁, ofBackend_eq_ref b₂]; exact ⟨rfl, rfl⟩

theorem mem_allFeats (f : Feat) : f ∈ allFeats := by
  obtain ⟨a, b, c, d, e⟩ := f
  cases a <;> cases b <;> cases c <;> cases d <;> cases e <;> decide
theorem mem_allMacros (m : Macro) : m ∈ allMacros := by cases m <;> decide
theorem mem_allModes (m : Mode) : m ∈ allModes := by cases m <;> decide

/-- **The ladders are total.**  For every macro, both expansions, and every feature assignment
    with `sse2` set (consistent with the hardware implication order), the `if / else if` chain
    takes an arm — it never reaches `unimplemented!()` — and being a chain it takes exactly one. -/
theorem dispatch_total (m : Macro) (md : Mode) (f : Feat) (h2 : f.sse2 = true) (hc : f.consistent = true) :
    ∃ a, select m md f = some a ∧ a ∈ ladder m md ∧ a.fires f = true := by
  have key : ∀ m ∈ allMacros, ∀ md ∈ allModes, ∀ f ∈ allFeats, f.sse2 = true → f.consistent = true →
      ((select m md f).isSome = true) := by decide
  have hs := key m (mem_allMacros m) md (mem_allModes md) f (mem_allFeats f) h2 hc
  obtain ⟨a, ha⟩ := Option.isSome_iff_exists.mp hs
  exact ⟨a, ha, List.mem_of_find?_eq_some ha,
    List.find?_some (p := fun x : Arm => x.fires f) (l := ladder m md) ha⟩

/-- **The ladders are sound.**  Whatever arm is selected,
    (1) every `#[target_feature]` enabled on the function it calls is implied by the feature the
        arm tested (so calling it on this CPU is sound),
    (2) every feature the instantiated `Machine` type's code uses is implied by what the arm
        tested / statically has, hence (3) is present in the assignment. -/
theorem dispatch_sound (m : Macro) (md : Mode) (f : Feat) (h2 : f.sse2 = true) (hc : f.consistent = true)
    (a : Arm) (ha : select m md f = some a) :
    (∀ e ∈ a.enabled, ∀ g, a.guard = some g → e ∈ implied g) ∧
    (∀ r ∈ needs a.machine, f.has r = true) ∧
    (md = .std → ∀ r ∈ needs a.machine, r ∈ closure (.sse2 :: a.enabled)) := by
  have key : ∀ m ∈ allMacros, ∀ md ∈ allModes, ∀ f ∈ allFeats, f.sse2 = true → f.consistent = true →
      ((select m md f).all fun a => a.guardImplies && a.needsPresent f && (md != .std || a.needsEnabled)) = true := by
    decide
  have hs := key m (mem_allMacros m) md (mem_allModes md) f (mem_allFeats f) h2 hc
  rw [ha] at hs
  simp only [Option.all_some, Bool.and_eq_true, Bool.or_eq_true, bne_iff_ne, ne_eq] at hs
  obtain ⟨⟨h1, h2'⟩, h3⟩ := hs
  refine ⟨?_, ?_, ?_⟩
  · intro e he g hg
    have := List.all_eq_true.mp h1 e he
    simp only [hg] at this
    simpa using this
  · intro r hr
    exact List.all_eq_true.mp h2' r hr
  · intro hstd r hr
    rcases h3 with h3 | h3
    · exact absurd hstd h3
    · simpa using List.all_eq_true.mp h3 r hr

/-- Arm-level statement (independent of any assignment): every arm of every std ladder enables
    only features its guard implies, and enables (with the x86-64 baseline `sse2`) everything its
    `Machine` type uses — the one ladder mistake a host that has every feature can never exhibit. -/
theorem arms_sound :
    ∀ m ∈ allMacros, ∀ a ∈ ladder m .std, a.guardImplies = true ∧ a.needsEnabled = true := by decide

/-! ### the ladder model is the source's

`CC/Gen/Dispatch.lean` is regenerated from `utils-simd/ppv-lite86/src/x86_64/mod.rs` before every build. -/

/-- **The modelled ladders are the extracted ones**: per macro and mode the arms of the
    `if / else if` chain, top to bottom — guard feature, function called, the
    `#[target_feature(enable = ..)]` list on that function, `Machine` type instantiated. -/
theorem ladder_extracted : ∀ m mode, CC.Gen.Dispatch.extracted m mode = CC.Simd.Dispatch.ladder m mode := by
  intro m mode
  cases m <;> cases mode <;> rfl

/-- the final `else` is `unimplemented!()` in the std expansions and the SSE2 arm in the no-std ones,
    as modelled (`select = none` ↔ the chain reaches `unimplemented!()`) -/
theorem final_else_as_modelled : ∀ m mode, CC.Gen.Dispatch.finalElse m mode = CC.Simd.Dispatch.finalElse m mode := by
  intro m mode
  cases m <;> cases mode <;> rfl

/-- **The `Machine` type aliases mean what the model assumes**: the extracted parameters
    (`S3 = YesS3`, `S4 = YesS4`, `Avx2Machine`) of `SSE2 … AVX2` are the `s3`/`s4` flags of the backend
    each alias denotes (the flags the backend records `Mach.ofBackend` are built from), and
    `Dispatch.needs` of every x86 backend is exactly what code with those parameters uses. -/
theorem machine_types_as_modelled :
    CC.Gen.Dispatch.machineFlags = typeAliases.map (fun nb => (nb.1, nb.2.s3, nb.2.s4, nb.2 == .avx2)) ∧
    (∀ nb ∈ typeAliases, needs nb.2 = usesOf nb.2.s3 nb.2.s4 (nb.2 == .avx2)) ∧
    (∀ b : Backend, b ≠ .generic → b ∈ typeAliases.map (·.2)) ∧
    (∀ m mode, ∀ a ∈ ladder m mode, a.machine ∈ typeAliases.map (·.2)) := by
  refine ⟨rfl, ?_, ?_, ?_⟩
  · intro nb h
    simp only [typeAliases, List.mem_cons, List.mem_nil_iff, or_false] at h
    rcases h with h | h | h | h | h <;> subst h <;> rfl
  · intro b hb
    cases b <;> first | exact absurd rfl hb | decide
  · intro m mode
    cases m <;> cases mode <;> decide

/-- the scanner understood every construct of the three macros and of the alias declarations -/
theorem extraction_clean : CC.Gen.Dispatch.parseProblems = [] := rfl

/-! ### non-vacuity -/
example : (select .dispatch .std ⟨true, true, true, true, true⟩).map (·.machine) = some .avx2 := by decide
example : (select .dispatch .std ⟨true, true, false, false, false⟩).map (·.machine) = some .ssse3 := by decide
example : (select .light128 .std ⟨true, true, true, true, true⟩).map (·.machine) = some .avx := by decide
example : (select .light256 .nostd ⟨true, false, false, false, false⟩).map (·.machine) = some .sse2 := by decide
/-- without `sse2` the std ladder does fall through to `unimplemented!()` (the hypothesis matters) -/
example : select .dispatch .std ⟨false, false, false, false, false⟩ = none := by decide
example : (⟨true, true, true, false, false⟩ : Feat).consistent = true := by decide


/-- Source tie: every compile-time configuration atom other than cargo features that the sources mention
    (`target_feature`, `target_endian`, `target_arch`, `is_x86_feature_detected!` names, …; regenerated on
    every run) is one the models and the harness configurations account for — no new atom, no new site. -/
theorem cfg_atoms_as_modelled : CC.Gen.CfgAtoms.atoms = CC.Feat.CfgAtoms.expected := rfl

end CC.Thm.C03
