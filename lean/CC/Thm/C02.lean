/-
  C02 — ChaCha output depends only on absolute stream position, never on call history.
  Property theorems only.  Helpers: CC/ChaCha/Refine*.lean.

  Setting.  `Cipher` is the model of `ChaChaAny<…>` (all seven public types), `cStep`/`cRun` the
  model of the API calls `try_seek::<T>` (any value of any supported integer type),
  `try_apply_keystream` (any slice) and `try_current_pos::<T>`, in a build `Profile`.
  `aStep`/`aRun` is the abstract machine whose only state is the absolute position.
  `RC g c pos` is the refinement invariant ("instance `c` of the stream with base state `g` is at
  position `pos`"); a new instance satisfies it at position 0 (`new_at_zero`).
-/
import CC.ChaCha.Refine7
import CC.ChaCha.Src
import CC.ChaCha.SrcSeekNum
namespace CC.Thm.C02
open CC CC.Simd CC.ChaCha CC.ChaCha.Spec

/-- A freshly constructed cipher of any of the seven types is at position 0. -/
theorem new_at_zero (v : Variant) (key nonce : List (BitVec 8)) (hn : nonce.length = v.nonceLen) :
    RC (Cipher.new Mach.ref v key nonce).buf.state (Cipher.new Mach.ref v key nonce) 0 :=
  Cipher_new_RC v key nonce hn

/-- **Main theorem.** For every finite sequence of seeks (any value of any supported integer
    type), keystream applications (any length, including requests past the end) and position
    queries (any type), from every reachable buffered state, in debug and release builds:
    the concrete machine returns `ok` at every step (no panic, no spurious error) and its
    observable results are, step by step, those of the abstract position machine — every
    processed byte is XORed with the keystream byte of its absolute position, seeks succeed
    exactly for in-range positions, the reported position is the absolute position — and the
    refinement invariant holds again at the end. -/
theorem history_refines (g : Guts) (p : Profile) (ops : List Op) (c : Cipher) (pos : Nat)
    (h : RC g c pos) (hv : ∀ op ∈ ops, op.valid) :
    ∃ c', c'.v = c.v ∧
      cRun p c ops = .ok (c', (aRun (limitOf c.v) (ksOf c.v g) pos ops).2) ∧
      RC g c' (aRun (limitOf c.v) (ksOf c.v g) pos ops).1 :=
  CC.ChaCha.history_refines g p ops c pos h hv

/-- … in particular from a new instance. -/
theorem history_from_new (p : Profile) (v : Variant) (key nonce : List (BitVec 8))
    (hn : nonce.length = v.nonceLen) (ops : List Op) (hv : ∀ op ∈ ops, op.valid) :
    let c := Cipher.new Mach.ref v key nonce
    ∃ c', cRun p c ops = .ok (c', (aRun (limitOf v) (ksOf v c.buf.state) 0 ops).2) := by
  intro c
  obtain ⟨c', _, he, _⟩ := history_refines c.buf.state p ops c 0 (new_at_zero v key nonce hn) hv
  have hv' : c.v = v := by
    show (Cipher.new Mach.ref v key nonce).v = v
    unfold Cipher.new; cases v.layout <;> rfl
  rw [hv'] at he
  exact ⟨c', he⟩

/-- The result of an operation history does not depend on the build profile. -/
theorem profile_independent (g : Guts) (ops : List Op) (c : Cipher) (pos : Nat)
    (h : RC g c pos) (hv : ∀ op ∈ ops, op.valid) :
    ∃ c1 c2 rs, cRun .debug c ops = .ok (c1, rs) ∧ cRun .release c ops = .ok (c2, rs) := by
  obtain ⟨c1, _, h1, _⟩ := history_refines g .debug ops c pos h hv
  obtain ⟨c2, _, h2, _⟩ := history_refines g .release ops c pos h hv
  exact ⟨c1, c2, _, h1, h2⟩

/-! ### the consequences the property names -/

/-- **Position only.** Two instances of the same stream that are at the same absolute position —
    whatever histories brought them there (different chunkings, seeks forwards, backwards,
    mid-block, lazily pending blocks, different buffered states) — produce the same bytes for the
    same request. -/
theorem output_depends_on_position_only (g : Guts) (p : Profile) (c1 c2 : Cipher) (pos : Nat)
    (data : List (BitVec 8)) (hv : c1.v = c2.v) (h1 : RC g c1 pos) (h2 : RC g c2 pos)
    (hm : data.length < 2 ^ 64) :
    ∃ c1' c2' r, Cipher.tryApply Mach.ref p c1 data = .ok (c1', r) ∧
                 Cipher.tryApply Mach.ref p c2 data = .ok (c2', r) := by
  obtain ⟨a, _, ha1, ha2⟩ := Cipher_apply_step g p c1 pos data h1 hm
  obtain ⟨b, _, hb1, hb2⟩ := Cipher_apply_step g p c2 pos data h2 hm
  rw [← hv] at hb1 hb2
  by_cases hc : pos + data.length ≤ limitOf c1.v
  · exact ⟨a, b, _, (ha1 hc).1, (hb1 hc).1⟩
  · exact ⟨a, b, _, (ha2 hc).1, (hb2 hc).1⟩

/-- **Every processed byte is XORed with the keystream byte of its absolute position.** -/
theorem apply_bytewise (g : Guts) (p : Profile) (c : Cipher) (pos : Nat) (data : List (BitVec 8))
    (h : RC g c pos) (hm : data.length < 2 ^ 64) (hfit : pos + data.length ≤ limitOf c.v) :
    ∃ c' out, Cipher.tryApply Mach.ref p c data = .ok (c', some out) ∧ out.length = data.length ∧
      ∀ i (hi : i < data.length), out[i]? = some (data[i] ^^^ (layOf c.v g).byteAt c.v.drounds (pos + i)) := by
  obtain ⟨c', _, ha1, _⟩ := Cipher_apply_step g p c pos data h hm
  refine ⟨c', _, (ha1 hfit).1, ?_, ?_⟩
  · simp [xorBytes_length, ksOf, ks_length]
  · intro i hi
    have hk := ks_getElem? (layOf c.v g) c.v.drounds pos data.length i (by rw [limitOf_eq]; exact hfit) hi
    simp only [xorBytes, ksOf, List.getElem?_zipWith, hk, List.getElem?_eq_getElem hi]

/-- **Re-chunking.** Applying `a ++ b` in one call produces the same bytes as applying `a` and
    then `b`, and ends at the same position. -/
theorem rechunk (g : Guts) (p : Profile) (c : Cipher) (pos : Nat) (a b : List (BitVec 8))
    (h : RC g c pos) (hm : (a ++ b).length < 2 ^ 64) (hfit : pos + (a ++ b).length ≤ limitOf c.v) :
    ∃ c1 c2 o1 o2,
      cRun p c [.apply a, .apply b] = .ok (c1, [.bytes o1, .bytes o2]) ∧
      cRun p c [.apply (a ++ b)] = .ok (c2, [.bytes (o1 ++ o2)]) ∧
      RC g c1 (pos + (a ++ b).length) ∧ RC g c2 (pos + (a ++ b).length) := by
  have hl : (a ++ b).length = a.length + b.length := List.length_append
  rw [hl] at hm hfit
  obtain ⟨c1, _, h1, r1⟩ := history_refines g p [.apply a, .apply b] c pos h
    (by intro op ho; simp at ho; rcases ho with rfl | rfl <;> (show _ < _; omega))
  obtain ⟨c2, _, h2, r2⟩ := history_refines g p [.apply (a ++ b)] c pos h
    (by intro op ho; simp at ho; subst ho; show (a ++ b).length < _; omega)
  have ha : pos + a.length ≤ limitOf c.v := by omega
  have hb : pos + a.length + b.length ≤ limitOf c.v := by omega
  have hab : pos + (a ++ b).length ≤ limitOf c.v := by rw [hl]; omega
  simp only [aRun, aStep, ha, hb, hab, if_true] at h1 h2 r1 r2
  refine ⟨c1, c2, _, _, h1, ?_, ?_, ?_⟩
  · rw [h2, hl]
    have hk := ks_append (layOf c.v g) c.v.drounds pos a.length b.length (by rw [limitOf_eq]; omega)
    simp only [ksOf, hk]
    rw [xorBytes_append a b _ _ (by rw [ks_length])]
  · rw [hl, ← Nat.add_assoc]; exact r1
  · exact r2

theorem aStep_seek_nat (lim : Nat) (ks : Nat → Nat → List (BitVec 8)) (pos q : Nat)
    (hq : q < 2 ^ 64) (hl : q ≤ lim) : aStep lim ks pos (.seek (q : Int)) = (q, .seekOk) := by
  show (if (0 : Int) ≤ (q : Int) ∧ (q : Int).toNat < 2 ^ 64 ∧ (q : Int).toNat ≤ lim then ((q : Int).toNat, Res.seekOk) else (pos, Res.seekErr)) = _
  have h : (0 : Int) ≤ (q : Int) ∧ (q : Int).toNat < 2 ^ 64 ∧ (q : Int).toNat ≤ lim := by
    refine ⟨by omega, ?_, ?_⟩
    · rw [Int.toNat_natCast]; exact hq
    · rw [Int.toNat_natCast]; exact hl
  rw [if_pos h, Int.toNat_natCast]

theorem aStep_apply_fit (lim : Nat) (ks : Nat → Nat → List (BitVec 8)) (pos : Nat) (data : List (BitVec 8))
    (h : pos + data.length ≤ lim) :
    aStep lim ks pos (.apply data) = (pos + data.length, .bytes (xorBytes data (ks pos data.length))) := by
  show (if pos + data.length ≤ lim then _ else _) = _
  rw [if_pos h]

/-- **Applying the keystream twice at one position restores the data.** -/
theorem apply_twice_restores (g : Guts) (p : Profile) (c : Cipher) (pos0 : Nat) (q : Nat)
    (data : List (BitVec 8)) (h : RC g c pos0) (hq : q < 2 ^ 64)
    (hm : data.length < 2 ^ 64) (hfit : q + data.length ≤ limitOf c.v) :
    ∃ c' o, cRun p c [.seek q, .apply data] = .ok (c', [.seekOk, .bytes o]) ∧
      ∃ c'', cRun p c' [.seek q, .apply o] = .ok (c'', [.seekOk, .bytes data]) := by
  have hql : q ≤ limitOf c.v := by omega
  obtain ⟨c1, hv1, h1, r1⟩ := history_refines g p [.seek q, .apply data] c pos0 h
    (by intro op ho; simp at ho; rcases ho with rfl | rfl <;> first | trivial | exact hm)
  simp only [aRun, aStep_seek_nat _ _ _ _ hq hql, aStep_apply_fit _ _ _ _ hfit] at h1 r1
  refine ⟨c1, _, h1, ?_⟩
  have hlen : (xorBytes data (ksOf c.v g q data.length)).length = data.length := by
    simp [xorBytes_length, ksOf, ks_length]
  obtain ⟨c2, _, h2, _⟩ := history_refines g p [.seek q, .apply (xorBytes data (ksOf c.v g q data.length))] c1 _ r1
    (by intro op ho; simp at ho; rcases ho with rfl | rfl <;> first | trivial | (show _ < _; rw [hlen]; exact hm))
  rw [hv1] at h2
  have hfit2 : q + (xorBytes data (ksOf c.v g q data.length)).length ≤ limitOf c.v := by rw [hlen]; exact hfit
  simp only [aRun, aStep_seek_nat _ _ _ _ hq hql, aStep_apply_fit _ _ _ _ hfit2, hlen] at h2
  rw [xorBytes_xorBytes _ _ (by simp [ksOf, ks_length])] at h2
  exact ⟨c2, h2⟩

/-- Non-vacuity: a concrete ChaCha20 instance and a 6-step history with a mid-block seek, a
    300-byte application, a backward seek, a position query and a seek type too small for the
    position; the concrete run succeeds with the abstract results. -/
example :
    let c := Cipher.new Mach.ref ⟨.djb, 10⟩ (List.replicate 32 1) (List.replicate 8 2)
    ∃ c', cRun .debug c [.seek 5, .apply (List.replicate 300 0), .seek 3, .pos .u8, .seek (-1), .pos .u64]
      = .ok (c', (aRun (limitOf ⟨.djb, 10⟩) (ksOf ⟨.djb, 10⟩ c.buf.state) 0
          [.seek 5, .apply (List.replicate 300 0), .seek 3, .pos .u8, .seek (-1), .pos .u64]).2) :=
  history_from_new .debug ⟨.djb, 10⟩ _ _ rfl _ (by
    intro op ho
    simp only [List.mem_cons, List.mem_nil_iff, or_false] at ho
    rcases ho with rfl | rfl | rfl | rfl | rfl | rfl <;>
      first | trivial | (show (List.replicate 300 (0 : BitVec 8)).length < 2 ^ 64
                         rw [List.length_replicate]; omega))

/-- **Source tie, phase 3 (the glue of `rustcrypto_impl.rs`).**  `tools/inventory_kernels_glue.py` regenerates, on
    every run, Lean definitions from the Rust of `seek64`, `seek32`, the two `ChaChaAny::new`, `try_seek`,
    `try_current_pos`, `ChaChaAny::try_apply_keystream` (12-byte nonce: save / call / restore of nonce word 13;
    otherwise the plain call) and `Buffer::try_apply_keystream` as a whole (lazy fill with `wrapping_sub`, the
    overflow check and the early `Err`, `self.fresh &= blocks_needed == 0`, the drain of the buffered bytes, the loops
    over `chunks_exact_mut(BUFSZ)` and `chunks_mut(BLOCK)` as `forChunksExactMut` / `forChunksMut` of the generated
    bodies, `have = BLOCK - dd.len()`, `self.have = have as i8`), with checked arithmetic as guards in profile debug.
    The model of this property (`Buffer.seek64`, `Buffer.seek32`, `Cipher.new`, `Cipher.trySeek`,
    `Cipher.tryCurrentPos`, `Cipher.tryApply`, `Buffer.tryApply` with `wideLoop` / `tailLoop`) equals them on the
    encoding `CC.Src.bufEnc` of the struct fields (`i8` / `u64` as bit vectors), for every buffer within the range of
    the Rust types (resp. the struct invariant `-64 < have ≤ 64`, `out.len() = 64`), every request below `isize::MAX`
    bytes, both profiles; `SeekNum::try_into` / `from_block_byte` are named primitives (`CC.Src.tryIntoU64`,
    `CC.Src.fromBlockByteP`).  Panic messages are not compared.  Individual facts: `CC.Src.src_chacha_buffer_*`,
    `CC.Src.src_chacha_any_*` (lean/CC/ChaCha/Src.lean). -/
theorem source_glue_match :
    CC.Gen.Kernels.chacha_errors = [] ∧ CC.Src.BlockLens Mach.ref ∧
    (∀ (M : Mach) (p : Profile) (b : Buffer) (ct : BitVec 64),
      CC.Gen.Kernels.chacha_buffer_seek64 M p b.state.b b.state.c b.state.d b.out (BitVec.ofInt 8 b.hav)
          (BitVec.ofNat 64 b.len) b.fresh ct = .ok (CC.Src.bufEnc (Buffer.seek64 M b ct.toNat))) ∧
    (∀ (M : Mach) (p : Profile) (b : Buffer) (ct : BitVec 64),
      CC.Src.noMsg (CC.Gen.Kernels.chacha_buffer_seek32 M p b.state.b b.state.c b.state.d b.out (BitVec.ofInt 8 b.hav)
          (BitVec.ofNat 64 b.len) b.fresh ct)
        = CC.Src.noMsg (Buffer.seek32 M b ct.toNat >>= fun b' => .ok (CC.Src.bufEnc b'))) ∧
    (∀ (M : Mach) (dr : Nat) (key nonce : List (BitVec 8)), nonce.length = 8 →
      CC.Src.bufEnc (Cipher.new M ⟨.djb, dr⟩ key nonce).buf = CC.Gen.Kernels.chacha_any_new_8 M key nonce) ∧
    (∀ (M : Mach) (dr : Nat) (key nonce : List (BitVec 8)), nonce.length = 12 →
      CC.Src.bufEnc (Cipher.new M ⟨.ietf, dr⟩ key nonce).buf = CC.Gen.Kernels.chacha_any_new_12 M key nonce) ∧
    (∀ (M : Mach) (dr : BitVec 32) (key nonce : List (BitVec 8)),
      CC.Src.bufEnc (Cipher.new M ⟨.x, dr.toNat⟩ key nonce).buf = CC.Gen.Kernels.chacha_any_new_x M key nonce dr) ∧
    (∀ (M : Mach) (p : Profile) (c : Cipher) (pos : Int), c.v.layout = .ietf →
      CC.Src.noMsg (CC.Gen.Kernels.chacha_any_try_seek_12 M p c.buf.state.b c.buf.state.c c.buf.state.d c.buf.out
          (BitVec.ofInt 8 c.buf.hav) (BitVec.ofNat 64 c.buf.len) c.buf.fresh (CC.Src.tryIntoU64 pos))
        = CC.Src.noMsg (Cipher.trySeek M c pos >>= fun r => .ok (r.2, CC.Src.bufEnc r.1.buf))) ∧
    (∀ (M : Mach) (p : Profile) (c : Cipher) (pos : Int), c.v.layout ≠ .ietf →
      CC.Gen.Kernels.chacha_any_try_seek_8 M p c.buf.state.b c.buf.state.c c.buf.state.d c.buf.out
          (BitVec.ofInt 8 c.buf.hav) (BitVec.ofNat 64 c.buf.len) c.buf.fresh (CC.Src.tryIntoU64 pos)
        = (Cipher.trySeek M c pos >>= fun r => .ok (r.2, CC.Src.bufEnc r.1.buf)) ∧
      CC.Gen.Kernels.chacha_any_try_seek_24 M p c.buf.state.b c.buf.state.c c.buf.state.d c.buf.out
          (BitVec.ofInt 8 c.buf.hav) (BitVec.ofNat 64 c.buf.len) c.buf.fresh (CC.Src.tryIntoU64 pos)
        = (Cipher.trySeek M c pos >>= fun r => .ok (r.2, CC.Src.bufEnc r.1.buf))) ∧
    (∀ (p : Profile) (c : Cipher) (t : SeekTy), -128 < c.buf.hav → c.buf.hav ≤ 64 → c.buf.len < 2 ^ 64 →
      (c.v.layout = .ietf →
        CC.Src.noMsg (CC.Gen.Kernels.chacha_any_try_current_pos_12 (CC.Src.fromBlockByteP t) p c.buf.state.b c.buf.state.c
            c.buf.state.d c.buf.out (BitVec.ofInt 8 c.buf.hav) (BitVec.ofNat 64 c.buf.len) c.buf.fresh)
          = CC.Src.noMsg (Cipher.tryCurrentPos p c t)) ∧
      (c.v.layout ≠ .ietf →
        CC.Src.noMsg (CC.Gen.Kernels.chacha_any_try_current_pos_8 (CC.Src.fromBlockByteP t) p c.buf.state.b c.buf.state.c
            c.buf.state.d c.buf.out (BitVec.ofInt 8 c.buf.hav) (BitVec.ofNat 64 c.buf.len) c.buf.fresh)
          = CC.Src.noMsg (Cipher.tryCurrentPos p c t) ∧
        CC.Src.noMsg (CC.Gen.Kernels.chacha_any_try_current_pos_24 (CC.Src.fromBlockByteP t) p c.buf.state.b c.buf.state.c
            c.buf.state.d c.buf.out (BitVec.ofInt 8 c.buf.hav) (BitVec.ofNat 64 c.buf.len) c.buf.fresh)
          = CC.Src.noMsg (Cipher.tryCurrentPos p c t))) ∧
    (∀ (M : Mach), CC.Src.BlockLens M → ∀ (p : Profile) (dr : BitVec 32) (b : Buffer) (data : List (BitVec 8)),
      -64 < b.hav → b.hav ≤ 64 → b.len < 2 ^ 64 → b.out.length = 64 → data.length < 2 ^ 63 →
      CC.Gen.Kernels.chacha_buffer_try_apply_keystream M p b.state.b b.state.c b.state.d b.out (BitVec.ofInt 8 b.hav)
          (BitVec.ofNat 64 b.len) b.fresh data dr
        = (Buffer.tryApply M p dr.toNat b data >>= fun r => .ok (CC.Src.applyEnc data r))) ∧
    (∀ (M : Mach), CC.Src.BlockLens M → ∀ (p : Profile) (c : Cipher) (dr : BitVec 32) (data : List (BitVec 8)),
      c.v.drounds = dr.toNat → -64 < c.buf.hav → c.buf.hav ≤ 64 → c.buf.len < 2 ^ 64 → c.buf.out.length = 64 →
      data.length < 2 ^ 63 →
      (c.v.layout = .ietf →
        CC.Gen.Kernels.chacha_any_try_apply_keystream_12 M p c.buf.state.b c.buf.state.c c.buf.state.d c.buf.out
            (BitVec.ofInt 8 c.buf.hav) (BitVec.ofNat 64 c.buf.len) c.buf.fresh data dr
          = (Cipher.tryApply M p c data >>= fun r => .ok (CC.Src.applyEnc data (r.1.buf, r.2)))) ∧
      (c.v.layout ≠ .ietf →
        CC.Gen.Kernels.chacha_any_try_apply_keystream_8 M p c.buf.state.b c.buf.state.c c.buf.state.d c.buf.out
            (BitVec.ofInt 8 c.buf.hav) (BitVec.ofNat 64 c.buf.len) c.buf.fresh data dr
          = (Cipher.tryApply M p c data >>= fun r => .ok (CC.Src.applyEnc data (r.1.buf, r.2))) ∧
        CC.Gen.Kernels.chacha_any_try_apply_keystream_24 M p c.buf.state.b c.buf.state.c c.buf.state.d c.buf.out
            (BitVec.ofInt 8 c.buf.hav) (BitVec.ofNat 64 c.buf.len) c.buf.fresh data dr
          = (Cipher.tryApply M p c data >>= fun r => .ok (CC.Src.applyEnc data (r.1.buf, r.2))))) ∧
    -- the trait impls (`NewCipher::new`, `StreamCipher::try_apply_keystream`) forward to the inherent functions
    (CC.Gen.Kernels.chacha_newcipher_new_8 = CC.Gen.Kernels.chacha_any_new_8 ∧
     CC.Gen.Kernels.chacha_newcipher_new_12 = CC.Gen.Kernels.chacha_any_new_12 ∧
     CC.Gen.Kernels.chacha_newcipher_new_x = CC.Gen.Kernels.chacha_any_new_x) ∧
    (∀ (M : Mach) (p : Profile) (b c d : BitVec 128) (out : List (BitVec 8)) (hv : BitVec 8) (len : BitVec 64)
        (fresh : Bool) (data : List (BitVec 8)) (dr : BitVec 32),
      CC.Src.noMsg (CC.Gen.Kernels.chacha_streamcipher_try_apply_keystream_12 M p b c d out hv len fresh data dr)
        = CC.Src.noMsg (CC.Gen.Kernels.chacha_any_try_apply_keystream_12 M p b c d out hv len fresh data dr
            >>= fun r => .ok r) ∧
      CC.Src.noMsg (CC.Gen.Kernels.chacha_streamcipher_try_apply_keystream_8 M p b c d out hv len fresh data dr)
        = CC.Src.noMsg (CC.Gen.Kernels.chacha_any_try_apply_keystream_8 M p b c d out hv len fresh data dr
            >>= fun r => .ok r) ∧
      CC.Src.noMsg (CC.Gen.Kernels.chacha_streamcipher_try_apply_keystream_24 M p b c d out hv len fresh data dr)
        = CC.Src.noMsg (CC.Gen.Kernels.chacha_any_try_apply_keystream_24 M p b c d out hv len fresh data dr
            >>= fun r => .ok r)) ∧
    -- the struct declarations (`Clone` derived: field-wise copy) and the trait impls with the functions they define
    CC.Gen.Kernels.chacha_structs =
      [("Buffer", "struct", ["state", "out", "have", "len", "fresh"], ["Clone"], []),
       ("ChaChaAny", "struct", ["state", "_nonce_size", "_rounds", "_is_x"], ["Clone"], []),
       ("X", "struct", [], ["Default"], []), ("O", "struct", [], ["Default"], []),
       ("ChaCha", "struct", ["b", "c", "d"], ["Clone", "Eq", "PartialEq"], [])] ∧
    CC.Gen.Kernels.chacha_trait_impls =
      [("ChaChaAny", "NewCipher", ["new"]), ("ChaChaAny", "NewCipher", ["new"]),
       ("ChaChaAny", "StreamCipherSeek", ["try_current_pos", "try_seek"]),
       ("ChaChaAny", "StreamCipher", ["try_apply_keystream"])] :=
  ⟨CC.Src.src_chacha_clean, CC.Src.blockLens_ref, CC.Src.src_chacha_buffer_seek64, CC.Src.src_chacha_buffer_seek32,
   fun M dr key nonce h => CC.Src.src_chacha_any_new_8 M dr key nonce h,
   fun M dr key nonce h => CC.Src.src_chacha_any_new_12 M dr key nonce h,
   CC.Src.src_chacha_any_new_x,
   fun M p c pos hl => CC.Src.src_chacha_any_try_seek_12 M p c hl pos,
   fun M p c pos hl => ⟨CC.Src.src_chacha_any_try_seek_8 M p c hl pos, CC.Src.src_chacha_any_try_seek_24 M p c hl pos⟩,
   fun p c t h1 h2 h3 => ⟨fun hl => CC.Src.src_chacha_any_try_current_pos_12 p c hl h1 h2 h3 t,
     fun hl => ⟨CC.Src.src_chacha_any_try_current_pos_8 p c hl h1 h2 h3 t,
                CC.Src.src_chacha_any_try_current_pos_24 p c hl h1 h2 h3 t⟩⟩,
   fun M hM p dr b data h1 h2 h3 h4 hd => CC.Src.src_chacha_buffer_try_apply_keystream M hM p dr b h1 h2 h3 h4 data hd,
   fun M hM p c dr data hdr h1 h2 h3 h4 hd =>
     ⟨fun hl => CC.Src.src_chacha_any_try_apply_keystream_12 M hM p c hl dr hdr h1 h2 h3 h4 data hd,
      fun hl => ⟨CC.Src.src_chacha_any_try_apply_keystream_8 M hM p c hl dr hdr h1 h2 h3 h4 data hd,
                 CC.Src.src_chacha_any_try_apply_keystream_24 M hM p c hl dr hdr h1 h2 h3 h4 data hd⟩⟩,
   ⟨CC.Src.src_chacha_newcipher_new_8, CC.Src.src_chacha_newcipher_new_12, CC.Src.src_chacha_newcipher_new_x⟩,
   fun M p b c d out hv len fresh data dr =>
     ⟨CC.Src.src_chacha_streamcipher_try_apply_keystream_12 M p b c d out hv len fresh data dr,
      CC.Src.src_chacha_streamcipher_try_apply_keystream_8 M p b c d out hv len fresh data dr,
      CC.Src.src_chacha_streamcipher_try_apply_keystream_24 M p b c d out hv len fresh data dr⟩,
   CC.Src.src_chacha_structs, CC.Src.src_chacha_trait_impls⟩

/-- **Translator tie for the integer-type conversions of the `cipher` crate** (third-party code at the version pinned in
    `/repo/Cargo.lock`; `lean/CC/Gen/SeekNumSrc.lean` is regenerated by `tools/inventory_seeknum.py` on every run; obligations
    `CC.Src.src_seeknum_*` in `lean/CC/ChaCha/SrcSeekNum.lean`).  The list of types `impl_seek_num!` is invoked for is the list of
    constructors of `SeekTy`; for every one of them the translated `from_block_byte` — at every `u128` block number, every byte
    offset `< 64` (what the struct invariant `-64 < have ≤ 64` lets `try_current_pos` pass) and `bs = BLOCK as u8 = 64`, in both
    profiles — does not panic and IS the named primitive `fromBlockByteP t` the glue obligations (`source_glue_match`) take as a
    parameter; the translated `to_block_byte` (not called by the glue) never panics for a non-zero block size and is
    `(pos / 64, pos % 64)`; `pos.try_into()` to `u64` as `source_glue_match` writes it is the reading table's `tryConv` (core's
    `TryFrom`: trusted); the `&mut C` impl of `StreamCipher` forwards each method unchanged. -/
theorem source_seeknum_match :
    CC.Gen.SeekNumSrc.seeknum_errors = [] ∧
    CC.Gen.SeekNumSrc.seeknum_types = CC.Src.seekTyAll.map CC.Src.seekTyName ∧
    (∀ t : SeekTy, t ∈ CC.Src.seekTyAll) ∧
    CC.Gen.SeekNumSrc.seeknum_methods = ["from_block_byte", "to_block_byte"] ∧
    (∀ (t : SeekTy) (p : Profile) (block : BitVec 128) (byte : BitVec 8), byte.toNat < 64 →
      CC.Src.genFromBlockByte t p (block.toNat : Int) (byte.toNat : Int) 64 =
        .ok ((CC.Src.fromBlockByteP t block byte 64#8).map Int.ofNat)) ∧
    (∀ (t : SeekTy) (block byte pos : Nat), byte < 64 → fromBlockByte t block byte = some pos → pos ≤ t.max) ∧
    (∀ (t tgt : SeekTy) (p : Profile) (pos : Nat),
      CC.Src.genToBlockByte t p tgt.min (tgt.max : Nat) (pos : Int) 64 =
        .ok ((CC.Src.toBlockByte tgt pos).map CC.Src.natPair)) ∧
    (∀ (t : SeekTy) (p : Profile) (tlo thi self bs : Int), 0 < bs → bs ≤ 255 →
      ∃ r, CC.Src.genToBlockByte t p tlo thi self bs = .ok r) ∧
    (∀ (t : SeekTy) (block byte pos : Nat), byte < 64 → fromBlockByte t block byte = some pos →
      CC.Src.toBlockByte .u128 pos = some (block, byte)) ∧
    (∀ pos : Int, CC.Src.tryIntoU64 pos =
      (CC.Gen.SeekNumSrc.tryConv 0 18446744073709551615 pos).map (fun x => BitVec.ofNat 64 x.toNat)) ∧
    (CC.Gen.SeekNumSrc.refmut_bound = "C : StreamCipher" ∧
     CC.Gen.SeekNumSrc.refmut_methods =
       [("apply_keystream", "apply_keystream", ["self", "data"], ["self", "data"]),
        ("try_apply_keystream", "try_apply_keystream", ["self", "data"], ["self", "data"])]) ∧
    (∀ (S D R : Type) (f : S → D → R), CC.Gen.SeekNumSrc.refmut_apply_keystream f = f ∧
      CC.Gen.SeekNumSrc.refmut_try_apply_keystream f = f) :=
  ⟨CC.Src.src_seeknum_clean, CC.Src.src_seeknum_types, CC.Src.seekTyAll_complete, CC.Src.src_seeknum_methods,
   fun t p block byte hb => CC.Src.src_seeknum_from_block_byte t p block byte hb,
   fun t block byte pos hb h => CC.Src.src_seeknum_from_block_byte_in_range t block byte pos hb h,
   CC.Src.src_seeknum_to_block_byte,
   fun t p tlo thi self bs h1 h2 => CC.Src.src_seeknum_to_block_byte_no_panic t p tlo thi self bs h1 h2,
   fun t block byte pos hb h => CC.Src.toBlockByte_fromBlockByte t block byte pos hb h,
   CC.Src.src_seeknum_try_into_u64, CC.Src.src_seeknum_refmut_methods,
   fun _ _ _ f => ⟨CC.Src.src_seeknum_refmut_apply_keystream f, CC.Src.src_seeknum_refmut_try_apply_keystream f⟩⟩

end CC.Thm.C02
