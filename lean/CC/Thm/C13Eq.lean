/-
  C13 (equality part; imported by CC/Thm/C13.lean) — `==` on the vector and storage types of ppv-lite86 IS equality of
  the storage bits, on every backend; and the comparison code is the one regenerated from the current source.
-/
import CC.Simd.SrcEq
namespace CC.Thm.C13
open CC CC.Simd

/-- **`==` is equality.**  For every backend `b` and every vector type of `trait Machine` / storage type `t` whose Rust type
    has a `PartialEq` (`veq b t = some f`; `veq_defined` lists them), the comparison the Rust performs — the intrinsic
    sequence `eq128_s2` for `u32x4_sse2` / `u64x2_sse2`, the lane-wise `&&` of `x2<W, G>`, the view comparisons of
    `vec128/256/512_storage`, the derived word-wise comparisons of generic.rs — returns `true` exactly when the two values
    have the same storage bits: no lane is ignored, no two differences cancel. -/
theorem eq_is_equality (b : Backend) (t : EqTy) (f : BitVec t.bits → BitVec t.bits → Bool) (h : veq b t = some f)
    (x y : BitVec t.bits) : f x y = true ↔ x = y :=
  veq_is_equality b t f h x y

/-- the unused SSE4.1 variant `eq128_s4` (`pcmpeqq` + `pshufd 0b11000110`) is equality as well -/
theorem eq128_s4_is_equality (x y : BitVec 128) : Impl.X86.eq128_s4 x y = true ↔ x = y := eq128_s4_iff x y

/-- **Source tie, equality.**  `eq128_s2`, `eq128_s4`, the `PartialEq` impls of `u32x4_sse2`, `u64x2_sse2`, `x2<W, G>`,
    `vec128/256/512_storage` (x86_64/sse2.rs, mod.rs) and the hand-written / derived ones of generic.rs, regenerated from
    the current source by tools/inventory_simdeq.py, equal the model `CC.Simd.veq` is built from; and the table `veq` itself
    is the source's: for every backend, `veq b τ` is the regenerated `==` of the Rust type that backend's `impl Machine`
    gives `type τ`, `none` exactly where that type has no `PartialEq` (`CC.Src.EqTie`, lean/CC/Simd/SrcEq.lean). -/
theorem source_eq_match : CC.Src.EqTie ∧ CC.Gen.SimdEqSrc.simdeq_errors = [] := ⟨CC.Src.src_eq, CC.Src.src_eq.clean⟩

/-! ### non-vacuity -/
example : (veq .sse2 (.vec .u64x4)).isSome = true := by decide
/-- two vectors whose 32-bit lanes have the same sum and the same xor (lanes 0 and 1 exchanged) are NOT equal -/
example : Impl.X86.eq128_s2 0x00000004000000030000000200000001#128 0x00000004000000030000000100000002#128 = false := by
  decide +kernel
example : Impl.X86.eq128_s2 0x00000004000000030000000200000001#128 0x00000004000000030000000200000001#128 = true := by
  decide +kernel

end CC.Thm.C13
