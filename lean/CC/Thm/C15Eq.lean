/-
  C15 (equality part; imported by CC/Thm/C15.lean) — `ChaCha == ChaCha` (the derived `PartialEq` of the stream state)
  is equality of the three state rows.

  ASSUMED about `#[derive(PartialEq)]`: on a struct with named fields it expands to the `&&`, in declaration order, of
  `==` on the fields (the documented behaviour of the built-in derive; rustc's expansion itself is not read).  What IS
  read from the source on every run: that `ChaCha` and `State<V>` carry the derive, their field lists and field types
  (`CC.Gen.SimdEqSrc.guts_ChaCha_eq`, `guts_State_eq`, `derive_rows`), and the `vec128_storage` comparison the fields use.
-/
import CC.ChaCha.Eq
import CC.Simd.SrcEq
namespace CC.Thm.C15
open CC CC.Simd CC.ChaCha

/-- `ChaCha == ChaCha` holds exactly when all three rows (both key rows and the counter / nonce row) agree: on every
    backend, the derived comparison is equality of the state — in particular it is finer than `stream64_eq` /
    `stream32_eq` (it sees the counter), and no two differences in different rows or lanes cancel. -/
theorem state_eq_is_equality (b : Backend) (x y : Guts) : Guts.eqOn b x y = true ↔ x = y := by
  have hs : ∀ u v : BitVec 128, storageEq b u v = true ↔ u = v := by
    intro u v
    cases b
    · exact generic_storage128_iff u v
    all_goals exact x86_storage128_iff u v
  cases x; cases y
  simp only [Guts.eqOn, Guts.derivedEq, Bool.and_eq_true, hs, Guts.mk.injEq, and_assoc]

/-- the working state `State<V>` (four 128-bit rows), compared with an element comparison that is equality -/
theorem rows_eq_is_equality (veq : BitVec 128 → BitVec 128 → Bool) (hv : ∀ u v, veq u v = true ↔ u = v) (x y : RS) :
    RS.derivedEq veq x y = true ↔ x = y := by
  cases x; cases y
  simp only [RS.derivedEq, Bool.and_eq_true, hv, RS.mk.injEq, and_assoc]

/-- **Source tie, equality**: the model's derived comparisons are the regenerated ones (field lists and order of
    `guts::ChaCha` / `guts::State`), over the storage comparison tied in `CC.Thm.C13.source_eq_match`. -/
theorem source_eq_match :
    (∀ veq (x y : Guts), Guts.derivedEq veq x y = CC.Gen.SimdEqSrc.guts_ChaCha_eq veq (x.b, x.c, x.d) (y.b, y.c, y.d)) ∧
    (∀ veq (x y : RS), RS.derivedEq veq x y = CC.Gen.SimdEqSrc.guts_State_eq veq (x.a, x.b, x.c, x.d) (y.a, y.b, y.c, y.d)) ∧
    CC.Src.EqTie :=
  ⟨fun _ _ _ => rfl, fun _ _ _ => rfl, CC.Src.src_eq⟩

/-- non-vacuity: states that differ only in the counter word are `stream64_eq` but not `==` -/
example : Guts.eqOn .sse2 { b := 1, c := 2, d := 5 } { b := 1, c := 2, d := 6 } = false ∧
          Guts.eqOn .generic { b := 1, c := 2, d := 5 } { b := 1, c := 2, d := 5 } = true := by decide

end CC.Thm.C15
