/-
  C11 — ChaCha keystream exhaustion is an atomic error, never a silent counter wrap.
  Corollaries of the C02 refinement (CC/ChaCha/Refine*.lean), stated on their own because the
  property names them.
-/
import CC.ChaCha.Refine7
import CC.Thm.C02
namespace CC.Thm.C11
open CC CC.Simd CC.ChaCha CC.ChaCha.Spec

/-- The IETF variant offers exactly 2^38 keystream bytes, the 64-bit-counter variants 2^70. -/
theorem limits (v : Variant) : limitOf v = if v.layout = .ietf then 2 ^ 38 else 2 ^ 70 := by
  rw [limitOf_val]; unfold Variant.limit; cases v.layout <;> rfl

/-- **Atomic exhaustion.** From any buffered state at any position: a request that would go past
    the end returns `Err` (`none`: the data is not touched), the instance is still at the same
    position (so every later in-range operation behaves as if the failed call had not happened),
    and a request ending at or before the limit — in particular exactly at it — succeeds.
    Neither case panics, in either build profile. -/
theorem exhaustion_atomic (g : Guts) (p : Profile) (c : Cipher) (pos : Nat) (data : List (BitVec 8))
    (h : RC g c pos) (hm : data.length < 2 ^ 64) :
    (limitOf c.v < pos + data.length →
        ∃ c', Cipher.tryApply Mach.ref p c data = .ok (c', none) ∧ c'.v = c.v ∧ RC g c' pos) ∧
    (pos + data.length ≤ limitOf c.v →
        ∃ c', Cipher.tryApply Mach.ref p c data = .ok (c', some (xorBytes data (ksOf c.v g pos data.length)))
          ∧ c'.v = c.v ∧ RC g c' (pos + data.length)) := by
  obtain ⟨c', hv, hyes, hno⟩ := Cipher_apply_step g p c pos data h hm
  exact ⟨fun hgt => ⟨c', (hno (by omega)).1, hv, (hno (by omega)).2⟩,
         fun hle => ⟨c', (hyes hle).1, hv, (hyes hle).2⟩⟩

/-- After a failed request the cipher is still usable: a following in-range request yields exactly
    the keystream of the unchanged position. -/
theorem usable_after_error (g : Guts) (p : Profile) (c : Cipher) (pos : Nat) (big small : List (BitVec 8))
    (h : RC g c pos) (hb : big.length < 2 ^ 64) (hs : small.length < 2 ^ 64)
    (hpast : limitOf c.v < pos + big.length) (hfit : pos + small.length ≤ limitOf c.v) :
    ∃ c', cRun p c [.apply big, .apply small] =
      .ok (c', [.applyErr, .bytes (xorBytes small (ksOf c.v g pos small.length))]) := by
  obtain ⟨c', _, he, _⟩ := history_refines g p [.apply big, .apply small] c pos h
    (by intro op ho; simp at ho; rcases ho with rfl | rfl <;> assumption)
  have h1 : ¬ pos + big.length ≤ limitOf c.v := by omega
  simp only [aRun, aStep, h1, hfit, if_false, if_true] at he
  exact ⟨c', he⟩

/-- **Seeks are total.** A seek with any value of any supported integer type either succeeds — iff
    the value is a position `0 ≤ v ≤ limit` representable in 64 bits, in particular exactly the
    limit — or returns `Err` leaving the instance unchanged; it never panics. -/
theorem seek_total (g : Guts) (c : Cipher) (pos : Nat) (v : Int) (h : RC g c pos) :
    (0 ≤ v ∧ v.toNat < 2 ^ 64 ∧ v.toNat ≤ limitOf c.v →
        ∃ c', c'.v = c.v ∧ Cipher.trySeek Mach.ref c v = .ok (c', true) ∧ RC g c' v.toNat) ∧
    (¬ (0 ≤ v ∧ v.toNat < 2 ^ 64 ∧ v.toNat ≤ limitOf c.v) →
        Cipher.trySeek Mach.ref c v = .ok (c, false)) :=
  Cipher_seek_step g c pos v h

/-- The 64-bit-counter variants never report exhaustion for positions expressible in 64 bits. -/
theorem no_exhaustion_below_2_64 (g : Guts) (p : Profile) (c : Cipher) (pos : Nat) (data : List (BitVec 8))
    (h : RC g c pos) (hl : c.v.layout ≠ .ietf) (hm : data.length < 2 ^ 64)
    (hfit : pos + data.length ≤ 2 ^ 64) :
    ∃ c' out, Cipher.tryApply Mach.ref p c data = .ok (c', some out) := by
  have hlim := limits c.v
  simp only [hl, if_false] at hlim
  obtain ⟨c', _, hyes, _⟩ := Cipher_apply_step g p c pos data h hm
  exact ⟨c', _, (hyes (by rw [hlim]; omega)).1⟩

/-- **No keystream reuse.** Distinct block indices below the block limit denote distinct block
    function inputs: the counter words never wrap onto an earlier value… -/
theorem no_reuse (v : Variant) (g : Guts) (i j : Nat) (hi : i < (layOf v g).T) (hj : j < (layOf v g).T)
    (h : (layOf v g).st i = (layOf v g).st j) : i = j := by
  unfold layOf at *
  by_cases hv : isIetf v
  · simp only [hv, if_true] at *
    have hT : (Lay32 g).T = 2 ^ 32 := rfl
    rw [hT] at hi hj
    have h2 : (stateAt32 g (BitVec.ofNat 32 i)).d = (stateAt32 g (BitVec.ofNat 32 j)).d := congrArg Guts.d h
    simp only [stateAt32] at h2
    have h3 := (pack32_inj.mp h2).1
    have := congrArg BitVec.toNat h3
    simp only [BitVec.toNat_ofNat] at this
    omega
  · simp only [hv, Bool.false_eq_true, if_false] at *
    have hT : (Lay64 g).T = 2 ^ 64 := rfl
    rw [hT] at hi hj
    have h2 : (stateAt64 g (BitVec.ofNat 64 i)).d = (stateAt64 g (BitVec.ofNat 64 j)).d := congrArg Guts.d h
    simp only [stateAt64] at h2
    have h3 : lane64 (pack64 (BitVec.ofNat 64 i) (lane64 g.d 1)) 0 = lane64 (pack64 (BitVec.ofNat 64 j) (lane64 g.d 1)) 0 := by
      rw [h2]
    have hl : ∀ a b : BitVec 64, lane64 (pack64 a b) 0 = a := by
      intro a b; unfold lane64 pack64; bv_decide
    rw [hl, hl] at h3
    have := congrArg BitVec.toNat h3
    simp only [BitVec.toNat_ofNat] at this
    omega

/-- … and the non-counter words (key, nonce / stream id) are the same for every block. -/
theorem nonce_words_fixed (v : Variant) (g : Guts) (i : Nat) :
    ((layOf v g).st i).b = g.b ∧ ((layOf v g).st i).c = g.c ∧
    lane32 ((layOf v g).st i).d 2 = lane32 g.d 2 ∧ lane32 ((layOf v g).st i).d 3 = lane32 g.d 3 ∧
    (isIetf v = true → lane32 ((layOf v g).st i).d 1 = lane32 g.d 1) := by
  unfold layOf
  by_cases hv : isIetf v
  · simp only [hv, if_true]
    show (stateAt32 g _).b = _ ∧ (stateAt32 g _).c = _ ∧ lane32 (stateAt32 g _).d 2 = _ ∧
      lane32 (stateAt32 g _).d 3 = _ ∧ (_ → lane32 (stateAt32 g _).d 1 = _)
    simp only [stateAt32, lane32_pack32_1, lane32_pack32_2, lane32_pack32_3, and_self, implies_true]
  · simp only [hv, Bool.false_eq_true, if_false]
    show (stateAt64 g _).b = _ ∧ (stateAt64 g _).c = _ ∧ lane32 (stateAt64 g _).d 2 = _ ∧
      lane32 (stateAt64 g _).d 3 = _ ∧ (_ → lane32 (stateAt64 g _).d 1 = _)
    refine ⟨rfl, rfl, ?_, ?_, fun h => by cases h⟩ <;>
      (simp only [stateAt64]; unfold lane32 pack64 lane64; bv_decide)

/-- Non-vacuity: an IETF instance seeked to 64 bytes before the end accepts 64 bytes and refuses 65. -/
example : limitOf ⟨.ietf, 10⟩ = 2 ^ 38 ∧ (2 ^ 38 - 64) + 64 ≤ limitOf ⟨.ietf, 10⟩ ∧
    limitOf ⟨.ietf, 10⟩ < (2 ^ 38 - 64) + 65 := by
  rw [limits]; simp

/-- **Source tie of the glue this property lives in** (the overflow check `o && !self.fresh` with the early `Err`,
    `self.fresh &= blocks_needed == 0`, the `try_seek` guard, the IETF nonce-word restore on every path, `seek32`'s
    assertion): the model equals the definitions regenerated from `rustcrypto_impl.rs` on every run — re-export of
    `CC.Thm.C02.source_glue_match`. -/
theorem source_glue_match : type_of% @CC.Thm.C02.source_glue_match := CC.Thm.C02.source_glue_match

/-- the `SeekNum` conversions every seek / position query of C11 goes through are the crate's (see `CC.Thm.C02.source_seeknum_match`) -/
theorem source_seeknum_match : type_of% @CC.Thm.C02.source_seeknum_match := CC.Thm.C02.source_seeknum_match

end CC.Thm.C11
