/-
  C06 — JH-224/256/384/512 conform to the specification.
  Property theorems and non-vacuity examples only; helper lemmas live in CC/JH/Lemmas*.lean.
-/
import CC.JH.LemmasBitslice
import CC.JH.LemmasH0a
import CC.JH.LemmasH0b
import CC.JH.LemmasMsg
import CC.JH.LemmasRound
import CC.JH.LemmasGroup
import CC.JH.Src
import CC.JH.SrcCompressor
namespace CC.Thm.C06
open CC CC.Simd CC.JH CC.JH.Model CC.JH.Lemmas

/-! ## layer (a): bit-sliced leaves -/

/-- `ss` (reference machine) applies, at every bit position `j`, the S-box selected by bit `j` of
    the constant: to the element held MSB-first in `(x0,x2,x4,x6)` with `k`'s low half, and to the
    element in `(x1,x3,x5,x7)` with `k`'s high half. -/
theorem ss_is_sbox (y : X8) (k : BitVec 256) (j : Nat) (hj : j < 128) :
    nibAt (ss Mach.ref y k) 0 j = Spec.sbox ((lo128 k).getLsbD j) (nibAt y 0 j) ∧
    nibAt (ss Mach.ref y k) 1 j = Spec.sbox ((hi128 k).getLsbD j) (nibAt y 1 j) :=
  ss_ref_nib y k j hj

/-- `l` is the specification's `L` on the (even-words element, odd-words element) pair at every
    bit position. -/
theorem l_is_L (y : X8) (j : Nat) :
    (nibAt (l Mach.ref y) 0 j, nibAt (l Mach.ref y) 1 j) = Spec.L (nibAt y 0 j) (nibAt y 1 j) :=
  l_ref_nib y j

/-- `swap{K}` (K ∈ {1,2,4,8,16,32,64}) is the bit permutation `i ↦ i xor K`. -/
theorem swap_is_xor (K : Nat) (hK : K = 1 ∨ K = 2 ∨ K = 4 ∨ K = 8 ∨ K = 16 ∨ K = 32 ∨ K = 64)
    (v : BitVec 128) (i : Nat) (hi : i < 128) :
    (Mach.ref.swap128 K v).getLsbD i = v.getLsbD (i ^^^ K) :=
  swap128_ref_getLsbD K hK v i hi

/-! ## layer (c): initial values -/

/-- `consts::JH{224,256,384,512}_H0` are `F_8(H^{(-1)}, 0)` with `H^{(-1)}` = digest size. -/
theorem h0_conforms (n : Nat) (hn : n = 224 ∨ n = 256 ∨ n = 384 ∨ n = 512) :
    Spec.bytesToBits (h0Bytes n) = Spec.H0 n := by
  rcases hn with h | h | h | h <;> subst h
  · exact h0_224
  · exact h0_256
  · exact h0_384
  · exact h0_512

/-! ## layer (d): message level

  `HF8` (`CC/JH/LemmasMsg.lean`) is the statement of layer (b) — on the reference machine the
  bit-sliced compression function, as a map on byte strings read as bit strings, is `F_8`:

    def HF8 : Prop :=
      ∀ cv blk : List (BitVec 8), cv.length = 128 → blk.length = 64 →
        Spec.bytesToBits (f8 Mach.ref cv blk) = Spec.F8 (Spec.bytesToBits cv) (Spec.bytesToBits blk)
-/

/-
  Staging note.  `jh_conforms_partial` is the message-level theorem (d) under the hypothesis `HF8`;
  `f8_conforms` below discharges `HF8` (layer (b)), and `jh_conforms` is the full statement with no
  hypothesis left.
-/

/-- **C06 (partial).**  For every digest size, every message of fewer than 2^64 bits and both
    build profiles, `new; update(msg); finalize` of the model returns JH-`n`(msg) of the
    specification (and neither overflow check fires), provided the compression function is `F_8`. -/
theorem jh_conforms_partial (hF8 : HF8) (p : Profile) (n : Nat)
    (hn : n = 224 ∨ n = 256 ∨ n = 384 ∨ n = 512)
    (msg : List (BitVec 8)) (h : 8 * msg.length < 2 ^ 64) :
    digest Mach.ref p n msg = .ok (Spec.jh n msg) := by
  refine digest_conforms hF8 p n hn ?_ msg h
  rcases hn with h | h | h | h <;> subst h
  · rw [h0_image_224]; exact h0_224
  · rw [h0_image_256]; exact h0_256
  · rw [h0_image_384]; exact h0_384
  · rw [h0_image_512]; exact h0_512

/-! ## layer (b): round refinement and the compression function -/

/-- One iteration of the `unroll7!` body of `f8_impl` (S-boxes selected by `rc[r]`, `l`,
    `swap_{2^{r mod 7}}` on y.1, y.3, y.5, y.7) is round `r` of `E_8` (`R_8` with constant `C_r`)
    under the abstraction `absr r` (element `2i+p` at bit `rotl7^{r mod 7}(i) xor 7` of words
    `p, 2+p, 4+p, 6+p`), for each of the 42 rounds and every state. -/
theorem round_refines (r : Nat) (hr : r < 42) (y : X8) :
    absr (r + 1) (roundStep Mach.ref y (rc r) (r % 7)) = Spec.R8 r (absr r y) :=
  round_refine r hr y

/-- The repository's 42 bit-sliced round constants are the specification's `C_r`
    (`C_0`, `C_{r+1} = R_6(C_r, 0)`) placed through the same abstraction. -/
theorem constants_conform (r : Nat) (hr : r < 42) :
    Spec.cbits (Spec.roundConst r) = Spec.tab 256 (kbit r) :=
  cbits_roundConst r hr

/-- `Compressor::new(cv).input(blk).finalize()` on the reference machine is `F_8(cv, blk)`, for all
    128-byte chaining values and 64-byte blocks (bytes read as bit strings, MSB first). -/
theorem f8_conforms (cv blk : List (BitVec 8)) (hcv : cv.length = 128) (hblk : blk.length = 64) :
    Spec.bytesToBits (f8 Mach.ref cv blk) = Spec.F8 (Spec.bytesToBits cv) (Spec.bytesToBits blk) :=
  hF8 cv blk hcv hblk

/-- **C06.**  For every digest size `n ∈ {224, 256, 384, 512}`, every message of fewer than 2^64
    bits and both build profiles, the model of `new(); update(msg); finalize()` returns the
    specification's JH-`n`(msg) (and no overflow check fires). -/
theorem jh_conforms (p : Profile) (n : Nat) (hn : n = 224 ∨ n = 256 ∨ n = 384 ∨ n = 512)
    (msg : List (BitVec 8)) (h : 8 * msg.length < 2 ^ 64) :
    digest Mach.ref p n msg = .ok (Spec.jh n msg) :=
  jh_conforms_partial hF8 p n hn msg h

/-! ## JH part of C17: the length counter -/

/-- `update` adds the input length to `datalen` exactly, in both profiles, while the sum fits
    `usize`; the debug profile's check `datalen += len` does not fire. -/
theorem jh_datalen_exact (M : Mach) (p : Profile) (h : Hasher) (data : List (BitVec 8))
    (hfit : h.datalen + data.length < 2 ^ 64) :
    ∃ h', h.update M p data = .ok h' ∧ h'.datalen = h.datalen + data.length ∧ h'.n = h.n := by
  have hne : ¬ (p = .debug ∧ h.datalen + data.length ≥ 2 ^ 64) := by intro hh; omega
  simp only [Hasher.update, if_neg hne]
  exact ⟨_, rfl, Nat.mod_eq_of_lt hfit, rfl⟩

/-- beyond `usize` the debug build panics at `self.datalen += data.len()` -/
theorem jh_datalen_overflow_debug (M : Mach) (h : Hasher) (data : List (BitVec 8))
    (hover : h.datalen + data.length ≥ 2 ^ 64) :
    (h.update M .debug data).isPanic = true := by
  rw [Hasher.update, if_pos ⟨rfl, hover⟩]; rfl

/-- `datalen as u64 * 8`: below 2^61 bytes no check fires (and `pad_with(..).unwrap()` cannot fail
    since the buffer position is below the block size); from 2^61 bytes on the debug build panics
    before touching the state. -/
theorem jh_bitlen_check (M : Mach) (h : Hasher) (hwf : h.buffer.pos < 64) :
    (h.datalen * 8 < 2 ^ 64 → ∀ p, (h.finalizeDirty M p).isOk = true) ∧
    (h.datalen * 8 ≥ 2 ^ 64 → (h.finalizeDirty M .debug).isPanic = true) := by
  constructor
  · intro hlt p
    have hne : ¬ (p = .debug ∧ h.datalen * 8 ≥ 2 ^ 64) := by intro hh; omega
    have hpos : ¬ (h.buffer.pos ≥ 64) := by omega
    simp only [Hasher.finalizeDirty, if_neg hne, CC.Buffer.padWithIso7816, if_neg hpos]
    split <;> rfl
  · intro hge
    simp only [Hasher.finalizeDirty]
    rw [if_pos ⟨trivial, hge⟩]
    rfl

/-! ## non-vacuity, specification validation, and independent evaluation checks of `HF8` -/

/-- Spec validation: JH-256 of the empty message (official KAT, ShortMsgKAT_256 Len = 0). -/
example : ofBeBytes 256 (Spec.jh 256 []) =
    0x46e64619c18bb0a92a5e87185a47eef83ca747b8fcc8e1412921357e326df434#256 := by
  set_option maxRecDepth 100000 in decide +kernel

/-- The model produces the same vector (hypotheses of `jh_conforms_partial` are satisfiable:
    `n = 256`, `msg = []`, and the conclusion holds there). -/
example : (match digest Mach.ref .debug 256 [] with
    | .ok d => ofBeBytes 256 d
    | _ => 0) = 0x46e64619c18bb0a92a5e87185a47eef83ca747b8fcc8e1412921357e326df434#256 := by
  set_option maxRecDepth 100000 in decide +kernel

/-- `HF8` evaluated in the kernel on concrete (chaining value, block) pairs (independent of the
    proof `f8_conforms`; shows Spec and Model are both executable and agree). -/
example : Spec.bytesToBits (f8 Mach.ref (patBytes 1 128) (patBytes 2 64)) =
    Spec.F8 (Spec.bytesToBits (patBytes 1 128)) (Spec.bytesToBits (patBytes 2 64)) := by
  set_option maxRecDepth 100000 in decide +kernel

example : Spec.bytesToBits (f8 Mach.ref (List.replicate 128 0#8) (List.replicate 64 0#8)) =
    Spec.F8 (Spec.bytesToBits (List.replicate 128 0#8)) (Spec.bytesToBits (List.replicate 64 0#8)) := by
  set_option maxRecDepth 100000 in decide +kernel

example : Spec.bytesToBits (f8 Mach.ref (List.replicate 128 0xff#8) (patBytes 7 64)) =
    Spec.F8 (Spec.bytesToBits (List.replicate 128 0xff#8)) (Spec.bytesToBits (patBytes 7 64)) := by
  set_option maxRecDepth 100000 in decide +kernel

/-- **Source tie.**  `ss`, `l`, `X8::zip`, `X8::unzip` of hashes/jh/src/compressor.rs, as TRANSLATED from the Rust
    source on every run (tools/inventory_kernels.py → `CC.Gen.Kernels`; `ss` with `zip`/`unzip` inlined), equal
    the model's `ss`, `l`, `X8.zip`, `X8.unzip`; the `j ↦ swap 2^j` table of `f8_impl`, all 42 × 32 bytes of
    `E8_BITSLICE_ROUNDCONSTANT`, the four `JH*_H0` tables and their assignment to the digest sizes by
    `define_hasher!` equal the model's.  Individual facts: `CC.Src.src_jh_*` (lean/CC/JH/Src.lean). -/
theorem source_kernels_match :
    CC.Gen.Kernels.jh_errors = [] ∧
    (CC.JH.Model.X8.zip = fun M s => CC.Gen.Kernels.jh_zip M s.x0 s.x1 s.x2 s.x3 s.x4 s.x5 s.x6 s.x7) ∧
    (CC.JH.Model.X8.unzip = fun M m => CC.Src.x8Of (CC.Gen.Kernels.jh_unzip M m.1 m.2.1 m.2.2.1 m.2.2.2)) ∧
    (CC.JH.Model.ss = fun M s k => CC.Src.x8Of (CC.Gen.Kernels.jh_ss M s.x0 s.x1 s.x2 s.x3 s.x4 s.x5 s.x6 s.x7 k)) ∧
    (CC.JH.Model.l = fun M y => CC.Src.x8Of (CC.Gen.Kernels.jh_l M y.x0 y.x1 y.x2 y.x3 y.x4 y.x5 y.x6 y.x7)) ∧
    CC.Gen.Kernels.jh_swap_table = (List.range 7).map (fun j => (j, 2 ^ j)) ∧
    rcHex = CC.Gen.Kernels.jh_E8_BITSLICE_ROUNDCONSTANT ∧
    jh224H0Hex = CC.Gen.Kernels.jh_JH224_H0 ∧ jh256H0Hex = CC.Gen.Kernels.jh_JH256_H0 ∧
    jh384H0Hex = CC.Gen.Kernels.jh_JH384_H0 ∧ jh512H0Hex = CC.Gen.Kernels.jh_JH512_H0 ∧
    (CC.Gen.Kernels.jh_define_hasher =
      [("Jh224", "JH224_H0", 224 / 8), ("Jh256", "JH256_H0", 256 / 8),
       ("Jh384", "JH384_H0", 384 / 8), ("Jh512", "JH512_H0", 512 / 8)] ∧
     h0Bytes 224 = CC.toBeBytes CC.Gen.Kernels.jh_JH224_H0 128 ∧
     h0Bytes 256 = CC.toBeBytes CC.Gen.Kernels.jh_JH256_H0 128 ∧
     h0Bytes 384 = CC.toBeBytes CC.Gen.Kernels.jh_JH384_H0 128 ∧
     h0Bytes 512 = CC.toBeBytes CC.Gen.Kernels.jh_JH512_H0 128) :=
  ⟨CC.Src.src_jh_clean, CC.Src.src_jh_zip, CC.Src.src_jh_unzip, CC.Src.src_jh_ss, CC.Src.src_jh_l,
   CC.Src.src_jh_swap_table, CC.Src.src_jh_roundconstants, CC.Src.src_jh_H0_224, CC.Src.src_jh_H0_256,
   CC.Src.src_jh_H0_384, CC.Src.src_jh_H0_512, CC.Src.src_jh_define_hasher⟩

/-- **Source tie, phase 3 (the glue of lib.rs).**  `tools/inventory_kernels_glue.py` regenerates, on every run, Lean
    definitions from the Rust of `Default::default`, `Update::update` (`self.datalen += data.len()` — a checked `usize`
    addition —, `input_block` with the closure `|b| state.input(b)`), `FixedOutputDirty::finalize_into_dirty`
    (`len = datalen as u64 * 8` checked in debug, the branch on `buffer.position() == 0`: `len64_padding_be` resp.
    `pad_with::<Iso7816>().unwrap()` + the extra length block `last[56..] = len.to_be_bytes()`, the output slice
    `finalized[128 - $OutputBytes..]`) and `Reset::reset` (`*self = Self::default()`, unconditionally) for the four
    `define_hasher!` instantiations; the model (`Hasher.new`, `Hasher.update`, `Hasher.finalizeDirty`, `Hasher.reset`)
    equals them on the struct fields, for every state (with `datalen` a `usize`), every input, both profiles; the
    `BlockBuffer` methods are the named primitives of `CC.Buffer`, `Compressor::{new, input, finalize}` parameters
    instantiated with the model's functions.  `Clone` is derived (`jh_structs`).  Panic messages are not compared.
    Individual facts: `CC.Src.src_jh_{default,update,finalize_into_dirty,reset}_*`, `CC.Src.src_jh_structs`. -/
theorem source_glue_match :
    CC.Gen.Kernels.jh_errors = [] ∧
    CC.Src.jhEnc (Hasher.new 224) = CC.Gen.Kernels.jh_default_224 CC.Src.jhNew ∧
    (∀ (M : Mach) (p : Profile) (h : Hasher) (data : List (BitVec 8)),
      CC.Src.noMsg (CC.Gen.Kernels.jh_update_224 (Compressor.input M) p h.state h.buffer h.datalen data)
        = CC.Src.noMsg (h.update M p data >>= fun h' => .ok (CC.Src.jhEnc h'))) ∧
    (∀ (M : Mach) (p : Profile) (h : Hasher), h.n = 224 → h.datalen < 2 ^ 64 → ∀ (out : List (BitVec 8)),
      CC.Src.noMsg (CC.Gen.Kernels.jh_finalize_into_dirty_224 (Compressor.input M) Compressor.finalize p h.state h.buffer
          h.datalen out)
        = CC.Src.noMsg (h.finalizeDirty M p >>= fun r => .ok (r.1.state, r.1.buffer, r.1.datalen, r.2))) ∧
    (∀ (h : Hasher), h.n = 224 →
      CC.Src.jhEnc h.reset = CC.Gen.Kernels.jh_reset_224 CC.Src.jhNew h.state h.buffer h.datalen) ∧
    CC.Src.jhEnc (Hasher.new 256) = CC.Gen.Kernels.jh_default_256 CC.Src.jhNew ∧
    (∀ (M : Mach) (p : Profile) (h : Hasher) (data : List (BitVec 8)),
      CC.Src.noMsg (CC.Gen.Kernels.jh_update_256 (Compressor.input M) p h.state h.buffer h.datalen data)
        = CC.Src.noMsg (h.update M p data >>= fun h' => .ok (CC.Src.jhEnc h'))) ∧
    (∀ (M : Mach) (p : Profile) (h : Hasher), h.n = 256 → h.datalen < 2 ^ 64 → ∀ (out : List (BitVec 8)),
      CC.Src.noMsg (CC.Gen.Kernels.jh_finalize_into_dirty_256 (Compressor.input M) Compressor.finalize p h.state h.buffer
          h.datalen out)
        = CC.Src.noMsg (h.finalizeDirty M p >>= fun r => .ok (r.1.state, r.1.buffer, r.1.datalen, r.2))) ∧
    (∀ (h : Hasher), h.n = 256 →
      CC.Src.jhEnc h.reset = CC.Gen.Kernels.jh_reset_256 CC.Src.jhNew h.state h.buffer h.datalen) ∧
    CC.Src.jhEnc (Hasher.new 384) = CC.Gen.Kernels.jh_default_384 CC.Src.jhNew ∧
    (∀ (M : Mach) (p : Profile) (h : Hasher) (data : List (BitVec 8)),
      CC.Src.noMsg (CC.Gen.Kernels.jh_update_384 (Compressor.input M) p h.state h.buffer h.datalen data)
        = CC.Src.noMsg (h.update M p data >>= fun h' => .ok (CC.Src.jhEnc h'))) ∧
    (∀ (M : Mach) (p : Profile) (h : Hasher), h.n = 384 → h.datalen < 2 ^ 64 → ∀ (out : List (BitVec 8)),
      CC.Src.noMsg (CC.Gen.Kernels.jh_finalize_into_dirty_384 (Compressor.input M) Compressor.finalize p h.state h.buffer
          h.datalen out)
        = CC.Src.noMsg (h.finalizeDirty M p >>= fun r => .ok (r.1.state, r.1.buffer, r.1.datalen, r.2))) ∧
    (∀ (h : Hasher), h.n = 384 →
      CC.Src.jhEnc h.reset = CC.Gen.Kernels.jh_reset_384 CC.Src.jhNew h.state h.buffer h.datalen) ∧
    CC.Src.jhEnc (Hasher.new 512) = CC.Gen.Kernels.jh_default_512 CC.Src.jhNew ∧
    (∀ (M : Mach) (p : Profile) (h : Hasher) (data : List (BitVec 8)),
      CC.Src.noMsg (CC.Gen.Kernels.jh_update_512 (Compressor.input M) p h.state h.buffer h.datalen data)
        = CC.Src.noMsg (h.update M p data >>= fun h' => .ok (CC.Src.jhEnc h'))) ∧
    (∀ (M : Mach) (p : Profile) (h : Hasher), h.n = 512 → h.datalen < 2 ^ 64 → ∀ (out : List (BitVec 8)),
      CC.Src.noMsg (CC.Gen.Kernels.jh_finalize_into_dirty_512 (Compressor.input M) Compressor.finalize p h.state h.buffer
          h.datalen out)
        = CC.Src.noMsg (h.finalizeDirty M p >>= fun r => .ok (r.1.state, r.1.buffer, r.1.datalen, r.2))) ∧
    (∀ (h : Hasher), h.n = 512 →
      CC.Src.jhEnc h.reset = CC.Gen.Kernels.jh_reset_512 CC.Src.jhNew h.state h.buffer h.datalen) ∧
    CC.Gen.Kernels.jh_structs =
      [("Jh224", "struct", ["state", "buffer", "datalen"], ["Clone"], ["Default"]),
       ("Jh256", "struct", ["state", "buffer", "datalen"], ["Clone"], ["Default"]),
       ("Jh384", "struct", ["state", "buffer", "datalen"], ["Clone"], ["Default"]),
       ("Jh512", "struct", ["state", "buffer", "datalen"], ["Clone"], ["Default"]),
       ("Compressor", "struct", ["cv"], ["Clone", "Copy"], [])] :=
  ⟨CC.Src.src_jh_clean,
   CC.Src.src_jh_default_224, CC.Src.src_jh_update_224,
   fun M p h hn hd out => CC.Src.src_jh_finalize_into_dirty_224 M p h hn hd out, CC.Src.src_jh_reset_224,
   CC.Src.src_jh_default_256, CC.Src.src_jh_update_256,
   fun M p h hn hd out => CC.Src.src_jh_finalize_into_dirty_256 M p h hn hd out, CC.Src.src_jh_reset_256,
   CC.Src.src_jh_default_384, CC.Src.src_jh_update_384,
   fun M p h hn hd out => CC.Src.src_jh_finalize_into_dirty_384 M p h hn hd out, CC.Src.src_jh_reset_384,
   CC.Src.src_jh_default_512, CC.Src.src_jh_update_512,
   fun M p h hn hd out => CC.Src.src_jh_finalize_into_dirty_512 M p h hn hd out, CC.Src.src_jh_reset_512,
   CC.Src.src_jh_structs⟩

/-- **Source tie, round 6 (the compressor as a whole).**  `tools/inventory_hashc.py` regenerates, on every run, Lean
    definitions from the Rust of hashes/jh/src/compressor.rs: `f8_impl` AS A WHOLE (the `X8` tuple struct,
    `mach.unpack(state[i])`, the four `ptr::read_unaligned(data.offset(k))` loads = little-endian 16-byte loads at byte
    offset 16k, xored into y.0..y.3; the loop `for rc in E8_BITSLICE_ROUNDCONSTANT.chunks_exact(7)` with `unroll7!`: the
    union read `X2Bytes { bytes: rc[j] }.x2` = 32 bytes little-endian, `ss`, `l`, the `match j` that selects
    `swap1 … swap64` as a function value, `X8(y.0, f(y.1), y.2, f(y.3), …)`; the same four loads xored into y.4..y.7; the
    store back), the `dispatch!` wrapper `f8`, and `Compressor::{new, input, finalize}` (`transmute!` = little-endian
    16-byte groups).  The model's `f8impl` (hence `rounds`, `roundStep`, `swapOdd`, `read128`, `rc`), `Compressor.new`,
    `Compressor.input`, `Compressor.finalize` and the byte-level `f8` equal them.  `ss` / `l` stay calls of the kernels
    tied by `source_kernels_match`.  Individual facts: `CC.Src.src_jh_*` (lean/CC/JH/SrcCompressor.lean). -/
theorem source_compressor_match :
    CC.Gen.HashCSrc.jh_hashc_errors = [] ∧
    (f8impl = fun M y data =>
      CC.Src.x8Of (CC.Gen.HashCSrc.jh_f8_impl M y.x0 y.x1 y.x2 y.x3 y.x4 y.x5 y.x6 y.x7 data)) ∧
    (∀ (M : Mach) (y : X8), CC.Src.x8Of (List.foldl (CC.Gen.HashCSrc.jh_f8_impl_loop1 M) (CC.Src.x8To y)
      (CC.Gen.HashCSrc.chunksExact 7 CC.Gen.Kernels.jh_E8_BITSLICE_ROUNDCONSTANT)) = rounds M y) ∧
    (f8impl = fun M y data =>
      CC.Src.x8Of (CC.Gen.HashCSrc.jh_f8 M y.x0 y.x1 y.x2 y.x3 y.x4 y.x5 y.x6 y.x7 data)) ∧
    (Compressor.new = fun bytes => ⟨CC.Src.x8Of (CC.Gen.HashCSrc.jh_compressor_new bytes)⟩) ∧
    (Compressor.input = fun M c data =>
      ⟨CC.Src.x8Of (CC.Gen.HashCSrc.jh_compressor_input M c.cv.x0 c.cv.x1 c.cv.x2 c.cv.x3 c.cv.x4 c.cv.x5 c.cv.x6 c.cv.x7
        data)⟩) ∧
    (Compressor.finalize = fun c =>
      CC.Gen.HashCSrc.jh_compressor_finalize c.cv.x0 c.cv.x1 c.cv.x2 c.cv.x3 c.cv.x4 c.cv.x5 c.cv.x6 c.cv.x7) ∧
    (∀ (M : Mach) (cv blk : List (BitVec 8)), f8 M cv blk =
      ((Compressor.new cv).input M blk).finalize) :=
  ⟨CC.Src.src_jh_hashc_clean, CC.Src.src_jh_f8_impl, CC.Src.src_jh_rounds, CC.Src.src_jh_f8_dispatch,
   CC.Src.src_jh_compressor_new, CC.Src.src_jh_compressor_input, CC.Src.src_jh_compressor_finalize,
   fun _ _ _ => rfl⟩

end CC.Thm.C06
