/-
  C19 — ppv-null emulated vectors equal scalar lane-wise arithmetic and never panic.

  For every public method / operator impl of `u128x1, u128x2, u32x4, u64x4, u32x4x4`
  (model: CC.Null.Model, shaped like /repo/utils-simd/ppv-null/src/lib.rs; meaning: CC.Null.Meaning,
  scalar functions over lane lists):

      ∀ profile operands, (guards) → model profile … = .ok (meaning …)

  for all operand values, rotation amounts `1 ≤ i < bits`, lane indices in range, correct slice lengths,
  in BOTH profiles (methods that cannot panic are modelled as pure functions: `model … = meaning …`).
  The error branches are stated explicitly (`…_panic`, `…_release`): which arguments panic in which
  profile, and what release builds compute for out-of-contract arguments.
  Helper lemmas: CC/Null/Lemmas.lean.  Amounts/indices are the Rust integers (`BitVec 32` for `u32`,
  `BitVec 64` for `usize`, `BitVec 128` for the `u128` amount of `rotate_right`), hypotheses in BitVec order.
-/
import CC.Null.Lemmas
import CC.Null.Src
namespace CC.Thm.C19
open CC CC.Null CC.Null.Lemmas

/-! ## u128x1 -/

theorem u128x1_new (a : BitVec 128) : U128x1.new a = Meaning.U128x1.new a := rfl
theorem u128x1_clone (v : U128x1) : v.clone = v := rfl
theorem u128x1_into_inner (v : U128x1) : v.into_inner = Meaning.U128x1.into_inner v := rfl

/-- `rotate_right` (never panics): for EVERY `i : u128` the word is rotated by `(i mod 2^32) mod 128` … -/
theorem u128x1_rotate_right_total (v : U128x1) (i : BitVec 128) :
    v.rotate_right i = Meaning.U128x1.rotate_right v (i.toNat % 2 ^ 32 % 128) := by
  simp [U128x1.rotate_right, rotr, Meaning.U128x1.rotate_right, Meaning.U128x1.map1, U128x1.lanes, U128x1.ofLanes]
/-- … hence by `i` itself for the amounts `1 ≤ i < 128` of the property. -/
theorem u128x1_rotate_right (v : U128x1) (i : BitVec 128) (_h1 : 1#128 ≤ i) (h2 : i < 128#128) :
    v.rotate_right i = Meaning.U128x1.rotate_right v i.toNat := by
  have h2' : i.toNat < 128 := by simpa [BitVec.lt_def] using h2
  rw [u128x1_rotate_right_total]; congr 1; omega

theorem u128x1_load (p : Profile) (xs : List (BitVec 128)) (h : xs.length = 1) :
    U128x1.load p xs = .ok (Meaning.U128x1.load xs) := by
  obtain ⟨a, rfl⟩ := len1 xs h; cases p <;> rfl
theorem u128x1_load_debug_panic (xs : List (BitVec 128)) (h : xs.length ≠ 1) :
    (U128x1.load .debug xs).isPanic = true := by
  simp [U128x1.load, dbgAssert_debug_ne _ _ h, Out.isPanic]
/-- release: no length check, a longer slice is accepted (first element taken) -/
theorem u128x1_load_release (xs : List (BitVec 128)) (h : 1 ≤ xs.length) :
    U128x1.load .release xs = .ok (Meaning.U128x1.load xs) := by
  obtain ⟨a, r, rfl⟩ := len_ge1 xs h; rfl
theorem u128x1_load_release_panic : (U128x1.load .release []).isPanic = true := rfl

theorem u128x1_xor_store (p : Profile) (v : U128x1) (xs : List (BitVec 128)) (h : xs.length = 1) :
    v.xor_store p xs = .ok (Meaning.U128x1.xor_store v xs) := by
  obtain ⟨a, rfl⟩ := len1 xs h; cases p <;> rfl
theorem u128x1_xor_store_debug_panic (v : U128x1) (xs : List (BitVec 128)) (h : xs.length ≠ 1) :
    (v.xor_store .debug xs).isPanic = true := by
  simp [U128x1.xor_store, dbgAssert_debug_ne _ _ h, Out.isPanic]
/-- release: a longer slice is accepted; the tail is left untouched -/
theorem u128x1_xor_store_release (v : U128x1) (xs : List (BitVec 128)) (h : 1 ≤ xs.length) :
    v.xor_store .release xs = .ok (Meaning.U128x1.xor_store v xs ++ xs.drop 1) := by
  obtain ⟨a, r, rfl⟩ := len_ge1 xs h
  simp [U128x1.xor_store, idx, setIdx, Meaning.U128x1.xor_store, U128x1.lanes]
theorem u128x1_xor_store_release_panic (v : U128x1) : (v.xor_store .release []).isPanic = true := rfl

theorem u128x1_swap1 (p : Profile) (v : U128x1) : v.swap1 p = .ok (Meaning.U128x1.swap 1 v) := by
  unfold U128x1.swap1
  rw [swap_ok p v _ _ (by decide)]
  exact congrArg (fun x => Out.ok (U128x1.mk x)) (eq_swapGroups_of_bits 1#7 1 rfl (swap1_bits v.a))

theorem u128x1_swap2 (p : Profile) (v : U128x1) : v.swap2 p = .ok (Meaning.U128x1.swap 2 v) := by
  unfold U128x1.swap2
  rw [swap_ok p v _ _ (by decide)]
  exact congrArg (fun x => Out.ok (U128x1.mk x)) (eq_swapGroups_of_bits 2#7 2 rfl (swap2_bits v.a))

theorem u128x1_swap4 (p : Profile) (v : U128x1) : v.swap4 p = .ok (Meaning.U128x1.swap 4 v) := by
  unfold U128x1.swap4
  rw [swap_ok p v _ _ (by decide)]
  exact congrArg (fun x => Out.ok (U128x1.mk x)) (eq_swapGroups_of_bits 4#7 4 rfl (swap4_bits v.a))

theorem u128x1_swap8 (p : Profile) (v : U128x1) : v.swap8 p = .ok (Meaning.U128x1.swap 8 v) := by
  unfold U128x1.swap8
  rw [swap_ok p v _ _ (by decide)]
  exact congrArg (fun x => Out.ok (U128x1.mk x)) (eq_swapGroups_of_bits 8#7 8 rfl (swap8_bits v.a))

theorem u128x1_swap16 (p : Profile) (v : U128x1) : v.swap16 p = .ok (Meaning.U128x1.swap 16 v) := by
  unfold U128x1.swap16
  rw [swap_ok p v _ _ (by decide)]
  exact congrArg (fun x => Out.ok (U128x1.mk x)) (eq_swapGroups_of_bits 16#7 16 rfl (swap16_bits v.a))

theorem u128x1_swap32 (p : Profile) (v : U128x1) : v.swap32 p = .ok (Meaning.U128x1.swap 32 v) := by
  unfold U128x1.swap32
  rw [swap_ok p v _ _ (by decide)]
  exact congrArg (fun x => Out.ok (U128x1.mk x)) (eq_swapGroups_of_bits 32#7 32 rfl (swap32_bits v.a))

theorem u128x1_swap64 (p : Profile) (v : U128x1) : v.swap64 p = .ok (Meaning.U128x1.swap 64 v) := by
  unfold U128x1.swap64
  rw [shl128 p _ _ (by decide), shr128 p _ _ (by decide)]
  exact congrArg (fun x => Out.ok (U128x1.mk x)) (eq_swapGroups_of_bits 64#7 64 rfl (swap64_bits v.a))

theorem u128x1_andnot (v r : U128x1) : v.andnot r = Meaning.U128x1.andnot v r := rfl

theorem u128x1_extract (p : Profile) (v : U128x1) : v.extract p 0#32 = .ok (Meaning.U128x1.extract v 0) := by
  cases p <;> rfl
theorem u128x1_extract_debug_panic (v : U128x1) (i : BitVec 32) (h : i ≠ 0#32) :
    (v.extract .debug i).isPanic = true := by
  simp [U128x1.extract, dbgAssert_debug_ne _ _ h, Out.isPanic]
/-- release: the index is ignored -/
theorem u128x1_extract_release (v : U128x1) (i : BitVec 32) :
    v.extract .release i = .ok (Meaning.U128x1.extract v 0) := rfl

theorem u128x1_add_assign (v r : U128x1) : v.add_assign r = Meaning.U128x1.add v r := rfl
theorem u128x1_bitxor_assign (v r : U128x1) : v.bitxor_assign r = Meaning.U128x1.xor v r := rfl
theorem u128x1_bitxor (v r : U128x1) : v.bitxor r = Meaning.U128x1.xor v r := rfl
theorem u128x1_bitand (v r : U128x1) : v.bitand r = Meaning.U128x1.and v r := rfl
theorem u128x1_not (v : U128x1) : v.not = Meaning.U128x1.not v := rfl

/-! ## u128x2 -/

theorem u128x2_new (a b : BitVec 128) : U128x2.new a b = Meaning.U128x2.new a b := rfl
theorem u128x2_clone (v : U128x2) : v.clone = v := rfl

theorem u128x2_rotate_right_total (v : U128x2) (i : BitVec 128) :
    v.rotate_right i = Meaning.U128x2.rotate_right v (i.toNat % 2 ^ 32 % 128) := by
  simp [U128x2.rotate_right, U128x2.map, rotr, Meaning.U128x2.rotate_right, Meaning.U128x2.map1, U128x2.lanes,
    U128x2.ofLanes]
theorem u128x2_rotate_right (v : U128x2) (i : BitVec 128) (_h1 : 1#128 ≤ i) (h2 : i < 128#128) :
    v.rotate_right i = Meaning.U128x2.rotate_right v i.toNat := by
  have h2' : i.toNat < 128 := by simpa [BitVec.lt_def] using h2
  rw [u128x2_rotate_right_total]; congr 1; omega

theorem u128x2_load (p : Profile) (xs : List (BitVec 128)) (h : xs.length = 2) :
    U128x2.load p xs = .ok (Meaning.U128x2.load xs) := by
  obtain ⟨a, b, rfl⟩ := len2 xs h; cases p <;> rfl
theorem u128x2_load_debug_panic (xs : List (BitVec 128)) (h : xs.length ≠ 2) :
    (U128x2.load .debug xs).isPanic = true := by
  simp [U128x2.load, dbgAssert_debug_ne _ _ h, Out.isPanic]
theorem u128x2_load_release (xs : List (BitVec 128)) (h : 2 ≤ xs.length) :
    U128x2.load .release xs = .ok (Meaning.U128x2.load xs) := by
  obtain ⟨a, b, r, rfl⟩ := len_ge2 xs h; rfl
theorem u128x2_load_release_panic (xs : List (BitVec 128)) (h : xs.length < 2) :
    (U128x2.load .release xs).isPanic = true := by
  rcases len_lt2 xs h with rfl | ⟨a, rfl⟩ <;> rfl

theorem u128x2_xor_store (p : Profile) (v : U128x2) (xs : List (BitVec 128)) (h : xs.length = 2) :
    v.xor_store p xs = .ok (Meaning.U128x2.xor_store v xs) := by
  obtain ⟨a, b, rfl⟩ := len2 xs h; cases p <;> rfl
theorem u128x2_xor_store_debug_panic (v : U128x2) (xs : List (BitVec 128)) (h : xs.length ≠ 2) :
    (v.xor_store .debug xs).isPanic = true := by
  simp [U128x2.xor_store, dbgAssert_debug_ne _ _ h, Out.isPanic]
theorem u128x2_xor_store_release (v : U128x2) (xs : List (BitVec 128)) (h : 2 ≤ xs.length) :
    v.xor_store .release xs = .ok (Meaning.U128x2.xor_store v xs ++ xs.drop 2) := by
  obtain ⟨a, b, r, rfl⟩ := len_ge2 xs h
  simp [U128x2.xor_store, idx, setIdx, Meaning.U128x2.xor_store, U128x2.lanes]
theorem u128x2_xor_store_release_panic (v : U128x2) (xs : List (BitVec 128)) (h : xs.length < 2) :
    (v.xor_store .release xs).isPanic = true := by
  rcases len_lt2 xs h with rfl | ⟨a, rfl⟩ <;> rfl

/-- `extract` has no profile dependence: array indexing, checked in every build -/
theorem u128x2_extract (v : U128x2) (i : BitVec 32) (h : i < 2#32) :
    v.extract i = .ok (Meaning.U128x2.extract v i.toNat) := by
  rcases lt2_cases32 i h with rfl | rfl <;> rfl
theorem u128x2_extract_panic (v : U128x2) (i : BitVec 32) (h : 2#32 ≤ i) : (v.extract i).isPanic = true := by
  have : 2 ≤ i.toNat := by simpa [BitVec.le_def] using h
  rw [U128x2.extract, idx_ge _ _ (by simpa using this)]; rfl

theorem u128x2_andnot (v r : U128x2) : v.andnot r = Meaning.U128x2.andnot v r := rfl
theorem u128x2_add_assign (v r : U128x2) : v.add_assign r = Meaning.U128x2.add v r := rfl
theorem u128x2_bitxor_assign (v r : U128x2) : v.bitxor_assign r = Meaning.U128x2.xor v r := rfl
theorem u128x2_bitand (v r : U128x2) : v.bitand r = Meaning.U128x2.and v r := rfl
theorem u128x2_bitor (v r : U128x2) : v.bitor r = Meaning.U128x2.or v r := rfl
theorem u128x2_not (v : U128x2) : v.not = Meaning.U128x2.not v := rfl

/-! ## u32x4 -/

theorem u32x4_new (a b c d : BitVec 32) : U32x4.new a b c d = Meaning.U32x4.new a b c d := rfl
theorem u32x4_clone (v : U32x4) : v.clone = v := rfl
theorem u32x4_splat (x : BitVec 32) : U32x4.splat x = Meaning.U32x4.splat x := rfl

/-- `uN::rotate_right(x, n as u32)` = rotation by the amount truncated to 32 bits (`rotateRight` reduces mod N) -/
theorem u32x4_rotr_lane (x n : BitVec 32) :
    rotr x (n.setWidth 32) = x.rotateRight ((n.setWidth 32).setWidth 32).toNat := by
  unfold rotr
  rw [BitVec.rotateRight_mod_eq_rotateRight]
  congr 1
  first | done | (simp only [BitVec.toNat_setWidth]; omega)
/-- `rotate_right(&mut self, ii) -> Self` never panics, leaves `*self` unchanged and RETURNS the vector whose
    lane `k` is lane `k` of `self` rotated right by `ii.k as u32` (mod 32) — for EVERY `ii` … -/
theorem u32x4_rotate_right_total (v ii : U32x4) :
    v.rotate_right ii = (v, Meaning.U32x4.rotate_right v
      ⟨(ii.a.setWidth 32).setWidth 32, (ii.b.setWidth 32).setWidth 32,
       (ii.c.setWidth 32).setWidth 32, (ii.d.setWidth 32).setWidth 32⟩) := by
  unfold U32x4.rotate_right
  rw [u32x4_rotr_lane, u32x4_rotr_lane, u32x4_rotr_lane, u32x4_rotr_lane]; rfl
/-- … hence by `ii.k` itself when every lane amount is in `1..32-1` (in fact whenever it is `< 2^32`). -/
theorem u32x4_rotate_right (v ii : U32x4)
    (ha : 1#32 ≤ ii.a ∧ ii.a < 32#32) (hb : 1#32 ≤ ii.b ∧ ii.b < 32#32)
    (hc : 1#32 ≤ ii.c ∧ ii.c < 32#32) (hd : 1#32 ≤ ii.d ∧ ii.d < 32#32) :
    v.rotate_right ii = (v, Meaning.U32x4.rotate_right v ii) := by
  have e : ∀ i : BitVec 32, i < 32#32 → (i.setWidth 32).setWidth 32 = i := fun i h => by bv_decide
  rw [u32x4_rotate_right_total, e _ ha.2, e _ hb.2, e _ hc.2, e _ hd.2]

theorem u32x4_from_slice_unaligned (p : Profile) (xs : List (BitVec 32)) (h : xs.length = 4) :
    U32x4.from_slice_unaligned p xs = .ok (Meaning.U32x4.from_slice_unaligned xs) := by
  obtain ⟨a, b, c, d, rfl⟩ := len4 xs h; cases p <;> rfl
theorem u32x4_from_slice_unaligned_debug_panic (xs : List (BitVec 32)) (h : xs.length ≠ 4) :
    (U32x4.from_slice_unaligned .debug xs).isPanic = true := by
  simp [U32x4.from_slice_unaligned, dbgAssert_debug_ne _ _ h, Out.isPanic]
theorem u32x4_from_slice_unaligned_release (xs : List (BitVec 32)) (h : 4 ≤ xs.length) :
    U32x4.from_slice_unaligned .release xs = .ok (Meaning.U32x4.from_slice_unaligned xs) := by
  obtain ⟨a, b, c, d, r, rfl⟩ := len_ge4 xs h; rfl
theorem u32x4_from_slice_unaligned_release_panic (xs : List (BitVec 32)) (h : xs.length < 4) :
    (U32x4.from_slice_unaligned .release xs).isPanic = true := by
  rcases len_lt4 xs h with rfl | ⟨a, rfl⟩ | ⟨a, b, rfl⟩ | ⟨a, b, c, rfl⟩ <;> rfl

theorem u32x4_write_to_slice_unaligned (p : Profile) (v : U32x4) (xs : List (BitVec 32)) (h : xs.length = 4) :
    v.write_to_slice_unaligned p xs = .ok (Meaning.U32x4.write_to_slice_unaligned v) := by
  obtain ⟨a, b, c, d, rfl⟩ := len4 xs h; cases p <;> rfl
theorem u32x4_write_to_slice_unaligned_debug_panic (v : U32x4) (xs : List (BitVec 32)) (h : xs.length ≠ 4) :
    (v.write_to_slice_unaligned .debug xs).isPanic = true := by
  simp [U32x4.write_to_slice_unaligned, dbgAssert_debug_ne _ _ h, Out.isPanic]
theorem u32x4_write_to_slice_unaligned_release (v : U32x4) (xs : List (BitVec 32)) (h : 4 ≤ xs.length) :
    v.write_to_slice_unaligned .release xs = .ok (Meaning.U32x4.write_to_slice_unaligned v ++ xs.drop 4) := by
  obtain ⟨a, b, c, d, r, rfl⟩ := len_ge4 xs h; rfl
theorem u32x4_write_to_slice_unaligned_release_panic (v : U32x4) (xs : List (BitVec 32)) (h : xs.length < 4) :
    (v.write_to_slice_unaligned .release xs).isPanic = true := by
  rcases len_lt4 xs h with rfl | ⟨a, rfl⟩ | ⟨a, b, rfl⟩ | ⟨a, b, c, rfl⟩ <;> rfl

/-- `extract` / `replace`: array indexing (`usize` index), checked in every build profile -/
theorem u32x4_extract (v : U32x4) (i : BitVec 64) (h : i < 4#64) :
    v.extract i = .ok (Meaning.U32x4.extract v i.toNat) := by
  rcases lt4_cases64 i h with rfl | rfl | rfl | rfl <;> rfl
theorem u32x4_extract_panic (v : U32x4) (i : BitVec 64) (h : 4#64 ≤ i) : (v.extract i).isPanic = true := by
  have : 4 ≤ i.toNat := by simpa [BitVec.le_def] using h
  rw [U32x4.extract, idx_ge _ _ (by simpa using this)]; rfl
theorem u32x4_replace (v : U32x4) (i : BitVec 64) (x : BitVec 32) (h : i < 4#64) :
    v.replace i x = .ok (Meaning.U32x4.replace v i.toNat x) := by
  rcases lt4_cases64 i h with rfl | rfl | rfl | rfl <;> rfl
theorem u32x4_replace_panic (v : U32x4) (i : BitVec 64) (x : BitVec 32) (h : 4#64 ≤ i) :
    (v.replace i x).isPanic = true := by
  have : 4 ≤ i.toNat := by simpa [BitVec.le_def] using h
  obtain ⟨n, hn⟩ : ∃ n, i.toNat = n + 4 := ⟨i.toNat - 4, by omega⟩
  rw [U32x4.replace, hn]; rfl

theorem u32x4_add_assign (v r : U32x4) : v.add_assign r = Meaning.U32x4.add v r := rfl
theorem u32x4_bitxor_assign (v r : U32x4) : v.bitxor_assign r = Meaning.U32x4.xor v r := rfl
theorem u32x4_add (v r : U32x4) : v.add r = Meaning.U32x4.add v r := rfl
theorem u32x4_bitxor (v r : U32x4) : v.bitxor r = Meaning.U32x4.xor v r := rfl
theorem u32x4_bitor (v r : U32x4) : v.bitor r = Meaning.U32x4.or v r := rfl
theorem u32x4_bitand (v r : U32x4) : v.bitand r = Meaning.U32x4.and v r := rfl

/-- `rotate_words_right i`, `i < 4` (the contract the code `debug_assert`s), both profiles -/
theorem u32x4_rotate_words_right (p : Profile) (v : U32x4) (i : BitVec 32) (h : i < 4#32) :
    v.rotate_words_right p i = .ok (Meaning.U32x4.rotate_words_right v i.toNat) := by
  rcases lt4_cases32 i h with rfl | rfl | rfl | rfl <;> cases p <;> rfl
theorem u32x4_rotate_words_right_debug_panic (v : U32x4) (i : BitVec 32) (h : 4#32 ≤ i) :
    (v.rotate_words_right .debug i).isPanic = true := by
  unfold U32x4.rotate_words_right
  rw [dbgAssert_debug_ne _ _ (and_not3_ne i h)]; rfl
/-- release: every `i` is accepted and reduced mod 4 -/
theorem u32x4_rotate_words_right_release (v : U32x4) (i : BitVec 32) :
    v.rotate_words_right .release i = .ok (Meaning.U32x4.rotate_words_right v (i.toNat % 4)) := by
  rw [← toNat_and3]
  unfold U32x4.rotate_words_right
  rcases and3_cases i with e | e | e | e <;> rw [e] <;> rfl

/-- `splat_rotate_right i`, `1 ≤ i < 32`, both profiles -/
theorem u32x4_splat_rotate_right (p : Profile) (v : U32x4) (i : BitVec 32) (h1 : 1#32 ≤ i) (h2 : i < 32#32) :
    v.splat_rotate_right p i = .ok (Meaning.U32x4.splat_rotate_right v i.toNat) := by
  unfold U32x4.splat_rotate_right
  simp only [srr_lane32_ok p _ i h1 h2, ok_bind]; rfl
/-- debug: `i = 0` (`x << 32`) and `i ≥ 32` (`x >> i`) are shift-overflow panics -/
theorem u32x4_splat_rotate_right_debug_panic (v : U32x4) (i : BitVec 32) (h : i = 0#32 ∨ 32#32 ≤ i) :
    (v.splat_rotate_right .debug i).isPanic = true :=
  isPanic_bind_of_isPanic _ _ (srr_lane32_debug_panic v.a i h)
/-- release: masked shifts; EVERY `i` gives the rotation by `i mod 32` (identity for `i = 0`) -/
theorem u32x4_splat_rotate_right_release (v : U32x4) (i : BitVec 32) :
    v.splat_rotate_right .release i = .ok (Meaning.U32x4.splat_rotate_right v (i.toNat % 32)) := by
  unfold U32x4.splat_rotate_right
  simp only [srr_lane32_release, ok_bind]; rfl

/-! ## u64x4 -/

theorem u64x4_new (a b c d : BitVec 64) : U64x4.new a b c d = Meaning.U64x4.new a b c d := rfl
theorem u64x4_clone (v : U64x4) : v.clone = v := rfl
theorem u64x4_splat (x : BitVec 64) : U64x4.splat x = Meaning.U64x4.splat x := rfl

/-- `uN::rotate_right(x, n as u32)` = rotation by the amount truncated to 32 bits (`rotateRight` reduces mod N) -/
theorem u64x4_rotr_lane (x n : BitVec 64) :
    rotr x (n.setWidth 32) = x.rotateRight ((n.setWidth 32).setWidth 64).toNat := by
  unfold rotr
  rw [BitVec.rotateRight_mod_eq_rotateRight]
  congr 1
  first | done | (simp only [BitVec.toNat_setWidth]; omega)
/-- `rotate_right(&mut self, ii) -> Self` never panics, leaves `*self` unchanged and RETURNS the vector whose
    lane `k` is lane `k` of `self` rotated right by `ii.k as u32` (mod 64) — for EVERY `ii` … -/
theorem u64x4_rotate_right_total (v ii : U64x4) :
    v.rotate_right ii = (v, Meaning.U64x4.rotate_right v
      ⟨(ii.a.setWidth 32).setWidth 64, (ii.b.setWidth 32).setWidth 64,
       (ii.c.setWidth 32).setWidth 64, (ii.d.setWidth 32).setWidth 64⟩) := by
  unfold U64x4.rotate_right
  rw [u64x4_rotr_lane, u64x4_rotr_lane, u64x4_rotr_lane, u64x4_rotr_lane]; rfl
/-- … hence by `ii.k` itself when every lane amount is in `1..64-1` (in fact whenever it is `< 2^32`). -/
theorem u64x4_rotate_right (v ii : U64x4)
    (ha : 1#64 ≤ ii.a ∧ ii.a < 64#64) (hb : 1#64 ≤ ii.b ∧ ii.b < 64#64)
    (hc : 1#64 ≤ ii.c ∧ ii.c < 64#64) (hd : 1#64 ≤ ii.d ∧ ii.d < 64#64) :
    v.rotate_right ii = (v, Meaning.U64x4.rotate_right v ii) := by
  have e : ∀ i : BitVec 64, i < 64#64 → (i.setWidth 32).setWidth 64 = i := fun i h => by bv_decide
  rw [u64x4_rotate_right_total, e _ ha.2, e _ hb.2, e _ hc.2, e _ hd.2]

theorem u64x4_from_slice_unaligned (p : Profile) (xs : List (BitVec 64)) (h : xs.length = 4) :
    U64x4.from_slice_unaligned p xs = .ok (Meaning.U64x4.from_slice_unaligned xs) := by
  obtain ⟨a, b, c, d, rfl⟩ := len4 xs h; cases p <;> rfl
theorem u64x4_from_slice_unaligned_debug_panic (xs : List (BitVec 64)) (h : xs.length ≠ 4) :
    (U64x4.from_slice_unaligned .debug xs).isPanic = true := by
  simp [U64x4.from_slice_unaligned, dbgAssert_debug_ne _ _ h, Out.isPanic]
theorem u64x4_from_slice_unaligned_release (xs : List (BitVec 64)) (h : 4 ≤ xs.length) :
    U64x4.from_slice_unaligned .release xs = .ok (Meaning.U64x4.from_slice_unaligned xs) := by
  obtain ⟨a, b, c, d, r, rfl⟩ := len_ge4 xs h; rfl
theorem u64x4_from_slice_unaligned_release_panic (xs : List (BitVec 64)) (h : xs.length < 4) :
    (U64x4.from_slice_unaligned .release xs).isPanic = true := by
  rcases len_lt4 xs h with rfl | ⟨a, rfl⟩ | ⟨a, b, rfl⟩ | ⟨a, b, c, rfl⟩ <;> rfl

theorem u64x4_write_to_slice_unaligned (p : Profile) (v : U64x4) (xs : List (BitVec 64)) (h : xs.length = 4) :
    v.write_to_slice_unaligned p xs = .ok (Meaning.U64x4.write_to_slice_unaligned v) := by
  obtain ⟨a, b, c, d, rfl⟩ := len4 xs h; cases p <;> rfl
theorem u64x4_write_to_slice_unaligned_debug_panic (v : U64x4) (xs : List (BitVec 64)) (h : xs.length ≠ 4) :
    (v.write_to_slice_unaligned .debug xs).isPanic = true := by
  simp [U64x4.write_to_slice_unaligned, dbgAssert_debug_ne _ _ h, Out.isPanic]
theorem u64x4_write_to_slice_unaligned_release (v : U64x4) (xs : List (BitVec 64)) (h : 4 ≤ xs.length) :
    v.write_to_slice_unaligned .release xs = .ok (Meaning.U64x4.write_to_slice_unaligned v ++ xs.drop 4) := by
  obtain ⟨a, b, c, d, r, rfl⟩ := len_ge4 xs h; rfl
theorem u64x4_write_to_slice_unaligned_release_panic (v : U64x4) (xs : List (BitVec 64)) (h : xs.length < 4) :
    (v.write_to_slice_unaligned .release xs).isPanic = true := by
  rcases len_lt4 xs h with rfl | ⟨a, rfl⟩ | ⟨a, b, rfl⟩ | ⟨a, b, c, rfl⟩ <;> rfl

/-- `extract` / `replace`: array indexing (`usize` index), checked in every build profile -/
theorem u64x4_extract (v : U64x4) (i : BitVec 64) (h : i < 4#64) :
    v.extract i = .ok (Meaning.U64x4.extract v i.toNat) := by
  rcases lt4_cases64 i h with rfl | rfl | rfl | rfl <;> rfl
theorem u64x4_extract_panic (v : U64x4) (i : BitVec 64) (h : 4#64 ≤ i) : (v.extract i).isPanic = true := by
  have : 4 ≤ i.toNat := by simpa [BitVec.le_def] using h
  rw [U64x4.extract, idx_ge _ _ (by simpa using this)]; rfl
theorem u64x4_replace (v : U64x4) (i : BitVec 64) (x : BitVec 64) (h : i < 4#64) :
    v.replace i x = .ok (Meaning.U64x4.replace v i.toNat x) := by
  rcases lt4_cases64 i h with rfl | rfl | rfl | rfl <;> rfl
theorem u64x4_replace_panic (v : U64x4) (i : BitVec 64) (x : BitVec 64) (h : 4#64 ≤ i) :
    (v.replace i x).isPanic = true := by
  have : 4 ≤ i.toNat := by simpa [BitVec.le_def] using h
  obtain ⟨n, hn⟩ : ∃ n, i.toNat = n + 4 := ⟨i.toNat - 4, by omega⟩
  rw [U64x4.replace, hn]; rfl

theorem u64x4_add_assign (v r : U64x4) : v.add_assign r = Meaning.U64x4.add v r := rfl
theorem u64x4_bitxor_assign (v r : U64x4) : v.bitxor_assign r = Meaning.U64x4.xor v r := rfl
theorem u64x4_add (v r : U64x4) : v.add r = Meaning.U64x4.add v r := rfl
theorem u64x4_bitxor (v r : U64x4) : v.bitxor r = Meaning.U64x4.xor v r := rfl
theorem u64x4_bitor (v r : U64x4) : v.bitor r = Meaning.U64x4.or v r := rfl
theorem u64x4_bitand (v r : U64x4) : v.bitand r = Meaning.U64x4.and v r := rfl

/-- `rotate_words_right i`, `i < 4` (the contract the code `debug_assert`s), both profiles -/
theorem u64x4_rotate_words_right (p : Profile) (v : U64x4) (i : BitVec 32) (h : i < 4#32) :
    v.rotate_words_right p i = .ok (Meaning.U64x4.rotate_words_right v i.toNat) := by
  rcases lt4_cases32 i h with rfl | rfl | rfl | rfl <;> cases p <;> rfl
theorem u64x4_rotate_words_right_debug_panic (v : U64x4) (i : BitVec 32) (h : 4#32 ≤ i) :
    (v.rotate_words_right .debug i).isPanic = true := by
  unfold U64x4.rotate_words_right
  rw [dbgAssert_debug_ne _ _ (and_not3_ne i h)]; rfl
/-- release: every `i` is accepted and reduced mod 4 -/
theorem u64x4_rotate_words_right_release (v : U64x4) (i : BitVec 32) :
    v.rotate_words_right .release i = .ok (Meaning.U64x4.rotate_words_right v (i.toNat % 4)) := by
  rw [← toNat_and3]
  unfold U64x4.rotate_words_right
  rcases and3_cases i with e | e | e | e <;> rw [e] <;> rfl

/-- `splat_rotate_right i`, `1 ≤ i < 64`, both profiles -/
theorem u64x4_splat_rotate_right (p : Profile) (v : U64x4) (i : BitVec 32) (h1 : 1#32 ≤ i) (h2 : i < 64#32) :
    v.splat_rotate_right p i = .ok (Meaning.U64x4.splat_rotate_right v i.toNat) := by
  unfold U64x4.splat_rotate_right
  simp only [srr_lane64_ok p _ i h1 h2, ok_bind]; rfl
/-- debug: `i = 0` (`x << 64`) and `i ≥ 64` (`x >> i`) are shift-overflow panics -/
theorem u64x4_splat_rotate_right_debug_panic (v : U64x4) (i : BitVec 32) (h : i = 0#32 ∨ 64#32 ≤ i) :
    (v.splat_rotate_right .debug i).isPanic = true :=
  isPanic_bind_of_isPanic _ _ (srr_lane64_debug_panic v.a i h)
/-- release: masked shifts; EVERY `i` gives the rotation by `i mod 64` (identity for `i = 0`) -/
theorem u64x4_splat_rotate_right_release (v : U64x4) (i : BitVec 32) :
    v.splat_rotate_right .release i = .ok (Meaning.U64x4.splat_rotate_right v (i.toNat % 64)) := by
  unfold U64x4.splat_rotate_right
  simp only [srr_lane64_release, ok_bind]; rfl

/-! ## u32x4x4 -/

theorem u32x4x4_from (a b c d : U32x4) : U32x4x4.from_ (a, b, c, d) = Meaning.U32x4x4.from_ a b c d := rfl
theorem u32x4x4_splat (a : U32x4) : U32x4x4.splat a = Meaning.U32x4x4.splat a := rfl
theorem u32x4x4_into_parts (v : U32x4x4) : v.into_parts = Meaning.U32x4x4.into_parts v := rfl
theorem u32x4x4_clone (v : U32x4x4) : v.clone = v := rfl
theorem u32x4x4_bitxor (v r : U32x4x4) : v.bitxor r = Meaning.U32x4x4.xor v r := rfl
theorem u32x4x4_bitor (v r : U32x4x4) : v.bitor r = Meaning.U32x4x4.or v r := rfl
theorem u32x4x4_bitand (v r : U32x4x4) : v.bitand r = Meaning.U32x4x4.and v r := rfl
theorem u32x4x4_add (v r : U32x4x4) : v.add r = Meaning.U32x4x4.add v r := rfl
theorem u32x4x4_bitxor_assign (v r : U32x4x4) : v.bitxor_assign r = Meaning.U32x4x4.xor v r := rfl
theorem u32x4x4_add_assign (v r : U32x4x4) : v.add_assign r = Meaning.U32x4x4.add v r := rfl

theorem u32x4x4_rotate_words_right (p : Profile) (v : U32x4x4) (i : BitVec 32) (h : i < 4#32) :
    v.rotate_words_right p i = .ok (Meaning.U32x4x4.rotate_words_right v i.toNat) := by
  unfold U32x4x4.rotate_words_right
  simp only [u32x4_rotate_words_right p _ i h, ok_bind]; rfl
theorem u32x4x4_rotate_words_right_debug_panic (v : U32x4x4) (i : BitVec 32) (h : 4#32 ≤ i) :
    (v.rotate_words_right .debug i).isPanic = true :=
  isPanic_bind_of_isPanic _ _ (u32x4_rotate_words_right_debug_panic v.a i h)
theorem u32x4x4_rotate_words_right_release (v : U32x4x4) (i : BitVec 32) :
    v.rotate_words_right .release i = .ok (Meaning.U32x4x4.rotate_words_right v (i.toNat % 4)) := by
  unfold U32x4x4.rotate_words_right
  simp only [u32x4_rotate_words_right_release, ok_bind]; rfl

theorem u32x4x4_splat_rotate_right (p : Profile) (v : U32x4x4) (i : BitVec 32) (h1 : 1#32 ≤ i) (h2 : i < 32#32) :
    v.splat_rotate_right p i = .ok (Meaning.U32x4x4.splat_rotate_right v i.toNat) := by
  unfold U32x4x4.splat_rotate_right
  simp only [u32x4_splat_rotate_right p _ i h1 h2, ok_bind]; rfl
theorem u32x4x4_splat_rotate_right_debug_panic (v : U32x4x4) (i : BitVec 32) (h : i = 0#32 ∨ 32#32 ≤ i) :
    (v.splat_rotate_right .debug i).isPanic = true :=
  isPanic_bind_of_isPanic _ _ (u32x4_splat_rotate_right_debug_panic v.a i h)
theorem u32x4x4_splat_rotate_right_release (v : U32x4x4) (i : BitVec 32) :
    v.splat_rotate_right .release i = .ok (Meaning.U32x4x4.splat_rotate_right v (i.toNat % 32)) := by
  unfold U32x4x4.splat_rotate_right
  simp only [u32x4_splat_rotate_right_release, ok_bind]; rfl

/-! ## source tie -/

/-- **Source tie.**  Every public and private method and every trait-impl method of every type of
    /repo/utils-simd/ppv-null/src/lib.rs — the bodies of `define_vec1!`, `define_vec2!`, `define_vec4!`, `zipmap_impl!` with the
    arguments of each instantiation substituted (`u128x1`, `u128x2`, `u32x4`, `u64x4`) and the hand-written `u32x4x4` —, as
    TRANSLATED from the Rust source on every run (tools/inventory_null.py → `CC.Gen.NullSrc`), equals the model definition
    the theorems above are about: as FUNCTIONS, hence for both profiles where the definition takes one (`debug_assert*`
    is a guard in profile debug only, `xs[i]` a guard on the length in every profile, `<<` `>>` `-` overflow-checked in debug
    and masked / wrapping in release, closures handed to `map` / `zipmap` inlined).  Nothing was outside the translator's
    language (`null_errors = []`), the list of items (structs, derives, methods with visibility, trait impls) and the struct
    shapes are the modelled ones.  Individual facts: `CC.Src.src_null_*` (lean/CC/Null/Src.lean). -/
theorem source_null_match :
    (CC.Gen.NullSrc.null_errors = []) ∧
    (CC.Gen.NullSrc.null_items = CC.Src.null_items_expected) ∧
    (CC.Gen.NullSrc.null_structs = CC.Src.null_structs_expected) ∧
    (CC.Null.U128x1.add_assign = CC.Gen.NullSrc.U128x1.add_assign) ∧
    (CC.Null.U128x1.andnot = CC.Gen.NullSrc.U128x1.andnot) ∧
    (CC.Null.U128x1.bitand = CC.Gen.NullSrc.U128x1.bitand) ∧
    (CC.Null.U128x1.bitxor = CC.Gen.NullSrc.U128x1.bitxor) ∧
    (CC.Null.U128x1.bitxor_assign = CC.Gen.NullSrc.U128x1.bitxor_assign) ∧
    (CC.Null.U128x1.clone = CC.Gen.NullSrc.U128x1.clone) ∧
    (CC.Null.U128x1.extract = CC.Gen.NullSrc.U128x1.extract) ∧
    (CC.Null.U128x1.into_inner = CC.Gen.NullSrc.U128x1.into_inner) ∧
    (CC.Null.U128x1.load = CC.Gen.NullSrc.U128x1.load) ∧
    (CC.Null.U128x1.new = CC.Gen.NullSrc.U128x1.new) ∧
    (CC.Null.U128x1.not = CC.Gen.NullSrc.U128x1.not) ∧
    (CC.Null.U128x1.rotate_right = CC.Gen.NullSrc.U128x1.rotate_right) ∧
    (CC.Null.U128x1.swap = CC.Gen.NullSrc.U128x1.swap) ∧
    (CC.Null.U128x1.swap1 = CC.Gen.NullSrc.U128x1.swap1) ∧
    (CC.Null.U128x1.swap16 = CC.Gen.NullSrc.U128x1.swap16) ∧
    (CC.Null.U128x1.swap2 = CC.Gen.NullSrc.U128x1.swap2) ∧
    (CC.Null.U128x1.swap32 = CC.Gen.NullSrc.U128x1.swap32) ∧
    (CC.Null.U128x1.swap4 = CC.Gen.NullSrc.U128x1.swap4) ∧
    (CC.Null.U128x1.swap64 = CC.Gen.NullSrc.U128x1.swap64) ∧
    (CC.Null.U128x1.swap8 = CC.Gen.NullSrc.U128x1.swap8) ∧
    (CC.Null.U128x1.xor_store = CC.Gen.NullSrc.U128x1.xor_store) ∧
    (CC.Null.U128x2.add_assign = CC.Gen.NullSrc.U128x2.add_assign) ∧
    (CC.Null.U128x2.andnot = CC.Gen.NullSrc.U128x2.andnot) ∧
    (CC.Null.U128x2.bitand = CC.Gen.NullSrc.U128x2.bitand) ∧
    (CC.Null.U128x2.bitor = CC.Gen.NullSrc.U128x2.bitor) ∧
    (CC.Null.U128x2.bitxor_assign = CC.Gen.NullSrc.U128x2.bitxor_assign) ∧
    (CC.Null.U128x2.clone = CC.Gen.NullSrc.U128x2.clone) ∧
    (CC.Null.U128x2.extract = CC.Gen.NullSrc.U128x2.extract) ∧
    (CC.Null.U128x2.load = CC.Gen.NullSrc.U128x2.load) ∧
    (CC.Null.U128x2.map = CC.Gen.NullSrc.U128x2.map) ∧
    (CC.Null.U128x2.new = CC.Gen.NullSrc.U128x2.new) ∧
    (CC.Null.U128x2.not = CC.Gen.NullSrc.U128x2.not) ∧
    (CC.Null.U128x2.rotate_right = CC.Gen.NullSrc.U128x2.rotate_right) ∧
    (CC.Null.U128x2.xor_store = CC.Gen.NullSrc.U128x2.xor_store) ∧
    (CC.Null.U128x2.zipmap = CC.Gen.NullSrc.U128x2.zipmap) ∧
    (CC.Null.U32x4.BITS = CC.Gen.NullSrc.U32x4.BITS) ∧
    (CC.Null.U32x4.add = CC.Gen.NullSrc.U32x4.add) ∧
    (CC.Null.U32x4.add_assign = CC.Gen.NullSrc.U32x4.add_assign) ∧
    (CC.Null.U32x4.bitand = CC.Gen.NullSrc.U32x4.bitand) ∧
    (CC.Null.U32x4.bitor = CC.Gen.NullSrc.U32x4.bitor) ∧
    (CC.Null.U32x4.bitxor = CC.Gen.NullSrc.U32x4.bitxor) ∧
    (CC.Null.U32x4.bitxor_assign = CC.Gen.NullSrc.U32x4.bitxor_assign) ∧
    (CC.Null.U32x4.clone = CC.Gen.NullSrc.U32x4.clone) ∧
    (CC.Null.U32x4.extract = CC.Gen.NullSrc.U32x4.extract) ∧
    (CC.Null.U32x4.from_slice_unaligned = CC.Gen.NullSrc.U32x4.from_slice_unaligned) ∧
    (CC.Null.U32x4.new = CC.Gen.NullSrc.U32x4.new) ∧
    (CC.Null.U32x4.replace = CC.Gen.NullSrc.U32x4.replace) ∧
    (CC.Null.U32x4.rotate_right = CC.Gen.NullSrc.U32x4.rotate_right) ∧
    (CC.Null.U32x4.rotate_words_right = CC.Gen.NullSrc.U32x4.rotate_words_right) ∧
    (CC.Null.U32x4.splat = CC.Gen.NullSrc.U32x4.splat) ∧
    (CC.Null.U32x4.splat_rotate_right = CC.Gen.NullSrc.U32x4.splat_rotate_right) ∧
    (CC.Null.U32x4.write_to_slice_unaligned = CC.Gen.NullSrc.U32x4.write_to_slice_unaligned) ∧
    (CC.Null.U32x4.zipmap = CC.Gen.NullSrc.U32x4.zipmap) ∧
    (CC.Null.U64x4.BITS = CC.Gen.NullSrc.U64x4.BITS) ∧
    (CC.Null.U64x4.add = CC.Gen.NullSrc.U64x4.add) ∧
    (CC.Null.U64x4.add_assign = CC.Gen.NullSrc.U64x4.add_assign) ∧
    (CC.Null.U64x4.bitand = CC.Gen.NullSrc.U64x4.bitand) ∧
    (CC.Null.U64x4.bitor = CC.Gen.NullSrc.U64x4.bitor) ∧
    (CC.Null.U64x4.bitxor = CC.Gen.NullSrc.U64x4.bitxor) ∧
    (CC.Null.U64x4.bitxor_assign = CC.Gen.NullSrc.U64x4.bitxor_assign) ∧
    (CC.Null.U64x4.clone = CC.Gen.NullSrc.U64x4.clone) ∧
    (CC.Null.U64x4.extract = CC.Gen.NullSrc.U64x4.extract) ∧
    (CC.Null.U64x4.from_slice_unaligned = CC.Gen.NullSrc.U64x4.from_slice_unaligned) ∧
    (CC.Null.U64x4.new = CC.Gen.NullSrc.U64x4.new) ∧
    (CC.Null.U64x4.replace = CC.Gen.NullSrc.U64x4.replace) ∧
    (CC.Null.U64x4.rotate_right = CC.Gen.NullSrc.U64x4.rotate_right) ∧
    (CC.Null.U64x4.rotate_words_right = CC.Gen.NullSrc.U64x4.rotate_words_right) ∧
    (CC.Null.U64x4.splat = CC.Gen.NullSrc.U64x4.splat) ∧
    (CC.Null.U64x4.splat_rotate_right = CC.Gen.NullSrc.U64x4.splat_rotate_right) ∧
    (CC.Null.U64x4.write_to_slice_unaligned = CC.Gen.NullSrc.U64x4.write_to_slice_unaligned) ∧
    (CC.Null.U64x4.zipmap = CC.Gen.NullSrc.U64x4.zipmap) ∧
    (CC.Null.U32x4x4.add = CC.Gen.NullSrc.U32x4x4.add) ∧
    (CC.Null.U32x4x4.add_assign = CC.Gen.NullSrc.U32x4x4.add_assign) ∧
    (CC.Null.U32x4x4.bitand = CC.Gen.NullSrc.U32x4x4.bitand) ∧
    (CC.Null.U32x4x4.bitor = CC.Gen.NullSrc.U32x4x4.bitor) ∧
    (CC.Null.U32x4x4.bitxor = CC.Gen.NullSrc.U32x4x4.bitxor) ∧
    (CC.Null.U32x4x4.bitxor_assign = CC.Gen.NullSrc.U32x4x4.bitxor_assign) ∧
    (CC.Null.U32x4x4.clone = CC.Gen.NullSrc.U32x4x4.clone) ∧
    (CC.Null.U32x4x4.from_ = CC.Gen.NullSrc.U32x4x4.from_) ∧
    (CC.Null.U32x4x4.into_parts = CC.Gen.NullSrc.U32x4x4.into_parts) ∧
    (CC.Null.U32x4x4.rotate_words_right = CC.Gen.NullSrc.U32x4x4.rotate_words_right) ∧
    (CC.Null.U32x4x4.splat = CC.Gen.NullSrc.U32x4x4.splat) ∧
    (CC.Null.U32x4x4.splat_rotate_right = CC.Gen.NullSrc.U32x4x4.splat_rotate_right) ∧
    (CC.Null.U32x4x4.zipmap = CC.Gen.NullSrc.U32x4x4.zipmap) :=
  ⟨CC.Src.src_null_clean, CC.Src.src_null_items, CC.Src.src_null_structs, CC.Src.src_null_u128x1_add_assign,
   CC.Src.src_null_u128x1_andnot, CC.Src.src_null_u128x1_bitand, CC.Src.src_null_u128x1_bitxor,
   CC.Src.src_null_u128x1_bitxor_assign, CC.Src.src_null_u128x1_clone, CC.Src.src_null_u128x1_extract,
   CC.Src.src_null_u128x1_into_inner, CC.Src.src_null_u128x1_load, CC.Src.src_null_u128x1_new,
   CC.Src.src_null_u128x1_not, CC.Src.src_null_u128x1_rotate_right, CC.Src.src_null_u128x1_swap,
   CC.Src.src_null_u128x1_swap1, CC.Src.src_null_u128x1_swap16, CC.Src.src_null_u128x1_swap2,
   CC.Src.src_null_u128x1_swap32, CC.Src.src_null_u128x1_swap4, CC.Src.src_null_u128x1_swap64,
   CC.Src.src_null_u128x1_swap8, CC.Src.src_null_u128x1_xor_store, CC.Src.src_null_u128x2_add_assign,
   CC.Src.src_null_u128x2_andnot, CC.Src.src_null_u128x2_bitand, CC.Src.src_null_u128x2_bitor,
   CC.Src.src_null_u128x2_bitxor_assign, CC.Src.src_null_u128x2_clone, CC.Src.src_null_u128x2_extract,
   CC.Src.src_null_u128x2_load, CC.Src.src_null_u128x2_map, CC.Src.src_null_u128x2_new, CC.Src.src_null_u128x2_not,
   CC.Src.src_null_u128x2_rotate_right, CC.Src.src_null_u128x2_xor_store, CC.Src.src_null_u128x2_zipmap,
   CC.Src.src_null_u32x4_BITS, CC.Src.src_null_u32x4_add, CC.Src.src_null_u32x4_add_assign,
   CC.Src.src_null_u32x4_bitand, CC.Src.src_null_u32x4_bitor, CC.Src.src_null_u32x4_bitxor,
   CC.Src.src_null_u32x4_bitxor_assign, CC.Src.src_null_u32x4_clone, CC.Src.src_null_u32x4_extract,
   CC.Src.src_null_u32x4_from_slice_unaligned, CC.Src.src_null_u32x4_new, CC.Src.src_null_u32x4_replace,
   CC.Src.src_null_u32x4_rotate_right, CC.Src.src_null_u32x4_rotate_words_right, CC.Src.src_null_u32x4_splat,
   CC.Src.src_null_u32x4_splat_rotate_right, CC.Src.src_null_u32x4_write_to_slice_unaligned,
   CC.Src.src_null_u32x4_zipmap, CC.Src.src_null_u64x4_BITS, CC.Src.src_null_u64x4_add,
   CC.Src.src_null_u64x4_add_assign, CC.Src.src_null_u64x4_bitand, CC.Src.src_null_u64x4_bitor,
   CC.Src.src_null_u64x4_bitxor, CC.Src.src_null_u64x4_bitxor_assign, CC.Src.src_null_u64x4_clone,
   CC.Src.src_null_u64x4_extract, CC.Src.src_null_u64x4_from_slice_unaligned, CC.Src.src_null_u64x4_new,
   CC.Src.src_null_u64x4_replace, CC.Src.src_null_u64x4_rotate_right, CC.Src.src_null_u64x4_rotate_words_right,
   CC.Src.src_null_u64x4_splat, CC.Src.src_null_u64x4_splat_rotate_right,
   CC.Src.src_null_u64x4_write_to_slice_unaligned, CC.Src.src_null_u64x4_zipmap, CC.Src.src_null_u32x4x4_add,
   CC.Src.src_null_u32x4x4_add_assign, CC.Src.src_null_u32x4x4_bitand, CC.Src.src_null_u32x4x4_bitor,
   CC.Src.src_null_u32x4x4_bitxor, CC.Src.src_null_u32x4x4_bitxor_assign, CC.Src.src_null_u32x4x4_clone,
   CC.Src.src_null_u32x4x4_from, CC.Src.src_null_u32x4x4_into_parts, CC.Src.src_null_u32x4x4_rotate_words_right,
   CC.Src.src_null_u32x4x4_splat, CC.Src.src_null_u32x4x4_splat_rotate_right, CC.Src.src_null_u32x4x4_zipmap⟩

/-! ## non-vacuity: the guards are satisfiable, and model and meaning agree on byte-counting operands
    (every byte distinct, so any lane / byte / group mix-up shows) -/

example : (1#32 ≤ 8#32 ∧ 8#32 < 32#32) ∧ (3#32 < 4#32) ∧ (3#64 < 4#64) ∧ (1#128 ≤ 127#128 ∧ 127#128 < 128#128) := by
  decide

/-- swap8 exchanges adjacent bytes — model and meaning, evaluated independently -/
example : U128x1.swap8 .debug ⟨0x0f0e0d0c0b0a09080706050403020100#128⟩
    = .ok ⟨0x0e0f0c0d0a0b08090607040502030001#128⟩ := by rfl
example : Meaning.U128x1.swap 8 ⟨0x0f0e0d0c0b0a09080706050403020100#128⟩
    = ⟨0x0e0f0c0d0a0b08090607040502030001#128⟩ := by decide +kernel
example : Meaning.U128x1.swap 1 ⟨0x0f0e0d0c0b0a09080706050403020100#128⟩
    = ⟨0x0f0d0e0c070506040b090a0803010200#128⟩ := by decide +kernel
example : U128x1.swap64 .release ⟨0x0f0e0d0c0b0a09080706050403020100#128⟩
    = .ok ⟨0x07060504030201000f0e0d0c0b0a0908#128⟩ := by rfl

/-- all-ones + 1 wraps in every lane (every add carries out) -/
example : U32x4.add ⟨0xffffffff#32, 0xffffffff#32, 0xffffffff#32, 0xffffffff#32⟩ ⟨1#32, 1#32, 1#32, 1#32⟩
    = ⟨0#32, 0#32, 0#32, 0#32⟩ := by decide
example : U128x1.add_assign ⟨0xffffffffffffffffffffffffffffffff#128⟩ ⟨1#128⟩ = ⟨0#128⟩ := by decide

/-- per-word rotation by 8 and word rotation by 1 on byte-counting lanes -/
example : U32x4.splat_rotate_right .debug ⟨0x03020100#32, 0x07060504#32, 0x0b0a0908#32, 0x0f0e0d0c#32⟩ 8#32
    = .ok ⟨0x00030201#32, 0x04070605#32, 0x080b0a09#32, 0x0c0f0e0d#32⟩ := by rfl
example : Meaning.U32x4.splat_rotate_right ⟨0x03020100#32, 0x07060504#32, 0x0b0a0908#32, 0x0f0e0d0c#32⟩ 8
    = ⟨0x00030201#32, 0x04070605#32, 0x080b0a09#32, 0x0c0f0e0d#32⟩ := by decide
example : U32x4.rotate_words_right .debug ⟨0x03020100#32, 0x07060504#32, 0x0b0a0908#32, 0x0f0e0d0c#32⟩ 1#32
    = .ok ⟨0x0f0e0d0c#32, 0x03020100#32, 0x07060504#32, 0x0b0a0908#32⟩ := by rfl
example : U64x4.extract ⟨0x0706050403020100#64, 0x0f0e0d0c0b0a0908#64, 0x1716151413121110#64, 0x1f1e1d1c1b1a1918#64⟩ 2#64
    = .ok 0x1716151413121110#64 := by rfl

/-- out-of-contract witnesses: the two profiles differ exactly as stated by the `_panic` / `_release` theorems -/
example : (U32x4.splat_rotate_right .debug ⟨1#32, 2#32, 3#32, 4#32⟩ 0#32).isPanic = true := by decide
example : U32x4.splat_rotate_right .release ⟨1#32, 2#32, 3#32, 4#32⟩ 0#32 = .ok ⟨1#32, 2#32, 3#32, 4#32⟩ := by rfl
example : (U32x4.rotate_words_right .debug ⟨1#32, 2#32, 3#32, 4#32⟩ 5#32).isPanic = true := by decide
example : U32x4.rotate_words_right .release ⟨1#32, 2#32, 3#32, 4#32⟩ 5#32 = .ok ⟨4#32, 1#32, 2#32, 3#32⟩ := by rfl
example : (U32x4.extract ⟨1#32, 2#32, 3#32, 4#32⟩ 4#64).isPanic = true := by decide

/-! ## end to end: the REGENERATED methods against the lane-wise scalar meaning -/

/-- **End to end (regenerated code = lane-wise scalar meaning).**  Every theorem of this file about a method of `u128x1`,
    `u128x2`, `u32x4`, `u64x4`, `u32x4x4` (the contract case in both profiles, the `_total` / `_release` forms and the
    `_panic` cases), restated with the method as REGENERATED from /repo/utils-simd/ppv-null/src/lib.rs on every run
    (`CC.Gen.NullSrc.<Type>.<method>`, tools/inventory_null.py) in place of the hand-written model: only regenerated
    definitions, the scalar meaning `CC.Null.Meaning.*` and the carrier structures of `CC.Null.Vocab` occur in the
    statement.  Each conjunct is the like-named theorem above rewritten with its `CC.Src.src_null_*` equality
    (conjuncts in the order of the theorems above; the two `rotr_lane` helper facts have no method and are omitted). -/
theorem generated_matches_meaning :
    (∀ (a : BitVec 128), CC.Gen.NullSrc.U128x1.new a = Meaning.U128x1.new a) ∧
    (∀ (v : U128x1), CC.Gen.NullSrc.U128x1.clone v = v) ∧
    (∀ (v : U128x1), CC.Gen.NullSrc.U128x1.into_inner v = Meaning.U128x1.into_inner v) ∧
    (∀ (v : U128x1) (i : BitVec 128), CC.Gen.NullSrc.U128x1.rotate_right v i = Meaning.U128x1.rotate_right v (i.toNat % 2 ^ 32 % 128)) ∧
    (∀ (v : U128x1) (i : BitVec 128), 1#128 ≤ i → i < 128#128 → CC.Gen.NullSrc.U128x1.rotate_right v i = Meaning.U128x1.rotate_right v i.toNat) ∧
    (∀ (p : Profile) (xs : List (BitVec 128)), xs.length = 1 → CC.Gen.NullSrc.U128x1.load p xs = .ok (Meaning.U128x1.load xs)) ∧
    (∀ (xs : List (BitVec 128)), xs.length ≠ 1 → (CC.Gen.NullSrc.U128x1.load .debug xs).isPanic = true) ∧
    (∀ (xs : List (BitVec 128)), 1 ≤ xs.length → CC.Gen.NullSrc.U128x1.load .release xs = .ok (Meaning.U128x1.load xs)) ∧
    ((CC.Gen.NullSrc.U128x1.load .release []).isPanic = true) ∧
    (∀ (p : Profile) (v : U128x1) (xs : List (BitVec 128)), xs.length = 1 → CC.Gen.NullSrc.U128x1.xor_store p v xs = .ok (Meaning.U128x1.xor_store v xs)) ∧
    (∀ (v : U128x1) (xs : List (BitVec 128)), xs.length ≠ 1 → (CC.Gen.NullSrc.U128x1.xor_store .debug v xs).isPanic = true) ∧
    (∀ (v : U128x1) (xs : List (BitVec 128)), 1 ≤ xs.length → CC.Gen.NullSrc.U128x1.xor_store .release v xs = .ok (Meaning.U128x1.xor_store v xs ++ xs.drop 1)) ∧
    (∀ (v : U128x1), (CC.Gen.NullSrc.U128x1.xor_store .release v []).isPanic = true) ∧
    (∀ (p : Profile) (v : U128x1), CC.Gen.NullSrc.U128x1.swap1 p v = .ok (Meaning.U128x1.swap 1 v)) ∧
    (∀ (p : Profile) (v : U128x1), CC.Gen.NullSrc.U128x1.swap2 p v = .ok (Meaning.U128x1.swap 2 v)) ∧
    (∀ (p : Profile) (v : U128x1), CC.Gen.NullSrc.U128x1.swap4 p v = .ok (Meaning.U128x1.swap 4 v)) ∧
    (∀ (p : Profile) (v : U128x1), CC.Gen.NullSrc.U128x1.swap8 p v = .ok (Meaning.U128x1.swap 8 v)) ∧
    (∀ (p : Profile) (v : U128x1), CC.Gen.NullSrc.U128x1.swap16 p v = .ok (Meaning.U128x1.swap 16 v)) ∧
    (∀ (p : Profile) (v : U128x1), CC.Gen.NullSrc.U128x1.swap32 p v = .ok (Meaning.U128x1.swap 32 v)) ∧
    (∀ (p : Profile) (v : U128x1), CC.Gen.NullSrc.U128x1.swap64 p v = .ok (Meaning.U128x1.swap 64 v)) ∧
    (∀ (v r : U128x1), CC.Gen.NullSrc.U128x1.andnot v r = Meaning.U128x1.andnot v r) ∧
    (∀ (p : Profile) (v : U128x1), CC.Gen.NullSrc.U128x1.extract p v 0#32 = .ok (Meaning.U128x1.extract v 0)) ∧
    (∀ (v : U128x1) (i : BitVec 32), i ≠ 0#32 → (CC.Gen.NullSrc.U128x1.extract .debug v i).isPanic = true) ∧
    (∀ (v : U128x1) (i : BitVec 32), CC.Gen.NullSrc.U128x1.extract .release v i = .ok (Meaning.U128x1.extract v 0)) ∧
    (∀ (v r : U128x1), CC.Gen.NullSrc.U128x1.add_assign v r = Meaning.U128x1.add v r) ∧
    (∀ (v r : U128x1), CC.Gen.NullSrc.U128x1.bitxor_assign v r = Meaning.U128x1.xor v r) ∧
    (∀ (v r : U128x1), CC.Gen.NullSrc.U128x1.bitxor v r = Meaning.U128x1.xor v r) ∧
    (∀ (v r : U128x1), CC.Gen.NullSrc.U128x1.bitand v r = Meaning.U128x1.and v r) ∧
    (∀ (v : U128x1), CC.Gen.NullSrc.U128x1.not v = Meaning.U128x1.not v) ∧
    (∀ (a b : BitVec 128), CC.Gen.NullSrc.U128x2.new a b = Meaning.U128x2.new a b) ∧
    (∀ (v : U128x2), CC.Gen.NullSrc.U128x2.clone v = v) ∧
    (∀ (v : U128x2) (i : BitVec 128), CC.Gen.NullSrc.U128x2.rotate_right v i = Meaning.U128x2.rotate_right v (i.toNat % 2 ^ 32 % 128)) ∧
    (∀ (v : U128x2) (i : BitVec 128), 1#128 ≤ i → i < 128#128 → CC.Gen.NullSrc.U128x2.rotate_right v i = Meaning.U128x2.rotate_right v i.toNat) ∧
    (∀ (p : Profile) (xs : List (BitVec 128)), xs.length = 2 → CC.Gen.NullSrc.U128x2.load p xs = .ok (Meaning.U128x2.load xs)) ∧
    (∀ (xs : List (BitVec 128)), xs.length ≠ 2 → (CC.Gen.NullSrc.U128x2.load .debug xs).isPanic = true) ∧
    (∀ (xs : List (BitVec 128)), 2 ≤ xs.length → CC.Gen.NullSrc.U128x2.load .release xs = .ok (Meaning.U128x2.load xs)) ∧
    (∀ (xs : List (BitVec 128)), xs.length < 2 → (CC.Gen.NullSrc.U128x2.load .release xs).isPanic = true) ∧
    (∀ (p : Profile) (v : U128x2) (xs : List (BitVec 128)), xs.length = 2 → CC.Gen.NullSrc.U128x2.xor_store p v xs = .ok (Meaning.U128x2.xor_store v xs)) ∧
    (∀ (v : U128x2) (xs : List (BitVec 128)), xs.length ≠ 2 → (CC.Gen.NullSrc.U128x2.xor_store .debug v xs).isPanic = true) ∧
    (∀ (v : U128x2) (xs : List (BitVec 128)), 2 ≤ xs.length → CC.Gen.NullSrc.U128x2.xor_store .release v xs = .ok (Meaning.U128x2.xor_store v xs ++ xs.drop 2)) ∧
    (∀ (v : U128x2) (xs : List (BitVec 128)), xs.length < 2 → (CC.Gen.NullSrc.U128x2.xor_store .release v xs).isPanic = true) ∧
    (∀ (v : U128x2) (i : BitVec 32), i < 2#32 → CC.Gen.NullSrc.U128x2.extract v i = .ok (Meaning.U128x2.extract v i.toNat)) ∧
    (∀ (v : U128x2) (i : BitVec 32), 2#32 ≤ i → (CC.Gen.NullSrc.U128x2.extract v i).isPanic = true) ∧
    (∀ (v r : U128x2), CC.Gen.NullSrc.U128x2.andnot v r = Meaning.U128x2.andnot v r) ∧
    (∀ (v r : U128x2), CC.Gen.NullSrc.U128x2.add_assign v r = Meaning.U128x2.add v r) ∧
    (∀ (v r : U128x2), CC.Gen.NullSrc.U128x2.bitxor_assign v r = Meaning.U128x2.xor v r) ∧
    (∀ (v r : U128x2), CC.Gen.NullSrc.U128x2.bitand v r = Meaning.U128x2.and v r) ∧
    (∀ (v r : U128x2), CC.Gen.NullSrc.U128x2.bitor v r = Meaning.U128x2.or v r) ∧
    (∀ (v : U128x2), CC.Gen.NullSrc.U128x2.not v = Meaning.U128x2.not v) ∧
    (∀ (a b c d : BitVec 32), CC.Gen.NullSrc.U32x4.new a b c d = Meaning.U32x4.new a b c d) ∧
    (∀ (v : U32x4), CC.Gen.NullSrc.U32x4.clone v = v) ∧
    (∀ (x : BitVec 32), CC.Gen.NullSrc.U32x4.splat x = Meaning.U32x4.splat x) ∧
    (∀ (v ii : U32x4), CC.Gen.NullSrc.U32x4.rotate_right v ii = (v, Meaning.U32x4.rotate_right v ⟨(ii.a.setWidth 32).setWidth 32, (ii.b.setWidth 32).setWidth 32, (ii.c.setWidth 32).setWidth 32, (ii.d.setWidth 32).setWidth 32⟩)) ∧
    (∀ (v ii : U32x4), (1#32 ≤ ii.a ∧ ii.a < 32#32) → (1#32 ≤ ii.b ∧ ii.b < 32#32) → (1#32 ≤ ii.c ∧ ii.c < 32#32) → (1#32 ≤ ii.d ∧ ii.d < 32#32) → CC.Gen.NullSrc.U32x4.rotate_right v ii = (v, Meaning.U32x4.rotate_right v ii)) ∧
    (∀ (p : Profile) (xs : List (BitVec 32)), xs.length = 4 → CC.Gen.NullSrc.U32x4.from_slice_unaligned p xs = .ok (Meaning.U32x4.from_slice_unaligned xs)) ∧
    (∀ (xs : List (BitVec 32)), xs.length ≠ 4 → (CC.Gen.NullSrc.U32x4.from_slice_unaligned .debug xs).isPanic = true) ∧
    (∀ (xs : List (BitVec 32)), 4 ≤ xs.length → CC.Gen.NullSrc.U32x4.from_slice_unaligned .release xs = .ok (Meaning.U32x4.from_slice_unaligned xs)) ∧
    (∀ (xs : List (BitVec 32)), xs.length < 4 → (CC.Gen.NullSrc.U32x4.from_slice_unaligned .release xs).isPanic = true) ∧
    (∀ (p : Profile) (v : U32x4) (xs : List (BitVec 32)), xs.length = 4 → CC.Gen.NullSrc.U32x4.write_to_slice_unaligned p v xs = .ok (Meaning.U32x4.write_to_slice_unaligned v)) ∧
    (∀ (v : U32x4) (xs : List (BitVec 32)), xs.length ≠ 4 → (CC.Gen.NullSrc.U32x4.write_to_slice_unaligned .debug v xs).isPanic = true) ∧
    (∀ (v : U32x4) (xs : List (BitVec 32)), 4 ≤ xs.length → CC.Gen.NullSrc.U32x4.write_to_slice_unaligned .release v xs = .ok (Meaning.U32x4.write_to_slice_unaligned v ++ xs.drop 4)) ∧
    (∀ (v : U32x4) (xs : List (BitVec 32)), xs.length < 4 → (CC.Gen.NullSrc.U32x4.write_to_slice_unaligned .release v xs).isPanic = true) ∧
    (∀ (v : U32x4) (i : BitVec 64), i < 4#64 → CC.Gen.NullSrc.U32x4.extract v i = .ok (Meaning.U32x4.extract v i.toNat)) ∧
    (∀ (v : U32x4) (i : BitVec 64), 4#64 ≤ i → (CC.Gen.NullSrc.U32x4.extract v i).isPanic = true) ∧
    (∀ (v : U32x4) (i : BitVec 64) (x : BitVec 32), i < 4#64 → CC.Gen.NullSrc.U32x4.replace v i x = .ok (Meaning.U32x4.replace v i.toNat x)) ∧
    (∀ (v : U32x4) (i : BitVec 64) (x : BitVec 32), 4#64 ≤ i → (CC.Gen.NullSrc.U32x4.replace v i x).isPanic = true) ∧
    (∀ (v r : U32x4), CC.Gen.NullSrc.U32x4.add_assign v r = Meaning.U32x4.add v r) ∧
    (∀ (v r : U32x4), CC.Gen.NullSrc.U32x4.bitxor_assign v r = Meaning.U32x4.xor v r) ∧
    (∀ (v r : U32x4), CC.Gen.NullSrc.U32x4.add v r = Meaning.U32x4.add v r) ∧
    (∀ (v r : U32x4), CC.Gen.NullSrc.U32x4.bitxor v r = Meaning.U32x4.xor v r) ∧
    (∀ (v r : U32x4), CC.Gen.NullSrc.U32x4.bitor v r = Meaning.U32x4.or v r) ∧
    (∀ (v r : U32x4), CC.Gen.NullSrc.U32x4.bitand v r = Meaning.U32x4.and v r) ∧
    (∀ (p : Profile) (v : U32x4) (i : BitVec 32), i < 4#32 → CC.Gen.NullSrc.U32x4.rotate_words_right p v i = .ok (Meaning.U32x4.rotate_words_right v i.toNat)) ∧
    (∀ (v : U32x4) (i : BitVec 32), 4#32 ≤ i → (CC.Gen.NullSrc.U32x4.rotate_words_right .debug v i).isPanic = true) ∧
    (∀ (v : U32x4) (i : BitVec 32), CC.Gen.NullSrc.U32x4.rotate_words_right .release v i = .ok (Meaning.U32x4.rotate_words_right v (i.toNat % 4))) ∧
    (∀ (p : Profile) (v : U32x4) (i : BitVec 32), 1#32 ≤ i → i < 32#32 → CC.Gen.NullSrc.U32x4.splat_rotate_right p v i = .ok (Meaning.U32x4.splat_rotate_right v i.toNat)) ∧
    (∀ (v : U32x4) (i : BitVec 32), (i = 0#32 ∨ 32#32 ≤ i) → (CC.Gen.NullSrc.U32x4.splat_rotate_right .debug v i).isPanic = true) ∧
    (∀ (v : U32x4) (i : BitVec 32), CC.Gen.NullSrc.U32x4.splat_rotate_right .release v i = .ok (Meaning.U32x4.splat_rotate_right v (i.toNat % 32))) ∧
    (∀ (a b c d : BitVec 64), CC.Gen.NullSrc.U64x4.new a b c d = Meaning.U64x4.new a b c d) ∧
    (∀ (v : U64x4), CC.Gen.NullSrc.U64x4.clone v = v) ∧
    (∀ (x : BitVec 64), CC.Gen.NullSrc.U64x4.splat x = Meaning.U64x4.splat x) ∧
    (∀ (v ii : U64x4), CC.Gen.NullSrc.U64x4.rotate_right v ii = (v, Meaning.U64x4.rotate_right v ⟨(ii.a.setWidth 32).setWidth 64, (ii.b.setWidth 32).setWidth 64, (ii.c.setWidth 32).setWidth 64, (ii.d.setWidth 32).setWidth 64⟩)) ∧
    (∀ (v ii : U64x4), (1#64 ≤ ii.a ∧ ii.a < 64#64) → (1#64 ≤ ii.b ∧ ii.b < 64#64) → (1#64 ≤ ii.c ∧ ii.c < 64#64) → (1#64 ≤ ii.d ∧ ii.d < 64#64) → CC.Gen.NullSrc.U64x4.rotate_right v ii = (v, Meaning.U64x4.rotate_right v ii)) ∧
    (∀ (p : Profile) (xs : List (BitVec 64)), xs.length = 4 → CC.Gen.NullSrc.U64x4.from_slice_unaligned p xs = .ok (Meaning.U64x4.from_slice_unaligned xs)) ∧
    (∀ (xs : List (BitVec 64)), xs.length ≠ 4 → (CC.Gen.NullSrc.U64x4.from_slice_unaligned .debug xs).isPanic = true) ∧
    (∀ (xs : List (BitVec 64)), 4 ≤ xs.length → CC.Gen.NullSrc.U64x4.from_slice_unaligned .release xs = .ok (Meaning.U64x4.from_slice_unaligned xs)) ∧
    (∀ (xs : List (BitVec 64)), xs.length < 4 → (CC.Gen.NullSrc.U64x4.from_slice_unaligned .release xs).isPanic = true) ∧
    (∀ (p : Profile) (v : U64x4) (xs : List (BitVec 64)), xs.length = 4 → CC.Gen.NullSrc.U64x4.write_to_slice_unaligned p v xs = .ok (Meaning.U64x4.write_to_slice_unaligned v)) ∧
    (∀ (v : U64x4) (xs : List (BitVec 64)), xs.length ≠ 4 → (CC.Gen.NullSrc.U64x4.write_to_slice_unaligned .debug v xs).isPanic = true) ∧
    (∀ (v : U64x4) (xs : List (BitVec 64)), 4 ≤ xs.length → CC.Gen.NullSrc.U64x4.write_to_slice_unaligned .release v xs = .ok (Meaning.U64x4.write_to_slice_unaligned v ++ xs.drop 4)) ∧
    (∀ (v : U64x4) (xs : List (BitVec 64)), xs.length < 4 → (CC.Gen.NullSrc.U64x4.write_to_slice_unaligned .release v xs).isPanic = true) ∧
    (∀ (v : U64x4) (i : BitVec 64), i < 4#64 → CC.Gen.NullSrc.U64x4.extract v i = .ok (Meaning.U64x4.extract v i.toNat)) ∧
    (∀ (v : U64x4) (i : BitVec 64), 4#64 ≤ i → (CC.Gen.NullSrc.U64x4.extract v i).isPanic = true) ∧
    (∀ (v : U64x4) (i : BitVec 64) (x : BitVec 64), i < 4#64 → CC.Gen.NullSrc.U64x4.replace v i x = .ok (Meaning.U64x4.replace v i.toNat x)) ∧
    (∀ (v : U64x4) (i : BitVec 64) (x : BitVec 64), 4#64 ≤ i → (CC.Gen.NullSrc.U64x4.replace v i x).isPanic = true) ∧
    (∀ (v r : U64x4), CC.Gen.NullSrc.U64x4.add_assign v r = Meaning.U64x4.add v r) ∧
    (∀ (v r : U64x4), CC.Gen.NullSrc.U64x4.bitxor_assign v r = Meaning.U64x4.xor v r) ∧
    (∀ (v r : U64x4), CC.Gen.NullSrc.U64x4.add v r = Meaning.U64x4.add v r) ∧
    (∀ (v r : U64x4), CC.Gen.NullSrc.U64x4.bitxor v r = Meaning.U64x4.xor v r) ∧
    (∀ (v r : U64x4), CC.Gen.NullSrc.U64x4.bitor v r = Meaning.U64x4.or v r) ∧
    (∀ (v r : U64x4), CC.Gen.NullSrc.U64x4.bitand v r = Meaning.U64x4.and v r) ∧
    (∀ (p : Profile) (v : U64x4) (i : BitVec 32), i < 4#32 → CC.Gen.NullSrc.U64x4.rotate_words_right p v i = .ok (Meaning.U64x4.rotate_words_right v i.toNat)) ∧
    (∀ (v : U64x4) (i : BitVec 32), 4#32 ≤ i → (CC.Gen.NullSrc.U64x4.rotate_words_right .debug v i).isPanic = true) ∧
    (∀ (v : U64x4) (i : BitVec 32), CC.Gen.NullSrc.U64x4.rotate_words_right .release v i = .ok (Meaning.U64x4.rotate_words_right v (i.toNat % 4))) ∧
    (∀ (p : Profile) (v : U64x4) (i : BitVec 32), 1#32 ≤ i → i < 64#32 → CC.Gen.NullSrc.U64x4.splat_rotate_right p v i = .ok (Meaning.U64x4.splat_rotate_right v i.toNat)) ∧
    (∀ (v : U64x4) (i : BitVec 32), (i = 0#32 ∨ 64#32 ≤ i) → (CC.Gen.NullSrc.U64x4.splat_rotate_right .debug v i).isPanic = true) ∧
    (∀ (v : U64x4) (i : BitVec 32), CC.Gen.NullSrc.U64x4.splat_rotate_right .release v i = .ok (Meaning.U64x4.splat_rotate_right v (i.toNat % 64))) ∧
    (∀ (a b c d : U32x4), CC.Gen.NullSrc.U32x4x4.from_ (a, b, c, d) = Meaning.U32x4x4.from_ a b c d) ∧
    (∀ (a : U32x4), CC.Gen.NullSrc.U32x4x4.splat a = Meaning.U32x4x4.splat a) ∧
    (∀ (v : U32x4x4), CC.Gen.NullSrc.U32x4x4.into_parts v = Meaning.U32x4x4.into_parts v) ∧
    (∀ (v : U32x4x4), CC.Gen.NullSrc.U32x4x4.clone v = v) ∧
    (∀ (v r : U32x4x4), CC.Gen.NullSrc.U32x4x4.bitxor v r = Meaning.U32x4x4.xor v r) ∧
    (∀ (v r : U32x4x4), CC.Gen.NullSrc.U32x4x4.bitor v r = Meaning.U32x4x4.or v r) ∧
    (∀ (v r : U32x4x4), CC.Gen.NullSrc.U32x4x4.bitand v r = Meaning.U32x4x4.and v r) ∧
    (∀ (v r : U32x4x4), CC.Gen.NullSrc.U32x4x4.add v r = Meaning.U32x4x4.add v r) ∧
    (∀ (v r : U32x4x4), CC.Gen.NullSrc.U32x4x4.bitxor_assign v r = Meaning.U32x4x4.xor v r) ∧
    (∀ (v r : U32x4x4), CC.Gen.NullSrc.U32x4x4.add_assign v r = Meaning.U32x4x4.add v r) ∧
    (∀ (p : Profile) (v : U32x4x4) (i : BitVec 32), i < 4#32 → CC.Gen.NullSrc.U32x4x4.rotate_words_right p v i = .ok (Meaning.U32x4x4.rotate_words_right v i.toNat)) ∧
    (∀ (v : U32x4x4) (i : BitVec 32), 4#32 ≤ i → (CC.Gen.NullSrc.U32x4x4.rotate_words_right .debug v i).isPanic = true) ∧
    (∀ (v : U32x4x4) (i : BitVec 32), CC.Gen.NullSrc.U32x4x4.rotate_words_right .release v i = .ok (Meaning.U32x4x4.rotate_words_right v (i.toNat % 4))) ∧
    (∀ (p : Profile) (v : U32x4x4) (i : BitVec 32), 1#32 ≤ i → i < 32#32 → CC.Gen.NullSrc.U32x4x4.splat_rotate_right p v i = .ok (Meaning.U32x4x4.splat_rotate_right v i.toNat)) ∧
    (∀ (v : U32x4x4) (i : BitVec 32), (i = 0#32 ∨ 32#32 ≤ i) → (CC.Gen.NullSrc.U32x4x4.splat_rotate_right .debug v i).isPanic = true) ∧
    (∀ (v : U32x4x4) (i : BitVec 32), CC.Gen.NullSrc.U32x4x4.splat_rotate_right .release v i = .ok (Meaning.U32x4x4.splat_rotate_right v (i.toNat % 32))) :=
  ⟨(by rw [← CC.Src.src_null_u128x1_new]; exact @u128x1_new),
   (by rw [← CC.Src.src_null_u128x1_clone]; exact @u128x1_clone),
   (by rw [← CC.Src.src_null_u128x1_into_inner]; exact @u128x1_into_inner),
   (by rw [← CC.Src.src_null_u128x1_rotate_right]; exact @u128x1_rotate_right_total),
   (by rw [← CC.Src.src_null_u128x1_rotate_right]; exact @u128x1_rotate_right),
   (by rw [← CC.Src.src_null_u128x1_load]; exact @u128x1_load),
   (by rw [← CC.Src.src_null_u128x1_load]; exact @u128x1_load_debug_panic),
   (by rw [← CC.Src.src_null_u128x1_load]; exact @u128x1_load_release),
   (by rw [← CC.Src.src_null_u128x1_load]; exact @u128x1_load_release_panic),
   (by rw [← CC.Src.src_null_u128x1_xor_store]; exact @u128x1_xor_store),
   (by rw [← CC.Src.src_null_u128x1_xor_store]; exact @u128x1_xor_store_debug_panic),
   (by rw [← CC.Src.src_null_u128x1_xor_store]; exact @u128x1_xor_store_release),
   (by rw [← CC.Src.src_null_u128x1_xor_store]; exact @u128x1_xor_store_release_panic),
   (by rw [← CC.Src.src_null_u128x1_swap1]; exact @u128x1_swap1),
   (by rw [← CC.Src.src_null_u128x1_swap2]; exact @u128x1_swap2),
   (by rw [← CC.Src.src_null_u128x1_swap4]; exact @u128x1_swap4),
   (by rw [← CC.Src.src_null_u128x1_swap8]; exact @u128x1_swap8),
   (by rw [← CC.Src.src_null_u128x1_swap16]; exact @u128x1_swap16),
   (by rw [← CC.Src.src_null_u128x1_swap32]; exact @u128x1_swap32),
   (by rw [← CC.Src.src_null_u128x1_swap64]; exact @u128x1_swap64),
   (by rw [← CC.Src.src_null_u128x1_andnot]; exact @u128x1_andnot),
   (by rw [← CC.Src.src_null_u128x1_extract]; exact @u128x1_extract),
   (by rw [← CC.Src.src_null_u128x1_extract]; exact @u128x1_extract_debug_panic),
   (by rw [← CC.Src.src_null_u128x1_extract]; exact @u128x1_extract_release),
   (by rw [← CC.Src.src_null_u128x1_add_assign]; exact @u128x1_add_assign),
   (by rw [← CC.Src.src_null_u128x1_bitxor_assign]; exact @u128x1_bitxor_assign),
   (by rw [← CC.Src.src_null_u128x1_bitxor]; exact @u128x1_bitxor),
   (by rw [← CC.Src.src_null_u128x1_bitand]; exact @u128x1_bitand),
   (by rw [← CC.Src.src_null_u128x1_not]; exact @u128x1_not),
   (by rw [← CC.Src.src_null_u128x2_new]; exact @u128x2_new),
   (by rw [← CC.Src.src_null_u128x2_clone]; exact @u128x2_clone),
   (by rw [← CC.Src.src_null_u128x2_rotate_right]; exact @u128x2_rotate_right_total),
   (by rw [← CC.Src.src_null_u128x2_rotate_right]; exact @u128x2_rotate_right),
   (by rw [← CC.Src.src_null_u128x2_load]; exact @u128x2_load),
   (by rw [← CC.Src.src_null_u128x2_load]; exact @u128x2_load_debug_panic),
   (by rw [← CC.Src.src_null_u128x2_load]; exact @u128x2_load_release),
   (by rw [← CC.Src.src_null_u128x2_load]; exact @u128x2_load_release_panic),
   (by rw [← CC.Src.src_null_u128x2_xor_store]; exact @u128x2_xor_store),
   (by rw [← CC.Src.src_null_u128x2_xor_store]; exact @u128x2_xor_store_debug_panic),
   (by rw [← CC.Src.src_null_u128x2_xor_store]; exact @u128x2_xor_store_release),
   (by rw [← CC.Src.src_null_u128x2_xor_store]; exact @u128x2_xor_store_release_panic),
   (by rw [← CC.Src.src_null_u128x2_extract]; exact @u128x2_extract),
   (by rw [← CC.Src.src_null_u128x2_extract]; exact @u128x2_extract_panic),
   (by rw [← CC.Src.src_null_u128x2_andnot]; exact @u128x2_andnot),
   (by rw [← CC.Src.src_null_u128x2_add_assign]; exact @u128x2_add_assign),
   (by rw [← CC.Src.src_null_u128x2_bitxor_assign]; exact @u128x2_bitxor_assign),
   (by rw [← CC.Src.src_null_u128x2_bitand]; exact @u128x2_bitand),
   (by rw [← CC.Src.src_null_u128x2_bitor]; exact @u128x2_bitor),
   (by rw [← CC.Src.src_null_u128x2_not]; exact @u128x2_not),
   (by rw [← CC.Src.src_null_u32x4_new]; exact @u32x4_new),
   (by rw [← CC.Src.src_null_u32x4_clone]; exact @u32x4_clone),
   (by rw [← CC.Src.src_null_u32x4_splat]; exact @u32x4_splat),
   (by rw [← CC.Src.src_null_u32x4_rotate_right]; exact @u32x4_rotate_right_total),
   (by rw [← CC.Src.src_null_u32x4_rotate_right]; exact @u32x4_rotate_right),
   (by rw [← CC.Src.src_null_u32x4_from_slice_unaligned]; exact @u32x4_from_slice_unaligned),
   (by rw [← CC.Src.src_null_u32x4_from_slice_unaligned]; exact @u32x4_from_slice_unaligned_debug_panic),
   (by rw [← CC.Src.src_null_u32x4_from_slice_unaligned]; exact @u32x4_from_slice_unaligned_release),
   (by rw [← CC.Src.src_null_u32x4_from_slice_unaligned]; exact @u32x4_from_slice_unaligned_release_panic),
   (by rw [← CC.Src.src_null_u32x4_write_to_slice_unaligned]; exact @u32x4_write_to_slice_unaligned),
   (by rw [← CC.Src.src_null_u32x4_write_to_slice_unaligned]; exact @u32x4_write_to_slice_unaligned_debug_panic),
   (by rw [← CC.Src.src_null_u32x4_write_to_slice_unaligned]; exact @u32x4_write_to_slice_unaligned_release),
   (by rw [← CC.Src.src_null_u32x4_write_to_slice_unaligned]; exact @u32x4_write_to_slice_unaligned_release_panic),
   (by rw [← CC.Src.src_null_u32x4_extract]; exact @u32x4_extract),
   (by rw [← CC.Src.src_null_u32x4_extract]; exact @u32x4_extract_panic),
   (by rw [← CC.Src.src_null_u32x4_replace]; exact @u32x4_replace),
   (by rw [← CC.Src.src_null_u32x4_replace]; exact @u32x4_replace_panic),
   (by rw [← CC.Src.src_null_u32x4_add_assign]; exact @u32x4_add_assign),
   (by rw [← CC.Src.src_null_u32x4_bitxor_assign]; exact @u32x4_bitxor_assign),
   (by rw [← CC.Src.src_null_u32x4_add]; exact @u32x4_add),
   (by rw [← CC.Src.src_null_u32x4_bitxor]; exact @u32x4_bitxor),
   (by rw [← CC.Src.src_null_u32x4_bitor]; exact @u32x4_bitor),
   (by rw [← CC.Src.src_null_u32x4_bitand]; exact @u32x4_bitand),
   (by rw [← CC.Src.src_null_u32x4_rotate_words_right]; exact @u32x4_rotate_words_right),
   (by rw [← CC.Src.src_null_u32x4_rotate_words_right]; exact @u32x4_rotate_words_right_debug_panic),
   (by rw [← CC.Src.src_null_u32x4_rotate_words_right]; exact @u32x4_rotate_words_right_release),
   (by rw [← CC.Src.src_null_u32x4_splat_rotate_right]; exact @u32x4_splat_rotate_right),
   (by rw [← CC.Src.src_null_u32x4_splat_rotate_right]; exact @u32x4_splat_rotate_right_debug_panic),
   (by rw [← CC.Src.src_null_u32x4_splat_rotate_right]; exact @u32x4_splat_rotate_right_release),
   (by rw [← CC.Src.src_null_u64x4_new]; exact @u64x4_new),
   (by rw [← CC.Src.src_null_u64x4_clone]; exact @u64x4_clone),
   (by rw [← CC.Src.src_null_u64x4_splat]; exact @u64x4_splat),
   (by rw [← CC.Src.src_null_u64x4_rotate_right]; exact @u64x4_rotate_right_total),
   (by rw [← CC.Src.src_null_u64x4_rotate_right]; exact @u64x4_rotate_right),
   (by rw [← CC.Src.src_null_u64x4_from_slice_unaligned]; exact @u64x4_from_slice_unaligned),
   (by rw [← CC.Src.src_null_u64x4_from_slice_unaligned]; exact @u64x4_from_slice_unaligned_debug_panic),
   (by rw [← CC.Src.src_null_u64x4_from_slice_unaligned]; exact @u64x4_from_slice_unaligned_release),
   (by rw [← CC.Src.src_null_u64x4_from_slice_unaligned]; exact @u64x4_from_slice_unaligned_release_panic),
   (by rw [← CC.Src.src_null_u64x4_write_to_slice_unaligned]; exact @u64x4_write_to_slice_unaligned),
   (by rw [← CC.Src.src_null_u64x4_write_to_slice_unaligned]; exact @u64x4_write_to_slice_unaligned_debug_panic),
   (by rw [← CC.Src.src_null_u64x4_write_to_slice_unaligned]; exact @u64x4_write_to_slice_unaligned_release),
   (by rw [← CC.Src.src_null_u64x4_write_to_slice_unaligned]; exact @u64x4_write_to_slice_unaligned_release_panic),
   (by rw [← CC.Src.src_null_u64x4_extract]; exact @u64x4_extract),
   (by rw [← CC.Src.src_null_u64x4_extract]; exact @u64x4_extract_panic),
   (by rw [← CC.Src.src_null_u64x4_replace]; exact @u64x4_replace),
   (by rw [← CC.Src.src_null_u64x4_replace]; exact @u64x4_replace_panic),
   (by rw [← CC.Src.src_null_u64x4_add_assign]; exact @u64x4_add_assign),
   (by rw [← CC.Src.src_null_u64x4_bitxor_assign]; exact @u64x4_bitxor_assign),
   (by rw [← CC.Src.src_null_u64x4_add]; exact @u64x4_add),
   (by rw [← CC.Src.src_null_u64x4_bitxor]; exact @u64x4_bitxor),
   (by rw [← CC.Src.src_null_u64x4_bitor]; exact @u64x4_bitor),
   (by rw [← CC.Src.src_null_u64x4_bitand]; exact @u64x4_bitand),
   (by rw [← CC.Src.src_null_u64x4_rotate_words_right]; exact @u64x4_rotate_words_right),
   (by rw [← CC.Src.src_null_u64x4_rotate_words_right]; exact @u64x4_rotate_words_right_debug_panic),
   (by rw [← CC.Src.src_null_u64x4_rotate_words_right]; exact @u64x4_rotate_words_right_release),
   (by rw [← CC.Src.src_null_u64x4_splat_rotate_right]; exact @u64x4_splat_rotate_right),
   (by rw [← CC.Src.src_null_u64x4_splat_rotate_right]; exact @u64x4_splat_rotate_right_debug_panic),
   (by rw [← CC.Src.src_null_u64x4_splat_rotate_right]; exact @u64x4_splat_rotate_right_release),
   (by rw [← CC.Src.src_null_u32x4x4_from]; exact @u32x4x4_from),
   (by rw [← CC.Src.src_null_u32x4x4_splat]; exact @u32x4x4_splat),
   (by rw [← CC.Src.src_null_u32x4x4_into_parts]; exact @u32x4x4_into_parts),
   (by rw [← CC.Src.src_null_u32x4x4_clone]; exact @u32x4x4_clone),
   (by rw [← CC.Src.src_null_u32x4x4_bitxor]; exact @u32x4x4_bitxor),
   (by rw [← CC.Src.src_null_u32x4x4_bitor]; exact @u32x4x4_bitor),
   (by rw [← CC.Src.src_null_u32x4x4_bitand]; exact @u32x4x4_bitand),
   (by rw [← CC.Src.src_null_u32x4x4_add]; exact @u32x4x4_add),
   (by rw [← CC.Src.src_null_u32x4x4_bitxor_assign]; exact @u32x4x4_bitxor_assign),
   (by rw [← CC.Src.src_null_u32x4x4_add_assign]; exact @u32x4x4_add_assign),
   (by rw [← CC.Src.src_null_u32x4x4_rotate_words_right]; exact @u32x4x4_rotate_words_right),
   (by rw [← CC.Src.src_null_u32x4x4_rotate_words_right]; exact @u32x4x4_rotate_words_right_debug_panic),
   (by rw [← CC.Src.src_null_u32x4x4_rotate_words_right]; exact @u32x4x4_rotate_words_right_release),
   (by rw [← CC.Src.src_null_u32x4x4_splat_rotate_right]; exact @u32x4x4_splat_rotate_right),
   (by rw [← CC.Src.src_null_u32x4x4_splat_rotate_right]; exact @u32x4x4_splat_rotate_right_debug_panic),
   (by rw [← CC.Src.src_null_u32x4x4_splat_rotate_right]; exact @u32x4x4_splat_rotate_right_release)⟩

end CC.Thm.C19
