/-
  C04 — BLAKE-224/256/384/512 conform to the SHA-3 finalist specification (and the BLAKE part of C17).
  Property theorems and non-vacuity examples only; helper lemmas live in CC/Blake/Lemmas.lean
  (compression function) and CC/Blake/MsgLemmas.lean (block buffer, counter, padding, message level).
-/
import CC.Blake.MsgLemmas
import CC.Blake.Src
namespace CC.Thm.C04
open CC CC.Simd CC.Blake

/-- `u32x4::put_block` (BLAKE-224/256) on the reference machine is the specified compression
    function with 14 rounds — for every chaining value, every block and every counter. -/
theorem put_block_eq_compress32 (st : Compressor (BitVec 128)) (block : List (BitVec 8))
    (t : BitVec 32 × BitVec 32) :
    hWords quad32 (putBlock (vops32 Mach.ref) cp32 st block t) =
      Spec.compress Spec.p32 (hWords quad32 st) block t.1 t.2 :=
  putBlock_eq_compress laws32_ref cp32 rfl sigma_take14 st block t

/-- `u64x4::put_block` (BLAKE-384/512) on the reference machine is the specified compression
    function with 16 rounds — for every chaining value, every block and every counter. -/
theorem put_block_eq_compress64 (st : Compressor (BitVec 256)) (block : List (BitVec 8))
    (t : BitVec 64 × BitVec 64) :
    hWords quad64 (putBlock (vops64 Mach.ref) cp64 st block t) =
      Spec.compress Spec.p64 (hWords quad64 st) block t.1 t.2 :=
  putBlock_eq_compress laws64_ref cp64 rfl sigma_take16 st block t

/-- `finalize_into_dirty` from any state reached after `k` full blocks with `rem` buffered
    (three cases inside: footer fits / exact fit / extra block; zero counter for a padding-only
    block) produces the specified final chaining value: the iteration of the compression
    function over the blocks of `rem ‖ padding ‖ length` with the specified counters — no panic
    in either profile.  (`KitLaws` holds for the four hashers: `laws224 … laws512`.) -/
theorem finalize_conforms {w V} {K : Kit w V} {H : Spec.HParams w} {hw : Compressor V → List (BitVec w)}
    (KL : KitLaws K H hw) (p : Profile) (s : Hasher w V) (rem : List (BitVec 8)) (k : Nat)
    (Hb : Holds s.buffer K.buf rem) (ht : s.t = splitT w (8 * K.buf * k))
    (hl : 8 * (K.buf * k + rem.length) < 2 ^ (2 * w)) :
    ∃ s' c', finalizeIntoDirty K p s = .ok (s', (K.finalize c').take K.outBytes) ∧
      hw c' = specTail H K.buf k (hw s.compressor) rem :=
  finalize_eq KL p s rem k Hb ht hl

/-- Conformance: for each of the four hash functions, every message whose bit length fits the
    length field (`< 2^64` for BLAKE-224/256, `< 2^128` for BLAKE-384/512), and both build
    profiles, one `update` with the whole message followed by `finalize` returns (does not panic)
    exactly the digest of the SHA-3 finalist specification. -/
theorem blake_conforms (p : Profile) (v : Spec.Variant) (msg : List (BitVec 8))
    (h : 8 * msg.length < maxBits v) :
    digest Mach.ref p v msg = .ok (Spec.blake v msg) :=
  digest_ref_eq p v msg h

/-- C17, BLAKE part: after absorbing `n` bytes (any `n` with `8n` below the format limit `2^(2w)`)
    `update` has not panicked in either profile, `n mod b` bytes are buffered, and the counter is
    `t = 8·(n − buffered)` split exactly into `(t.0, t.1) = (t mod 2^w, ⌊t / 2^w⌋)`.
    Instances: `laws224`, `laws256` (w = 32, b = 64), `laws384`, `laws512` (w = 64, b = 128). -/
theorem counter_exact {w V} {K : Kit w V} {H : Spec.HParams w} {hw : Compressor V → List (BitVec w)}
    (KL : KitLaws K H hw) (p : Profile) (msg : List (BitVec 8)) (hl : 8 * msg.length < 2 ^ (2 * w)) :
    ∃ s', update K p (Hasher.default K) msg = .ok s' ∧
      s'.buffer.pos = msg.length % K.buf ∧
      s'.t = (BitVec.ofNat w (8 * (msg.length - s'.buffer.pos)),
              BitVec.ofNat w (8 * (msg.length - s'.buffer.pos) / 2 ^ w)) :=
  update_counter KL p msg hl

/-- Streaming form of C04/C17: `Absorbed K H hw s m` says that `s` is the state reached after
    absorbing `m` (buffer holds the incomplete tail, `t = 8·b·⌊|m|/b⌋` as exact `(lo, hi)`, chaining
    value = specified iteration).  It holds initially, every `update` below the format limit keeps
    it without panic in either profile — for every chunking of the input — and `finalize` from
    any such state returns the specified hash of everything absorbed. -/
theorem streaming_conforms {w V} {K : Kit w V} {H : Spec.HParams w} {hw : Compressor V → List (BitVec w)}
    (KL : KitLaws K H hw) (p : Profile) :
    Absorbed K H hw (Hasher.default K) [] ∧
    (∀ (s : Hasher w V) (m xs : List (BitVec 8)), Absorbed K H hw s m → 8 * (m ++ xs).length < 2 ^ (2 * w) →
      ∃ s', update K p s xs = .ok s' ∧ Absorbed K H hw s' (m ++ xs)) ∧
    (∀ (s : Hasher w V) (m : List (BitVec 8)), Absorbed K H hw s m → 8 * m.length < 2 ^ (2 * w) →
      finalize K p s = .ok (Spec.hash H m)) :=
  ⟨absorbed_default KL, fun s m xs A h => update_absorbed KL p s m xs A h,
   fun s m A h => finalize_absorbed KL p s m A h⟩

/-- the carry step of `increase_count`, both profiles: exact below the limit, no panic -/
theorem increase_count_exact {w} (hw : w = 32 ∨ w = 64) (p : Profile) (T c : Nat)
    (hc : c * 8 < 2 ^ w) (hT : T + 8 * c < 2 ^ (2 * w)) :
    increaseCount p (splitT w T) (BitVec.ofNat w c) = .ok (splitT w (T + 8 * c)) :=
  increaseCount_split hw p T c hc hT

/-! ## non-vacuity / validation of the specification and the model on official vectors -/

-- the hypotheses of `counter_exact`/`blake_conforms` are satisfiable beyond 2^32 bits
example : 8 * 2 ^ 40 < maxBits .b256 := by decide
example : 8 * 2 ^ 100 < maxBits .b512 := by decide
example : KitLaws (kit224 Mach.ref) Spec.h224 (hWords quad32) := laws224
example : KitLaws (kit256 Mach.ref) Spec.h256 (hWords quad32) := laws256
example : KitLaws (kit384 Mach.ref) Spec.h384 (hWords quad64) := laws384
example : KitLaws (kit512 Mach.ref) Spec.h512 (hWords quad64) := laws512

/-- BLAKE-256("") -/
example : Spec.blake .b256 [] = [0x71#8, 0x6f#8, 0x6e#8, 0x86#8, 0x3f#8, 0x74#8, 0x4b#8, 0x9a#8, 0xc2#8, 0x2c#8, 0x97#8, 0xec#8, 0x7b#8, 0x76#8, 0xea#8, 0x5f#8, 0x59#8, 0x08#8, 0xbc#8, 0x5b#8, 0x2f#8, 0x67#8, 0xc6#8, 0x15#8, 0x10#8, 0xbf#8, 0xc4#8, 0x75#8, 0x13#8, 0x84#8, 0xea#8, 0x7a#8] := by decide +kernel
example : okVal (digest Mach.ref .debug .b256 []) = some [0x71#8, 0x6f#8, 0x6e#8, 0x86#8, 0x3f#8, 0x74#8, 0x4b#8, 0x9a#8, 0xc2#8, 0x2c#8, 0x97#8, 0xec#8, 0x7b#8, 0x76#8, 0xea#8, 0x5f#8, 0x59#8, 0x08#8, 0xbc#8, 0x5b#8, 0x2f#8, 0x67#8, 0xc6#8, 0x15#8, 0x10#8, 0xbf#8, 0xc4#8, 0x75#8, 0x13#8, 0x84#8, 0xea#8, 0x7a#8] := by decide +kernel
/-- BLAKE-512("") -/
example : Spec.blake .b512 [] = [0xa8#8, 0xcf#8, 0xbb#8, 0xd7#8, 0x37#8, 0x26#8, 0x06#8, 0x2d#8, 0xf0#8, 0xc6#8, 0x86#8, 0x4d#8, 0xda#8, 0x65#8, 0xde#8, 0xfe#8, 0x58#8, 0xef#8, 0x0c#8, 0xc5#8, 0x2a#8, 0x56#8, 0x25#8, 0x09#8, 0x0f#8, 0xa1#8, 0x76#8, 0x01#8, 0xe1#8, 0xee#8, 0xcd#8, 0x1b#8, 0x62#8, 0x8e#8, 0x94#8, 0xf3#8, 0x96#8, 0xae#8, 0x40#8, 0x2a#8, 0x00#8, 0xac#8, 0xc9#8, 0xea#8, 0xb7#8, 0x7b#8, 0x4d#8, 0x4c#8, 0x2e#8, 0x85#8, 0x2a#8, 0xaa#8, 0xa2#8, 0x5a#8, 0x63#8, 0x6d#8, 0x80#8, 0xaf#8, 0x3f#8, 0xc7#8, 0x91#8, 0x3e#8, 0xf5#8, 0xb8#8] := by decide +kernel
example : okVal (digest Mach.ref .release .b512 []) = some [0xa8#8, 0xcf#8, 0xbb#8, 0xd7#8, 0x37#8, 0x26#8, 0x06#8, 0x2d#8, 0xf0#8, 0xc6#8, 0x86#8, 0x4d#8, 0xda#8, 0x65#8, 0xde#8, 0xfe#8, 0x58#8, 0xef#8, 0x0c#8, 0xc5#8, 0x2a#8, 0x56#8, 0x25#8, 0x09#8, 0x0f#8, 0xa1#8, 0x76#8, 0x01#8, 0xe1#8, 0xee#8, 0xcd#8, 0x1b#8, 0x62#8, 0x8e#8, 0x94#8, 0xf3#8, 0x96#8, 0xae#8, 0x40#8, 0x2a#8, 0x00#8, 0xac#8, 0xc9#8, 0xea#8, 0xb7#8, 0x7b#8, 0x4d#8, 0x4c#8, 0x2e#8, 0x85#8, 0x2a#8, 0xaa#8, 0xa2#8, 0x5a#8, 0x63#8, 0x6d#8, 0x80#8, 0xaf#8, 0x3f#8, 0xc7#8, 0x91#8, 0x3e#8, 0xf5#8, 0xb8#8] := by decide +kernel
/-- /repo/hashes/blake/tests/data/blake224.blb: one zero byte; 72 zero bytes -/
example : Spec.blake .b224 [0x00#8] = [0x45#8, 0x04#8, 0xcb#8, 0x03#8, 0x14#8, 0xfb#8, 0x2a#8, 0x4f#8, 0x7a#8, 0x69#8, 0x2e#8, 0x69#8, 0x6e#8, 0x48#8, 0x79#8, 0x12#8, 0xfe#8, 0x3f#8, 0x24#8, 0x68#8, 0xfe#8, 0x31#8, 0x2c#8, 0x73#8, 0xa5#8, 0x27#8, 0x8e#8, 0xc5#8] := by decide +kernel
example : Spec.blake .b224 (List.replicate 72 0x00#8) = [0xf5#8, 0xaa#8, 0x00#8, 0xdd#8, 0x1c#8, 0xb8#8, 0x47#8, 0xe3#8, 0x14#8, 0x03#8, 0x72#8, 0xaf#8, 0x7b#8, 0x5c#8, 0x46#8, 0xb4#8, 0x88#8, 0x8d#8, 0x82#8, 0xc8#8, 0xc0#8, 0xa9#8, 0x17#8, 0x91#8, 0x3c#8, 0xfb#8, 0x5d#8, 0x04#8] := by decide +kernel
example : okVal (digest Mach.ref .debug .b224 (List.replicate 72 0x00#8)) = some [0xf5#8, 0xaa#8, 0x00#8, 0xdd#8, 0x1c#8, 0xb8#8, 0x47#8, 0xe3#8, 0x14#8, 0x03#8, 0x72#8, 0xaf#8, 0x7b#8, 0x5c#8, 0x46#8, 0xb4#8, 0x88#8, 0x8d#8, 0x82#8, 0xc8#8, 0xc0#8, 0xa9#8, 0x17#8, 0x91#8, 0x3c#8, 0xfb#8, 0x5d#8, 0x04#8] := by decide +kernel
/-- blake256.blb -/
example : Spec.blake .b256 [0x00#8] = [0x0c#8, 0xe8#8, 0xd4#8, 0xef#8, 0x4d#8, 0xd7#8, 0xcd#8, 0x8d#8, 0x62#8, 0xdf#8, 0xde#8, 0xd9#8, 0xd4#8, 0xed#8, 0xb0#8, 0xa7#8, 0x74#8, 0xae#8, 0x6a#8, 0x41#8, 0x92#8, 0x9a#8, 0x74#8, 0xda#8, 0x23#8, 0x10#8, 0x9e#8, 0x8f#8, 0x11#8, 0x13#8, 0x9c#8, 0x87#8] := by decide +kernel
example : Spec.blake .b256 (List.replicate 72 0x00#8) = [0xd4#8, 0x19#8, 0xba#8, 0xd3#8, 0x2d#8, 0x50#8, 0x4f#8, 0xb7#8, 0xd4#8, 0x4d#8, 0x46#8, 0x0c#8, 0x42#8, 0xc5#8, 0x59#8, 0x3f#8, 0xe5#8, 0x44#8, 0xfa#8, 0x4c#8, 0x13#8, 0x5d#8, 0xec#8, 0x31#8, 0xe2#8, 0x1b#8, 0xd9#8, 0xab#8, 0xdc#8, 0xc2#8, 0x2d#8, 0x41#8] := by decide +kernel
example : okVal (digest Mach.ref .debug .b256 (List.replicate 72 0x00#8)) = some [0xd4#8, 0x19#8, 0xba#8, 0xd3#8, 0x2d#8, 0x50#8, 0x4f#8, 0xb7#8, 0xd4#8, 0x4d#8, 0x46#8, 0x0c#8, 0x42#8, 0xc5#8, 0x59#8, 0x3f#8, 0xe5#8, 0x44#8, 0xfa#8, 0x4c#8, 0x13#8, 0x5d#8, 0xec#8, 0x31#8, 0xe2#8, 0x1b#8, 0xd9#8, 0xab#8, 0xdc#8, 0xc2#8, 0x2d#8, 0x41#8] := by decide +kernel
/-- blake384.blb: one zero byte; 144 zero bytes -/
example : Spec.blake .b384 [0x00#8] = [0x10#8, 0x28#8, 0x1f#8, 0x67#8, 0xe1#8, 0x35#8, 0xe9#8, 0x0a#8, 0xe8#8, 0xe8#8, 0x82#8, 0x25#8, 0x1a#8, 0x35#8, 0x55#8, 0x10#8, 0xa7#8, 0x19#8, 0x36#8, 0x7a#8, 0xd7#8, 0x02#8, 0x27#8, 0xb1#8, 0x37#8, 0x34#8, 0x3e#8, 0x1b#8, 0xc1#8, 0x22#8, 0x01#8, 0x5c#8, 0x29#8, 0x39#8, 0x1e#8, 0x85#8, 0x45#8, 0xb5#8, 0x27#8, 0x2d#8, 0x13#8, 0xa7#8, 0xc2#8, 0x87#8, 0x9d#8, 0xa3#8, 0xd8#8, 0x07#8] := by decide +kernel
example : Spec.blake .b384 (List.replicate 144 0x00#8) = [0x0b#8, 0x98#8, 0x45#8, 0xdd#8, 0x42#8, 0x95#8, 0x66#8, 0xcd#8, 0xab#8, 0x77#8, 0x2b#8, 0xa1#8, 0x95#8, 0xd2#8, 0x71#8, 0xef#8, 0xfe#8, 0x2d#8, 0x02#8, 0x11#8, 0xf1#8, 0x69#8, 0x91#8, 0xd7#8, 0x66#8, 0xba#8, 0x74#8, 0x94#8, 0x47#8, 0xc5#8, 0xcd#8, 0xe5#8, 0x69#8, 0x78#8, 0x0b#8, 0x2d#8, 0xaa#8, 0x66#8, 0xc4#8, 0xb2#8, 0x24#8, 0xa2#8, 0xec#8, 0x2e#8, 0x5d#8, 0x09#8, 0x17#8, 0x4c#8] := by decide +kernel
example : okVal (digest Mach.ref .debug .b384 (List.replicate 144 0x00#8)) = some [0x0b#8, 0x98#8, 0x45#8, 0xdd#8, 0x42#8, 0x95#8, 0x66#8, 0xcd#8, 0xab#8, 0x77#8, 0x2b#8, 0xa1#8, 0x95#8, 0xd2#8, 0x71#8, 0xef#8, 0xfe#8, 0x2d#8, 0x02#8, 0x11#8, 0xf1#8, 0x69#8, 0x91#8, 0xd7#8, 0x66#8, 0xba#8, 0x74#8, 0x94#8, 0x47#8, 0xc5#8, 0xcd#8, 0xe5#8, 0x69#8, 0x78#8, 0x0b#8, 0x2d#8, 0xaa#8, 0x66#8, 0xc4#8, 0xb2#8, 0x24#8, 0xa2#8, 0xec#8, 0x2e#8, 0x5d#8, 0x09#8, 0x17#8, 0x4c#8] := by decide +kernel
/-- blake512.blb -/
example : Spec.blake .b512 [0x00#8] = [0x97#8, 0x96#8, 0x15#8, 0x87#8, 0xf6#8, 0xd9#8, 0x70#8, 0xfa#8, 0xba#8, 0x6d#8, 0x24#8, 0x78#8, 0x04#8, 0x5d#8, 0xe6#8, 0xd1#8, 0xfa#8, 0xbd#8, 0x09#8, 0xb6#8, 0x1a#8, 0xe5#8, 0x09#8, 0x32#8, 0x05#8, 0x4d#8, 0x52#8, 0xbc#8, 0x29#8, 0xd3#8, 0x1b#8, 0xe4#8, 0xff#8, 0x91#8, 0x02#8, 0xb9#8, 0xf6#8, 0x9e#8, 0x2b#8, 0xbd#8, 0xb8#8, 0x3b#8, 0xe1#8, 0x3d#8, 0x4b#8, 0x9c#8, 0x06#8, 0x09#8, 0x1e#8, 0x5f#8, 0xa0#8, 0xb4#8, 0x8b#8, 0xd0#8, 0x81#8, 0xb6#8, 0x34#8, 0x05#8, 0x8b#8, 0xe0#8, 0xec#8, 0x49#8, 0xbe#8, 0xb3#8] := by decide +kernel
example : Spec.blake .b512 (List.replicate 144 0x00#8) = [0x31#8, 0x37#8, 0x17#8, 0xd6#8, 0x08#8, 0xe9#8, 0xcf#8, 0x75#8, 0x8d#8, 0xcb#8, 0x1e#8, 0xb0#8, 0xf0#8, 0xc3#8, 0xcf#8, 0x9f#8, 0xc1#8, 0x50#8, 0xb2#8, 0xd5#8, 0x00#8, 0xfb#8, 0x33#8, 0xf5#8, 0x1c#8, 0x52#8, 0xaf#8, 0xc9#8, 0x9d#8, 0x35#8, 0x8a#8, 0x2f#8, 0x13#8, 0x74#8, 0xb8#8, 0xa3#8, 0x8b#8, 0xba#8, 0x79#8, 0x74#8, 0xe7#8, 0xf6#8, 0xef#8, 0x79#8, 0xca#8, 0xb1#8, 0x6f#8, 0x22#8, 0xce#8, 0x1e#8, 0x64#8, 0x9d#8, 0x6e#8, 0x01#8, 0xad#8, 0x95#8, 0x89#8, 0xc2#8, 0x13#8, 0x04#8, 0x5d#8, 0x54#8, 0x5d#8, 0xde#8] := by decide +kernel
example : okVal (digest Mach.ref .debug .b512 (List.replicate 144 0x00#8)) = some [0x31#8, 0x37#8, 0x17#8, 0xd6#8, 0x08#8, 0xe9#8, 0xcf#8, 0x75#8, 0x8d#8, 0xcb#8, 0x1e#8, 0xb0#8, 0xf0#8, 0xc3#8, 0xcf#8, 0x9f#8, 0xc1#8, 0x50#8, 0xb2#8, 0xd5#8, 0x00#8, 0xfb#8, 0x33#8, 0xf5#8, 0x1c#8, 0x52#8, 0xaf#8, 0xc9#8, 0x9d#8, 0x35#8, 0x8a#8, 0x2f#8, 0x13#8, 0x74#8, 0xb8#8, 0xa3#8, 0x8b#8, 0xba#8, 0x79#8, 0x74#8, 0xe7#8, 0xf6#8, 0xef#8, 0x79#8, 0xca#8, 0xb1#8, 0x6f#8, 0x22#8, 0xce#8, 0x1e#8, 0x64#8, 0x9d#8, 0x6e#8, 0x01#8, 0xad#8, 0x95#8, 0x89#8, 0xc2#8, 0x13#8, 0x04#8, 0x5d#8, 0x54#8, 0x5d#8, 0xde#8] := by decide +kernel

/-- **Source tie.**  `round32`, `round64`, `diagonalize`, `undiagonalize` of hashes/blake/src/lib.rs, as TRANSLATED
    from the Rust source on every run (tools/inventory_kernels.py → `CC.Gen.Kernels`), equal the model's
    `roundV` / `diagonalize` / `undiagonalize` at the two vector types with the rotation distances of
    `cp32` / `cp64`; the tables of consts.rs (`PADDING`, `SIGMA`, `BLAKE256_U`, `BLAKE512_U`, the four IVs) equal
    the model's; the arguments of the `define_compressor!` / `define_hasher!` invocations (round counts 14 / 16,
    block sizes, digest bits and bytes, which U table / IV / round function) are those of the model's
    `cp32`, `cp64`, `kit224` … `kit512`.  Individual facts: `CC.Src.src_blake_*` (lean/CC/Blake/Src.lean). -/
theorem source_kernels_match :
    CC.Gen.Kernels.blake_errors = [] ∧
    ((fun M => roundV (vops32 M) cp32) =
      fun M x m0 m1 => CC.Src.rowsOf (CC.Gen.Kernels.blake_round32 M x.a x.b x.c x.d m0 m1)) ∧
    ((fun M => roundV (vops64 M) cp64) =
      fun M x m0 m1 => CC.Src.rowsOf (CC.Gen.Kernels.blake_round64 M x.a x.b x.c x.d m0 m1)) ∧
    ((fun M => CC.Blake.diagonalize (vops32 M)) =
      fun M x => CC.Src.rowsOf (CC.Gen.Kernels.blake_diagonalize32 M x.a x.b x.c x.d)) ∧
    ((fun M => CC.Blake.undiagonalize (vops32 M)) =
      fun M x => CC.Src.rowsOf (CC.Gen.Kernels.blake_undiagonalize32 M x.a x.b x.c x.d)) ∧
    ((fun M => CC.Blake.diagonalize (vops64 M)) =
      fun M x => CC.Src.rowsOf (CC.Gen.Kernels.blake_diagonalize64 M x.a x.b x.c x.d)) ∧
    ((fun M => CC.Blake.undiagonalize (vops64 M)) =
      fun M x => CC.Src.rowsOf (CC.Gen.Kernels.blake_undiagonalize64 M x.a x.b x.c x.d)) ∧
    PADDING = CC.Gen.Kernels.blake_PADDING ∧ SIGMA = CC.Gen.Kernels.blake_SIGMA ∧
    BLAKE256_U = CC.Gen.Kernels.blake_BLAKE256_U ∧ BLAKE512_U = CC.Gen.Kernels.blake_BLAKE512_U ∧
    BLAKE224_IV = CC.Src.iv32Of CC.Gen.Kernels.blake_BLAKE224_IV ∧
    BLAKE256_IV = CC.Src.iv32Of CC.Gen.Kernels.blake_BLAKE256_IV ∧
    BLAKE384_IV = CC.Src.iv64Of CC.Gen.Kernels.blake_BLAKE384_IV ∧
    BLAKE512_IV = CC.Src.iv64Of CC.Gen.Kernels.blake_BLAKE512_IV ∧
    CC.Gen.Kernels.blake_define_compressor =
      [("Compressor256", "vec128_storage", "u32", (kit256 Mach.ref).buf, "BLAKE256_U", cp32.rounds, "round32", "u32x4"),
       ("Compressor512", "vec256_storage", "u64", (kit512 Mach.ref).buf, "BLAKE512_U", cp64.rounds, "round64", "u64x4")] ∧
    CC.Gen.Kernels.blake_define_hasher =
      [("Blake224", "u32", (kit224 Mach.ref).buf, (kit224 Mach.ref).buf, (kit224 Mach.ref).bits,
          (kit224 Mach.ref).outBytes, "Compressor256", "BLAKE224_IV"),
       ("Blake256", "u32", (kit256 Mach.ref).buf, (kit256 Mach.ref).buf, (kit256 Mach.ref).bits,
          (kit256 Mach.ref).outBytes, "Compressor256", "BLAKE256_IV"),
       ("Blake384", "u64", (kit384 Mach.ref).buf, (kit384 Mach.ref).buf, (kit384 Mach.ref).bits,
          (kit384 Mach.ref).outBytes, "Compressor512", "BLAKE384_IV"),
       ("Blake512", "u64", (kit512 Mach.ref).buf, (kit512 Mach.ref).buf, (kit512 Mach.ref).bits,
          (kit512 Mach.ref).outBytes, "Compressor512", "BLAKE512_IV")] :=
  ⟨CC.Src.src_blake_clean, CC.Src.src_blake_round32, CC.Src.src_blake_round64, CC.Src.src_blake_diagonalize32,
   CC.Src.src_blake_undiagonalize32, CC.Src.src_blake_diagonalize64, CC.Src.src_blake_undiagonalize64,
   CC.Src.src_blake_PADDING, CC.Src.src_blake_SIGMA, CC.Src.src_blake_U256, CC.Src.src_blake_U512,
   CC.Src.src_blake_IV224, CC.Src.src_blake_IV256, CC.Src.src_blake_IV384, CC.Src.src_blake_IV512,
   CC.Src.src_blake_define_compressor.1, CC.Src.src_blake_define_hasher.1⟩

/-- **Source tie, macro bodies.**  `$X4::put_block` (the body of `define_compressor!`: big-endian message words, `u`, the
    `t` xor, the `for sigma in &SIGMA[..$rounds]` loop with the local macros `m0!` / `m1!`, the final xor) for both
    instantiations, and `increase_count` (body of `define_hasher!`) for all four, as TRANSLATED from the Rust on every
    run (tools/inventory_kernels_code.py → `CC.Gen.Kernels`), equal the model's `putBlock` / `increaseCount`.
    Individual facts: `CC.Src.src_blake_put_block_*`, `CC.Src.src_blake_increase_count_*` (lean/CC/Blake/Src.lean).
    `update` / `finalize_into_dirty` (closures over `BlockBuffer`): `source_glue_match` below. -/
theorem source_code_match :
    CC.Gen.Kernels.blake_errors = [] ∧
    (∀ (M : Mach) (c : Compressor (BitVec 128)) (block : List (BitVec 8)) (t : BitVec 32 × BitVec 32),
      putBlock (vops32 M) cp32 c block t =
        CC.Src.compOf (CC.Gen.Kernels.blake_put_block_u32x4 M c.h0 c.h1 block t.1 t.2)) ∧
    (∀ (M : Mach) (c : Compressor (BitVec 256)) (block : List (BitVec 8)) (t : BitVec 64 × BitVec 64),
      putBlock (vops64 M) cp64 c block t =
        CC.Src.compOf (CC.Gen.Kernels.blake_put_block_u64x4 M c.h0 c.h1 block t.1 t.2)) ∧
    (∀ (p : Profile) (t : BitVec 32 × BitVec 32) (count : BitVec 32),
      increaseCount p t count = CC.Gen.Kernels.blake_increase_count_224 p t.1 t.2 count ∧
      increaseCount p t count = CC.Gen.Kernels.blake_increase_count_256 p t.1 t.2 count) ∧
    (∀ (p : Profile) (t : BitVec 64 × BitVec 64) (count : BitVec 64),
      increaseCount p t count = CC.Gen.Kernels.blake_increase_count_384 p t.1 t.2 count ∧
      increaseCount p t count = CC.Gen.Kernels.blake_increase_count_512 p t.1 t.2 count) :=
  ⟨CC.Src.src_blake_clean, CC.Src.src_blake_put_block_u32x4, CC.Src.src_blake_put_block_u64x4,
   fun p t c => ⟨CC.Src.src_blake_increase_count_224 p t c, CC.Src.src_blake_increase_count_256 p t c⟩,
   fun p t c => ⟨CC.Src.src_blake_increase_count_384 p t c, CC.Src.src_blake_increase_count_512 p t c⟩⟩

/-- **Source tie, glue.**  `Default::default`, `Update::update`, `FixedOutputDirty::finalize_into_dirty` and
    `Reset::reset` of the four `define_hasher!` instantiations, as TRANSLATED from hashes/blake/src/lib.rs on every run
    (tools/inventory_kernels_glue.py → `CC.Gen.Kernels`), equal the model's `Hasher.default` / `update` /
    `finalizeIntoDirty` / `reset` on the flat encoding of the struct fields (`CC.Src.blakeEnc`, `CC.Src.blakeEncOut`),
    for every machine, both profiles, every state (for `finalize_into_dirty`: with the block-buffer invariant
    `buffer.pos ≤ $buf`) and every input, up to the panic message (`CC.Src.noMsg`).  `$compressor::finalize` is a
    parameter of the generated definition, instantiated with the model's `finalizeC`.
    Individual facts: `CC.Src.src_blake_{default,update,finalize_into_dirty,reset}_*` (lean/CC/Blake/Src.lean); the
    generic part is lean/CC/Lemmas/SrcGlueBlake.lean (`update_glue`, `finalize_glue`). -/
theorem source_glue_match :
    CC.Gen.Kernels.blake_errors = [] ∧
    -- the struct declarations: `Clone` is derived (field-wise copy); a hand-written `Clone` makes the translator fail
    CC.Gen.Kernels.blake_structs =
      [("Compressor256", "struct", ["h"], ["Clone", "Copy", "Default"], []),
       ("Compressor512", "struct", ["h"], ["Clone", "Copy", "Default"], []),
       ("Blake224", "struct", ["compressor", "buffer", "t"], ["Clone"], ["Default"]),
       ("Blake256", "struct", ["compressor", "buffer", "t"], ["Clone"], ["Default"]),
       ("Blake384", "struct", ["compressor", "buffer", "t"], ["Clone"], ["Default"]),
       ("Blake512", "struct", ["compressor", "buffer", "t"], ["Clone"], ["Default"])] ∧
    (∀ (M : Mach), CC.Src.blakeEnc (Hasher.default (kit224 M)) = CC.Gen.Kernels.blake_default_224) ∧
    (∀ (M : Mach) (p : Profile) (h : Hasher 32 (BitVec 128)) (data : List (BitVec 8)),
      CC.Src.noMsg (CC.Gen.Kernels.blake_update_224 M p h.compressor.h0 h.compressor.h1 h.buffer h.t.1 h.t.2 data)
        = CC.Src.noMsg (update (kit224 M) p h data >>= fun h' => .ok (CC.Src.blakeEnc h'))) ∧
    (∀ (M : Mach) (p : Profile) (h : Hasher 32 (BitVec 128)), h.buffer.pos ≤ 64 → ∀ (out : List (BitVec 8)),
      CC.Src.noMsg (CC.Gen.Kernels.blake_finalize_into_dirty_224 (fun a b => finalizeC (vops32 M) ⟨a, b⟩) M p
          h.compressor.h0 h.compressor.h1 h.buffer h.t.1 h.t.2 out)
        = CC.Src.noMsg (finalizeIntoDirty (kit224 M) p h >>= fun r => .ok (CC.Src.blakeEncOut r))) ∧
    (∀ (M : Mach) (h : Hasher 32 (BitVec 128)),
      CC.Src.blakeEnc (reset (kit224 M) h)
        = CC.Gen.Kernels.blake_reset_224 h.compressor.h0 h.compressor.h1 h.buffer h.t.1 h.t.2) ∧
    (∀ (M : Mach), CC.Src.blakeEnc (Hasher.default (kit256 M)) = CC.Gen.Kernels.blake_default_256) ∧
    (∀ (M : Mach) (p : Profile) (h : Hasher 32 (BitVec 128)) (data : List (BitVec 8)),
      CC.Src.noMsg (CC.Gen.Kernels.blake_update_256 M p h.compressor.h0 h.compressor.h1 h.buffer h.t.1 h.t.2 data)
        = CC.Src.noMsg (update (kit256 M) p h data >>= fun h' => .ok (CC.Src.blakeEnc h'))) ∧
    (∀ (M : Mach) (p : Profile) (h : Hasher 32 (BitVec 128)), h.buffer.pos ≤ 64 → ∀ (out : List (BitVec 8)),
      CC.Src.noMsg (CC.Gen.Kernels.blake_finalize_into_dirty_256 (fun a b => finalizeC (vops32 M) ⟨a, b⟩) M p
          h.compressor.h0 h.compressor.h1 h.buffer h.t.1 h.t.2 out)
        = CC.Src.noMsg (finalizeIntoDirty (kit256 M) p h >>= fun r => .ok (CC.Src.blakeEncOut r))) ∧
    (∀ (M : Mach) (h : Hasher 32 (BitVec 128)),
      CC.Src.blakeEnc (reset (kit256 M) h)
        = CC.Gen.Kernels.blake_reset_256 h.compressor.h0 h.compressor.h1 h.buffer h.t.1 h.t.2) ∧
    (∀ (M : Mach), CC.Src.blakeEnc (Hasher.default (kit384 M)) = CC.Gen.Kernels.blake_default_384) ∧
    (∀ (M : Mach) (p : Profile) (h : Hasher 64 (BitVec 256)) (data : List (BitVec 8)),
      CC.Src.noMsg (CC.Gen.Kernels.blake_update_384 M p h.compressor.h0 h.compressor.h1 h.buffer h.t.1 h.t.2 data)
        = CC.Src.noMsg (update (kit384 M) p h data >>= fun h' => .ok (CC.Src.blakeEnc h'))) ∧
    (∀ (M : Mach) (p : Profile) (h : Hasher 64 (BitVec 256)), h.buffer.pos ≤ 128 → ∀ (out : List (BitVec 8)),
      CC.Src.noMsg (CC.Gen.Kernels.blake_finalize_into_dirty_384 (fun a b => finalizeC (vops64 M) ⟨a, b⟩) M p
          h.compressor.h0 h.compressor.h1 h.buffer h.t.1 h.t.2 out)
        = CC.Src.noMsg (finalizeIntoDirty (kit384 M) p h >>= fun r => .ok (CC.Src.blakeEncOut r))) ∧
    (∀ (M : Mach) (h : Hasher 64 (BitVec 256)),
      CC.Src.blakeEnc (reset (kit384 M) h)
        = CC.Gen.Kernels.blake_reset_384 h.compressor.h0 h.compressor.h1 h.buffer h.t.1 h.t.2) ∧
    (∀ (M : Mach), CC.Src.blakeEnc (Hasher.default (kit512 M)) = CC.Gen.Kernels.blake_default_512) ∧
    (∀ (M : Mach) (p : Profile) (h : Hasher 64 (BitVec 256)) (data : List (BitVec 8)),
      CC.Src.noMsg (CC.Gen.Kernels.blake_update_512 M p h.compressor.h0 h.compressor.h1 h.buffer h.t.1 h.t.2 data)
        = CC.Src.noMsg (update (kit512 M) p h data >>= fun h' => .ok (CC.Src.blakeEnc h'))) ∧
    (∀ (M : Mach) (p : Profile) (h : Hasher 64 (BitVec 256)), h.buffer.pos ≤ 128 → ∀ (out : List (BitVec 8)),
      CC.Src.noMsg (CC.Gen.Kernels.blake_finalize_into_dirty_512 (fun a b => finalizeC (vops64 M) ⟨a, b⟩) M p
          h.compressor.h0 h.compressor.h1 h.buffer h.t.1 h.t.2 out)
        = CC.Src.noMsg (finalizeIntoDirty (kit512 M) p h >>= fun r => .ok (CC.Src.blakeEncOut r))) ∧
    (∀ (M : Mach) (h : Hasher 64 (BitVec 256)),
      CC.Src.blakeEnc (reset (kit512 M) h)
        = CC.Gen.Kernels.blake_reset_512 h.compressor.h0 h.compressor.h1 h.buffer h.t.1 h.t.2) :=
  ⟨CC.Src.src_blake_clean, CC.Src.src_blake_structs,
   CC.Src.src_blake_default_224, CC.Src.src_blake_update_224,
   fun M p h hpos out => CC.Src.src_blake_finalize_into_dirty_224 M p h hpos out, CC.Src.src_blake_reset_224,
   CC.Src.src_blake_default_256, CC.Src.src_blake_update_256,
   fun M p h hpos out => CC.Src.src_blake_finalize_into_dirty_256 M p h hpos out, CC.Src.src_blake_reset_256,
   CC.Src.src_blake_default_384, CC.Src.src_blake_update_384,
   fun M p h hpos out => CC.Src.src_blake_finalize_into_dirty_384 M p h hpos out, CC.Src.src_blake_reset_384,
   CC.Src.src_blake_default_512, CC.Src.src_blake_update_512,
   fun M p h hpos out => CC.Src.src_blake_finalize_into_dirty_512 M p h hpos out, CC.Src.src_blake_reset_512⟩

end CC.Thm.C04
