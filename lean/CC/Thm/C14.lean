/-
  C14 — ChaCha block API: the 4-block refill equals four 1-block refills; 64-bit counter.
  Property theorems only (helpers: CC/ChaCha/Wide.lean, CC/ChaCha/Lemmas.lean).
-/
import CC.ChaCha.Wide
import CC.Thm.C01
namespace CC.Thm.C14
open CC CC.Simd CC.ChaCha CC.ChaCha.Spec

/-- `refill4` = four consecutive `refill`s: same 256 bytes, same final state — for every state
    (key, stream id, 64-bit counter incl. every carry position) and every number of double rounds. -/
theorem refill4_eq (s : Guts) (dr : Nat) :
    refill4 Mach.ref s dr =
      (let r0 := refill Mach.ref s dr
       let r1 := refill Mach.ref r0.2 dr
       let r2 := refill Mach.ref r1.2 dr
       let r3 := refill Mach.ref r2.2 dr
       (r0.1 ++ r1.1 ++ r2.1 ++ r3.1, r3.2)) := by
  have e2 : (1 : BitVec 64) + 1 = 2 := by decide
  have e3 : (2 : BitVec 64) + 1 = 3 := by decide
  have e4 : (3 : BitVec 64) + 1 = 4 := by decide
  simp only [refill4_ref_eq, refill_ref_eq, wideBlock, addLo_zero, addLo_addLo, e2, e3, e4]

/-- The 64-bit block counter (stream parameter 0) as a number. -/
def counter (s : Guts) : BitVec 64 := (lane32 s.d 1 ++ lane32 s.d 0)
/-- The stream id (stream parameter 1). -/
def streamId (s : Guts) : BitVec 64 := (lane32 s.d 3 ++ lane32 s.d 2)

/-- A refill advances the 64-bit counter by exactly one (mod 2^64, carrying from the low into the
    high counter word), never touches the stream-id words or the key, and never panics (the model
    is total) — for any number of double rounds including zero. -/
theorem refill_counter (s : Guts) (dr : Nat) :
    counter (refill Mach.ref s dr).2 = counter s + 1 ∧
    streamId (refill Mach.ref s dr).2 = streamId s ∧
    (refill Mach.ref s dr).2.b = s.b ∧ (refill Mach.ref s dr).2.c = s.c := by
  simp only [refill_ref_eq, counter, streamId, and_true]
  constructor <;> (unfold addLo zip64 lane64 pack64 lane32; bv_decide)

/-- … and four at once advance it by four. -/
theorem refill4_counter (s : Guts) (dr : Nat) :
    counter (refill4 Mach.ref s dr).2 = counter s + 4 ∧
    streamId (refill4 Mach.ref s dr).2 = streamId s ∧
    (refill4 Mach.ref s dr).2.b = s.b ∧ (refill4 Mach.ref s dr).2.c = s.c := by
  simp only [refill4_ref_eq, counter, streamId, and_true]
  constructor <;> (unfold addLo zip64 lane64 pack64 lane32; bv_decide)

/-- The emitted block is the specified block function at the *current* counter. -/
theorem refill_block (s : Guts) (dr : Nat) :
    (refill Mach.ref s dr).1 = serialize (add (rounds dr (gutsS16 s)) (gutsS16 s)) :=
  refill_ref_block s dr

/-- Non-vacuity: a state whose low counter word is 2^32 − 1 carries into the high word. -/
example : counter { b := 0, c := 0, d := pack32 0xffffffff#32 7#32 1#32 2#32 } + 1
    = 0x0000000800000000#64 := by decide


/-- **Source tie.**  The definitions of `guts.rs` this property is about (`refill`, `refill4` = `refill_wide_impl`,
    `inc_block_ct`, `d0123`, `add_pos`, `set_stream_param` / `get_stream_param`, the stream-equality predicates, the
    constructors) are the ones REGENERATED from /repo's current source: same statement as `CC.Thm.C01.source_code_match`
    and `source_kernels_match`, registered here so that a change of that code breaks an obligation of this property too. -/
theorem source_code_match : type_of% @CC.Thm.C01.source_code_match ∧ type_of% @CC.Thm.C01.source_kernels_match :=
  ⟨CC.Thm.C01.source_code_match, CC.Thm.C01.source_kernels_match⟩

/-- **End to end (regenerated code only).**  Only REGENERATED definitions (`CC.Gen.Kernels.*`, printed from
    stream-ciphers/chacha/src/guts.rs on every run) and the scalar machine `Mach.ref` occur in this statement — no hand-written
    model: for every state `(b, c, d)`, every `drounds : u32` and any initial contents of the output buffers (they are
    overwritten entirely), `refill_wide_impl` (= `ChaCha::refill4`) returns the concatenation of the outputs of four consecutive
    `refill_narrow`s (= `ChaCha::refill`) and leaves the state the fourth one leaves.  The generated functions return
    `(b', c', d', out')`.  (`refill4_eq` rewritten with `CC.Src.src_chacha_refill_wide_impl` / `src_chacha_refill_narrow`,
    the facts collected in `CC.Thm.C01.source_code_match`.) -/
theorem generated_refill4_eq (b c d : BitVec 128) (dr : BitVec 32) (out o0 o1 o2 o3 : List (BitVec 8)) :
    CC.Gen.Kernels.chacha_refill_wide_impl Mach.ref b c d dr out =
      (let r0 := CC.Gen.Kernels.chacha_refill_narrow Mach.ref b c d dr o0
       let r1 := CC.Gen.Kernels.chacha_refill_narrow Mach.ref r0.1 r0.2.1 r0.2.2.1 dr o1
       let r2 := CC.Gen.Kernels.chacha_refill_narrow Mach.ref r1.1 r1.2.1 r1.2.2.1 dr o2
       let r3 := CC.Gen.Kernels.chacha_refill_narrow Mach.ref r2.1 r2.2.1 r2.2.2.1 dr o3
       (r3.1, r3.2.1, r3.2.2.1, r0.2.2.2 ++ r1.2.2.2 ++ r2.2.2.2 ++ r3.2.2.2)) := by
  have aux : ∀ s : Guts, CC.Gen.Kernels.chacha_refill_wide_impl Mach.ref s.b s.c s.d dr out =
      (let r0 := CC.Gen.Kernels.chacha_refill_narrow Mach.ref s.b s.c s.d dr o0
       let r1 := CC.Gen.Kernels.chacha_refill_narrow Mach.ref r0.1 r0.2.1 r0.2.2.1 dr o1
       let r2 := CC.Gen.Kernels.chacha_refill_narrow Mach.ref r1.1 r1.2.1 r1.2.2.1 dr o2
       let r3 := CC.Gen.Kernels.chacha_refill_narrow Mach.ref r2.1 r2.2.1 r2.2.2.1 dr o3
       (r3.1, r3.2.1, r3.2.2.1, r0.2.2.2 ++ r1.2.2.2 ++ r2.2.2.2 ++ r3.2.2.2)) := by
    intro s
    have key := refill4_eq s dr.toNat
    rw [CC.Src.src_chacha_refill_wide_impl Mach.ref s dr out, CC.Src.src_chacha_refill_narrow Mach.ref s dr o0] at key
    dsimp only
    generalize CC.Gen.Kernels.chacha_refill_wide_impl Mach.ref s.b s.c s.d dr out = W at key ⊢
    generalize CC.Gen.Kernels.chacha_refill_narrow Mach.ref s.b s.c s.d dr o0 = r0 at key ⊢
    dsimp only [CC.Src.gutsOf] at key
    rw [CC.Src.src_chacha_refill_narrow Mach.ref ⟨r0.1, r0.2.1, r0.2.2.1⟩ dr o1] at key
    dsimp only [CC.Src.gutsOf] at key
    generalize CC.Gen.Kernels.chacha_refill_narrow Mach.ref r0.1 r0.2.1 r0.2.2.1 dr o1 = r1 at key ⊢
    rw [CC.Src.src_chacha_refill_narrow Mach.ref ⟨r1.1, r1.2.1, r1.2.2.1⟩ dr o2] at key
    dsimp only [CC.Src.gutsOf] at key
    generalize CC.Gen.Kernels.chacha_refill_narrow Mach.ref r1.1 r1.2.1 r1.2.2.1 dr o2 = r2 at key ⊢
    rw [CC.Src.src_chacha_refill_narrow Mach.ref ⟨r2.1, r2.2.1, r2.2.2.1⟩ dr o3] at key
    dsimp only [CC.Src.gutsOf] at key
    generalize CC.Gen.Kernels.chacha_refill_narrow Mach.ref r2.1 r2.2.1 r2.2.2.1 dr o3 = r3 at key ⊢
    obtain ⟨ho, hg⟩ := Prod.mk.inj key
    obtain ⟨hb, hc, hd⟩ := Guts.mk.inj hg
    exact Prod.ext hb (Prod.ext hc (Prod.ext hd ho))
  exact aux ⟨b, c, d⟩

end CC.Thm.C14
