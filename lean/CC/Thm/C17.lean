/-
  C17 — hash length counters stay exact for very long messages and at word boundaries.

  Per family, stated on their own and at full strength (every absorbed length below the format
  limit, both build profiles):
    * BLAKE   `t = 8·b·⌊n/b⌋` held as `(lo, hi) = (t mod 2^w, ⌊t/2^w⌋)` with the exact carry, for
              `8n < 2^(2w)` (w = 32: BLAKE-224/256, w = 64: BLAKE-384/512); digests conform;
    * Grøstl  `block_counter = ⌊n/b⌋` for `⌊n/b⌋ < 2^64`, the final count `+1/+2` is the
              specification's number of padded blocks;
    * JH      `datalen = n` over any sequence of updates for `n < 2^64`, serialised `8n` exact for
              `n < 2^61`; digests conform for `8n < 2^64`;
    * Skein   `t.0` = bytes processed (`nb·⌊(n−1)/nb⌋` during absorption, `n` in the final block),
              for `n < 2^64`; digests conform for every `n < 2^64`.
  and where rustc's overflow checks (debug profile) fire: only at/above these limits
  (`*_debug_check_*` theorems); the release profile wraps there.
  Property theorems and non-vacuity examples only; the lemmas are the family lemma files (through
  CC.Thm.C04–C07) and CC/Lemmas/C17.lean.
-/
import CC.Thm.C04
import CC.Thm.C05
import CC.Thm.C06
import CC.Thm.C07
import CC.Lemmas.C17
namespace CC.Thm.C17
open CC CC.Buffer CC.Simd

/-! ## BLAKE — bit counter `t = (t.0, t.1)` with carry -/
section Blake
open CC.Blake

/-- After absorbing `n` bytes (any `n` with `8n < 2^(2w)`, the format limit) from a fresh hasher:
    no panic in either profile, `n mod b` bytes are buffered, and the counter words are exactly
    the low and high `w`-bit halves of the number of bits compressed so far, `T = 8·(n − n mod b)`:
    `t.0 = T mod 2^w`, `t.1 = ⌊T / 2^w⌋` (the carry into `t.1` is never lost, for every length).
    Instances: `laws224`, `laws256` (w = 32, b = 64), `laws384`, `laws512` (w = 64, b = 128). -/
theorem blake_counter_exact {w V} {K : Kit w V} {H : Spec.HParams w} {hw : Compressor V → List (BitVec w)}
    (KL : KitLaws K H hw) (p : Profile) (msg : List (BitVec 8)) (hl : 8 * msg.length < 2 ^ (2 * w)) :
    ∃ s', update K p (Hasher.default K) msg = .ok s' ∧
      s'.buffer.pos = msg.length % K.buf ∧
      s'.t.1.toNat = 8 * (msg.length - msg.length % K.buf) % 2 ^ w ∧
      s'.t.2.toNat = 8 * (msg.length - msg.length % K.buf) / 2 ^ w := by
  obtain ⟨s', e1, e2, e3⟩ := CC.Thm.C04.counter_exact KL p msg hl
  rw [e2] at e3
  have hT : 8 * (msg.length - msg.length % K.buf) < 2 ^ (2 * w) := by omega
  have := CC.Lemmas.C17.splitT_toNat (w := w) _ hT
  refine ⟨s', e1, e2, ?_, ?_⟩
  · rw [e3]; exact this.1
  · rw [e3]; exact this.2

/-- Streaming form, from ANY reached state and for every chunking: if `s` is the state after
    absorbing `m` (`Absorbed`), one more `update` with `xs` (total bit length below the format
    limit) does not panic in either profile, reaches the state of `m ++ xs`, and its counter is
    `8·b·⌊|m ++ xs|/b⌋` as exact `(lo, hi)`. -/
theorem blake_counter_streaming {w V} {K : Kit w V} {H : Spec.HParams w} {hw : Compressor V → List (BitVec w)}
    (KL : KitLaws K H hw) (p : Profile) (s : Hasher w V) (m xs : List (BitVec 8))
    (A : Absorbed K H hw s m) (hl : 8 * (m ++ xs).length < 2 ^ (2 * w)) :
    ∃ s', update K p s xs = .ok s' ∧ Absorbed K H hw s' (m ++ xs) ∧
      s'.t = splitT w (8 * K.buf * ((m ++ xs).length / K.buf)) := by
  obtain ⟨s', e, A'⟩ := (CC.Thm.C04.streaming_conforms KL p).2.1 s m xs A hl
  exact ⟨s', e, A', A'.t⟩

/-- Consequence: digests of arbitrarily long streamed messages conform — the initial state is
    `Absorbed []`, every `update` below the limit preserves `Absorbed`, and `finalize` from an
    `Absorbed s m` state returns the specification's hash of `m` (no panic, both profiles). -/
theorem blake_streaming_conforms {w V} {K : Kit w V} {H : Spec.HParams w} {hw : Compressor V → List (BitVec w)}
    (KL : KitLaws K H hw) (p : Profile) :
    Absorbed K H hw (Hasher.default K) [] ∧
    (∀ (s : Hasher w V) (m xs : List (BitVec 8)), Absorbed K H hw s m → 8 * (m ++ xs).length < 2 ^ (2 * w) →
      ∃ s', update K p s xs = .ok s' ∧ Absorbed K H hw s' (m ++ xs)) ∧
    (∀ (s : Hasher w V) (m : List (BitVec 8)), Absorbed K H hw s m → 8 * m.length < 2 ^ (2 * w) →
      finalize K p s = .ok (Spec.hash H m)) :=
  CC.Thm.C04.streaming_conforms KL p

/-- One-shot conformance for every length the format allows (`8n < 2^64` resp. `2^128`). -/
theorem blake_conforms_all_lengths (p : Profile) (v : Spec.Variant) (msg : List (BitVec 8))
    (h : 8 * msg.length < maxBits v) : digest Mach.ref p v msg = .ok (Spec.blake v msg) :=
  CC.Thm.C04.blake_conforms p v msg h

/-- The carry step itself: `increase_count` on the exact split of `T` by `c` bytes returns the
    exact split of `T + 8c`, in both profiles, whenever `T + 8c` is below the format limit. -/
theorem blake_carry_exact {w} (hw : w = 32 ∨ w = 64) (p : Profile) (T c : Nat)
    (hc : c * 8 < 2 ^ w) (hT : T + 8 * c < 2 ^ (2 * w)) :
    increaseCount p (splitT w T) (BitVec.ofNat w c) = .ok (splitT w (T + 8 * c)) :=
  CC.Thm.C04.increase_count_exact hw p T c hc hT

/-- Where the debug profile's checks fire, from ANY counter state (e.g. hook-injected): for every
    call site (`count * 8` fits) `increase_count` panics in debug exactly when the low word carries
    while `t.1 = 2^w − 1`, i.e. when the bit count reaches the format limit `2^(2w)`; the release
    profile never panics (it wraps to `(…, 0)`). -/
theorem blake_debug_check_at_limit {w} (t : BitVec w × BitVec w) (c : BitVec w) (hc : c.toNat * 8 < 2 ^ w) :
    ((increaseCount .debug t c).isPanic = true ↔ (t.1.toNat + c.toNat * 8 ≥ 2 ^ w ∧ t.2.toNat + 1 ≥ 2 ^ w)) ∧
    (increaseCount .release t c).isOk = true :=
  ⟨CC.Lemmas.C17.increaseCount_debug_panic_iff t c hc, CC.Lemmas.C17.increaseCount_release_ok t c⟩

end Blake

/-! ## Grøstl — block counter -/
section Groestl
open CC.Groestl CC.Groestl.Model

/-- From any state `h` that has absorbed `msg` (`Inv`), one more `update` with `data` — hence by
    induction any number of them — leaves `block_counter = ⌊n/b⌋` (as a number, not only mod 2^64)
    with `n mod b` bytes buffered, and the checked `block_counter += 1` does not fire, for every
    total length with `⌊n/b⌋ < 2^64`: in particular across 2^8, 2^16 and 2^32 blocks.
    Instances: `comp512` (b = 64, Grøstl-224/256), `comp1024` (b = 128, Grøstl-384/512). -/
theorem groestl_counter_exact {C} (K : Comp C) (hb : 0 < K.b) (p : Profile) (c0 : C) (h : Hasher C)
    (msg data : List (BitVec 8)) (hi : Inv K c0 h msg) (hlen : (msg ++ data).length / K.b < 2 ^ 64) :
    ∃ h', update K p h data = .ok h' ∧ Inv K c0 h' (msg ++ data) ∧
      h'.blockCounter.toNat = (msg ++ data).length / K.b := by
  obtain ⟨h', e, I⟩ := CC.Thm.C07.counter_exact K hb p c0 h msg data hi hlen
  refine ⟨h', e, I, ?_⟩
  rw [I.ctr, BitVec.toNat_ofNat]; exact Nat.mod_eq_of_lt hlen

/-- The initial state satisfies the invariant (so the theorem above applies to every history
    starting at `Default::default()`). -/
theorem groestl_counter_init {C} (K : Comp C) (hb : 0 < K.b) (bits : Nat) :
    Inv K (newTruncated K bits).compressor (newTruncated K bits) [] :=
  Inv_new K hb bits

/-- The count passed to `len64_padding_be` (`block_counter + 1 + (remaining ≤ 8)`) is computed
    without overflow whenever the specification's block count `⌈(n + 9)/b⌉` is below 2^64, and the
    compressor is fed exactly the blocks of the specification's padded message (whose last 8
    bytes are that count). -/
theorem groestl_final_count_exact {C} (K : Comp C) (hb8 : 8 ≤ K.b) (p : Profile) (c0 : C) (h : Hasher C)
    (msg : List (BitVec 8)) (hi : Inv K c0 h msg) (hlen : Spec.padBlocks K.b msg.length < 2 ^ 64) :
    (∃ h', finalizeDirty K p h =
      .ok (h', (K.finalizeDirty ((fullBlocks K.b (Spec.pad K.b msg)).foldl K.input c0)).2)) ∧
    rest K.b (Spec.pad K.b msg) = [] :=
  CC.Thm.C07.final_count_exact K hb8 p c0 h msg hi hlen

/-- Conformance for every length the format allows (padded length below 2^64 blocks) — PARTIAL in
    the same sense as `C07.groestl_conforms_partial`: `tf = f` and `of = Ω` on the register
    representation are hypotheses (see CC/Thm/C07.lean for the full statement and what is missing);
    everything about counting (block counter, final count, padding, absence of overflow panics) is
    proved. -/
theorem groestl_conforms_all_lengths_partial
    (h512 : Conf comp512 8 rep512) (h1024 : Conf comp1024 16 rep1024)
    (p : Profile) (v : Variant) (msg : List (BitVec 8))
    (hlen : Spec.padBlocks (Spec.blockLen v.bits) msg.length < 2 ^ 64) :
    Model.digest p v msg = .ok (Spec.groestl v.bits msg) :=
  CC.Thm.C07.groestl_conforms_partial h512 h1024 p v msg hlen

/-- Conformance for every length the format allows, with no hypotheses: the `Conf` records are
    discharged in `CC.Thm.C07` (`conf512`, `conf1024`), so this is `C07.groestl_conforms` seen from the
    counter side: no length below the format limit makes a counter wrap or a debug check fire, and the
    digest is the specified one. -/
theorem groestl_conforms_all_lengths
    (p : Profile) (v : Variant) (msg : List (BitVec 8))
    (hlen : Spec.padBlocks (Spec.blockLen v.bits) msg.length < 2 ^ 64) :
    Model.digest p v msg = .ok (Spec.groestl v.bits msg) :=
  CC.Thm.C07.groestl_conforms p v msg hlen

/-- Where the debug profile's checks fire, from ANY state (e.g. a hook-injected counter): a checked
    `u64` addition panics in debug exactly on overflow and never in release; `finalize_dirty`
    cannot panic while `block_counter + 2 < 2^64` and does panic in debug at
    `block_counter = 2^64 − 1`. -/
theorem groestl_debug_check_at_limit {C} (K : Comp C) (h : Hasher C) :
    (∀ a b : BitVec 64, (checkedAdd .debug a b).isPanic = true ↔ a.toNat + b.toNat ≥ 2 ^ 64) ∧
    (∀ a b : BitVec 64, checkedAdd .release a b = .ok (a + b)) ∧
    (h.blockCounter.toNat + 2 < 2 ^ 64 → ∀ p, (finalizeDirty K p h).isOk = true) ∧
    (h.blockCounter.toNat + 1 ≥ 2 ^ 64 → (finalizeDirty K .debug h).isPanic = true) :=
  ⟨CC.Lemmas.C17.checkedAdd_debug_panic_iff, CC.Lemmas.C17.checkedAdd_release,
   fun hlt p => CC.Lemmas.C17.finalizeDirty_ok_below K p h hlt,
   CC.Lemmas.C17.finalizeDirty_debug_panic K h⟩

end Groestl

/-! ## JH — `datalen` (bytes) and the serialised bit length -/
section JH
open CC.JH CC.JH.Model CC.Lemmas.C17

/-- Any sequence of `update` calls from any state adds the total input length to `datalen`
    exactly, in both profiles, while the sum fits `usize` (64 bits): `datalen += len` never fires
    below 2^64 bytes — in particular across 2^29 bytes (2^32 bits) and 2^32 bytes. -/
theorem jh_datalen_exact (M : Mach) (p : Profile) (pieces : List (List (BitVec 8))) (h : Hasher)
    (hfit : h.datalen + pieces.flatten.length < 2 ^ 64) :
    ∃ h', jhUpdates M p h pieces = .ok h' ∧ h'.datalen = h.datalen + pieces.flatten.length ∧ h'.n = h.n :=
  jhUpdates_datalen M p pieces h hfit

/-- single-`update` form (the family lemma) -/
theorem jh_datalen_exact_step (M : Mach) (p : Profile) (h : Hasher) (data : List (BitVec 8))
    (hfit : h.datalen + data.length < 2 ^ 64) :
    ∃ h', h.update M p data = .ok h' ∧ h'.datalen = h.datalen + data.length ∧ h'.n = h.n :=
  CC.Thm.C06.jh_datalen_exact M p h data hfit

/-- The serialised length: `datalen as u64 * 8` is exactly `8·datalen` for `datalen < 2^61`. -/
theorem jh_serialised_len_exact (h : Hasher) (hlt : h.datalen < 2 ^ 61) :
    (BitVec.ofNat 64 (h.datalen * 8)).toNat = 8 * h.datalen := by
  rw [BitVec.toNat_ofNat]; omega

/-- Where the checks fire: beyond `usize` the debug build panics at `self.datalen += data.len()`;
    for `datalen·8 < 2^64` finalisation succeeds in both profiles; from 2^61 bytes on the debug
    build panics at `datalen as u64 * 8` before touching the state, and the release build
    silently wraps (returns a digest). -/
theorem jh_debug_check_at_limit (M : Mach) (h : Hasher) (hwf : h.buffer.pos < 64) :
    (∀ data : List (BitVec 8), h.datalen + data.length ≥ 2 ^ 64 → (h.update M .debug data).isPanic = true) ∧
    (h.datalen * 8 < 2 ^ 64 → ∀ p, (h.finalizeDirty M p).isOk = true) ∧
    (h.datalen * 8 ≥ 2 ^ 64 → (h.finalizeDirty M .debug).isPanic = true) ∧
    (h.finalizeDirty M .release).isOk = true :=
  ⟨fun data => CC.Thm.C06.jh_datalen_overflow_debug M h data,
   (CC.Thm.C06.jh_bitlen_check M h hwf).1, (CC.Thm.C06.jh_bitlen_check M h hwf).2,
   jh_finalize_release_ok M h hwf⟩

/-- Conformance for every length the format allows (fewer than 2^64 bits, i.e. `n < 2^61` bytes). -/
theorem jh_conforms_all_lengths (p : Profile) (n : Nat) (hn : n = 224 ∨ n = 256 ∨ n = 384 ∨ n = 512)
    (msg : List (BitVec 8)) (h : 8 * msg.length < 2 ^ 64) :
    digest Mach.ref p n msg = .ok (Spec.jh n msg) :=
  CC.Thm.C06.jh_conforms p n hn msg h

end JH

/-! ## Skein — byte position `t.0` -/
section Skein
open CC.Skein CC.Skein.Model CC.Lemmas.C17

/-- `SkeinPos P h m` (CC/Lemmas/C17.lean): `h` has absorbed `m` as far as positions go — `t.0` is
    the number of bytes already processed, `nb·⌊(|m| − 1)/nb⌋`, and the buffer holds the remaining
    `1..nb` bytes (`input_lazy`).  It holds for a hasher with `t.0 = 0` and an empty buffer (in
    particular `Default::default()`, by `C05.default_is_config_ubi`), and from any such state one
    more `update` — hence any number, for every chunking — does not panic in either profile and
    keeps it, for every total length below 2^64 bytes: in particular across 2^32 bytes.
    At every moment `t.0 + buffer.position() = |m|`. -/
theorem skein_position_exact (prof : Profile) (P : Params) (hnb : 0 < P.nb) :
    (∀ st : State, st.t0 = 0 → SkeinPos P { state := st, buffer := BB.init P.nb } []) ∧
    (∀ (h : Hasher) (m data : List (BitVec 8)), SkeinPos P h m → (m ++ data).length < 2 ^ 64 →
      ∃ h', update prof P h data = .ok h' ∧ SkeinPos P h' (m ++ data)) ∧
    (∀ (h : Hasher) (m : List (BitVec 8)), SkeinPos P h m →
      h.state.t0.toNat = P.nb * ((m.length - 1) / P.nb) ∧ h.state.t0.toNat + h.buffer.pos = m.length) :=
  ⟨fun st h0 => skeinPos_init P st h0,
   fun h m data I hlen => skeinPos_update prof P hnb h m data I hlen,
   fun _ _ I => ⟨I.t0, skeinPos_total I⟩⟩

/-- Finalisation from such a state, below 2^64 bytes: no panic in either profile (`unwrap` of the
    padding succeeds, `t.0 += position` does not overflow) and the final block is processed at
    position `t.0 = |m|`, the exact number of bytes absorbed. -/
theorem skein_final_position (prof : Profile) (P : Params) (hP : P ∈ [skein256, skein512, skein1024]) (n : Nat)
    (h : Hasher) (m : List (BitVec 8)) (I : SkeinPos P h m) (hlen : m.length < 2 ^ 64) :
    ∃ h' out, finalizeIntoDirty prof P n h = .ok (h', out) ∧ h'.state.t0.toNat = m.length :=
  skeinPos_finalize prof hP n h m I hlen

/-- The UBI step (family lemma): the position enters the tweak exactly, no overflow below 2^64. -/
theorem skein_process_block_position (prof : Profile) (P : Params) (hP : P ∈ [skein256, skein512, skein1024])
    (st : State) (block : List (BitVec 8)) (add pos ty : Nat) (first final : Bool)
    (h0 : st.t0 = BitVec.ofNat 64 pos) (h1 : st.t1 = t1Of ty first final)
    (hty : ty = Spec.T_cfg ∨ ty = Spec.T_msg ∨ ty = Spec.T_out) (hov : pos + add < 2 ^ 64) :
    processBlock prof P st block add = .ok
      { t0 := BitVec.ofNat 64 (pos + add), t1 := t1Of ty false final,
        x := Spec.ubiStep P.nb st.x (Spec.tweak (pos + add) ty first final) block } :=
  CC.Thm.C05.process_block_is_ubi_step prof P hP st block add pos ty first final h0 h1 hty hov

/-- Where the check fires, from ANY state (e.g. hook-injected `t.0`): `process_block` is fine in
    both profiles while `t.0 + add < 2^64` and adds exactly; at or above 2^64 the debug build
    panics at `state.t.0 += byte_count_add as u64`, the release build wraps. -/
theorem skein_debug_check_at_limit (P : Params) (st : State) (block : List (BitVec 8)) (add : Nat)
    (hadd : add < 2 ^ 64) :
    (st.t0.toNat + add < 2 ^ 64 → ∀ prof, ∃ st', processBlock prof P st block add = .ok st' ∧
      st'.t0.toNat = st.t0.toNat + add) ∧
    (st.t0.toNat + add ≥ 2 ^ 64 → (processBlock .debug P st block add).isPanic = true) ∧
    (processBlock .release P st block add).isOk = true :=
  ⟨fun h prof => processBlock_t0 prof P st block add h,
   processBlock_debug_panic P st block add hadd,
   processBlock_release_ok P st block add⟩

/-- Conformance covers every message length `n < 2^64` bytes (and every output length). -/
theorem skein_conforms_all_lengths (prof : Profile) (P : Params) (hP : P ∈ [skein256, skein512, skein1024])
    (n : Nat) (msg : List (BitVec 8)) (hlen : msg.length < 2 ^ 64) :
    Model.digest prof P n msg = .ok (Spec.skein P.nb n msg) :=
  CC.Thm.C05.skein_conforms prof P hP n msg hlen

end Skein

/-! ## non-vacuity: the hypotheses are satisfiable at and beyond the word boundaries -/

/-- byte strings of any length exist (the lists are never evaluated) -/
example : ∃ msg : List (BitVec 8), msg.length = 2 ^ 29 + 5 := ⟨List.replicate (2 ^ 29 + 5) 0, List.length_replicate⟩
example : ∃ msg : List (BitVec 8), msg.length = 2 ^ 38 := ⟨List.replicate (2 ^ 38) 0, List.length_replicate⟩
example : ∃ msg : List (BitVec 8), msg.length = 2 ^ 61 + 1 := ⟨List.replicate (2 ^ 61 + 1) 0, List.length_replicate⟩

section BlakeEx
open CC.Blake
/-- BLAKE-256 across 2^32 bits: after 2^29 + 5 bytes, `t = (0x0000_0000, 1)` — the carry is there. -/
example (p : Profile) (msg : List (BitVec 8)) (h : msg.length = 2 ^ 29 + 5) :
    ∃ s', update (kit256 Mach.ref) p (Hasher.default (kit256 Mach.ref)) msg = .ok s' ∧
      s'.buffer.pos = 5 ∧ s'.t.1.toNat = 0 ∧ s'.t.2.toNat = 1 := by
  obtain ⟨s', e1, e2, e3, e4⟩ := blake_counter_exact laws256 p msg (by rw [h]; decide)
  have hb : (kit256 Mach.ref).buf = 64 := rfl
  rw [h, hb] at e2 e3 e4
  exact ⟨s', e1, e2, e3, e4⟩
/-- BLAKE-512 across the 2^64-bit low-word carry: after 2^61 + 1 bytes, `t = (0, 1)`. -/
example (p : Profile) (msg : List (BitVec 8)) (h : msg.length = 2 ^ 61 + 1) :
    ∃ s', update (kit512 Mach.ref) p (Hasher.default (kit512 Mach.ref)) msg = .ok s' ∧
      s'.buffer.pos = 1 ∧ s'.t.1.toNat = 0 ∧ s'.t.2.toNat = 1 := by
  obtain ⟨s', e1, e2, e3, e4⟩ := blake_counter_exact laws512 p msg (by rw [h]; decide)
  have hb : (kit512 Mach.ref).buf = 128 := rfl
  rw [h, hb] at e2 e3 e4
  exact ⟨s', e1, e2, e3, e4⟩
/-- conformance hypotheses at ≥ 2^32 bits / ≥ 2^64 bits -/
example (p : Profile) (msg : List (BitVec 8)) (h : msg.length = 2 ^ 29 + 5) :
    digest Mach.ref p .b224 msg = .ok (Spec.blake .b224 msg) :=
  blake_conforms_all_lengths p .b224 msg (by rw [h]; decide)
example (p : Profile) (msg : List (BitVec 8)) (h : msg.length = 2 ^ 61 + 1) :
    digest Mach.ref p .b384 msg = .ok (Spec.blake .b384 msg) :=
  blake_conforms_all_lengths p .b384 msg (by rw [h]; decide)
/-- the carry step at the 32-bit boundary, and the check at the format limit -/
example (p : Profile) :
    increaseCount p (splitT 32 (2 ^ 32 - 512)) (BitVec.ofNat 32 64) = .ok (splitT 32 (2 ^ 32)) :=
  blake_carry_exact (Or.inl rfl) p (2 ^ 32 - 512) 64 (by decide) (by decide)
example : splitT 32 (2 ^ 32) = (0#32, 1#32) := by decide
example (p : Profile) :
    increaseCount p (splitT 64 (2 ^ 64 - 1024)) (BitVec.ofNat 64 128) = .ok (splitT 64 (2 ^ 64)) :=
  blake_carry_exact (Or.inr rfl) p (2 ^ 64 - 1024) 128 (by decide) (by decide)
example : splitT 64 (2 ^ 64) = (0#64, 1#64) := by decide
example : (increaseCount .debug (BitVec.ofNat 32 (2 ^ 32 - 512), BitVec.ofNat 32 (2 ^ 32 - 1)) 64#32).isPanic = true :=
  (blake_debug_check_at_limit _ _ (by decide)).1.2 (by decide)
end BlakeEx

section GroestlEx
open CC.Groestl CC.Groestl.Model
/-- Grøstl-256 across 2^32 blocks: after 2^38 bytes `block_counter = 2^32` (debug profile: the
    checked increment did not fire). -/
example (p : Profile) (msg : List (BitVec 8)) (h : msg.length = 2 ^ 38) :
    ∃ h', update comp512 p (newTruncated comp512 256) msg = .ok h' ∧ h'.blockCounter.toNat = 2 ^ 32 := by
  have hb : comp512.b = 64 := rfl
  obtain ⟨h', e, _, c⟩ := groestl_counter_exact comp512 (by decide) p _ _ [] msg
    (groestl_counter_init comp512 (by decide) 256) (by rw [List.nil_append, h, hb]; decide)
  rw [List.nil_append, h, hb] at c
  exact ⟨h', e, c⟩
example : Spec.padBlocks 64 (2 ^ 38) < 2 ^ 64 := by decide
example : Spec.padBlocks 128 (2 ^ 70) < 2 ^ 64 := by decide
example : (checkedAdd .debug (BitVec.ofNat 64 (2 ^ 64 - 1)) 1).isPanic = true :=
  ((groestl_debug_check_at_limit comp512 (newTruncated comp512 256)).1 _ _).2 (by decide)
end GroestlEx

section JHEx
open CC.JH CC.JH.Model CC.Lemmas.C17
/-- JH across 2^32 bytes in two updates: `datalen = 2^32 + 3` -/
example (p : Profile) (a b : List (BitVec 8)) (ha : a.length = 2 ^ 32 - 1) (hb : b.length = 4) :
    ∃ h', jhUpdates Mach.ref p (Hasher.new 256) [a, b] = .ok h' ∧ h'.datalen = 2 ^ 32 + 3 := by
  have hl : [a, b].flatten.length = 2 ^ 32 + 3 := by simp [ha, hb]
  obtain ⟨h', e1, e2, _⟩ := jh_datalen_exact Mach.ref p [a, b] (Hasher.new 256) (by rw [hl]; decide)
  rw [hl] at e2
  exact ⟨h', e1, by rw [e2]; rfl⟩
example (p : Profile) (msg : List (BitVec 8)) (h : msg.length = 2 ^ 29 + 5) :
    digest Mach.ref p 512 msg = .ok (Spec.jh 512 msg) :=
  jh_conforms_all_lengths p 512 (by decide) msg (by rw [h]; decide)
end JHEx

section SkeinEx
open CC.Skein CC.Skein.Model
/-- Skein-512 across 2^32 bytes -/
example (prof : Profile) (msg : List (BitVec 8)) (h : msg.length = 2 ^ 32 + 77) :
    Model.digest prof skein512 64 msg = .ok (Spec.skein 64 64 msg) :=
  skein_conforms_all_lengths prof skein512 (by simp) 64 msg (by rw [h]; decide)
example : (processBlock .debug skein512 { t0 := BitVec.ofNat 64 (2 ^ 64 - 64), t1 := 0, x := [] } [] 64).isPanic = true :=
  (skein_debug_check_at_limit skein512 _ [] 64 (by decide)).2.1 (by decide)
end SkeinEx


/-- **Source tie.**  The counter code this property is about (`increase_count`, the `update` / `finalize_into_dirty` /
    `reset` glue of all four hash families with their counter fields) is the code REGENERATED from /repo's current
    source: the source obligations of C04–C07, registered here as well. -/
theorem source_counters_match :
    type_of% @CC.Thm.C04.source_code_match ∧ type_of% @CC.Thm.C04.source_glue_match ∧ type_of% @CC.Thm.C05.source_glue_match ∧
    type_of% @CC.Thm.C06.source_glue_match ∧ type_of% @CC.Thm.C07.source_glue_match :=
  ⟨CC.Thm.C04.source_code_match, CC.Thm.C04.source_glue_match, CC.Thm.C05.source_glue_match,
   CC.Thm.C06.source_glue_match, CC.Thm.C07.source_glue_match⟩

end CC.Thm.C17
