/-
  CC.Buffer.BlockBuffer — model of `block-buffer 0.9.0` (`src/lib.rs`) and the three
  `block-padding 0.2.1` schemes the hashes use, transcribed line by line, including the
  "stale bytes beyond `pos` stay in the buffer" behaviour.

  A buffer is `(buf, pos)` with `buf.length = b` (block size).  The per-block closure
  `f : σ → List (BitVec 8) → σ` threads the hash's own state `σ`.

  Checked line by line against block-buffer-0.9.0/src/lib.rs and block-padding-0.2.1/src/lib.rs.
  Scope: states with `buf.length = b`, `0 < b` and `pos ≤ b` (`pos < b` for `input_block` users).
  These invariants are preserved by every operation (`inputBlock_wf`, `inputLazy_wf`,
  `len64PaddingBe_spec`, … in CC/Buffer/Lemmas.lean), so the states in which the Rust would panic
  (slice index out of range for `pos > b`, `chunks_exact(0)`, `len64_padding_be` with `b < 8`) are
  unreachable and are not given a panic outcome here.
  Not modelled (unused by the workspace): `input_blocks`, `len64_padding_le`, `len128_padding_be`.
-/
import CC.Prim
namespace CC.Buffer

structure BB where
  buf : List (BitVec 8)
  pos : Nat
  deriving DecidableEq, Repr

def BB.init (b : Nat) : BB := { buf := List.replicate b 0, pos := 0 }

/-- `buf[pos .. pos + xs.len].copy_from_slice(xs)` -/
def splice (buf : List (BitVec 8)) (pos : Nat) (xs : List (BitVec 8)) : List (BitVec 8) :=
  buf.take pos ++ xs ++ buf.drop (pos + xs.length)

/-- `for chunk in input.chunks_exact(b) { f(chunk) }`, returning the accumulator and the
    remainder (`< b` bytes).  `fuel` bounds the loop (any `fuel ≥ input.length / b` is enough). -/
def foldChunks {σ} (b : Nat) (f : σ → List (BitVec 8) → σ) : Nat → σ → List (BitVec 8) → σ × List (BitVec 8)
  | 0, acc, input => (acc, input)
  | fuel + 1, acc, input =>
    if b ≤ input.length ∧ 0 < b then foldChunks b f fuel (f acc (input.take b)) (input.drop b)
    else (acc, input)

/-- lazy variant: `while input.len() > b { f(first b bytes) }` -/
def foldChunksLazy {σ} (b : Nat) (f : σ → List (BitVec 8) → σ) : Nat → σ → List (BitVec 8) → σ × List (BitVec 8)
  | 0, acc, input => (acc, input)
  | fuel + 1, acc, input =>
    if b < input.length ∧ 0 < b then foldChunksLazy b f fuel (f acc (input.take b)) (input.drop b)
    else (acc, input)

/-- `BlockBuffer::input_block` -/
def inputBlock {σ} (b : Nat) (s : BB) (input : List (BitVec 8)) (f : σ → List (BitVec 8) → σ) (acc : σ) :
    BB × σ :=
  let r := b - s.pos
  if input.length < r then
    ({ buf := splice s.buf s.pos input, pos := s.pos + input.length }, acc)
  else
    let (input, buf, acc) :=
      if s.pos != 0 then
        let buf := splice s.buf s.pos (input.take r)
        (input.drop r, buf, f acc buf)
      else (input, s.buf, acc)
    let (acc, rem) := foldChunks b f (input.length / b + 1) acc input
    ({ buf := splice buf 0 rem, pos := rem.length }, acc)

/-- `BlockBuffer::input_lazy` -/
def inputLazy {σ} (b : Nat) (s : BB) (input : List (BitVec 8)) (f : σ → List (BitVec 8) → σ) (acc : σ) :
    BB × σ :=
  let r := b - s.pos
  if input.length ≤ r then
    ({ buf := splice s.buf s.pos input, pos := s.pos + input.length }, acc)
  else
    let (input, buf, acc) :=
      if s.pos != 0 then
        let buf := splice s.buf s.pos (input.take r)
        (input.drop r, buf, f acc buf)
      else (input, s.buf, acc)
    let (acc, rem) := foldChunksLazy b f (input.length / b + 1) acc input
    ({ buf := splice buf 0 rem, pos := rem.length }, acc)

/-- `set_zero(&mut buf[from..])` -/
def zeroFrom (buf : List (BitVec 8)) (from_ : Nat) : List (BitVec 8) :=
  buf.take from_ ++ List.replicate (buf.length - from_) 0

/-- `set_zero(&mut buf[..upto])` -/
def zeroUpto (buf : List (BitVec 8)) (upto : Nat) : List (BitVec 8) :=
  List.replicate (min upto buf.length) 0 ++ buf.drop upto

/-- `BlockBuffer::digest_pad(up_to, f)` -/
def digestPad {σ} (b : Nat) (s : BB) (upTo : Nat) (f : σ → List (BitVec 8) → σ) (acc : σ) : BB × σ :=
  let (s, acc) := if s.pos = b then ({ s with pos := 0 }, f acc s.buf) else (s, acc)
  let buf := s.buf.set s.pos 0x80
  let pos := s.pos + 1
  let buf := zeroFrom buf pos
  if b - pos < upTo then
    let acc := f acc buf
    ({ buf := zeroUpto buf pos, pos := pos }, acc)
  else ({ buf := buf, pos := pos }, acc)

/-- `BlockBuffer::len64_padding_be(data_len, f)` -/
def len64PaddingBe {σ} (b : Nat) (s : BB) (dataLen : BitVec 64) (f : σ → List (BitVec 8) → σ) (acc : σ) :
    BB × σ :=
  let (s, acc) := digestPad b s 8 f acc
  let buf := splice s.buf (b - 8) (toBe64 dataLen)
  ({ buf := buf, pos := 0 }, f acc buf)

/-- `pad_with::<ZeroPadding>()`: returns the padded block; `none` = `Err(PadError)`. -/
def padWithZero (b : Nat) (s : BB) : Option (BB × List (BitVec 8)) :=
  if s.pos > b then none else
  let buf := zeroFrom s.buf s.pos
  some ({ buf := buf, pos := 0 }, buf)

/-- `pad_with::<Iso7816>()` -/
def padWithIso7816 (b : Nat) (s : BB) : Option (BB × List (BitVec 8)) :=
  if s.pos ≥ b then none else
  let buf := zeroFrom (s.buf.set s.pos 0x80) (s.pos + 1)
  some ({ buf := buf, pos := 0 }, buf)

end CC.Buffer
