/-
  CC.Buffer.Lemmas — the BlockBuffer theory every hash proof reuses.

  * list level: `fullBlocks b ys` / `rest b ys` (eager: ⌊|ys|/b⌋ leading b-byte chunks and the
    remaining |ys| mod b bytes), `lazyBlocks b ys` / `lazyRest b ys` (lazy: ⌈|ys|/b⌉ − 1 leading chunks,
    the last 1..b bytes are held back), unfolding + append lemmas;
  * `foldChunks` / `foldChunksLazy` characterisation (independent of surplus fuel);
  * `inputBlock_spec`, `inputLazy_spec` and their corollaries on the observable `obs s = (live s, s.pos)`;
  * padding: `len64PaddingBe`, `padWithZero`, `padWithIso7816`, `digestPad`.

  Everything is independent of the stale bytes beyond `pos`.
-/
import CC.Buffer.BlockBuffer
namespace CC.Buffer

/-! ## 1. List level: blocks and remainders -/

section ListLevel
variable {α : Type}

/-- the first `n` chunks of `b` elements (`ys.take b`, `(ys.drop b).take b`, …). -/
def takeBlocks (b : Nat) : Nat → List α → List (List α)
  | 0, _ => []
  | n + 1, ys => ys.take b :: takeBlocks b n (ys.drop b)

/-- the `⌊|ys|/b⌋` leading `b`-element chunks of `ys`. -/
def fullBlocks (b : Nat) (ys : List α) : List (List α) := takeBlocks b (ys.length / b) ys

/-- what is left after `fullBlocks` (`|ys| mod b` elements). -/
def rest (b : Nat) (ys : List α) : List α := ys.drop (b * (ys.length / b))

/-- the `⌈|ys|/b⌉ − 1` leading chunks (`= ⌊(|ys|−1)/b⌋`; none for the empty list). -/
def lazyBlocks (b : Nat) (ys : List α) : List (List α) := takeBlocks b ((ys.length - 1) / b) ys

/-- what is left after `lazyBlocks`: for `ys ≠ []` the last `1..b` elements. -/
def lazyRest (b : Nat) (ys : List α) : List α := ys.drop (b * ((ys.length - 1) / b))

theorem div_succ_of_ge {b n : Nat} (hb : 0 < b) (h : b ≤ n) : n / b = (n - b) / b + 1 := by
  rw [Nat.div_eq n b]; simp [hb, h]

theorem lt_of_div_eq_zero {b n : Nat} (hb : 0 < b) (h : n / b = 0) : n < b := by
  apply Decidable.byContradiction; intro hn
  rw [div_succ_of_ge hb (Nat.le_of_not_lt hn)] at h
  exact Nat.succ_ne_zero _ h

theorem fullBlocks_of_lt {b : Nat} {ys : List α} (h : ys.length < b) : fullBlocks b ys = [] := by
  simp [fullBlocks, Nat.div_eq_of_lt h, takeBlocks]

theorem rest_of_lt {b : Nat} {ys : List α} (h : ys.length < b) : rest b ys = ys := by
  simp [rest, Nat.div_eq_of_lt h]

theorem fullBlocks_of_ge {b : Nat} {ys : List α} (hb : 0 < b) (h : b ≤ ys.length) :
    fullBlocks b ys = ys.take b :: fullBlocks b (ys.drop b) := by
  simp [fullBlocks, div_succ_of_ge hb h, takeBlocks]

theorem rest_of_ge {b : Nat} {ys : List α} (hb : 0 < b) (h : b ≤ ys.length) :
    rest b ys = rest b (ys.drop b) := by
  simp [rest, div_succ_of_ge hb h, Nat.mul_add, Nat.add_comm]

theorem lazyBlocks_of_le {b : Nat} {ys : List α} (hb : 0 < b) (h : ys.length ≤ b) :
    lazyBlocks b ys = [] := by
  have : (ys.length - 1) / b = 0 := Nat.div_eq_of_lt (by omega)
  simp [lazyBlocks, this, takeBlocks]

theorem lazyRest_of_le {b : Nat} {ys : List α} (hb : 0 < b) (h : ys.length ≤ b) :
    lazyRest b ys = ys := by
  have : (ys.length - 1) / b = 0 := Nat.div_eq_of_lt (by omega)
  simp [lazyRest, this]

theorem lazy_div_of_gt {b n : Nat} (hb : 0 < b) (h : b < n) : (n - 1) / b = (n - b - 1) / b + 1 := by
  rw [div_succ_of_ge hb (by omega : b ≤ n - 1)]
  have : n - 1 - b = n - b - 1 := by omega
  rw [this]

theorem lazyBlocks_of_gt {b : Nat} {ys : List α} (hb : 0 < b) (h : b < ys.length) :
    lazyBlocks b ys = ys.take b :: lazyBlocks b (ys.drop b) := by
  simp [lazyBlocks, lazy_div_of_gt hb h, takeBlocks]

theorem lazyRest_of_gt {b : Nat} {ys : List α} (hb : 0 < b) (h : b < ys.length) :
    lazyRest b ys = lazyRest b (ys.drop b) := by
  simp [lazyRest, lazy_div_of_gt hb h, Nat.mul_add, Nat.add_comm]

/-- induction over a list in steps of `b` (eager cut: stop when fewer than `b` are left). -/
theorem blocks_induction {motive : List α → Prop} {b : Nat} (hb : 0 < b)
    (small : ∀ ys, ys.length < b → motive ys)
    (step : ∀ ys, b ≤ ys.length → motive (ys.drop b) → motive ys) (ys : List α) : motive ys :=
  if h : ys.length < b then small ys h
  else step ys (Nat.le_of_not_lt h) (blocks_induction hb small step (ys.drop b))
termination_by ys.length
decreasing_by simp only [List.length_drop]; omega

/-- induction over a list in steps of `b` (lazy cut: stop when at most `b` are left). -/
theorem lazy_induction {motive : List α → Prop} {b : Nat} (hb : 0 < b)
    (small : ∀ ys, ys.length ≤ b → motive ys)
    (step : ∀ ys, b < ys.length → motive (ys.drop b) → motive ys) (ys : List α) : motive ys :=
  if h : ys.length ≤ b then small ys h
  else step ys (Nat.lt_of_not_le h) (lazy_induction hb small step (ys.drop b))
termination_by ys.length
decreasing_by simp only [List.length_drop]; omega

theorem length_rest (b : Nat) (ys : List α) : (rest b ys).length = ys.length % b := by
  simp [rest, Nat.mod_def]

theorem length_fullBlocks (b : Nat) (ys : List α) : (fullBlocks b ys).length = ys.length / b := by
  unfold fullBlocks
  generalize ys.length / b = n
  induction n generalizing ys with
  | zero => rfl
  | succ n ih => simp [takeBlocks, ih]

theorem length_lazyBlocks (b : Nat) (ys : List α) :
    (lazyBlocks b ys).length = (ys.length - 1) / b := by
  unfold lazyBlocks
  generalize (ys.length - 1) / b = n
  induction n generalizing ys with
  | zero => rfl
  | succ n ih => simp [takeBlocks, ih]

theorem length_lazyRest (b : Nat) (ys : List α) :
    (lazyRest b ys).length = ys.length - b * ((ys.length - 1) / b) := by
  simp [lazyRest]

/-- every full block has exactly `b` elements. -/
theorem length_of_mem_fullBlocks {b : Nat} (hb : 0 < b) (ys : List α) :
    ∀ blk ∈ fullBlocks b ys, blk.length = b := by
  induction ys using blocks_induction hb with
  | small ys h => simp [fullBlocks_of_lt h]
  | step ys h ih =>
    rw [fullBlocks_of_ge hb h]
    intro blk hmem
    rcases List.mem_cons.mp hmem with rfl | hm
    · simp [List.length_take]; omega
    · exact ih blk hm

/-- every block handed out by the lazy discipline has exactly `b` elements. -/
theorem length_of_mem_lazyBlocks {b : Nat} (hb : 0 < b) (ys : List α) :
    ∀ blk ∈ lazyBlocks b ys, blk.length = b := by
  induction ys using lazy_induction hb with
  | small ys h => simp [lazyBlocks_of_le hb h]
  | step ys h ih =>
    rw [lazyBlocks_of_gt hb h]
    intro blk hmem
    rcases List.mem_cons.mp hmem with rfl | hm
    · simp [List.length_take]; omega
    · exact ih blk hm

/-- nothing is lost: blocks followed by the remainder are the input. -/
theorem flatten_fullBlocks_append_rest {b : Nat} (hb : 0 < b) (ys : List α) :
    (fullBlocks b ys).flatten ++ rest b ys = ys := by
  induction ys using blocks_induction hb with
  | small ys h => simp [fullBlocks_of_lt h, rest_of_lt h]
  | step ys h ih =>
    rw [fullBlocks_of_ge hb h, rest_of_ge hb h, List.flatten_cons, List.append_assoc, ih,
      List.take_append_drop]

theorem flatten_lazyBlocks_append_lazyRest {b : Nat} (hb : 0 < b) (ys : List α) :
    (lazyBlocks b ys).flatten ++ lazyRest b ys = ys := by
  induction ys using lazy_induction hb with
  | small ys h => simp [lazyBlocks_of_le hb h, lazyRest_of_le hb h]
  | step ys h ih =>
    rw [lazyBlocks_of_gt hb h, lazyRest_of_gt hb h, List.flatten_cons, List.append_assoc, ih,
      List.take_append_drop]

theorem length_rest_lt {b : Nat} (hb : 0 < b) (ys : List α) : (rest b ys).length < b := by
  rw [length_rest]; exact Nat.mod_lt _ hb

/-- the held-back tail has at most `b` elements … -/
theorem length_lazyRest_le {b : Nat} (hb : 0 < b) (ys : List α) : (lazyRest b ys).length ≤ b := by
  induction ys using lazy_induction hb with
  | small ys h => rw [lazyRest_of_le hb h]; exact h
  | step ys h ih => rw [lazyRest_of_gt hb h]; exact ih

/-- … and at least one if anything was absorbed at all. -/
theorem length_lazyRest_pos {b : Nat} (hb : 0 < b) (ys : List α) (hne : ys ≠ []) :
    0 < (lazyRest b ys).length := by
  induction ys using lazy_induction hb with
  | small ys h => rw [lazyRest_of_le hb h]; exact List.length_pos_iff.mpr hne
  | step ys h ih =>
    rw [lazyRest_of_gt hb h]; apply ih
    intro hnil
    have := congrArg List.length hnil
    simp at this; omega

theorem lazyRest_nil (b : Nat) : lazyRest b ([] : List α) = [] := by simp [lazyRest]
theorem lazyBlocks_nil (b : Nat) : lazyBlocks b ([] : List α) = [] := by simp [lazyBlocks, takeBlocks]
theorem rest_nil (b : Nat) : rest b ([] : List α) = [] := by simp [rest]
theorem fullBlocks_nil (b : Nat) : fullBlocks b ([] : List α) = [] := by simp [fullBlocks, takeBlocks]

/-! ### append laws (the algebra behind "feeding xs then ys = feeding xs ++ ys") -/

theorem fullBlocks_append {b : Nat} (hb : 0 < b) (zs ys : List α) :
    fullBlocks b (zs ++ ys) = fullBlocks b zs ++ fullBlocks b (rest b zs ++ ys) := by
  induction zs using blocks_induction hb with
  | small zs h => simp [fullBlocks_of_lt h, rest_of_lt h]
  | step zs h ih =>
    have h' : b ≤ (zs ++ ys).length := by simp; omega
    rw [fullBlocks_of_ge hb h', fullBlocks_of_ge hb h, rest_of_ge hb h,
      List.take_append_of_le_length h, List.drop_append_of_le_length h, ih, List.cons_append]

theorem rest_append {b : Nat} (hb : 0 < b) (zs ys : List α) :
    rest b (zs ++ ys) = rest b (rest b zs ++ ys) := by
  induction zs using blocks_induction hb with
  | small zs h => simp [rest_of_lt h]
  | step zs h ih =>
    have h' : b ≤ (zs ++ ys).length := by simp; omega
    rw [rest_of_ge hb h', rest_of_ge hb h, List.drop_append_of_le_length h, ih]

theorem lazyBlocks_append {b : Nat} (hb : 0 < b) (zs ys : List α) :
    lazyBlocks b (zs ++ ys) = lazyBlocks b zs ++ lazyBlocks b (lazyRest b zs ++ ys) := by
  induction zs using lazy_induction hb with
  | small zs h => simp [lazyBlocks_of_le hb h, lazyRest_of_le hb h]
  | step zs h ih =>
    have h' : b < (zs ++ ys).length := by simp; omega
    rw [lazyBlocks_of_gt hb h', lazyBlocks_of_gt hb h, lazyRest_of_gt hb h,
      List.take_append_of_le_length (Nat.le_of_lt h), List.drop_append_of_le_length (Nat.le_of_lt h),
      ih, List.cons_append]

theorem lazyRest_append {b : Nat} (hb : 0 < b) (zs ys : List α) :
    lazyRest b (zs ++ ys) = lazyRest b (lazyRest b zs ++ ys) := by
  induction zs using lazy_induction hb with
  | small zs h => simp [lazyRest_of_le hb h]
  | step zs h ih =>
    have h' : b < (zs ++ ys).length := by simp; omega
    rw [lazyRest_of_gt hb h', lazyRest_of_gt hb h,
      List.drop_append_of_le_length (Nat.le_of_lt h), ih]

theorem fullBlocks_block_append {b : Nat} (hb : 0 < b) (blk ys : List α) (h : blk.length = b) :
    fullBlocks b (blk ++ ys) = blk :: fullBlocks b ys := by
  rw [fullBlocks_of_ge hb (by simp [h]), List.take_left' h, List.drop_left' h]

theorem rest_block_append {b : Nat} (hb : 0 < b) (blk ys : List α) (h : blk.length = b) :
    rest b (blk ++ ys) = rest b ys := by
  rw [rest_of_ge hb (by simp [h]), List.drop_left' h]

theorem fullBlocks_single {b : Nat} (hb : 0 < b) (blk : List α) (h : blk.length = b) :
    fullBlocks b blk = [blk] := by
  have := fullBlocks_block_append hb blk [] h
  rwa [List.append_nil, fullBlocks_nil] at this

end ListLevel

/-! ## 2. The chunk loops -/

section Loops
variable {σ : Type}

/-- `foldChunks` with enough fuel folds `f` over the full blocks and returns the remainder. -/
theorem foldChunks_spec {b : Nat} (hb : 0 < b) (f : σ → List (BitVec 8) → σ) :
    ∀ (fuel : Nat) (acc : σ) (input : List (BitVec 8)), input.length / b ≤ fuel →
      foldChunks b f fuel acc input = ((fullBlocks b input).foldl f acc, rest b input) := by
  intro fuel
  induction fuel with
  | zero =>
    intro acc input h
    have hlt : input.length < b := lt_of_div_eq_zero hb (Nat.le_zero.mp h)
    simp [foldChunks, fullBlocks_of_lt hlt, rest_of_lt hlt]
  | succ fuel ih =>
    intro acc input h
    by_cases hge : b ≤ input.length
    · have hfuel : (input.drop b).length / b ≤ fuel := by
        rw [div_succ_of_ge hb hge] at h
        simp only [List.length_drop]; omega
      simp only [foldChunks, hge, hb, and_self, if_true]
      rw [ih _ _ hfuel, fullBlocks_of_ge hb hge, rest_of_ge hb hge, List.foldl_cons]
    · have hlt : input.length < b := Nat.lt_of_not_le hge
      simp [foldChunks, hge, fullBlocks_of_lt hlt, rest_of_lt hlt]

/-- surplus fuel is irrelevant. -/
theorem foldChunks_fuel_irrel {b : Nat} (hb : 0 < b) (f : σ → List (BitVec 8) → σ)
    (fuel₁ fuel₂ : Nat) (acc : σ) (input : List (BitVec 8))
    (h₁ : input.length / b ≤ fuel₁) (h₂ : input.length / b ≤ fuel₂) :
    foldChunks b f fuel₁ acc input = foldChunks b f fuel₂ acc input := by
  rw [foldChunks_spec hb f _ _ _ h₁, foldChunks_spec hb f _ _ _ h₂]

/-- `foldChunksLazy` with enough fuel folds `f` over all but the last (possibly full) block. -/
theorem foldChunksLazy_spec {b : Nat} (hb : 0 < b) (f : σ → List (BitVec 8) → σ) :
    ∀ (fuel : Nat) (acc : σ) (input : List (BitVec 8)), (input.length - 1) / b ≤ fuel →
      foldChunksLazy b f fuel acc input = ((lazyBlocks b input).foldl f acc, lazyRest b input) := by
  intro fuel
  induction fuel with
  | zero =>
    intro acc input h
    have hlt : input.length - 1 < b := lt_of_div_eq_zero hb (Nat.le_zero.mp h)
    have hle : input.length ≤ b := by omega
    simp [foldChunksLazy, lazyBlocks_of_le hb hle, lazyRest_of_le hb hle]
  | succ fuel ih =>
    intro acc input h
    by_cases hgt : b < input.length
    · have hfuel : ((input.drop b).length - 1) / b ≤ fuel := by
        rw [lazy_div_of_gt hb hgt] at h
        simp only [List.length_drop]; omega
      simp only [foldChunksLazy, hgt, hb, and_self, if_true]
      rw [ih _ _ hfuel, lazyBlocks_of_gt hb hgt, lazyRest_of_gt hb hgt, List.foldl_cons]
    · have hle : input.length ≤ b := Nat.le_of_not_lt hgt
      simp [foldChunksLazy, hgt, lazyBlocks_of_le hb hle, lazyRest_of_le hb hle]

theorem foldChunksLazy_fuel_irrel {b : Nat} (hb : 0 < b) (f : σ → List (BitVec 8) → σ)
    (fuel₁ fuel₂ : Nat) (acc : σ) (input : List (BitVec 8))
    (h₁ : (input.length - 1) / b ≤ fuel₁) (h₂ : (input.length - 1) / b ≤ fuel₂) :
    foldChunksLazy b f fuel₁ acc input = foldChunksLazy b f fuel₂ acc input := by
  rw [foldChunksLazy_spec hb f _ _ _ h₁, foldChunksLazy_spec hb f _ _ _ h₂]

/-- the fuel `inputBlock` passes is enough. -/
theorem foldChunks_input {b : Nat} (hb : 0 < b) (f : σ → List (BitVec 8) → σ) (acc : σ)
    (input : List (BitVec 8)) :
    foldChunks b f (input.length / b + 1) acc input
      = ((fullBlocks b input).foldl f acc, rest b input) :=
  foldChunks_spec hb f _ _ _ (Nat.le_succ _)

/-- the fuel `inputLazy` passes is enough. -/
theorem foldChunksLazy_input {b : Nat} (hb : 0 < b) (f : σ → List (BitVec 8) → σ) (acc : σ)
    (input : List (BitVec 8)) :
    foldChunksLazy b f (input.length / b + 1) acc input
      = ((lazyBlocks b input).foldl f acc, lazyRest b input) :=
  foldChunksLazy_spec hb f _ _ _
    (Nat.le_trans (Nat.div_le_div_right (Nat.sub_le _ _)) (Nat.le_succ _))

end Loops

/-! ## 3. Buffer states: well-formedness, live bytes, observable -/

/-- eager invariant (`input_block` users): the buffer is never full between calls. -/
def WF (b : Nat) (s : BB) : Prop := s.buf.length = b ∧ s.pos < b

/-- lazy invariant (`input_lazy` users): the buffer may be exactly full. -/
def WFL (b : Nat) (s : BB) : Prop := s.buf.length = b ∧ s.pos ≤ b

/-- the buffered bytes that count (`&buffer[..pos]`); everything beyond is stale. -/
def live (s : BB) : List (BitVec 8) := s.buf.take s.pos

/-- what a client can observe of a buffer state without reading stale bytes. -/
def obs (s : BB) : List (BitVec 8) × Nat := (live s, s.pos)

theorem WF.toWFL {b : Nat} {s : BB} (h : WF b s) : WFL b s := ⟨h.1, Nat.le_of_lt h.2⟩

theorem WF_init {b : Nat} (hb : 0 < b) : WF b (BB.init b) := by simp [WF, BB.init, hb]
theorem WFL_init (b : Nat) : WFL b (BB.init b) := by simp [WFL, BB.init]
@[simp] theorem live_init (b : Nat) : live (BB.init b) = [] := by simp [live, BB.init]
@[simp] theorem pos_init (b : Nat) : (BB.init b).pos = 0 := rfl
theorem obs_init (b : Nat) : obs (BB.init b) = ([], 0) := by simp [obs]

theorem length_live {b : Nat} {s : BB} (h : WFL b s) : (live s).length = s.pos := by
  simp [live, List.length_take, h.1]; exact Nat.min_eq_left h.2

/-- `BlockBuffer::reset()`: cursor to zero, contents stay (stale). -/
def BB.resetKeep (s : BB) : BB := { s with pos := 0 }
theorem obs_resetKeep (s : BB) : obs s.resetKeep = ([], 0) := by simp [obs, live, BB.resetKeep]
theorem WF_resetKeep {b : Nat} (hb : 0 < b) {s : BB} (h : WFL b s) : WF b s.resetKeep :=
  ⟨h.1, hb⟩

/-! ### splice -/

theorem take_length_add {α} (l₁ l₂ : List α) (n : Nat) :
    (l₁ ++ l₂).take (l₁.length + n) = l₁ ++ l₂.take n := by
  induction l₁ with
  | nil => simp
  | cons a l ih => simp [Nat.succ_add, ih]

theorem drop_length_add {α} (l₁ l₂ : List α) (n : Nat) :
    (l₁ ++ l₂).drop (l₁.length + n) = l₂.drop n := by
  induction l₁ with
  | nil => simp
  | cons a l ih => simp [Nat.succ_add, ih]

theorem length_splice (buf : List (BitVec 8)) (pos : Nat) (xs : List (BitVec 8))
    (h : pos + xs.length ≤ buf.length) : (splice buf pos xs).length = buf.length := by
  simp [splice, List.length_take, List.length_drop]; omega

theorem take_splice (buf : List (BitVec 8)) (pos : Nat) (xs : List (BitVec 8))
    (h : pos ≤ buf.length) : (splice buf pos xs).take (pos + xs.length) = buf.take pos ++ xs := by
  have hl : (buf.take pos ++ xs).length = pos + xs.length := by
    simp [List.length_take]; omega
  unfold splice
  rw [← hl, List.take_left']
  rfl

theorem splice_full (buf : List (BitVec 8)) (pos : Nat) (xs : List (BitVec 8))
    (h : buf.length ≤ pos + xs.length) : splice buf pos xs = buf.take pos ++ xs := by
  simp [splice, List.drop_eq_nil_of_le h]

theorem splice_nil (buf : List (BitVec 8)) (pos : Nat) : splice buf pos [] = buf := by
  simp [splice]

theorem splice_zero (buf xs : List (BitVec 8)) : splice buf 0 xs = xs ++ buf.drop xs.length := by
  simp [splice]

theorem take_splice_zero (buf xs : List (BitVec 8)) : (splice buf 0 xs).take xs.length = xs := by
  simp [splice]

theorem length_splice_zero (buf xs : List (BitVec 8)) (h : xs.length ≤ buf.length) :
    (splice buf 0 xs).length = buf.length := by
  simp [splice]; omega

/-! ## 4. `input_block` -/

section InputBlock
variable {σ : Type}

/-- the three paths through `input_block`, as equations. -/
theorem inputBlock_small {b : Nat} {s : BB} {xs : List (BitVec 8)} (f : σ → List (BitVec 8) → σ)
    (acc : σ) (h : xs.length < b - s.pos) :
    inputBlock b s xs f acc
      = ({ buf := splice s.buf s.pos xs, pos := s.pos + xs.length }, acc) := by
  simp [inputBlock, h]

theorem inputBlock_flush {b : Nat} (hb : 0 < b) {s : BB} {xs : List (BitVec 8)}
    (f : σ → List (BitVec 8) → σ) (acc : σ) (h : b - s.pos ≤ xs.length) (hp : s.pos ≠ 0) :
    inputBlock b s xs f acc
      = ({ buf := splice (splice s.buf s.pos (xs.take (b - s.pos))) 0 (rest b (xs.drop (b - s.pos))),
           pos := (rest b (xs.drop (b - s.pos))).length },
         (fullBlocks b (xs.drop (b - s.pos))).foldl f
           (f acc (splice s.buf s.pos (xs.take (b - s.pos))))) := by
  have h' : ¬ xs.length < b - s.pos := Nat.not_lt.mpr h
  simp only [inputBlock, h', if_false, bne_iff_ne, ne_eq, hp, not_false_eq_true, if_true]
  rw [foldChunks_input hb]

theorem inputBlock_direct {b : Nat} (hb : 0 < b) {s : BB} {xs : List (BitVec 8)}
    (f : σ → List (BitVec 8) → σ) (acc : σ) (h : b - s.pos ≤ xs.length) (hp : s.pos = 0) :
    inputBlock b s xs f acc
      = ({ buf := splice s.buf 0 (rest b xs), pos := (rest b xs).length },
         (fullBlocks b xs).foldl f acc) := by
  have h' : ¬ xs.length < b - 0 := by rw [← hp]; exact Nat.not_lt.mpr h
  simp only [inputBlock, hp, h', if_false, bne_self_eq_false, Bool.false_eq_true]
  rw [foldChunks_input hb]

/-- **Core lemma (eager).**  For every well-formed state, closure, accumulator and input:
    the closure is folded over the full blocks of `live s ++ xs`, the new live bytes are the
    remaining `|live s ++ xs| mod b` bytes, and well-formedness is preserved. -/
theorem inputBlock_spec {b : Nat} (hb : 0 < b) {s : BB} (hwf : WF b s) (xs : List (BitVec 8))
    (f : σ → List (BitVec 8) → σ) (acc : σ) :
    (inputBlock b s xs f acc).2 = (fullBlocks b (live s ++ xs)).foldl f acc ∧
    live (inputBlock b s xs f acc).1 = rest b (live s ++ xs) ∧
    (inputBlock b s xs f acc).1.pos = (s.pos + xs.length) % b ∧
    WF b (inputBlock b s xs f acc).1 := by
  obtain ⟨hlen, hpos⟩ := hwf
  have hll : (live s).length = s.pos := length_live (WF.toWFL ⟨hlen, hpos⟩)
  by_cases hsmall : xs.length < b - s.pos
  · -- everything fits; nothing is processed
    have hlt : (live s ++ xs).length < b := by simp [hll]; omega
    rw [inputBlock_small f acc hsmall, fullBlocks_of_lt hlt, rest_of_lt hlt]
    refine ⟨rfl, ?_, ?_, ?_, ?_⟩
    · simp only [live]; rw [take_splice _ _ _ (by omega)]
    · simp only []; rw [Nat.mod_eq_of_lt (by omega)]
    · simp only []; rw [length_splice _ _ _ (by omega)]; exact hlen
    · simp only []; omega
  · have hge : b - s.pos ≤ xs.length := Nat.le_of_not_lt hsmall
    by_cases hp : s.pos = 0
    · -- empty buffer: blocks are taken straight from the input
      have hl : live s = [] := by simp [live, hp]
      rw [inputBlock_direct hb f acc hge hp, hl, List.nil_append]
      refine ⟨rfl, ?_, ?_, ?_, ?_⟩
      · simp only [live]; exact take_splice_zero _ _
      · simp only []; rw [length_rest, hp, Nat.zero_add]
      · simp only []; rw [length_splice_zero _ _ (by rw [length_rest, hlen]; exact Nat.le_of_lt (Nat.mod_lt _ hb))]
        exact hlen
      · simp only []; exact length_rest_lt hb _
    · -- the buffer is completed and flushed first
      have hbig : b ≤ (live s ++ xs).length := by simp [hll]; omega
      have hfirst : splice s.buf s.pos (xs.take (b - s.pos)) = (live s ++ xs).take b := by
        rw [splice_full _ _ _ (by simp [List.length_take]; omega)]
        have : b = (live s).length + (b - s.pos) := by omega
        conv => rhs; rw [this, take_length_add]
        rfl
      have hdrop : xs.drop (b - s.pos) = (live s ++ xs).drop b := by
        have : b = (live s).length + (b - s.pos) := by omega
        conv => rhs; rw [this, drop_length_add]
      rw [inputBlock_flush hb f acc hge hp, hfirst, hdrop, fullBlocks_of_ge hb hbig,
        rest_of_ge hb hbig]
      refine ⟨rfl, ?_, ?_, ?_, ?_⟩
      · simp only [live]; exact take_splice_zero _ _
      · simp only []
        rw [← rest_of_ge hb hbig, length_rest, List.length_append, hll]
      · simp only []
        rw [length_splice_zero]
        · rw [← hfirst, length_splice _ _ _ (by simp [List.length_take]; omega)]; exact hlen
        · rw [← hfirst, length_splice _ _ _ (by simp [List.length_take]; omega), hlen]
          exact Nat.le_of_lt (length_rest_lt hb _)
      · simp only []; exact length_rest_lt hb _

theorem inputBlock_obs {b : Nat} (hb : 0 < b) {s : BB} (hwf : WF b s) (xs : List (BitVec 8))
    (f : σ → List (BitVec 8) → σ) (acc : σ) :
    obs (inputBlock b s xs f acc).1 = (rest b (live s ++ xs), (s.pos + xs.length) % b) := by
  obtain ⟨-, h₂, h₃, -⟩ := inputBlock_spec hb hwf xs f acc
  simp only [obs, h₂, h₃]

theorem inputBlock_wf {b : Nat} (hb : 0 < b) {s : BB} (hwf : WF b s) (xs : List (BitVec 8))
    (f : σ → List (BitVec 8) → σ) (acc : σ) : WF b (inputBlock b s xs f acc).1 :=
  (inputBlock_spec hb hwf xs f acc).2.2.2

theorem inputBlock_acc {b : Nat} (hb : 0 < b) {s : BB} (hwf : WF b s) (xs : List (BitVec 8))
    (f : σ → List (BitVec 8) → σ) (acc : σ) :
    (inputBlock b s xs f acc).2 = (fullBlocks b (live s ++ xs)).foldl f acc :=
  (inputBlock_spec hb hwf xs f acc).1

/-- the result depends on the state only through `obs` (never on stale bytes). -/
theorem inputBlock_congr {b : Nat} (hb : 0 < b) {s₁ s₂ : BB} (h₁ : WF b s₁) (h₂ : WF b s₂)
    (ho : obs s₁ = obs s₂) (xs : List (BitVec 8)) (f : σ → List (BitVec 8) → σ) (acc : σ) :
    (inputBlock b s₁ xs f acc).2 = (inputBlock b s₂ xs f acc).2 ∧
    obs (inputBlock b s₁ xs f acc).1 = obs (inputBlock b s₂ xs f acc).1 := by
  have hl : live s₁ = live s₂ := congrArg Prod.fst ho
  have hp : s₁.pos = s₂.pos := congrArg Prod.snd ho
  rw [inputBlock_acc hb h₁, inputBlock_acc hb h₂, inputBlock_obs hb h₁, inputBlock_obs hb h₂, hl, hp]
  exact ⟨rfl, rfl⟩

/-- empty input is the identity (on the whole state, not only on `obs`). -/
theorem inputBlock_nil {b : Nat} {s : BB} (hwf : WF b s) (f : σ → List (BitVec 8) → σ) (acc : σ) :
    inputBlock b s [] f acc = (s, acc) := by
  rw [inputBlock_small f acc (by simp; have := hwf.2; omega)]
  simp [splice_nil]

/-- **Feeding `xs` then `ys` = feeding `xs ++ ys`** on the accumulator and on the observable
    `(live, pos)`.  (The stale bytes beyond `pos` may differ.) -/
theorem inputBlock_append {b : Nat} (hb : 0 < b) {s : BB} (hwf : WF b s) (xs ys : List (BitVec 8))
    (f : σ → List (BitVec 8) → σ) (acc : σ) :
    (inputBlock b (inputBlock b s xs f acc).1 ys f (inputBlock b s xs f acc).2).2
        = (inputBlock b s (xs ++ ys) f acc).2 ∧
    obs (inputBlock b (inputBlock b s xs f acc).1 ys f (inputBlock b s xs f acc).2).1
        = obs (inputBlock b s (xs ++ ys) f acc).1 := by
  obtain ⟨h₁, h₂, h₃, h₄⟩ := inputBlock_spec hb hwf xs f acc
  rw [inputBlock_acc hb h₄, inputBlock_obs hb h₄, inputBlock_acc hb hwf (xs ++ ys),
    inputBlock_obs hb hwf (xs ++ ys), h₁, h₂, h₃, ← List.append_assoc, fullBlocks_append hb (live s ++ xs) ys, List.foldl_append,
    rest_append hb (live s ++ xs) ys, List.length_append, Nat.mod_add_mod, Nat.add_assoc]
  exact ⟨rfl, rfl⟩

/-- feeding a list of pieces one after the other. -/
def inputBlocks (b : Nat) (s : BB) (pieces : List (List (BitVec 8))) (f : σ → List (BitVec 8) → σ)
    (acc : σ) : BB × σ :=
  pieces.foldl (fun p piece => inputBlock b p.1 piece f p.2) (s, acc)

theorem inputBlocks_spec {b : Nat} (hb : 0 < b) (f : σ → List (BitVec 8) → σ)
    (pieces : List (List (BitVec 8))) : ∀ {s : BB}, WF b s → ∀ (acc : σ),
    (inputBlocks b s pieces f acc).2 = (fullBlocks b (live s ++ pieces.flatten)).foldl f acc ∧
    live (inputBlocks b s pieces f acc).1 = rest b (live s ++ pieces.flatten) ∧
    (inputBlocks b s pieces f acc).1.pos = (s.pos + pieces.flatten.length) % b ∧
    WF b (inputBlocks b s pieces f acc).1 := by
  induction pieces with
  | nil =>
    intro s hwf acc
    have hlt : (live s).length < b := by rw [length_live hwf.toWFL]; exact hwf.2
    simp only [inputBlocks, List.foldl_nil, List.flatten_nil, List.append_nil, List.length_nil,
      Nat.add_zero]
    rw [fullBlocks_of_lt hlt, rest_of_lt hlt, Nat.mod_eq_of_lt hwf.2]
    exact ⟨rfl, rfl, rfl, hwf⟩
  | cons p ps ih =>
    intro s hwf acc
    obtain ⟨h₁, h₂, h₃, h₄⟩ := inputBlock_spec hb hwf p f acc
    obtain ⟨i₁, i₂, i₃, i₄⟩ := ih h₄ (inputBlock b s p f acc).2
    have hstep : inputBlocks b s (p :: ps) f acc
        = inputBlocks b (inputBlock b s p f acc).1 ps f (inputBlock b s p f acc).2 := rfl
    rw [hstep]
    refine ⟨?_, ?_, ?_, i₄⟩
    · rw [i₁, h₁, h₂, List.flatten_cons, ← List.append_assoc, fullBlocks_append hb (live s ++ p),
        List.foldl_append]
    · rw [i₂, h₂, List.flatten_cons, ← List.append_assoc, rest_append hb (live s ++ p)]
    · rw [i₃, h₃, List.flatten_cons, List.length_append, Nat.mod_add_mod, Nat.add_assoc]

/-- **`inputBlock` over a list of pieces = `inputBlock` on their concatenation** (accumulator
    and observable). -/
theorem inputBlocks_flatten {b : Nat} (hb : 0 < b) {s : BB} (hwf : WF b s)
    (pieces : List (List (BitVec 8))) (f : σ → List (BitVec 8) → σ) (acc : σ) :
    (inputBlocks b s pieces f acc).2 = (inputBlock b s pieces.flatten f acc).2 ∧
    obs (inputBlocks b s pieces f acc).1 = obs (inputBlock b s pieces.flatten f acc).1 := by
  obtain ⟨h₁, h₂, h₃, -⟩ := inputBlocks_spec hb f pieces hwf acc
  obtain ⟨g₁, g₂, g₃, -⟩ := inputBlock_spec hb hwf pieces.flatten f acc
  simp only [obs, h₁, h₂, h₃, g₁, g₂, g₃, and_self]

/-! ### two frequent special cases (hand-rolled padding through `input_block`, as BLAKE does) -/

/-- the input does not complete the block: the closure is **not called** (`|_| unreachable!()`),
    the bytes are appended to the live bytes. -/
theorem inputBlock_nocall {b : Nat} {s : BB} (hwf : WF b s) (xs : List (BitVec 8))
    (f : σ → List (BitVec 8) → σ) (acc : σ) (h : s.pos + xs.length < b) :
    (inputBlock b s xs f acc).2 = acc ∧
    live (inputBlock b s xs f acc).1 = live s ++ xs ∧
    (inputBlock b s xs f acc).1.pos = s.pos + xs.length ∧
    WF b (inputBlock b s xs f acc).1 := by
  have hb : 0 < b := by omega
  have hlt : (live s ++ xs).length < b := by simp [length_live hwf.toWFL]; omega
  obtain ⟨h₁, h₂, h₃, h₄⟩ := inputBlock_spec hb hwf xs f acc
  rw [fullBlocks_of_lt hlt] at h₁
  rw [rest_of_lt hlt] at h₂
  rw [Nat.mod_eq_of_lt h] at h₃
  exact ⟨h₁, h₂, h₃, h₄⟩

/-- the input completes the block exactly: the closure is called once, on `live s ++ xs`, and the
    buffer is empty afterwards. -/
theorem inputBlock_fill {b : Nat} {s : BB} (hwf : WF b s) (xs : List (BitVec 8))
    (f : σ → List (BitVec 8) → σ) (acc : σ) (h : s.pos + xs.length = b) :
    (inputBlock b s xs f acc).2 = f acc (live s ++ xs) ∧
    live (inputBlock b s xs f acc).1 = [] ∧
    (inputBlock b s xs f acc).1.pos = 0 ∧
    WF b (inputBlock b s xs f acc).1 := by
  have hb : 0 < b := by have := hwf.2; omega
  have hl : (live s ++ xs).length = b := by simp [length_live hwf.toWFL]; omega
  obtain ⟨h₁, h₂, h₃, h₄⟩ := inputBlock_spec hb hwf xs f acc
  rw [fullBlocks_single hb _ hl] at h₁
  have hr : rest b (live s ++ xs) = [] := by
    have := rest_block_append hb _ ([] : List (BitVec 8)) hl
    rwa [List.append_nil, rest_nil] at this
  rw [hr] at h₂
  rw [h, Nat.mod_self] at h₃
  exact ⟨h₁, h₂, h₃, h₄⟩

end InputBlock

/-! ## 5. `input_lazy` -/

section InputLazy
variable {σ : Type}

theorem inputLazy_small {b : Nat} {s : BB} {xs : List (BitVec 8)} (f : σ → List (BitVec 8) → σ)
    (acc : σ) (h : xs.length ≤ b - s.pos) :
    inputLazy b s xs f acc
      = ({ buf := splice s.buf s.pos xs, pos := s.pos + xs.length }, acc) := by
  simp [inputLazy, h]

theorem inputLazy_flush {b : Nat} (hb : 0 < b) {s : BB} {xs : List (BitVec 8)}
    (f : σ → List (BitVec 8) → σ) (acc : σ) (h : b - s.pos < xs.length) (hp : s.pos ≠ 0) :
    inputLazy b s xs f acc
      = ({ buf := splice (splice s.buf s.pos (xs.take (b - s.pos))) 0
                    (lazyRest b (xs.drop (b - s.pos))),
           pos := (lazyRest b (xs.drop (b - s.pos))).length },
         (lazyBlocks b (xs.drop (b - s.pos))).foldl f
           (f acc (splice s.buf s.pos (xs.take (b - s.pos))))) := by
  have h' : ¬ xs.length ≤ b - s.pos := Nat.not_le.mpr h
  simp only [inputLazy, h', if_false, bne_iff_ne, ne_eq, hp, not_false_eq_true, if_true]
  rw [foldChunksLazy_input hb]

theorem inputLazy_direct {b : Nat} (hb : 0 < b) {s : BB} {xs : List (BitVec 8)}
    (f : σ → List (BitVec 8) → σ) (acc : σ) (h : b - s.pos < xs.length) (hp : s.pos = 0) :
    inputLazy b s xs f acc
      = ({ buf := splice s.buf 0 (lazyRest b xs), pos := (lazyRest b xs).length },
         (lazyBlocks b xs).foldl f acc) := by
  have h' : ¬ xs.length ≤ b - 0 := by rw [← hp]; exact Nat.not_le.mpr h
  simp only [inputLazy, hp, h', if_false, bne_self_eq_false, Bool.false_eq_true]
  rw [foldChunksLazy_input hb]

/-- **Core lemma (lazy).**  With `ys = live s ++ xs`: the closure is folded over the first
    `⌈|ys|/b⌉ − 1` blocks of `ys`, the rest (`1..b` bytes unless `ys = []`) stays live, `pos` is its
    length, and `pos ≤ b` is preserved. -/
theorem inputLazy_spec {b : Nat} (hb : 0 < b) {s : BB} (hwf : WFL b s) (xs : List (BitVec 8))
    (f : σ → List (BitVec 8) → σ) (acc : σ) :
    (inputLazy b s xs f acc).2 = (lazyBlocks b (live s ++ xs)).foldl f acc ∧
    live (inputLazy b s xs f acc).1 = lazyRest b (live s ++ xs) ∧
    (inputLazy b s xs f acc).1.pos = (lazyRest b (live s ++ xs)).length ∧
    WFL b (inputLazy b s xs f acc).1 := by
  obtain ⟨hlen, hpos⟩ := hwf
  have hll : (live s).length = s.pos := length_live ⟨hlen, hpos⟩
  by_cases hsmall : xs.length ≤ b - s.pos
  · have hle : (live s ++ xs).length ≤ b := by simp [hll]; omega
    rw [inputLazy_small f acc hsmall, lazyBlocks_of_le hb hle, lazyRest_of_le hb hle]
    refine ⟨rfl, ?_, ?_, ?_, ?_⟩
    · simp only [live]; rw [take_splice _ _ _ (by omega)]
    · simp only []; rw [List.length_append, hll]
    · simp only []; rw [length_splice _ _ _ (by omega)]; exact hlen
    · simp only []; omega
  · have hgt : b - s.pos < xs.length := Nat.lt_of_not_le hsmall
    by_cases hp : s.pos = 0
    · have hl : live s = [] := by simp [live, hp]
      rw [inputLazy_direct hb f acc hgt hp, hl, List.nil_append]
      refine ⟨rfl, ?_, rfl, ?_, ?_⟩
      · simp only [live]; exact take_splice_zero _ _
      · simp only []
        rw [length_splice_zero _ _ (by rw [hlen]; exact length_lazyRest_le hb _)]
        exact hlen
      · simp only []; exact length_lazyRest_le hb _
    · have hbig : b < (live s ++ xs).length := by simp [hll]; omega
      have hfirst : splice s.buf s.pos (xs.take (b - s.pos)) = (live s ++ xs).take b := by
        rw [splice_full _ _ _ (by simp [List.length_take]; omega)]
        have : b = (live s).length + (b - s.pos) := by omega
        conv => rhs; rw [this, take_length_add]
        rfl
      have hdrop : xs.drop (b - s.pos) = (live s ++ xs).drop b := by
        have : b = (live s).length + (b - s.pos) := by omega
        conv => rhs; rw [this, drop_length_add]
      have hflen : (splice s.buf s.pos (xs.take (b - s.pos))).length = b := by
        rw [length_splice _ _ _ (by simp [List.length_take]; omega)]; exact hlen
      rw [inputLazy_flush hb f acc hgt hp, lazyBlocks_of_gt hb hbig, lazyRest_of_gt hb hbig, ← hdrop]
      refine ⟨?_, ?_, rfl, ?_, ?_⟩
      · rw [hfirst]; rfl
      · simp only [live]; exact take_splice_zero _ _
      · simp only []
        rw [length_splice_zero _ _ (by rw [hflen]; exact length_lazyRest_le hb _)]
        exact hflen
      · simp only []; exact length_lazyRest_le hb _

theorem inputLazy_obs {b : Nat} (hb : 0 < b) {s : BB} (hwf : WFL b s) (xs : List (BitVec 8))
    (f : σ → List (BitVec 8) → σ) (acc : σ) :
    obs (inputLazy b s xs f acc).1
      = (lazyRest b (live s ++ xs), (lazyRest b (live s ++ xs)).length) := by
  obtain ⟨-, h₂, h₃, -⟩ := inputLazy_spec hb hwf xs f acc
  simp only [obs, h₂, h₃]

theorem inputLazy_wf {b : Nat} (hb : 0 < b) {s : BB} (hwf : WFL b s) (xs : List (BitVec 8))
    (f : σ → List (BitVec 8) → σ) (acc : σ) : WFL b (inputLazy b s xs f acc).1 :=
  (inputLazy_spec hb hwf xs f acc).2.2.2

theorem inputLazy_acc {b : Nat} (hb : 0 < b) {s : BB} (hwf : WFL b s) (xs : List (BitVec 8))
    (f : σ → List (BitVec 8) → σ) (acc : σ) :
    (inputLazy b s xs f acc).2 = (lazyBlocks b (live s ++ xs)).foldl f acc :=
  (inputLazy_spec hb hwf xs f acc).1

/-- if nothing is buffered and nothing arrives, nothing happens; otherwise between 1 and `b` bytes
    stay live afterwards. -/
theorem inputLazy_pos_bounds {b : Nat} (hb : 0 < b) {s : BB} (hwf : WFL b s) (xs : List (BitVec 8))
    (f : σ → List (BitVec 8) → σ) (acc : σ) (hne : live s ++ xs ≠ []) :
    1 ≤ (inputLazy b s xs f acc).1.pos ∧ (inputLazy b s xs f acc).1.pos ≤ b := by
  rw [(inputLazy_spec hb hwf xs f acc).2.2.1]
  exact ⟨length_lazyRest_pos hb _ hne, length_lazyRest_le hb _⟩

theorem inputLazy_congr {b : Nat} (hb : 0 < b) {s₁ s₂ : BB} (h₁ : WFL b s₁) (h₂ : WFL b s₂)
    (ho : obs s₁ = obs s₂) (xs : List (BitVec 8)) (f : σ → List (BitVec 8) → σ) (acc : σ) :
    (inputLazy b s₁ xs f acc).2 = (inputLazy b s₂ xs f acc).2 ∧
    obs (inputLazy b s₁ xs f acc).1 = obs (inputLazy b s₂ xs f acc).1 := by
  have hl : live s₁ = live s₂ := congrArg Prod.fst ho
  rw [inputLazy_acc hb h₁, inputLazy_acc hb h₂, inputLazy_obs hb h₁, inputLazy_obs hb h₂, hl]
  exact ⟨rfl, rfl⟩

/-- empty input is the identity on the whole state (also when the buffer is exactly full). -/
theorem inputLazy_nil {b : Nat} (s : BB) (f : σ → List (BitVec 8) → σ) (acc : σ) :
    inputLazy b s [] f acc = (s, acc) := by
  rw [inputLazy_small f acc (by simp)]
  simp [splice_nil]

/-- **Feeding `xs` then `ys` = feeding `xs ++ ys`** (lazy), on accumulator and observable. -/
theorem inputLazy_append {b : Nat} (hb : 0 < b) {s : BB} (hwf : WFL b s) (xs ys : List (BitVec 8))
    (f : σ → List (BitVec 8) → σ) (acc : σ) :
    (inputLazy b (inputLazy b s xs f acc).1 ys f (inputLazy b s xs f acc).2).2
        = (inputLazy b s (xs ++ ys) f acc).2 ∧
    obs (inputLazy b (inputLazy b s xs f acc).1 ys f (inputLazy b s xs f acc).2).1
        = obs (inputLazy b s (xs ++ ys) f acc).1 := by
  obtain ⟨h₁, h₂, -, h₄⟩ := inputLazy_spec hb hwf xs f acc
  rw [inputLazy_acc hb h₄, inputLazy_obs hb h₄, inputLazy_acc hb hwf (xs ++ ys),
    inputLazy_obs hb hwf (xs ++ ys), h₁, h₂, ← List.append_assoc,
    lazyBlocks_append hb (live s ++ xs) ys, List.foldl_append, lazyRest_append hb (live s ++ xs) ys]
  exact ⟨rfl, rfl⟩

def inputLazys (b : Nat) (s : BB) (pieces : List (List (BitVec 8))) (f : σ → List (BitVec 8) → σ)
    (acc : σ) : BB × σ :=
  pieces.foldl (fun p piece => inputLazy b p.1 piece f p.2) (s, acc)

theorem inputLazys_spec {b : Nat} (hb : 0 < b) (f : σ → List (BitVec 8) → σ)
    (pieces : List (List (BitVec 8))) : ∀ {s : BB}, WFL b s → ∀ (acc : σ),
    (inputLazys b s pieces f acc).2 = (lazyBlocks b (live s ++ pieces.flatten)).foldl f acc ∧
    live (inputLazys b s pieces f acc).1 = lazyRest b (live s ++ pieces.flatten) ∧
    (inputLazys b s pieces f acc).1.pos = (lazyRest b (live s ++ pieces.flatten)).length ∧
    WFL b (inputLazys b s pieces f acc).1 := by
  induction pieces with
  | nil =>
    intro s hwf acc
    have hle : (live s).length ≤ b := by rw [length_live hwf]; exact hwf.2
    simp only [inputLazys, List.foldl_nil, List.flatten_nil, List.append_nil]
    rw [lazyBlocks_of_le hb hle, lazyRest_of_le hb hle, length_live hwf]
    exact ⟨rfl, rfl, rfl, hwf⟩
  | cons p ps ih =>
    intro s hwf acc
    obtain ⟨h₁, h₂, -, h₄⟩ := inputLazy_spec hb hwf p f acc
    obtain ⟨i₁, i₂, i₃, i₄⟩ := ih h₄ (inputLazy b s p f acc).2
    have hstep : inputLazys b s (p :: ps) f acc
        = inputLazys b (inputLazy b s p f acc).1 ps f (inputLazy b s p f acc).2 := rfl
    rw [hstep]
    refine ⟨?_, ?_, ?_, i₄⟩
    · rw [i₁, h₁, h₂, List.flatten_cons, ← List.append_assoc, lazyBlocks_append hb (live s ++ p),
        List.foldl_append]
    · rw [i₂, h₂, List.flatten_cons, ← List.append_assoc, lazyRest_append hb (live s ++ p)]
    · rw [i₃, h₂, List.flatten_cons, ← List.append_assoc, lazyRest_append hb (live s ++ p)]

/-- **`inputLazy` over a list of pieces = `inputLazy` on their concatenation.** -/
theorem inputLazys_flatten {b : Nat} (hb : 0 < b) {s : BB} (hwf : WFL b s)
    (pieces : List (List (BitVec 8))) (f : σ → List (BitVec 8) → σ) (acc : σ) :
    (inputLazys b s pieces f acc).2 = (inputLazy b s pieces.flatten f acc).2 ∧
    obs (inputLazys b s pieces f acc).1 = obs (inputLazy b s pieces.flatten f acc).1 := by
  obtain ⟨h₁, h₂, h₃, -⟩ := inputLazys_spec hb f pieces hwf acc
  obtain ⟨g₁, g₂, g₃, -⟩ := inputLazy_spec hb hwf pieces.flatten f acc
  simp only [obs, h₁, h₂, h₃, g₁, g₂, g₃, and_self]

end InputLazy

/-! ## 6. Padding -/

section Padding
variable {σ : Type}

theorem length_toBe64 (w : BitVec 64) : (toBe64 w).length = 8 := by simp [toBe64, toLe64]

theorem take_succ_set {α} (l : List α) (p : Nat) (x : α) (h : p < l.length) :
    (l.set p x).take (p + 1) = l.take p ++ [x] := by
  induction l generalizing p with
  | nil => simp at h
  | cons a l ih =>
    cases p with
    | zero => simp
    | succ p => simp at h; simp [ih p h]

/-- `[0x80] ++ zeros` written over the free part of the buffer. -/
theorem zeroFrom_set (buf : List (BitVec 8)) (p : Nat) (x : BitVec 8) (h : p < buf.length) :
    zeroFrom (buf.set p x) (p + 1)
      = buf.take p ++ [x] ++ List.replicate (buf.length - (p + 1)) 0#8 := by
  simp [zeroFrom, take_succ_set _ _ _ h]

theorem zeroUpto_padded (l : List (BitVec 8)) (n : Nat) :
    zeroUpto (l ++ List.replicate n 0#8) l.length = List.replicate (l.length + n) 0#8 := by
  simp [zeroUpto, List.replicate_append_replicate]

/-! ### `digest_pad` (private in block-buffer; used through `len64_padding_be`) -/

/-- the marker and the zeros fit together with `upTo` more bytes: nothing is flushed. -/
theorem digestPad_fit {b : Nat} {s : BB} (hwf : WF b s) (upTo : Nat) (f : σ → List (BitVec 8) → σ)
    (acc : σ) (h : s.pos + 1 + upTo ≤ b) :
    digestPad b s upTo f acc
      = ({ buf := live s ++ [0x80#8] ++ List.replicate (b - (s.pos + 1)) 0#8, pos := s.pos + 1 },
         acc) := by
  obtain ⟨hlen, hpos⟩ := hwf
  have hne : s.pos ≠ b := Nat.ne_of_lt hpos
  have hc : ¬ b - (s.pos + 1) < upTo := by omega
  simp only [digestPad, hne, if_false, hc]
  rw [zeroFrom_set _ _ _ (by omega), hlen]; rfl

/-- otherwise the block `live ++ 0x80 ++ zeros` is flushed and the buffer is all zero. -/
theorem digestPad_spill {b : Nat} {s : BB} (hwf : WF b s) (upTo : Nat)
    (f : σ → List (BitVec 8) → σ) (acc : σ) (h : b < s.pos + 1 + upTo) :
    digestPad b s upTo f acc
      = ({ buf := List.replicate b 0#8, pos := s.pos + 1 },
         f acc (live s ++ [0x80#8] ++ List.replicate (b - (s.pos + 1)) 0#8)) := by
  obtain ⟨hlen, hpos⟩ := hwf
  have hne : s.pos ≠ b := Nat.ne_of_lt hpos
  have hc : b - (s.pos + 1) < upTo := by omega
  simp only [digestPad, hne, if_false, hc, if_true]
  rw [zeroFrom_set _ _ _ (by omega), hlen]
  have hl : (List.take s.pos s.buf ++ [(0x80 : BitVec 8)]).length = s.pos + 1 := by
    simp [List.length_take]; omega
  have hz := zeroUpto_padded (List.take s.pos s.buf ++ [(0x80 : BitVec 8)]) (b - (s.pos + 1))
  rw [hl] at hz
  rw [hz]
  have : s.pos + 1 + (b - (s.pos + 1)) = b := by omega
  rw [this]; rfl

/-- a full (lazy) buffer is flushed first. -/
theorem digestPad_full {b : Nat} (hb : 0 < b) {s : BB} (upTo : Nat) (f : σ → List (BitVec 8) → σ)
    (acc : σ) (h : s.pos = b) :
    digestPad b s upTo f acc = digestPad b { s with pos := 0 } upTo f (f acc s.buf) := by
  have : (0 : Nat) ≠ b := Nat.ne_of_lt hb
  simp [digestPad, h, this]

/-! ### `len64_padding_be` -/

/-- the minimal number of zero bytes `z` with `p + 1 + z + 8 ≡ 0 (mod b)`. -/
def padZeros (b p : Nat) : Nat := (b - (p + 9) % b) % b

/-- the padded tail: live bytes, `0x80`, minimal zeros, 64-bit big-endian length. -/
def len64Padded (b : Nat) (tail : List (BitVec 8)) (len : BitVec 64) : List (BitVec 8) :=
  tail ++ [0x80#8] ++ List.replicate (padZeros b tail.length) 0#8 ++ toBe64 len

theorem padZeros_lt {b : Nat} (hb : 0 < b) (p : Nat) : padZeros b p < b := Nat.mod_lt _ hb

theorem padZeros_total {b : Nat} (hb : 0 < b) (p : Nat) : (p + 9 + padZeros b p) % b = 0 := by
  unfold padZeros
  rw [Nat.add_mod_mod]
  have hlt : (p + 9) % b < b := Nat.mod_lt _ hb
  have hdm := Nat.div_add_mod (p + 9) b
  have : p + 9 + (b - (p + 9) % b) = b * ((p + 9) / b + 1) := by
    rw [Nat.mul_add, Nat.mul_one]
    generalize (p + 9) / b = q at hdm
    generalize (p + 9) % b = r at hdm hlt
    omega
  rw [this, Nat.mul_mod_right]

theorem padZeros_minimal {b : Nat} (hb : 0 < b) (p z : Nat) (hz : (p + 9 + z) % b = 0) :
    padZeros b p ≤ z := by
  -- otherwise 0 < padZeros − z < b would be a multiple of b
  apply Decidable.byContradiction; intro hlt
  have hlt : z < padZeros b p := Nat.lt_of_not_le hlt
  have d1 : b ∣ p + 9 + padZeros b p := Nat.dvd_of_mod_eq_zero (padZeros_total hb p)
  have d2 : b ∣ p + 9 + z := Nat.dvd_of_mod_eq_zero hz
  have d3 : b ∣ (p + 9 + padZeros b p) - (p + 9 + z) := Nat.dvd_sub d1 d2
  have hle : b ≤ (p + 9 + padZeros b p) - (p + 9 + z) := Nat.le_of_dvd (by omega) d3
  have := padZeros_lt hb p
  omega

theorem padZeros_one {b p : Nat} (h : p + 9 ≤ b) : padZeros b p = b - (p + 9) := by
  unfold padZeros
  rcases Nat.lt_or_eq_of_le h with hlt | heq
  · rw [Nat.mod_eq_of_lt hlt, Nat.mod_eq_of_lt (by omega)]
  · rw [heq, Nat.mod_self, Nat.sub_zero, Nat.mod_self, Nat.sub_self]

theorem padZeros_two {b p : Nat} (hb8 : 8 ≤ b) (hp : p < b) (h : b < p + 9) :
    padZeros b p = 2 * b - (p + 9) := by
  unfold padZeros
  rw [Nat.mod_eq_sub_mod (Nat.le_of_lt h)]
  rcases Nat.lt_or_ge (p + 9 - b) b with hlt | hge
  · rw [Nat.mod_eq_of_lt hlt, Nat.mod_eq_of_lt (by omega)]; omega
  · have : p + 9 - b = b := by omega
    rw [this, Nat.mod_self, Nat.sub_zero, Nat.mod_self]; omega

/-- `pos + 9 ≤ b`: one block `live ++ 0x80 ++ zeros ++ len`. -/
theorem len64PaddingBe_one {b : Nat} {s : BB} (hwf : WF b s) (len : BitVec 64)
    (f : σ → List (BitVec 8) → σ) (acc : σ) (h : s.pos + 9 ≤ b) :
    len64PaddingBe b s len f acc
      = ({ buf := live s ++ [0x80#8] ++ List.replicate (b - (s.pos + 9)) 0#8 ++ toBe64 len, pos := 0 },
         f acc (live s ++ [0x80#8] ++ List.replicate (b - (s.pos + 9)) 0#8 ++ toBe64 len)) := by
  have hll : (live s).length = s.pos := length_live hwf.toWFL
  have hsp : splice (live s ++ [0x80#8] ++ List.replicate (b - (s.pos + 1)) 0#8) (b - 8) (toBe64 len)
      = live s ++ [0x80#8] ++ List.replicate (b - (s.pos + 9)) 0#8 ++ toBe64 len := by
    rw [splice_full _ _ _ (by simp [hll, length_toBe64]; omega)]
    congr 1
    have e : b - 8 = (live s ++ [0x80#8]).length + (b - (s.pos + 9)) := by simp [hll]; omega
    rw [e, take_length_add, List.take_replicate]
    congr 2
    omega
  simp only [len64PaddingBe, digestPad_fit hwf 8 f acc (by omega)]
  rw [hsp]

/-- `pos + 9 > b`: two blocks, `live ++ 0x80 ++ zeros` and `zeros ++ len`. -/
theorem len64PaddingBe_two {b : Nat} (hb8 : 8 ≤ b) {s : BB} (hwf : WF b s) (len : BitVec 64)
    (f : σ → List (BitVec 8) → σ) (acc : σ) (h : b < s.pos + 9) :
    len64PaddingBe b s len f acc
      = ({ buf := List.replicate (b - 8) 0#8 ++ toBe64 len, pos := 0 },
         f (f acc (live s ++ [0x80#8] ++ List.replicate (b - (s.pos + 1)) 0#8))
           (List.replicate (b - 8) 0#8 ++ toBe64 len)) := by
  have hsp : splice (List.replicate b 0#8) (b - 8) (toBe64 len)
      = List.replicate (b - 8) 0#8 ++ toBe64 len := by
    rw [splice_full _ _ _ (by simp [length_toBe64]; omega), List.take_replicate]
    congr 2
    omega
  simp only [len64PaddingBe, digestPad_spill hwf 8 f acc (by omega)]
  rw [hsp]

theorem len64Padded_one {b : Nat} (tail : List (BitVec 8)) (len : BitVec 64)
    (h : tail.length + 9 ≤ b) :
    len64Padded b tail len
      = tail ++ [0x80#8] ++ List.replicate (b - (tail.length + 9)) 0#8 ++ toBe64 len := by
  rw [len64Padded, padZeros_one h]

theorem len64Padded_two {b : Nat} (hb8 : 8 ≤ b) (tail : List (BitVec 8)) (len : BitVec 64)
    (hp : tail.length < b) (h : b < tail.length + 9) :
    len64Padded b tail len
      = (tail ++ [0x80#8] ++ List.replicate (b - (tail.length + 1)) 0#8)
        ++ (List.replicate (b - 8) 0#8 ++ toBe64 len) := by
  rw [len64Padded, padZeros_two hb8 hp h]
  have : 2 * b - (tail.length + 9) = (b - (tail.length + 1)) + (b - 8) := by omega
  rw [this, ← List.replicate_append_replicate]
  simp only [List.append_assoc]

/-- the padded tail is a whole number of blocks (one or two). -/
theorem length_len64Padded {b : Nat} (hb8 : 8 ≤ b) (tail : List (BitVec 8)) (len : BitVec 64)
    (hp : tail.length < b) :
    (len64Padded b tail len).length = if tail.length + 9 ≤ b then b else 2 * b := by
  by_cases h : tail.length + 9 ≤ b
  · rw [len64Padded_one tail len h, if_pos h]; simp [length_toBe64]; omega
  · rw [len64Padded_two hb8 tail len hp (Nat.lt_of_not_le h), if_neg h]; simp [length_toBe64]; omega

/-- **`len64_padding_be` on a well-formed state**: the closure receives exactly the `b`-byte
    blocks of `live s ++ [0x80] ++ zeros ++ toBe64 len` with the minimal number of zeros that makes the
    total a multiple of `b`; the cursor ends at 0.  Independent of stale bytes. -/
theorem len64PaddingBe_spec {b : Nat} (hb8 : 8 ≤ b) {s : BB} (hwf : WF b s) (len : BitVec 64)
    (f : σ → List (BitVec 8) → σ) (acc : σ) :
    (len64PaddingBe b s len f acc).2 = (fullBlocks b (len64Padded b (live s) len)).foldl f acc ∧
    rest b (len64Padded b (live s) len) = [] ∧
    (len64PaddingBe b s len f acc).1.pos = 0 ∧
    WF b (len64PaddingBe b s len f acc).1 := by
  have hb : 0 < b := by omega
  have hll : (live s).length = s.pos := length_live hwf.toWFL
  by_cases h : s.pos + 9 ≤ b
  · have hl : (live s ++ [0x80#8] ++ List.replicate (b - (s.pos + 9)) 0#8 ++ toBe64 len).length = b := by
      simp [hll, length_toBe64]; omega
    rw [len64PaddingBe_one hwf len f acc h, len64Padded_one _ _ (by rw [hll]; exact h), hll,
      fullBlocks_single hb _ hl]
    refine ⟨rfl, ?_, rfl, hl, hb⟩
    have := rest_block_append hb _ ([] : List (BitVec 8)) hl
    rwa [List.append_nil, rest_nil] at this
  · have h' : b < s.pos + 9 := Nat.lt_of_not_le h
    have hl1 : (live s ++ [0x80#8] ++ List.replicate (b - (s.pos + 1)) 0#8).length = b := by
      have := hwf.2; simp [hll]; omega
    have hl2 : (List.replicate (b - 8) 0#8 ++ toBe64 len).length = b := by
      simp [length_toBe64]; omega
    rw [len64PaddingBe_two hb8 hwf len f acc h',
      len64Padded_two hb8 _ _ (by rw [hll]; exact hwf.2) (by rw [hll]; exact h'), hll,
      fullBlocks_block_append hb _ _ hl1, fullBlocks_single hb _ hl2,
      rest_block_append hb _ _ hl1]
    refine ⟨rfl, ?_, rfl, hl2, hb⟩
    have := rest_block_append hb _ ([] : List (BitVec 8)) hl2
    rwa [List.append_nil, rest_nil] at this

/-- the result depends on the state only through the live bytes. -/
theorem len64PaddingBe_congr {b : Nat} (hb8 : 8 ≤ b) {s₁ s₂ : BB} (h₁ : WF b s₁) (h₂ : WF b s₂)
    (ho : obs s₁ = obs s₂) (len : BitVec 64) (f : σ → List (BitVec 8) → σ) (acc : σ) :
    (len64PaddingBe b s₁ len f acc).2 = (len64PaddingBe b s₂ len f acc).2 := by
  have hl : live s₁ = live s₂ := congrArg Prod.fst ho
  rw [(len64PaddingBe_spec hb8 h₁ len f acc).1, (len64PaddingBe_spec hb8 h₂ len f acc).1, hl]

/-! ### `pad_with::<ZeroPadding>` and `pad_with::<Iso7816>` -/

/-- `ZeroPadding::pad_block` fails exactly when `pos > block.len()`. -/
theorem padWithZero_eq_none {b : Nat} {s : BB} : padWithZero b s = none ↔ b < s.pos := by
  unfold padWithZero; split <;> simp_all

/-- on a (lazily) well-formed state the padded block is `live ++ zeros`, of length `b`. -/
theorem padWithZero_spec {b : Nat} {s : BB} (hwf : WFL b s) :
    padWithZero b s
      = some ({ buf := live s ++ List.replicate (b - s.pos) 0#8, pos := 0 },
              live s ++ List.replicate (b - s.pos) 0#8) ∧
    (live s ++ List.replicate (b - s.pos) 0#8).length = b := by
  have hll : (live s).length = s.pos := length_live hwf
  have hn : ¬ s.pos > b := Nat.not_lt.mpr hwf.2
  refine ⟨?_, ?_⟩
  · simp only [padWithZero, hn, if_false, zeroFrom, hwf.1]; rfl
  · have := hwf.2; simp [hll]; omega

/-- `Iso7816::pad_block` fails exactly when `pos >= block.len()`. -/
theorem padWithIso7816_eq_none {b : Nat} {s : BB} : padWithIso7816 b s = none ↔ b ≤ s.pos := by
  unfold padWithIso7816; split <;> simp_all

/-- on a well-formed state the padded block is `live ++ 0x80 ++ zeros`, of length `b`. -/
theorem padWithIso7816_spec {b : Nat} {s : BB} (hwf : WF b s) :
    padWithIso7816 b s
      = some ({ buf := live s ++ [0x80#8] ++ List.replicate (b - (s.pos + 1)) 0#8, pos := 0 },
              live s ++ [0x80#8] ++ List.replicate (b - (s.pos + 1)) 0#8) ∧
    (live s ++ [0x80#8] ++ List.replicate (b - (s.pos + 1)) 0#8).length = b := by
  have hll : (live s).length = s.pos := length_live hwf.toWFL
  have hn : ¬ s.pos ≥ b := Nat.not_le.mpr hwf.2
  refine ⟨?_, ?_⟩
  · simp only [padWithIso7816, hn, if_false]
    rw [zeroFrom_set _ _ _ (by rw [hwf.1]; exact hwf.2), hwf.1]; rfl
  · have := hwf.2; simp [hll]; omega

end Padding

/-! ## 7. Changing the accumulator type (simulation)

  The buffer never depends on the closure; related closures give related accumulators.  Used when a
  model keeps part of its state outside the closure (JH `datalen`) while the generic description
  threads a tuple. -/

section Simulation
variable {σ τ : Type}

theorem foldChunks_sim {b : Nat} (R : σ → τ → Prop) (f : σ → List (BitVec 8) → σ)
    (g : τ → List (BitVec 8) → τ) (hfg : ∀ a a' blk, R a a' → R (f a blk) (g a' blk)) :
    ∀ (fuel : Nat) (acc : σ) (acc' : τ) (input : List (BitVec 8)), R acc acc' →
      (foldChunks b f fuel acc input).2 = (foldChunks b g fuel acc' input).2 ∧
      R (foldChunks b f fuel acc input).1 (foldChunks b g fuel acc' input).1 := by
  intro fuel
  induction fuel with
  | zero => intro acc acc' input h; exact ⟨rfl, h⟩
  | succ fuel ih =>
    intro acc acc' input h
    by_cases hc : b ≤ input.length ∧ 0 < b
    · simp only [foldChunks, hc, and_self, if_true]
      exact ih _ _ _ (hfg _ _ _ h)
    · simp only [foldChunks, hc, if_false, true_and]
      exact h

theorem foldChunksLazy_sim {b : Nat} (R : σ → τ → Prop) (f : σ → List (BitVec 8) → σ)
    (g : τ → List (BitVec 8) → τ) (hfg : ∀ a a' blk, R a a' → R (f a blk) (g a' blk)) :
    ∀ (fuel : Nat) (acc : σ) (acc' : τ) (input : List (BitVec 8)), R acc acc' →
      (foldChunksLazy b f fuel acc input).2 = (foldChunksLazy b g fuel acc' input).2 ∧
      R (foldChunksLazy b f fuel acc input).1 (foldChunksLazy b g fuel acc' input).1 := by
  intro fuel
  induction fuel with
  | zero => intro acc acc' input h; exact ⟨rfl, h⟩
  | succ fuel ih =>
    intro acc acc' input h
    by_cases hc : b < input.length ∧ 0 < b
    · simp only [foldChunksLazy, hc, and_self, if_true]
      exact ih _ _ _ (hfg _ _ _ h)
    · simp only [foldChunksLazy, hc, if_false, true_and]
      exact h

/-- `input_block` with related closures: identical buffers (stale bytes included), related
    accumulators.  No well-formedness needed. -/
theorem inputBlock_sim {b : Nat} (R : σ → τ → Prop) (f : σ → List (BitVec 8) → σ)
    (g : τ → List (BitVec 8) → τ) (hfg : ∀ a a' blk, R a a' → R (f a blk) (g a' blk))
    (s : BB) (xs : List (BitVec 8)) (acc : σ) (acc' : τ) (h : R acc acc') :
    (inputBlock b s xs f acc).1 = (inputBlock b s xs g acc').1 ∧
    R (inputBlock b s xs f acc).2 (inputBlock b s xs g acc').2 := by
  by_cases hsmall : xs.length < b - s.pos
  · rw [inputBlock_small f acc hsmall, inputBlock_small g acc' hsmall]; exact ⟨rfl, h⟩
  · by_cases hp : s.pos = 0
    · have h' : ¬ xs.length < b - 0 := by rw [← hp]; exact hsmall
      obtain ⟨e, r⟩ := foldChunks_sim (b := b) R f g hfg (xs.length / b + 1) acc acc' xs h
      simp only [inputBlock, hp, h', if_false, bne_self_eq_false, Bool.false_eq_true]
      rw [e]; exact ⟨rfl, r⟩
    · obtain ⟨e, r⟩ := foldChunks_sim (b := b) R f g hfg ((xs.drop (b - s.pos)).length / b + 1)
        (f acc (splice s.buf s.pos (xs.take (b - s.pos))))
        (g acc' (splice s.buf s.pos (xs.take (b - s.pos)))) (xs.drop (b - s.pos)) (hfg _ _ _ h)
      simp only [inputBlock, hsmall, if_false, bne_iff_ne, ne_eq, hp, not_false_eq_true, if_true]
      rw [e]; exact ⟨rfl, r⟩

theorem inputLazy_sim {b : Nat} (R : σ → τ → Prop) (f : σ → List (BitVec 8) → σ)
    (g : τ → List (BitVec 8) → τ) (hfg : ∀ a a' blk, R a a' → R (f a blk) (g a' blk))
    (s : BB) (xs : List (BitVec 8)) (acc : σ) (acc' : τ) (h : R acc acc') :
    (inputLazy b s xs f acc).1 = (inputLazy b s xs g acc').1 ∧
    R (inputLazy b s xs f acc).2 (inputLazy b s xs g acc').2 := by
  by_cases hsmall : xs.length ≤ b - s.pos
  · rw [inputLazy_small f acc hsmall, inputLazy_small g acc' hsmall]; exact ⟨rfl, h⟩
  · by_cases hp : s.pos = 0
    · have h' : ¬ xs.length ≤ b - 0 := by rw [← hp]; exact hsmall
      obtain ⟨e, r⟩ := foldChunksLazy_sim (b := b) R f g hfg (xs.length / b + 1) acc acc' xs h
      simp only [inputLazy, hp, h', if_false, bne_self_eq_false, Bool.false_eq_true]
      rw [e]; exact ⟨rfl, r⟩
    · obtain ⟨e, r⟩ := foldChunksLazy_sim (b := b) R f g hfg ((xs.drop (b - s.pos)).length / b + 1)
        (f acc (splice s.buf s.pos (xs.take (b - s.pos))))
        (g acc' (splice s.buf s.pos (xs.take (b - s.pos)))) (xs.drop (b - s.pos)) (hfg _ _ _ h)
      simp only [inputLazy, hsmall, if_false, bne_iff_ne, ne_eq, hp, not_false_eq_true, if_true]
      rw [e]; exact ⟨rfl, r⟩

/-- a closure acting on the first component of a pair = the closure on that component, with the
    second component carried along. -/
theorem inputBlock_pair {γ : Type} {b : Nat} (f : σ → List (BitVec 8) → σ) (s : BB)
    (xs : List (BitVec 8)) (acc : σ) (c : γ) :
    inputBlock b s xs (fun (p : σ × γ) blk => (f p.1 blk, p.2)) (acc, c)
      = ((inputBlock b s xs f acc).1, ((inputBlock b s xs f acc).2, c)) := by
  obtain ⟨e, r⟩ := inputBlock_sim (b := b) (fun (a : σ) (a' : σ × γ) => a' = (a, c)) f
    (fun (p : σ × γ) blk => (f p.1 blk, p.2)) (by intro a a' blk h; subst h; rfl) s xs acc (acc, c) rfl
  exact Prod.ext e.symm r

theorem inputLazy_pair {γ : Type} {b : Nat} (f : σ → List (BitVec 8) → σ) (s : BB)
    (xs : List (BitVec 8)) (acc : σ) (c : γ) :
    inputLazy b s xs (fun (p : σ × γ) blk => (f p.1 blk, p.2)) (acc, c)
      = ((inputLazy b s xs f acc).1, ((inputLazy b s xs f acc).2, c)) := by
  obtain ⟨e, r⟩ := inputLazy_sim (b := b) (fun (a : σ) (a' : σ × γ) => a' = (a, c)) f
    (fun (p : σ × γ) blk => (f p.1 blk, p.2)) (by intro a a' blk h; subst h; rfl) s xs acc (acc, c) rfl
  exact Prod.ext e.symm r

end Simulation

/-! ## 8. Indexing blocks; relation to `CC.chunks` -/

section Indexing
variable {α : Type}

/-- block `i` is `ys[b·i .. b·i + b]`. -/
theorem takeBlocks_eq_map (b : Nat) : ∀ (n : Nat) (ys : List α),
    takeBlocks b n ys = (List.range n).map (fun i => (ys.drop (b * i)).take b) := by
  intro n
  induction n with
  | zero => intro ys; rfl
  | succ n ih =>
    intro ys
    rw [takeBlocks, ih, List.range_succ_eq_map, List.map_cons, List.map_map]
    simp only [Nat.mul_zero, List.drop_zero, List.cons.injEq, true_and]
    apply List.map_congr_left
    intro i _
    simp only [Function.comp, List.drop_drop, Nat.mul_succ]
    rw [Nat.add_comm]

theorem fullBlocks_eq_map (b : Nat) (ys : List α) :
    fullBlocks b ys = (List.range (ys.length / b)).map (fun i => (ys.drop (b * i)).take b) :=
  takeBlocks_eq_map b _ ys

theorem lazyBlocks_eq_map (b : Nat) (ys : List α) :
    lazyBlocks b ys = (List.range ((ys.length - 1) / b)).map (fun i => (ys.drop (b * i)).take b) :=
  takeBlocks_eq_map b _ ys

/-- `CC.chunks` = the full blocks, then the non-empty remainder. -/
theorem chunks_eq_fullBlocks {b : Nat} (hb : 0 < b) (ys : List α) :
    CC.chunks b ys = fullBlocks b ys ++ (if rest b ys = [] then [] else [rest b ys]) := by
  have hb0 : b ≠ 0 := Nat.ne_of_gt hb
  induction ys using blocks_induction hb with
  | small ys h =>
    rw [fullBlocks_of_lt h, rest_of_lt h, List.nil_append]
    by_cases hn : ys = []
    · subst hn; simp
    · rw [CC.chunks_of_ne_nil hb0 hn, if_neg hn, List.take_of_length_le (Nat.le_of_lt h),
        List.drop_eq_nil_of_le (Nat.le_of_lt h), CC.chunks_nil]
  | step ys h ih =>
    have hn : ys ≠ [] := by
      intro h0; subst h0; simp at h; omega
    rw [CC.chunks_of_ne_nil hb0 hn, ih, fullBlocks_of_ge hb h, rest_of_ge hb h, List.cons_append]

/-- a message that is a whole number of blocks: `chunks` and `fullBlocks` coincide. -/
theorem chunks_eq_fullBlocks_of_rest_nil {b : Nat} (hb : 0 < b) (ys : List α) (h : rest b ys = []) :
    CC.chunks b ys = fullBlocks b ys := by
  rw [chunks_eq_fullBlocks hb, h, if_pos rfl, List.append_nil]

end Indexing
end CC.Buffer
