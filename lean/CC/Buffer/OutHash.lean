/-
  CC.Buffer.OutHash — plugging in a concrete hash model whose operations return `Out` (they may
  panic: counter overflow checks in debug builds, `unwrap`s, `debug_assert!`s).

  All four families have this shape: `update : μ → bytes → Out μ`, `finalize : μ → Out digest`,
  `finalize_reset : μ → Out (μ × digest)`, Skein even `default : Out μ`.  The generic theory of
  CC/Buffer/Hash.lean is reused unchanged by letting the *chaining state be `Out σ`*: the per-block
  closure threads a possible panic (it is strict: once panicked, it stays panicked), and the digest
  type is `Out ω`.  So panics are part of the statement — "the history panics iff the one-shot digest
  of the same bytes panics, with the same message" — and no bound on the message length is assumed.

  `OutInstance` lists the obligations; `OutInstance.machine` is the model's operations lifted to
  `Out μ` (Kleisli composition: a panicked object stays panicked under `update`/`finalize`;
  `reset` — the repo's `*self = Self::default()` — re-creates the default object whatever the state);
  `OutInstance.refines` shows that this machine refines "bytes absorbed since the last reset".
-/
import CC.Buffer.Hash
namespace CC.Buffer
open CC

/-- `x` if it is a value, otherwise `d`. -/
def Out.recover {α} (x d : Out α) : Out α :=
  match x with
  | .ok a => .ok a
  | _ => d

@[simp] theorem Out.recover_ok {α} (a : α) (d : Out α) : Out.recover (.ok a) d = .ok a := rfl
@[simp] theorem Out.recover_err {α} (d : Out α) : Out.recover .err d = d := rfl
@[simp] theorem Out.recover_panic {α} (w : String) (d : Out α) : Out.recover (.panic w) d = d := rfl

theorem Out.bind_ok_right {α} (x : Out α) : (x >>= fun a => Out.ok a) = x := by
  cases x <;> rfl

/-- a closure that maps `x` to itself on every block leaves an accumulator `x` alone —
    whatever the buffer state (no well-formedness needed). -/
theorem Mode.input_fixed {σ : Type} (m : Mode) (b : Nat) (s : BB) (xs : List (BitVec 8))
    (f : σ → List (BitVec 8) → σ) (x : σ) (hx : ∀ blk, f x blk = x) :
    (m.input b s xs f x).2 = x := by
  cases m with
  | eager =>
    exact (inputBlock_sim (b := b) (fun (a : σ) (_ : Unit) => a = x) f (fun _ _ => ())
      (by intro a _ blk h; subst h; exact hx blk) s xs x () rfl).2
  | lazy =>
    exact (inputLazy_sim (b := b) (fun (a : σ) (_ : Unit) => a = x) f (fun _ _ => ())
      (by intro a _ blk h; subst h; exact hx blk) s xs x () rfl).2

/-- A concrete model with `Out`-valued operations as an instance of the generic hash.
    `σ` = the non-buffer part of the model state, `pack` = the struct and its
    projections.  All obligations are about states of the form `pack c bb`. -/
structure OutInstance (m : Mode) (μ σ ω : Type) where
  /-- the generic description; chaining state `Out σ` (a panic inside the closure is threaded). -/
  H : IncHash (Out σ) (Out ω)
  init0 : σ
  init_eq : H.init = .ok init0
  step_err : ∀ blk, H.step .err blk = .err
  step_panic : ∀ w blk, H.step (.panic w) blk = .panic w
  pre_err : ∀ xs, H.pre .err xs = .err
  pre_panic : ∀ w xs, H.pre (.panic w) xs = .panic w
  fin_err : ∀ l, H.fin .err l = .err
  fin_panic : ∀ w l, H.fin (.panic w) l = .panic w
  /-- the model's operations. -/
  start : Out μ
  update : μ → List (BitVec 8) → Out μ
  finalize : μ → Out ω
  reset : μ → Out μ
  finreset : μ → Out (μ × ω)
  pack : σ → BB → μ
  /-- (O1) `Default::default()` succeeds with IV + fresh buffer. -/
  start_eq : start = .ok (pack init0 (BB.init H.b))
  /-- (O2) `update` is `pre`, then `input_block`/`input_lazy` with the closure `H.step`; the call
      panics iff the closure (or the bookkeeping) did. -/
  update_eq : ∀ c bb p, update (pack c bb) p
      = (IncHash.update m H ⟨.ok c, bb⟩ p).st >>= fun c' =>
          .ok (pack c' (IncHash.update m H ⟨.ok c, bb⟩ p).bb)
  /-- (O3) on a well-formed buffer `finalize` reads only the chaining state and the live bytes. -/
  finalize_eq : ∀ c bb, m.WF H.b bb → finalize (pack c bb) = H.fin (.ok c) (live bb)
  /-- (O4) `reset` re-creates the default state. -/
  reset_eq : ∀ c bb, reset (pack c bb) = start
  /-- (O5) `finalize_reset` = `finalize`, then the default state. -/
  finreset_eq : ∀ c bb, finreset (pack c bb)
      = finalize (pack c bb) >>= fun d => start >>= fun s' => .ok (s', d)

namespace OutInstance
variable {m : Mode} {μ σ ω : Type} (I : OutInstance m μ σ ω)

/-- a generic state (chaining state possibly panicked) as a model outcome. -/
def fromW (w : HState (Out σ)) : Out μ := w.st >>= fun c => .ok (I.pack c w.bb)

def start0 : μ := I.pack I.init0 (BB.init I.H.b)

theorem start_fromW : I.start = I.fromW I.H.start := by
  rw [I.start_eq]
  show _ = (I.H.init >>= fun c => Out.ok (I.pack c (BB.init I.H.b)))
  rw [I.init_eq]; rfl

/-- the model's operations lifted to outcomes.  `update`/`finalize` on a panicked object panic
    (Kleisli composition); `reset` re-creates the default object whatever the state; a `finreset`
    leaves the default object (also when the finalisation panicked). -/
def machine : Machine (Out μ) (Out ω) where
  start := I.start
  update := fun s p => s >>= fun h => I.update h p
  reset := fun s => Out.recover (s >>= I.reset) I.start
  resetKeep := fun s => Out.recover (s >>= I.reset) I.start
  finalize := fun s => s >>= I.finalize
  finreset := fun s =>
    (s >>= fun h => I.finreset h >>= fun r => .ok r.2,
     Out.recover (s >>= fun h => I.finreset h >>= fun r => .ok r.1) I.start)

def digest (bytes : List (BitVec 8)) : Out ω := IncHash.digest m I.H bytes

theorem step_failed (x : Out σ) (hx : ∀ c, x ≠ .ok c) (blk : List (BitVec 8)) : I.H.step x blk = x := by
  cases x with
  | ok c => exact absurd rfl (hx c)
  | err => exact I.step_err blk
  | panic w => exact I.step_panic w blk

/-- Kleisli `update` = generic `update` (any buffer state). -/
theorem update_fromW (w : HState (Out σ)) (p : List (BitVec 8)) :
    (I.fromW w >>= fun h => I.update h p) = I.fromW (IncHash.update m I.H w p) := by
  obtain ⟨st, bb⟩ := w
  cases st with
  | ok c => exact I.update_eq c bb p
  | err =>
    have h : (IncHash.update m I.H ⟨.err, bb⟩ p).st = .err := by
      show (m.input I.H.b bb p I.H.step (I.H.pre .err p)).2 = .err
      rw [I.pre_err]; exact m.input_fixed _ _ _ _ _ (fun blk => I.step_err blk)
    show Out.err = I.fromW _
    unfold fromW; rw [h]; rfl
  | panic w =>
    have h : (IncHash.update m I.H ⟨.panic w, bb⟩ p).st = .panic w := by
      show (m.input I.H.b bb p I.H.step (I.H.pre (.panic w) p)).2 = .panic w
      rw [I.pre_panic]; exact m.input_fixed _ _ _ _ _ (fun blk => I.step_panic w blk)
    show Out.panic w = I.fromW _
    unfold fromW; rw [h]; rfl

/-- Kleisli `finalize` = generic `finalize` on well-formed buffers. -/
theorem finalize_fromW (w : HState (Out σ)) (hwf : m.WF I.H.b w.bb) :
    (I.fromW w >>= I.finalize) = I.H.finalize w := by
  obtain ⟨st, bb⟩ := w
  cases st with
  | ok c => exact I.finalize_eq c bb hwf
  | err => exact (I.fin_err _).symm
  | panic w => exact (I.fin_panic w _).symm

theorem reset_fromW (w : HState (Out σ)) :
    Out.recover (I.fromW w >>= I.reset) I.start = I.start := by
  obtain ⟨st, bb⟩ := w
  cases st with
  | ok c =>
    show Out.recover (I.reset (I.pack c bb)) I.start = I.start
    rw [I.reset_eq c bb, I.start_eq]; rfl
  | err => rfl
  | panic w => rfl

theorem finreset_fromW (w : HState (Out σ)) (hwf : m.WF I.H.b w.bb) :
    (I.fromW w >>= fun h => I.finreset h >>= fun r => .ok r.2) = I.H.finalize w ∧
    Out.recover (I.fromW w >>= fun h => I.finreset h >>= fun r => .ok r.1) I.start = I.start := by
  obtain ⟨st, bb⟩ := w
  cases st with
  | ok c =>
    have hf : I.finalize (I.pack c bb) = I.H.fin (.ok c) (live bb) := I.finalize_eq c bb hwf
    have e : I.finreset (I.pack c bb)
        = I.H.fin (.ok c) (live bb) >>= fun d => Out.ok (I.start0, d) := by
      rw [I.finreset_eq, hf, I.start_eq]; rfl
    constructor
    · show (I.finreset (I.pack c bb) >>= fun r => Out.ok r.2) = I.H.fin (.ok c) (live bb)
      rw [e]
      cases I.H.fin (.ok c) (live bb) <;> rfl
    · show Out.recover (I.finreset (I.pack c bb) >>= fun r => Out.ok r.1) I.start = I.start
      rw [e, I.start_eq]
      cases I.H.fin (.ok c) (live bb) <;> rfl
  | err => exact ⟨(I.fin_err _).symm, rfl⟩
  | panic w => exact ⟨(I.fin_panic w _).symm, rfl⟩

/-- the lifted model refines "bytes absorbed since the last reset" with the generic one-shot digest. -/
def refines : I.machine.Refines I.digest where
  R := fun s bytes => ∃ w, IncHash.Rel m I.H w bytes ∧ s = I.fromW w
  start := ⟨I.H.start, IncHash.Rel_start m I.H, I.start_fromW⟩
  update := by
    rintro s bytes p ⟨w, hr, rfl⟩
    exact ⟨IncHash.update m I.H w p, IncHash.Rel_update m I.H hr p, I.update_fromW w p⟩
  reset := by
    rintro s bytes ⟨w, _, rfl⟩
    exact ⟨I.H.start, IncHash.Rel_start m I.H, (I.reset_fromW w).trans I.start_fromW⟩
  resetKeep := by
    rintro s bytes ⟨w, _, rfl⟩
    exact ⟨I.H.start, IncHash.Rel_start m I.H, (I.reset_fromW w).trans I.start_fromW⟩
  finalize := by
    rintro s bytes ⟨w, hr, rfl⟩
    show (I.fromW w >>= I.finalize) = IncHash.digest m I.H bytes
    rw [I.finalize_fromW w hr.1, IncHash.finalize_of_Rel m I.H hr]
  finreset := by
    rintro s bytes ⟨w, hr, rfl⟩
    obtain ⟨h₁, h₂⟩ := I.finreset_fromW w hr.1
    refine ⟨?_, I.H.start, IncHash.Rel_start m I.H, ?_⟩
    · show (I.fromW w >>= fun h => I.finreset h >>= fun r => .ok r.2) = IncHash.digest m I.H bytes
      rw [h₁, IncHash.finalize_of_Rel m I.H hr]
    · exact h₂.trans I.start_fromW

/-- **chunking** on the model itself, in Kleisli form. -/
theorem chunking (pieces : List (List (BitVec 8))) :
    (pieces.foldl (fun (s : Out μ) p => s >>= fun h => I.update h p) I.start >>= I.finalize)
      = ((I.start >>= fun h => I.update h pieces.flatten) >>= I.finalize) :=
  I.refines.chunking pieces

/-- … and both are the generic one-shot digest. -/
theorem finalize_updates (pieces : List (List (BitVec 8))) :
    (pieces.foldl (fun (s : Out μ) p => s >>= fun h => I.update h p) I.start >>= I.finalize)
      = I.digest pieces.flatten :=
  I.refines.chunking_digest pieces

/-- the abstract digest IS the model's one-shot digest: `default`, one `update`, `finalize`. -/
theorem digest_eq_oneshot (bytes : List (BitVec 8)) :
    I.digest bytes = ((I.start >>= fun h => I.update h bytes) >>= I.finalize) := by
  have h := I.refines.finalize (I.refines.update bytes I.refines.start)
  rw [List.nil_append] at h
  exact h.symm

end OutInstance
end CC.Buffer
