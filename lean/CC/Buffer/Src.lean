/-
  CC.Buffer.Src — SOURCE TIE for the third-party code the hash families run through (property C08): every method of
  `block-buffer`'s `BlockBuffer` (with `block-padding`'s `ZeroPadding` / `Iso7816` behind `pad_with`) that
  tools/inventory_blockbuffer.py regenerates from the crate sources pinned in Cargo.lock into `CC.Gen.BlockBufferSrc`
  (symbolic block size `b`, symbolic buffer / cursor / input, panics as guards) hits NO guard inside the struct invariant
  the hand-written model documents (`buf.length = b`, `pos ≤ b`, `0 < b`; `b < 2^64` because `b` is a `usize`) and EQUALS
  the hand-written model function of `CC.Buffer.BlockBuffer` the property theorems talk about.
-/
import CC.Gen.BlockBufferSrc
import CC.Buffer.Lemmas
namespace CC.Src
open CC CC.Buffer CC.Gen.BlockBufferSrc

theorem src_bb_clean : blockbuffer_errors = [] := rfl

/-- which methods `impl BlockBuffer` has, which of them are not translated (`input_blocks`: reinterprets the input through a
    raw pointer; unused by the workspace), and the fields of the struct -/
theorem src_bb_inventory :
    bb_methods = ["input_block", "input_blocks", "input_lazy", "digest_pad", "len64_padding_be", "len64_padding_le",
                  "len128_padding_be", "pad_with", "size", "position", "remaining", "reset"] ∧
    bb_untranslated = ["input_blocks"] ∧ bb_struct_fields = ["buffer", "pos"] := ⟨rfl, rfl, rfl⟩

/-! ## the prelude combinators vs. the hand model's loops -/

@[simp] theorem Out_bind_ok' {α β} (a : α) (f : α → Out β) : Out.bind (.ok a) f = f a := rfl

theorem chunksExactAux_eq {b : Nat} (hb : 0 < b) :
    ∀ (fuel : Nat) (l : List (BitVec 8)), l.length ≤ fuel → chunksExactAux b fuel l = fullBlocks b l := by
  intro fuel
  induction fuel with
  | zero =>
    intro l h
    have : l.length < b := by omega
    simp [chunksExactAux, fullBlocks_of_lt this]
  | succ fuel ih =>
    intro l h
    by_cases hge : b ≤ l.length
    · have h' : (l.drop b).length ≤ fuel := by simp only [List.length_drop]; omega
      simp only [chunksExactAux, hge, if_true]
      rw [ih _ h', fullBlocks_of_ge hb hge]
    · have : l.length < b := Nat.lt_of_not_le hge
      simp [chunksExactAux, hge, fullBlocks_of_lt this]

theorem chunksExact_eq {b : Nat} (hb : 0 < b) (l : List (BitVec 8)) : chunksExact b l = fullBlocks b l :=
  chunksExactAux_eq hb _ _ (Nat.le_refl _)

theorem chunksExactRem_eq (b : Nat) (l : List (BitVec 8)) : chunksExactRem b l = rest b l := by
  unfold chunksExactRem rest
  congr 1
  have := Nat.div_add_mod l.length b
  omega

theorem forChunks_pure {σ : Type} (f : σ → List (BitVec 8) → σ) (b : Nat) :
    ∀ (cs : List (List (BitVec 8))) (a : σ), (∀ c ∈ cs, c.length = b) →
      forChunks (fun (s : σ) (c : List (BitVec 8)) => if c.length = b then .ok (f s c) else .panic "guard") cs a
        = .ok (cs.foldl f a) := by
  intro cs
  induction cs with
  | nil => intro a _; rfl
  | cons c cs ih =>
    intro a h
    have hc : c.length = b := h c (List.mem_cons_self ..)
    simp only [forChunks, hc, if_true, Out_bind_ok', List.foldl_cons]
    exact ih _ (fun c' hc' => h c' (List.mem_cons_of_mem _ hc'))

/-- the `for chunk in &mut chunks_iter` loop of `input_block` + `remainder()` = the model's `foldChunks` -/
theorem forChunks_foldChunks {σ : Type} {b : Nat} (hb : 0 < b) (f : σ → List (BitVec 8) → σ) (a : σ)
    (l : List (BitVec 8)) :
    forChunks (fun (s : σ) (c : List (BitVec 8)) => if c.length = b then .ok (f s c) else .panic "guard")
        (chunksExact b l) a = .ok (foldChunks b f (l.length / b + 1) a l).1 ∧
    chunksExactRem b l = (foldChunks b f (l.length / b + 1) a l).2 := by
  rw [foldChunks_input hb, chunksExact_eq hb, chunksExactRem_eq]
  exact ⟨forChunks_pure f b _ _ (length_of_mem_fullBlocks hb l), rfl⟩

/-- the `while input.len() > self.size()` loop of `input_lazy` = the model's `foldChunksLazy` (same fuel) -/
theorem whileLoop_lazy_fuel {σ : Type} {b : Nat} (hb : 0 < b) (f : σ → List (BitVec 8) → σ) :
    ∀ (fuel : Nat) (input : List (BitVec 8)) (acc : σ), input.length ≤ fuel →
      whileLoop (fun (s : List (BitVec 8) × σ) => decide (b < s.1.length))
        (fun (s : List (BitVec 8) × σ) =>
          if (s.1.take b).length = b ∧ b ≤ s.1.length then .ok ((s.1.drop b), (f s.2 (s.1.take b))) else .panic "guard")
        fuel (input, acc)
      = .ok ((foldChunksLazy b f fuel acc input).2, (foldChunksLazy b f fuel acc input).1) := by
  intro fuel
  induction fuel with
  | zero =>
    intro input acc h
    have : ¬ b < input.length := by omega
    simp [whileLoop, foldChunksLazy, this]
  | succ fuel ih =>
    intro input acc h
    by_cases hgt : b < input.length
    · have h' : (input.drop b).length ≤ fuel := by simp only [List.length_drop]; omega
      have hle : b ≤ input.length := Nat.le_of_lt hgt
      have htk : (input.take b).length = b := by simp [List.length_take, Nat.min_eq_left hle]
      simp only [whileLoop, foldChunksLazy, hgt, hb, decide_true, if_true, and_self, htk, hle, Out_bind_ok']
      exact ih _ _ h'
    · simp [whileLoop, foldChunksLazy, hgt]

theorem whileLoop_lazy {σ : Type} {b : Nat} (hb : 0 < b) (f : σ → List (BitVec 8) → σ) (input : List (BitVec 8)) (acc : σ) :
    whileLoop (fun (s : List (BitVec 8) × σ) => decide (b < s.1.length))
        (fun (s : List (BitVec 8) × σ) =>
          if (s.1.take b).length = b ∧ b ≤ s.1.length then .ok ((s.1.drop b), (f s.2 (s.1.take b))) else .panic "guard")
        input.length (input, acc)
      = .ok ((foldChunksLazy b f (input.length / b + 1) acc input).2,
             (foldChunksLazy b f (input.length / b + 1) acc input).1) := by
  rw [whileLoop_lazy_fuel hb f _ _ _ (Nat.le_refl _)]
  have h1 : (input.length - 1) / b ≤ input.length := Nat.le_trans (Nat.div_le_self _ _) (Nat.sub_le _ _)
  have h2 : (input.length - 1) / b ≤ input.length / b + 1 :=
    Nat.le_trans (Nat.div_le_div_right (Nat.sub_le _ _)) (Nat.le_succ _)
  rw [foldChunksLazy_fuel_irrel hb f _ _ acc input h1 h2]

/-! ## the methods -/

/-- what a `&mut self` method with a closure returns: the new buffer, the new cursor, the accumulator -/
def bbOut {σ : Type} (r : BB × σ) : Out (List (BitVec 8) × Nat × σ) := .ok (r.1.buf, r.1.pos, r.2)

theorem src_bb_size (b : Nat) (s : BB) : bb_size b s.buf s.pos = .ok b := rfl
theorem src_bb_position (b : Nat) (s : BB) : bb_position b s.buf s.pos = .ok s.pos := rfl
theorem src_bb_remaining (b : Nat) (s : BB) (hpos : s.pos ≤ b) : bb_remaining b s.buf s.pos = .ok (b - s.pos) := by
  simp [bb_remaining, hpos]
theorem src_bb_reset (b : Nat) (s : BB) : bb_reset b s.buf s.pos = .ok (s.resetKeep.buf, s.resetKeep.pos) := rfl

/-- `BlockBuffer::input_block` -/
theorem src_bb_input_block {σ : Type} (b : Nat) (s : BB) (input : List (BitVec 8)) (f : σ → List (BitVec 8) → σ) (acc : σ)
    (hb : 0 < b) (hlen : s.buf.length = b) (hpos : s.pos ≤ b) (h64 : b < 2 ^ 64) :
    bb_input_block b s.buf s.pos input f acc = bbOut (inputBlock b s input f acc) := by
  obtain ⟨buf, pos⟩ := s
  simp only at hlen hpos
  have hb0 : b ≠ 0 := by omega
  unfold bb_input_block inputBlock bbOut
  simp only [hpos, if_true]
  by_cases h1 : input.length < b - pos
  · have g : (input.length + pos) < 18446744073709551616 ∧ (input.length + pos) ≤ buf.length ∧
        input.length = ((input.length + pos) - pos) ∧ pos ≤ (input.length + pos) := by omega
    simp only [h1, if_true, splice]
    rw [if_pos g, Nat.add_comm input.length pos]
  · have h2 : b - pos ≤ input.length := by omega
    simp only [h1, if_false]
    by_cases h3 : pos = 0
    · subst h3
      have hl := forChunks_foldChunks hb f acc input
      simp only [ne_eq, not_true_eq_false, false_and, if_false, hb0, not_false_eq_true, if_true, hl.1, Out_bind_ok',
        hl.2, bne_self_eq_false, Bool.false_eq_true]
      have hr : (foldChunks b f (input.length / b + 1) acc input).2.length ≤ buf.length := by
        rw [foldChunks_input hb, length_rest, hlen]; exact Nat.le_of_lt (Nat.mod_lt _ hb)
      simp [hr, splice]
    · have htk : (input.take (b - pos)).length = buf.length - pos := by
        simp only [List.length_take]; omega
      have hl := forChunks_foldChunks hb f (f acc (buf.take pos ++ (input.take (b - pos)))) (input.drop (b - pos))
      have hsp : splice buf pos (input.take (b - pos)) = buf.take pos ++ input.take (b - pos) := by
        unfold splice
        have : buf.drop (pos + (input.take (b - pos)).length) = [] := by
          apply List.drop_eq_nil_of_le; omega
        rw [this]; simp
      have hne : (pos != 0) = true := by simp [h3]
      simp only [ne_eq, h3, not_false_eq_true, h2, and_self, if_true, htk, hb0, hl.1, Out_bind_ok', hl.2, hne, hsp,
        show pos ≤ buf.length by omega]
      have hr : (foldChunks b f ((input.drop (b - pos)).length / b + 1) (f acc (buf.take pos ++ input.take (b - pos)))
          (input.drop (b - pos))).2.length ≤ buf.length := by
        rw [foldChunks_input hb, length_rest, hlen]; exact Nat.le_of_lt (Nat.mod_lt _ hb)
      simp only [List.length_drop] at hr
      simp [hr, splice]

/-- `BlockBuffer::input_lazy` -/
theorem src_bb_input_lazy {σ : Type} (b : Nat) (s : BB) (input : List (BitVec 8)) (f : σ → List (BitVec 8) → σ) (acc : σ)
    (hb : 0 < b) (hlen : s.buf.length = b) (hpos : s.pos ≤ b) (h64 : b < 2 ^ 64) :
    bb_input_lazy b s.buf s.pos input f acc = bbOut (inputLazy b s input f acc) := by
  obtain ⟨buf, pos⟩ := s
  simp only at hlen hpos
  unfold bb_input_lazy inputLazy bbOut
  simp only [hpos, if_true]
  by_cases h1 : input.length ≤ b - pos
  · have g : (input.length + pos) < 18446744073709551616 ∧ (input.length + pos) ≤ buf.length ∧
        input.length = ((input.length + pos) - pos) ∧ pos ≤ (input.length + pos) := by omega
    simp only [h1, if_true, splice]
    rw [if_pos g, Nat.add_comm input.length pos]
  · have h2 : b - pos < input.length := by omega
    simp only [h1, if_false]
    by_cases h3 : pos = 0
    · subst h3
      have hr : (foldChunksLazy b f (input.length / b + 1) acc input).2.length ≤ buf.length := by
        rw [foldChunksLazy_input hb, hlen]; exact length_lazyRest_le hb _
      simp only [ne_eq, not_true_eq_false, false_and, if_false, whileLoop_lazy hb, Out_bind_ok', bne_self_eq_false,
        Bool.false_eq_true, hr, if_true]
      simp [splice]
    · have htk : (input.take (b - pos)).length = buf.length - pos := by
        simp only [List.length_take]; omega
      have hsp : splice buf pos (input.take (b - pos)) = buf.take pos ++ input.take (b - pos) := by
        unfold splice
        have : buf.drop (pos + (input.take (b - pos)).length) = [] := by
          apply List.drop_eq_nil_of_le; omega
        rw [this]; simp
      have hne : (pos != 0) = true := by simp [h3]
      have hr : (foldChunksLazy b f ((input.drop (b - pos)).length / b + 1) (f acc (buf.take pos ++ input.take (b - pos)))
          (input.drop (b - pos))).2.length ≤ buf.length := by
        rw [foldChunksLazy_input hb, hlen]; exact length_lazyRest_le hb _
      simp only [ne_eq, h3, not_false_eq_true, h2, and_self, if_true, htk, whileLoop_lazy hb, Out_bind_ok', hne, hsp,
        show b - pos ≤ input.length by omega, show pos ≤ buf.length by omega, hr]
      simp [splice]

theorem min_succ_len {n m : Nat} (h : n + 1 ≤ m) : min (n + 1) (min (n + 1) m + (m - (n + 1))) = n + 1 := by omega

/-- `BlockBuffer::digest_pad` (private; reached through the `len*_padding_*` methods) -/
theorem src_bb_digest_pad {σ : Type} (b : Nat) (s : BB) (n : Nat) (f : σ → List (BitVec 8) → σ) (acc : σ)
    (hb : 0 < b) (hlen : s.buf.length = b) (hpos : s.pos ≤ b) (h64 : b < 2 ^ 64) :
    bb_digest_pad b s.buf s.pos n f acc = bbOut (digestPad b s n f acc) := by
  obtain ⟨buf, pos⟩ := s
  simp only at hlen hpos
  unfold bb_digest_pad digestPad bbOut zeroFrom zeroUpto
  by_cases h1 : pos = b
  · subst h1
    have g : 0 < buf.length ∧ 1 ≤ pos ∧ 1 ≤ buf.length := by omega
    simp only [if_true]
    rw [if_pos g]
    by_cases h2 : pos - 1 < n
    · simp [h2, hlen, min_succ_len (n := 0) (m := pos) (by omega)]
    · simp [h2, hlen]
  · have g : (pos + 1) < 18446744073709551616 ∧ (pos + 1) ≤ b ∧ (pos + 1) ≤ buf.length ∧ pos < buf.length := by omega
    simp only [h1, if_false]
    rw [if_pos g]
    by_cases h2 : b - (pos + 1) < n
    · simp [h2, hlen, min_succ_len (n := pos) (m := b) (by omega)]
    · simp [h2, hlen]

/-- the common shape of `len64_padding_be`, `len64_padding_le`, `len128_padding_be`: `digest_pad(k, f)`, the `k` length bytes
    stored at the end of the block, the closure on the block, cursor := 0.  (`len64PaddingBe` is this at `k = 8`,
    `toBe64`; the other two have no users in the workspace and no model function of their own.) -/
def lenPadding {σ : Type} (b : Nat) (s : BB) (k : Nat) (bytes : List (BitVec 8)) (f : σ → List (BitVec 8) → σ) (acc : σ) :
    BB × σ :=
  let r := digestPad b s k f acc
  let buf := splice r.1.buf (b - k) bytes
  ({ buf := buf, pos := 0 }, f r.2 buf)

theorem len64PaddingBe_eq_lenPadding {σ : Type} (b : Nat) (s : BB) (w : BitVec 64) (f : σ → List (BitVec 8) → σ) (acc : σ) :
    len64PaddingBe b s w f acc = lenPadding b s 8 (toBe64 w) f acc := rfl

theorem splice_end (X bytes : List (BitVec 8)) (b : Nat) (hX : X.length = b) (hkb : bytes.length ≤ b) :
    splice X (b - bytes.length) bytes = X.take (b - bytes.length) ++ bytes := by
  unfold splice
  have : X.drop (b - bytes.length + bytes.length) = [] := by apply List.drop_eq_nil_of_le; omega
  rw [this]; simp

theorem length_toLe64 (w : BitVec 64) : (toLe64 w).length = 8 := by simp [toLe64]
theorem length_toBeBytes {n : Nat} (w : BitVec n) (k : Nat) : (toBeBytes w k).length = k := by simp [toBeBytes, toLeBytes]

@[simp] theorem Out_bind_panic' {α β} (w : String) (f : α → Out β) : Out.bind (.panic w) f = .panic w := rfl

theorem digestPad_length {σ : Type} (b : Nat) (s : BB) (n : Nat) (f : σ → List (BitVec 8) → σ) (acc : σ)
    (hb : 0 < b) (hlen : s.buf.length = b) (hpos : s.pos ≤ b) : (digestPad b s n f acc).1.buf.length = b := by
  obtain ⟨buf, pos⟩ := s
  simp only at hlen hpos
  unfold digestPad zeroFrom zeroUpto
  by_cases h1 : pos = b
  · subst h1
    by_cases h2 : pos - (0 + 1) < n <;> simp [h2, hlen] <;> omega
  · by_cases h2 : b - (pos + 1) < n <;> simp [h1, h2, hlen] <;> omega

/-- what the three `len*_padding_*` methods do after `digest_pad`: the length bytes go to the end of the block (`L` = the
    buffer length), the closure runs on the block, cursor := 0 -/
def lenTail {σ : Type} (L : Nat) (bytes : List (BitVec 8)) (f : σ → List (BitVec 8) → σ) (r : List (BitVec 8) × Nat × σ) :
    Out (List (BitVec 8) × Nat × σ) :=
  if bytes.length = L - (L - bytes.length) ∧ bytes.length ≤ L ∧ L - bytes.length ≤ L then
    .ok (r.1.take (L - bytes.length) ++ bytes, 0, f r.2.2 (r.1.take (L - bytes.length) ++ bytes))
  else .panic "guard"

/-- the regenerated `len64_padding_be` IS `digest_pad(8, f)` followed by that tail (path by path, syntactically) -/
theorem bb_len64_padding_be_decomp {σ : Type} (b : Nat) (buf : List (BitVec 8)) (pos : Nat) (w : BitVec 64)
    (f : σ → List (BitVec 8) → σ) (acc : σ) :
    bb_len64_padding_be b buf pos w f acc = Out.bind (bb_digest_pad b buf pos 8 f acc) (lenTail buf.length (toBe64 w) f) := by
  unfold bb_len64_padding_be bb_digest_pad lenTail
  repeat (first | rfl | (split <;> try simp only [*, if_true, if_false, Out_bind_ok', Out_bind_panic']))

theorem lenTail_bbOut {σ : Type} (b : Nat) (s : BB) (k : Nat) (bytes : List (BitVec 8)) (f : σ → List (BitVec 8) → σ) (acc : σ)
    (hb : 0 < b) (hlen : s.buf.length = b) (hpos : s.pos ≤ b) (hk : bytes.length = k) (hkb : k ≤ b) :
    Out.bind (bbOut (digestPad b s k f acc)) (lenTail s.buf.length bytes f) = bbOut (lenPadding b s k bytes f acc) := by
  have hX := digestPad_length b s k f acc hb hlen hpos
  subst hk
  unfold bbOut lenTail lenPadding
  simp only [Out_bind_ok', hlen]
  rw [if_pos (by omega), splice_end _ _ b hX hkb]

/-- `BlockBuffer::len64_padding_be` -/
theorem src_bb_len64_padding_be {σ : Type} (b : Nat) (s : BB) (w : BitVec 64) (f : σ → List (BitVec 8) → σ) (acc : σ)
    (hb : 8 ≤ b) (hlen : s.buf.length = b) (hpos : s.pos ≤ b) (h64 : b < 2 ^ 64) :
    bb_len64_padding_be b s.buf s.pos w f acc = bbOut (len64PaddingBe b s w f acc) := by
  rw [len64PaddingBe_eq_lenPadding, bb_len64_padding_be_decomp, src_bb_digest_pad b s 8 f acc (by omega) hlen hpos h64]
  exact lenTail_bbOut b s 8 _ f acc (by omega) hlen hpos (length_toBe64 w) hb

theorem bb_len64_padding_le_decomp {σ : Type} (b : Nat) (buf : List (BitVec 8)) (pos : Nat) (w : BitVec 64)
    (f : σ → List (BitVec 8) → σ) (acc : σ) :
    bb_len64_padding_le b buf pos w f acc = Out.bind (bb_digest_pad b buf pos 8 f acc) (lenTail buf.length (toLe64 w) f) := by
  unfold bb_len64_padding_le bb_digest_pad lenTail
  repeat (first | rfl | (split <;> try simp only [*, if_true, if_false, Out_bind_ok', Out_bind_panic']))

theorem bb_len128_padding_be_decomp {σ : Type} (b : Nat) (buf : List (BitVec 8)) (pos : Nat) (w : BitVec 128)
    (f : σ → List (BitVec 8) → σ) (acc : σ) :
    bb_len128_padding_be b buf pos w f acc
      = Out.bind (bb_digest_pad b buf pos 16 f acc) (lenTail buf.length (toBeBytes w 16) f) := by
  unfold bb_len128_padding_be bb_digest_pad lenTail
  repeat (first | rfl | (split <;> try simp only [*, if_true, if_false, Out_bind_ok', Out_bind_panic']))

/-- `BlockBuffer::len64_padding_le` (no user in the workspace, no model function of its own: tied to the shape `lenPadding`) -/
theorem src_bb_len64_padding_le {σ : Type} (b : Nat) (s : BB) (w : BitVec 64) (f : σ → List (BitVec 8) → σ) (acc : σ)
    (hb : 8 ≤ b) (hlen : s.buf.length = b) (hpos : s.pos ≤ b) (h64 : b < 2 ^ 64) :
    bb_len64_padding_le b s.buf s.pos w f acc = bbOut (lenPadding b s 8 (toLe64 w) f acc) := by
  rw [bb_len64_padding_le_decomp, src_bb_digest_pad b s 8 f acc (by omega) hlen hpos h64]
  exact lenTail_bbOut b s 8 _ f acc (by omega) hlen hpos (length_toLe64 w) hb

/-- `BlockBuffer::len128_padding_be` (no user in the workspace, no model function of its own: tied to the shape `lenPadding`) -/
theorem src_bb_len128_padding_be {σ : Type} (b : Nat) (s : BB) (w : BitVec 128) (f : σ → List (BitVec 8) → σ) (acc : σ)
    (hb : 16 ≤ b) (hlen : s.buf.length = b) (hpos : s.pos ≤ b) (h64 : b < 2 ^ 64) :
    bb_len128_padding_be b s.buf s.pos w f acc = bbOut (lenPadding b s 16 (toBeBytes w 16) f acc) := by
  rw [bb_len128_padding_be_decomp, src_bb_digest_pad b s 16 f acc (by omega) hlen hpos h64]
  exact lenTail_bbOut b s 16 _ f acc (by omega) hlen hpos (length_toBeBytes w 16) hb

/-- what `pad_with` returns: buffer, cursor, `Some(block)` / `None` = `Err(PadError)` (buffer and cursor untouched) -/
def padOut (s : BB) (r : Option (BB × List (BitVec 8))) : Out (List (BitVec 8) × Nat × Option (List (BitVec 8))) :=
  match r with
  | some (s', blk) => .ok (s'.buf, s'.pos, some blk)
  | none => .ok (s.buf, s.pos, none)

/-- `BlockBuffer::pad_with::<ZeroPadding>` (block-padding `ZeroPadding::pad_block`, `set`) -/
theorem src_bb_pad_with_ZeroPadding (b : Nat) (s : BB) (hlen : s.buf.length = b) :
    bb_pad_with_ZeroPadding b s.buf s.pos = padOut s (padWithZero b s) := by
  obtain ⟨buf, pos⟩ := s
  simp only at hlen
  unfold bb_pad_with_ZeroPadding padWithZero padOut zeroFrom
  by_cases h : b < pos
  · simp [h, hlen]
  · simp [h, hlen]

/-- `BlockBuffer::pad_with::<Iso7816>` (block-padding `Iso7816::pad_block`, `set`) -/
theorem src_bb_pad_with_Iso7816 (b : Nat) (s : BB) (hlen : s.buf.length = b) (h64 : b < 2 ^ 64) :
    bb_pad_with_Iso7816 b s.buf s.pos = padOut s (padWithIso7816 b s) := by
  obtain ⟨buf, pos⟩ := s
  simp only at hlen
  unfold bb_pad_with_Iso7816 padWithIso7816 padOut zeroFrom
  by_cases h : b ≤ pos
  · simp [h, hlen]
  · have g : (pos + 1) < 18446744073709551616 ∧ (pos + 1) ≤ buf.length ∧ pos < buf.length := by omega
    simp only [hlen, h, if_false, ge_iff_le]
    rw [hlen] at g
    rw [if_pos g]
    simp [hlen]

end CC.Src
