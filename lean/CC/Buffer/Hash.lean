/-
  CC.Buffer.Hash — a generic incremental hash built on `BlockBuffer` and its theory:
  the state after any history is a function of the bytes absorbed since the last reset.

  `IncHash σ ω` is the data every one of the 15 hashes provides (block size, initial chaining state,
  per-block closure, finalisation reading only the chaining state and the *live* buffered bytes).
  `Mode.eager` = `input_block` (BLAKE, Grøstl, JH), `Mode.lazy` = `input_lazy` (Skein).
  `EagerHash` / `LazyHash` are the two user-facing wrappers.

  `pre` models per-call bookkeeping done *outside* the per-block closure (JH: `self.datalen +=
  data.len()`); it must be a monoid action commuting with `step`.  It defaults to "nothing".
-/
import CC.Buffer.Lemmas
namespace CC.Buffer

/-! ## 1. The two buffer disciplines, uniformly -/

inductive Mode where
  | eager
  | lazy
  deriving DecidableEq, Repr

namespace Mode

def input {σ : Type} : Mode → Nat → BB → List (BitVec 8) → (σ → List (BitVec 8) → σ) → σ → BB × σ
  | eager => inputBlock
  | lazy => inputLazy

def blocks : Mode → Nat → List (BitVec 8) → List (List (BitVec 8))
  | eager => fullBlocks
  | lazy => lazyBlocks

def rest : Mode → Nat → List (BitVec 8) → List (BitVec 8)
  | eager => Buffer.rest
  | lazy => lazyRest

def WF : Mode → Nat → BB → Prop
  | eager => Buffer.WF
  | lazy => WFL

theorem input_spec {σ : Type} (m : Mode) {b : Nat} (hb : 0 < b) {s : BB} (hwf : m.WF b s)
    (xs : List (BitVec 8)) (f : σ → List (BitVec 8) → σ) (acc : σ) :
    (m.input b s xs f acc).2 = (m.blocks b (live s ++ xs)).foldl f acc ∧
    live (m.input b s xs f acc).1 = m.rest b (live s ++ xs) ∧
    (m.input b s xs f acc).1.pos = (m.rest b (live s ++ xs)).length ∧
    m.WF b (m.input b s xs f acc).1 := by
  cases m with
  | eager =>
    obtain ⟨h₁, h₂, h₃, h₄⟩ := inputBlock_spec hb hwf xs f acc
    refine ⟨h₁, h₂, ?_, h₄⟩
    show (inputBlock b s xs f acc).1.pos = (Buffer.rest b (live s ++ xs)).length
    rw [h₃, length_rest, List.length_append, length_live (WF.toWFL hwf)]
  | lazy => exact inputLazy_spec hb hwf xs f acc

theorem blocks_append (m : Mode) {b : Nat} (hb : 0 < b) (zs ys : List (BitVec 8)) :
    m.blocks b (zs ++ ys) = m.blocks b zs ++ m.blocks b (m.rest b zs ++ ys) := by
  cases m with
  | eager => exact fullBlocks_append hb zs ys
  | lazy => exact lazyBlocks_append hb zs ys

theorem rest_append (m : Mode) {b : Nat} (hb : 0 < b) (zs ys : List (BitVec 8)) :
    m.rest b (zs ++ ys) = m.rest b (m.rest b zs ++ ys) := by
  cases m with
  | eager => exact Buffer.rest_append hb zs ys
  | lazy => exact lazyRest_append hb zs ys

theorem blocks_nil (m : Mode) (b : Nat) : m.blocks b [] = [] := by
  cases m with
  | eager => exact fullBlocks_nil b
  | lazy => exact lazyBlocks_nil b

theorem rest_nil (m : Mode) (b : Nat) : m.rest b [] = [] := by
  cases m with
  | eager => exact Buffer.rest_nil b
  | lazy => exact lazyRest_nil b

theorem WF_init (m : Mode) {b : Nat} (hb : 0 < b) : m.WF b (BB.init b) := by
  cases m with
  | eager => exact Buffer.WF_init hb
  | lazy => exact WFL_init b

theorem WF_resetKeep (m : Mode) {b : Nat} (hb : 0 < b) {s : BB} (h : m.WF b s) :
    m.WF b s.resetKeep := by
  cases m with
  | eager => exact Buffer.WF_resetKeep hb (WF.toWFL h)
  | lazy => exact WF.toWFL (Buffer.WF_resetKeep hb h)

/-- every block the closure ever sees has exactly `b` bytes. -/
theorem length_of_mem_blocks (m : Mode) {b : Nat} (hb : 0 < b) (ys : List (BitVec 8)) :
    ∀ blk ∈ m.blocks b ys, blk.length = b := by
  cases m with
  | eager => exact length_of_mem_fullBlocks hb ys
  | lazy => exact length_of_mem_lazyBlocks hb ys

end Mode

/-! ## 2. The hash record and its state machine -/

/-- What a hash built on `BlockBuffer` consists of.  `fin` receives the chaining state and the
    live buffered bytes only — by construction it cannot depend on stale bytes. -/
structure IncHash (σ ω : Type) where
  b : Nat
  hb : 0 < b
  init : σ
  step : σ → List (BitVec 8) → σ
  fin : σ → (live : List (BitVec 8)) → ω
  /-- bookkeeping per `update` call outside the block closure (default: none). -/
  pre : σ → List (BitVec 8) → σ := fun s _ => s
  pre_nil : ∀ s, pre s [] = s := by intros; rfl
  pre_append : ∀ s xs ys, pre (pre s xs) ys = pre s (xs ++ ys) := by intros; rfl
  pre_step : ∀ s blk xs, pre (step s blk) xs = step (pre s xs) blk := by intros; rfl

/-- chaining state + block buffer. -/
structure HState (σ : Type) where
  st : σ
  bb : BB

namespace IncHash
variable {σ ω : Type}

theorem pre_foldl (H : IncHash σ ω) (blks : List (List (BitVec 8))) (s : σ) (xs : List (BitVec 8)) :
    H.pre (blks.foldl H.step s) xs = blks.foldl H.step (H.pre s xs) := by
  induction blks generalizing s with
  | nil => rfl
  | cons blk blks ih => simp only [List.foldl_cons]; rw [ih, H.pre_step]

/-- `Default::default()` -/
def start (H : IncHash σ ω) : HState σ := ⟨H.init, BB.init H.b⟩

/-- `Update::update(data)`: bookkeeping, then `input_block` / `input_lazy` with the closure. -/
def update (m : Mode) (H : IncHash σ ω) (s : HState σ) (piece : List (BitVec 8)) : HState σ :=
  ⟨(m.input H.b s.bb piece H.step (H.pre s.st piece)).2,
   (m.input H.b s.bb piece H.step (H.pre s.st piece)).1⟩

def updates (m : Mode) (H : IncHash σ ω) (s : HState σ) (pieces : List (List (BitVec 8))) :
    HState σ :=
  pieces.foldl (update m H) s

/-- `Clone::clone`: a pure copy. -/
def clone (s : HState σ) : HState σ := s

/-- `Reset::reset` as all hashes in the repo do it: `*self = Self::default()` — a fresh, zeroed
    buffer with `pos = 0`. -/
def reset (H : IncHash σ ω) (_ : HState σ) : HState σ := H.start

/-- the variant that keeps the old buffer contents and only rewinds the cursor
    (`BlockBuffer::reset()`); observably the same. -/
def resetKeep (H : IncHash σ ω) (s : HState σ) : HState σ := ⟨H.init, s.bb.resetKeep⟩

def finalize (H : IncHash σ ω) (s : HState σ) : ω := H.fin s.st (live s.bb)

/-- `finalize_reset`: `finalize_into_dirty` then `reset`. -/
def finalizeReset (H : IncHash σ ω) (s : HState σ) : ω × HState σ := (H.finalize s, H.reset s)

/-- the chaining state after absorbing `bytes` from scratch. -/
def stOfBytes (m : Mode) (H : IncHash σ ω) (bytes : List (BitVec 8)) : σ :=
  (m.blocks H.b bytes).foldl H.step (H.pre H.init bytes)

/-- chaining state and observable buffer after absorbing `bytes` from scratch. -/
def stateOfBytes (m : Mode) (H : IncHash σ ω) (bytes : List (BitVec 8)) :
    σ × (List (BitVec 8) × Nat) :=
  (stOfBytes m H bytes, (m.rest H.b bytes, (m.rest H.b bytes).length))

/-- the one-shot meaning of the hash. -/
def digest (m : Mode) (H : IncHash σ ω) (bytes : List (BitVec 8)) : ω :=
  H.fin (stOfBytes m H bytes) (m.rest H.b bytes)

/-- everything a client can observe of a state. -/
def view (s : HState σ) : σ × (List (BitVec 8) × Nat) := (s.st, obs s.bb)

/-- the refinement relation: `s` is *a* state (stale bytes arbitrary) denoting `bytes`. -/
def Rel (m : Mode) (H : IncHash σ ω) (s : HState σ) (bytes : List (BitVec 8)) : Prop :=
  m.WF H.b s.bb ∧ view s = stateOfBytes m H bytes

theorem Rel_start (m : Mode) (H : IncHash σ ω) : Rel m H H.start [] := by
  refine ⟨m.WF_init H.hb, ?_⟩
  simp [view, stateOfBytes, stOfBytes, start, obs_init, m.blocks_nil, m.rest_nil, H.pre_nil]

theorem Rel_update (m : Mode) (H : IncHash σ ω) {s : HState σ} {bytes : List (BitVec 8)}
    (h : Rel m H s bytes) (piece : List (BitVec 8)) : Rel m H (update m H s piece) (bytes ++ piece) := by
  obtain ⟨hwf, hv⟩ := h
  have hst : s.st = stOfBytes m H bytes := congrArg Prod.fst hv
  have hlive : live s.bb = m.rest H.b bytes := congrArg (fun p => p.2.1) hv
  obtain ⟨h₁, h₂, h₃, h₄⟩ := m.input_spec H.hb hwf piece H.step (H.pre s.st piece)
  refine ⟨h₄, ?_⟩
  have e₁ : (update m H s piece).st = stOfBytes m H (bytes ++ piece) := by
    show (m.input H.b s.bb piece H.step (H.pre s.st piece)).2 = _
    rw [h₁, hst, hlive, stOfBytes, stOfBytes, H.pre_foldl, H.pre_append, ← List.foldl_append,
      ← m.blocks_append H.hb]
  have e₂ : live (update m H s piece).bb = m.rest H.b (bytes ++ piece) := by
    show live (m.input H.b s.bb piece H.step (H.pre s.st piece)).1 = _
    rw [h₂, hlive, ← m.rest_append H.hb]
  have e₃ : (update m H s piece).bb.pos = (m.rest H.b (bytes ++ piece)).length := by
    show (m.input H.b s.bb piece H.step (H.pre s.st piece)).1.pos = _
    rw [h₃, hlive, ← m.rest_append H.hb]
  simp only [view, stateOfBytes, obs, e₁, e₂, e₃]

theorem Rel_updates (m : Mode) (H : IncHash σ ω) (pieces : List (List (BitVec 8))) :
    ∀ {s : HState σ} {bytes : List (BitVec 8)}, Rel m H s bytes →
      Rel m H (updates m H s pieces) (bytes ++ pieces.flatten) := by
  induction pieces with
  | nil => intro s bytes h; simpa [updates] using h
  | cons p ps ih =>
    intro s bytes h
    have := ih (Rel_update m H h p)
    simpa [updates, List.append_assoc] using this

theorem Rel_reset (m : Mode) (H : IncHash σ ω) (s : HState σ) : Rel m H (H.reset s) [] :=
  Rel_start m H

theorem Rel_resetKeep (m : Mode) (H : IncHash σ ω) {s : HState σ} {bytes : List (BitVec 8)}
    (h : Rel m H s bytes) : Rel m H (H.resetKeep s) [] := by
  refine ⟨m.WF_resetKeep H.hb h.1, ?_⟩
  simp [view, stateOfBytes, stOfBytes, resetKeep, obs_resetKeep, m.blocks_nil, m.rest_nil,
    H.pre_nil]

/-- related states have the same observable view — whatever their histories and stale bytes. -/
theorem Rel_view (m : Mode) (H : IncHash σ ω) {s₁ s₂ : HState σ} {bytes : List (BitVec 8)}
    (h₁ : Rel m H s₁ bytes) (h₂ : Rel m H s₂ bytes) : view s₁ = view s₂ := by
  rw [h₁.2, h₂.2]

theorem finalize_of_Rel (m : Mode) (H : IncHash σ ω) {s : HState σ} {bytes : List (BitVec 8)}
    (h : Rel m H s bytes) : H.finalize s = digest m H bytes := by
  have hst : s.st = stOfBytes m H bytes := congrArg Prod.fst h.2
  have hlive : live s.bb = m.rest H.b bytes := congrArg (fun p => p.2.1) h.2
  simp only [finalize, digest, hst, hlive]

/-- **stateOf_bytes**: after any sequence of updates from the initial state, the chaining state and
    the observable buffer are a function of the concatenation of the pieces only. -/
theorem stateOf_bytes (m : Mode) (H : IncHash σ ω) (pieces : List (List (BitVec 8))) :
    view (updates m H H.start pieces) = stateOfBytes m H pieces.flatten := by
  have := (Rel_updates m H pieces (Rel_start m H)).2
  simpa using this

/-- **chunking**: the digest does not depend on how the message is cut into pieces. -/
theorem chunking (m : Mode) (H : IncHash σ ω) (pieces : List (List (BitVec 8))) :
    H.finalize (updates m H H.start pieces) = H.finalize (update m H H.start pieces.flatten) := by
  have h₁ := Rel_updates m H pieces (Rel_start m H)
  have h₂ := Rel_update m H (Rel_start m H) pieces.flatten
  rw [finalize_of_Rel m H h₁, finalize_of_Rel m H h₂]

theorem chunking_digest (m : Mode) (H : IncHash σ ω) (pieces : List (List (BitVec 8))) :
    H.finalize (updates m H H.start pieces) = digest m H pieces.flatten := by
  have h₁ := Rel_updates m H pieces (Rel_start m H)
  rw [finalize_of_Rel m H h₁, List.nil_append]

end IncHash

/-! ## 3. Machines, op histories, stores — generic in the machine

  The same theory is needed twice: for the generic `IncHash` machine below and for each concrete hash
  model that is shown to be an instance.  So it is stated once for an arbitrary `Machine` together
  with a refinement relation to "bytes absorbed since the last reset". -/

/-- the operations of an incremental hash object. -/
structure Machine (μ ω : Type) where
  start : μ
  update : μ → List (BitVec 8) → μ
  reset : μ → μ
  resetKeep : μ → μ
  finalize : μ → ω
  finreset : μ → ω × μ

inductive Op where
  | update (piece : List (BitVec 8))
  | reset
  | resetKeep
  | finreset
  /-- observe the digest without disturbing the instance (`clone().finalize()`). -/
  | fin

/-- ops addressed to slots of a store of instances. -/
inductive SOp where
  | update (i : Nat) (piece : List (BitVec 8))
  /-- slot `j := slot i .clone()` -/
  | clone (i j : Nat)
  | reset (i : Nat)
  | resetKeep (i : Nat)
  | finreset (i : Nat)
  | fin (i : Nat)

def setSlot {α : Type} (S : Nat → α) (i : Nat) (v : α) : Nat → α :=
  fun k => if k = i then v else S k

theorem setSlot_same {α : Type} (S : Nat → α) (i : Nat) (v : α) : setSlot S i v i = v := by
  simp [setSlot]

theorem setSlot_other {α : Type} (S : Nat → α) (i k : Nat) (v : α) (h : k ≠ i) :
    setSlot S i v k = S k := by
  simp [setSlot, h]

/-! ### the abstract machine: bytes absorbed since the last reset -/

namespace Abs
variable {ω : Type}

def step (dig : List (BitVec 8) → ω) (bytes : List (BitVec 8)) : Op → List (BitVec 8) × Option ω
  | .update p => (bytes ++ p, none)
  | .reset => ([], none)
  | .resetKeep => ([], none)
  | .finreset => ([], some (dig bytes))
  | .fin => (bytes, some (dig bytes))

def run (dig : List (BitVec 8) → ω) : List (BitVec 8) → List Op → List (BitVec 8) × List (Option ω)
  | bytes, [] => (bytes, [])
  | bytes, op :: ops =>
    ((run dig (step dig bytes op).1 ops).1, (step dig bytes op).2 :: (run dig (step dig bytes op).1 ops).2)

/-- abstract store: every slot is just its own byte history (inherited at the clone point). -/
def stepS (dig : List (BitVec 8) → ω) (B : Nat → List (BitVec 8)) :
    SOp → (Nat → List (BitVec 8)) × Option ω
  | .update i p => (setSlot B i (B i ++ p), none)
  | .clone i j => (setSlot B j (B i), none)
  | .reset i => (setSlot B i [], none)
  | .resetKeep i => (setSlot B i [], none)
  | .finreset i => (setSlot B i [], some (dig (B i)))
  | .fin i => (B, some (dig (B i)))

def runS (dig : List (BitVec 8) → ω) :
    (Nat → List (BitVec 8)) → List SOp → (Nat → List (BitVec 8)) × List (Option ω)
  | B, [] => (B, [])
  | B, op :: ops =>
    ((runS dig (stepS dig B op).1 ops).1, (stepS dig B op).2 :: (runS dig (stepS dig B op).1 ops).2)

/-- all slots empty. -/
def empty : Nat → List (BitVec 8) := fun _ => []

end Abs

namespace Machine
variable {μ ω : Type}

/-- one step of the concrete machine, with its output (if any). -/
def step (M : Machine μ ω) (s : μ) : Op → μ × Option ω
  | .update p => (M.update s p, none)
  | .reset => (M.reset s, none)
  | .resetKeep => (M.resetKeep s, none)
  | .finreset => ((M.finreset s).2, some (M.finreset s).1)
  | .fin => (s, some (M.finalize s))

/-- run a history, collecting the output of every step. -/
def run (M : Machine μ ω) : μ → List Op → μ × List (Option ω)
  | s, [] => (s, [])
  | s, op :: ops =>
    ((M.run (M.step s op).1 ops).1, (M.step s op).2 :: (M.run (M.step s op).1 ops).2)

/-- concrete store step (`clone` is a pure copy). -/
def stepS (M : Machine μ ω) (S : Nat → μ) : SOp → (Nat → μ) × Option ω
  | .update i p => (setSlot S i (M.update (S i) p), none)
  | .clone i j => (setSlot S j (S i), none)
  | .reset i => (setSlot S i (M.reset (S i)), none)
  | .resetKeep i => (setSlot S i (M.resetKeep (S i)), none)
  | .finreset i => (setSlot S i (M.finreset (S i)).2, some (M.finreset (S i)).1)
  | .fin i => (S, some (M.finalize (S i)))

def runS (M : Machine μ ω) : (Nat → μ) → List SOp → (Nat → μ) × List (Option ω)
  | S, [] => (S, [])
  | S, op :: ops =>
    ((M.runS (M.stepS S op).1 ops).1, (M.stepS S op).2 :: (M.runS (M.stepS S op).1 ops).2)

/-- the store in which every slot is a fresh instance. -/
def fresh (M : Machine μ ω) : Nat → μ := fun _ => M.start

/-- `M` refines "bytes since last reset" with digest function `dig`: a relation between concrete
    states and byte strings that every operation respects. -/
structure Refines (M : Machine μ ω) (dig : List (BitVec 8) → ω) where
  R : μ → List (BitVec 8) → Prop
  start : R M.start []
  update : ∀ {s bytes} (p : List (BitVec 8)), R s bytes → R (M.update s p) (bytes ++ p)
  reset : ∀ {s bytes}, R s bytes → R (M.reset s) []
  resetKeep : ∀ {s bytes}, R s bytes → R (M.resetKeep s) []
  finalize : ∀ {s bytes}, R s bytes → M.finalize s = dig bytes
  finreset : ∀ {s bytes}, R s bytes → (M.finreset s).1 = dig bytes ∧ R (M.finreset s).2 []

namespace Refines
variable {M : Machine μ ω} {dig : List (BitVec 8) → ω} (ρ : Refines M dig)
include ρ

theorem updates (pieces : List (List (BitVec 8))) :
    ∀ {s : μ} {bytes : List (BitVec 8)}, ρ.R s bytes →
      ρ.R (pieces.foldl M.update s) (bytes ++ pieces.flatten) := by
  induction pieces with
  | nil => intro s bytes h; simpa using h
  | cons p ps ih =>
    intro s bytes h
    have := ih (ρ.update p h)
    simpa [List.append_assoc] using this

/-- **chunking** for any refining machine. -/
theorem chunking (pieces : List (List (BitVec 8))) :
    M.finalize (pieces.foldl M.update M.start) = M.finalize (M.update M.start pieces.flatten) := by
  rw [ρ.finalize (ρ.updates pieces ρ.start), ρ.finalize (ρ.update pieces.flatten ρ.start)]

theorem chunking_digest (pieces : List (List (BitVec 8))) :
    M.finalize (pieces.foldl M.update M.start) = dig pieces.flatten := by
  rw [ρ.finalize (ρ.updates pieces ρ.start), List.nil_append]

theorem step_refines {s : μ} {bytes : List (BitVec 8)} (h : ρ.R s bytes) (op : Op) :
    (M.step s op).2 = (Abs.step dig bytes op).2 ∧
    ρ.R (M.step s op).1 (Abs.step dig bytes op).1 := by
  cases op with
  | update p => exact ⟨rfl, ρ.update p h⟩
  | reset => exact ⟨rfl, ρ.reset h⟩
  | resetKeep => exact ⟨rfl, ρ.resetKeep h⟩
  | finreset =>
    refine ⟨?_, (ρ.finreset h).2⟩
    show some (M.finreset s).1 = some (dig bytes)
    rw [(ρ.finreset h).1]
  | fin =>
    refine ⟨?_, h⟩
    show some (M.finalize s) = some (dig bytes)
    rw [ρ.finalize h]

/-- **history refinement**: running any op history on the concrete machine yields, step by step,
    the outputs of the abstract machine, and ends in a state denoting the abstract bytes. -/
theorem history_refines (ops : List Op) :
    ∀ {s : μ} {bytes : List (BitVec 8)}, ρ.R s bytes →
      (M.run s ops).2 = (Abs.run dig bytes ops).2 ∧
      ρ.R (M.run s ops).1 (Abs.run dig bytes ops).1 := by
  induction ops with
  | nil => intro s bytes h; exact ⟨rfl, h⟩
  | cons op ops ih =>
    intro s bytes h
    obtain ⟨ho, hr⟩ := ρ.step_refines h op
    obtain ⟨io, ir⟩ := ih hr
    refine ⟨?_, ir⟩
    show (M.step s op).2 :: (M.run (M.step s op).1 ops).2
        = (Abs.step dig bytes op).2 :: (Abs.run dig (Abs.step dig bytes op).1 ops).2
    rw [ho, io]

theorem R_setSlot {S : Nat → μ} {B : Nat → List (BitVec 8)} (h : ∀ k, ρ.R (S k) (B k)) (i : Nat)
    {v : μ} {w : List (BitVec 8)} (hv : ρ.R v w) : ∀ k, ρ.R (setSlot S i v k) (setSlot B i w k) := by
  intro k
  by_cases hk : k = i
  · subst hk; rw [setSlot_same, setSlot_same]; exact hv
  · rw [setSlot_other _ _ _ _ hk, setSlot_other _ _ _ _ hk]; exact h k

theorem stepS_refines {S : Nat → μ} {B : Nat → List (BitVec 8)} (h : ∀ k, ρ.R (S k) (B k))
    (op : SOp) :
    (M.stepS S op).2 = (Abs.stepS dig B op).2 ∧
    ∀ k, ρ.R ((M.stepS S op).1 k) ((Abs.stepS dig B op).1 k) := by
  cases op with
  | update i p => exact ⟨rfl, ρ.R_setSlot h i (ρ.update p (h i))⟩
  | clone i j => exact ⟨rfl, ρ.R_setSlot h j (h i)⟩
  | reset i => exact ⟨rfl, ρ.R_setSlot h i (ρ.reset (h i))⟩
  | resetKeep i => exact ⟨rfl, ρ.R_setSlot h i (ρ.resetKeep (h i))⟩
  | finreset i =>
    refine ⟨?_, ρ.R_setSlot h i (ρ.finreset (h i)).2⟩
    show some (M.finreset (S i)).1 = some (dig (B i))
    rw [(ρ.finreset (h i)).1]
  | fin i =>
    refine ⟨?_, h⟩
    show some (M.finalize (S i)) = some (dig (B i))
    rw [ρ.finalize (h i)]

/-- **clone independence**: in a store of instances, every output is the digest of the addressed
    slot's own byte history (the bytes absorbed by the slot it was cloned from up to the clone
    point, then its own), and every slot ends denoting its own byte history — for all op lists. -/
theorem store_refines (ops : List SOp) :
    ∀ {S : Nat → μ} {B : Nat → List (BitVec 8)}, (∀ k, ρ.R (S k) (B k)) →
      (M.runS S ops).2 = (Abs.runS dig B ops).2 ∧
      ∀ k, ρ.R ((M.runS S ops).1 k) ((Abs.runS dig B ops).1 k) := by
  induction ops with
  | nil => intro S B h; exact ⟨rfl, h⟩
  | cons op ops ih =>
    intro S B h
    obtain ⟨ho, hr⟩ := ρ.stepS_refines h op
    obtain ⟨io, ir⟩ := ih hr
    refine ⟨?_, ir⟩
    show (M.stepS S op).2 :: (M.runS (M.stepS S op).1 ops).2
        = (Abs.stepS dig B op).2 :: (Abs.runS dig (Abs.stepS dig B op).1 ops).2
    rw [ho, io]

theorem R_fresh : ∀ k, ρ.R (M.fresh k) (Abs.empty k) := fun _ => ρ.start

/-- two slots — in the same or in different runs — whose byte histories agree give the same digest,
    now and after any common further input. -/
theorem slots_agree (ops₁ ops₂ : List SOp) (i j : Nat)
    (hB : (Abs.runS dig Abs.empty ops₁).1 i = (Abs.runS dig Abs.empty ops₂).1 j)
    (more : List (List (BitVec 8))) :
    M.finalize (more.foldl M.update ((M.runS M.fresh ops₁).1 i))
      = M.finalize (more.foldl M.update ((M.runS M.fresh ops₂).1 j)) := by
  have r₁ := (ρ.store_refines ops₁ ρ.R_fresh).2 i
  have r₂ := (ρ.store_refines ops₂ ρ.R_fresh).2 j
  rw [hB] at r₁
  rw [ρ.finalize (ρ.updates more r₁), ρ.finalize (ρ.updates more r₂)]

end Refines
end Machine

/-! ## 4. The generic hash is such a machine -/

namespace IncHash
variable {σ ω : Type}

def machine (m : Mode) (H : IncHash σ ω) : Machine (HState σ) ω where
  start := H.start
  update := update m H
  reset := H.reset
  resetKeep := H.resetKeep
  finalize := H.finalize
  finreset := H.finalizeReset

def refines (m : Mode) (H : IncHash σ ω) : (machine m H).Refines (digest m H) where
  R := Rel m H
  start := Rel_start m H
  update := fun p h => Rel_update m H h p
  reset := fun {s _} _ => Rel_reset m H s
  resetKeep := fun h => Rel_resetKeep m H h
  finalize := fun h => finalize_of_Rel m H h
  finreset := fun {s _} h => ⟨finalize_of_Rel m H h, Rel_reset m H s⟩

/-- in a store, slots with equal byte histories even have equal *views* (chaining state, live
    bytes, position) — only stale bytes may differ. -/
theorem slots_view (m : Mode) (H : IncHash σ ω) (ops₁ ops₂ : List SOp) (i j : Nat)
    (hB : (Abs.runS (digest m H) Abs.empty ops₁).1 i = (Abs.runS (digest m H) Abs.empty ops₂).1 j) :
    view (((machine m H).runS (machine m H).fresh ops₁).1 i)
      = view (((machine m H).runS (machine m H).fresh ops₂).1 j) := by
  have r₁ := ((refines m H).store_refines ops₁ (refines m H).R_fresh).2 i
  have r₂ := ((refines m H).store_refines ops₂ (refines m H).R_fresh).2 j
  rw [hB] at r₁
  exact Rel_view m H r₁ r₂

end IncHash

/-! ## 5. User-facing wrappers -/

/-- a hash that feeds its buffer with `input_block` (BLAKE, Grøstl, JH). -/
structure EagerHash (σ ω : Type) extends IncHash σ ω

/-- a hash that feeds its buffer with `input_lazy` (Skein). -/
structure LazyHash (σ ω : Type) extends IncHash σ ω

namespace EagerHash
variable {σ ω : Type} (H : EagerHash σ ω)
def machine : Machine (HState σ) ω := IncHash.machine .eager H.toIncHash
def start : HState σ := H.toIncHash.start
def update (s : HState σ) (piece : List (BitVec 8)) : HState σ :=
  IncHash.update .eager H.toIncHash s piece
def updates (s : HState σ) (pieces : List (List (BitVec 8))) : HState σ :=
  IncHash.updates .eager H.toIncHash s pieces
def finalize (s : HState σ) : ω := H.toIncHash.finalize s
def digest (bytes : List (BitVec 8)) : ω := IncHash.digest .eager H.toIncHash bytes

/-- `update` is literally `input_block` with the closure `step` (after `pre`). -/
theorem update_eq (s : HState σ) (piece : List (BitVec 8)) :
    H.update s piece =
      ⟨(inputBlock H.b s.bb piece H.step (H.pre s.st piece)).2,
       (inputBlock H.b s.bb piece H.step (H.pre s.st piece)).1⟩ := rfl

/-- the one-shot meaning, spelled out. -/
theorem digest_eq (bytes : List (BitVec 8)) :
    H.digest bytes
      = H.fin ((fullBlocks H.b bytes).foldl H.step (H.pre H.init bytes)) (rest H.b bytes) := rfl
end EagerHash

namespace LazyHash
variable {σ ω : Type} (H : LazyHash σ ω)
def machine : Machine (HState σ) ω := IncHash.machine .lazy H.toIncHash
def start : HState σ := H.toIncHash.start
def update (s : HState σ) (piece : List (BitVec 8)) : HState σ :=
  IncHash.update .lazy H.toIncHash s piece
def updates (s : HState σ) (pieces : List (List (BitVec 8))) : HState σ :=
  IncHash.updates .lazy H.toIncHash s pieces
def finalize (s : HState σ) : ω := H.toIncHash.finalize s
def digest (bytes : List (BitVec 8)) : ω := IncHash.digest .lazy H.toIncHash bytes

theorem update_eq (s : HState σ) (piece : List (BitVec 8)) :
    H.update s piece =
      ⟨(inputLazy H.b s.bb piece H.step (H.pre s.st piece)).2,
       (inputLazy H.b s.bb piece H.step (H.pre s.st piece)).1⟩ := rfl

theorem digest_eq (bytes : List (BitVec 8)) :
    H.digest bytes
      = H.fin ((lazyBlocks H.b bytes).foldl H.step (H.pre H.init bytes)) (lazyRest H.b bytes) := rfl
end LazyHash

/-! ## 6. Plugging in a concrete hash model

  A concrete model (its own state type `μ`, shaped like the Rust struct) is an *instance* of the
  generic hash when its state splits into (chaining state, buffer), its `update` is `input_block` /
  `input_lazy` with a closure, and its `finalize` reads only the chaining state and the live bytes.
  These are the obligations; everything else (chunking, history refinement, clone independence)
  follows from `Instance.refines`. -/

structure Instance (m : Mode) (μ σ ω : Type) where
  /-- the generic description: block size, IV, closure, finalisation. -/
  H : IncHash σ ω
  /-- the model's operations (`Default::default`, `update`, `finalize_into_dirty` output, `reset`,
      `finalize_reset`). -/
  start : μ
  update : μ → List (BitVec 8) → μ
  finalize : μ → ω
  reset : μ → μ
  finreset : μ → ω × μ
  /-- split a model state into chaining state and buffer. -/
  toH : μ → HState σ
  /-- (O1) the default state is IV + fresh buffer. -/
  toH_start : toH start = H.start
  /-- (O2) `update` is `pre` followed by `input_block`/`input_lazy` with the closure `H.step`. -/
  toH_update : ∀ s p, toH (update s p) = IncHash.update m H (toH s) p
  /-- (O3) on a well-formed buffer `finalize` is `H.fin` of chaining state and live bytes. -/
  finalize_eq : ∀ s, m.WF H.b (toH s).bb → finalize s = H.finalize (toH s)
  /-- (O4) `reset` re-creates the default state (up to the split). -/
  toH_reset : ∀ s, toH (reset s) = H.start
  /-- (O5) `finalize_reset` returns `finalize` and leaves a default state. -/
  finreset_eq : ∀ s, (finreset s).1 = finalize s ∧ toH (finreset s).2 = H.start

namespace Instance
variable {m : Mode} {μ σ ω : Type} (I : Instance m μ σ ω)

def machine : Machine μ ω where
  start := I.start
  update := I.update
  reset := I.reset
  resetKeep := I.reset
  finalize := I.finalize
  finreset := I.finreset

def digest (bytes : List (BitVec 8)) : ω := IncHash.digest m I.H bytes

def refines : I.machine.Refines I.digest where
  R := fun s bytes => IncHash.Rel m I.H (I.toH s) bytes
  start := by show IncHash.Rel m I.H (I.toH I.start) []; rw [I.toH_start]; exact IncHash.Rel_start m I.H
  update := by
    intro s bytes p h
    show IncHash.Rel m I.H (I.toH (I.update s p)) (bytes ++ p)
    rw [I.toH_update]; exact IncHash.Rel_update m I.H h p
  reset := by
    intro s bytes _
    show IncHash.Rel m I.H (I.toH (I.reset s)) []
    rw [I.toH_reset]; exact IncHash.Rel_start m I.H
  resetKeep := by
    intro s bytes _
    show IncHash.Rel m I.H (I.toH (I.reset s)) []
    rw [I.toH_reset]; exact IncHash.Rel_start m I.H
  finalize := by
    intro s bytes h
    show I.finalize s = IncHash.digest m I.H bytes
    rw [I.finalize_eq s h.1, IncHash.finalize_of_Rel m I.H h]
  finreset := by
    intro s bytes h
    refine ⟨?_, ?_⟩
    · show (I.finreset s).1 = IncHash.digest m I.H bytes
      rw [(I.finreset_eq s).1, I.finalize_eq s h.1, IncHash.finalize_of_Rel m I.H h]
    · show IncHash.Rel m I.H (I.toH (I.finreset s).2) []
      rw [(I.finreset_eq s).2]; exact IncHash.Rel_start m I.H

/-- the model's digest of a message cut into pieces is the generic one-shot digest. -/
theorem chunking (pieces : List (List (BitVec 8))) :
    I.finalize (pieces.foldl I.update I.start) = I.finalize (I.update I.start pieces.flatten) :=
  I.refines.chunking pieces

theorem finalize_updates (pieces : List (List (BitVec 8))) :
    I.finalize (pieces.foldl I.update I.start) = I.digest pieces.flatten :=
  I.refines.chunking_digest pieces

end Instance

end CC.Buffer
