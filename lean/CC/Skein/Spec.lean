/-
  CC.Skein.Spec — Skein-256/512/1024 "simple hashing" (byte-aligned messages), transcribed from
  "The Skein Hash Function Family", version 1.3, §3.4–§3.5.

    * tweak (§3.4, Table 5; 128 bits): Position = bits 0–95, TreeLevel 112–118, BitPad 119, Type 120–125,
      First 126, Final 127.  `t0` = low 64 bits, `t1` = high 64 bits (`ToBytes`/`BytesToWords`, LE).
    * UBI(G, M, Ts) (§3.4): M (here a whole number of bytes, so BitPad = 0) is padded with zero bytes to a
      multiple of Nb bytes, an empty M becomes one all-zero block; blocks M_0 … M_{k-1};
        H_0 = G,   H_{i+1} = E(H_i, Ts + min(N_M, (i+1)·Nb) + a_i·2^126 + b_i·2^127, M_i) ⊕ M_i
      with a_i = 1 iff i = 0, b_i = 1 iff i = k-1 (B = 0), E = Threefish with key H_i.
    * configuration string C (§3.5.2, Table 7; 32 bytes): "SHA3" ‖ version 1 (2 bytes LE) ‖ 00 00 ‖
      output length in BITS (8 bytes LE) ‖ Yl = Yf = Ym = 0 ‖ 13 reserved zero bytes.
    * type values (Table 6): T_cfg = 4, T_msg = 48, T_out = 63.
    * Output(G, No) (§3.5.4): the leading ⌈No/8⌉ bytes of UBI(G, ToBytes(0,8), T_out·2^120) ‖
      UBI(G, ToBytes(1,8), T_out·2^120) ‖ …
    * Skein(M) with No output bits (§3.5.1 simple hash): K' = 0^{Nb}; G_0 = UBI(K', C, T_cfg·2^120);
      G_1 = UBI(G_0, M, T_msg·2^120); H = Output(G_1, No).
  Import-free besides the Threefish spec (links into the driver).
-/
import CC.Prim
import CC.Threefish.Spec
namespace CC.Skein.Spec
open CC

def T_cfg : Nat := 4
def T_msg : Nat := 48
def T_out : Nat := 63

/-- The 128-bit tweak for a block: position, type, first and final flags. -/
def tweak (pos ty : Nat) (first final : Bool) : BitVec 128 :=
  BitVec.ofNat 128 (pos % 2 ^ 96 + ty * 2 ^ 120 + (if first then 2 ^ 126 else 0) + (if final then 2 ^ 127 else 0))

/-- One UBI chaining step: `E(H, T, M_i) ⊕ M_i` on byte strings of `nb` bytes. -/
def ubiStep (nb : Nat) (h : List (BitVec 8)) (tw : BitVec 128) (m : List (BitVec 8)) : List (BitVec 8) :=
  xorBytes (CC.Threefish.Spec.threefish (nb / 8) h (tw.extractLsb' 0 64) (tw.extractLsb' 64 64) m) m

/-- Number of blocks `k` of a message of `len` bytes. -/
def numBlocks (nb len : Nat) : Nat := if len = 0 then 1 else (len + nb - 1) / nb

/-- Block `M_i`, zero padded to `nb` bytes. -/
def blockAt (nb : Nat) (msg : List (BitVec 8)) (i : Nat) : List (BitVec 8) :=
  let c := (msg.drop (nb * i)).take nb
  c ++ List.replicate (nb - c.length) 0

/-- `UBI(G, M, ty·2^120)` for a byte string `M`. -/
def ubi (nb : Nat) (g : List (BitVec 8)) (msg : List (BitVec 8)) (ty : Nat) : List (BitVec 8) :=
  let k := numBlocks nb msg.length
  (List.range k).foldl
    (fun h i => ubiStep nb h (tweak (min msg.length ((i + 1) * nb)) ty (i == 0) (i + 1 == k)) (blockAt nb msg i)) g

/-- The configuration string for `outBits` output bits, no tree. -/
def configString (outBits : Nat) : List (BitVec 8) :=
  [0x53, 0x48, 0x41, 0x33] ++ toLeBytes (1 : BitVec 16) 2 ++ [0, 0] ++
  toLeBytes (BitVec.ofNat 64 outBits) 8 ++ [0, 0, 0] ++ List.replicate 13 0

/-- `Output(G, 8·n)`: `n` bytes. -/
def output (nb : Nat) (g : List (BitVec 8)) (n : Nat) : List (BitVec 8) :=
  (((List.range ((n + nb - 1) / nb)).map fun i => ubi nb g (toLeBytes (BitVec.ofNat 64 i) 8) T_out).flatten).take n

/-- Skein-(8·nb)-(8·n): state of `nb` bytes (32, 64, 128), `n ≥ 1` output bytes. -/
def skein (nb n : Nat) (msg : List (BitVec 8)) : List (BitVec 8) :=
  let g0 := ubi nb (List.replicate nb 0) (configString (8 * n)) T_cfg
  let g1 := ubi nb g0 msg T_msg
  output nb g1 n

end CC.Skein.Spec
