/-
  CC.Skein.Src — SOURCE TIE for Skein (property C05): every definition that tools/inventory_kernels.py
  regenerates from hashes/skein/src/lib.rs into `CC.Gen.Kernels` equals the hand-written model definition
  (`CC.Skein.Model`).  The constants are evaluated by the translator (`(VERSION << 32) | ID_STRING_LE`,
  `1 << 62`, `4 * 8`, …) and compared here with the model's formulas.  The Threefish kernels and tables
  Skein runs on are tied in `CC.Threefish.Src` (re-exported by `CC.Thm.C05.source_kernels_match` as well).
-/
import CC.Gen.Kernels
import CC.Skein.Model
import CC.Threefish.Src
import CC.Skein.Lemmas
import CC.Lemmas.SrcGlue
import CC.Lemmas.SrcGlueBuffer
namespace CC.Src
open CC CC.Buffer CC.Skein.Model

theorem src_skein_clean : Gen.Kernels.skein_errors = [] := rfl

theorem src_skein_VERSION : VERSION = Gen.Kernels.skein_VERSION := by decide +kernel
theorem src_skein_ID_STRING_LE : ID_STRING_LE = Gen.Kernels.skein_ID_STRING_LE := by decide +kernel
theorem src_skein_SCHEMA_VER : SCHEMA_VER = Gen.Kernels.skein_SCHEMA_VER := by decide +kernel
theorem src_skein_CFG_TREE_INFO_SEQUENTIAL :
    CFG_TREE_INFO_SEQUENTIAL = Gen.Kernels.skein_CFG_TREE_INFO_SEQUENTIAL := by decide +kernel
theorem src_skein_T1_FLAG_FIRST : T1_FLAG_FIRST = Gen.Kernels.skein_T1_FLAG_FIRST := by decide +kernel
theorem src_skein_T1_FLAG_FINAL : T1_FLAG_FINAL = Gen.Kernels.skein_T1_FLAG_FINAL := by decide +kernel
theorem src_skein_T1_BLK_TYPE_CFG : T1_BLK_TYPE_CFG = Gen.Kernels.skein_T1_BLK_TYPE_CFG := by decide +kernel
theorem src_skein_T1_BLK_TYPE_MSG : T1_BLK_TYPE_MSG = Gen.Kernels.skein_T1_BLK_TYPE_MSG := by decide +kernel
theorem src_skein_T1_BLK_TYPE_OUT : T1_BLK_TYPE_OUT = Gen.Kernels.skein_T1_BLK_TYPE_OUT := by decide +kernel
theorem src_skein_CFG_STR_LEN : CFG_STR_LEN = Gen.Kernels.skein_CFG_STR_LEN := by decide +kernel

/-- the Threefish instantiation by its Rust type name (tied to the source by `src_threefish_instances`) -/
def tfByName : String → CC.Threefish.Model.Params
  | "Threefish256" => CC.Threefish.Model.tf256
  | "Threefish512" => CC.Threefish.Model.tf512
  | "Threefish1024" => CC.Threefish.Model.tf1024
  | _ => ⟨0, 0, [], []⟩

/-- `define_hasher!($name, $threefish, $state_bytes, $state_bits)`: the three instantiations are the model's
    `skein256`, `skein512`, `skein1024`, and `$state_bits = 8·$state_bytes` -/
theorem src_skein_instances :
    Gen.Kernels.skein_define_hasher.map (fun r => (r.1, (⟨r.2.2.1, tfByName r.2.1⟩ : Params), r.2.2.2))
      = [("Skein256", skein256, 8 * skein256.nb), ("Skein512", skein512, 8 * skein512.nb),
         ("Skein1024", skein1024, 8 * skein1024.nb)] := rfl


/-! ## phase 3: the glue of lib.rs (`define_hasher!`), the three instantiations (tools/inventory_kernels_glue.py)

  `process_block`, `Default::default`, `Update::update`, `FixedOutputDirty::finalize_into_dirty` (with the output loop over
  `output.chunks_mut($state_bits / 8).enumerate()` as `forChunksMutEnum` of the generated body), `Reset::reset`,
  regenerated from the source on every run.  `Block<N>` (a `repr(C)` union of bytes and words) is its byte array and
  `^` the bytewise xor (named primitives); the Threefish calls are applications of the generated `threefish*_with_tweak` /
  `threefish*_encrypt_block` (tied in `CC.Threefish.Src`); `input_lazy` / `pad_with::<ZeroPadding>` are `CC.Buffer.inputLazy` /
  `padWithZero`.  `N::to_u64()` is the parameter `n_out` (the obligations take `n_out = n` with `8·n < 2^64`: the Rust's
  `N::to_u64() * 8` is a checked multiplication the model does not have; no such `GenericArray` exists).  Panic messages are
  not compared (`noMsg`). -/

/-- the fields of the Rust `Skein*<N>` struct (`state.t.0`, `state.t.1`, `state.x`, `buffer`) -/
def skeinEnc (h : Hasher) : BitVec 64 × BitVec 64 × List (BitVec 8) × BB := (h.state.t0, h.state.t1, h.state.x, h.buffer)
def skeinStateEnc (s : State) : BitVec 64 × BitVec 64 × List (BitVec 8) := (s.t0, s.t1, s.x)

theorem writeU64vLe_length (ns : List (BitVec 64)) : (CC.Threefish.Model.writeU64vLe ns).length = 8 * ns.length := by
  induction ns with
  | nil => rfl
  | cons x xs ih => simp only [CC.Threefish.Model.writeU64vLe, List.flatMap_cons, List.length_append, List.length_cons] at ih ⊢; rw [ih]; simp [toLe64]; omega

theorem readU64vLe_length (n : Nat) (b : List (BitVec 8)) : (CC.Threefish.Model.readU64vLe n b).length = n := by
  induction n generalizing b with
  | zero => rfl
  | succ n ih => simp [CC.Threefish.Model.readU64vLe, ih]

theorem encryptBlock_length (sh : CC.Threefish.Model.Shape) (p : CC.Threefish.Model.Params) (sk : List (List (BitVec 64)))
    (block : List (BitVec 8)) : (CC.Threefish.Model.encryptBlock sh p sk block).length = 8 * p.nw := by
  unfold CC.Threefish.Model.encryptBlock
  rw [writeU64vLe_length, encWords_length, readU64vLe_length]

theorem processBlock_ne_err (p : Profile) (P : Params) (st : State) (block : List (BitVec 8)) (n : Nat) :
    processBlock p P st block n ≠ .err := by
  unfold processBlock; simp only []; split <;> simp

theorem default_ne_err (p : Profile) (P : Params) (n : Nat) : Skein.Model.default p P n ≠ .err := by
  intro h
  unfold Skein.Model.default at h
  simp only [bind, Out.bind, pure] at h
  split at h
  · cases h
  · rename_i hq; exact processBlock_ne_err _ _ _ _ _ hq
  · cases h

theorem toLe64_length (x : BitVec 64) : (toLe64 x).length = 8 := rfl

/-! ### the output loop -/

/-- output block `i` of `Output(x, ·)` as the model computes it -/
def skeinOutBlk (P : Params) (x : List (BitVec 8)) (i : Nat) : List (BitVec 8) :=
  (processCore P x (0 + BitVec.ofNat 64 8) (T1_FLAG_FIRST ||| T1_BLK_TYPE_OUT ||| T1_FLAG_FINAL) (ctrBlock P i)).x

/-- the concatenation of the first `len` output bytes starting with block `i0` -/
def skeinOutBytes (P : Params) (x : List (BitVec 8)) (i0 len : Nat) : List (BitVec 8) :=
  ((List.range ((len + P.nb - 1) / P.nb)).map fun j => (skeinOutBlk P x (i0 + j)).take (min P.nb (len - j * P.nb))).flatten

theorem outputLoop_closed (prof : Profile) (P : Params) (x : List (BitVec 8)) (n : Nat) :
    outputLoop prof P x n = .ok (skeinOutBytes P x 0 n) := by
  unfold outputLoop skeinOutBytes
  rw [CC.Skein.foldlM_append_ok _ _ (fun i => (skeinOutBlk P x i).take (min P.nb (n - i * P.nb)))]
  · simp only [List.nil_append, Nat.zero_add]
  · intro out i
    have : processBlock prof P { t0 := 0, t1 := T1_FLAG_FIRST ||| T1_BLK_TYPE_OUT ||| T1_FLAG_FINAL, x := x }
        (ctrBlock P i) 8 = .ok (processCore P x (0 + BitVec.ofNat 64 8)
          (T1_FLAG_FIRST ||| T1_BLK_TYPE_OUT ||| T1_FLAG_FINAL) (ctrBlock P i)) := by
      unfold processBlock
      have h : ¬ (prof = Profile.debug ∧ (0 : BitVec 64).toNat + (BitVec.ofNat 64 8).toNat ≥ 2 ^ 64) := by
        intro ⟨_, h⟩; revert h; decide
      simp only [h, if_false]
    simp only [this]
    rfl

theorem skeinOutBytes_zero (P : Params) (hP : 0 < P.nb) (x : List (BitVec 8)) (i0 : Nat) : skeinOutBytes P x i0 0 = [] := by
  have : (0 + P.nb - 1) / P.nb = 0 := by
    rw [Nat.zero_add]; exact Nat.div_eq_of_lt (by omega)
  simp [skeinOutBytes]

theorem skeinOutBytes_pos (P : Params) (hP : 0 < P.nb) (x : List (BitVec 8)) (i0 len : Nat) (hl : 0 < len) :
    skeinOutBytes P x i0 len =
      (skeinOutBlk P x i0).take (min P.nb len) ++ skeinOutBytes P x (i0 + 1) (len - P.nb) := by
  unfold skeinOutBytes
  have hk : (len + P.nb - 1) / P.nb = (len - P.nb + P.nb - 1) / P.nb + 1 := by
    by_cases h : len ≤ P.nb
    · have e1 : len - P.nb = 0 := by omega
      have e2 : (len + P.nb - 1) / P.nb = 1 := by
        apply Nat.div_eq_of_lt_le <;> omega
      have e3 : (0 + P.nb - 1) / P.nb = 0 := by rw [Nat.zero_add]; exact Nat.div_eq_of_lt (by omega)
      rw [e1, e2, e3]
    · have : len + P.nb - 1 = (len - P.nb + P.nb - 1) + P.nb := by omega
      rw [this, Nat.add_div_right _ hP]
  rw [hk, List.range_succ_eq_map, List.map_cons, List.flatten_cons, List.map_map]
  have e0 : List.take (min P.nb (len - 0 * P.nb)) (skeinOutBlk P x (i0 + 0)) = List.take (min P.nb len) (skeinOutBlk P x i0) := by
    simp
  rw [e0]
  congr 2
  apply List.map_congr_left
  intro j _
  simp only [Function.comp]
  have e1 : i0 + (j + 1) = i0 + 1 + j := by omega
  have e2 : len - (j + 1) * P.nb = len - P.nb - j * P.nb := by
    rw [Nat.add_mul, Nat.one_mul]; omega
  rw [e1, e2]

/-! ### Skein-256 -/

theorem src_skein256_process_block (p : Profile) (st : State) (block : List (BitVec 8)) (n : Nat)
    (hb : block.length = 32) :
    noMsg (Gen.Kernels.skein256_process_block p st.t0 st.t1 st.x block n)
      = noMsg (processBlock p skein256 st block n >>= fun s => .ok (skeinStateEnc s)) := by
  unfold Gen.Kernels.skein256_process_block processBlock processCore
  simp only [← src_threefish256_with_tweak, ← src_threefish256_encrypt_block]
  rw [xorInto_eq_xorBytes _ _ (by rw [encryptBlock_length, hb]; decide)]
  have e : (13835058055282163711#64 : BitVec 64) = ~~~T1_FLAG_FIRST := by decide
  rw [e]
  generalize (BitVec.ofNat 64 n).toNat = m
  by_cases h : p = Profile.debug ∧ st.t0.toNat + m ≥ 2 ^ 64
  · have h' : p = Profile.debug ∧ decide (st.t0.toNat + m < 2 ^ 64) = false := by
      refine ⟨h.1, ?_⟩; rw [decide_eq_false_iff_not]; omega
    rw [if_pos h, if_pos h']; rfl
  · have h' : ¬ (p = Profile.debug ∧ decide (st.t0.toNat + m < 2 ^ 64) = false) := by
      intro ⟨a, b⟩; apply h; refine ⟨a, ?_⟩; rw [decide_eq_false_iff_not] at b; omega
    rw [if_neg h, if_neg h']
    simp only [Out.bind_ok, skeinStateEnc, skein256]

theorem skein256_cfg (n : BitVec 64) :
    toLe64 0x0000000133414853#64 ++ toLe64 (n * 8#64) ++ toLe64 0#64 ++ List.drop 24 (List.replicate 32 0#8)
      = splice (splice (splice (List.replicate 32 (0 : BitVec 8)) 0 (toLe64 SCHEMA_VER)) 8 (toLe64 (n * 8))) 16
          (toLe64 CFG_TREE_INFO_SEQUENTIAL) := by
  have e1 : SCHEMA_VER = 0x0000000133414853#64 := by decide
  have e2 : CFG_TREE_INFO_SEQUENTIAL = 0#64 := rfl
  rw [e1, e2]
  simp only [toLe64, splice, List.length_cons, List.length_nil]
  simp

theorem src_skein256_default (p : Profile) (n : Nat) (hn : n * 8 < 2 ^ 64) :
    noMsg (Gen.Kernels.skein256_default p (BitVec.ofNat 64 n))
      = noMsg (default p skein256 n >>= fun h => .ok (skeinEnc h)) := by
  unfold Gen.Kernels.skein256_default
  extract_lets t1 t2 t3 t4 t5 t6 t7 t8 t9 t10 t11 t12 t13 t14 t15 t16 t17 t18 t19
  have e18 : t18 = true := by
    simp only [t18, t7, decide_eq_true_iff, BitVec.toNat_ofNat]
    have : n % 2 ^ 64 ≤ n := Nat.mod_le _ _
    omega
  have e12 : t12 = cfgBlock skein256 n := by
    simp only [t12, t6, t9, t10, t11, t5, t8, t7, t1, t4, cfgBlock]
    exact skein256_cfg _
  have e14 := src_skein256_process_block p ⟨t1, t3, t4⟩ t12 t13 (by rw [e12]; simp [cfgBlock, splice, toLe64_length, skein256])
  have hst : ({ t0 := 0, t1 := T1_FLAG_FIRST ||| T1_BLK_TYPE_CFG ||| T1_FLAG_FINAL, x := List.replicate skein256.nb 0 } : State)
      = ⟨t1, t3, t4⟩ := by
    simp only [t1, t3, t4, skein256]
    congr 1
  have e14' : noMsg t14 = noMsg (processBlock p skein256 ⟨t1, t3, t4⟩ (cfgBlock skein256 n) CFG_STR_LEN >>=
      fun s => .ok (skeinStateEnc s)) := by rw [← e12]; exact e14
  have e19 : t19 = Gen.Kernels.outOk (noMsg t14) := by rw [outOk_noMsg]
  have e15 : t15 = Gen.Kernels.outGet (noMsg t14) := by rw [outGet_noMsg]
  simp only [e18, Bool.true_eq_false, and_false, if_false, Skein.Model.default, hst]
  rw [e19, show t16 = t15.2.2 from rfl, e15, e14']
  cases hp : processBlock p skein256 ⟨t1, t3, t4⟩ (cfgBlock skein256 n) CFG_STR_LEN with
  | ok s =>
    simp only [Out.bind_ok, noMsg, Gen.Kernels.outOk, Gen.Kernels.outGet, skeinStateEnc, skeinEnc, Bool.true_eq_false,
      if_false, t1, t2, t17, Out.pure_eq, skein256]
    congr 1
  | err => exact absurd hp (processBlock_ne_err _ _ _ _ _)
  | panic w => simp [noMsg, Gen.Kernels.outOk, bind_panic]

theorem src_skein256_update (p : Profile) (h : Hasher) (hb : h.buffer.buf.length = 32) (hp : h.buffer.pos ≤ 32)
    (data : List (BitVec 8)) :
    noMsg (Gen.Kernels.skein256_update p h.state.t0 h.state.t1 h.state.x h.buffer data)
      = noMsg (update p skein256 h data >>= fun h' => .ok (skeinEnc h')) := by
  unfold Gen.Kernels.skein256_update update
  extract_lets t1 t2 t3 t4 t5 t6 t7 t8
  have hrel := inputLazy_rel
    (fun (a : Out State) (o : Out (BitVec 64 × BitVec 64 × List (BitVec 8))) =>
      noMsg o = noMsg (a >>= fun s => .ok (skeinStateEnc s)))
    32 h.buffer hb hp data
    (fun (acc : Out State) block => acc >>= fun st => processBlock p skein256 st block skein256.nb)
    (fun a blk => a >>= fun s => Gen.Kernels.skein256_update_closure1 p s blk)
    (by
      intro a o x hx hR
      cases a with
      | ok st =>
        cases o with
        | ok s =>
          have hs : s = skeinStateEnc st := by simpa [noMsg] using hR
          subst hs
          simp only [Out.bind_ok, Gen.Kernels.skein256_update_closure1]
          have e := src_skein256_process_block p st x 32 hx
          rw [← outOk_noMsg, ← outGet_noMsg]
          simp only [skeinStateEnc] at e ⊢
          simp only [e]
          have hnb : skein256.nb = 32 := rfl
          rw [hnb]
          cases hq : processBlock p skein256 st x 32 with
          | ok s' => simp [noMsg, Gen.Kernels.outOk, Gen.Kernels.outGet]
          | err => exact absurd hq (processBlock_ne_err _ _ _ _ _)
          | panic w => simp [noMsg, Gen.Kernels.outOk, bind_panic]
        | err => simp [noMsg] at hR
        | panic w => simp [noMsg] at hR
      | err =>
        cases o with
        | ok s => simp [noMsg, bind_err] at hR
        | err => simp [noMsg, bind_err]
        | panic w => simp [noMsg, bind_err] at hR
      | panic w =>
        cases o with
        | ok s => simp [noMsg, bind_panic] at hR
        | err => simp [noMsg, bind_panic] at hR
        | panic w' => simp [noMsg, bind_panic])
    (.ok h.state) (.ok (h.state.t0, h.state.t1, h.state.x)) (by simp [noMsg, skeinStateEnc])
  obtain ⟨hbuf, hacc⟩ := hrel
  have hnb : skein256.nb = 32 := rfl
  have hne := (inputLazy_rel (fun (a : Out State) (_ : Unit) => a ≠ .err) 32 h.buffer hb hp data
    (fun (acc : Out State) block => acc >>= fun st => processBlock p skein256 st block 32) (fun u _ => u)
    (by
      intro a _ x _ ha
      cases a with
      | ok st => exact processBlock_ne_err _ _ _ _ _
      | err => exact absurd rfl ha
      | panic w => simp [bind_panic])
    (.ok h.state) () (by simp)).2
  rw [hnb]
  have e8 : t8 = Gen.Kernels.outOk (noMsg t2) := by rw [outOk_noMsg]
  have e3 : t3 = Gen.Kernels.outGet (noMsg t2) := by rw [outGet_noMsg]
  rw [e8, show t4 = t3.1 from rfl, show t5 = t3.2.1 from rfl, show t6 = t3.2.2 from rfl, e3,
    show t7 = t1.1 from rfl, show t2 = t1.2 from rfl]
  simp only [t1, hacc, ← hbuf, hnb]
  generalize inputLazy 32 h.buffer data (fun acc block => acc >>= fun st => processBlock p skein256 st block 32)
    (Out.ok h.state) = r at hne ⊢
  obtain ⟨bb, acc⟩ := r
  cases acc with
  | ok st => simp [noMsg, Gen.Kernels.outOk, Gen.Kernels.outGet, skeinStateEnc, skeinEnc]
  | err => exact absurd rfl hne
  | panic w => simp [noMsg, Gen.Kernels.outOk, bind_panic]

theorem skein256_loop1_eq (x : List (BitVec 8)) (i : Nat) (dd : List (BitVec 8)) :
    Gen.Kernels.skein256_finalize_into_dirty_loop1 x () i dd = ((), (skeinOutBlk skein256 x i).take dd.length) := by
  unfold Gen.Kernels.skein256_finalize_into_dirty_loop1 skeinOutBlk processCore
  simp only [← src_threefish256_with_tweak, ← src_threefish256_encrypt_block]
  have hc : toLe64 (BitVec.ofNat 64 i) ++ List.drop 8 (List.replicate 32 (0#8 : BitVec 8)) = ctrBlock skein256 i := by
    simp only [ctrBlock, splice, skein256, toLe64_length]
    simp
  have ht : (0xff00000000000000#64 : BitVec 64) = T1_FLAG_FIRST ||| T1_BLK_TYPE_OUT ||| T1_FLAG_FINAL := by decide
  have h8 : (8#64 : BitVec 64) = 0 + BitVec.ofNat 64 8 := by decide
  rw [hc, ht, h8, xorInto_eq_xorBytes _ _ (by
    rw [encryptBlock_length]; simp [ctrBlock, splice, skein256, toLe64_length, CC.Threefish.Model.tf256])]
  rfl

theorem skein256_out_tie (x : List (BitVec 8)) :
    ∀ (fuel i : Nat) (d : List (BitVec 8)), d.length ≤ fuel →
      Gen.Kernels.forChunksMutEnumAux 32 (Gen.Kernels.skein256_finalize_into_dirty_loop1 x) fuel i () d
        = ((), skeinOutBytes skein256 x i d.length) := by
  intro fuel
  induction fuel with
  | zero =>
    intro i d hd
    have : d = [] := List.eq_nil_of_length_eq_zero (by omega)
    subst this
    simp [Gen.Kernels.forChunksMutEnumAux, skeinOutBytes_zero skein256 (by decide)]
  | succ fuel ih =>
    intro i d hd
    by_cases hz : d.length = 0
    · have : d = [] := List.eq_nil_of_length_eq_zero hz
      subst this
      simp [Gen.Kernels.forChunksMutEnumAux, skeinOutBytes_zero skein256 (by decide)]
    · have hc : 0 < d.length ∧ 0 < 32 := by omega
      simp only [Gen.Kernels.forChunksMutEnumAux, hc, and_self, if_true, skein256_loop1_eq]
      rw [ih (i + 1) (d.drop 32) (by simp; omega), skeinOutBytes_pos skein256 (by decide) x i d.length (by omega)]
      simp only [List.length_take, List.length_drop]
      rfl

theorem src_skein256_finalize_into_dirty (p : Profile) (h : Hasher) (hp : h.buffer.pos ≤ 32) (hb : h.buffer.buf.length = 32)
    (output : List (BitVec 8)) :
    noMsg (Gen.Kernels.skein256_finalize_into_dirty p h.state.t0 h.state.t1 h.state.x h.buffer output)
      = noMsg (finalizeIntoDirty p skein256 output.length h >>= fun r =>
          .ok (r.1.state.t0, r.1.state.t1, r.1.state.x, r.1.buffer, r.2)) := by
  unfold Gen.Kernels.skein256_finalize_into_dirty finalizeIntoDirty
  extract_lets t1 t2 t3 t4 t5 t6 t7 t8 t9 t10 t11 t12 t13 t14 t15 t16 t17 t18 src0 st0
  have hpad : padWithZero 32 h.buffer = some ({ buf := zeroFrom h.buffer.buf h.buffer.pos, pos := 0 },
      zeroFrom h.buffer.buf h.buffer.pos) := by
    unfold padWithZero; rw [if_neg (by omega)]
  have e17 : t17 = true := by simp only [t17, t9, hpad, Option.isSome_some]
  have e11 : t11 = zeroFrom h.buffer.buf h.buffer.pos := by simp only [t11, t10, t9, hpad, Option.getD_some]
  have e14 : t14 = { buf := zeroFrom h.buffer.buf h.buffer.pos, pos := 0 } := by
    simp only [t14, t10, t9, hpad, Option.getD_some]
  have hl11 : t11.length = 32 := by rw [e11]; simp [zeroFrom, hb]; omega
  have hnb : skein256.nb = 32 := rfl
  have e13 : t13 = (processCore skein256 h.state.x (h.state.t0 + BitVec.ofNat 64 h.buffer.pos)
      (h.state.t1 ||| T1_FLAG_FINAL) t11).x := by
    simp only [t13, t12, t8, t5, t4, t3, t2, t1, processCore, ← src_threefish256_with_tweak,
      ← src_threefish256_encrypt_block]
    rw [xorInto_eq_xorBytes _ _ (by rw [encryptBlock_length, hl11]; decide)]
    have : (0x8000000000000000#64 : BitVec 64) = T1_FLAG_FINAL := by decide
    rw [this]; rfl
  have e7 : t7 = (h.state.t1 ||| T1_FLAG_FINAL) &&& ~~~T1_FLAG_FIRST := by
    simp only [t7, t6, t5, t4]
    have a : (0x8000000000000000#64 : BitVec 64) = T1_FLAG_FINAL := by decide
    have b : (0xbfffffffffffffff#64 : BitVec 64) = ~~~T1_FLAG_FIRST := by decide
    rw [a, b]
  have e16 : t16 = skeinOutBytes skein256 t13 0 output.length := by
    simp only [t16, t15, Gen.Kernels.forChunksMutEnum]
    rw [skein256_out_tie t13 output.length 0 output (Nat.le_refl _)]
  simp only [e17, Bool.true_eq_false, if_false, hnb, hpad, processBlock]
  generalize hm : (BitVec.ofNat 64 h.buffer.pos).toNat = m
  have e18 : t18 = decide (h.state.t0.toNat + m < 2 ^ 64) := by simp only [t18, t2, t1, hm]
  by_cases hov : p = Profile.debug ∧ h.state.t0.toNat + m ≥ 2 ^ 64
  · have h' : p = Profile.debug ∧ t18 = false := by
      refine ⟨hov.1, ?_⟩; rw [e18, decide_eq_false_iff_not]; omega
    rw [if_pos h']
    simp only [st0, src0, t1, if_pos hov, bind_panic, noMsg]
  · have h' : ¬ (p = Profile.debug ∧ t18 = false) := by
      intro ⟨a, b⟩; apply hov; refine ⟨a, ?_⟩; rw [e18, decide_eq_false_iff_not] at b; omega
    rw [if_neg h']
    simp only [st0, src0, t1, if_neg hov, Out.bind_ok, outputLoop_closed, Out.pure_eq, e14, e16, e13, e7, e11,
      show t3 = h.state.t0 + BitVec.ofNat 64 h.buffer.pos from rfl, processCore]

theorem src_skein256_reset (p : Profile) (h : Hasher) (n : Nat) (hn : n * 8 < 2 ^ 64) :
    noMsg (Gen.Kernels.skein256_reset p h.state.t0 h.state.t1 h.state.x h.buffer (BitVec.ofNat 64 n))
      = noMsg (reset p skein256 n h >>= fun h' => .ok (skeinEnc h')) := by
  unfold Gen.Kernels.skein256_reset reset
  extract_lets t1 t2 t3 t4 t5 t6 t7
  have e7 : t7 = Gen.Kernels.outOk (noMsg t1) := by rw [outOk_noMsg]
  have e2 : t2 = Gen.Kernels.outGet (noMsg t1) := by rw [outGet_noMsg]
  rw [e7, show t3 = t2.1 from rfl, show t4 = t2.2.1 from rfl, show t5 = t2.2.2.1 from rfl,
    show t6 = t2.2.2.2 from rfl, e2, show t1 = Gen.Kernels.skein256_default p (BitVec.ofNat 64 n) from rfl,
    src_skein256_default p n hn]
  cases hd : Skein.Model.default p skein256 n with
  | ok s => simp [noMsg, Gen.Kernels.outOk, Gen.Kernels.outGet, skeinEnc]
  | err => exact absurd hd (default_ne_err _ _ _)
  | panic w => simp [noMsg, Gen.Kernels.outOk, bind_panic]

/-! ### Skein-512 -/

theorem src_skein512_process_block (p : Profile) (st : State) (block : List (BitVec 8)) (n : Nat)
    (hb : block.length = 64) :
    noMsg (Gen.Kernels.skein512_process_block p st.t0 st.t1 st.x block n)
      = noMsg (processBlock p skein512 st block n >>= fun s => .ok (skeinStateEnc s)) := by
  unfold Gen.Kernels.skein512_process_block processBlock processCore
  simp only [← src_threefish512_with_tweak, ← src_threefish512_encrypt_block]
  rw [xorInto_eq_xorBytes _ _ (by rw [encryptBlock_length, hb]; decide)]
  have e : (13835058055282163711#64 : BitVec 64) = ~~~T1_FLAG_FIRST := by decide
  rw [e]
  generalize (BitVec.ofNat 64 n).toNat = m
  by_cases h : p = Profile.debug ∧ st.t0.toNat + m ≥ 2 ^ 64
  · have h' : p = Profile.debug ∧ decide (st.t0.toNat + m < 2 ^ 64) = false := by
      refine ⟨h.1, ?_⟩; rw [decide_eq_false_iff_not]; omega
    rw [if_pos h, if_pos h']; rfl
  · have h' : ¬ (p = Profile.debug ∧ decide (st.t0.toNat + m < 2 ^ 64) = false) := by
      intro ⟨a, b⟩; apply h; refine ⟨a, ?_⟩; rw [decide_eq_false_iff_not] at b; omega
    rw [if_neg h, if_neg h']
    simp only [Out.bind_ok, skeinStateEnc, skein512]

theorem skein512_cfg (n : BitVec 64) :
    toLe64 0x0000000133414853#64 ++ toLe64 (n * 8#64) ++ toLe64 0#64 ++ List.drop 24 (List.replicate 64 0#8)
      = splice (splice (splice (List.replicate 64 (0 : BitVec 8)) 0 (toLe64 SCHEMA_VER)) 8 (toLe64 (n * 8))) 16
          (toLe64 CFG_TREE_INFO_SEQUENTIAL) := by
  have e1 : SCHEMA_VER = 0x0000000133414853#64 := by decide
  have e2 : CFG_TREE_INFO_SEQUENTIAL = 0#64 := rfl
  rw [e1, e2]
  simp only [toLe64, splice, List.length_cons, List.length_nil]
  simp

theorem src_skein512_default (p : Profile) (n : Nat) (hn : n * 8 < 2 ^ 64) :
    noMsg (Gen.Kernels.skein512_default p (BitVec.ofNat 64 n))
      = noMsg (default p skein512 n >>= fun h => .ok (skeinEnc h)) := by
  unfold Gen.Kernels.skein512_default
  extract_lets t1 t2 t3 t4 t5 t6 t7 t8 t9 t10 t11 t12 t13 t14 t15 t16 t17 t18 t19
  have e18 : t18 = true := by
    simp only [t18, t7, decide_eq_true_iff, BitVec.toNat_ofNat]
    have : n % 2 ^ 64 ≤ n := Nat.mod_le _ _
    omega
  have e12 : t12 = cfgBlock skein512 n := by
    simp only [t12, t6, t9, t10, t11, t5, t8, t7, t1, t4, cfgBlock]
    exact skein512_cfg _
  have e14 := src_skein512_process_block p ⟨t1, t3, t4⟩ t12 t13 (by rw [e12]; simp [cfgBlock, splice, toLe64_length, skein512])
  have hst : ({ t0 := 0, t1 := T1_FLAG_FIRST ||| T1_BLK_TYPE_CFG ||| T1_FLAG_FINAL, x := List.replicate skein512.nb 0 } : State)
      = ⟨t1, t3, t4⟩ := by
    simp only [t1, t3, t4, skein512]
    congr 1
  have e14' : noMsg t14 = noMsg (processBlock p skein512 ⟨t1, t3, t4⟩ (cfgBlock skein512 n) CFG_STR_LEN >>=
      fun s => .ok (skeinStateEnc s)) := by rw [← e12]; exact e14
  have e19 : t19 = Gen.Kernels.outOk (noMsg t14) := by rw [outOk_noMsg]
  have e15 : t15 = Gen.Kernels.outGet (noMsg t14) := by rw [outGet_noMsg]
  simp only [e18, Bool.true_eq_false, and_false, if_false, Skein.Model.default, hst]
  rw [e19, show t16 = t15.2.2 from rfl, e15, e14']
  cases hp : processBlock p skein512 ⟨t1, t3, t4⟩ (cfgBlock skein512 n) CFG_STR_LEN with
  | ok s =>
    simp only [Out.bind_ok, noMsg, Gen.Kernels.outOk, Gen.Kernels.outGet, skeinStateEnc, skeinEnc, Bool.true_eq_false,
      if_false, t1, t2, t17, Out.pure_eq, skein512]
    congr 1
  | err => exact absurd hp (processBlock_ne_err _ _ _ _ _)
  | panic w => simp [noMsg, Gen.Kernels.outOk, bind_panic]

theorem src_skein512_update (p : Profile) (h : Hasher) (hb : h.buffer.buf.length = 64) (hp : h.buffer.pos ≤ 64)
    (data : List (BitVec 8)) :
    noMsg (Gen.Kernels.skein512_update p h.state.t0 h.state.t1 h.state.x h.buffer data)
      = noMsg (update p skein512 h data >>= fun h' => .ok (skeinEnc h')) := by
  unfold Gen.Kernels.skein512_update update
  extract_lets t1 t2 t3 t4 t5 t6 t7 t8
  have hrel := inputLazy_rel
    (fun (a : Out State) (o : Out (BitVec 64 × BitVec 64 × List (BitVec 8))) =>
      noMsg o = noMsg (a >>= fun s => .ok (skeinStateEnc s)))
    64 h.buffer hb hp data
    (fun (acc : Out State) block => acc >>= fun st => processBlock p skein512 st block skein512.nb)
    (fun a blk => a >>= fun s => Gen.Kernels.skein512_update_closure1 p s blk)
    (by
      intro a o x hx hR
      cases a with
      | ok st =>
        cases o with
        | ok s =>
          have hs : s = skeinStateEnc st := by simpa [noMsg] using hR
          subst hs
          simp only [Out.bind_ok, Gen.Kernels.skein512_update_closure1]
          have e := src_skein512_process_block p st x 64 hx
          rw [← outOk_noMsg, ← outGet_noMsg]
          simp only [skeinStateEnc] at e ⊢
          simp only [e]
          have hnb : skein512.nb = 64 := rfl
          rw [hnb]
          cases hq : processBlock p skein512 st x 64 with
          | ok s' => simp [noMsg, Gen.Kernels.outOk, Gen.Kernels.outGet]
          | err => exact absurd hq (processBlock_ne_err _ _ _ _ _)
          | panic w => simp [noMsg, Gen.Kernels.outOk, bind_panic]
        | err => simp [noMsg] at hR
        | panic w => simp [noMsg] at hR
      | err =>
        cases o with
        | ok s => simp [noMsg, bind_err] at hR
        | err => simp [noMsg, bind_err]
        | panic w => simp [noMsg, bind_err] at hR
      | panic w =>
        cases o with
        | ok s => simp [noMsg, bind_panic] at hR
        | err => simp [noMsg, bind_panic] at hR
        | panic w' => simp [noMsg, bind_panic])
    (.ok h.state) (.ok (h.state.t0, h.state.t1, h.state.x)) (by simp [noMsg, skeinStateEnc])
  obtain ⟨hbuf, hacc⟩ := hrel
  have hnb : skein512.nb = 64 := rfl
  have hne := (inputLazy_rel (fun (a : Out State) (_ : Unit) => a ≠ .err) 64 h.buffer hb hp data
    (fun (acc : Out State) block => acc >>= fun st => processBlock p skein512 st block 64) (fun u _ => u)
    (by
      intro a _ x _ ha
      cases a with
      | ok st => exact processBlock_ne_err _ _ _ _ _
      | err => exact absurd rfl ha
      | panic w => simp [bind_panic])
    (.ok h.state) () (by simp)).2
  rw [hnb]
  have e8 : t8 = Gen.Kernels.outOk (noMsg t2) := by rw [outOk_noMsg]
  have e3 : t3 = Gen.Kernels.outGet (noMsg t2) := by rw [outGet_noMsg]
  rw [e8, show t4 = t3.1 from rfl, show t5 = t3.2.1 from rfl, show t6 = t3.2.2 from rfl, e3,
    show t7 = t1.1 from rfl, show t2 = t1.2 from rfl]
  simp only [t1, hacc, ← hbuf, hnb]
  generalize inputLazy 64 h.buffer data (fun acc block => acc >>= fun st => processBlock p skein512 st block 64)
    (Out.ok h.state) = r at hne ⊢
  obtain ⟨bb, acc⟩ := r
  cases acc with
  | ok st => simp [noMsg, Gen.Kernels.outOk, Gen.Kernels.outGet, skeinStateEnc, skeinEnc]
  | err => exact absurd rfl hne
  | panic w => simp [noMsg, Gen.Kernels.outOk, bind_panic]

theorem skein512_loop1_eq (x : List (BitVec 8)) (i : Nat) (dd : List (BitVec 8)) :
    Gen.Kernels.skein512_finalize_into_dirty_loop1 x () i dd = ((), (skeinOutBlk skein512 x i).take dd.length) := by
  unfold Gen.Kernels.skein512_finalize_into_dirty_loop1 skeinOutBlk processCore
  simp only [← src_threefish512_with_tweak, ← src_threefish512_encrypt_block]
  have hc : toLe64 (BitVec.ofNat 64 i) ++ List.drop 8 (List.replicate 64 (0#8 : BitVec 8)) = ctrBlock skein512 i := by
    simp only [ctrBlock, splice, skein512, toLe64_length]
    simp
  have ht : (0xff00000000000000#64 : BitVec 64) = T1_FLAG_FIRST ||| T1_BLK_TYPE_OUT ||| T1_FLAG_FINAL := by decide
  have h8 : (8#64 : BitVec 64) = 0 + BitVec.ofNat 64 8 := by decide
  rw [hc, ht, h8, xorInto_eq_xorBytes _ _ (by
    rw [encryptBlock_length]; simp [ctrBlock, splice, skein512, toLe64_length, CC.Threefish.Model.tf512])]
  rfl

theorem skein512_out_tie (x : List (BitVec 8)) :
    ∀ (fuel i : Nat) (d : List (BitVec 8)), d.length ≤ fuel →
      Gen.Kernels.forChunksMutEnumAux 64 (Gen.Kernels.skein512_finalize_into_dirty_loop1 x) fuel i () d
        = ((), skeinOutBytes skein512 x i d.length) := by
  intro fuel
  induction fuel with
  | zero =>
    intro i d hd
    have : d = [] := List.eq_nil_of_length_eq_zero (by omega)
    subst this
    simp [Gen.Kernels.forChunksMutEnumAux, skeinOutBytes_zero skein512 (by decide)]
  | succ fuel ih =>
    intro i d hd
    by_cases hz : d.length = 0
    · have : d = [] := List.eq_nil_of_length_eq_zero hz
      subst this
      simp [Gen.Kernels.forChunksMutEnumAux, skeinOutBytes_zero skein512 (by decide)]
    · have hc : 0 < d.length ∧ 0 < 64 := by omega
      simp only [Gen.Kernels.forChunksMutEnumAux, hc, and_self, if_true, skein512_loop1_eq]
      rw [ih (i + 1) (d.drop 64) (by simp; omega), skeinOutBytes_pos skein512 (by decide) x i d.length (by omega)]
      simp only [List.length_take, List.length_drop]
      rfl

theorem src_skein512_finalize_into_dirty (p : Profile) (h : Hasher) (hp : h.buffer.pos ≤ 64) (hb : h.buffer.buf.length = 64)
    (output : List (BitVec 8)) :
    noMsg (Gen.Kernels.skein512_finalize_into_dirty p h.state.t0 h.state.t1 h.state.x h.buffer output)
      = noMsg (finalizeIntoDirty p skein512 output.length h >>= fun r =>
          .ok (r.1.state.t0, r.1.state.t1, r.1.state.x, r.1.buffer, r.2)) := by
  unfold Gen.Kernels.skein512_finalize_into_dirty finalizeIntoDirty
  extract_lets t1 t2 t3 t4 t5 t6 t7 t8 t9 t10 t11 t12 t13 t14 t15 t16 t17 t18 src0 st0
  have hpad : padWithZero 64 h.buffer = some ({ buf := zeroFrom h.buffer.buf h.buffer.pos, pos := 0 },
      zeroFrom h.buffer.buf h.buffer.pos) := by
    unfold padWithZero; rw [if_neg (by omega)]
  have e17 : t17 = true := by simp only [t17, t9, hpad, Option.isSome_some]
  have e11 : t11 = zeroFrom h.buffer.buf h.buffer.pos := by simp only [t11, t10, t9, hpad, Option.getD_some]
  have e14 : t14 = { buf := zeroFrom h.buffer.buf h.buffer.pos, pos := 0 } := by
    simp only [t14, t10, t9, hpad, Option.getD_some]
  have hl11 : t11.length = 64 := by rw [e11]; simp [zeroFrom, hb]; omega
  have hnb : skein512.nb = 64 := rfl
  have e13 : t13 = (processCore skein512 h.state.x (h.state.t0 + BitVec.ofNat 64 h.buffer.pos)
      (h.state.t1 ||| T1_FLAG_FINAL) t11).x := by
    simp only [t13, t12, t8, t5, t4, t3, t2, t1, processCore, ← src_threefish512_with_tweak,
      ← src_threefish512_encrypt_block]
    rw [xorInto_eq_xorBytes _ _ (by rw [encryptBlock_length, hl11]; decide)]
    have : (0x8000000000000000#64 : BitVec 64) = T1_FLAG_FINAL := by decide
    rw [this]; rfl
  have e7 : t7 = (h.state.t1 ||| T1_FLAG_FINAL) &&& ~~~T1_FLAG_FIRST := by
    simp only [t7, t6, t5, t4]
    have a : (0x8000000000000000#64 : BitVec 64) = T1_FLAG_FINAL := by decide
    have b : (0xbfffffffffffffff#64 : BitVec 64) = ~~~T1_FLAG_FIRST := by decide
    rw [a, b]
  have e16 : t16 = skeinOutBytes skein512 t13 0 output.length := by
    simp only [t16, t15, Gen.Kernels.forChunksMutEnum]
    rw [skein512_out_tie t13 output.length 0 output (Nat.le_refl _)]
  simp only [e17, Bool.true_eq_false, if_false, hnb, hpad, processBlock]
  generalize hm : (BitVec.ofNat 64 h.buffer.pos).toNat = m
  have e18 : t18 = decide (h.state.t0.toNat + m < 2 ^ 64) := by simp only [t18, t2, t1, hm]
  by_cases hov : p = Profile.debug ∧ h.state.t0.toNat + m ≥ 2 ^ 64
  · have h' : p = Profile.debug ∧ t18 = false := by
      refine ⟨hov.1, ?_⟩; rw [e18, decide_eq_false_iff_not]; omega
    rw [if_pos h']
    simp only [st0, src0, t1, if_pos hov, bind_panic, noMsg]
  · have h' : ¬ (p = Profile.debug ∧ t18 = false) := by
      intro ⟨a, b⟩; apply hov; refine ⟨a, ?_⟩; rw [e18, decide_eq_false_iff_not] at b; omega
    rw [if_neg h']
    simp only [st0, src0, t1, if_neg hov, Out.bind_ok, outputLoop_closed, Out.pure_eq, e14, e16, e13, e7, e11,
      show t3 = h.state.t0 + BitVec.ofNat 64 h.buffer.pos from rfl, processCore]

theorem src_skein512_reset (p : Profile) (h : Hasher) (n : Nat) (hn : n * 8 < 2 ^ 64) :
    noMsg (Gen.Kernels.skein512_reset p h.state.t0 h.state.t1 h.state.x h.buffer (BitVec.ofNat 64 n))
      = noMsg (reset p skein512 n h >>= fun h' => .ok (skeinEnc h')) := by
  unfold Gen.Kernels.skein512_reset reset
  extract_lets t1 t2 t3 t4 t5 t6 t7
  have e7 : t7 = Gen.Kernels.outOk (noMsg t1) := by rw [outOk_noMsg]
  have e2 : t2 = Gen.Kernels.outGet (noMsg t1) := by rw [outGet_noMsg]
  rw [e7, show t3 = t2.1 from rfl, show t4 = t2.2.1 from rfl, show t5 = t2.2.2.1 from rfl,
    show t6 = t2.2.2.2 from rfl, e2, show t1 = Gen.Kernels.skein512_default p (BitVec.ofNat 64 n) from rfl,
    src_skein512_default p n hn]
  cases hd : Skein.Model.default p skein512 n with
  | ok s => simp [noMsg, Gen.Kernels.outOk, Gen.Kernels.outGet, skeinEnc]
  | err => exact absurd hd (default_ne_err _ _ _)
  | panic w => simp [noMsg, Gen.Kernels.outOk, bind_panic]

/-! ### Skein-1024 -/

theorem src_skein1024_process_block (p : Profile) (st : State) (block : List (BitVec 8)) (n : Nat)
    (hb : block.length = 128) :
    noMsg (Gen.Kernels.skein1024_process_block p st.t0 st.t1 st.x block n)
      = noMsg (processBlock p skein1024 st block n >>= fun s => .ok (skeinStateEnc s)) := by
  unfold Gen.Kernels.skein1024_process_block processBlock processCore
  simp only [← src_threefish1024_with_tweak, ← src_threefish1024_encrypt_block]
  rw [xorInto_eq_xorBytes _ _ (by rw [encryptBlock_length, hb]; decide)]
  have e : (13835058055282163711#64 : BitVec 64) = ~~~T1_FLAG_FIRST := by decide
  rw [e]
  generalize (BitVec.ofNat 64 n).toNat = m
  by_cases h : p = Profile.debug ∧ st.t0.toNat + m ≥ 2 ^ 64
  · have h' : p = Profile.debug ∧ decide (st.t0.toNat + m < 2 ^ 64) = false := by
      refine ⟨h.1, ?_⟩; rw [decide_eq_false_iff_not]; omega
    rw [if_pos h, if_pos h']; rfl
  · have h' : ¬ (p = Profile.debug ∧ decide (st.t0.toNat + m < 2 ^ 64) = false) := by
      intro ⟨a, b⟩; apply h; refine ⟨a, ?_⟩; rw [decide_eq_false_iff_not] at b; omega
    rw [if_neg h, if_neg h']
    simp only [Out.bind_ok, skeinStateEnc, skein1024]

theorem skein1024_cfg (n : BitVec 64) :
    toLe64 0x0000000133414853#64 ++ toLe64 (n * 8#64) ++ toLe64 0#64 ++ List.drop 24 (List.replicate 128 0#8)
      = splice (splice (splice (List.replicate 128 (0 : BitVec 8)) 0 (toLe64 SCHEMA_VER)) 8 (toLe64 (n * 8))) 16
          (toLe64 CFG_TREE_INFO_SEQUENTIAL) := by
  have e1 : SCHEMA_VER = 0x0000000133414853#64 := by decide
  have e2 : CFG_TREE_INFO_SEQUENTIAL = 0#64 := rfl
  rw [e1, e2]
  simp only [toLe64, splice, List.length_cons, List.length_nil]
  simp

theorem src_skein1024_default (p : Profile) (n : Nat) (hn : n * 8 < 2 ^ 64) :
    noMsg (Gen.Kernels.skein1024_default p (BitVec.ofNat 64 n))
      = noMsg (default p skein1024 n >>= fun h => .ok (skeinEnc h)) := by
  unfold Gen.Kernels.skein1024_default
  extract_lets t1 t2 t3 t4 t5 t6 t7 t8 t9 t10 t11 t12 t13 t14 t15 t16 t17 t18 t19
  have e18 : t18 = true := by
    simp only [t18, t7, decide_eq_true_iff, BitVec.toNat_ofNat]
    have : n % 2 ^ 64 ≤ n := Nat.mod_le _ _
    omega
  have e12 : t12 = cfgBlock skein1024 n := by
    simp only [t12, t6, t9, t10, t11, t5, t8, t7, t1, t4, cfgBlock]
    exact skein1024_cfg _
  have e14 := src_skein1024_process_block p ⟨t1, t3, t4⟩ t12 t13 (by rw [e12]; simp [cfgBlock, splice, toLe64_length, skein1024])
  have hst : ({ t0 := 0, t1 := T1_FLAG_FIRST ||| T1_BLK_TYPE_CFG ||| T1_FLAG_FINAL, x := List.replicate skein1024.nb 0 } : State)
      = ⟨t1, t3, t4⟩ := by
    simp only [t1, t3, t4, skein1024]
    congr 1
  have e14' : noMsg t14 = noMsg (processBlock p skein1024 ⟨t1, t3, t4⟩ (cfgBlock skein1024 n) CFG_STR_LEN >>=
      fun s => .ok (skeinStateEnc s)) := by rw [← e12]; exact e14
  have e19 : t19 = Gen.Kernels.outOk (noMsg t14) := by rw [outOk_noMsg]
  have e15 : t15 = Gen.Kernels.outGet (noMsg t14) := by rw [outGet_noMsg]
  simp only [e18, Bool.true_eq_false, and_false, if_false, Skein.Model.default, hst]
  rw [e19, show t16 = t15.2.2 from rfl, e15, e14']
  cases hp : processBlock p skein1024 ⟨t1, t3, t4⟩ (cfgBlock skein1024 n) CFG_STR_LEN with
  | ok s =>
    simp only [Out.bind_ok, noMsg, Gen.Kernels.outOk, Gen.Kernels.outGet, skeinStateEnc, skeinEnc, Bool.true_eq_false,
      if_false, t1, t2, t17, Out.pure_eq, skein1024]
    congr 1
  | err => exact absurd hp (processBlock_ne_err _ _ _ _ _)
  | panic w => simp [noMsg, Gen.Kernels.outOk, bind_panic]

theorem src_skein1024_update (p : Profile) (h : Hasher) (hb : h.buffer.buf.length = 128) (hp : h.buffer.pos ≤ 128)
    (data : List (BitVec 8)) :
    noMsg (Gen.Kernels.skein1024_update p h.state.t0 h.state.t1 h.state.x h.buffer data)
      = noMsg (update p skein1024 h data >>= fun h' => .ok (skeinEnc h')) := by
  unfold Gen.Kernels.skein1024_update update
  extract_lets t1 t2 t3 t4 t5 t6 t7 t8
  have hrel := inputLazy_rel
    (fun (a : Out State) (o : Out (BitVec 64 × BitVec 64 × List (BitVec 8))) =>
      noMsg o = noMsg (a >>= fun s => .ok (skeinStateEnc s)))
    128 h.buffer hb hp data
    (fun (acc : Out State) block => acc >>= fun st => processBlock p skein1024 st block skein1024.nb)
    (fun a blk => a >>= fun s => Gen.Kernels.skein1024_update_closure1 p s blk)
    (by
      intro a o x hx hR
      cases a with
      | ok st =>
        cases o with
        | ok s =>
          have hs : s = skeinStateEnc st := by simpa [noMsg] using hR
          subst hs
          simp only [Out.bind_ok, Gen.Kernels.skein1024_update_closure1]
          have e := src_skein1024_process_block p st x 128 hx
          rw [← outOk_noMsg, ← outGet_noMsg]
          simp only [skeinStateEnc] at e ⊢
          simp only [e]
          have hnb : skein1024.nb = 128 := rfl
          rw [hnb]
          cases hq : processBlock p skein1024 st x 128 with
          | ok s' => simp [noMsg, Gen.Kernels.outOk, Gen.Kernels.outGet]
          | err => exact absurd hq (processBlock_ne_err _ _ _ _ _)
          | panic w => simp [noMsg, Gen.Kernels.outOk, bind_panic]
        | err => simp [noMsg] at hR
        | panic w => simp [noMsg] at hR
      | err =>
        cases o with
        | ok s => simp [noMsg, bind_err] at hR
        | err => simp [noMsg, bind_err]
        | panic w => simp [noMsg, bind_err] at hR
      | panic w =>
        cases o with
        | ok s => simp [noMsg, bind_panic] at hR
        | err => simp [noMsg, bind_panic] at hR
        | panic w' => simp [noMsg, bind_panic])
    (.ok h.state) (.ok (h.state.t0, h.state.t1, h.state.x)) (by simp [noMsg, skeinStateEnc])
  obtain ⟨hbuf, hacc⟩ := hrel
  have hnb : skein1024.nb = 128 := rfl
  have hne := (inputLazy_rel (fun (a : Out State) (_ : Unit) => a ≠ .err) 128 h.buffer hb hp data
    (fun (acc : Out State) block => acc >>= fun st => processBlock p skein1024 st block 128) (fun u _ => u)
    (by
      intro a _ x _ ha
      cases a with
      | ok st => exact processBlock_ne_err _ _ _ _ _
      | err => exact absurd rfl ha
      | panic w => simp [bind_panic])
    (.ok h.state) () (by simp)).2
  rw [hnb]
  have e8 : t8 = Gen.Kernels.outOk (noMsg t2) := by rw [outOk_noMsg]
  have e3 : t3 = Gen.Kernels.outGet (noMsg t2) := by rw [outGet_noMsg]
  rw [e8, show t4 = t3.1 from rfl, show t5 = t3.2.1 from rfl, show t6 = t3.2.2 from rfl, e3,
    show t7 = t1.1 from rfl, show t2 = t1.2 from rfl]
  simp only [t1, hacc, ← hbuf, hnb]
  generalize inputLazy 128 h.buffer data (fun acc block => acc >>= fun st => processBlock p skein1024 st block 128)
    (Out.ok h.state) = r at hne ⊢
  obtain ⟨bb, acc⟩ := r
  cases acc with
  | ok st => simp [noMsg, Gen.Kernels.outOk, Gen.Kernels.outGet, skeinStateEnc, skeinEnc]
  | err => exact absurd rfl hne
  | panic w => simp [noMsg, Gen.Kernels.outOk, bind_panic]

theorem skein1024_loop1_eq (x : List (BitVec 8)) (i : Nat) (dd : List (BitVec 8)) :
    Gen.Kernels.skein1024_finalize_into_dirty_loop1 x () i dd = ((), (skeinOutBlk skein1024 x i).take dd.length) := by
  unfold Gen.Kernels.skein1024_finalize_into_dirty_loop1 skeinOutBlk processCore
  simp only [← src_threefish1024_with_tweak, ← src_threefish1024_encrypt_block]
  have hc : toLe64 (BitVec.ofNat 64 i) ++ List.drop 8 (List.replicate 128 (0#8 : BitVec 8)) = ctrBlock skein1024 i := by
    simp only [ctrBlock, splice, skein1024, toLe64_length]
    simp
  have ht : (0xff00000000000000#64 : BitVec 64) = T1_FLAG_FIRST ||| T1_BLK_TYPE_OUT ||| T1_FLAG_FINAL := by decide
  have h8 : (8#64 : BitVec 64) = 0 + BitVec.ofNat 64 8 := by decide
  rw [hc, ht, h8, xorInto_eq_xorBytes _ _ (by
    rw [encryptBlock_length]; simp [ctrBlock, splice, skein1024, toLe64_length, CC.Threefish.Model.tf1024])]
  rfl

theorem skein1024_out_tie (x : List (BitVec 8)) :
    ∀ (fuel i : Nat) (d : List (BitVec 8)), d.length ≤ fuel →
      Gen.Kernels.forChunksMutEnumAux 128 (Gen.Kernels.skein1024_finalize_into_dirty_loop1 x) fuel i () d
        = ((), skeinOutBytes skein1024 x i d.length) := by
  intro fuel
  induction fuel with
  | zero =>
    intro i d hd
    have : d = [] := List.eq_nil_of_length_eq_zero (by omega)
    subst this
    simp [Gen.Kernels.forChunksMutEnumAux, skeinOutBytes_zero skein1024 (by decide)]
  | succ fuel ih =>
    intro i d hd
    by_cases hz : d.length = 0
    · have : d = [] := List.eq_nil_of_length_eq_zero hz
      subst this
      simp [Gen.Kernels.forChunksMutEnumAux, skeinOutBytes_zero skein1024 (by decide)]
    · have hc : 0 < d.length ∧ 0 < 128 := by omega
      simp only [Gen.Kernels.forChunksMutEnumAux, hc, and_self, if_true, skein1024_loop1_eq]
      rw [ih (i + 1) (d.drop 128) (by simp; omega), skeinOutBytes_pos skein1024 (by decide) x i d.length (by omega)]
      simp only [List.length_take, List.length_drop]
      rfl

theorem src_skein1024_finalize_into_dirty (p : Profile) (h : Hasher) (hp : h.buffer.pos ≤ 128) (hb : h.buffer.buf.length = 128)
    (output : List (BitVec 8)) :
    noMsg (Gen.Kernels.skein1024_finalize_into_dirty p h.state.t0 h.state.t1 h.state.x h.buffer output)
      = noMsg (finalizeIntoDirty p skein1024 output.length h >>= fun r =>
          .ok (r.1.state.t0, r.1.state.t1, r.1.state.x, r.1.buffer, r.2)) := by
  unfold Gen.Kernels.skein1024_finalize_into_dirty finalizeIntoDirty
  extract_lets t1 t2 t3 t4 t5 t6 t7 t8 t9 t10 t11 t12 t13 t14 t15 t16 t17 t18 src0 st0
  have hpad : padWithZero 128 h.buffer = some ({ buf := zeroFrom h.buffer.buf h.buffer.pos, pos := 0 },
      zeroFrom h.buffer.buf h.buffer.pos) := by
    unfold padWithZero; rw [if_neg (by omega)]
  have e17 : t17 = true := by simp only [t17, t9, hpad, Option.isSome_some]
  have e11 : t11 = zeroFrom h.buffer.buf h.buffer.pos := by simp only [t11, t10, t9, hpad, Option.getD_some]
  have e14 : t14 = { buf := zeroFrom h.buffer.buf h.buffer.pos, pos := 0 } := by
    simp only [t14, t10, t9, hpad, Option.getD_some]
  have hl11 : t11.length = 128 := by rw [e11]; simp [zeroFrom, hb]; omega
  have hnb : skein1024.nb = 128 := rfl
  have e13 : t13 = (processCore skein1024 h.state.x (h.state.t0 + BitVec.ofNat 64 h.buffer.pos)
      (h.state.t1 ||| T1_FLAG_FINAL) t11).x := by
    simp only [t13, t12, t8, t5, t4, t3, t2, t1, processCore, ← src_threefish1024_with_tweak,
      ← src_threefish1024_encrypt_block]
    rw [xorInto_eq_xorBytes _ _ (by rw [encryptBlock_length, hl11]; decide)]
    have : (0x8000000000000000#64 : BitVec 64) = T1_FLAG_FINAL := by decide
    rw [this]; rfl
  have e7 : t7 = (h.state.t1 ||| T1_FLAG_FINAL) &&& ~~~T1_FLAG_FIRST := by
    simp only [t7, t6, t5, t4]
    have a : (0x8000000000000000#64 : BitVec 64) = T1_FLAG_FINAL := by decide
    have b : (0xbfffffffffffffff#64 : BitVec 64) = ~~~T1_FLAG_FIRST := by decide
    rw [a, b]
  have e16 : t16 = skeinOutBytes skein1024 t13 0 output.length := by
    simp only [t16, t15, Gen.Kernels.forChunksMutEnum]
    rw [skein1024_out_tie t13 output.length 0 output (Nat.le_refl _)]
  simp only [e17, Bool.true_eq_false, if_false, hnb, hpad, processBlock]
  generalize hm : (BitVec.ofNat 64 h.buffer.pos).toNat = m
  have e18 : t18 = decide (h.state.t0.toNat + m < 2 ^ 64) := by simp only [t18, t2, t1, hm]
  by_cases hov : p = Profile.debug ∧ h.state.t0.toNat + m ≥ 2 ^ 64
  · have h' : p = Profile.debug ∧ t18 = false := by
      refine ⟨hov.1, ?_⟩; rw [e18, decide_eq_false_iff_not]; omega
    rw [if_pos h']
    simp only [st0, src0, t1, if_pos hov, bind_panic, noMsg]
  · have h' : ¬ (p = Profile.debug ∧ t18 = false) := by
      intro ⟨a, b⟩; apply hov; refine ⟨a, ?_⟩; rw [e18, decide_eq_false_iff_not] at b; omega
    rw [if_neg h']
    simp only [st0, src0, t1, if_neg hov, Out.bind_ok, outputLoop_closed, Out.pure_eq, e14, e16, e13, e7, e11,
      show t3 = h.state.t0 + BitVec.ofNat 64 h.buffer.pos from rfl, processCore]

theorem src_skein1024_reset (p : Profile) (h : Hasher) (n : Nat) (hn : n * 8 < 2 ^ 64) :
    noMsg (Gen.Kernels.skein1024_reset p h.state.t0 h.state.t1 h.state.x h.buffer (BitVec.ofNat 64 n))
      = noMsg (reset p skein1024 n h >>= fun h' => .ok (skeinEnc h')) := by
  unfold Gen.Kernels.skein1024_reset reset
  extract_lets t1 t2 t3 t4 t5 t6 t7
  have e7 : t7 = Gen.Kernels.outOk (noMsg t1) := by rw [outOk_noMsg]
  have e2 : t2 = Gen.Kernels.outGet (noMsg t1) := by rw [outGet_noMsg]
  rw [e7, show t3 = t2.1 from rfl, show t4 = t2.2.1 from rfl, show t5 = t2.2.2.1 from rfl,
    show t6 = t2.2.2.2 from rfl, e2, show t1 = Gen.Kernels.skein1024_default p (BitVec.ofNat 64 n) from rfl,
    src_skein1024_default p n hn]
  cases hd : Skein.Model.default p skein1024 n with
  | ok s => simp [noMsg, Gen.Kernels.outOk, Gen.Kernels.outGet, skeinEnc]
  | err => exact absurd hd (default_ne_err _ _ _)
  | panic w => simp [noMsg, Gen.Kernels.outOk, bind_panic]

/-- the structs of lib.rs: `$name<N> { state, buffer, _output }` (model `Hasher`: state, buffer), `State<X> { t, x }`
    (model `State`: t0, t1, x), the union `Block<N> { bytes, words }` (its byte array); `Clone` is derived everywhere -/
theorem src_skein_structs :
    Gen.Kernels.skein_structs =
      [("Skein256", "struct", ["state", "buffer", "_output"], ["Clone"], ["Default"]),
       ("Skein512", "struct", ["state", "buffer", "_output"], ["Clone"], ["Default"]),
       ("Skein1024", "struct", ["state", "buffer", "_output"], ["Clone"], ["Default"]),
       ("State", "struct", ["t", "x"], ["Clone"], []),
       ("Block", "union", ["bytes", "words"], ["Clone", "Copy"], [])] := rfl

end CC.Src
