/-
  CC.Skein.Src — SOURCE TIE for Skein (property C05): every definition that tools/inventory_kernels.py
  regenerates from hashes/skein/src/lib.rs into `CC.Gen.Kernels` equals the hand-written model definition
  (`CC.Skein.Model`).  The constants are evaluated by the translator (`(VERSION << 32) | ID_STRING_LE`,
  `1 << 62`, `4 * 8`, …) and compared here with the model's formulas.  The Threefish kernels and tables
  Skein runs on are tied in `CC.Threefish.Src` (re-exported by `CC.Thm.C05.source_kernels_match` as well).
-/
import CC.Gen.Kernels
import CC.Skein.Model
import CC.Threefish.Src
namespace CC.Src
open CC.Skein.Model

theorem src_skein_clean : Gen.Kernels.skein_errors = [] := rfl

theorem src_skein_VERSION : VERSION = Gen.Kernels.skein_VERSION := by decide +kernel
theorem src_skein_ID_STRING_LE : ID_STRING_LE = Gen.Kernels.skein_ID_STRING_LE := by decide +kernel
theorem src_skein_SCHEMA_VER : SCHEMA_VER = Gen.Kernels.skein_SCHEMA_VER := by decide +kernel
theorem src_skein_CFG_TREE_INFO_SEQUENTIAL :
    CFG_TREE_INFO_SEQUENTIAL = Gen.Kernels.skein_CFG_TREE_INFO_SEQUENTIAL := by decide +kernel
theorem src_skein_T1_FLAG_FIRST : T1_FLAG_FIRST = Gen.Kernels.skein_T1_FLAG_FIRST := by decide +kernel
theorem src_skein_T1_FLAG_FINAL : T1_FLAG_FINAL = Gen.Kernels.skein_T1_FLAG_FINAL := by decide +kernel
theorem src_skein_T1_BLK_TYPE_CFG : T1_BLK_TYPE_CFG = Gen.Kernels.skein_T1_BLK_TYPE_CFG := by decide +kernel
theorem src_skein_T1_BLK_TYPE_MSG : T1_BLK_TYPE_MSG = Gen.Kernels.skein_T1_BLK_TYPE_MSG := by decide +kernel
theorem src_skein_T1_BLK_TYPE_OUT : T1_BLK_TYPE_OUT = Gen.Kernels.skein_T1_BLK_TYPE_OUT := by decide +kernel
theorem src_skein_CFG_STR_LEN : CFG_STR_LEN = Gen.Kernels.skein_CFG_STR_LEN := by decide +kernel

/-- the Threefish instantiation by its Rust type name (tied to the source by `src_threefish_instances`) -/
def tfByName : String → CC.Threefish.Model.Params
  | "Threefish256" => CC.Threefish.Model.tf256
  | "Threefish512" => CC.Threefish.Model.tf512
  | "Threefish1024" => CC.Threefish.Model.tf1024
  | _ => ⟨0, 0, [], []⟩

/-- `define_hasher!($name, $threefish, $state_bytes, $state_bits)`: the three instantiations are the model's
    `skein256`, `skein512`, `skein1024`, and `$state_bits = 8·$state_bytes` -/
theorem src_skein_instances :
    Gen.Kernels.skein_define_hasher.map (fun r => (r.1, (⟨r.2.2.1, tfByName r.2.1⟩ : Params), r.2.2.2))
      = [("Skein256", skein256, 8 * skein256.nb), ("Skein512", skein512, 8 * skein512.nb),
         ("Skein1024", skein1024, 8 * skein1024.nb)] := rfl

end CC.Src
