/-
  CC.Skein.Lemmas — helper lemmas for C05.
    1. UBI of the specification as a recursion over the message (`ubiRec`), matching the shape of
       block-buffer's lazy loop;
    2. `process_block` = one UBI step (Threefish conformance from CC.Threefish.Lemmas), tweak encoding;
    3. `Default` = UBI of the configuration string; the lazy loop + `finalize` = UBI of the message;
       the output loop = `Output`;
    4. one-shot conformance.
-/
import CC.Skein.Spec
import CC.Skein.Model
import CC.Threefish.Lemmas
namespace CC.Skein
open CC Spec

/-! ## 1. UBI as a recursion over the message (spec side only) -/

/-- UBI started in the middle: `pos` bytes already absorbed, `first` still pending. -/
def ubiFrom (nb ty pos : Nat) (first : Bool) (g msg : List (BitVec 8)) : List (BitVec 8) :=
  let k := numBlocks nb msg.length
  (List.range k).foldl
    (fun h i => ubiStep nb h (tweak (pos + min msg.length ((i + 1) * nb)) ty (first && i == 0) (i + 1 == k))
      (blockAt nb msg i)) g

theorem ubi_eq_ubiFrom (nb ty : Nat) (g msg : List (BitVec 8)) : ubi nb g msg ty = ubiFrom nb ty 0 true g msg := by
  simp [ubi, ubiFrom]

/-- the last block -/
theorem ubiFrom_last (nb ty pos : Nat) (first : Bool) (g msg : List (BitVec 8)) (h : msg.length ≤ nb) (hnb : 0 < nb) :
    ubiFrom nb ty pos first g msg =
      ubiStep nb g (tweak (pos + msg.length) ty first true) (msg ++ List.replicate (nb - msg.length) 0) := by
  have hk : numBlocks nb msg.length = 1 := by
    unfold numBlocks
    split
    · rfl
    · rename_i hne
      have : msg.length + nb - 1 = (msg.length - 1) + nb := by omega
      rw [this, Nat.add_div_right _ hnb, Nat.div_eq_of_lt (by omega)]
  simp only [ubiFrom, hk, List.range_one, List.foldl_cons, List.foldl_nil, Nat.zero_add, Nat.one_mul,
    Nat.min_eq_left h, beq_self_eq_true, Bool.and_true, blockAt, Nat.mul_zero, List.drop_zero]
  rw [List.take_of_length_le h]

/-- one non-final block -/
theorem numBlocks_step (nb len : Nat) (h : nb < len) (hnb : 0 < nb) :
    numBlocks nb len = numBlocks nb (len - nb) + 1 ∧ 1 ≤ numBlocks nb (len - nb) := by
  unfold numBlocks
  rw [if_neg (by omega), if_neg (by omega)]
  have : len + nb - 1 = (len - nb + nb - 1) + nb := by omega
  rw [this, Nat.add_div_right _ hnb]
  exact ⟨rfl, (Nat.one_le_div_iff hnb).mpr (by omega)⟩

theorem ubiFrom_step (nb ty pos : Nat) (first : Bool) (g msg : List (BitVec 8)) (h : nb < msg.length) (hnb : 0 < nb) :
    ubiFrom nb ty pos first g msg =
      ubiFrom nb ty (pos + nb) false (ubiStep nb g (tweak (pos + nb) ty first false) (msg.take nb)) (msg.drop nb) := by
  obtain ⟨hk, hk1⟩ := numBlocks_step nb msg.length h hnb
  have hl : (msg.drop nb).length = msg.length - nb := List.length_drop
  unfold ubiFrom
  rw [hk, hl]
  generalize numBlocks nb (msg.length - nb) = k' at hk1
  dsimp only
  rw [List.range_succ_eq_map, List.foldl_cons, List.foldl_map]
  have h0 : blockAt nb msg 0 = msg.take nb := by
    simp [blockAt, List.length_take, Nat.min_eq_left (Nat.le_of_lt h)]
  have hfin0 : (0 + 1 == k' + 1) = false := by
    simp only [Nat.zero_add, beq_eq_false_iff_ne, ne_eq]; omega
  rw [h0, hfin0]
  simp only [Nat.zero_add, Nat.one_mul, Nat.min_eq_right (Nat.le_of_lt h), beq_self_eq_true, Bool.and_true]
  refine congrArg (fun F => List.foldl F _ _) (funext fun x => funext fun i => ?_)
  simp only [Nat.succ_eq_add_one]
  have e1 : pos + min msg.length ((i + 1 + 1) * nb) = pos + nb + min (msg.length - nb) ((i + 1) * nb) := by
    rw [Nat.succ_mul (i + 1) nb]
    omega
  have e2 : blockAt nb msg (i + 1) = blockAt nb (msg.drop nb) i := by
    simp only [blockAt, List.drop_drop, Nat.mul_succ]
    rw [Nat.add_comm (nb * i) nb]
  have e3 : (i + 1 + 1 == k' + 1) = (i + 1 == k') := by
    simp
  have e4 : (first && (i + 1 == 0)) = (false && (i == 0)) := by simp
  rw [e1, e2, e3, e4]

/-- UBI as the loop `while more than one block remains { non-final step }; final step` with fuel. -/
def ubiRec (nb ty : Nat) : Nat → Nat → Bool → List (BitVec 8) → List (BitVec 8) → List (BitVec 8)
  | 0, pos, first, g, msg =>
    ubiStep nb g (tweak (pos + msg.length) ty first true) (msg ++ List.replicate (nb - msg.length) 0)
  | fuel + 1, pos, first, g, msg =>
    if nb < msg.length ∧ 0 < nb then
      ubiRec nb ty fuel (pos + nb) false (ubiStep nb g (tweak (pos + nb) ty first false) (msg.take nb)) (msg.drop nb)
    else ubiStep nb g (tweak (pos + msg.length) ty first true) (msg ++ List.replicate (nb - msg.length) 0)

theorem ubiRec_eq_ubiFrom (nb ty : Nat) (hnb : 0 < nb) (fuel pos : Nat) (first : Bool) (g msg : List (BitVec 8))
    (hf : msg.length ≤ fuel * nb + nb) : ubiRec nb ty fuel pos first g msg = ubiFrom nb ty pos first g msg := by
  induction fuel generalizing pos first g msg with
  | zero => rw [ubiRec, ubiFrom_last _ _ _ _ _ _ (by simpa using hf) hnb]
  | succ fuel ih =>
    rw [ubiRec]
    split
    · rename_i hc
      rw [ubiFrom_step _ _ _ _ _ _ hc.1 hnb]
      apply ih
      rw [List.length_drop]
      rw [Nat.succ_mul] at hf
      omega
    · rename_i hc
      rw [ubiFrom_last _ _ _ _ _ _ (by omega) hnb]

open CC Spec Model CC.Buffer
open CC.Threefish.Model (tf256 tf512 tf1024)

/-! ## 2. `process_block` is a UBI step -/

theorem params_facts {P : Params} (hP : P ∈ [skein256, skein512, skein1024]) :
    P.nb / 8 = P.tf.nw ∧ P.tf ∈ [tf256, tf512, tf1024] ∧ 32 ≤ P.nb ∧ P.nb < 2 ^ 64 := by
  simp only [List.mem_cons, List.not_mem_nil, or_false] at hP
  rcases hP with rfl | rfl | rfl <;> simp [skein256, skein512, skein1024, tf256, tf512, tf1024]

theorem tw_lo (a b : BitVec 64) : (a ++ b).extractLsb' 0 64 = b := by bv_decide
theorem tw_hi (a b : BitVec 64) : (a ++ b).extractLsb' 64 64 = a := by bv_decide

theorem processCore_eq {P : Params} (hP : P ∈ [skein256, skein512, skein1024])
    (x : List (BitVec 8)) (t0 t1 : BitVec 64) (block : List (BitVec 8)) :
    processCore P x t0 t1 block =
      { t0 := t0, t1 := t1 &&& ~~~T1_FLAG_FIRST, x := ubiStep P.nb x (t1 ++ t0) block } := by
  obtain ⟨h1, h2, _, _⟩ := params_facts hP
  have := CC.Threefish.encrypt_spec (CC.Threefish.good_of_mem h2) .unrolled x t0 t1 block
  simp only [CC.Threefish.Model.encrypt] at this
  simp only [processCore, ubiStep, tw_lo, tw_hi, this, h1]

/-- the `t.1` word for a block of type `ty` -/
def t1Of (ty : Nat) (first final : Bool) : BitVec 64 :=
  BitVec.ofNat 64 (ty * 2 ^ 56 + (if first then 2 ^ 62 else 0) + (if final then 2 ^ 63 else 0))

theorem tweak_eq (pos ty : Nat) (first final : Bool) (hpos : pos < 2 ^ 64) :
    tweak pos ty first final = t1Of ty first final ++ BitVec.ofNat 64 pos := by
  apply BitVec.eq_of_toNat_eq
  simp only [tweak, t1Of, BitVec.toNat_append, BitVec.toNat_ofNat]
  rw [← Nat.shiftLeft_add_eq_or_of_lt (Nat.mod_lt _ (by decide)), Nat.shiftLeft_eq]
  cases first <;> cases final <;> simp only [if_true, if_false, Bool.false_eq_true] <;> omega

theorem processBlock_eq (prof : Profile) {P : Params} (hP : P ∈ [skein256, skein512, skein1024])
    (st : State) (block : List (BitVec 8)) (add pos ty : Nat) (first final : Bool)
    (h0 : st.t0 = BitVec.ofNat 64 pos) (h1 : st.t1 = t1Of ty first final)
    (hty : ty = T_cfg ∨ ty = T_msg ∨ ty = T_out)
    (hov : pos + add < 2 ^ 64) :
    processBlock prof P st block add = .ok
      { t0 := BitVec.ofNat 64 (pos + add), t1 := t1Of ty false final,
        x := ubiStep P.nb st.x (tweak (pos + add) ty first final) block } := by
  have hno : ¬ (prof = .debug ∧ st.t0.toNat + (BitVec.ofNat 64 add).toNat ≥ 2 ^ 64) := by
    rw [h0]; simp only [BitVec.toNat_ofNat]
    intro h
    have := h.2
    omega
  rw [processBlock, if_neg hno, processCore_eq hP, tweak_eq _ _ _ _ hov, h0, h1, ← BitVec.ofNat_add]
  congr 2
  rcases hty with rfl | rfl | rfl <;> cases first <;> cases final <;> decide

/-! ## 3. the lazy loop, finalisation, output -/

/-- the per-block closure passed to `input_lazy` by `update` -/
def updF (prof : Profile) (P : Params) : Out State → List (BitVec 8) → Out State :=
  fun acc block => acc >>= fun st => processBlock prof P st block P.nb

theorem lazy_fold (prof : Profile) {P : Params} (hP : P ∈ [skein256, skein512, skein1024]) (fuel : Nat)
    (st : State) (input : List (BitVec 8)) (pos : Nat) (first : Bool)
    (h0 : st.t0 = BitVec.ofNat 64 pos) (h1 : st.t1 = t1Of T_msg first false)
    (hov : pos + input.length < 2 ^ 64) (hf : input.length ≤ fuel * P.nb + P.nb) :
    ∃ st' rem pos' first', foldChunksLazy P.nb (updF prof P) fuel (.ok st) input = (.ok st', rem) ∧
      rem.length ≤ P.nb ∧ st'.t0 = BitVec.ofNat 64 pos' ∧ st'.t1 = t1Of T_msg first' false ∧
      pos' + rem.length = pos + input.length ∧
      ubiStep P.nb st'.x (tweak (pos' + rem.length) T_msg first' true)
          (rem ++ List.replicate (P.nb - rem.length) 0) = ubiRec P.nb T_msg fuel pos first st.x input := by
  obtain ⟨_, _, hnb, _⟩ := params_facts hP
  induction fuel generalizing st input pos first with
  | zero =>
    exact ⟨st, input, pos, first, rfl, by simpa using hf, h0, h1, rfl, rfl⟩
  | succ fuel ih =>
    rw [foldChunksLazy, ubiRec]
    split
    · rename_i hc
      have hstep := processBlock_eq prof hP st (input.take P.nb) P.nb pos T_msg first false h0 h1
        (Or.inr (Or.inl rfl)) (by omega)
      have hl : (input.drop P.nb).length = input.length - P.nb := List.length_drop
      have : updF prof P (.ok st) (input.take P.nb) = .ok
          { t0 := BitVec.ofNat 64 (pos + P.nb), t1 := t1Of T_msg false false,
            x := ubiStep P.nb st.x (tweak (pos + P.nb) T_msg first false) (input.take P.nb) } := by
        simp only [updF, Out.bind_ok, hstep]
      rw [this]
      obtain ⟨st', rem, pos', first', e1, e2, e3, e4, e5, e6⟩ :=
        ih { t0 := BitVec.ofNat 64 (pos + P.nb), t1 := t1Of T_msg false false,
             x := ubiStep P.nb st.x (tweak (pos + P.nb) T_msg first false) (input.take P.nb) }
          (input.drop P.nb) (pos + P.nb) false rfl rfl (by omega)
          (by rw [hl]; rw [Nat.succ_mul] at hf; omega)
      exact ⟨st', rem, pos', first', e1, e2, e3, e4, by omega, e6⟩
    · rename_i hc
      exact ⟨st, input, pos, first, rfl, by omega, h0, h1, rfl, rfl⟩

theorem inputLazy_init {σ} (nb : Nat) (msg : List (BitVec 8)) (f : σ → List (BitVec 8) → σ) (acc : σ) :
    inputLazy nb (BB.init nb) msg f acc =
      ({ buf := splice (List.replicate nb 0) 0 (foldChunksLazy nb f (msg.length / nb + 1) acc msg).2,
         pos := (foldChunksLazy nb f (msg.length / nb + 1) acc msg).2.length },
       (foldChunksLazy nb f (msg.length / nb + 1) acc msg).1) := by
  simp only [inputLazy, BB.init, Nat.sub_zero, Nat.zero_add]
  split
  · rename_i h
    rw [foldChunksLazy, if_neg (by omega)]
  · simp

theorem padded (nb : Nat) (rem : List (BitVec 8)) :
    zeroFrom (splice (List.replicate nb 0) 0 rem) rem.length = rem ++ List.replicate (nb - rem.length) 0 := by
  simp [zeroFrom, splice, List.length_append]

theorem fuel_ok (len nb : Nat) (hnb : 0 < nb) : len ≤ (len / nb + 1) * nb + nb := by
  have := Nat.div_add_mod len nb
  have hm := Nat.mod_lt len hnb
  rw [Nat.succ_mul, Nat.mul_comm]
  omega


theorem configString_length (b : Nat) : (configString b).length = 32 := by
  simp [configString, toLeBytes]

theorem cfgBlock_eq {P : Params} (hP : P ∈ [skein256, skein512, skein1024]) (n : Nat) :
    cfgBlock P n = configString (8 * n) ++ List.replicate (P.nb - 32) 0 := by
  have e : BitVec.ofNat 64 n * 8 = BitVec.ofNat 64 (8 * n) := by
    rw [Nat.mul_comm, BitVec.ofNat_mul]; rfl
  have e1 : toLe64 SCHEMA_VER = [0x53, 0x48, 0x41, 0x33, 1, 0, 0, 0] := by decide
  have e2 : toLe64 CFG_TREE_INFO_SEQUENTIAL = [0, 0, 0, 0, 0, 0, 0, 0] := by decide
  have e3 : toLeBytes (1 : BitVec 16) 2 = [1, 0] := by decide
  obtain ⟨c0, c1, c2, c3, c4, c5, c6, c7, hc⟩ : ∃ c0 c1 c2 c3 c4 c5 c6 c7,
      toLe64 (BitVec.ofNat 64 (8 * n)) = [c0, c1, c2, c3, c4, c5, c6, c7] := ⟨_, _, _, _, _, _, _, _, rfl⟩
  simp only [cfgBlock, configString, e, CC.Threefish.toLeBytes8_eq, e1, e2, e3, hc]
  simp only [List.mem_cons, List.not_mem_nil, or_false] at hP
  rcases hP with rfl | rfl | rfl <;> rfl

theorem default_eq (prof : Profile) {P : Params} (hP : P ∈ [skein256, skein512, skein1024]) (n : Nat) :
    Model.default prof P n = .ok
      { state := { t0 := 0, t1 := t1Of T_msg true false,
                   x := ubi P.nb (List.replicate P.nb 0) (configString (8 * n)) T_cfg },
        buffer := BB.init P.nb } := by
  obtain ⟨_, _, hnb, _⟩ := params_facts hP
  have hstep := processBlock_eq prof hP
    { t0 := 0, t1 := T1_FLAG_FIRST ||| T1_BLK_TYPE_CFG ||| T1_FLAG_FINAL, x := List.replicate P.nb 0 }
    (cfgBlock P n) CFG_STR_LEN 0 T_cfg true true rfl
    (show (T1_FLAG_FIRST ||| T1_BLK_TYPE_CFG ||| T1_FLAG_FINAL) = t1Of T_cfg true true by decide) (Or.inl rfl) (by decide)
  rw [ubi_eq_ubiFrom, ubiFrom_last _ _ _ _ _ _ (by rw [configString_length]; exact hnb) (by omega),
    configString_length, ← cfgBlock_eq hP]
  simp only [Model.default, hstep, bind, Out.bind]
  rfl

theorem wordsToBytes_length (ws : List (BitVec 64)) : (CC.Threefish.Spec.wordsToBytes ws).length = 8 * ws.length := by
  induction ws with
  | nil => rfl
  | cons w ws ih =>
    simp only [CC.Threefish.Spec.wordsToBytes, List.flatMap_cons, List.length_append, List.length_cons] at ih ⊢
    rw [ih]; simp [toLeBytes]; omega

theorem threefish_length (nw : Nat) (key : List (BitVec 8)) (t0 t1 : BitVec 64) (blk : List (BitVec 8)) :
    (CC.Threefish.Spec.threefish nw key t0 t1 blk).length = 8 * nw := by
  simp [CC.Threefish.Spec.threefish, wordsToBytes_length, CC.Threefish.Spec.encWords]

theorem ubiStep_length {P : Params} (hP : P ∈ [skein256, skein512, skein1024]) (h : List (BitVec 8)) (tw : BitVec 128)
    (m : List (BitVec 8)) (hm : m.length = P.nb) : (ubiStep P.nb h tw m).length = P.nb := by
  simp only [ubiStep, xorBytes, List.length_zipWith, threefish_length, hm]
  simp only [List.mem_cons, List.not_mem_nil, or_false] at hP
  rcases hP with rfl | rfl | rfl <;> decide


theorem foldlM_append_ok {β} (l : List β) (step : List (BitVec 8) → β → Out (List (BitVec 8)))
    (B : β → List (BitVec 8)) (h : ∀ out i, step out i = .ok (out ++ B i)) (init : List (BitVec 8)) :
    l.foldlM step init = .ok (init ++ (l.map B).flatten) := by
  induction l generalizing init with
  | nil => simp [List.foldlM]
  | cons b l ih =>
    simp only [List.foldlM_cons, h, List.map_cons, List.flatten_cons]
    show l.foldlM step (init ++ B b) = _
    rw [ih, List.append_assoc]

theorem flatten_length_const {β} (l : List β) (U : β → List (BitVec 8)) (nb : Nat) (h : ∀ i, (U i).length = nb) :
    ((l.map U).flatten).length = l.length * nb := by
  induction l with
  | nil => simp
  | cons b l ih => simp only [List.map_cons, List.flatten_cons, List.length_append, ih, h, List.length_cons,
      Nat.succ_mul]; omega

theorem truncate_blocks (U : Nat → List (BitVec 8)) (nb n : Nat) (h : ∀ i, (U i).length = nb) (k : Nat) :
    (((List.range k).map U).flatten).take n =
      ((List.range k).map fun i => (U i).take (min nb (n - i * nb))).flatten := by
  induction k with
  | zero => simp
  | succ k ih =>
    simp only [List.range_succ, List.map_append, List.flatten_append, List.map_cons, List.map_nil,
      List.flatten_cons, List.flatten_nil, List.append_nil]
    rw [List.take_append, ih, flatten_length_const _ _ nb h, List.length_range]
    congr 1
    rw [List.take_eq_take_min, h, Nat.min_comm]

theorem ctrBlock_eq (P : Params) (i : Nat) :
    ctrBlock P i = toLeBytes (BitVec.ofNat 64 i) 8 ++ List.replicate (P.nb - (toLeBytes (BitVec.ofNat 64 i) 8).length) 0 := by
  simp [ctrBlock, splice, CC.Threefish.toLeBytes8_eq]

theorem outputLoop_eq (prof : Profile) {P : Params} (hP : P ∈ [skein256, skein512, skein1024])
    (x : List (BitVec 8)) (n : Nat) : outputLoop prof P x n = .ok (output P.nb x n) := by
  obtain ⟨_, _, hnb, _⟩ := params_facts hP
  have hlen8 : ∀ i : Nat, (toLeBytes (BitVec.ofNat 64 i) 8).length = 8 := fun i => by simp [toLeBytes]
  have hU : ∀ i : Nat, ubi P.nb x (toLeBytes (BitVec.ofNat 64 i) 8) T_out =
      ubiStep P.nb x (tweak 8 T_out true true) (ctrBlock P i) := by
    intro i
    rw [ubi_eq_ubiFrom, ubiFrom_last _ _ _ _ _ _ (by rw [hlen8]; omega) (by omega), ctrBlock_eq, hlen8]
  have hUlen : ∀ i : Nat, (ubi P.nb x (toLeBytes (BitVec.ofNat 64 i) 8) T_out).length = P.nb := by
    intro i
    rw [hU]
    apply ubiStep_length hP
    rw [ctrBlock_eq, List.length_append, List.length_replicate, hlen8]; omega
  have hstep : ∀ (out : List (BitVec 8)) (i : Nat),
      (do let ctr ← processBlock prof P
            { t0 := 0, t1 := T1_FLAG_FIRST ||| T1_BLK_TYPE_OUT ||| T1_FLAG_FINAL, x := x } (ctrBlock P i) 8
          pure (out ++ ctr.x.take (min P.nb (n - i * P.nb))) : Out (List (BitVec 8))) =
        .ok (out ++ (ubi P.nb x (toLeBytes (BitVec.ofNat 64 i) 8) T_out).take (min P.nb (n - i * P.nb))) := by
    intro out i
    have := processBlock_eq prof hP
      { t0 := 0, t1 := T1_FLAG_FIRST ||| T1_BLK_TYPE_OUT ||| T1_FLAG_FINAL, x := x } (ctrBlock P i) 8 0 T_out
      true true rfl
      (show (T1_FLAG_FIRST ||| T1_BLK_TYPE_OUT ||| T1_FLAG_FINAL) = t1Of T_out true true by decide)
      (Or.inr (Or.inr rfl)) (by decide)
    rw [this, hU]
    rfl
  rw [outputLoop, foldlM_append_ok _ _ _ hstep, output, truncate_blocks _ P.nb n hUlen]
  rfl

theorem skein_oneshot (prof : Profile) {P : Params} (hP : P ∈ [skein256, skein512, skein1024]) (n : Nat)
    (msg : List (BitVec 8)) (hlen : msg.length < 2 ^ 64) :
    Model.digest prof P n msg = .ok (skein P.nb n msg) := by
  obtain ⟨_, _, hnb, _⟩ := params_facts hP
  have hnb0 : 0 < P.nb := by omega
  obtain ⟨st', rem, pos', first', e1, e2, e3, e4, e5, e6⟩ :=
    lazy_fold prof hP (msg.length / P.nb + 1)
      { t0 := 0, t1 := t1Of T_msg true false,
        x := ubi P.nb (List.replicate P.nb 0) (configString (8 * n)) T_cfg } msg 0 true rfl rfl (by omega)
      (fuel_ok _ _ hnb0)
  have hupd : update prof P
      { state := { t0 := 0, t1 := t1Of T_msg true false,
                   x := ubi P.nb (List.replicate P.nb 0) (configString (8 * n)) T_cfg },
        buffer := BB.init P.nb } msg =
      .ok { state := st', buffer := { buf := splice (List.replicate P.nb 0) 0 rem, pos := rem.length } } := by
    have e1' : foldChunksLazy P.nb
        (fun (acc : Out State) block => acc >>= fun st => processBlock prof P st block P.nb)
        (msg.length / P.nb + 1)
        (Out.ok { t0 := 0, t1 := t1Of T_msg true false,
                  x := ubi P.nb (List.replicate P.nb 0) (configString (8 * n)) T_cfg }) msg = (.ok st', rem) := e1
    simp only [update, inputLazy_init, e1', Out.bind_ok, Out.pure_eq]
  have ht1 : st'.t1 ||| T1_FLAG_FINAL = t1Of T_msg first' true := by
    rw [e4]; cases first' <;> decide
  have hfinal := processBlock_eq prof hP { t0 := st'.t0, t1 := st'.t1 ||| T1_FLAG_FINAL, x := st'.x }
    (zeroFrom (splice (List.replicate P.nb 0) 0 rem) rem.length) rem.length pos' T_msg first' true e3
    ht1 (Or.inr (Or.inl rfl)) (by omega)
  rw [padded, e6, ubiRec_eq_ubiFrom _ _ hnb0 _ _ _ _ _ (fuel_ok _ _ hnb0), ← ubi_eq_ubiFrom] at hfinal
  simp only [Model.digest, default_eq prof hP, Out.bind_ok, hupd, finalize, finalizeIntoDirty, padWithZero,
    if_neg (Nat.not_lt.mpr e2), padded, hfinal, outputLoop_eq prof hP, Out.pure_eq, skein]

end CC.Skein
