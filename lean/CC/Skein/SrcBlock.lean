/-
  CC.Skein.SrcBlock — SOURCE TIE for the `Block<N>` union of hashes/skein/src/lib.rs (property C05): the accessors
  (`as_byte_array`, `as_byte_array_mut`, `as_word_array`, `as_word_array_mut`, `bytes`), `from_byte_array`,
  `Default::default` and `BitXor::bitxor`, regenerated from the Rust on every run by tools/inventory_hashc.py for the
  three state sizes (N = 32, 64, 128 bytes), are what the model (`CC.Skein.Model`: a block is its byte array, `^` is
  `xorBytes`) and the phase-3 glue translation (`Block` ↦ its byte array, `a ^ b` ↦ `xorInto a b`) take them to be:
  the byte views are the identity, the word views are the little-endian re-packing of the same bytes, `default` is
  all zero, and the word-wise xor through the word view is the byte-wise xor.
-/
import CC.Gen.HashCSrc
import CC.Skein.Model
import Std.Tactic.BVDecide
namespace CC.Src
open CC

/-- word `i` of the little-endian word view of a byte array -/
def leWord (b : List (BitVec 8)) (i : Nat) : BitVec 64 := read64le (b.drop (8 * i))

/-- the little-endian word view (`k` words) written back as bytes -/
def leWordsBytes (b : List (BitVec 8)) : Nat → Nat → List (BitVec 8)
  | 0, _ => []
  | k + 1, i => toLe64 (leWord b i) ++ leWordsBytes b k (i + 1)

/-- word-wise xor through the word views, as bytes -/
def xorWords (a b : List (BitVec 8)) : Nat → Nat → List (BitVec 8)
  | 0, _ => []
  | k + 1, i => toLe64 (leWord a i ^^^ leWord b i) ++ xorWords a b k (i + 1)

theorem toLe64_read64le (l : List (BitVec 8)) (h : 8 ≤ l.length) : toLe64 (read64le l) = l.take 8 := by
  match l, h with
  | a0 :: a1 :: a2 :: a3 :: a4 :: a5 :: a6 :: a7 :: t, _ =>
    simp only [toLe64, read64le, le64, List.getD_cons_zero, List.getD_cons_succ, List.take_succ_cons, List.take_zero,
      List.cons.injEq, and_true]
    refine ⟨?_, ?_, ?_, ?_, ?_, ?_, ?_, ?_⟩ <;> bv_decide

theorem toLe64_xor_read64le (a b : List (BitVec 8)) (ha : 8 ≤ a.length) (hb : 8 ≤ b.length) :
    toLe64 (read64le a ^^^ read64le b) = xorBytes (a.take 8) (b.take 8) := by
  match a, ha, b, hb with
  | a0 :: a1 :: a2 :: a3 :: a4 :: a5 :: a6 :: a7 :: ta, _, b0 :: b1 :: b2 :: b3 :: b4 :: b5 :: b6 :: b7 :: tb, _ =>
    simp only [toLe64, read64le, le64, xorBytes, List.getD_cons_zero, List.getD_cons_succ, List.take_succ_cons,
      List.take_zero, List.zipWith_cons_cons, List.zipWith_nil_left, List.cons.injEq, and_true]
    refine ⟨?_, ?_, ?_, ?_, ?_, ?_, ?_, ?_⟩ <;> bv_decide

theorem xorBytes_split (a b : List (BitVec 8)) (n : Nat) :
    xorBytes a b = xorBytes (a.take n) (b.take n) ++ xorBytes (a.drop n) (b.drop n) := by
  unfold xorBytes
  rw [← List.take_zipWith, ← List.drop_zipWith, List.take_append_drop]

theorem leWordsBytes_eq (b : List (BitVec 8)) : ∀ (k i : Nat), 8 * (i + k) ≤ b.length →
    leWordsBytes b k i = (b.drop (8 * i)).take (8 * k)
  | 0, i, _ => by simp [leWordsBytes]
  | k + 1, i, h => by
    have h1 : 8 ≤ (b.drop (8 * i)).length := by rw [List.length_drop]; omega
    rw [leWordsBytes, leWord, toLe64_read64le _ h1, leWordsBytes_eq b k (i + 1) (by omega)]
    have e : 8 * (i + 1) = 8 * i + 8 := by omega
    rw [e, ← List.drop_drop]
    generalize b.drop (8 * i) = l
    have e2 : 8 * (k + 1) = 8 + 8 * k := by omega
    rw [e2, List.take_add]

theorem xorWords_eq (a b : List (BitVec 8)) : ∀ (k i : Nat), 8 * (i + k) ≤ a.length → 8 * (i + k) ≤ b.length →
    xorWords a b k i = xorBytes ((a.drop (8 * i)).take (8 * k)) ((b.drop (8 * i)).take (8 * k))
  | 0, i, _, _ => by simp [xorWords, xorBytes]
  | k + 1, i, ha, hb => by
    have h1 : 8 ≤ (a.drop (8 * i)).length := by rw [List.length_drop]; omega
    have h2 : 8 ≤ (b.drop (8 * i)).length := by rw [List.length_drop]; omega
    rw [xorWords, leWord, leWord, toLe64_xor_read64le _ _ h1 h2, xorWords_eq a b k (i + 1) (by omega) (by omega)]
    have e : 8 * (i + 1) = 8 * i + 8 := by omega
    rw [e, ← List.drop_drop, ← List.drop_drop]
    generalize a.drop (8 * i) = la
    generalize b.drop (8 * i) = lb
    have e2 : 8 * (k + 1) = 8 + 8 * k := by omega
    rw [xorBytes_split (la.take (8 * (k + 1))) (lb.take (8 * (k + 1))) 8, e2]
    simp only [List.take_take, List.drop_take, Nat.add_sub_cancel_left, Nat.min_eq_left (Nat.le_add_right 8 (8 * k))]

/-- the word view written back is the byte array (little-endian re-packing), for a block of `8k` bytes -/
theorem leWordsBytes_block (b : List (BitVec 8)) (k : Nat) (h : b.length = 8 * k) : leWordsBytes b k 0 = b := by
  rw [leWordsBytes_eq b k 0 (by omega)]
  simp only [Nat.mul_zero, List.drop_zero]
  exact List.take_of_length_le (by omega)

/-- word-wise xor through the word views is the byte-wise xor, for blocks of `8k` bytes -/
theorem xorWords_block (a b : List (BitVec 8)) (k : Nat) (ha : a.length = 8 * k) (hb : b.length = 8 * k) :
    xorWords a b k 0 = xorBytes a b := by
  rw [xorWords_eq a b k 0 (by omega) (by omega)]
  simp only [Nat.mul_zero, List.drop_zero]
  rw [List.take_of_length_le (by omega), List.take_of_length_le (by omega)]

theorem xorInto_eq_xorBytes' (a b : List (BitVec 8)) (h : a.length = b.length) :
    Gen.Kernels.xorInto a b = xorBytes a b := by
  simp [Gen.Kernels.xorInto, xorBytes, ← h]

theorem src_skein_hashc_clean : Gen.HashCSrc.skein_hashc_errors = [] := rfl

/-! ## N = 32 bytes (`Skein256`) -/

/-- `as_byte_array(&self) = &self.bytes`: the byte view is the block itself -/
theorem src_skein_block256_as_byte_array : Gen.HashCSrc.skein_block256_as_byte_array = fun b => b := rfl
/-- `as_byte_array_mut(&mut self) = &mut self.bytes` (the view, and the block unchanged) -/
theorem src_skein_block256_as_byte_array_mut : Gen.HashCSrc.skein_block256_as_byte_array_mut = fun b => (b, b) := rfl
/-- `bytes(&mut self) = self.as_byte_array().as_slice()` -/
theorem src_skein_block256_bytes : Gen.HashCSrc.skein_block256_bytes = fun b => (b, b) := rfl
/-- `from_byte_array(block) = Block { bytes: *block }` -/
theorem src_skein_block256_from_byte_array : Gen.HashCSrc.skein_block256_from_byte_array = fun b => b := rfl
/-- `as_word_array(&self) = &self.words`: word `i` is the little-endian reading of bytes `8i … 8i+7` -/
theorem src_skein_block256_as_word_array :
    Gen.HashCSrc.skein_block256_as_word_array = fun b => (leWord b 0, leWord b 1, leWord b 2, leWord b 3) := rfl
theorem src_skein_block256_as_word_array_mut :
    Gen.HashCSrc.skein_block256_as_word_array_mut = fun b => (leWord b 0, leWord b 1, leWord b 2, leWord b 3, b) := rfl
/-- `Default::default() = Block { words: GenericArray::default() }`: 32 zero bytes -/
theorem src_skein_block256_default : Gen.HashCSrc.skein_block256_default = List.replicate 32 0#8 := by decide +kernel
/-- `BitXor::bitxor`: the loop `*s ^= *r` over the word views is the byte-wise xor of the two blocks (what the model
    `processCore` and the glue translation `xorInto` use) -/
theorem src_skein_block256_bitxor (a b : List (BitVec 8)) (ha : a.length = 32) (hb : b.length = 32) :
    Gen.HashCSrc.skein_block256_bitxor a b = xorBytes a b ∧ Gen.HashCSrc.skein_block256_bitxor a b = Gen.Kernels.xorInto a b := by
  have e : Gen.HashCSrc.skein_block256_bitxor a b = xorWords a b 4 0 := rfl
  rw [e, xorWords_block a b 4 ha hb, xorInto_eq_xorBytes' a b (by omega)]
  exact ⟨rfl, rfl⟩

/-! ## N = 64 bytes (`Skein512`) -/

/-- `as_byte_array(&self) = &self.bytes`: the byte view is the block itself -/
theorem src_skein_block512_as_byte_array : Gen.HashCSrc.skein_block512_as_byte_array = fun b => b := rfl
/-- `as_byte_array_mut(&mut self) = &mut self.bytes` (the view, and the block unchanged) -/
theorem src_skein_block512_as_byte_array_mut : Gen.HashCSrc.skein_block512_as_byte_array_mut = fun b => (b, b) := rfl
/-- `bytes(&mut self) = self.as_byte_array().as_slice()` -/
theorem src_skein_block512_bytes : Gen.HashCSrc.skein_block512_bytes = fun b => (b, b) := rfl
/-- `from_byte_array(block) = Block { bytes: *block }` -/
theorem src_skein_block512_from_byte_array : Gen.HashCSrc.skein_block512_from_byte_array = fun b => b := rfl
/-- `as_word_array(&self) = &self.words`: word `i` is the little-endian reading of bytes `8i … 8i+7` -/
theorem src_skein_block512_as_word_array :
    Gen.HashCSrc.skein_block512_as_word_array = fun b => (leWord b 0, leWord b 1, leWord b 2, leWord b 3, leWord b 4, leWord b 5, leWord b 6, leWord b 7) := rfl
theorem src_skein_block512_as_word_array_mut :
    Gen.HashCSrc.skein_block512_as_word_array_mut = fun b => (leWord b 0, leWord b 1, leWord b 2, leWord b 3, leWord b 4, leWord b 5, leWord b 6, leWord b 7, b) := rfl
/-- `Default::default() = Block { words: GenericArray::default() }`: 64 zero bytes -/
theorem src_skein_block512_default : Gen.HashCSrc.skein_block512_default = List.replicate 64 0#8 := by decide +kernel
/-- `BitXor::bitxor`: the loop `*s ^= *r` over the word views is the byte-wise xor of the two blocks (what the model
    `processCore` and the glue translation `xorInto` use) -/
theorem src_skein_block512_bitxor (a b : List (BitVec 8)) (ha : a.length = 64) (hb : b.length = 64) :
    Gen.HashCSrc.skein_block512_bitxor a b = xorBytes a b ∧ Gen.HashCSrc.skein_block512_bitxor a b = Gen.Kernels.xorInto a b := by
  have e : Gen.HashCSrc.skein_block512_bitxor a b = xorWords a b 8 0 := rfl
  rw [e, xorWords_block a b 8 ha hb, xorInto_eq_xorBytes' a b (by omega)]
  exact ⟨rfl, rfl⟩

/-! ## N = 128 bytes (`Skein1024`) -/

/-- `as_byte_array(&self) = &self.bytes`: the byte view is the block itself -/
theorem src_skein_block1024_as_byte_array : Gen.HashCSrc.skein_block1024_as_byte_array = fun b => b := rfl
/-- `as_byte_array_mut(&mut self) = &mut self.bytes` (the view, and the block unchanged) -/
theorem src_skein_block1024_as_byte_array_mut : Gen.HashCSrc.skein_block1024_as_byte_array_mut = fun b => (b, b) := rfl
/-- `bytes(&mut self) = self.as_byte_array().as_slice()` -/
theorem src_skein_block1024_bytes : Gen.HashCSrc.skein_block1024_bytes = fun b => (b, b) := rfl
/-- `from_byte_array(block) = Block { bytes: *block }` -/
theorem src_skein_block1024_from_byte_array : Gen.HashCSrc.skein_block1024_from_byte_array = fun b => b := rfl
/-- `as_word_array(&self) = &self.words`: word `i` is the little-endian reading of bytes `8i … 8i+7` -/
theorem src_skein_block1024_as_word_array :
    Gen.HashCSrc.skein_block1024_as_word_array = fun b => (leWord b 0, leWord b 1, leWord b 2, leWord b 3, leWord b 4, leWord b 5, leWord b 6, leWord b 7, leWord b 8, leWord b 9, leWord b 10, leWord b 11, leWord b 12, leWord b 13, leWord b 14, leWord b 15) := rfl
theorem src_skein_block1024_as_word_array_mut :
    Gen.HashCSrc.skein_block1024_as_word_array_mut = fun b => (leWord b 0, leWord b 1, leWord b 2, leWord b 3, leWord b 4, leWord b 5, leWord b 6, leWord b 7, leWord b 8, leWord b 9, leWord b 10, leWord b 11, leWord b 12, leWord b 13, leWord b 14, leWord b 15, b) := rfl
/-- `Default::default() = Block { words: GenericArray::default() }`: 128 zero bytes -/
theorem src_skein_block1024_default : Gen.HashCSrc.skein_block1024_default = List.replicate 128 0#8 := by decide +kernel
/-- `BitXor::bitxor`: the loop `*s ^= *r` over the word views is the byte-wise xor of the two blocks (what the model
    `processCore` and the glue translation `xorInto` use) -/
theorem src_skein_block1024_bitxor (a b : List (BitVec 8)) (ha : a.length = 128) (hb : b.length = 128) :
    Gen.HashCSrc.skein_block1024_bitxor a b = xorBytes a b ∧ Gen.HashCSrc.skein_block1024_bitxor a b = Gen.Kernels.xorInto a b := by
  have e : Gen.HashCSrc.skein_block1024_bitxor a b = xorWords a b 16 0 := by
    simp only [Gen.HashCSrc.skein_block1024_bitxor, xorWords, leWord, List.append_assoc, List.append_nil,
      Nat.reduceMul, Nat.reduceAdd, List.drop_zero]
  rw [e, xorWords_block a b 16 ha hb, xorInto_eq_xorBytes' a b (by omega)]
  exact ⟨rfl, rfl⟩

/-- the word view is a re-packing of the same bytes: written back little-endian it gives the block -/
theorem src_skein_word_view_roundtrip (b : List (BitVec 8)) (k : Nat) (h : b.length = 8 * k) :
    leWordsBytes b k 0 = b := leWordsBytes_block b k h

end CC.Src
