/-
  CC.Skein.C08 — the Skein model (`CC.Skein.Model`, Skein-256/512/1024 with any output size `N = n`)
  as an instance of the generic incremental hash (`CC.Buffer.OutInstance`, LAZY buffer: the last
  block — even a full one — is held back until more data or finalisation arrives).

  chaining state σ = `State` (`t0`, `t1`, `x`); the byte counter `t0` is bumped INSIDE the block closure
  (`process_block`, checked add in debug builds) — part of `step`, its overflow panic is threaded in
  `Out σ`.  No bound on the message length is assumed.
-/
import CC.Skein.Model
import CC.Buffer.OutHash
namespace CC.Skein.C08
open CC CC.Buffer CC.Skein.Model

section P
variable (prof : Profile) (P : Params) (n : Nat)

/-- the closure of `update`: `|block| process_block(state, block, $state_bytes)`. -/
def step (acc : Out State) (block : List (BitVec 8)) : Out State :=
  acc >>= fun st => processBlock prof P st block P.nb

/-- `finalize_into_dirty` as a function of the chaining state and the live bytes only. -/
def fin (st : State) (live : List (BitVec 8)) : Out (List (BitVec 8)) :=
  processBlock prof P { st with t1 := st.t1 ||| T1_FLAG_FINAL }
      (live ++ List.replicate (P.nb - live.length) 0#8) live.length >>= fun st' =>
    outputLoop prof P st'.x n

/-- the chaining state left by `Default::default()` (the configuration block has been processed). -/
def init0 : State :=
  { processCore P (List.replicate P.nb 0) (0#64 + BitVec.ofNat 64 CFG_STR_LEN)
      (T1_FLAG_FIRST ||| T1_BLK_TYPE_CFG ||| T1_FLAG_FINAL) (cfgBlock P n) with
    t0 := 0, t1 := T1_FLAG_FIRST ||| T1_BLK_TYPE_MSG }

theorem default_eq : Model.default prof P n = .ok { state := init0 P n, buffer := BB.init P.nb } := by
  simp only [Model.default, processBlock]
  rw [if_neg]
  · rfl
  · intro h; have := h.2; simp [CFG_STR_LEN] at this

def H (hb : 0 < P.nb) : IncHash (Out State) (Out (List (BitVec 8))) where
  b := P.nb
  hb := hb
  init := .ok (init0 P n)
  step := step prof P
  fin := fun x live => x >>= fun st => fin prof P n st live

def pack (st : State) (bb : BB) : Hasher := { state := st, buffer := bb }

theorem finalize_eq (st : State) (bb : BB) (hwf : WFL P.nb bb) :
    Model.finalize prof P n (pack st bb) = fin prof P n st (live bb) := by
  obtain ⟨h₁, -⟩ := padWithZero_spec hwf
  have hl : (live bb).length = bb.pos := length_live hwf
  unfold Model.finalize finalizeIntoDirty fin
  simp only [pack, h₁, hl]
  cases processBlock prof P { t0 := st.t0, t1 := st.t1 ||| T1_FLAG_FINAL, x := st.x }
      (live bb ++ List.replicate (P.nb - bb.pos) 0#8) bb.pos with
  | ok st' =>
    simp only [Out.bind_ok]
    cases outputLoop prof P st'.x n <;> rfl
  | err => rfl
  | panic w => rfl

/-- Skein with parameters `P` (state size) and output size `n` bytes as an instance. -/
def inst (hb : 0 < P.nb) : OutInstance .lazy Hasher State (List (BitVec 8)) where
  H := H prof P n hb
  init0 := init0 P n
  init_eq := rfl
  step_err := fun _ => rfl
  step_panic := fun _ _ => rfl
  pre_err := fun _ => rfl
  pre_panic := fun _ _ => rfl
  fin_err := fun _ => rfl
  fin_panic := fun _ _ => rfl
  start := Model.default prof P n
  update := Model.update prof P
  finalize := Model.finalize prof P n
  reset := Model.reset prof P n
  finreset := Model.finalizeReset prof P n
  pack := pack
  start_eq := default_eq prof P n
  update_eq := fun _ _ _ => rfl
  finalize_eq := fun st bb hwf => finalize_eq prof P n st bb hwf
  reset_eq := fun _ _ => rfl
  finreset_eq := by
    intro st bb
    unfold Model.finalizeReset Model.finalize Model.reset
    cases finalizeIntoDirty prof P n (pack st bb) <;> rfl

end P

def inst256 (prof : Profile) (n : Nat) := inst prof skein256 n (show 0 < 32 by decide)
def inst512 (prof : Profile) (n : Nat) := inst prof skein512 n (show 0 < 64 by decide)
def inst1024 (prof : Profile) (n : Nat) := inst prof skein1024 n (show 0 < 128 by decide)

end CC.Skein.C08
