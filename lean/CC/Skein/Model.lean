/-
  CC.Skein.Model — implementation-shaped model of /repo/hashes/skein/src/lib.rs (`define_hasher!`).

    * hasher = (`state.x` as bytes, `state.t : (u64, u64)`, `buffer : BlockBuffer<$state_bytes>`);
      the `Block` union is a byte array viewed as words only for `^` (XOR is endian-agnostic: bytewise);
    * `process_block`: `state.t.0 += byte_count_add as u64` is a checked add — overflow panics where
      rustc inserts overflow checks (`Profile.debug`) and wraps otherwise; the remaining statements
      cannot panic.  A panic inside the `input_lazy` closure aborts the whole call (`Out.panic`);
    * `Default`, `update` (`input_lazy`), `finalize_into_dirty` (`pad_with::<ZeroPadding>().unwrap()`,
      output loop over `output.chunks_mut(state_bytes)`), `Reset`, and digest 0.9's
      `finalize_into_reset = finalize_into_dirty; reset`;
    * the verification hooks `verif_set_byte_count`, `verif_get_state`.
  The Threefish calls use the default (`unroll8!` unrolled) shape; `CC.Thm.C09.unroll_eq_loop` shows the
  `no_unroll` build computes the same function.  Import-free of proof libraries (links into the driver).
-/
import CC.Prim
import CC.Buffer.BlockBuffer
import CC.Threefish.Model
namespace CC.Skein.Model
open CC CC.Buffer

def VERSION : BitVec 64 := 1
def ID_STRING_LE : BitVec 64 := 0x33414853#64
def SCHEMA_VER : BitVec 64 := (VERSION <<< 32) ||| ID_STRING_LE
def CFG_TREE_INFO_SEQUENTIAL : BitVec 64 := 0
def T1_FLAG_FIRST : BitVec 64 := 1#64 <<< 62
def T1_FLAG_FINAL : BitVec 64 := 1#64 <<< 63
def T1_BLK_TYPE_CFG : BitVec 64 := 4#64 <<< 56
def T1_BLK_TYPE_MSG : BitVec 64 := 48#64 <<< 56
def T1_BLK_TYPE_OUT : BitVec 64 := 63#64 <<< 56
def CFG_STR_LEN : Nat := 4 * 8

/-- `define_hasher!($name, $threefish, $state_bytes, $state_bits)` -/
structure Params where
  nb : Nat                                -- `$state_bytes` = `$state_bits / 8`
  tf : CC.Threefish.Model.Params          -- `$threefish`

def skein256 : Params := { nb := 32, tf := CC.Threefish.Model.tf256 }
def skein512 : Params := { nb := 64, tf := CC.Threefish.Model.tf512 }
def skein1024 : Params := { nb := 128, tf := CC.Threefish.Model.tf1024 }

/-- `State<Block<$state_bytes>>` -/
structure State where
  t0 : BitVec 64
  t1 : BitVec 64
  x : List (BitVec 8)
  deriving DecidableEq, Repr

/-- `$name<N>` -/
structure Hasher where
  state : State
  buffer : BB
  deriving DecidableEq, Repr

/-- `process_block` after the counter update (cannot panic). -/
def processCore (P : Params) (x : List (BitVec 8)) (t0 t1 : BitVec 64) (block : List (BitVec 8)) : State :=
  let sk := CC.Threefish.Model.withTweak P.tf x t0 t1            -- `$threefish::with_tweak(state.x, t.0, t.1)`
  let e := CC.Threefish.Model.encryptBlock .unrolled P.tf sk block -- `x = block.clone(); fish.encrypt_block(x)`
  { t0 := t0, t1 := t1 &&& ~~~T1_FLAG_FIRST, x := xorBytes e block }   -- `state.x = x ^ block; t.1 &= !FIRST`

/-- `process_block(state, block, byte_count_add)` -/
def processBlock (prof : Profile) (P : Params) (st : State) (block : List (BitVec 8)) (byteCountAdd : Nat) :
    Out State :=
  let a := BitVec.ofNat 64 byteCountAdd                           -- `byte_count_add as u64`
  if prof = .debug ∧ st.t0.toNat + a.toNat ≥ 2 ^ 64 then .panic "attempt to add with overflow"
  else .ok (processCore P st.x (st.t0 + a) st.t1 block)

/-- The configuration block built in `Default::default`. -/
def cfgBlock (P : Params) (n : Nat) : List (BitVec 8) :=
  let cfg := List.replicate P.nb (0 : BitVec 8)
  let cfg := splice cfg 0 (toLe64 SCHEMA_VER)
  let cfg := splice cfg 8 (toLe64 (BitVec.ofNat 64 n * 8))     -- `N::to_u64() * 8`
  let cfg := splice cfg 16 (toLe64 CFG_TREE_INFO_SEQUENTIAL)
  cfg

/-- `Default::default()` for output size `N = n` bytes. -/
def default (prof : Profile) (P : Params) (n : Nat) : Out Hasher := do
  let state : State :=
    { t0 := 0, t1 := T1_FLAG_FIRST ||| T1_BLK_TYPE_CFG ||| T1_FLAG_FINAL, x := List.replicate P.nb 0 }
  let state ← processBlock prof P state (cfgBlock P n) CFG_STR_LEN
  -- `state.t = Default::default(); state.t.1 = FIRST | MSG`
  pure { state := { state with t0 := 0, t1 := T1_FLAG_FIRST ||| T1_BLK_TYPE_MSG }, buffer := BB.init P.nb }

/-- `Update::update` -/
def update (prof : Profile) (P : Params) (h : Hasher) (data : List (BitVec 8)) : Out Hasher :=
  let (bb, acc) := inputLazy P.nb h.buffer data
    (fun (acc : Out State) block => acc >>= fun st => processBlock prof P st block P.nb) (.ok h.state)
  acc >>= fun st => pure { state := st, buffer := bb }

/-- The counter block of output chunk `i`. -/
def ctrBlock (P : Params) (i : Nat) : List (BitVec 8) :=
  splice (List.replicate P.nb (0 : BitVec 8)) 0 (toLe64 (BitVec.ofNat 64 i))

/-- The output loop `for (i, chunk) in output.chunks_mut(nb).enumerate()` for `n` output bytes. -/
def outputLoop (prof : Profile) (P : Params) (x : List (BitVec 8)) (n : Nat) : Out (List (BitVec 8)) :=
  (List.range ((n + P.nb - 1) / P.nb)).foldlM (fun out i => do
    let ctr : State := { t0 := 0, t1 := T1_FLAG_FIRST ||| T1_BLK_TYPE_OUT ||| T1_FLAG_FINAL, x := x }
    let ctr ← processBlock prof P ctr (ctrBlock P i) 8
    let len := min P.nb (n - i * P.nb)                              -- `chunk.len()`
    pure (out ++ ctr.x.take len)) []

/-- `FixedOutputDirty::finalize_into_dirty` with `N = n`: the mutated hasher and the output. -/
def finalizeIntoDirty (prof : Profile) (P : Params) (n : Nat) (h : Hasher) : Out (Hasher × List (BitVec 8)) := do
  let st := { h.state with t1 := h.state.t1 ||| T1_FLAG_FINAL }
  let pos := h.buffer.pos
  match padWithZero P.nb h.buffer with
  | none => .panic "called `Result::unwrap()` on an `Err` value: PadError"
  | some (bb, finalBlock) =>
    let st ← processBlock prof P st finalBlock pos
    let out ← outputLoop prof P st.x n
    pure ({ state := st, buffer := bb }, out)

/-- Non-destructive finalisation (`self.clone().finalize()`). -/
def finalize (prof : Profile) (P : Params) (n : Nat) (h : Hasher) : Out (List (BitVec 8)) :=
  finalizeIntoDirty prof P n h >>= fun r => pure r.2

/-- `Reset::reset`: `*self = Self::default()` -/
def reset (prof : Profile) (P : Params) (n : Nat) (_h : Hasher) : Out Hasher := default prof P n

/-- digest 0.9 `finalize_into_reset`: `finalize_into_dirty(out); reset()` -/
def finalizeReset (prof : Profile) (P : Params) (n : Nat) (h : Hasher) : Out (Hasher × List (BitVec 8)) := do
  let r ← finalizeIntoDirty prof P n h
  let h' ← reset prof P n r.1
  pure (h', r.2)

/-- `verif_set_byte_count` -/
def setByteCount (h : Hasher) (n : BitVec 64) : Hasher := { h with state := { h.state with t0 := n } }

/-- `verif_get_state` -/
def getState (h : Hasher) : List (BitVec 8) × (BitVec 64 × BitVec 64) := (h.state.x, (h.state.t0, h.state.t1))

/-- One-shot digest: `let mut h = Default::default(); h.update(msg); h.finalize()` -/
def digest (prof : Profile) (P : Params) (n : Nat) (msg : List (BitVec 8)) : Out (List (BitVec 8)) := do
  let h ← default prof P n
  let h ← update prof P h msg
  finalize prof P n h

end CC.Skein.Model
