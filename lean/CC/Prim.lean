/-
  CC.Prim — shared vocabulary: outcome monad, byte/word conversions, hex, test patterns.
  Import-free (core Lean only) so that the driver executable links.
  NOTE: no `abbrev` aliases for BitVec types (they defeat `bv_decide`/`omega`).
-/
namespace CC

/-- Outcome of a modelled Rust call: value, `Err(..)`, or panic (with a reason for diagnostics). -/
inductive Out (α : Type) where
  | ok (a : α)
  | err
  | panic (why : String)
  deriving Repr

namespace Out
def bind {α β} (x : Out α) (f : α → Out β) : Out β :=
  match x with
  | ok a => f a
  | err => err
  | panic w => panic w
instance : Monad Out where
  pure := ok
  bind := bind
def isOk {α} : Out α → Bool
  | ok _ => true
  | _ => false
def isPanic {α} : Out α → Bool
  | panic _ => true
  | _ => false
@[simp] theorem bind_ok {α β} (a : α) (f : α → Out β) : (ok a >>= f) = f a := rfl
@[simp] theorem pure_eq {α} (a : α) : (pure a : Out α) = ok a := rfl
end Out

/-- Build profile: rustc inserts overflow checks (and `debug_assert!`) in `debug` only. -/
inductive Profile where
  | debug
  | release
  deriving DecidableEq, Repr

/-! ## bytes <-> words -/

def le32 (b0 b1 b2 b3 : BitVec 8) : BitVec 32 := b3 ++ b2 ++ b1 ++ b0
def be32 (b0 b1 b2 b3 : BitVec 8) : BitVec 32 := b0 ++ b1 ++ b2 ++ b3

def toLe32 (w : BitVec 32) : List (BitVec 8) :=
  [w.extractLsb' 0 8, w.extractLsb' 8 8, w.extractLsb' 16 8, w.extractLsb' 24 8]
def toBe32 (w : BitVec 32) : List (BitVec 8) :=
  [w.extractLsb' 24 8, w.extractLsb' 16 8, w.extractLsb' 8 8, w.extractLsb' 0 8]

def le64 (b0 b1 b2 b3 b4 b5 b6 b7 : BitVec 8) : BitVec 64 :=
  b7 ++ b6 ++ b5 ++ b4 ++ b3 ++ b2 ++ b1 ++ b0
def be64 (b0 b1 b2 b3 b4 b5 b6 b7 : BitVec 8) : BitVec 64 :=
  b0 ++ b1 ++ b2 ++ b3 ++ b4 ++ b5 ++ b6 ++ b7

def toLe64 (w : BitVec 64) : List (BitVec 8) :=
  [w.extractLsb' 0 8, w.extractLsb' 8 8, w.extractLsb' 16 8, w.extractLsb' 24 8,
   w.extractLsb' 32 8, w.extractLsb' 40 8, w.extractLsb' 48 8, w.extractLsb' 56 8]
def toBe64 (w : BitVec 64) : List (BitVec 8) := (toLe64 w).reverse

/-- Little-endian read of `n` bytes as a number (generic, `Nat`-valued). -/
def leNat : List (BitVec 8) → Nat
  | [] => 0
  | b :: bs => b.toNat + 256 * leNat bs

/-- Little-endian word of width `w` from a byte list (missing bytes are zero, extra ignored by truncation). -/
def ofLeBytes (w : Nat) (bs : List (BitVec 8)) : BitVec w :=
  bs.foldr (fun b acc => (acc <<< 8) ||| b.setWidth w) 0
def ofBeBytes (w : Nat) (bs : List (BitVec 8)) : BitVec w := ofLeBytes w bs.reverse

/-- `n` little-endian bytes of `x`. -/
def toLeBytes {w : Nat} (x : BitVec w) (n : Nat) : List (BitVec 8) :=
  (List.range n).map fun i => (x >>> (8 * i)).setWidth 8
def toBeBytes {w : Nat} (x : BitVec w) (n : Nat) : List (BitVec 8) := (toLeBytes x n).reverse

def read32le (bs : List (BitVec 8)) : BitVec 32 :=
  le32 (bs.getD 0 0) (bs.getD 1 0) (bs.getD 2 0) (bs.getD 3 0)
def read32be (bs : List (BitVec 8)) : BitVec 32 :=
  be32 (bs.getD 0 0) (bs.getD 1 0) (bs.getD 2 0) (bs.getD 3 0)
def read64le (bs : List (BitVec 8)) : BitVec 64 :=
  le64 (bs.getD 0 0) (bs.getD 1 0) (bs.getD 2 0) (bs.getD 3 0)
       (bs.getD 4 0) (bs.getD 5 0) (bs.getD 6 0) (bs.getD 7 0)
def read64be (bs : List (BitVec 8)) : BitVec 64 :=
  be64 (bs.getD 0 0) (bs.getD 1 0) (bs.getD 2 0) (bs.getD 3 0)
       (bs.getD 4 0) (bs.getD 5 0) (bs.getD 6 0) (bs.getD 7 0)

/-- fuel-bounded worker for `chunks` (structural recursion, so it evaluates under `decide`/`rfl`);
    any `fuel ≥ xs.length` is enough. -/
def chunksAux {α} (n : Nat) : Nat → List α → List (List α)
  | 0, _ => []
  | _ + 1, [] => []
  | fuel + 1, x :: xs => (x :: xs).take n :: chunksAux n fuel ((x :: xs).drop n)

/-- Split a list into chunks of `n` (last chunk may be short); `n = 0` yields `[]`. -/
def chunks {α} (n : Nat) (xs : List α) : List (List α) :=
  if n = 0 then [] else chunksAux n xs.length xs

theorem chunksAux_fuel {α} {n : Nat} (hn : n ≠ 0) :
    ∀ (fuel₁ fuel₂ : Nat) (xs : List α), xs.length ≤ fuel₁ → xs.length ≤ fuel₂ →
      chunksAux n fuel₁ xs = chunksAux n fuel₂ xs := by
  intro fuel₁
  induction fuel₁ with
  | zero =>
    intro fuel₂ xs h₁ _
    have : xs = [] := List.eq_nil_of_length_eq_zero (Nat.le_zero.mp h₁)
    subst this
    cases fuel₂ <;> rfl
  | succ fuel₁ ih =>
    intro fuel₂ xs h₁ h₂
    cases xs with
    | nil => cases fuel₂ <;> rfl
    | cons x xs =>
      cases fuel₂ with
      | zero => simp at h₂
      | succ fuel₂ =>
        simp only [chunksAux]
        have hl : ((x :: xs).drop n).length ≤ xs.length := by
          simp only [List.length_drop, List.length_cons]; omega
        simp only [List.length_cons] at h₁ h₂
        rw [ih fuel₂ _ (by omega) (by omega)]

@[simp] theorem chunks_zero {α} (xs : List α) : chunks 0 xs = [] := by simp [chunks]

@[simp] theorem chunks_nil {α} (n : Nat) : chunks n ([] : List α) = [] := by
  simp [chunks, chunksAux]

/-- the defining equation of `chunks`. -/
theorem chunks_of_ne_nil {α} {n : Nat} (hn : n ≠ 0) {xs : List α} (hxs : xs ≠ []) :
    chunks n xs = xs.take n :: chunks n (xs.drop n) := by
  cases xs with
  | nil => exact absurd rfl hxs
  | cons x xs =>
    simp only [chunks, hn, if_false, List.length_cons, chunksAux]
    rw [chunksAux_fuel hn xs.length ((x :: xs).drop n).length _
      (by simp only [List.length_drop, List.length_cons]; omega) (Nat.le_refl _)]

def xorBytes (a b : List (BitVec 8)) : List (BitVec 8) := List.zipWith (· ^^^ ·) a b

/-! ## hex -/

def hexDigit (n : Nat) : Char :=
  if n < 10 then Char.ofNat (48 + n) else Char.ofNat (87 + n)

def hexOfBytes (bs : List (BitVec 8)) : String :=
  String.ofList (bs.foldr (fun b acc => hexDigit (b.toNat / 16) :: hexDigit (b.toNat % 16) :: acc) [])

def hexVal (c : Char) : Option Nat :=
  if '0' ≤ c ∧ c ≤ '9' then some (c.toNat - 48)
  else if 'a' ≤ c ∧ c ≤ 'f' then some (c.toNat - 87)
  else if 'A' ≤ c ∧ c ≤ 'F' then some (c.toNat - 55)
  else none

def bytesOfHexChars : List Char → Option (List (BitVec 8))
  | [] => some []
  | [_] => none
  | a :: b :: rest => do
    let x ← hexVal a
    let y ← hexVal b
    let r ← bytesOfHexChars rest
    pure (BitVec.ofNat 8 (16 * x + y) :: r)

/-- "-" denotes the empty byte string. -/
def bytesOfHex (s : String) : Option (List (BitVec 8)) :=
  if s == "-" then some [] else bytesOfHexChars s.toList

def hexOrDash (bs : List (BitVec 8)) : String :=
  if bs.isEmpty then "-" else hexOfBytes bs

def hexOfWord {w : Nat} (x : BitVec w) : String := hexOfBytes (toBeBytes x (w / 8))

def wordOfHex (w : Nat) (s : String) : Option (BitVec w) :=
  (bytesOfHex s).map (ofBeBytes w)

/-- Deterministic test pattern shared with the Rust harness (`pat(seed, i)`). -/
def patByte (seed i : Nat) : BitVec 8 :=
  let x := (seed * 2654435761 + i * 2246822519 + 374761393) % 4294967296
  let y := (x ^^^ (x >>> 15)) % 4294967296
  let z := (y * 2246822519) % 4294967296
  BitVec.ofNat 8 ((z ^^^ (z >>> 13)) % 256)

def patBytes (seed n : Nat) : List (BitVec 8) := (List.range n).map (patByte seed)

end CC
