/-
  CC.Drv.Null — line-protocol handler for `null <type> <method> <operands…>` (property C19).

  Operands: a vector is ONE token, its lanes as big-endian hex words of the full lane width joined by `,`
  (lane 0 = tuple field `.0` first); a slice likewise (`-` = empty slice); scalars (`u32`/`u64`/`u128` words)
  as hex; rotation amounts and indices in decimal.  Result: the lanes (or slice elements) as hex, space
  separated (`-` for an empty slice); `panic` when the model panics.
  `rotate_right` of the vec4 types prints `*self` afterwards followed by the returned vector (8 lanes).
-/
import CC.Drv.Common
import CC.Null.Model
namespace CC.Drv.Null
open CC CC.Drv CC.Null

def parseWords (w : Nat) (s : String) : Option (List (BitVec w)) :=
  if s == "-" then some [] else
  (s.splitOn ",").mapM (fun t => if t.length == w / 4 then wordOfHex w t else none)

def showWords {w : Nat} (xs : List (BitVec w)) : String :=
  if xs.isEmpty then "-" else " ".intercalate (xs.map hexOfWord)

def dec (w : Nat) (s : String) : Option (BitVec w) :=
  match s.toNat? with
  | some n => if n < 2 ^ w then some (BitVec.ofNat w n) else none
  | none => none

def word (w : Nat) (s : String) : Option (BitVec w) :=
  if s.length == w / 4 then wordOfHex w s else none

def pV1 (s : String) : Option U128x1 :=
  match parseWords 128 s with | some [a] => some ⟨a⟩ | _ => none
def pV2 (s : String) : Option U128x2 :=
  match parseWords 128 s with | some [a, b] => some ⟨a, b⟩ | _ => none
def pV32 (s : String) : Option U32x4 :=
  match parseWords 32 s with | some [a, b, c, d] => some ⟨a, b, c, d⟩ | _ => none
def pV64 (s : String) : Option U64x4 :=
  match parseWords 64 s with | some [a, b, c, d] => some ⟨a, b, c, d⟩ | _ => none
def pV16 (s : String) : Option U32x4x4 :=
  match parseWords 32 s with
  | some [a0, a1, a2, a3, b0, b1, b2, b3, c0, c1, c2, c3, d0, d1, d2, d3] =>
    some ⟨⟨a0, a1, a2, a3⟩, ⟨b0, b1, b2, b3⟩, ⟨c0, c1, c2, c3⟩, ⟨d0, d1, d2, d3⟩⟩
  | _ => none

def l1 (v : U128x1) : List (BitVec 128) := [v.a]
def l2 (v : U128x2) : List (BitVec 128) := [v.a, v.b]
def l32 (v : U32x4) : List (BitVec 32) := [v.a, v.b, v.c, v.d]
def l64 (v : U64x4) : List (BitVec 64) := [v.a, v.b, v.c, v.d]
def l16 (v : U32x4x4) : List (BitVec 32) := l32 v.a ++ l32 v.b ++ l32 v.c ++ l32 v.d

def s1 (v : U128x1) : String := showWords (l1 v)
def s2 (v : U128x2) : String := showWords (l2 v)
def s32 (v : U32x4) : String := showWords (l32 v)
def s64 (v : U64x4) : String := showWords (l64 v)
def s16 (v : U32x4x4) : String := showWords (l16 v)

/-- apply an optional result, `bad-op` when an operand failed to parse -/
def orBad : Option String → String
  | some s => s
  | none => "bad-op"

def stepU128x1 (p : Profile) : List String → String
  | ["new", a] => orBad do let a ← word 128 a; pure (s1 (U128x1.new a))
  | ["clone", v] => orBad do let v ← pV1 v; pure (s1 v.clone)
  | ["rotate_right", v, i] => orBad do let v ← pV1 v; let i ← dec 128 i; pure (s1 (v.rotate_right i))
  | ["load", xs] => orBad do let xs ← parseWords 128 xs; pure (outStr s1 (U128x1.load p xs))
  | ["xor_store", v, xs] => orBad do
      let v ← pV1 v; let xs ← parseWords 128 xs; pure (outStr showWords (v.xor_store p xs))
  | ["into_inner", v] => orBad do let v ← pV1 v; pure (hexOfWord v.into_inner)
  | ["swap1", v] => orBad do let v ← pV1 v; pure (outStr s1 (v.swap1 p))
  | ["swap2", v] => orBad do let v ← pV1 v; pure (outStr s1 (v.swap2 p))
  | ["swap4", v] => orBad do let v ← pV1 v; pure (outStr s1 (v.swap4 p))
  | ["swap8", v] => orBad do let v ← pV1 v; pure (outStr s1 (v.swap8 p))
  | ["swap16", v] => orBad do let v ← pV1 v; pure (outStr s1 (v.swap16 p))
  | ["swap32", v] => orBad do let v ← pV1 v; pure (outStr s1 (v.swap32 p))
  | ["swap64", v] => orBad do let v ← pV1 v; pure (outStr s1 (v.swap64 p))
  | ["andnot", v, r] => orBad do let v ← pV1 v; let r ← pV1 r; pure (s1 (v.andnot r))
  | ["extract", v, i] => orBad do let v ← pV1 v; let i ← dec 32 i; pure (outStr hexOfWord (v.extract p i))
  | ["add_assign", v, r] => orBad do let v ← pV1 v; let r ← pV1 r; pure (s1 (v.add_assign r))
  | ["bitxor_assign", v, r] => orBad do let v ← pV1 v; let r ← pV1 r; pure (s1 (v.bitxor_assign r))
  | ["bitxor", v, r] => orBad do let v ← pV1 v; let r ← pV1 r; pure (s1 (v.bitxor r))
  | ["bitand", v, r] => orBad do let v ← pV1 v; let r ← pV1 r; pure (s1 (v.bitand r))
  | ["not", v] => orBad do let v ← pV1 v; pure (s1 v.not)
  | _ => "bad-op"

def stepU128x2 (p : Profile) : List String → String
  | ["new", a, b] => orBad do let a ← word 128 a; let b ← word 128 b; pure (s2 (U128x2.new a b))
  | ["clone", v] => orBad do let v ← pV2 v; pure (s2 v.clone)
  | ["rotate_right", v, i] => orBad do let v ← pV2 v; let i ← dec 128 i; pure (s2 (v.rotate_right i))
  | ["load", xs] => orBad do let xs ← parseWords 128 xs; pure (outStr s2 (U128x2.load p xs))
  | ["xor_store", v, xs] => orBad do
      let v ← pV2 v; let xs ← parseWords 128 xs; pure (outStr showWords (v.xor_store p xs))
  | ["extract", v, i] => orBad do let v ← pV2 v; let i ← dec 32 i; pure (outStr hexOfWord (v.extract i))
  | ["andnot", v, r] => orBad do let v ← pV2 v; let r ← pV2 r; pure (s2 (v.andnot r))
  | ["add_assign", v, r] => orBad do let v ← pV2 v; let r ← pV2 r; pure (s2 (v.add_assign r))
  | ["bitxor_assign", v, r] => orBad do let v ← pV2 v; let r ← pV2 r; pure (s2 (v.bitxor_assign r))
  | ["bitand", v, r] => orBad do let v ← pV2 v; let r ← pV2 r; pure (s2 (v.bitand r))
  | ["bitor", v, r] => orBad do let v ← pV2 v; let r ← pV2 r; pure (s2 (v.bitor r))
  | ["not", v] => orBad do let v ← pV2 v; pure (s2 v.not)
  | _ => "bad-op"

def stepU32x4 (p : Profile) : List String → String
  | ["new", a, b, c, d] => orBad do
      let a ← word 32 a; let b ← word 32 b; let c ← word 32 c; let d ← word 32 d
      pure (s32 (U32x4.new a b c d))
  | ["clone", v] => orBad do let v ← pV32 v; pure (s32 v.clone)
  | ["rotate_right", v, ii] => orBad do
      let v ← pV32 v; let ii ← pV32 ii
      let r := v.rotate_right ii
      pure (s32 r.1 ++ " " ++ s32 r.2)
  | ["from_slice_unaligned", xs] => orBad do
      let xs ← parseWords 32 xs; pure (outStr s32 (U32x4.from_slice_unaligned p xs))
  | ["splat", x] => orBad do let x ← word 32 x; pure (s32 (U32x4.splat x))
  | ["write_to_slice_unaligned", v, xs] => orBad do
      let v ← pV32 v; let xs ← parseWords 32 xs; pure (outStr showWords (v.write_to_slice_unaligned p xs))
  | ["replace", v, i, x] => orBad do
      let v ← pV32 v; let i ← dec 64 i; let x ← word 32 x; pure (outStr s32 (v.replace i x))
  | ["extract", v, i] => orBad do let v ← pV32 v; let i ← dec 64 i; pure (outStr hexOfWord (v.extract i))
  | ["add_assign", v, r] => orBad do let v ← pV32 v; let r ← pV32 r; pure (s32 (v.add_assign r))
  | ["bitxor_assign", v, r] => orBad do let v ← pV32 v; let r ← pV32 r; pure (s32 (v.bitxor_assign r))
  | ["add", v, r] => orBad do let v ← pV32 v; let r ← pV32 r; pure (s32 (v.add r))
  | ["bitxor", v, r] => orBad do let v ← pV32 v; let r ← pV32 r; pure (s32 (v.bitxor r))
  | ["bitor", v, r] => orBad do let v ← pV32 v; let r ← pV32 r; pure (s32 (v.bitor r))
  | ["bitand", v, r] => orBad do let v ← pV32 v; let r ← pV32 r; pure (s32 (v.bitand r))
  | ["rotate_words_right", v, i] => orBad do
      let v ← pV32 v; let i ← dec 32 i; pure (outStr s32 (v.rotate_words_right p i))
  | ["splat_rotate_right", v, i] => orBad do
      let v ← pV32 v; let i ← dec 32 i; pure (outStr s32 (v.splat_rotate_right p i))
  | _ => "bad-op"

def stepU64x4 (p : Profile) : List String → String
  | ["new", a, b, c, d] => orBad do
      let a ← word 64 a; let b ← word 64 b; let c ← word 64 c; let d ← word 64 d
      pure (s64 (U64x4.new a b c d))
  | ["clone", v] => orBad do let v ← pV64 v; pure (s64 v.clone)
  | ["rotate_right", v, ii] => orBad do
      let v ← pV64 v; let ii ← pV64 ii
      let r := v.rotate_right ii
      pure (s64 r.1 ++ " " ++ s64 r.2)
  | ["from_slice_unaligned", xs] => orBad do
      let xs ← parseWords 64 xs; pure (outStr s64 (U64x4.from_slice_unaligned p xs))
  | ["splat", x] => orBad do let x ← word 64 x; pure (s64 (U64x4.splat x))
  | ["write_to_slice_unaligned", v, xs] => orBad do
      let v ← pV64 v; let xs ← parseWords 64 xs; pure (outStr showWords (v.write_to_slice_unaligned p xs))
  | ["replace", v, i, x] => orBad do
      let v ← pV64 v; let i ← dec 64 i; let x ← word 64 x; pure (outStr s64 (v.replace i x))
  | ["extract", v, i] => orBad do let v ← pV64 v; let i ← dec 64 i; pure (outStr hexOfWord (v.extract i))
  | ["add_assign", v, r] => orBad do let v ← pV64 v; let r ← pV64 r; pure (s64 (v.add_assign r))
  | ["bitxor_assign", v, r] => orBad do let v ← pV64 v; let r ← pV64 r; pure (s64 (v.bitxor_assign r))
  | ["add", v, r] => orBad do let v ← pV64 v; let r ← pV64 r; pure (s64 (v.add r))
  | ["bitxor", v, r] => orBad do let v ← pV64 v; let r ← pV64 r; pure (s64 (v.bitxor r))
  | ["bitor", v, r] => orBad do let v ← pV64 v; let r ← pV64 r; pure (s64 (v.bitor r))
  | ["bitand", v, r] => orBad do let v ← pV64 v; let r ← pV64 r; pure (s64 (v.bitand r))
  | ["rotate_words_right", v, i] => orBad do
      let v ← pV64 v; let i ← dec 32 i; pure (outStr s64 (v.rotate_words_right p i))
  | ["splat_rotate_right", v, i] => orBad do
      let v ← pV64 v; let i ← dec 32 i; pure (outStr s64 (v.splat_rotate_right p i))
  | _ => "bad-op"

def stepU32x4x4 (p : Profile) : List String → String
  | ["from", a, b, c, d] => orBad do
      let a ← pV32 a; let b ← pV32 b; let c ← pV32 c; let d ← pV32 d
      pure (s16 (U32x4x4.from_ (a, b, c, d)))
  | ["splat", a] => orBad do let a ← pV32 a; pure (s16 (U32x4x4.splat a))
  | ["into_parts", v] => orBad do
      let v ← pV16 v
      let t := v.into_parts
      pure (s32 t.1 ++ " " ++ s32 t.2.1 ++ " " ++ s32 t.2.2.1 ++ " " ++ s32 t.2.2.2)
  | ["clone", v] => orBad do let v ← pV16 v; pure (s16 v.clone)
  | ["bitxor", v, r] => orBad do let v ← pV16 v; let r ← pV16 r; pure (s16 (v.bitxor r))
  | ["bitor", v, r] => orBad do let v ← pV16 v; let r ← pV16 r; pure (s16 (v.bitor r))
  | ["bitand", v, r] => orBad do let v ← pV16 v; let r ← pV16 r; pure (s16 (v.bitand r))
  | ["add", v, r] => orBad do let v ← pV16 v; let r ← pV16 r; pure (s16 (v.add r))
  | ["bitxor_assign", v, r] => orBad do let v ← pV16 v; let r ← pV16 r; pure (s16 (v.bitxor_assign r))
  | ["add_assign", v, r] => orBad do let v ← pV16 v; let r ← pV16 r; pure (s16 (v.add_assign r))
  | ["rotate_words_right", v, i] => orBad do
      let v ← pV16 v; let i ← dec 32 i; pure (outStr s16 (v.rotate_words_right p i))
  | ["splat_rotate_right", v, i] => orBad do
      let v ← pV16 v; let i ← dec 32 i; pure (outStr s16 (v.splat_rotate_right p i))
  | _ => "bad-op"

def step (cfg : Cfg) : List String → String
  | "null" :: "u128x1" :: rest => stepU128x1 cfg.profile rest
  | "null" :: "u128x2" :: rest => stepU128x2 cfg.profile rest
  | "null" :: "u32x4" :: rest => stepU32x4 cfg.profile rest
  | "null" :: "u64x4" :: rest => stepU64x4 cfg.profile rest
  | "null" :: "u32x4x4" :: rest => stepU32x4x4 cfg.profile rest
  | _ => "bad-op"

end CC.Drv.Null
