/-
  CC.Drv.Threefish — line-protocol handler for
    `tf  <256|512|1024> <enc|dec> <keyhex> <t0> <t1> <blockhex>`   (unrolled shape, default build)
    `tfl <256|512|1024> <enc|dec> <keyhex> <t0> <t1> <blockhex>`   (loop shape, feature `no_unroll`)
  and the round trips `encdec` = decrypt(encrypt b), `decenc` = encrypt(decrypt b) in place of `enc|dec`;
  suffixes `s` / `p` / `r` name the API path on the Rust side (block slice, par-blocks, `&Alg` forwarding) —
  the model has one block function, so they are synonyms here.
-/
import CC.Drv.Common
import CC.Threefish.Model
namespace CC.Drv.Threefish
open CC CC.Drv CC.Threefish.Model

def paramsOfName : String → Option Params
  | "256" => some tf256
  | "512" => some tf512
  | "1024" => some tf1024
  | _ => none

def run (sh : Shape) (size dir key t0 t1 blk : String) : String :=
  match paramsOfName size, bytesOfHex key, t0.toNat?, t1.toNat?, bytesOfHex blk with
  | some p, some k, some a, some b, some x =>
    if k.length = 8 * p.nw ∧ x.length = 8 * p.nw ∧ a < 2 ^ 64 ∧ b < 2 ^ 64 then
      let E := encrypt sh p k (BitVec.ofNat 64 a) (BitVec.ofNat 64 b)
      let D := decrypt sh p k (BitVec.ofNat 64 a) (BitVec.ofNat 64 b)
      -- the slice (`s`), par-blocks (`p`) and `&Alg` (`r`) API paths and the `new` constructor are
      -- wrappers: every one of them must compute the same block function as `enc` / `dec`
      match dir with
      | "enc" | "encs" | "encp" | "encr" => hexOfBytes (E x)
      | "dec" | "decs" | "decp" | "decr" => hexOfBytes (D x)
      | "encdec" | "encsdecs" | "encdecs" | "encpdecp" | "encrdecr" => hexOfBytes (D (E x))
      | "decenc" | "decsencs" | "decsenc" => hexOfBytes (E (D x))
      | _ => "bad-op"
    else "bad-op"
  | _, _, _, _, _ => "bad-op"

def step : List String → String
  | ["tf", size, dir, key, t0, t1, blk] => run .unrolled size dir key t0 t1 blk
  | ["tfl", size, dir, key, t0, t1, blk] => run .loop size dir key t0 t1 blk
  | _ => "bad-op"

end CC.Drv.Threefish
