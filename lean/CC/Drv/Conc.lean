/-
  CC.Drv.Conc — line-protocol handler for the cold-start concurrency trial (property C18)

      conc <nthreads> <seed> <rounds>

  The implementation side re-executes the harness as a fresh process in which `nthreads` threads,
  released together by a barrier, each run the *script* `script tid seed rounds` of ordinary protocol
  operations against the real library (their first calls into it), on thread-private instances.
  The model side runs the same scripts one thread after the other against the models (by C18's
  `interleave_independent` the interleaving does not matter to the models).  Both print, per
  (thread, item), the non-`ok` results of that item's operations, in canonical order, joined by `;`.

  script (identical in harness/src/ops_conc.rs):
    items 0..14 = groestl 224|256|384|512, blake 256|512, jh 256, skein 512-64|512-32|512-256,
                  chacha chacha20|chacha8|chacha12|ietf|xchacha20;   sd = seed + tid;
    order = items rotated to start at (7·tid) mod 15  (thread 0 starts with Grøstl, thread 1 with Skein, …)
    phase A (one-shot, slot = item):     new; updpat|seek+applypat (ciphers: 320 bytes more, so the 4-block bulk path runs); fin          → result item `it`
    phase B (round-robin, slot = 100+item): new all (ciphers: + seek); `rounds` times: one piece to
            every instance in turn; then fin (ciphers: pos) all                      → result item `15+it`
-/
import CC.Drv.Common
import CC.Drv.ChaCha
import CC.Drv.Blake
import CC.Drv.JH
import CC.Drv.Groestl
import CC.Drv.Skein
namespace CC.Drv.Conc
open CC CC.Drv

/-- (family, variant, nonce length) of the fifteen items. -/
def items : List (String × String × Nat) :=
  [("groestl", "224", 0), ("groestl", "256", 0), ("groestl", "384", 0), ("groestl", "512", 0),
   ("blake", "256", 0), ("blake", "512", 0), ("jh", "256", 0), ("skein", "512-64", 0),
   ("skein", "512-32", 0), ("skein", "512-256", 0),
   ("chacha", "chacha20", 8), ("chacha", "chacha8", 8), ("chacha", "chacha12", 8),
   ("chacha", "ietf", 12), ("chacha", "xchacha20", 24)]

def nItems : Nat := 15

def order (tid : Nat) : List Nat := (List.range nItems).map fun j => (7 * tid + j) % nItems

def lenA (seed tid it : Nat) : Nat := (seed * 7 + tid * 13 + it * 29) % 97
def offA (seed tid it : Nat) : Nat := (seed * 3 + tid * 17 + it * 5) % 200
def lenB (seed tid it r : Nat) : Nat := (seed + tid * 5 + it * 11 + r * 37) % 41
def offB (seed tid it : Nat) : Nat := (seed * 11 + tid * 3 + it * 7) % 300

def item (it : Nat) : String × String × Nat := items.getD it ("", "", 0)

def newLine (it slot sd : Nat) : List String :=
  let (fam, var, nl) := item it
  if fam = "chacha" then
    ["chacha", "new", toString slot, var, hexOrDash (patBytes (sd + it) 32), hexOrDash (patBytes (sd + 100 + it) nl)]
  else [fam, "new", toString slot, var]

/-- the script of thread `tid`: (result item, protocol line as tokens). -/
def script (tid seed rounds : Nat) : List (Nat × List String) :=
  let sd := seed + tid
  let ord := order tid
  let isC := fun it => (item it).1 = "chacha"
  let phaseA := ord.flatMap fun it =>
    let fam := (item it).1
    let slot := toString it
    if isC it then
      [(it, newLine it it sd),
       (it, ["chacha", "seek", slot, "u64", toString (offA seed tid it)]),
       (it, ["chacha", "applypat", slot, toString (320 + lenA seed tid it), toString sd])] ++
      (if (item it).2.1 = "chacha20" ∧ tid < 3 then [(it, ["chacha", "applysum", slot, "66048"])] else [])
    else
      [(it, newLine it it sd),
       (it, [fam, "updpat", slot, toString (lenA seed tid it), toString sd]),
       (it, [fam, "fin", slot])]
  let newB := ord.flatMap fun it =>
    let slot := toString (100 + it)
    if isC it then
      [(nItems + it, newLine it (100 + it) sd),
       (nItems + it, ["chacha", "seek", slot, "u64", toString (offB seed tid it)])]
    else [(nItems + it, newLine it (100 + it) sd)]
  let roundsB := (List.range rounds).flatMap fun r => ord.map fun it =>
    let fam := (item it).1
    (nItems + it, [fam, if isC it then "applypat" else "updpat", toString (100 + it),
                   toString (lenB seed tid it r), toString (sd + 1 + r)])
  let finB := ord.map fun it =>
    let fam := (item it).1
    if isC it then (nItems + it, ["chacha", "pos", toString (100 + it), "u64"])
    else (nItems + it, [fam, "fin", toString (100 + it)])
  phaseA ++ newB ++ roundsB ++ finB

/-- the instances of one thread. -/
structure TSt where
  chacha : CC.Drv.ChaCha.St := {}
  blake : CC.Drv.Blake.St := {}
  jh : CC.Drv.JH.St := {}
  groestl : CC.Drv.Groestl.St := {}
  skein : CC.Drv.Skein.St := {}

def stepT (cfg : Cfg) (ts : TSt) (toks : List String) : TSt × String :=
  match toks with
  | "chacha" :: _ => let (s, o) := CC.Drv.ChaCha.step cfg ts.chacha toks; ({ ts with chacha := s }, o)
  | "blake" :: _ => let (s, o) := CC.Drv.Blake.step cfg ts.blake toks; ({ ts with blake := s }, o)
  | "jh" :: _ => let (s, o) := CC.Drv.JH.step cfg ts.jh toks; ({ ts with jh := s }, o)
  | "groestl" :: _ => let (s, o) := CC.Drv.Groestl.step cfg ts.groestl toks; ({ ts with groestl := s }, o)
  | "skein" :: _ => let (s, o) := CC.Drv.Skein.step cfg ts.skein toks; ({ ts with skein := s }, o)
  | _ => (ts, "bad-op")

/-- run a thread's script on fresh instances; per result item, the non-`ok` results in order. -/
def runThread (cfg : Cfg) (tid seed rounds : Nat) : List String :=
  let (_, res) := (script tid seed rounds).foldl
    (fun (acc : TSt × List (Nat × String)) (l : Nat × List String) =>
      let (ts', o) := stepT cfg acc.1 l.2
      (ts', if o = "ok" then acc.2 else acc.2 ++ [(l.1, o)]))
    (({} : TSt), [])
  (List.range (2 * nItems)).map fun idx =>
    s!"{tid}.{idx}=" ++ ",".intercalate ((res.filter (·.1 == idx)).map (·.2))

def step (cfg : Cfg) : List String → String
  | ["conc", n, seed, rounds] =>
    match n.toNat?, seed.toNat?, rounds.toNat? with
    | some n, some seed, some rounds =>
      if n = 0 ∨ n > 256 ∨ rounds > 64 then "bad-op" else
      ";".intercalate ((List.range n).flatMap fun tid => runThread cfg tid seed rounds)
    | _, _, _ => "bad-op"
  -- focused trial (`focus`: the item every thread calls first, `warm`: warm the feature cache first):
  -- scheduling hints for the real threads only; the sequential results are the same
  | ["conc", n, seed, rounds, _focus, _warm] => step cfg ["conc", n, seed, rounds]
  | _ => "bad-op"

end CC.Drv.Conc
