/-
  CC.Drv.Skein — line-protocol handler for `skein …` operations.
    skein new <slot> <256|512|1024>-<Nbytes>      ok
    skein update <slot> <hex> | updpat <slot> <len> <seed> | clone <a> <b> | reset <slot>     ok
    skein fin <slot>  → hex (finalize a copy) ;  skein finreset <slot> → hex
    skein inject <slot> <variant> <x hex> <t0> <t1> <buffered hex>  ok   (C17)
    skein setctr <slot> <u64>  ok ;  skein getctr <slot> → "<t0> <t1>" ; skein getx <slot> → hex of x
  A call that panics prints `panic` and discards the slot (the Rust object is in an unspecified
  partially-updated state after unwinding; the generators re-create the slot before further use).
-/
import CC.Drv.Common
import CC.Skein.Model
namespace CC.Drv.Skein
open CC CC.Drv CC.Skein.Model

structure Slot where
  P : Params
  n : Nat
  h : Hasher

structure St where
  slots : List (Nat × Slot) := []

def dropSlot (st : St) (k : Nat) : St := { slots := st.slots.filter (fun p => p.1 != k) }

def paramsOfName : String → Option Params
  | "256" => some skein256
  | "512" => some skein512
  | "1024" => some skein1024
  | _ => none

def parseVariant (s : String) : Option (Params × Nat) :=
  match s.splitOn "-" with
  | [a, b] =>
    match paramsOfName a, b.toNat? with
    | some p, some n => if n ≥ 1 then some (p, n) else none
    | _, _ => none
  | _ => none

def updateOp (cfg : Cfg) (st : St) (slot : Nat) (data : List (BitVec 8)) : St × String :=
  match getSlot st.slots slot with
  | none => (st, "bad-op")
  | some s =>
    match update cfg.profile s.P s.h data with
    | .ok h => ({ slots := setSlot st.slots slot { s with h := h } }, "ok")
    | .err => (st, "err")
    | .panic _ => (dropSlot st slot, "panic")

def step (cfg : Cfg) (st : St) : List String → St × String
  | ["skein", "new", slot, variant] =>
    match slot.toNat?, parseVariant variant with
    | some k, some (p, n) =>
      match default cfg.profile p n with
      | .ok h => ({ slots := setSlot st.slots k { P := p, n := n, h := h } }, "ok")
      | .err => (st, "err")
      | .panic _ => (st, "panic")
    | _, _ => (st, "bad-op")
  | ["skein", "update", slot, hex] =>
    match slot.toNat?, bytesOfHex hex with
    | some k, some d => updateOp cfg st k d
    | _, _ => (st, "bad-op")
  | ["skein", "updpat", slot, len, seed] =>
    match slot.toNat?, len.toNat?, seed.toNat? with
    | some k, some l, some sd => updateOp cfg st k (patBytes sd l)
    | _, _, _ => (st, "bad-op")
  | ["skein", "clone", a, b] =>
    match a.toNat?, b.toNat? with
    | some a, some b =>
      match getSlot st.slots a with
      | some s => ({ slots := setSlot st.slots b s }, "ok")
      | none => (st, "bad-op")
    | _, _ => (st, "bad-op")
  | ["skein", "reset", slot] =>
    match slot.toNat? with
    | some k =>
      match getSlot st.slots k with
      | none => (st, "bad-op")
      | some s =>
        match reset cfg.profile s.P s.n s.h with
        | .ok h => ({ slots := setSlot st.slots k { s with h := h } }, "ok")
        | .err => (st, "err")
        | .panic _ => (dropSlot st k, "panic")
    | none => (st, "bad-op")
  | ["skein", "fin", slot] =>
    match slot.toNat? with
    | some k =>
      match getSlot st.slots k with
      | none => (st, "bad-op")
      | some s => (st, outStr hexOfBytes (finalize cfg.profile s.P s.n s.h))
    | none => (st, "bad-op")
  | ["skein", "finreset", slot] | ["skein", "finreset2", slot] =>
    match slot.toNat? with
    | some k =>
      match getSlot st.slots k with
      | none => (st, "bad-op")
      | some s =>
        match finalizeReset cfg.profile s.P s.n s.h with
        | .ok (h, out) => ({ slots := setSlot st.slots k { s with h := h } }, hexOfBytes out)
        | .err => (st, "err")
        | .panic _ => (dropSlot st k, "panic")
    | none => (st, "bad-op")
  | ["skein", "setctr", slot, val] =>
    match slot.toNat?, val.toNat? with
    | some k, some v =>
      if v ≥ 2 ^ 64 then (st, "bad-op") else
      match getSlot st.slots k with
      | none => (st, "bad-op")
      | some s => ({ slots := setSlot st.slots k { s with h := setByteCount s.h (BitVec.ofNat 64 v) } }, "ok")
    | _, _ => (st, "bad-op")
  | ["skein", "inject", slot, variant, x, t0, t1, buf] =>
    -- C17: a hasher with the given chaining value `x`, tweak words and buffered bytes (`input_lazy`
    -- keeps 1..nb bytes back): the state a real instance was observed in after a long prefix
    match slot.toNat?, parseVariant variant, bytesOfHex x, t0.toNat?, t1.toNat?, bytesOfHex buf with
    | some k, some (p, n), some x, some t0, some t1, some buf =>
      if x.length = p.nb ∧ buf.length ≤ p.nb ∧ t0 < 2 ^ 64 ∧ t1 < 2 ^ 64 then
        let h : Hasher := { state := { t0 := BitVec.ofNat 64 t0, t1 := BitVec.ofNat 64 t1, x := x },
                            buffer := { buf := CC.Buffer.splice (List.replicate p.nb 0) 0 buf, pos := buf.length } }
        ({ slots := setSlot st.slots k { P := p, n := n, h := h } }, "ok")
      else (st, "bad-op")
    | _, _, _, _, _, _ => (st, "bad-op")
  | ["skein", "getctr", slot] =>
    match slot.toNat? with
    | some k =>
      match getSlot st.slots k with
      | none => (st, "bad-op")
      | some s =>
        let r := getState s.h
        (st, toString r.2.1.toNat ++ " " ++ toString r.2.2.toNat)
    | none => (st, "bad-op")
  | ["skein", "getx", slot] =>
    match slot.toNat? with
    | some k =>
      match getSlot st.slots k with
      | none => (st, "bad-op")
      | some s => (st, hexOfBytes (getState s.h).1)
    | none => (st, "bad-op")
  | _ => (st, "bad-op")

end CC.Drv.Skein
