/-
  CC.Drv.JH — line-protocol handler for `jh …` operations (hasher slots, hooks, and the
  compression-function component ops `jh f8` (Model on `cfg.mach`) / `jh specf8` (Spec)).
-/
import CC.Drv.Common
import CC.JH.Spec
import CC.JH.Model
namespace CC.Drv.JH
open CC CC.JH CC.JH.Model CC.Drv

structure St where
  hashers : List (Nat × Hasher) := []

def doUpdate (cfg : Cfg) (st : St) (slot : Nat) (data : List (BitVec 8)) : St × String :=
  match getSlot st.hashers slot with
  | none => (st, "bad-op")
  | some h =>
    match h.update cfg.mach cfg.profile data with
    | .ok h' => ({ st with hashers := setSlot st.hashers slot h' }, "ok")
    | .err => (st, "err")
    | .panic _ => (st, "panic")

def step (cfg : Cfg) (st : St) : List String → St × String
  | ["jh", "new", slot, n] =>
    match slot.toNat?, n.toNat? with
    | some s, some n =>
      if n = 224 ∨ n = 256 ∨ n = 384 ∨ n = 512 then
        ({ st with hashers := setSlot st.hashers s (Hasher.new n) }, "ok")
      else (st, "bad-op")
    | _, _ => (st, "bad-op")
  | ["jh", "update", slot, hex] =>
    match slot.toNat?, bytesOfHex hex with
    | some s, some d => doUpdate cfg st s d
    | _, _ => (st, "bad-op")
  | ["jh", "updpat", slot, len, seed] =>
    match slot.toNat?, len.toNat?, seed.toNat? with
    | some s, some l, some sd => doUpdate cfg st s (patBytes sd l)
    | _, _, _ => (st, "bad-op")
  | ["jh", "clone", a, b] =>
    match a.toNat?, b.toNat? with
    | some a, some b =>
      match getSlot st.hashers a with
      | some h => ({ st with hashers := setSlot st.hashers b h }, "ok")
      | none => (st, "bad-op")
    | _, _ => (st, "bad-op")
  | ["jh", "reset", slot] =>
    match slot.toNat? with
    | some s =>
      match getSlot st.hashers s with
      | some h => ({ st with hashers := setSlot st.hashers s h.reset }, "ok")
      | none => (st, "bad-op")
    | none => (st, "bad-op")
  | ["jh", "finreset", slot] | ["jh", "finreset2", slot] =>
    match slot.toNat? with
    | some s =>
      match getSlot st.hashers s with
      | some h =>
        match h.finalizeReset cfg.mach cfg.profile with
        | .ok (h', d) => ({ st with hashers := setSlot st.hashers s h' }, hexOfBytes d)
        | .err => (st, "err")
        | .panic _ => (st, "panic")
      | none => (st, "bad-op")
    | none => (st, "bad-op")
  | ["jh", "fin", slot] =>
    match slot.toNat? with
    | some s =>
      match getSlot st.hashers s with
      | some h => (st, outStr hexOfBytes (h.finalize cfg.mach cfg.profile))
      | none => (st, "bad-op")
    | none => (st, "bad-op")
  | ["jh", "findirty", slot] =>
    -- `FixedOutputDirty::finalize_into_dirty` on the slot itself (the hasher stays dirty)
    match slot.toNat? with
    | some s =>
      match getSlot st.hashers s with
      | some h =>
        match h.finalizeDirty cfg.mach cfg.profile with
        | .ok (h', d) => ({ st with hashers := setSlot st.hashers s h' }, hexOfBytes d)
        | .err => (st, "err")
        | .panic _ => (st, "panic")
      | none => (st, "bad-op")
    | none => (st, "bad-op")
  | ["jh", "setctr", slot, v] =>
    match slot.toNat?, v.toNat? with
    | some s, some v =>
      if v ≥ 2 ^ 64 then (st, "bad-op") else
      match getSlot st.hashers s with
      | some h => ({ st with hashers := setSlot st.hashers s (h.setDatalen v) }, "ok")
      | none => (st, "bad-op")
    | _, _ => (st, "bad-op")
  | ["jh", "inject", slot, n, cv, datalen, buf] =>
    -- C17: a hasher with the given 128-byte chaining value (format of `getstate`), `datalen` and
    -- buffered bytes: the state a real instance was observed in after streaming a long prefix
    match slot.toNat?, n.toNat?, bytesOfHex cv, datalen.toNat?, bytesOfHex buf with
    | some s, some n, some cv, some dl, some buf =>
      if (n = 224 ∨ n = 256 ∨ n = 384 ∨ n = 512) ∧ cv.length = 128 ∧ buf.length < 64 ∧ dl < 2 ^ 64 then
        let h : Hasher := { n := n, state := Compressor.new cv,
                            buffer := { buf := CC.Buffer.splice (List.replicate 64 0) 0 buf, pos := buf.length },
                            datalen := dl }
        ({ st with hashers := setSlot st.hashers s h }, "ok")
      else (st, "bad-op")
    | _, _, _, _, _ => (st, "bad-op")
  | ["jh", "getctr", slot] =>
    match slot.toNat? with
    | some s =>
      match getSlot st.hashers s with
      | some h => (st, toString h.getState.2)
      | none => (st, "bad-op")
    | none => (st, "bad-op")
  | ["jh", "getstate", slot] =>
    match slot.toNat? with
    | some s =>
      match getSlot st.hashers s with
      | some h => (st, hexOfBytes h.getState.1)
      | none => (st, "bad-op")
    | none => (st, "bad-op")
  | ["jh", "f8", state, block] =>
    match bytesOfHex state, bytesOfHex block with
    | some s, some b =>
      if s.length = 128 ∧ b.length = 64 then (st, hexOfBytes (f8 cfg.mach s b)) else (st, "bad-op")
    | _, _ => (st, "bad-op")
  | ["jh", "specf8", state, block] =>
    match bytesOfHex state, bytesOfHex block with
    | some s, some b =>
      if s.length = 128 ∧ b.length = 64 then (st, hexOfBytes (Spec.F8bytes s b)) else (st, "bad-op")
    | _, _ => (st, "bad-op")
  | ["jh", "spechash", n, hex] =>
    -- Spec.jh on a whole message (offline cross-check; the harness runs the real one-shot digest)
    match n.toNat?, bytesOfHex hex with
    | some n, some d =>
      if n = 224 ∨ n = 256 ∨ n = 384 ∨ n = 512 then (st, hexOfBytes (Spec.jh n d)) else (st, "bad-op")
    | _, _ => (st, "bad-op")
  | _ => (st, "bad-op")

end CC.Drv.JH
