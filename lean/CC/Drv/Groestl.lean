/-
  CC.Drv.Groestl — line-protocol handler for `groestl …` operations.
-/
import CC.Drv.Common
import CC.Groestl.Spec
import CC.Groestl.Model
namespace CC.Drv.Groestl
open CC CC.Drv CC.Groestl CC.Groestl.Model

structure St where
  hs : List (Nat × Any) := []

def variantOfName : String → Option Variant
  | "224" => some .g224
  | "256" => some .g256
  | "384" => some .g384
  | "512" => some .g512
  | _ => none

def updateOp (cfg : Cfg) (st : St) (slot : Nat) (data : List (BitVec 8)) : St × String :=
  match getSlot st.hs slot with
  | none => (st, "bad-op")
  | some h =>
    let (h', dead) := h.updateRaw cfg.profile data
    ({ st with hs := setSlot st.hs slot h' }, if dead then "panic" else "ok")

def step (cfg : Cfg) (st : St) : List String → St × String
  | ["groestl", "new", slot, bits] =>
    match slot.toNat?, variantOfName bits with
    | some s, some v => ({ st with hs := setSlot st.hs s (Any.default v) }, "ok")
    | _, _ => (st, "bad-op")
  | ["groestl", "update", slot, hex] =>
    match slot.toNat?, bytesOfHex hex with
    | some s, some d => updateOp cfg st s d
    | _, _ => (st, "bad-op")
  | ["groestl", "updpat", slot, len, seed] =>
    match slot.toNat?, len.toNat?, seed.toNat? with
    | some s, some l, some sd => updateOp cfg st s (patBytes sd l)
    | _, _, _ => (st, "bad-op")
  | ["groestl", "clone", a, b] =>
    match a.toNat?, b.toNat? with
    | some a, some b =>
      match getSlot st.hs a with
      | some h => ({ st with hs := setSlot st.hs b h }, "ok")
      | none => (st, "bad-op")
    | _, _ => (st, "bad-op")
  | ["groestl", "reset", slot] =>
    match slot.toNat? with
    | some s =>
      match getSlot st.hs s with
      | some h => ({ st with hs := setSlot st.hs s h.reset }, "ok")
      | none => (st, "bad-op")
    | none => (st, "bad-op")
  | ["groestl", "finreset", slot] | ["groestl", "finreset2", slot] =>
    match slot.toNat? with
    | some s =>
      match getSlot st.hs s with
      | some h =>
        match h.finalizeReset cfg.profile with
        | .ok (h', out) => ({ st with hs := setSlot st.hs s h' }, hexOfBytes out)
        | .err => (st, "err")
        | .panic _ => (st, "panic")    -- the count is computed before anything is modified
      | none => (st, "bad-op")
    | none => (st, "bad-op")
  | ["groestl", "fin", slot] =>
    match slot.toNat? with
    | some s =>
      match getSlot st.hs s with
      | some h => (st, outStr hexOfBytes (h.finalize cfg.profile))
      | none => (st, "bad-op")
    | none => (st, "bad-op")
  | ["groestl", "setctr", slot, v] =>
    match slot.toNat?, v.toNat? with
    | some s, some v =>
      if v ≥ 2 ^ 64 then (st, "bad-op") else
      match getSlot st.hs s with
      | some h => ({ st with hs := setSlot st.hs s (h.setCounter (BitVec.ofNat 64 v)) }, "ok")
      | none => (st, "bad-op")
    | _, _ => (st, "bad-op")
  | ["groestl", "getctr", slot] =>
    match slot.toNat? with
    | some s =>
      match getSlot st.hs s with
      | some h => (st, toString h.getCounter.toNat)
      | none => (st, "bad-op")
    | none => (st, "bad-op")
  | ["groestl", "spec", bits, hex] =>
    match variantOfName bits, bytesOfHex hex with
    | some v, some m => (st, hexOfBytes (Spec.groestl v.bits m))
    | _, _ => (st, "bad-op")
  | _ => (st, "bad-op")

end CC.Drv.Groestl
