/-
  CC.Drv.Blake — line-protocol handler for `blake …` operations.
-/
import CC.Drv.Common
import CC.Blake.Model
namespace CC.Drv.Blake
open CC CC.Blake CC.Drv CC.Simd

inductive AnyH where
  | h32 (bits : Nat) (s : Hasher 32 (BitVec 128))
  | h64 (bits : Nat) (s : Hasher 64 (BitVec 256))

structure St where
  hs : List (Nat × AnyH) := []

def kit32 (M : Mach) (bits : Nat) : Kit 32 (BitVec 128) := if bits = 224 then kit224 M else kit256 M
def kit64 (M : Mach) (bits : Nat) : Kit 64 (BitVec 256) := if bits = 384 then kit384 M else kit512 M

def newH (M : Mach) : Nat → Option AnyH
  | 224 => some (.h32 224 (Hasher.default (kit224 M)))
  | 256 => some (.h32 256 (Hasher.default (kit256 M)))
  | 384 => some (.h64 384 (Hasher.default (kit384 M)))
  | 512 => some (.h64 512 (Hasher.default (kit512 M)))
  | _ => none

def updateH (cfg : Cfg) (h : AnyH) (data : List (BitVec 8)) : Out AnyH :=
  match h with
  | .h32 b s => update (kit32 cfg.mach b) cfg.profile s data >>= fun s' => .ok (.h32 b s')
  | .h64 b s => update (kit64 cfg.mach b) cfg.profile s data >>= fun s' => .ok (.h64 b s')

def finResetH (cfg : Cfg) (h : AnyH) : Out (AnyH × List (BitVec 8)) :=
  match h with
  | .h32 b s => finalizeReset (kit32 cfg.mach b) cfg.profile s >>= fun r => .ok (.h32 b r.1, r.2)
  | .h64 b s => finalizeReset (kit64 cfg.mach b) cfg.profile s >>= fun r => .ok (.h64 b r.1, r.2)

def finH (cfg : Cfg) (h : AnyH) : Out (List (BitVec 8)) :=
  match h with
  | .h32 b s => finalize (kit32 cfg.mach b) cfg.profile s
  | .h64 b s => finalize (kit64 cfg.mach b) cfg.profile s

def resetH (cfg : Cfg) : AnyH → AnyH
  | .h32 b s => .h32 b (reset (kit32 cfg.mach b) s)
  | .h64 b s => .h64 b (reset (kit64 cfg.mach b) s)

def setCtrH (h : AnyH) (t0 t1 : Nat) : Option AnyH :=
  match h with
  | .h32 b s => if t0 < 2 ^ 32 ∧ t1 < 2 ^ 32 then some (.h32 b (setCounter s (BitVec.ofNat 32 t0, BitVec.ofNat 32 t1))) else none
  | .h64 b s => if t0 < 2 ^ 64 ∧ t1 < 2 ^ 64 then some (.h64 b (setCounter s (BitVec.ofNat 64 t0, BitVec.ofNat 64 t1))) else none

def getCtrH : AnyH → String
  | .h32 _ s => toString s.t.1.toNat ++ " " ++ toString s.t.2.toNat
  | .h64 _ s => toString s.t.1.toNat ++ " " ++ toString s.t.2.toNat

def getStateH : AnyH → String
  | .h32 _ s => hexOfBytes ((getState32 s).1.flatMap fun x => toBeBytes x 4)
  | .h64 _ s => hexOfBytes ((getState64 s).1.flatMap fun x => toBeBytes x 8)

/-- `blake inject <slot> <bits> <cv hex> <t0> <t1> <buffered hex>` (C17): a hasher whose chaining
    value (8 big-endian words, the format of `getstate`), counter and buffered bytes are given — the
    state a real instance was observed in through `verif_get_state` after streaming a long prefix. -/
def injectH (bits : Nat) (cv buf : List (BitVec 8)) (t0 t1 : Nat) : Option AnyH :=
  let bb := fun (b : Nat) => ({ buf := CC.Buffer.splice (List.replicate b 0) 0 buf, pos := buf.length } : CC.Buffer.BB)
  if bits = 224 ∨ bits = 256 then
    if cv.length = 32 ∧ buf.length < 64 ∧ t0 < 2 ^ 32 ∧ t1 < 2 ^ 32 then
      let wd := fun i => ofBeBytes 32 ((cv.drop (4 * i)).take 4)
      some (.h32 bits { compressor := { h0 := pack32 (wd 0) (wd 1) (wd 2) (wd 3), h1 := pack32 (wd 4) (wd 5) (wd 6) (wd 7) },
                        buffer := bb 64, t := (BitVec.ofNat 32 t0, BitVec.ofNat 32 t1) })
    else none
  else if bits = 384 ∨ bits = 512 then
    if cv.length = 64 ∧ buf.length < 128 ∧ t0 < 2 ^ 64 ∧ t1 < 2 ^ 64 then
      let wd := fun i => ofBeBytes 64 ((cv.drop (8 * i)).take 8)
      some (.h64 bits { compressor := { h0 := pack64x4 (wd 0) (wd 1) (wd 2) (wd 3), h1 := pack64x4 (wd 4) (wd 5) (wd 6) (wd 7) },
                        buffer := bb 128, t := (BitVec.ofNat 64 t0, BitVec.ofNat 64 t1) })
    else none
  else none

/-- `blake putblock 256 …`: chaining value given as 8 big-endian words -/
def putBlock32 (M : Mach) (h block : List (BitVec 8)) (t0 t1 : Nat) : String :=
  let wd := fun i => ofBeBytes 32 ((h.drop (4 * i)).take 4)
  let st : Compressor (BitVec 128) :=
    { h0 := pack32 (wd 0) (wd 1) (wd 2) (wd 3), h1 := pack32 (wd 4) (wd 5) (wd 6) (wd 7) }
  let r := putBlock (vops32 M) cp32 st block (BitVec.ofNat 32 t0, BitVec.ofNat 32 t1)
  hexOfBytes ([lane32 r.h0 0, lane32 r.h0 1, lane32 r.h0 2, lane32 r.h0 3,
               lane32 r.h1 0, lane32 r.h1 1, lane32 r.h1 2, lane32 r.h1 3].flatMap fun x => toBeBytes x 4)

def putBlock64 (M : Mach) (h block : List (BitVec 8)) (t0 t1 : Nat) : String :=
  let wd := fun i => ofBeBytes 64 ((h.drop (8 * i)).take 8)
  let st : Compressor (BitVec 256) :=
    { h0 := pack64x4 (wd 0) (wd 1) (wd 2) (wd 3), h1 := pack64x4 (wd 4) (wd 5) (wd 6) (wd 7) }
  let r := putBlock (vops64 M) cp64 st block (BitVec.ofNat 64 t0, BitVec.ofNat 64 t1)
  hexOfBytes ([w64 r.h0 0, w64 r.h0 1, w64 r.h0 2, w64 r.h0 3,
               w64 r.h1 0, w64 r.h1 1, w64 r.h1 2, w64 r.h1 3].flatMap fun x => toBeBytes x 8)

def withSlot (st : St) (slot : String) (f : Nat → AnyH → St × String) : St × String :=
  match slot.toNat? with
  | none => (st, "bad-op")
  | some s =>
    match getSlot st.hs s with
    | none => (st, "bad-op")
    | some h => f s h

def doUpdate (cfg : Cfg) (st : St) (slot : String) (data : List (BitVec 8)) : St × String :=
  withSlot st slot fun s h =>
    match updateH cfg h data with
    | .ok h' => ({ st with hs := setSlot st.hs s h' }, "ok")
    | .err => (st, "err")
    | .panic _ => (st, "panic")

def step (cfg : Cfg) (st : St) : List String → St × String
  | ["blake", "new", slot, bits] =>
    match slot.toNat?, bits.toNat? with
    | some s, some b =>
      match newH cfg.mach b with
      | some h => ({ st with hs := setSlot st.hs s h }, "ok")
      | none => (st, "bad-op")
    | _, _ => (st, "bad-op")
  | ["blake", "update", slot, hex] =>
    match bytesOfHex hex with
    | some d => doUpdate cfg st slot d
    | none => (st, "bad-op")
  | ["blake", "updpat", slot, len, seed] =>
    match len.toNat?, seed.toNat? with
    | some l, some sd => doUpdate cfg st slot (patBytes sd l)
    | _, _ => (st, "bad-op")
  | ["blake", "clone", a, b] =>
    match b.toNat? with
    | some b => withSlot st a fun _ h => ({ st with hs := setSlot st.hs b h }, "ok")
    | none => (st, "bad-op")
  | ["blake", "reset", slot] =>
    withSlot st slot fun s h => ({ st with hs := setSlot st.hs s (resetH cfg h) }, "ok")
  | ["blake", "finreset", slot] | ["blake", "finreset2", slot] =>
    withSlot st slot fun s h =>
      match finResetH cfg h with
      | .ok (h', out) => ({ st with hs := setSlot st.hs s h' }, hexOfBytes out)
      | .err => (st, "err")
      | .panic _ => (st, "panic")
  | ["blake", "fin", slot] =>
    withSlot st slot fun _ h => (st, outStr hexOfBytes (finH cfg h))
  | ["blake", "setctr", slot, t0, t1] =>
    match t0.toNat?, t1.toNat? with
    | some t0, some t1 =>
      withSlot st slot fun s h =>
        match setCtrH h t0 t1 with
        | some h' => ({ st with hs := setSlot st.hs s h' }, "ok")
        | none => (st, "bad-op")
    | _, _ => (st, "bad-op")
  | ["blake", "inject", slot, bits, cv, t0, t1, buf] =>
    match slot.toNat?, bits.toNat?, bytesOfHex cv, t0.toNat?, t1.toNat?, bytesOfHex buf with
    | some s, some b, some cv, some t0, some t1, some buf =>
      match injectH b cv buf t0 t1 with
      | some h => ({ st with hs := setSlot st.hs s h }, "ok")
      | none => (st, "bad-op")
    | _, _, _, _, _, _ => (st, "bad-op")
  | ["blake", "getctr", slot] => withSlot st slot fun _ h => (st, getCtrH h)
  | ["blake", "getstate", slot] => withSlot st slot fun _ h => (st, getStateH h)
  | ["blake", "putblock", ws, h, block, t0, t1] =>
    match bytesOfHex h, bytesOfHex block, t0.toNat?, t1.toNat? with
    | some h, some blk, some t0, some t1 =>
      if ws = "256" ∧ h.length = 32 ∧ blk.length = 64 ∧ t0 < 2 ^ 32 ∧ t1 < 2 ^ 32 then
        (st, putBlock32 cfg.mach h blk t0 t1)
      else if ws = "512" ∧ h.length = 64 ∧ blk.length = 128 ∧ t0 < 2 ^ 64 ∧ t1 < 2 ^ 64 then
        (st, putBlock64 cfg.mach h blk t0 t1)
      else (st, "bad-op")
    | _, _, _, _ => (st, "bad-op")
  | _ => (st, "bad-op")

end CC.Drv.Blake
