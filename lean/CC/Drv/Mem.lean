/-
  CC.Drv.Mem — line-protocol handler for the guard-page operations of C16

    mem chacha <variant> <keyhex> <noncehex> <pos> <len> <seed> <front|back> <align>   → hex of the output
    mem hash <blake|groestl|jh|skein> <variant> <len> <seed> <front|back> <align>      → digest
    mem tf <256|512|1024> <enc|dec> <keyhex> <t0> <t1> <seed> <front|back> <align>     → block (in place)
    mem simd <backend> <type> <read_le|read_be|write_le|write_be> <seed> <front|back> <align>
    mem simdlen <backend> <type> <op> <len> <seed> <front|back> <align>                (any slice length)

  The harness puts the slice (`len` bytes of `patBytes seed`) directly after (`front`) or before
  (`back`) a `PROT_NONE` page, `align` bytes off a 64-byte boundary where the geometry allows, and
  runs the real API on it.  The model side computes the result from the functional models and
  IGNORES the placement — that is the alignment-independence claim; `result_ignores_address`
  (CC/Thm/C16.lean) states it.  A fault kills the harness, its output stops short of the model's and
  tools/check reports the operation.

  `mem simdlen` consults the footprint model: the call panics iff
  `(footprint (.storeBytes shape op) lens).panicked`.
-/
import CC.Drv.Common
import CC.Drv.ChaCha
import CC.Drv.Blake
import CC.Drv.Groestl
import CC.Drv.JH
import CC.Drv.Skein
import CC.Drv.Threefish
import CC.Drv.Simd
import CC.Mem.Footprint
namespace CC.Drv.Mem
open CC CC.Drv

/-- the decimal numerals 0..63 -/
def alignNames : List String := ["0", "1", "2", "3", "4", "5", "6", "7", "8", "9", "10", "11", "12", "13", "14", "15", "16", "17", "18", "19", "20", "21", "22", "23", "24", "25", "26", "27", "28", "29", "30", "31", "32", "33", "34", "35", "36", "37", "38", "39", "40", "41", "42", "43", "44", "45", "46", "47", "48", "49", "50", "51", "52", "53", "54", "55", "56", "57", "58", "59", "60", "61", "62", "63"]

/-- `front|back`, `align ∈ 0..63` -/
def validPlace (place align : String) : Bool :=
  (place == "front" || place == "back") && alignNames.contains align

inductive Args where
  | chacha (variant key nonce pos len seed : String)
  | hash (family variant len seed : String)
  | tf (size dir key t0 t1 seed : String)
  | simd (backend ty op seed : String)
  | simdlen (backend ty op len seed : String)

/-- `chacha new` / `seek u64` / `applypat` on a fresh cipher; when that succeeded, a SECOND request of
    77 bytes (pattern `seed + 1`, ordinary heap buffer on the Rust side) on the same object, appended after
    `|`: a slice of any length and placement must also leave the object where the next call expects it -/
def chachaRes (cfg : Cfg) (variant key nonce pos len seed : String) : String :=
  let (s1, r1) := CC.Drv.ChaCha.step cfg {} ["chacha", "new", "0", variant, key, nonce]
  if r1 != "ok" then r1 else
  let (s2, r2) := CC.Drv.ChaCha.step cfg s1 ["chacha", "seek", "0", "u64", pos]
  if r2 != "ok" then r2 else
  let (s3, r3) := CC.Drv.ChaCha.step cfg s2 ["chacha", "applypat", "0", len, seed]
  if r3 = "err" ∨ r3 = "panic" ∨ r3 = "bad-op" then r3 else
  match seed.toNat? with
  | none => "bad-op"
  | some sd => r3 ++ "|" ++ (CC.Drv.ChaCha.step cfg s3 ["chacha", "applypat", "0", "77", toString (sd + 1)]).2

/-- `<family> new` / `updpat` / `fin` on a fresh hasher -/
def hashRes (cfg : Cfg) (family variant len seed : String) : String :=
  match family with
  | "blake" =>
    let (s1, r1) := CC.Drv.Blake.step cfg {} ["blake", "new", "0", variant]
    if r1 != "ok" then r1 else
    let (s2, r2) := CC.Drv.Blake.step cfg s1 ["blake", "updpat", "0", len, seed]
    if r2 != "ok" then r2 else (CC.Drv.Blake.step cfg s2 ["blake", "fin", "0"]).2
  | "groestl" =>
    let (s1, r1) := CC.Drv.Groestl.step cfg {} ["groestl", "new", "0", variant]
    if r1 != "ok" then r1 else
    let (s2, r2) := CC.Drv.Groestl.step cfg s1 ["groestl", "updpat", "0", len, seed]
    if r2 != "ok" then r2 else (CC.Drv.Groestl.step cfg s2 ["groestl", "fin", "0"]).2
  | "jh" =>
    let (s1, r1) := CC.Drv.JH.step cfg {} ["jh", "new", "0", variant]
    if r1 != "ok" then r1 else
    let (s2, r2) := CC.Drv.JH.step cfg s1 ["jh", "updpat", "0", len, seed]
    if r2 != "ok" then r2 else (CC.Drv.JH.step cfg s2 ["jh", "fin", "0"]).2
  | "skein" =>
    let (s1, r1) := CC.Drv.Skein.step cfg {} ["skein", "new", "0", variant]
    if r1 != "ok" then r1 else
    let (s2, r2) := CC.Drv.Skein.step cfg s1 ["skein", "updpat", "0", len, seed]
    if r2 != "ok" then r2 else (CC.Drv.Skein.step cfg s2 ["skein", "fin", "0"]).2
  | _ => "bad-op"

def tfRes (size dir key t0 t1 seed : String) : String :=
  let n := match size with
    | "256" => 32 | "512" => 64 | "1024" => 128 | _ => 0
  match seed.toNat? with
  | some sd =>
    if n = 0 ∨ ¬ (dir = "enc" ∨ dir = "dec") then "bad-op" else
    CC.Drv.Threefish.step ["tf", size, dir, key, t0, t1, hexOfBytes (patBytes sd n)]
  | none => "bad-op"

def sbOpOfName : String → Option CC.Mem.SBOp
  | "read_le" => some .readLe
  | "read_be" => some .readBe
  | "write_le" => some .writeLe
  | "write_be" => some .writeBe
  | _ => none

/-- the slice has exactly the vector's size: `simd <backend> <type> <op> <pattern bytes>` -/
def simdRes (backend ty op seed : String) : String :=
  match CC.Simd.Ty.ofName ty, sbOpOfName op, seed.toNat? with
  | some τ, some _, some sd =>
    CC.Drv.Simd.step ["simd", backend, ty, op, hexOfBytes (patBytes sd (τ.bits / 8))]
  | _, _, _ => "bad-op"

/-- any slice length: the value when the footprint model says the call completes, `panic` when it
    says the call panics (the vector written is `patBytes seed (bits/8)`, the bytes read are the
    first … of `patBytes seed len`) -/
def simdLenRes (backend ty op len seed : String) : String :=
  match CC.Simd.Backend.ofName backend, CC.Simd.Ty.ofName ty, sbOpOfName op, len.toNat?, seed.toNat? with
  | some b, some τ, some o, some l, some sd =>
    let full := CC.Drv.Simd.step ["simd", backend, ty, op, hexOfBytes (patBytes sd (τ.bits / 8))]
    match CC.Mem.shapeOf b τ with
    | none => full        -- `unsupported`
    | some s =>
      if full == "unsupported" || full == "bad-op" then full else
      if (CC.Mem.footprint (.storeBytes s o) ⟨l, l, 0⟩).panicked then "panic" else full
  | _, _, _, _, _ => "bad-op"

def res (cfg : Cfg) : Args → String
  | .chacha v k n p l s => chachaRes cfg v k n p l s
  | .hash f v l s => hashRes cfg f v l s
  | .tf sz d k t0 t1 s => tfRes sz d k t0 t1 s
  | .simd b t o s => simdRes b t o s
  | .simdlen b t o l s => simdLenRes b t o l s

/-- the result of a `mem` operation: the placement is validated and otherwise ignored -/
def run (cfg : Cfg) (a : Args) (place align : String) : String :=
  if validPlace place align then res cfg a else "bad-op"

def step (cfg : Cfg) : List String → String
  | ["mem", "chacha", v, k, n, p, l, s, place, align] => run cfg (.chacha v k n p l s) place align
  | ["mem", "hash", f, v, l, s, place, align] => run cfg (.hash f v l s) place align
  | ["mem", "tf", sz, d, k, t0, t1, s, place, align] => run cfg (.tf sz d k t0 t1 s) place align
  | ["mem", "simd", b, t, o, s, place, align] => run cfg (.simd b t o s) place align
  | ["mem", "simdlen", b, t, o, l, s, place, align] => run cfg (.simdlen b t o l s) place align
  | _ => "bad-op"

end CC.Drv.Mem
