/-
  CC.Drv.Simd — line-protocol handler for

      simd <backend> <type> <op> <operands…>      executed on `CC.Simd.impl <backend> <type>`
                                                  (the transcription of the Rust, NOT the meaning)
      intrin <name> <operands…>                   executed on `CC.X86.<name>`

  Vectors, elements and scalars are hex strings of their little-endian storage bytes; immediates
  and indices are decimal.  Several results (`to_lanes`, `transpose4`, `to_scalars`) are joined
  with `,`.  An operation outside `provided b τ` prints `unsupported`; an out-of-range index or a
  byte string of the wrong length prints `panic` (every backend panics there: array index,
  `unreachable!()`, `panic!()`, `assert_eq!(input.len(), 16)`, `read_from_bytes(..).unwrap()`).
-/
import CC.Drv.Common
import CC.Simd.Impl
import CC.Simd.Impl.Eq
import CC.X86.Intrin
namespace CC.Drv.Simd
open CC CC.Simd

def vecOfHex (n : Nat) (s : String) : Option (BitVec n) :=
  match bytesOfHex s with
  | some bs => if bs.length * 8 = n then some (ofLeBytes n bs) else none
  | none => none

def hexOfVec {n : Nat} (v : BitVec n) : String := hexOfBytes (toLeBytes v (n / 8))

def joinComma (xs : List String) : String := String.intercalate "," xs

def allOps : List OpK :=
  [.add, .xor, .and, .or, .andnot, .not] ++ rot64Ks.map .rotr ++ shufCodes.map .shuffle ++
  shufCodes.map .shuffleLane ++ swapKs.map .swap ++
  [.bswap, .extract, .insert, .toLanes, .fromLanes, .readLe, .readBe, .writeLe, .writeBe,
   .transpose4, .toScalars]

def opOfName (s : String) : Option OpK := allOps.find? (fun o => o.name == s)

def mapM? {α β} (f : α → Option β) : List α → Option (List β)
  | [] => some []
  | x :: xs => do
    let y ← f x
    let ys ← mapM? f xs
    pure (y :: ys)

def un {n : Nat} (f : BitVec n → BitVec n) : List String → String
  | [a] => match vecOfHex n a with
    | some a => hexOfVec (f a)
    | none => "bad-op"
  | _ => "bad-op"

def bin {n : Nat} (f : BitVec n → BitVec n → BitVec n) : List String → String
  | [a, b] => match vecOfHex n a, vecOfHex n b with
    | some a, some b => hexOfVec (f a b)
    | _, _ => "bad-op"
  | _ => "bad-op"

def runOp {n m : Nat} (V : VOps n m) (cnt : Nat) (b : Backend) (o : OpK) (args : List String) : String :=
  match o with
  | .add => bin V.add args
  | .xor => bin V.xor args
  | .and => bin V.and args
  | .or => bin V.or args
  | .andnot => bin V.andnot args
  | .not => un V.not args
  | .rotr k => un (V.rotr k) args
  | .shuffle c => un (V.shuffle c) args
  | .shuffleLane c => un (V.shuffleLane c) args
  | .swap k => un (V.swap k) args
  | .bswap => un V.bswap args
  | .extract =>
    match args with
    | [a, i] => match vecOfHex n a, i.toNat? with
      | some a, some i => if i < cnt then hexOfVec (V.extract a i) else "panic"
      | _, _ => "bad-op"
    | _ => "bad-op"
  | .insert =>
    match args with
    | [a, w, i] => match vecOfHex n a, vecOfHex m w, i.toNat? with
      | some a, some w, some i => if i < cnt then hexOfVec (V.insert a w i) else "panic"
      | _, _, _ => "bad-op"
    | _ => "bad-op"
  | .toLanes =>
    match args with
    | [a] => match vecOfHex n a with
      | some a => joinComma ((V.toLanes a).map hexOfVec)
      | none => "bad-op"
    | _ => "bad-op"
  | .fromLanes =>
    match mapM? (vecOfHex m) args with
    | some xs => if xs.length = cnt then hexOfVec (V.fromLanes xs) else "bad-op"
    | none => "bad-op"
  | .readLe =>
    match args with
    | [bs] => match bytesOfHex bs with
      | some bs => if bs.length * 8 = n then hexOfVec (V.readLe bs) else "panic"
      | none => "bad-op"
    | _ => "bad-op"
  | .readBe =>
    match args with
    | [bs] => match bytesOfHex bs with
      | some bs => if bs.length * 8 = n then hexOfVec (V.readBe bs) else "panic"
      | none => "bad-op"
    | _ => "bad-op"
  | .writeLe =>
    match args with
    | [a] => match vecOfHex n a with
      | some a => hexOfBytes (V.writeLe a)
      | none => "bad-op"
    | _ => "bad-op"
  | .writeBe =>
    match args with
    | [a] => match vecOfHex n a with
      | some a => hexOfBytes (V.writeBe a)
      | none => "bad-op"
    | _ => "bad-op"
  | .transpose4 =>
    match mapM? (vecOfHex 512) args with
    | some [a, b', c, d] =>
      let (r0, r1, r2, r3) := implTranspose4 b a b' c d
      joinComma [hexOfVec r0, hexOfVec r1, hexOfVec r2, hexOfVec r3]
    | _ => "bad-op"
  | .toScalars =>
    match mapM? (vecOfHex 512) args with
    | some [a] => joinComma ((implToScalars b a).map hexOfVec)
    | _ => "bad-op"

/-- `simd <backend> <type> eq <a> <b>`: the `==` of the Rust type the backend uses for `<type>` (one of the ten vector
    types or `vec128_storage` / `vec256_storage` / `vec512_storage`); `unsupported` where that type has no `PartialEq` -/
def eqStep (bname tname : String) (args : List String) : String :=
  match Backend.ofName bname, EqTy.ofName tname with
  | some b, some t =>
    match veq b t with
    | none => "unsupported"
    | some f =>
      match args with
      | [x, y] => match vecOfHex t.bits x, vecOfHex t.bits y with
        | some x, some y => toString (f x y)
        | _, _ => "bad-op"
      | _ => "bad-op"
  | _, _ => "bad-op"

def simdStep (toks : List String) : String :=
  match toks with
  | bname :: tname :: "eq" :: args => eqStep bname tname args
  | bname :: tname :: oname :: args =>
    match Backend.ofName bname, Ty.ofName tname, opOfName oname with
    | some b, some τ, some o =>
      if (provided b τ).contains o then runOp (impl b τ) τ.count b o args else "unsupported"
    | _, _, _ => "bad-op"
  | _ => "bad-op"

/-! ### `intrin` -/

open CC.X86 in
def intrinStep (name : String) (args : List String) : String :=
  let v := vecOfHex 128
  let w := vecOfHex 256
  let q := vecOfHex 64
  let d := vecOfHex 32
  let b := vecOfHex 8
  let vv (f : BitVec 128 → BitVec 128 → BitVec 128) : String :=
    match args with
    | [x, y] => match v x, v y with
      | some x, some y => hexOfVec (f x y)
      | _, _ => "bad-op"
    | _ => "bad-op"
  let vi (f : BitVec 128 → Nat → BitVec 128) : String :=
    match args with
    | [x, i] => match v x, i.toNat? with
      | some x, some i => hexOfVec (f x i)
      | _, _ => "bad-op"
    | _ => "bad-op"
  let ww (f : BitVec 256 → BitVec 256 → BitVec 256) : String :=
    match args with
    | [x, y] => match w x, w y with
      | some x, some y => hexOfVec (f x y)
      | _, _ => "bad-op"
    | _ => "bad-op"
  let wi (f : BitVec 256 → Nat → BitVec 256) : String :=
    match args with
    | [x, i] => match w x, i.toNat? with
      | some x, some i => hexOfVec (f x i)
      | _, _ => "bad-op"
    | _ => "bad-op"
  match name with
  | "_mm_add_epi32" => vv _mm_add_epi32
  | "_mm_add_epi64" => vv _mm_add_epi64
  | "_mm_and_si128" => vv _mm_and_si128
  | "_mm_or_si128" => vv _mm_or_si128
  | "_mm_xor_si128" => vv _mm_xor_si128
  | "_mm_andnot_si128" => vv _mm_andnot_si128
  | "_mm_shuffle_epi8" => vv _mm_shuffle_epi8
  | "_mm_cmpeq_epi8" => vv _mm_cmpeq_epi8
  | "_mm_cmpeq_epi16" => vv _mm_cmpeq_epi16
  | "_mm_cmpeq_epi32" => vv _mm_cmpeq_epi32
  | "_mm_cmpeq_epi64" => vv _mm_cmpeq_epi64
  | "_mm_movemask_epi8" =>
    match args with
    | [x] => match v x with
      | some x => hexOfVec (_mm_movemask_epi8 x)
      | none => "bad-op"
    | _ => "bad-op"
  | "_mm_unpacklo_epi8" => vv _mm_unpacklo_epi8
  | "_mm_unpackhi_epi8" => vv _mm_unpackhi_epi8
  | "_mm_packus_epi16" => vv _mm_packus_epi16
  | "_mm_srli_epi16" => vi _mm_srli_epi16
  | "_mm_slli_epi16" => vi _mm_slli_epi16
  | "_mm_srli_epi32" => vi _mm_srli_epi32
  | "_mm_slli_epi32" => vi _mm_slli_epi32
  | "_mm_srli_epi64" => vi _mm_srli_epi64
  | "_mm_slli_epi64" => vi _mm_slli_epi64
  | "_mm_srli_si128" => vi _mm_srli_si128
  | "_mm_slli_si128" => vi _mm_slli_si128
  | "_mm_shuffle_epi32" => vi _mm_shuffle_epi32
  | "_mm_shufflelo_epi16" => vi _mm_shufflelo_epi16
  | "_mm_shufflehi_epi16" => vi _mm_shufflehi_epi16
  | "_mm_alignr_epi8" =>
    match args with
    | [x, y, i] => match v x, v y, i.toNat? with
      | some x, some y, some i => hexOfVec (_mm_alignr_epi8 x y i)
      | _, _, _ => "bad-op"
    | _ => "bad-op"
  | "_mm_set_epi64x" =>
    match args with
    | [x, y] => match q x, q y with
      | some x, some y => hexOfVec (_mm_set_epi64x x y)
      | _, _ => "bad-op"
    | _ => "bad-op"
  | "_mm_set_epi32" =>
    match args with
    | [e3, e2, e1, e0] => match d e3, d e2, d e1, d e0 with
      | some e3, some e2, some e1, some e0 => hexOfVec (_mm_set_epi32 e3 e2 e1 e0)
      | _, _, _, _ => "bad-op"
    | _ => "bad-op"
  | "_mm_set1_epi8" =>
    match args with
    | [x] => match b x with
      | some x => hexOfVec (_mm_set1_epi8 x)
      | none => "bad-op"
    | _ => "bad-op"
  | "_mm_set1_epi64x" =>
    match args with
    | [x] => match q x with
      | some x => hexOfVec (_mm_set1_epi64x x)
      | none => "bad-op"
    | _ => "bad-op"
  | "_mm_setzero_si128" => hexOfVec _mm_setzero_si128
  | "_mm_cvtsi64_si128" =>
    match args with
    | [x] => match q x with
      | some x => hexOfVec (_mm_cvtsi64_si128 x)
      | none => "bad-op"
    | _ => "bad-op"
  | "_mm_cvtsi128_si64" =>
    match args with
    | [x] => match v x with
      | some x => hexOfVec (_mm_cvtsi128_si64 x)
      | none => "bad-op"
    | _ => "bad-op"
  | "_mm_cvtsi32_si128" =>
    match args with
    | [x] => match d x with
      | some x => hexOfVec (_mm_cvtsi32_si128 x)
      | none => "bad-op"
    | _ => "bad-op"
  | "_mm_extract_epi64" =>
    match args with
    | [x, i] => match v x, i.toNat? with
      | some x, some i => hexOfVec (_mm_extract_epi64 x i)
      | _, _ => "bad-op"
    | _ => "bad-op"
  | "_mm_insert_epi64" =>
    match args with
    | [x, y, i] => match v x, q y, i.toNat? with
      | some x, some y, some i => hexOfVec (_mm_insert_epi64 x y i)
      | _, _, _ => "bad-op"
    | _ => "bad-op"
  | "_mm_insert_epi32" =>
    match args with
    | [x, y, i] => match v x, d y, i.toNat? with
      | some x, some y, some i => hexOfVec (_mm_insert_epi32 x y i)
      | _, _, _ => "bad-op"
    | _ => "bad-op"
  | "_mm_move_epi64" =>
    match args with
    | [x] => match v x with
      | some x => hexOfVec (_mm_move_epi64 x)
      | none => "bad-op"
    | _ => "bad-op"
  | "_mm_loadu_si128" =>
    match args with
    | [x] => match bytesOfHex x with
      | some bs => if bs.length = 16 then hexOfVec (_mm_loadu_si128 bs) else "bad-op"
      | none => "bad-op"
    | _ => "bad-op"
  | "_mm_storeu_si128" =>
    match args with
    | [x] => match v x with
      | some x => hexOfBytes (_mm_storeu_si128 x)
      | none => "bad-op"
    | _ => "bad-op"
  | "_mm256_add_epi32" => ww _mm256_add_epi32
  | "_mm256_and_si256" => ww _mm256_and_si256
  | "_mm256_or_si256" => ww _mm256_or_si256
  | "_mm256_xor_si256" => ww _mm256_xor_si256
  | "_mm256_andnot_si256" => ww _mm256_andnot_si256
  | "_mm256_shuffle_epi8" => ww _mm256_shuffle_epi8
  | "_mm256_srli_epi32" => wi _mm256_srli_epi32
  | "_mm256_slli_epi32" => wi _mm256_slli_epi32
  | "_mm256_shuffle_epi32" => wi _mm256_shuffle_epi32
  | "_mm256_permute2x128_si256" =>
    match args with
    | [x, y, i] => match w x, w y, i.toNat? with
      | some x, some y, some i => hexOfVec (_mm256_permute2x128_si256 x y i)
      | _, _, _ => "bad-op"
    | _ => "bad-op"
  | "_mm256_extracti128_si256" =>
    match args with
    | [x, i] => match w x, i.toNat? with
      | some x, some i => hexOfVec (_mm256_extracti128_si256 x i)
      | _, _ => "bad-op"
    | _ => "bad-op"
  | "_mm256_inserti128_si256" =>
    match args with
    | [x, y, i] => match w x, v y, i.toNat? with
      | some x, some y, some i => hexOfVec (_mm256_inserti128_si256 x y i)
      | _, _, _ => "bad-op"
    | _ => "bad-op"
  | "_mm256_setr_m128i" =>
    match args with
    | [x, y] => match v x, v y with
      | some x, some y => hexOfVec (_mm256_setr_m128i x y)
      | _, _ => "bad-op"
    | _ => "bad-op"
  | "_mm256_set1_epi8" =>
    match args with
    | [x] => match b x with
      | some x => hexOfVec (_mm256_set1_epi8 x)
      | none => "bad-op"
    | _ => "bad-op"
  | "_mm256_set_epi64x" =>
    match args with
    | [e3, e2, e1, e0] => match q e3, q e2, q e1, q e0 with
      | some e3, some e2, some e1, some e0 => hexOfVec (_mm256_set_epi64x e3 e2 e1 e0)
      | _, _, _, _ => "bad-op"
    | _ => "bad-op"
  | "_mm256_loadu_si256" =>
    match args with
    | [x] => match bytesOfHex x with
      | some bs => if bs.length = 32 then hexOfVec (_mm256_loadu_si256 bs) else "bad-op"
      | none => "bad-op"
    | _ => "bad-op"
  | "_mm256_storeu_si256" =>
    match args with
    | [x] => match w x with
      | some x => hexOfBytes (_mm256_storeu_si256 x)
      | none => "bad-op"
    | _ => "bad-op"
  | _ => "bad-op"

def step (toks : List String) : String :=
  match toks with
  | "simd" :: rest => simdStep rest
  | "intrin" :: name :: args => intrinStep name args
  | _ => "bad-op"

end CC.Drv.Simd
