/-
  CC.Drv.Common — helpers shared by the line-protocol handlers.
-/
import CC.Prim
import CC.Simd.Mach
namespace CC.Drv

/-- Global driver configuration set by `cfg` lines. -/
structure Cfg where
  profile : Profile := .release
  backend : String := "ref"
  mach : CC.Simd.Mach := CC.Simd.Mach.ref

def setSlot {α} (xs : List (Nat × α)) (k : Nat) (v : α) : List (Nat × α) :=
  (k, v) :: xs.filter (fun p => p.1 != k)

def getSlot {α} (xs : List (Nat × α)) (k : Nat) : Option α :=
  (xs.find? (fun p => p.1 == k)).map (·.2)

def parseInt (s : String) : Option Int :=
  if s.startsWith "-" then (s.drop 1).toNat?.map (fun n => -(n : Int))
  else s.toNat?.map (fun n => (n : Int))

def outStr {α} (f : α → String) : Out α → String
  | .ok a => f a
  | .err => "err"
  | .panic _ => "panic"

end CC.Drv
