/-
  CC.Drv.ChaCha — line-protocol handler for `chacha …` and `guts …` operations.
-/
import CC.Drv.Common
import CC.ChaCha.Stream
import CC.ChaCha.Eq
namespace CC.Drv.ChaCha
open CC CC.ChaCha CC.Drv

structure St where
  ciphers : List (Nat × Cipher) := []
  guts : List (Nat × Guts) := []

def variantOfName : String → Option Spec.Variant
  | "chacha8" => some ⟨.djb, 4⟩
  | "chacha12" => some ⟨.djb, 6⟩
  | "chacha20" => some ⟨.djb, 10⟩
  | "ietf" => some ⟨.ietf, 10⟩
  | "xchacha8" => some ⟨.x, 4⟩
  | "xchacha12" => some ⟨.x, 6⟩
  | "xchacha20" => some ⟨.x, 10⟩
  | _ => none

def seekTyOfName : String → Option SeekTy
  | "u8" => some .u8
  | "u16" => some .u16
  | "u32" => some .u32
  | "u64" => some .u64
  | "u128" => some .u128
  | "usize" => some .usize
  | "i32" => some .i32
  | _ => none

def applyOp (cfg : Cfg) (st : St) (slot : Nat) (data : List (BitVec 8)) : St × String :=
  match getSlot st.ciphers slot with
  | none => (st, "bad-op")
  | some c =>
    match Cipher.tryApply cfg.mach cfg.profile c data with
    | .ok (c', some out) => ({ st with ciphers := setSlot st.ciphers slot c' }, hexOrDash out)
    | .ok (c', none) => ({ st with ciphers := setSlot st.ciphers slot c' }, "err")
    | .err => (st, "err")
    | .panic _ => (st, "panic")

/-- 64-byte digest of an output: byte `i` is xored into cell `(i + i/64) mod 64` (sensitive to which
    block a byte came from); used by `applysum` for requests too long to print. -/
def foldSum (out : List (BitVec 8)) : List (BitVec 8) :=
  let rec go (l : List (BitVec 8)) (i : Nat) (acc : Array (BitVec 8)) : Array (BitVec 8) :=
    match l with
    | [] => acc
    | b :: t => let k := (i + i / 64) % 64; go t (i + 1) (acc.set! k (acc[k]! ^^^ b))
  (go out 0 (Array.replicate 64 0)).toList

def step (cfg : Cfg) (st : St) : List String → St × String
  | ["chacha", "applysum", slot, len] =>
    match slot.toNat?, len.toNat? with
    | some s, some n =>
      match getSlot st.ciphers s with
      | none => (st, "bad-op")
      | some c =>
        match Cipher.tryApply cfg.mach cfg.profile c (List.replicate n 0) with
        | .ok (c', some out) => ({ st with ciphers := setSlot st.ciphers s c' }, hexOfBytes (foldSum out))
        | .ok (c', none) => ({ st with ciphers := setSlot st.ciphers s c' }, "err")
        | .err => (st, "err")
        | .panic _ => (st, "panic")
    | _, _ => (st, "bad-op")
  | ["chacha", "new", slot, vname, key, nonce] =>
    match slot.toNat?, variantOfName vname, bytesOfHex key, bytesOfHex nonce with
    | some s, some v, some k, some n =>
      if k.length = 32 ∧ n.length = v.nonceLen then
        ({ st with ciphers := setSlot st.ciphers s (Cipher.new cfg.mach v k n) }, "ok")
      else (st, "bad-op")
    | _, _, _, _ => (st, "bad-op")
  | ["chacha", "clone", a, b] =>
    match a.toNat?, b.toNat? with
    | some a, some b =>
      match getSlot st.ciphers a with
      | some c => ({ st with ciphers := setSlot st.ciphers b c }, "ok")
      | none => (st, "bad-op")
    | _, _ => (st, "bad-op")
  | ["chacha", "seek", slot, ty, val] =>
    match slot.toNat?, seekTyOfName ty, parseInt val with
    | some s, some t, some v =>
      if v < t.min ∨ v > (t.max : Int) then (st, "bad-op") else
      match getSlot st.ciphers s with
      | none => (st, "bad-op")
      | some c =>
        match Cipher.trySeek cfg.mach c v with
        | .ok (c', true) => ({ st with ciphers := setSlot st.ciphers s c' }, "ok")
        | .ok (c', false) => ({ st with ciphers := setSlot st.ciphers s c' }, "err")
        | .err => (st, "err")
        | .panic _ => (st, "panic")
    | _, _, _ => (st, "bad-op")
  | ["chacha", "apply", slot, hex] =>
    match slot.toNat?, bytesOfHex hex with
    | some s, some d => applyOp cfg st s d
    | _, _ => (st, "bad-op")
  | ["chacha", "applypat", slot, len, seed] =>
    match slot.toNat?, len.toNat?, seed.toNat? with
    | some s, some l, some sd => applyOp cfg st s (patBytes sd l)
    | _, _, _ => (st, "bad-op")
  -- one request of `n` zero bytes (n ≥ 128, too long for the model to execute byte by byte):
  -- answer = first 64 and last 64 keystream bytes, obtained through the model's own seek/apply at
  -- the two ends (by `CC.Thm.C02.rechunk`/`history_refines` the bytes of a request depend only on
  -- their absolute positions); the instance is left at position p + n like the real one.
  | ["chacha", "bigapply", slot, len] =>
    match slot.toNat?, len.toNat? with
    | some s, some n =>
      match getSlot st.ciphers s with
      | none => (st, "bad-op")
      | some c =>
        if n < 128 then (st, "bad-op") else
        match Cipher.tryCurrentPos cfg.profile c .u128 with
        | .ok (some p) =>
          if p + n > c.v.limit then (st, "err") else
          match Cipher.trySeek cfg.mach c (p : Int) with
          | .ok (c1, true) =>
            match Cipher.tryApply cfg.mach cfg.profile c1 (List.replicate 64 0) with
            | .ok (c2, some first) =>
              match Cipher.trySeek cfg.mach c2 ((p + n - 64 : Nat) : Int) with
              | .ok (c3, true) =>
                match Cipher.tryApply cfg.mach cfg.profile c3 (List.replicate 64 0) with
                | .ok (c4, some last) =>
                  ({ st with ciphers := setSlot st.ciphers s c4 }, hexOfBytes first ++ ":" ++ hexOfBytes last)
                | _ => (st, "model-error")
              | _ => (st, "model-error")
            | _ => (st, "model-error")
          | _ => (st, "model-error")
        | _ => (st, "model-error")
    | _, _ => (st, "bad-op")
  | ["chacha", "pos", slot, ty] =>
    match slot.toNat?, seekTyOfName ty with
    | some s, some t =>
      match getSlot st.ciphers s with
      | none => (st, "bad-op")
      | some c =>
        match Cipher.tryCurrentPos cfg.profile c t with
        | .ok (some p) => (st, toString p)
        | .ok none => (st, "overflow")
        | .err => (st, "err")
        | .panic _ => (st, "panic")
    | _, _ => (st, "bad-op")
  -- block-level API
  | ["guts", "new", slot, key, nonce] =>
    match slot.toNat?, bytesOfHex key, bytesOfHex nonce with
    | some s, some k, some n =>
      if k.length = 32 ∧ (n.length = 8 ∨ n.length = 12) then
        ({ st with guts := setSlot st.guts s (gutsNew k n) }, "ok")
      else (st, "bad-op")
    | _, _, _ => (st, "bad-op")
  | ["guts", "clone", a, b] =>
    match a.toNat?, b.toNat? with
    | some a, some b =>
      match getSlot st.guts a with
      | some c => ({ st with guts := setSlot st.guts b c }, "ok")
      | none => (st, "bad-op")
    | _, _ => (st, "bad-op")
  | ["guts", "refill", slot, dr] =>
    match slot.toNat?, dr.toNat? with
    | some s, some dr =>
      match getSlot st.guts s with
      | none => (st, "bad-op")
      | some g =>
        let (out, g') := refill cfg.mach g dr
        ({ st with guts := setSlot st.guts s g' }, hexOfBytes out)
    | _, _ => (st, "bad-op")
  | ["guts", "refill4", slot, dr] =>
    match slot.toNat?, dr.toNat? with
    | some s, some dr =>
      match getSlot st.guts s with
      | none => (st, "bad-op")
      | some g =>
        let (out, g') := refill4 cfg.mach g dr
        ({ st with guts := setSlot st.guts s g' }, hexOfBytes out)
    | _, _ => (st, "bad-op")
  | ["guts", "set", slot, param, val] =>
    match slot.toNat?, param.toNat?, val.toNat? with
    | some s, some p, some v =>
      if p ≥ 4294967296 then (st, "bad-op") else     -- `param: u32`
      match getSlot st.guts s with
      | none => (st, "bad-op")
      | some g =>
        match setStreamParam g p (BitVec.ofNat 64 v) with
        | .ok g' => ({ st with guts := setSlot st.guts s g' }, "ok")
        | _ => (st, "panic")
    | _, _, _ => (st, "bad-op")
  | ["guts", "get", slot, param] =>
    match slot.toNat?, param.toNat? with
    | some s, some p =>
      if p ≥ 4294967296 then (st, "bad-op") else     -- `param: u32`
      match getSlot st.guts s with
      | none => (st, "bad-op")
      | some g =>
        match getStreamParam g p with
        | .ok v => (st, toString v.toNat)
        | _ => (st, "panic")
    | _, _ => (st, "bad-op")
  | ["guts", "eq32", a, b] =>
    match a.toNat?, b.toNat? with
    | some a, some b =>
      match getSlot st.guts a, getSlot st.guts b with
      | some x, some y => (st, toString (stream32Eq x y))
      | _, _ => (st, "bad-op")
    | _, _ => (st, "bad-op")
  | ["guts", "eqd", a, b] =>
    -- the derived `PartialEq` of `ChaCha` (three `vec128_storage` comparisons; CC.ChaCha.Guts.eqOn)
    match a.toNat?, b.toNat? with
    | some a, some b =>
      match getSlot st.guts a, getSlot st.guts b with
      | some x, some y => (st, toString (Guts.eqOn (if cfg.backend == "generic" then .generic else .sse2) x y))
      | _, _ => (st, "bad-op")
    | _, _ => (st, "bad-op")
  | ["guts", "eq64", a, b] =>
    match a.toNat?, b.toNat? with
    | some a, some b =>
      match getSlot st.guts a, getSlot st.guts b with
      | some x, some y => (st, toString (stream64Eq x y))
      | _, _ => (st, "bad-op")
    | _, _ => (st, "bad-op")
  | _ => (st, "bad-op")

end CC.Drv.ChaCha
